/-
Helper lemmas for Props/C11.lean and Props/C12.lean: the candidate sequence of `newName` is injective,
pigeonhole, the fresh-name search returns the first candidate that is not taken; basic facts about
`findName` / `nameOf` / `lookup`.
-/
import GoderiveModel.G.TypesMap
import GoderiveModel.Lemmas.Prefix

deriving instance DecidableEq for Except

namespace Goderive.G

/-! ### `itoa` is injective -/

def atoi (ds : Name) : Nat := ds.foldl (fun a d => a * 10 + (d - 48)) 0

theorem atoi_append_single (l : Name) (d : Nat) : atoi (l ++ [d]) = atoi l * 10 + (d - 48) := by
  simp [atoi, List.foldl_append]

theorem atoi_itoaAux : ∀ (fuel n : Nat), n ≤ fuel → atoi (itoaAux fuel n) = n
  | 0, n, h => by
    have : n = 0 := by omega
    subst this; simp [itoaAux, atoi]
  | fuel + 1, n, h => by
    unfold itoaAux
    split
    · simp [atoi]
    · rename_i h10
      rw [atoi_append_single, atoi_itoaAux fuel (n / 10) (by omega)]
      omega

theorem atoi_itoa (n : Nat) : atoi (itoa n) = n := atoi_itoaAux n n (Nat.le_refl n)

theorem itoa_injective {a b : Nat} (h : itoa a = itoa b) : a = b := by
  have := congrArg atoi h
  rwa [atoi_itoa, atoi_itoa] at this

theorem itoaAux_ne_nil : ∀ (fuel n : Nat), itoaAux fuel n ≠ []
  | 0, n => by simp [itoaAux]
  | fuel + 1, n => by
    unfold itoaAux
    split <;> simp

theorem itoa_length_pos (n : Nat) : 0 < (itoa n).length :=
  List.length_pos_iff.mpr (itoaAux_ne_nil n n)

/-! ### the candidates are pairwise distinct -/

theorem Letter.bytes_length_pos (l : Letter) : 0 < l.bytes.length := by simp [Letter.bytes]

theorem flat_cons (l : Letter) (ls : List Letter) : flat (l :: ls) = l.bytes ++ flat ls := by
  simp [flat]

theorem flat_take_length_lt : ∀ (ls : List Letter) (i j : Nat), i < j → j ≤ ls.length →
    (flat (ls.take i)).length < (flat (ls.take j)).length
  | [], i, j, hij, hj => by simp at hj; omega
  | l :: ls, 0, j + 1, _, _ => by
    simp [Letter.bytes, flat]
  | l :: ls, i + 1, j + 1, hij, hj => by
    have := flat_take_length_lt ls i j (by omega) (by simpa using hj)
    simp [flat_cons]
    omega

theorem flat_take_length_le (ls : List Letter) (i : Nat) : (flat (ls.take i)).length ≤ (flat ls).length := by
  induction ls generalizing i with
  | nil => simp
  | cons l ls ih =>
    cases i with
    | zero => simp [flat]
    | succ i =>
      have := ih i
      simp [flat_cons]
      omega

theorem cand_injective {pfx : Name} {name : List Letter} {i j : Nat}
    (h : cand pfx name i = cand pfx name j) : i = j := by
  unfold cand at h
  by_cases hi : i > name.length <;> by_cases hj : j > name.length <;> simp only [hi, hj, if_true, if_false] at h
  · have h1 := List.append_cancel_left h
    simp only [List.cons.injEq, true_and] at h1
    exact itoa_injective (List.append_cancel_left h1)
  · have h1 := List.append_cancel_left h
    simp only [List.cons.injEq, true_and] at h1
    have := congrArg List.length h1
    have h2 := flat_take_length_le name j
    have h3 := itoa_length_pos i
    simp at this
    omega
  · have h1 := List.append_cancel_left h
    simp only [List.cons.injEq, true_and] at h1
    have := congrArg List.length h1
    have h2 := flat_take_length_le name i
    have h3 := itoa_length_pos j
    simp at this
    omega
  · have h1 := List.append_cancel_left h
    simp only [List.cons.injEq, true_and] at h1
    have hlen := congrArg List.length h1
    rcases Nat.lt_trichotomy i j with hlt | heq | hgt
    · have := flat_take_length_lt name i j hlt (by omega)
      omega
    · exact heq
    · have := flat_take_length_lt name j i hgt (by omega)
      omega

theorem cand_ne_pfx (pfx : Name) (name : List Letter) (i : Nat) : cand pfx name i ≠ pfx := by
  intro h
  have := congrArg List.length h
  unfold cand at this
  split at this <;> simp at this

theorem seqAt_injective {pfx : Name} {name : List Letter} {i j : Nat}
    (h : seqAt pfx name i = seqAt pfx name j) : i = j := by
  cases i <;> cases j <;> simp only [seqAt] at h
  · rfl
  · exact absurd h.symm (cand_ne_pfx _ _ _)
  · exact absurd h (cand_ne_pfx _ _ _)
  · rw [cand_injective h]

/-! ### pigeonhole -/

theorem length_le_of_nodup_subset {α : Type} [DecidableEq α] :
    ∀ (l T : List α), l.Nodup → (∀ x ∈ l, x ∈ T) → l.length ≤ T.length
  | [], _, _, _ => by simp
  | x :: l, T, hn, hs => by
    have hx : x ∈ T := hs x (by simp)
    have hn' := (List.nodup_cons.mp hn)
    have := length_le_of_nodup_subset l (T.erase x) hn'.2 (by
      intro y hy
      have hyT := hs y (by simp [hy])
      have hne : y ≠ x := by
        intro e; subst e; exact hn'.1 hy
      exact (List.mem_erase_of_ne hne).mpr hyT)
    have hl := List.length_erase_of_mem hx
    have hpos : 0 < T.length := List.length_pos_of_mem hx
    simp only [List.length_cons]
    omega

/-- among `n+1` pairwise distinct candidates one is outside any set of at most `n` names -/
theorem exists_free_candidate (pfx : Name) (name : List Letter) (T : List Name) :
    ∃ k, k ≤ T.length ∧ seqAt pfx name k ∉ T := by
  apply Classical.byContradiction
  intro hno
  have hall : ∀ k, k ≤ T.length → seqAt pfx name k ∈ T := by
    intro k hk
    apply Classical.byContradiction
    intro h
    exact hno ⟨k, hk, h⟩
  let l := (List.range (T.length + 1)).map (seqAt pfx name)
  have hnd : l.Nodup := by
    simp only [l, List.Nodup, List.pairwise_map]
    exact (List.nodup_range (n := T.length + 1)).imp (fun hab h => hab (seqAt_injective h))
  have hsub : ∀ x ∈ l, x ∈ T := by
    intro x hx
    simp only [l, List.mem_map, List.mem_range] at hx
    obtain ⟨k, hk, rfl⟩ := hx
    exact hall k (by omega)
  have := length_le_of_nodup_subset l T hnd hsub
  simp [l] at this
  omega

/-! ### the fresh-name search returns the first candidate that is not taken -/

theorem newNameLoop_spec (taken : Name → Bool) (pfx : Name) (name : List Letter) :
    ∀ (fuel i : Nat), (∃ m, m ≤ fuel ∧ taken (cand pfx name (i + m)) = false) →
      ∃ m, m ≤ fuel ∧ newNameLoop taken pfx name fuel i = cand pfx name (i + m) ∧
        taken (cand pfx name (i + m)) = false ∧ ∀ j, j < m → taken (cand pfx name (i + j)) = true
  | 0, i, ⟨m, hm, hfree⟩ => by
    have : m = 0 := by omega
    subst this
    exact ⟨0, Nat.le_refl 0, rfl, hfree, by intro j hj; omega⟩
  | fuel + 1, i, ⟨m, hm, hfree⟩ => by
    by_cases ht : taken (cand pfx name i) = true
    · cases m with
      | zero => simp [ht] at hfree
      | succ m' =>
        have hfree' : taken (cand pfx name (i + 1 + m')) = false := by
          have : i + 1 + m' = i + (m' + 1) := by omega
          rw [this]; exact hfree
        obtain ⟨m2, hm2, heq, hf2, hall⟩ := newNameLoop_spec taken pfx name fuel (i + 1) ⟨m', by omega, hfree'⟩
        refine ⟨m2 + 1, by omega, ?_, ?_, ?_⟩
        · simp only [newNameLoop, ht, if_true]
          rw [heq]; congr 1; omega
        · have : i + (m2 + 1) = i + 1 + m2 := by omega
          rw [this]; exact hf2
        · intro j hj
          cases j with
          | zero => simpa using ht
          | succ j' =>
            have : i + (j' + 1) = i + 1 + j' := by omega
            rw [this]; exact hall j' (by omega)
    · have ht' : taken (cand pfx name i) = false := by simpa using ht
      exact ⟨0, by omega, by simp [newNameLoop, ht'], by simpa using ht', by intro j hj; omega⟩

/-- `newNameWith` returns the first candidate of the sequence that is not taken, provided the set of
taken names has at most `bound` elements (so the fuel never runs out: the Go loop terminates). -/
theorem newNameWith_spec (taken : Name → Bool) (T : List Name) (hT : ∀ n, taken n = true → n ∈ T)
    (bound : Nat) (hb : T.length ≤ bound) (pfx : Name) (name : List Letter) :
    ∃ k, k ≤ bound ∧ newNameWith taken bound pfx name = seqAt pfx name k ∧ taken (seqAt pfx name k) = false ∧
      ∀ j, j < k → taken (seqAt pfx name j) = true := by
  obtain ⟨k0, hk0, hfree⟩ := exists_free_candidate pfx name T
  have hfree' : taken (seqAt pfx name k0) = false := by
    cases h : taken (seqAt pfx name k0) with
    | false => rfl
    | true => exact absurd (hT _ h) hfree
  unfold newNameWith
  by_cases hp : taken pfx = true
  · cases k0 with
    | zero => simp [seqAt, hp] at hfree'
    | succ m0 =>
      have h0 : taken (cand pfx name (0 + m0)) = false := by simpa [seqAt] using hfree'
      obtain ⟨m, hm, heq, hf, hall⟩ := newNameLoop_spec taken pfx name bound 0 ⟨m0, by omega, h0⟩
      have hmm : m ≤ m0 := by
        apply Classical.byContradiction
        intro hlt
        have := hall m0 (by omega)
        rw [h0] at this
        exact Bool.noConfusion this
      refine ⟨m + 1, by omega, ?_, ?_, ?_⟩
      · simp only [hp, if_true, seqAt]
        simpa using heq
      · simpa [seqAt] using hf
      · intro j hj
        cases j with
        | zero => simpa [seqAt] using hp
        | succ j' => simpa [seqAt] using hall j' (by omega)
  · have hp' : taken pfx = false := by simpa using hp
    exact ⟨0, by omega, by simp [hp', seqAt], by simpa [seqAt] using hp', by intro j hj; omega⟩

/-! ### `findName`, `nameOf`, `lookup`, `taken` -/

set_option linter.unusedSectionVars false

section
variable {τ : Type} [DecidableEq τ] (R : TyRel τ)

theorem findName_some {p : List τ → Bool} : ∀ {es : List (Name × List τ)} {n : Name},
    findName p es = some n → ∃ ts, (n, ts) ∈ es ∧ p ts = true
  | [], n, h => by simp [findName] at h
  | (m, ts) :: rest, n, h => by
    unfold findName at h
    split at h
    · rename_i hp
      simp only [Option.some.injEq] at h
      subst h
      exact ⟨ts, by simp, hp⟩
    · obtain ⟨ts', hm, hp⟩ := findName_some h
      exact ⟨ts', by simp [hm], hp⟩

theorem findName_none {p : List τ → Bool} : ∀ {es : List (Name × List τ)},
    findName p es = none → ∀ e ∈ es, p e.2 = false
  | [], _, e, he => by simp at he
  | (m, ts) :: rest, h, e, he => by
    unfold findName at h
    split at h
    · simp at h
    · rename_i hp
      simp only [List.mem_cons] at he
      rcases he with rfl | he
      · simpa using hp
      · exact findName_none h e he

theorem findName_isSome_of_mem {p : List τ → Bool} : ∀ {es : List (Name × List τ)} {e : Name × List τ},
    e ∈ es → p e.2 = true → ∃ n, findName p es = some n
  | [], e, he, _ => by simp at he
  | (m, ts) :: rest, e, he, hp => by
    unfold findName
    split
    · exact ⟨m, rfl⟩
    · rename_i hnp
      simp only [List.mem_cons] at he
      rcases he with rfl | he
      · exact absurd hp hnp
      · exact findName_isSome_of_mem he hp

theorem nameOf_some {t : Table τ} {typs : List τ} {n : Name} (h : nameOf R t typs = some n) :
    ∃ ts, (n, ts) ∈ t.entries ∧ (typs = ts ∨ eqL R typs ts = true) := by
  unfold nameOf at h
  split at h
  · rename_i m hm
    simp only [Option.some.injEq] at h
    subst h
    obtain ⟨ts, hmem, hp⟩ := findName_some hm
    exact ⟨ts, hmem, Or.inl (by simpa using hp)⟩
  · obtain ⟨ts, hmem, hp⟩ := findName_some h
    exact ⟨ts, hmem, Or.inr hp⟩

theorem nameOf_none {t : Table τ} {typs : List τ} (h : nameOf R t typs = none) :
    ∀ e ∈ t.entries, typs ≠ e.2 ∧ eqL R typs e.2 = false := by
  unfold nameOf at h
  split at h
  · simp at h
  · rename_i h1
    intro e he
    exact ⟨by simpa using findName_none h1 e he, findName_none h e he⟩

/-- in a list without two entries for identical type lists, the entry for a type list is unique -/
theorem entry_unique_of_noIdent : ∀ {es : List (Name × List τ)} {n n' : Name} {ts : List τ},
    es.Pairwise (fun a b => a.2 ≠ b.2) → (n, ts) ∈ es → (n', ts) ∈ es → n = n'
  | [], _, _, _, _, h, _ => by simp at h
  | e :: rest, n, n', ts, hp, h1, h2 => by
    rw [List.pairwise_cons] at hp
    simp only [List.mem_cons] at h1 h2
    rcases h1 with h1 | h1 <;> rcases h2 with h2 | h2
    · have := h1.trans h2.symm
      exact congrArg Prod.fst this
    · have h := hp.1 (n', ts) h2
      rw [← h1] at h
      exact absurd rfl h
    · have h := hp.1 (n, ts) h1
      rw [← h2] at h
      exact absurd rfl h
    · exact entry_unique_of_noIdent hp.2 h1 h2

theorem nameOf_of_mem {t : Table τ} {typs : List τ} {n : Name}
    (hni : t.entries.Pairwise (fun a b => a.2 ≠ b.2)) (hm : (n, typs) ∈ t.entries) :
    nameOf R t typs = some n := by
  unfold nameOf
  obtain ⟨m, hmf⟩ := findName_isSome_of_mem (p := fun ts => decide (typs = ts)) hm (by simp)
  rw [hmf]
  obtain ⟨ts, hmem, hp⟩ := findName_some hmf
  have : typs = ts := by simpa using hp
  subst this
  rw [entry_unique_of_noIdent hni hmem hm]

theorem lookup_some_mem : ∀ {es : List (Name × List τ)} {n : Name} {ts : List τ},
    es.lookup n = some ts → (n, ts) ∈ es
  | [], _, _, h => by simp at h
  | (m, us) :: rest, n, ts, h => by
    rw [List.lookup_cons] at h
    split at h
    · rename_i heq
      simp only [Option.some.injEq] at h
      have : n = m := by simpa using heq
      subst this; subst h; simp
    · exact List.mem_cons_of_mem _ (lookup_some_mem h)

theorem lookup_none_iff : ∀ {es : List (Name × List τ)} {n : Name},
    es.lookup n = none ↔ n ∉ es.map (·.1)
  | [], n => by simp
  | (m, us) :: rest, n => by
    rw [List.lookup_cons]
    by_cases h : n = m
    · subst h; simp
    · have hb : (n == m) = false := by simpa using h
      rw [hb]
      simp only [List.map_cons, List.mem_cons, not_or]
      rw [lookup_none_iff (es := rest)]
      simp [h]

theorem lookup_of_mem_nodup : ∀ {es : List (Name × List τ)} {n : Name} {ts : List τ},
    (es.map (·.1)).Nodup → (n, ts) ∈ es → es.lookup n = some ts
  | [], _, _, _, h => by simp at h
  | (m, us) :: rest, n, ts, hnd, h => by
    simp only [List.map_cons, List.nodup_cons] at hnd
    rw [List.lookup_cons]
    simp only [List.mem_cons] at h
    rcases h with h | h
    · have h1 : n = m := congrArg Prod.fst h
      have h2 : ts = us := congrArg Prod.snd h
      subst h1; subst h2; simp
    · have hne : n ≠ m := by
        intro e; subst e
        exact hnd.1 (List.mem_map.mpr ⟨(n, ts), h, rfl⟩)
      have hb : (n == m) = false := by simpa using hne
      rw [hb]
      exact lookup_of_mem_nodup hnd.2 h

theorem taken_true {c : Cfg} {t : Table τ} {n : Name} (h : taken c t n = true) :
    n ∈ t.names ++ c.reserved ++ reservedWords := by
  simp only [taken, Bool.or_eq_true, List.contains_iff_mem] at h
  simp only [List.mem_append]
  exact h

theorem taken_false {c : Cfg} {t : Table τ} {n : Name} (h : taken c t n = false) :
    n ∉ t.names ∧ n ∉ c.reserved ∧ n ∉ reservedWords := by
  simp only [taken, Bool.or_eq_false_iff] at h
  refine ⟨?_, ?_, ?_⟩
  · intro hm; have := List.contains_iff_mem.mpr hm; rw [h.1.1] at this; exact Bool.noConfusion this
  · intro hm; have := List.contains_iff_mem.mpr hm; rw [h.1.2] at this; exact Bool.noConfusion this
  · intro hm; have := List.contains_iff_mem.mpr hm; rw [h.2] at this; exact Bool.noConfusion this

/-- `newName` returns the first candidate that is neither a registered nor a reserved name -/
theorem newName_spec (c : Cfg) (t : Table τ) (typs : List τ) :
    ∃ k, newName R c t typs = seqAt c.pfx (hintOf R typs) k ∧
      taken c t (seqAt c.pfx (hintOf R typs) k) = false ∧
      ∀ j, j < k → taken c t (seqAt c.pfx (hintOf R typs) j) = true := by
  obtain ⟨k, _, h1, h2, h3⟩ := newNameWith_spec (taken c t) (t.names ++ c.reserved ++ reservedWords) (fun n h => taken_true h)
    (t.entries.length + c.reserved.length + reservedWords.length) (by simp [Table.names]; omega) c.pfx (hintOf R typs)
  exact ⟨k, h1, h2, h3⟩

/-! ### the table invariant and the three outcomes of `SetFuncName` on a clash-free / clashing table -/

/-- Invariant of one name table. `entries` is the registration order by construction (a list that is
only ever appended to, see `setFuncName_sound'`). No hypothesis on `R.asg`. -/
structure Inv (t : Table τ) : Prop where
  /-- `funcToTyps` is a function: every name is bound once -/
  namesNodup : t.names.Nodup
  /-- no two names are bound to identical type lists -/
  noIdent : t.entries.Pairwise (fun a b => a.2 ≠ b.2)
  /-- the type list of a later entry is never `eq`-assignable to that of an earlier entry -/
  noEq : t.entries.Pairwise (fun a b => eqL R b.2 a.2 = false)
  /-- only registered names are marked generated -/
  generatedBound : ∀ n ∈ t.generated, n ∈ t.names


theorem names_insert (t : Table τ) (n : Name) (typs : List τ) :
    (t.insert n typs).names = t.names ++ [n] := by
  simp [Table.insert, Table.names]

/-- inserting an unbound name for a type list that `nameOf` does not find keeps the invariant -/
theorem inv_insert {t : Table τ} (h : Inv R t) {n : Name} {typs : List τ}
    (hn : n ∉ t.names) (hno : nameOf R t typs = none) : Inv R (t.insert n typs) := by
  have hnone := nameOf_none R hno
  refine ⟨?_, ?_, ?_, ?_⟩
  · rw [names_insert]
    have := h.namesNodup
    simp only [List.Nodup] at this ⊢
    rw [List.pairwise_append]
    refine ⟨this, by simp, ?_⟩
    intro a ha b hb
    simp only [List.mem_singleton] at hb
    subst hb
    intro e; subst e; exact hn ha
  · simp only [Table.insert]
    rw [List.pairwise_append]
    refine ⟨h.noIdent, by simp, ?_⟩
    intro a ha b hb
    simp only [List.mem_singleton] at hb
    subst hb
    exact fun e => (hnone a ha).1 e.symm
  · simp only [Table.insert]
    rw [List.pairwise_append]
    refine ⟨h.noEq, by simp, ?_⟩
    intro a ha b hb
    simp only [List.mem_singleton] at hb
    subst hb
    exact (hnone a ha).2
  · intro m hm
    rw [names_insert]
    exact List.mem_append_left _ (h.generatedBound m hm)

theorem inv_getFuncName' (c : Cfg) {t : Table τ} (h : Inv R t) (typs : List τ) :
    Inv R (getFuncName R c t typs).2 := by
  unfold getFuncName
  split
  · exact h
  · rename_i hno
    obtain ⟨k, hk, hfree, _⟩ := newName_spec R c t typs
    rw [← hk] at hfree
    exact inv_insert R h (taken_false hfree).1 hno

/-- the outcomes of `SetFuncName`, in the order of the Go code (78f76aa) -/
theorem setFuncName_cases' (c : Cfg) (t : Table τ) (fn : Name) (typs : List τ) :
    (∃ f, nameOf R t typs = some f ∧
      ((f = fn ∧ setFuncName R c t fn typs = .ok (fn, t)) ∨
       (f ≠ fn ∧ c.dedup = true ∧ setFuncName R c t fn typs = .ok (f, t)) ∨
       (f ≠ fn ∧ c.dedup = false ∧ c.autoname = true ∧ t.autonamedFrom f = fn ∧ setFuncName R c t fn typs = .ok (f, t)) ∨
       (f ≠ fn ∧ c.dedup = false ∧ ¬ (c.autoname = true ∧ t.autonamedFrom f = fn) ∧
          setFuncName R c t fn typs = .error (.duplicate f fn)))) ∨
    (nameOf R t typs = none ∧ ∃ ts, t.lookup fn = some ts ∧
      ((c.autoname = true ∧
          setFuncName R c t fn typs = .ok (recordAutoname (getFuncName R c t typs) fn)) ∨
       (c.autoname = false ∧ setFuncName R c t fn typs = .error (.conflict fn)))) ∨
    (nameOf R t typs = none ∧ t.lookup fn = none ∧ setFuncName R c t fn typs = .ok (fn, t.insert fn typs)) := by
  unfold setFuncName
  cases hn : nameOf R t typs with
  | some f =>
    refine Or.inl ⟨f, rfl, ?_⟩
    by_cases hf : f = fn
    · exact Or.inl ⟨hf, by simp [hf]⟩
    · cases hd : c.dedup with
      | true => exact Or.inr (Or.inl ⟨hf, rfl, by simp [hf]⟩)
      | false =>
        by_cases ha : c.autoname = true ∧ t.autonamedFrom f = fn
        · exact Or.inr (Or.inr (Or.inl ⟨hf, rfl, ha.1, ha.2, by simp [hf, ha.1, ha.2]⟩))
        · exact Or.inr (Or.inr (Or.inr ⟨hf, rfl, ha, by simp [hf, ha]⟩))
  | none =>
    cases hl : t.lookup fn with
    | some ts =>
      refine Or.inr (Or.inl ⟨rfl, ts, rfl, ?_⟩)
      cases ha : c.autoname with
      | true => exact Or.inl ⟨rfl, by simp⟩
      | false => exact Or.inr ⟨rfl, by simp⟩
    | none => exact Or.inr (Or.inr ⟨rfl, rfl, rfl⟩)

theorem recordAutoname_fst (r : Name × Table τ) (fn : Name) : (recordAutoname r fn).1 = r.1 := rfl

theorem recordAutoname_entries (r : Name × Table τ) (fn : Name) :
    (recordAutoname r fn).2.entries = r.2.entries := rfl

theorem recordAutoname_names (r : Name × Table τ) (fn : Name) :
    (recordAutoname r fn).2.names = r.2.names := rfl

theorem inv_recordAutoname {r : Name × Table τ} (h : Inv R r.2) (fn : Name) : Inv R (recordAutoname r fn).2 :=
  ⟨h.namesNodup, h.noIdent, h.noEq, h.generatedBound⟩

/-- every successful outcome, uniformly: the table is unchanged, or `(fn, typs)` was appended, or (-autoname)
a fresh unreserved name was appended for `typs` and recorded in `autonamed` -/
theorem setFuncName_ok_shape {c : Cfg} {t : Table τ} {fn : Name} {typs : List τ} {n : Name} {t' : Table τ}
    (hs : setFuncName R c t fn typs = .ok (n, t')) :
    (t' = t ∧ ∃ ts, (n, ts) ∈ t.entries ∧ (typs = ts ∨ eqL R typs ts = true ∨ eqL R ts typs = true) ∧
        (n = fn ∨ c.dedup = true ∨ (c.autoname = true ∧ t.autonamedFrom n = fn))) ∨
    (n = fn ∧ t' = t.insert fn typs ∧ nameOf R t typs = none ∧ fn ∉ t.names) ∨
    (c.autoname = true ∧ nameOf R t typs = none ∧ n = newName R c t typs ∧ n ∉ t.names ∧ n ∉ c.reserved ∧
        t' = { t.insert n typs with autonamed := (n, fn) :: t.autonamed } ∧ fn ∈ t.names) := by
  rcases setFuncName_cases' R c t fn typs with ⟨f, hn, h | h | h | h⟩ | ⟨hn, ts, hl, h | h⟩ | ⟨hn, hl, h⟩
  · rw [h.2] at hs; cases hs
    obtain ⟨ts, hm, hr⟩ := nameOf_some R hn
    rw [h.1] at hm
    exact Or.inl ⟨rfl, ts, hm, hr.elim Or.inl (fun x => Or.inr (Or.inl x)), Or.inl rfl⟩
  · rw [h.2.2] at hs; cases hs
    obtain ⟨ts, hm, hr⟩ := nameOf_some R hn
    exact Or.inl ⟨rfl, ts, hm, hr.elim Or.inl (fun x => Or.inr (Or.inl x)), Or.inr (Or.inl h.2.1)⟩
  · rw [h.2.2.2.2] at hs; cases hs
    obtain ⟨ts, hm, hr⟩ := nameOf_some R hn
    exact Or.inl ⟨rfl, ts, hm, hr.elim Or.inl (fun x => Or.inr (Or.inl x)), Or.inr (Or.inr ⟨h.2.2.1, h.2.2.2.1⟩)⟩
  · rw [h.2.2.2] at hs; cases hs
  · rw [h.2] at hs
    have e := Except.ok.inj hs
    have e1 : n = (recordAutoname (getFuncName R c t typs) fn).1 := by rw [e]
    have e2 : t' = (recordAutoname (getFuncName R c t typs) fn).2 := by rw [e]
    obtain ⟨k, hk, hfree, _⟩ := newName_spec R c t typs
    rw [← hk] at hfree
    refine Or.inr (Or.inr ⟨h.1, hn, ?_, ?_, ?_, ?_, List.mem_map.mpr ⟨(fn, ts), lookup_some_mem hl, rfl⟩⟩)
    · rw [e1]; simp [recordAutoname, getFuncName, hn]
    · rw [e1]; simpa [recordAutoname, getFuncName, hn] using (taken_false hfree).1
    · rw [e1]; simpa [recordAutoname, getFuncName, hn] using (taken_false hfree).2.1
    · rw [e2, e1]; simp [recordAutoname, getFuncName, hn, Table.insert]
  · rw [h.2] at hs; cases hs
  · rw [h] at hs; cases hs
    exact Or.inr (Or.inl ⟨rfl, rfl, hn, lookup_none_iff.mp hl⟩)

theorem inv_of_set {c : Cfg} {t : Table τ} (h : Inv R t) {fn : Name} {typs : List τ}
    {n : Name} {t' : Table τ} (hs : setFuncName R c t fn typs = .ok (n, t')) : Inv R t' := by
  rcases setFuncName_ok_shape R hs with ⟨rfl, _⟩ | ⟨_, rfl, hno, hfn⟩ | ⟨_, hno, _, hn, _, rfl, _⟩
  · exact h
  · exact inv_insert R h hfn hno
  · have := inv_insert R h hn hno
    exact ⟨this.namesNodup, this.noIdent, this.noEq, this.generatedBound⟩

theorem rename_unreachable' (c : Cfg) (t : Table τ) (fn : Name) (typs : List τ) {n : Name} {t' : Table τ}
    (ha : c.autoname = false) (hd : c.dedup = false) (hs : setFuncName R c t fn typs = .ok (n, t')) :
    n = fn := by
  rcases setFuncName_ok_shape R hs with ⟨_, _, _, _, h | h | h⟩ | ⟨h, _⟩ | ⟨h, _⟩
  · exact h
  · rw [hd] at h; exact Bool.noConfusion h
  · rw [ha] at h; exact Bool.noConfusion h.1
  · exact h
  · rw [ha] at h; exact Bool.noConfusion h

/-- a successful `SetFuncName` returns a name bound to a related type list, keeps all bindings, and adds
at most one binding, for the given type list -/
theorem setFuncName_sound' (c : Cfg) (t : Table τ) (fn : Name) (typs : List τ) {n : Name} {t' : Table τ}
    (hs : setFuncName R c t fn typs = .ok (n, t')) :
    (∃ ts, (n, ts) ∈ t'.entries ∧ (typs = ts ∨ eqL R typs ts = true ∨ eqL R ts typs = true)) ∧
    (∀ e ∈ t.entries, e ∈ t'.entries) ∧
    (∀ e ∈ t'.entries, e ∈ t.entries ∨ e.2 = typs) ∧
    (n = fn ∨ n ∈ t.names ∨ (n ∉ t.names ∧ n ∉ c.reserved)) := by
  rcases setFuncName_ok_shape R hs with ⟨rfl, ts, hm, hr, _⟩ | ⟨rfl, rfl, _, _⟩ | ⟨_, _, _, hn, hr, rfl, _⟩
  · exact ⟨⟨ts, hm, hr⟩, fun e he => he, fun e he => Or.inl he, Or.inr (Or.inl (List.mem_map.mpr ⟨(n, ts), hm, rfl⟩))⟩
  · refine ⟨⟨typs, by simp [Table.insert], Or.inl rfl⟩, fun e he => by simp [Table.insert, he], ?_, Or.inl rfl⟩
    intro e he
    simp only [Table.insert, List.mem_append, List.mem_singleton] at he
    rcases he with he | he
    · exact Or.inl he
    · exact Or.inr (by rw [he])
  · refine ⟨⟨typs, by simp [Table.insert], Or.inl rfl⟩, fun e he => by simp [Table.insert, he], ?_, Or.inr (Or.inr ⟨hn, hr⟩)⟩
    intro e he
    simp only [Table.insert, List.mem_append, List.mem_singleton] at he
    rcases he with he | he
    · exact Or.inl he
    · exact Or.inr (by rw [he])

/-- every name of the new table is an old name, the given name, or a fresh unreserved name -/
theorem hnames_of_set {c : Cfg} {t : Table τ} {fn : Name} {typs : List τ} {n : Name} {t' : Table τ}
    (hs : setFuncName R c t fn typs = .ok (n, t')) :
    ∀ e ∈ t'.entries, e ∈ t.entries ∨ e.1 = fn ∨ e.1 ∉ c.reserved := by
  rcases setFuncName_ok_shape R hs with ⟨rfl, _⟩ | ⟨_, rfl, _, _⟩ | ⟨_, _, _, _, hr, rfl, _⟩
  · exact fun e he => Or.inl he
  · intro e he
    simp only [Table.insert, List.mem_append, List.mem_singleton] at he
    rcases he with he | he
    · exact Or.inl he
    · exact Or.inr (Or.inl (by rw [he]))
  · intro e he
    simp only [Table.insert, List.mem_append, List.mem_singleton] at he
    rcases he with he | he
    · exact Or.inl he
    · exact Or.inr (Or.inr (by rw [he]; exact hr))

/-- `eq` coincides with identity between `typs` and the type lists bound in `t` -/
def EqIdAt (t : Table τ) (typs : List τ) : Prop :=
  ∀ e ∈ t.entries, (eqL R typs e.2 = true → typs = e.2) ∧ (eqL R e.2 typs = true → e.2 = typs)

theorem set_ok_of_no_clash (c : Cfg) {t : Table τ} (_hI : Inv R t) (fn : Name) (typs : List τ)
    (hE : EqIdAt R t typs)
    (h1 : ∀ e ∈ t.entries, e.1 = fn → e.2 = typs) (h2 : ∀ e ∈ t.entries, e.2 = typs → e.1 = fn) :
    ∃ t', setFuncName R c t fn typs = .ok (fn, t') ∧ (fn, typs) ∈ t'.entries ∧
      (∀ e ∈ t'.entries, e ∈ t.entries ∨ e = (fn, typs)) ∧ (∀ e ∈ t.entries, e ∈ t'.entries) ∧
      t'.autonamed = t.autonamed := by
  unfold setFuncName
  cases hn : nameOf R t typs with
  | some f =>
    obtain ⟨ts, hm, hr⟩ := nameOf_some R hn
    have hts : ts = typs := by
      rcases hr with hr | hr
      · exact hr.symm
      · exact ((hE _ hm).1 hr).symm
    subst hts
    have hf : f = fn := h2 _ hm rfl
    subst hf
    exact ⟨t, by simp, hm, fun e he => Or.inl he, fun e he => he, rfl⟩
  | none =>
    cases hl : t.lookup fn with
    | some ts =>
      have hm := lookup_some_mem hl
      have : ts = typs := h1 _ hm rfl
      subst this
      exact absurd rfl ((nameOf_none R hn _ hm).1)
    | none =>
      refine ⟨t.insert fn typs, by simp, by simp [Table.insert], ?_, fun e he => by simp [Table.insert, he], rfl⟩
      intro e he
      simpa [Table.insert] using he

/-- a duplicate is reported when -dedup is off — unless -autoname recorded that the bound name is the
renaming of this very call name (excluded here: -autoname off, or nothing recorded and a non-empty name) -/
theorem set_err_of_dup (c : Cfg) {t : Table τ} (hI : Inv R t) (fn : Name) (typs : List τ)
    (hd : c.dedup = false) (hauto : c.autoname = false ∨ (t.autonamed = [] ∧ fn ≠ []))
    (h : ∃ e ∈ t.entries, e.2 = typs ∧ e.1 ≠ fn) :
    ∃ err, setFuncName R c t fn typs = .error err := by
  obtain ⟨e, he, h2, h1⟩ := h
  have hm : (e.1, typs) ∈ t.entries := by rw [← h2]; exact he
  have hn := nameOf_of_mem R hI.noIdent hm
  have hcond : ¬ (c.autoname = true ∧ t.autonamedFrom e.1 = fn) := by
    rintro ⟨ha, hf⟩
    rcases hauto with h | ⟨h, hne⟩
    · rw [h] at ha; exact Bool.noConfusion ha
    · simp [Table.autonamedFrom, h] at hf
      first | exact hne hf | exact hne hf.symm
  unfold setFuncName
  simp only [hn, h1, hd, hcond, if_false]
  exact ⟨_, rfl⟩

theorem set_err_of_conflict (c : Cfg) {t : Table τ} (hI : Inv R t) (fn : Name) (typs : List τ)
    (hE : EqIdAt R t typs) (ha : c.autoname = false)
    (h : ∃ e ∈ t.entries, e.1 = fn ∧ e.2 ≠ typs) (hnd : ∀ e ∈ t.entries, e.2 = typs → e.1 = fn) :
    ∃ err, setFuncName R c t fn typs = .error err := by
  obtain ⟨e, he, h1, h2⟩ := h
  have hm : (fn, e.2) ∈ t.entries := by rw [← h1]; exact he
  have hl : t.lookup fn = some e.2 := lookup_of_mem_nodup hI.namesNodup hm
  unfold setFuncName
  cases hn : nameOf R t typs with
  | some f =>
    exfalso
    obtain ⟨ts, hmf, hr⟩ := nameOf_some R hn
    have hts : ts = typs := by
      rcases hr with hr | hr
      · exact hr.symm
      · exact ((hE _ hmf).1 hr).symm
    subst hts
    have hf : f = fn := hnd _ hmf rfl
    subst hf
    -- two entries for the name f: (f, e.2) and (f, ts)
    have : t.lookup f = some ts := lookup_of_mem_nodup hI.namesNodup hmf
    rw [hl] at this
    exact h2 (Option.some.inj this)
  | none =>
    simp only [hl]
    have hne : eqL R e.2 typs = false := by
      cases hq : eqL R e.2 typs with
      | false => rfl
      | true => exact absurd ((hE _ he).2 hq) h2
    simp only [hne, ha]
    exact ⟨_, rfl⟩

/-! ### clashes, defined on the call list; the registration invariant -/

def pfxs (ps : List (Plugin τ)) : List Name := ps.map (·.pfx)

/-- index (in the sorted plugin list) of the plugin whose `Add` gets the call -/
def handlerOf (ps : List (Plugin τ)) (c : Call τ) : Option Nat := handler (pfxs ps) c.name

/-- one derive function name used with two different argument type lists -/
def conflictPair (ps : List (Plugin τ)) (a b : Call τ) : Prop :=
  (handlerOf ps a).isSome ∧ a.name = b.name ∧ a.args ≠ b.args

/-- two names used for the same plugin and argument types -/
def duplicatePair (ps : List (Plugin τ)) (a b : Call τ) : Prop :=
  (handlerOf ps a).isSome ∧ handlerOf ps a = handlerOf ps b ∧ a.name ≠ b.name ∧ a.args = b.args

def Conflict (ps : List (Plugin τ)) (calls : List (Call τ)) : Prop :=
  ∃ a b, [a, b].Sublist calls ∧ conflictPair ps a b

def Duplicate (ps : List (Plugin τ)) (calls : List (Call τ)) : Prop :=
  ∃ a b, [a, b].Sublist calls ∧ duplicatePair ps a b

def NoClashPair (ps : List (Plugin τ)) (a b : Call τ) : Prop :=
  ¬ conflictPair ps a b ∧ ¬ duplicatePair ps a b

theorem noClash_iff (ps : List (Plugin τ)) (calls : List (Call τ)) :
    calls.Pairwise (NoClashPair ps) ↔ ¬ Conflict ps calls ∧ ¬ Duplicate ps calls := by
  rw [List.pairwise_iff_forall_sublist]
  constructor
  · intro h
    exact ⟨fun ⟨a, b, hs, hc⟩ => (h hs).1 hc, fun ⟨a, b, hs, hd⟩ => (h hs).2 hd⟩
  · intro h a b hs
    exact ⟨fun hc => h.1 ⟨a, b, hs, hc⟩, fun hd => h.2 ⟨a, b, hs, hd⟩⟩

/-- the quantifier's domain: on the argument type lists in play, `eq` is identity -/
def EqIsIdentityOn (L : List (List τ)) : Prop := ∀ a ∈ L, ∀ b ∈ L, eqL R a b = true → a = b

/-- every handled call passes its plugin's own argument check -/
def Accepted (ps : List (Plugin τ)) (calls : List (Call τ)) : Prop :=
  ∀ c ∈ calls, ∀ i p, handlerOf ps c = some i → ps[i]? = some p → p.accept c.args = true

theorem handlerOf_plugin {ps : List (Plugin τ)} {c : Call τ} {i : Nat} (h : handlerOf ps c = some i) :
    ∃ p, ps[i]? = some p ∧ hasPrefix c.name p.pfx = true := by
  obtain ⟨q, hq, hp⟩ := handler_some h
  simp only [pfxs, List.getElem?_map, Option.map_eq_some_iff] at hq
  obtain ⟨p, hp1, rfl⟩ := hq
  exact ⟨p, hp1, hp⟩

theorem pkgAdd_unhandled (f : Flags) {ps : List (Plugin τ)} (T : Tables τ) {c : Call τ}
    (h : handlerOf ps c = none) : pkgAdd R f ps T c = .ok none := by
  unfold pkgAdd
  unfold handlerOf pfxs at h
  simp only [h]

theorem pkgAdd_handled (f : Flags) {ps : List (Plugin τ)} (T : Tables τ) {c : Call τ} {i : Nat} {p : Plugin τ}
    (h : handlerOf ps c = some i) (hp : ps[i]? = some p) (hacc : p.accept c.args = true) :
    pkgAdd R f ps T c = match setFuncName R (f.cfg p.pfx) (T i) c.name c.args with
      | .error e => .error (.add i e)
      | .ok (n, t') => .ok (some (n, T.set i t')) := by
  unfold pkgAdd
  unfold handlerOf pfxs at h
  simp only [h, hp, hacc]
  rfl

/-- tables = exactly the (name, args) pairs of the processed calls (runs that never renamed) -/
structure Reg (ps : List (Plugin τ)) (T : Tables τ) (done : List (Call τ)) : Prop where
  inv : ∀ i, Inv R (T i)
  sound : ∀ i, ∀ e ∈ (T i).entries, ∃ c ∈ done, handlerOf ps c = some i ∧ c.name = e.1 ∧ c.args = e.2
  complete : ∀ c ∈ done, ∀ i, handlerOf ps c = some i → (c.name, c.args) ∈ (T i).entries
  /-- no call was renamed by -autoname so far -/
  noAuto : ∀ i, (T i).autonamed = []

theorem Tables.set_same (T : Tables τ) (i : Nat) (t : Table τ) : (T.set i t) i = t := by simp [Tables.set]

theorem Tables.set_other (T : Tables τ) {i j : Nat} (t : Table τ) (h : j ≠ i) : (T.set i t) j = T j := by
  simp [Tables.set, h]

theorem reg_unhandled {ps : List (Plugin τ)} {T : Tables τ} {done : List (Call τ)} {c : Call τ}
    (hReg : Reg R ps T done) (h : handlerOf ps c = none) : Reg R ps T (done ++ [c]) := by
  refine ⟨hReg.inv, ?_, ?_, hReg.noAuto⟩
  · intro i e he
    obtain ⟨c', hc', h'⟩ := hReg.sound i e he
    exact ⟨c', List.mem_append_left _ hc', h'⟩
  · intro c' hc' i hi
    simp only [List.mem_append, List.mem_singleton] at hc'
    rcases hc' with hc' | rfl
    · exact hReg.complete c' hc' i hi
    · rw [h] at hi; cases hi

theorem noClash_unhandled {ps : List (Plugin τ)} {a c : Call τ} (h : handlerOf ps c = none) :
    NoClashPair ps a c := by
  constructor
  · rintro ⟨hs, hn, _⟩
    unfold handlerOf at hs h
    rw [hn, h] at hs
    simp at hs
  · rintro ⟨hs, he, _⟩
    rw [he, h] at hs
    simp at hs

/-- one call on tables that hold exactly the earlier calls: the three outcomes -/
theorem pkgAdd_step (f : Flags) {ps : List (Plugin τ)} {T : Tables τ} {done : List (Call τ)} {c : Call τ} {i : Nat}
    (hReg : Reg R ps T done) (hacc : Accepted ps [c])
    (hEq : EqIsIdentityOn R ((done ++ [c]).map (·.args))) (hi : handlerOf ps c = some i) :
    ((∀ a ∈ done, NoClashPair ps a c) →
      ∃ t', pkgAdd R f ps T c = .ok (some (c.name, T.set i t')) ∧ Reg R ps (T.set i t') (done ++ [c])) ∧
    ((∃ a ∈ done, duplicatePair ps a c) → f.dedup = false → (f.autoname = false ∨ c.name ≠ []) →
      ∃ e, pkgAdd R f ps T c = .error e) ∧
    ((∃ a ∈ done, conflictPair ps a c) → (∀ a ∈ done, ¬ duplicatePair ps a c) → f.autoname = false →
      ∃ e, pkgAdd R f ps T c = .error e) := by
  obtain ⟨p, hp, _⟩ := handlerOf_plugin hi
  have hac : p.accept c.args = true := hacc c (by simp) i p hi hp
  have hadd := pkgAdd_handled R f T hi hp hac
  have hE : EqIdAt R (T i) c.args := by
    intro e he
    obtain ⟨c', hc', _, _, ha⟩ := hReg.sound i e he
    have m1 : c.args ∈ (done ++ [c]).map (·.args) := List.mem_map.mpr ⟨c, by simp, rfl⟩
    have m2 : e.2 ∈ (done ++ [c]).map (·.args) := List.mem_map.mpr ⟨c', by simp [hc'], ha⟩
    exact ⟨fun h => hEq _ m1 _ m2 h, fun h => hEq _ m2 _ m1 h⟩
  refine ⟨?_, ?_, ?_⟩
  · intro hno
    have h1 : ∀ e ∈ (T i).entries, e.1 = c.name → e.2 = c.args := by
      intro e he hn
      obtain ⟨c', hc', hh, hn', ha'⟩ := hReg.sound i e he
      apply Classical.byContradiction
      intro hne
      refine (hno c' hc').1 ⟨by rw [hh]; rfl, by rw [hn', hn], ?_⟩
      rw [ha']; exact hne
    have h2 : ∀ e ∈ (T i).entries, e.2 = c.args → e.1 = c.name := by
      intro e he ha
      obtain ⟨c', hc', hh, hn', ha'⟩ := hReg.sound i e he
      apply Classical.byContradiction
      intro hne
      refine (hno c' hc').2 ⟨by rw [hh]; rfl, by rw [hh, hi], ?_, by rw [ha', ha]⟩
      rw [hn']; exact hne
    obtain ⟨t', hs, hmem, hsub, hmono, hauto'⟩ := set_ok_of_no_clash R (f.cfg p.pfx) (hReg.inv i) c.name c.args hE h1 h2
    refine ⟨t', by rw [hadd, hs], ?_, ?_, ?_, ?_⟩
    · intro j
      by_cases hj : j = i
      · subst hj
        rw [Tables.set_same]
        exact inv_of_set R (hReg.inv j) hs
      · rw [Tables.set_other _ _ hj]; exact hReg.inv j
    · intro j e he
      by_cases hj : j = i
      · subst hj
        rw [Tables.set_same] at he
        rcases hsub e he with he' | he'
        · obtain ⟨c', hc', h'⟩ := hReg.sound j e he'
          exact ⟨c', List.mem_append_left _ hc', h'⟩
        · exact ⟨c, by simp, hi, by rw [he'], by rw [he']⟩
      · rw [Tables.set_other _ _ hj] at he
        obtain ⟨c', hc', h'⟩ := hReg.sound j e he
        exact ⟨c', List.mem_append_left _ hc', h'⟩
    · intro c' hc' j hj
      simp only [List.mem_append, List.mem_singleton] at hc'
      rcases hc' with hc' | rfl
      · by_cases hji : j = i
        · subst hji
          rw [Tables.set_same]
          exact hmono _ (hReg.complete c' hc' j hj)
        · rw [Tables.set_other _ _ hji]; exact hReg.complete c' hc' j hj
      · rw [hi] at hj
        cases hj
        rw [Tables.set_same]; exact hmem
    · intro j
      by_cases hj : j = i
      · subst hj; rw [Tables.set_same, hauto']; exact hReg.noAuto j
      · rw [Tables.set_other _ _ hj]; exact hReg.noAuto j
  · rintro ⟨a, ha, hs, hh, hn, hargs⟩ hd hne
    have hai : handlerOf ps a = some i := by rw [hh, hi]
    have hm := hReg.complete a ha i hai
    obtain ⟨err, he⟩ := set_err_of_dup R (f.cfg p.pfx) (hReg.inv i) c.name c.args (by simp [Flags.cfg, hd])
      (hne.elim (fun h => Or.inl (by simp [Flags.cfg, h])) (fun h => Or.inr ⟨hReg.noAuto i, h⟩))
      ⟨(a.name, a.args), hm, hargs, hn⟩
    exact ⟨_, by rw [hadd, he]⟩
  · rintro ⟨a, ha, hs, hn, hargs⟩ hnd hauto
    have hai : handlerOf ps a = some i := by
      unfold handlerOf at hi ⊢
      rw [hn]; exact hi
    have hm := hReg.complete a ha i hai
    have hnd' : ∀ e ∈ (T i).entries, e.2 = c.args → e.1 = c.name := by
      intro e he hea
      obtain ⟨c', hc', hh, hn', ha'⟩ := hReg.sound i e he
      apply Classical.byContradiction
      intro hne
      refine hnd c' hc' ⟨by rw [hh]; rfl, by rw [hh, hi], ?_, by rw [ha', hea]⟩
      rw [hn']; exact hne
    obtain ⟨err, he⟩ := set_err_of_conflict R (f.cfg p.pfx) (hReg.inv i) c.name c.args hE (by simp [Flags.cfg, hauto])
      ⟨(a.name, a.args), hm, hn, hargs⟩ hnd'
    exact ⟨_, by rw [hadd, he]⟩

/-! ### the loop over the calls of a file -/

theorem regFile_cons_none (f : Flags) {ps : List (Plugin τ)} {T : Tables τ} {c : Call τ} (rest : List (Call τ))
    (h : pkgAdd R f ps T c = .ok none) :
    regFile R f ps T (c :: rest) = match regFile R f ps T rest with
      | .ok (ns, ch, T') => .ok (none :: ns, ch, T')
      | .error e => .error e
      | .panic => .panic := by
  rw [regFile, h]
  rfl

theorem regFile_cons_error (f : Flags) {ps : List (Plugin τ)} {T : Tables τ} {c : Call τ} (rest : List (Call τ))
    {e : RegErr} (h : pkgAdd R f ps T c = .error e) : regFile R f ps T (c :: rest) = .error e := by
  rw [regFile, h]

theorem regFile_cons_same (f : Flags) {ps : List (Plugin τ)} {T T1 : Tables τ} {c : Call τ} (rest : List (Call τ))
    (h : pkgAdd R f ps T c = .ok (some (c.name, T1))) :
    regFile R f ps T (c :: rest) = match regFile R f ps T1 rest with
      | .ok (ns, ch, T') => .ok ((if c.name = [] then none else some c.name) :: ns, ch, T')
      | .error e => .error e
      | .panic => .panic := by
  rw [regFile, h]
  by_cases hn : c.name = []
  · simp only [hn, if_true]
    rfl
  · simp only [hn, if_false, ne_eq, not_true_eq_false, false_and, decide_false, Bool.false_or]
    cases regFile R f ps T1 rest with
    | ok r => obtain ⟨ns, ch, T'⟩ := r; rfl
    | error e => rfl
    | panic => rfl

theorem pair_sublist_append {done rest : List (Call τ)} {a c : Call τ} (ha : a ∈ done) :
    [a, c].Sublist (done ++ c :: rest) :=
  (List.singleton_sublist.mpr ha).append ((List.nil_sublist rest).cons_cons c)

theorem accepted_cons {ps : List (Plugin τ)} {c : Call τ} {rest : List (Call τ)} (h : Accepted ps (c :: rest)) :
    Accepted ps [c] ∧ Accepted ps rest :=
  ⟨fun c' hc' => h c' (by simp at hc'; simp [hc']), fun c' hc' => h c' (by simp [hc'])⟩

theorem regFile_ok_of_noClash (f : Flags) {ps : List (Plugin τ)} : ∀ (calls : List (Call τ)) (T : Tables τ)
    (done : List (Call τ)), Reg R ps T done → Accepted ps calls →
    EqIsIdentityOn R ((done ++ calls).map (·.args)) → (done ++ calls).Pairwise (NoClashPair ps) →
    ∃ ns T', regFile R f ps T calls = .ok (ns, false, T') ∧ Reg R ps T' (done ++ calls)
  | [], T, done, hReg, _, _, _ => ⟨[], T, by simp [regFile], by simpa using hReg⟩
  | c :: rest, T, done, hReg, hacc, hEq, hpw => by
    have hassoc : done ++ c :: rest = (done ++ [c]) ++ rest := by simp
    obtain ⟨hacc1, hacc2⟩ := accepted_cons hacc
    cases hh : handlerOf ps c with
    | none =>
      have hReg' := reg_unhandled R hReg hh
      obtain ⟨ns, T', hr, hReg''⟩ := regFile_ok_of_noClash f rest T (done ++ [c]) hReg' hacc2
        (by rw [← hassoc]; exact hEq) (by rw [← hassoc]; exact hpw)
      refine ⟨none :: ns, T', ?_, by rw [hassoc]; exact hReg''⟩
      rw [regFile_cons_none R f rest (pkgAdd_unhandled R f T hh), hr]
    | some i =>
      have hEq1 : EqIsIdentityOn R ((done ++ [c]).map (·.args)) := by
        intro a ha b hb
        refine hEq a ?_ b ?_
        · rw [hassoc]; simp only [List.map_append, List.mem_append]; exact Or.inl (by simpa using ha)
        · rw [hassoc]; simp only [List.map_append, List.mem_append]; exact Or.inl (by simpa using hb)
      have hno : ∀ a ∈ done, NoClashPair ps a c := by
        intro a ha
        exact (List.pairwise_append.mp hpw).2.2 a ha c (by simp)
      obtain ⟨t', hadd, hReg'⟩ := (pkgAdd_step R f hReg hacc1 hEq1 hh).1 hno
      obtain ⟨ns, T', hr, hReg''⟩ := regFile_ok_of_noClash f rest (T.set i t') (done ++ [c]) hReg' hacc2
        (by rw [← hassoc]; exact hEq) (by rw [← hassoc]; exact hpw)
      refine ⟨(if c.name = [] then none else some c.name) :: ns, T', ?_, by rw [hassoc]; exact hReg''⟩
      rw [regFile_cons_same R f rest hadd, hr]

theorem regFile_err_of_clash (f : Flags) {ps : List (Plugin τ)} : ∀ (calls : List (Call τ)) (T : Tables τ)
    (done : List (Call τ)), Reg R ps T done → Accepted ps calls →
    EqIsIdentityOn R ((done ++ calls).map (·.args)) → done.Pairwise (NoClashPair ps) →
    ¬ (done ++ calls).Pairwise (NoClashPair ps) →
    ((∀ a b, [a, b].Sublist (done ++ calls) → ¬ duplicatePair ps a b) ∨ f.dedup = false) →
    ((∀ a b, [a, b].Sublist (done ++ calls) → ¬ conflictPair ps a b) ∨ f.autoname = false) →
    (f.autoname = false ∨ ∀ c ∈ calls, c.name ≠ []) →
    ∃ e, regFile R f ps T calls = .error e
  | [], T, done, _, _, _, hd, hn, _, _, _ => absurd (by simpa using hd) hn
  | c :: rest, T, done, hReg, hacc, hEq, hd, hn, hdup, hconf, hne => by
    have hne1 : f.autoname = false ∨ c.name ≠ [] := hne.imp id (fun h => h c (by simp))
    have hne2 : f.autoname = false ∨ ∀ c' ∈ rest, c'.name ≠ [] := hne.imp id (fun h c' hc' => h c' (by simp [hc']))
    have hassoc : done ++ c :: rest = (done ++ [c]) ++ rest := by simp
    obtain ⟨hacc1, hacc2⟩ := accepted_cons hacc
    have hEq1 : EqIsIdentityOn R ((done ++ [c]).map (·.args)) := by
      intro a ha b hb
      refine hEq a ?_ b ?_
      · rw [hassoc]; simp only [List.map_append, List.mem_append]; exact Or.inl (by simpa using ha)
      · rw [hassoc]; simp only [List.map_append, List.mem_append]; exact Or.inl (by simpa using hb)
    have hpw' : (∀ a ∈ done, NoClashPair ps a c) → (done ++ [c]).Pairwise (NoClashPair ps) := by
      intro h
      refine List.pairwise_append.mpr ⟨hd, by simp, ?_⟩
      intro a ha b hb
      simp only [List.mem_singleton] at hb
      subst hb
      exact h a ha
    cases hh : handlerOf ps c with
    | none =>
      have hReg' := reg_unhandled R hReg hh
      obtain ⟨e, he⟩ := regFile_err_of_clash f rest T (done ++ [c]) hReg' hacc2 (by rw [← hassoc]; exact hEq)
        (hpw' (fun a _ => noClash_unhandled hh)) (by rw [← hassoc]; exact hn)
        (by rw [← hassoc]; exact hdup) (by rw [← hassoc]; exact hconf) hne2
      refine ⟨e, ?_⟩
      rw [regFile_cons_none R f rest (pkgAdd_unhandled R f T hh), he]
    | some i =>
      have hstep := pkgAdd_step R f hReg hacc1 hEq1 hh
      by_cases hno : ∀ a ∈ done, NoClashPair ps a c
      · obtain ⟨t', hadd, hReg'⟩ := hstep.1 hno
        obtain ⟨e, he⟩ := regFile_err_of_clash f rest (T.set i t') (done ++ [c]) hReg' hacc2
          (by rw [← hassoc]; exact hEq) (hpw' hno) (by rw [← hassoc]; exact hn)
          (by rw [← hassoc]; exact hdup) (by rw [← hassoc]; exact hconf) hne2
        refine ⟨e, ?_⟩
        rw [regFile_cons_same R f rest hadd, he]
      · by_cases hdd : ∃ a ∈ done, duplicatePair ps a c
        · obtain ⟨a, ha, hp⟩ := hdd
          have hfd : f.dedup = false := by
            rcases hdup with h | h
            · exact absurd hp (h a c (pair_sublist_append ha))
            · exact h
          obtain ⟨e, he⟩ := hstep.2.1 ⟨a, ha, hp⟩ hfd hne1
          exact ⟨e, regFile_cons_error R f rest he⟩
        · have hnd : ∀ a ∈ done, ¬ duplicatePair ps a c := fun a ha hp => hdd ⟨a, ha, hp⟩
          have hcc : ∃ a ∈ done, conflictPair ps a c := by
            apply Classical.byContradiction
            intro hnc
            exact hno (fun a ha => ⟨fun hp => hnc ⟨a, ha, hp⟩, hnd a ha⟩)
          obtain ⟨a, ha, hp⟩ := hcc
          have hfa : f.autoname = false := by
            rcases hconf with h | h
            · exact absurd hp (h a c (pair_sublist_append ha))
            · exact h
          obtain ⟨e, he⟩ := hstep.2.2 ⟨a, ha, hp⟩ hnd hfa
          exact ⟨e, regFile_cons_error R f rest he⟩

/-! ### all files -/

theorem eqId_sublist {L L' : List (List τ)} (h : EqIsIdentityOn R L) (hs : ∀ x ∈ L', x ∈ L) : EqIsIdentityOn R L' :=
  fun a ha b hb => h a (hs a ha) b (hs b hb)

theorem accepted_append {ps : List (Plugin τ)} {l1 l2 : List (Call τ)} (h : Accepted ps (l1 ++ l2)) :
    Accepted ps l1 ∧ Accepted ps l2 :=
  ⟨fun c hc => h c (List.mem_append_left _ hc), fun c hc => h c (List.mem_append_right _ hc)⟩

theorem regFiles_ok_of_noClash (f : Flags) {ps : List (Plugin τ)} : ∀ (files : List (List (Call τ))) (T : Tables τ)
    (done : List (Call τ)), Reg R ps T done → Accepted ps files.flatten →
    EqIsIdentityOn R ((done ++ files.flatten).map (·.args)) → (done ++ files.flatten).Pairwise (NoClashPair ps) →
    ∃ out T', regFiles R f ps T files = .ok (out, T') ∧ Reg R ps T' (done ++ files.flatten) ∧
      ∀ x ∈ out, x.2 = false
  | [], T, done, hReg, _, _, _ => ⟨[], T, by simp [regFiles], by simpa using hReg, by simp⟩
  | file :: rest, T, done, hReg, hacc, hEq, hpw => by
    have hassoc : done ++ (file :: rest).flatten = (done ++ file) ++ rest.flatten := by simp
    simp only [List.flatten_cons] at hacc
    obtain ⟨hacc1, hacc2⟩ := accepted_append hacc
    have hsub : (done ++ file).Sublist (done ++ (file :: rest).flatten) := by
      rw [hassoc]; exact List.sublist_append_left _ _
    obtain ⟨ns, T1, hr, hReg1⟩ := regFile_ok_of_noClash R f file T done hReg hacc1
      (eqId_sublist R hEq (fun x hx => by
        obtain ⟨c, hc, rfl⟩ := List.mem_map.mp hx
        exact List.mem_map.mpr ⟨c, hsub.subset hc, rfl⟩))
      (hpw.sublist hsub)
    obtain ⟨out, T', hr', hReg', hch⟩ := regFiles_ok_of_noClash f rest T1 (done ++ file) hReg1 hacc2
      (by rw [← hassoc]; exact hEq) (by rw [← hassoc]; exact hpw)
    refine ⟨(ns, false) :: out, T', ?_, by rw [hassoc]; exact hReg', ?_⟩
    · rw [regFiles, hr]; simp only [hr']
    · intro x hx
      simp only [List.mem_cons] at hx
      rcases hx with rfl | hx
      · rfl
      · exact hch x hx

theorem regFiles_err_of_clash (f : Flags) {ps : List (Plugin τ)} : ∀ (files : List (List (Call τ))) (T : Tables τ)
    (done : List (Call τ)), Reg R ps T done → Accepted ps files.flatten →
    EqIsIdentityOn R ((done ++ files.flatten).map (·.args)) → done.Pairwise (NoClashPair ps) →
    ¬ (done ++ files.flatten).Pairwise (NoClashPair ps) →
    ((∀ a b, [a, b].Sublist (done ++ files.flatten) → ¬ duplicatePair ps a b) ∨ f.dedup = false) →
    ((∀ a b, [a, b].Sublist (done ++ files.flatten) → ¬ conflictPair ps a b) ∨ f.autoname = false) →
    (f.autoname = false ∨ ∀ c ∈ files.flatten, c.name ≠ []) →
    ∃ e, regFiles R f ps T files = .error e
  | [], T, done, _, _, _, hd, hn, _, _, _ => absurd (by simpa using hd) hn
  | file :: rest, T, done, hReg, hacc, hEq, hd, hn, hdup, hconf, hne => by
    have hne1 : f.autoname = false ∨ ∀ c ∈ file, c.name ≠ [] := hne.imp id (fun h c hc => h c (by simp [hc]))
    have hne2 : f.autoname = false ∨ ∀ c ∈ rest.flatten, c.name ≠ [] :=
      hne.imp id (fun h c hc => h c (by simp only [List.flatten_cons, List.mem_append]; exact Or.inr hc))
    have hassoc : done ++ (file :: rest).flatten = (done ++ file) ++ rest.flatten := by simp
    simp only [List.flatten_cons] at hacc
    obtain ⟨hacc1, hacc2⟩ := accepted_append hacc
    have hsub : (done ++ file).Sublist (done ++ (file :: rest).flatten) := by
      rw [hassoc]; exact List.sublist_append_left _ _
    have hEq1 : EqIsIdentityOn R ((done ++ file).map (·.args)) :=
      eqId_sublist R hEq (fun x hx => by
        obtain ⟨c, hc, rfl⟩ := List.mem_map.mp hx
        exact List.mem_map.mpr ⟨c, hsub.subset hc, rfl⟩)
    by_cases hpw : (done ++ file).Pairwise (NoClashPair ps)
    · obtain ⟨ns, T1, hr, hReg1⟩ := regFile_ok_of_noClash R f file T done hReg hacc1 hEq1 hpw
      obtain ⟨e, he⟩ := regFiles_err_of_clash f rest T1 (done ++ file) hReg1 hacc2
        (by rw [← hassoc]; exact hEq) hpw (by rw [← hassoc]; exact hn)
        (by rw [← hassoc]; exact hdup) (by rw [← hassoc]; exact hconf) hne2
      refine ⟨e, ?_⟩
      rw [regFiles, hr]; simp only [he]
    · obtain ⟨e, he⟩ := regFile_err_of_clash R f file T done hReg hacc1 hEq1 hd hpw
        (hdup.imp (fun h a b hs => h a b (hs.trans hsub)) id)
        (hconf.imp (fun h a b hs => h a b (hs.trans hsub)) id) hne1
      refine ⟨e, ?_⟩
      rw [regFiles, he]

theorem reg_empty (ps : List (Plugin τ)) : Reg R ps (Tables.empty : Tables τ) [] :=
  ⟨fun _ => ⟨by simp [Tables.empty, Table.names], by simp [Tables.empty], by simp [Tables.empty], by simp [Tables.empty]⟩,
   by simp [Tables.empty], by simp, by simp [Tables.empty]⟩

/-! ### runs under arbitrary flags: what success guarantees -/

theorem pkgAdd_ok_some_inv (f : Flags) {ps : List (Plugin τ)} {T T1 : Tables τ} {c : Call τ} {n : Name}
    (h : pkgAdd R f ps T c = .ok (some (n, T1))) :
    ∃ i p t', handlerOf ps c = some i ∧ ps[i]? = some p ∧
      setFuncName R (f.cfg p.pfx) (T i) c.name c.args = .ok (n, t') ∧ T1 = T.set i t' := by
  unfold pkgAdd at h
  cases hh : handler (ps.map (·.pfx)) c.name with
  | none => simp [hh] at h
  | some i =>
    simp only [hh] at h
    cases hp : ps[i]? with
    | none => simp [hp] at h
    | some p =>
      simp only [hp] at h
      split at h
      · cases h
      · cases hs : setFuncName R (f.cfg p.pfx) (T i) c.name c.args with
        | error e => simp [hs] at h
        | ok r =>
          obtain ⟨m, t'⟩ := r
          simp only [hs] at h
          have e := Except.ok.inj h
          have e' := Option.some.inj e
          have e1 : m = n := congrArg Prod.fst e'
          have e2 : T.set i t' = T1 := congrArg Prod.snd e'
          subst e1
          exact ⟨i, p, t', hh, hp, hs, e2.symm⟩

theorem regFile_cons_ok_inv (f : Flags) {ps : List (Plugin τ)} {T T' : Tables τ} {c : Call τ} {rest : List (Call τ)}
    {ns : List (Option Name)} {ch : Bool} (h : regFile R f ps T (c :: rest) = .ok (ns, ch, T')) :
    (pkgAdd R f ps T c = .ok none ∧ ∃ ns', ns = none :: ns' ∧ regFile R f ps T rest = .ok (ns', ch, T')) ∨
    (∃ n T1 ns' ch', pkgAdd R f ps T c = .ok (some (n, T1)) ∧
      ns = (if n = [] then none else some n) :: ns' ∧ regFile R f ps T1 rest = .ok (ns', ch', T')) := by
  rw [regFile] at h
  cases hp : pkgAdd R f ps T c with
  | error e => simp [hp] at h
  | ok r =>
    cases r with
    | none =>
      simp only [hp] at h
      cases hr : regFile R f ps T rest with
      | error e => simp [hr] at h
      | panic => simp [hr] at h
      | ok r =>
        obtain ⟨ns', ch', T''⟩ := r
        simp only [hr, RegRes.ok.injEq, Prod.mk.injEq] at h
        obtain ⟨h1, h2, h3⟩ := h
        subst h1; subst h2; subst h3
        exact Or.inl ⟨rfl, ns', rfl, rfl⟩
    | some r =>
      obtain ⟨n, T1⟩ := r
      simp only [hp] at h
      refine Or.inr ⟨n, T1, ?_⟩
      by_cases hn : n = []
      · simp only [hn, if_true] at h ⊢
        cases hr : regFile R f ps T1 rest with
        | error e => simp [hr] at h
        | panic => simp [hr] at h
        | ok r =>
          obtain ⟨ns', ch', T''⟩ := r
          simp only [hr, RegRes.ok.injEq, Prod.mk.injEq] at h
          obtain ⟨h1, h2, h3⟩ := h
          subst h1; subst h3
          exact ⟨ns', ch', by first | rfl | trivial, by first | rfl | trivial | simp [hn], by first | rfl | trivial⟩
      · simp only [hn, if_false] at h ⊢
        split at h
        · cases h
        · rename_i hnp
          cases hr : regFile R f ps T1 rest with
          | error e => simp [hr] at h
          | panic => simp [hr] at h
          | ok r =>
            obtain ⟨ns', ch', T''⟩ := r
            simp only [hr, RegRes.ok.injEq, Prod.mk.injEq] at h
            obtain ⟨h1, h2, h3⟩ := h
            subst h1; subst h3
            exact ⟨ns', ch', by first | rfl | trivial, by first | rfl | trivial | simp [hn], by first | rfl | trivial⟩

/-- where the bindings of the new table come from -/
theorem set_srcs_step {c : Cfg} {t : Table τ} {fn : Name} {typs : List τ} {n : Name} {t' : Table τ}
    (hs : setFuncName R c t fn typs = .ok (n, t')) :
    ∀ e ∈ t'.entries, (e ∈ t.entries ∧ t'.autonamed.lookup e.1 = t.autonamed.lookup e.1) ∨
      (e.2 = typs ∧ (e.1 = fn ∨ t'.autonamed.lookup e.1 = some fn)) := by
  rcases setFuncName_ok_shape R hs with ⟨rfl, _⟩ | ⟨_, rfl, _, _⟩ | ⟨_, _, _, hn, _, rfl, _⟩
  · exact fun e he => Or.inl ⟨he, rfl⟩
  · intro e he
    simp only [Table.insert, List.mem_append, List.mem_singleton] at he
    rcases he with he | he
    · exact Or.inl ⟨he, rfl⟩
    · exact Or.inr ⟨by rw [he], Or.inl (by rw [he])⟩
  · intro e he
    simp only [Table.insert, List.mem_append, List.mem_singleton] at he
    rcases he with he | he
    · refine Or.inl ⟨he, ?_⟩
      have hne : e.1 ≠ n := by
        intro h; exact hn (h ▸ List.mem_map.mpr ⟨e, he, rfl⟩)
      have hb : (e.1 == n) = false := by simpa using hne
      simp only [List.lookup_cons, hb]
    · exact Or.inr ⟨by rw [he], Or.inr (by rw [he]; simp [List.lookup_cons])⟩

/-- what holds of the tables in every run, whatever the flags -/
structure RegW (f : Flags) (ps : List (Plugin τ)) (T : Tables τ) (done : List (Call τ)) : Prop where
  inv : ∀ i, Inv R (T i)
  /-- every binding comes from a call of that plugin with these argument types, written with the bound
  name or (-autoname) renamed to it -/
  srcs : ∀ i, ∀ e ∈ (T i).entries, ∃ c ∈ done, handlerOf ps c = some i ∧ c.args = e.2 ∧
    (c.name = e.1 ∨ (T i).autonamed.lookup e.1 = some c.name)
  namesOk : ∀ i, ∀ n ∈ (T i).names, (∃ c ∈ done, c.name = n) ∨ n ∉ f.reserved

theorem regW_empty (f : Flags) (ps : List (Plugin τ)) : RegW R f ps (Tables.empty : Tables τ) [] :=
  ⟨(reg_empty R ps).inv, by simp [Tables.empty], by simp [Tables.empty, Table.names]⟩

theorem regW_mono {f : Flags} {ps : List (Plugin τ)} {T : Tables τ} {done : List (Call τ)} (c : Call τ)
    (h : RegW R f ps T done) : RegW R f ps T (done ++ [c]) := by
  refine ⟨h.inv, ?_, ?_⟩
  · intro i e he
    obtain ⟨c', hc', h'⟩ := h.srcs i e he
    exact ⟨c', List.mem_append_left _ hc', h'⟩
  · intro i n hn
    rcases h.namesOk i n hn with ⟨c', hc', h'⟩ | h'
    · exact Or.inl ⟨c', List.mem_append_left _ hc', h'⟩
    · exact Or.inr h'

theorem regW_set {f : Flags} {ps : List (Plugin τ)} {T : Tables τ} {done : List (Call τ)} {c : Call τ} {i : Nat}
    {p : Plugin τ} {n : Name} {t' : Table τ} (hW : RegW R f ps T done) (hh : handlerOf ps c = some i)
    (hs : setFuncName R (f.cfg p.pfx) (T i) c.name c.args = .ok (n, t')) :
    RegW R f ps (T.set i t') (done ++ [c]) := by
  refine ⟨?_, ?_, ?_⟩
  · intro j
    by_cases hj : j = i
    · subst hj; rw [Tables.set_same]; exact inv_of_set R (hW.inv j) hs
    · rw [Tables.set_other _ _ hj]; exact hW.inv j
  · intro j e he
    by_cases hj : j = i
    · subst hj
      rw [Tables.set_same] at he ⊢
      rcases set_srcs_step R hs e he with ⟨he', hl⟩ | ⟨he', hnm⟩
      · obtain ⟨c', hc', h1, h2, h3⟩ := hW.srcs j e he'
        exact ⟨c', List.mem_append_left _ hc', h1, h2, by rw [hl]; exact h3⟩
      · exact ⟨c, by simp, hh, he'.symm, hnm.imp Eq.symm id⟩
    · rw [Tables.set_other _ _ hj] at he ⊢
      obtain ⟨c', hc', h'⟩ := hW.srcs j e he
      exact ⟨c', List.mem_append_left _ hc', h'⟩
  · intro j m hm'
    by_cases hj : j = i
    · subst hj
      rw [Tables.set_same] at hm'
      obtain ⟨e, he, rfl⟩ := List.mem_map.mp hm'
      rcases hnames_of_set R hs e he with he' | he' | he'
      · rcases hW.namesOk j e.1 (List.mem_map.mpr ⟨e, he', rfl⟩) with ⟨c', hc', h'⟩ | h'
        · exact Or.inl ⟨c', List.mem_append_left _ hc', h'⟩
        · exact Or.inr h'
      · exact Or.inl ⟨c, by simp, he'.symm⟩
      · exact Or.inr (by simpa [Flags.cfg] using he')
    · rw [Tables.set_other _ _ hj] at hm'
      rcases hW.namesOk j m hm' with ⟨c', hc', h'⟩ | h'
      · exact Or.inl ⟨c', List.mem_append_left _ hc', h'⟩
      · exact Or.inr h'

/-- the bound claimed for a final name: its plugin's table binds it to a type list identical to or
`eq`-related with the argument types -/
def BoundTo (ps : List (Plugin τ)) (T : Tables τ) (c : Call τ) (n : Name) : Prop :=
  ∃ i ts, handlerOf ps c = some i ∧ (n, ts) ∈ (T i).entries ∧
    (c.args = ts ∨ eqL R c.args ts = true ∨ eqL R ts c.args = true)

theorem regFile_sound (f : Flags) {ps : List (Plugin τ)} : ∀ (calls : List (Call τ)) (T : Tables τ)
    (done : List (Call τ)) (ns : List (Option Name)) (ch : Bool) (T' : Tables τ), RegW R f ps T done →
    regFile R f ps T calls = .ok (ns, ch, T') →
    RegW R f ps T' (done ++ calls) ∧ (∀ i, ∀ e ∈ (T i).entries, e ∈ (T' i).entries) ∧
    ∀ (k : Nat) (c : Call τ) (n : Name), calls[k]? = some c → ns[k]? = some (some n) → BoundTo R ps T' c n
  | [], T, done, ns, ch, T', hW, h => by
    simp only [regFile, RegRes.ok.injEq, Prod.mk.injEq] at h
    obtain ⟨_, _, rfl⟩ := h
    exact ⟨by simpa using hW, fun i e he => he, by intro k c n hk; simp at hk⟩
  | c :: rest, T, done, ns, ch, T', hW, h => by
    have hassoc : done ++ c :: rest = (done ++ [c]) ++ rest := by simp
    rcases regFile_cons_ok_inv R f h with ⟨_, ns', rfl, hr⟩ | ⟨n, T1, ns', ch', hadd, rfl, hr⟩
    · obtain ⟨hW', hmono, hb⟩ := regFile_sound f rest T (done ++ [c]) ns' ch T' (regW_mono R c hW) hr
      refine ⟨by rw [hassoc]; exact hW', hmono, ?_⟩
      intro k c' m hk hn
      cases k with
      | zero => simp at hn
      | succ k' => exact hb k' c' m (by simpa using hk) (by simpa using hn)
    · obtain ⟨i, p, t', hh, hp, hs, rfl⟩ := pkgAdd_ok_some_inv R f hadd
      obtain ⟨⟨ts, hm, hrel⟩, hmono1, hnew, hname⟩ := setFuncName_sound' R (f.cfg p.pfx) (T i) c.name c.args hs
      have hW1 : RegW R f ps (T.set i t') (done ++ [c]) := regW_set R hW hh hs
      obtain ⟨hW', hmono, hb⟩ := regFile_sound f rest (T.set i t') (done ++ [c]) ns' ch' T' hW1 hr
      refine ⟨by rw [hassoc]; exact hW', ?_, ?_⟩
      · intro j e he
        apply hmono j e
        by_cases hj : j = i
        · subst hj; rw [Tables.set_same]; exact hmono1 e he
        · rw [Tables.set_other _ _ hj]; exact he
      · intro k c' m hk hn
        cases k with
        | zero =>
          simp only [List.getElem?_cons_zero, Option.some.injEq] at hk hn
          subst hk
          by_cases hne : n = []
          · simp [hne] at hn
          · simp only [hne, if_false, Option.some.injEq] at hn
            subst hn
            exact ⟨i, ts, hh, hmono i _ (by rw [Tables.set_same]; exact hm), hrel⟩
        | succ k' => exact hb k' c' m (by simpa using hk) (by simpa using hn)

theorem regFiles_sound (f : Flags) {ps : List (Plugin τ)} : ∀ (files : List (List (Call τ))) (T : Tables τ)
    (done : List (Call τ)) (out : List (List (Option Name) × Bool)) (T' : Tables τ), RegW R f ps T done →
    regFiles R f ps T files = .ok (out, T') →
    RegW R f ps T' (done ++ files.flatten) ∧ (∀ i, ∀ e ∈ (T i).entries, e ∈ (T' i).entries) ∧
    ∀ (j : Nat) (file : List (Call τ)) (x : List (Option Name) × Bool), files[j]? = some file → out[j]? = some x →
      ∀ (k : Nat) (c : Call τ) (n : Name), file[k]? = some c → x.1[k]? = some (some n) → BoundTo R ps T' c n
  | [], T, done, out, T', hW, h => by
    simp only [regFiles, RegRes.ok.injEq, Prod.mk.injEq] at h
    obtain ⟨_, rfl⟩ := h
    exact ⟨by simpa using hW, fun i e he => he, by intro j file x hj; simp at hj⟩
  | file :: rest, T, done, out, T', hW, h => by
    have hassoc : done ++ (file :: rest).flatten = (done ++ file) ++ rest.flatten := by simp
    rw [regFiles] at h
    cases hr : regFile R f ps T file with
    | error e => simp [hr] at h
    | panic => simp [hr] at h
    | ok r =>
      obtain ⟨ns, ch, T1⟩ := r
      simp only [hr] at h
      cases hr' : regFiles R f ps T1 rest with
      | error e => simp [hr'] at h
      | panic => simp [hr'] at h
      | ok r' =>
        obtain ⟨out', T''⟩ := r'
        simp only [hr', RegRes.ok.injEq, Prod.mk.injEq] at h
        obtain ⟨rfl, rfl⟩ := h
        obtain ⟨hW1, hmono1, hb1⟩ := regFile_sound R f file T done ns ch T1 hW hr
        obtain ⟨hW', hmono, hb⟩ := regFiles_sound f rest T1 (done ++ file) out' T'' hW1 hr'
        refine ⟨by rw [hassoc]; exact hW', fun i e he => hmono i e (hmono1 i e he), ?_⟩
        intro j fl x hj hx k c n hk hn
        cases j with
        | zero =>
          simp only [List.getElem?_cons_zero, Option.some.injEq] at hj hx
          subst hj; subst hx
          obtain ⟨i, ts, hh, hm, hrel⟩ := hb1 k c n hk hn
          exact ⟨i, ts, hh, hmono i _ hm, hrel⟩
        | succ j' => exact hb j' fl x (by simpa using hj) (by simpa using hx) k c n hk hn

/-! ### -autoname: a failure always comes from a duplicate -/

theorem pkgAdd_error_inv (f : Flags) {ps : List (Plugin τ)} {T : Tables τ} {c : Call τ} {e : RegErr}
    (h : pkgAdd R f ps T c = .error e) :
    ∃ i p, handlerOf ps c = some i ∧ ps[i]? = some p ∧
      (p.accept c.args = false ∨ ∃ err, setFuncName R (f.cfg p.pfx) (T i) c.name c.args = .error err) := by
  unfold pkgAdd at h
  cases hh : handler (ps.map (·.pfx)) c.name with
  | none => simp [hh] at h
  | some i =>
    simp only [hh] at h
    cases hp : ps[i]? with
    | none => simp [hp] at h
    | some p =>
      refine ⟨i, p, hh, hp, ?_⟩
      cases hac : p.accept c.args with
      | false => exact Or.inl rfl
      | true =>
        refine Or.inr ?_
        cases hs : setFuncName R (f.cfg p.pfx) (T i) c.name c.args with
        | error err => exact ⟨err, rfl⟩
        | ok r =>
          obtain ⟨m, t'⟩ := r
          simp [hp, hac, hs] at h

theorem regFile_cons_error_inv (f : Flags) {ps : List (Plugin τ)} {T : Tables τ} {c : Call τ} {rest : List (Call τ)}
    {e : RegErr} (h : regFile R f ps T (c :: rest) = .error e) :
    pkgAdd R f ps T c = .error e ∨ (pkgAdd R f ps T c = .ok none ∧ regFile R f ps T rest = .error e) ∨
    ∃ n T1, pkgAdd R f ps T c = .ok (some (n, T1)) ∧ regFile R f ps T1 rest = .error e := by
  rw [regFile] at h
  split at h
  · rename_i e' hp
    cases h
    exact Or.inl hp
  · rename_i hp
    refine Or.inr (Or.inl ⟨hp, ?_⟩)
    split at h
    · cases h
    · rename_i hr; cases h; exact hr
    · cases h
  · rename_i n T1 hp
    refine Or.inr (Or.inr ⟨n, T1, hp, ?_⟩)
    split at h
    · split at h
      · cases h
      · rename_i hr; cases h; exact hr
      · cases h
    · split at h
      · cases h
      · split at h
        · cases h
        · rename_i hr; cases h; exact hr
        · cases h

/-- under -autoname a `SetFuncName` error is a duplicate with an earlier call: the type list is bound to a
name that is neither the call's name nor the renaming of a call of that name -/
theorem regFile_autoname_error (f : Flags) {ps : List (Plugin τ)} (ha : f.autoname = true) :
    ∀ (calls : List (Call τ)) (T : Tables τ) (done : List (Call τ)) (e : RegErr), RegW R f ps T done →
    Accepted ps calls → EqIsIdentityOn R ((done ++ calls).map (·.args)) →
    regFile R f ps T calls = .error e → Duplicate ps (done ++ calls)
  | [], T, done, e, _, _, _, h => by simp [regFile] at h
  | c :: rest, T, done, e, hW, hacc, hEq, h => by
    have hassoc : done ++ c :: rest = (done ++ [c]) ++ rest := by simp
    obtain ⟨hacc1, hacc2⟩ := accepted_cons hacc
    rcases regFile_cons_error_inv R f h with hp | ⟨_, hr⟩ | ⟨n, T1, hp, hr⟩
    · obtain ⟨i, p, hh, hpi, hrej | ⟨err, hs⟩⟩ := pkgAdd_error_inv R f hp
      · rw [hacc1 c (by simp) i p hh hpi] at hrej; exact Bool.noConfusion hrej
      · rcases setFuncName_cases' R (f.cfg p.pfx) (T i) c.name c.args with
          ⟨g, hn, h1 | h1 | h1 | h1⟩ | ⟨_, ts, _, h1 | h1⟩ | ⟨_, _, h1⟩
        · rw [h1.2] at hs; cases hs
        · rw [h1.2.2] at hs; cases hs
        · rw [h1.2.2.2.2] at hs; cases hs
        · -- the duplicate error
          obtain ⟨ts, hm, hrel⟩ := nameOf_some R hn
          obtain ⟨c', hc', hh', hargs, hname⟩ := hW.srcs i _ hm
          have m1 : c.args ∈ (done ++ c :: rest).map (·.args) := List.mem_map.mpr ⟨c, by simp, rfl⟩
          have m2 : ts ∈ (done ++ c :: rest).map (·.args) := List.mem_map.mpr ⟨c', by simp [hc'], hargs⟩
          have hts : c.args = ts := hrel.elim id (fun h' => hEq _ m1 _ m2 h')
          have hne : c'.name ≠ c.name := by
            rcases hname with hname | hname
            · rw [hname]; exact h1.1
            · intro heq
              apply h1.2.2.1
              refine ⟨by simp [Flags.cfg, ha], ?_⟩
              simp only [Table.autonamedFrom]
              simp only at hname
              rw [hname]; exact heq
          exact ⟨c', c, pair_sublist_append hc', by rw [hh']; rfl, by rw [hh', hh], hne, by rw [hargs, hts]⟩
        · rw [h1.2] at hs; cases hs
        · have : (f.cfg p.pfx).autoname = true := by simp [Flags.cfg, ha]
          rw [this] at h1; exact Bool.noConfusion h1.1
        · rw [h1] at hs; cases hs
    · have := regFile_autoname_error f ha rest T (done ++ [c]) e (regW_mono R c hW) hacc2 (by rw [← hassoc]; exact hEq) hr
      rw [hassoc]; exact this
    · obtain ⟨i, p, t', hh, hpi, hs, rfl⟩ := pkgAdd_ok_some_inv R f hp
      have := regFile_autoname_error f ha rest (T.set i t') (done ++ [c]) e (regW_set R hW hh hs) hacc2
        (by rw [← hassoc]; exact hEq) hr
      rw [hassoc]; exact this

theorem duplicate_mono {ps : List (Plugin τ)} {l1 l2 : List (Call τ)} (hs : l1.Sublist l2) (h : Duplicate ps l1) :
    Duplicate ps l2 := by
  obtain ⟨a, b, hab, hp⟩ := h
  exact ⟨a, b, hab.trans hs, hp⟩

theorem regFiles_autoname_error (f : Flags) {ps : List (Plugin τ)} (ha : f.autoname = true) :
    ∀ (files : List (List (Call τ))) (T : Tables τ) (done : List (Call τ)) (e : RegErr), RegW R f ps T done →
    Accepted ps files.flatten → EqIsIdentityOn R ((done ++ files.flatten).map (·.args)) →
    regFiles R f ps T files = .error e → Duplicate ps (done ++ files.flatten)
  | [], T, done, e, _, _, _, h => by simp [regFiles] at h
  | file :: rest, T, done, e, hW, hacc, hEq, h => by
    have hassoc : done ++ (file :: rest).flatten = (done ++ file) ++ rest.flatten := by simp
    simp only [List.flatten_cons] at hacc
    obtain ⟨hacc1, hacc2⟩ := accepted_append hacc
    have hsub : (done ++ file).Sublist (done ++ (file :: rest).flatten) := by
      rw [hassoc]; exact List.sublist_append_left _ _
    rw [regFiles] at h
    cases hr : regFile R f ps T file with
    | panic => simp [hr] at h
    | error e' =>
      simp only [hr] at h
      cases h
      exact duplicate_mono hsub (regFile_autoname_error R f ha file T done _ hW hacc1
        (eqId_sublist R hEq (fun x hx => by
          obtain ⟨c, hc, rfl⟩ := List.mem_map.mp hx
          exact List.mem_map.mpr ⟨c, hsub.subset hc, rfl⟩)) hr)
    | ok r =>
      obtain ⟨ns, ch, T1⟩ := r
      simp only [hr] at h
      obtain ⟨hW1, _, _⟩ := regFile_sound R f file T done ns ch T1 hW hr
      cases hr' : regFiles R f ps T1 rest with
      | panic => simp [hr'] at h
      | ok r' => obtain ⟨o, T2⟩ := r'; simp [hr'] at h
      | error e2 =>
        have := regFiles_autoname_error f ha rest T1 (done ++ file) e2 hW1 hacc2 (by rw [← hassoc]; exact hEq) hr'
        rw [hassoc]; exact this

/-! ### both flags: nothing fails; no flags combination panics -/

theorem setFuncName_ok_of_both (c : Cfg) (t : Table τ) (fn : Name) (typs : List τ)
    (ha : c.autoname = true) (hd : c.dedup = true) : ∃ r, setFuncName R c t fn typs = .ok r := by
  unfold setFuncName
  cases nameOf R t typs with
  | some f =>
    by_cases hf : f = fn
    · exact ⟨(fn, t), by simp [hf]⟩
    · exact ⟨(f, t), by simp [hf, hd]⟩
  | none =>
    cases t.lookup fn with
    | some ts => exact ⟨recordAutoname (getFuncName R c t typs) fn, by simp [ha]⟩
    | none => exact ⟨_, rfl⟩

theorem pkgAdd_ok_of_both (f : Flags) (ps : List (Plugin τ)) (T : Tables τ) (c : Call τ)
    (ha : f.autoname = true) (hd : f.dedup = true) (hacc : Accepted ps [c]) : ∃ r, pkgAdd R f ps T c = .ok r := by
  cases hh : handlerOf ps c with
  | none => exact ⟨none, pkgAdd_unhandled R f T hh⟩
  | some i =>
    obtain ⟨p, hp, _⟩ := handlerOf_plugin hh
    have hac := hacc c (by simp) i p hh hp
    rw [pkgAdd_handled R f T hh hp hac]
    obtain ⟨r, hr⟩ := setFuncName_ok_of_both R (f.cfg p.pfx) (T i) c.name c.args (by simp [Flags.cfg, ha]) (by simp [Flags.cfg, hd])
    obtain ⟨n, t'⟩ := r
    rw [hr]
    exact ⟨some (n, T.set i t'), rfl⟩

theorem regFile_ok_of_both (f : Flags) (ps : List (Plugin τ)) (ha : f.autoname = true) (hd : f.dedup = true) :
    ∀ (calls : List (Call τ)) (T : Tables τ), Accepted ps calls → ∃ r, regFile R f ps T calls = .ok r
  | [], T, _ => ⟨_, rfl⟩
  | c :: rest, T, hacc => by
    obtain ⟨hacc1, hacc2⟩ := accepted_cons hacc
    obtain ⟨r, hr⟩ := pkgAdd_ok_of_both R f ps T c ha hd hacc1
    rw [regFile, hr]
    cases r with
    | none =>
      obtain ⟨r', hr'⟩ := regFile_ok_of_both f ps ha hd rest T hacc2
      obtain ⟨ns, ch, T'⟩ := r'
      simp only [hr']
      exact ⟨_, rfl⟩
    | some x =>
      obtain ⟨n, T1⟩ := x
      obtain ⟨r', hr'⟩ := regFile_ok_of_both f ps ha hd rest T1 hacc2
      obtain ⟨ns, ch, T'⟩ := r'
      by_cases hn : n = []
      · simp only [hn, if_true, hr']
        exact ⟨_, rfl⟩
      · simp only [hn, if_false, ha, Bool.not_true, Bool.false_eq_true, false_and, and_false, hr']
        exact ⟨_, rfl⟩

theorem regFiles_ok_of_both (f : Flags) (ps : List (Plugin τ)) (ha : f.autoname = true) (hd : f.dedup = true) :
    ∀ (files : List (List (Call τ))) (T : Tables τ), Accepted ps files.flatten → ∃ r, regFiles R f ps T files = .ok r
  | [], T, _ => ⟨_, rfl⟩
  | file :: rest, T, hacc => by
    simp only [List.flatten_cons] at hacc
    obtain ⟨hacc1, hacc2⟩ := accepted_append hacc
    obtain ⟨r, hr⟩ := regFile_ok_of_both R f ps ha hd file T hacc1
    obtain ⟨ns, ch, T1⟩ := r
    obtain ⟨r', hr'⟩ := regFiles_ok_of_both f ps ha hd rest T1 hacc2
    obtain ⟨out, T'⟩ := r'
    rw [regFiles, hr]
    simp only [hr']
    exact ⟨_, rfl⟩

theorem regFile_ne_panic (f : Flags) (ps : List (Plugin τ)) :
    ∀ (calls : List (Call τ)) (T : Tables τ), regFile R f ps T calls ≠ .panic
  | [], T => by simp [regFile]
  | c :: rest, T => by
    intro h
    rw [regFile] at h
    split at h
    · cases h
    · split at h
      · cases h
      · cases h
      · rename_i hr; exact regFile_ne_panic f ps rest T hr
    · rename_i n T1 hp
      split at h
      · split at h
        · cases h
        · cases h
        · rename_i hr; exact regFile_ne_panic f ps rest T1 hr
      · split at h
        · rename_i hcond
          obtain ⟨i, p, t', _, _, hs, _⟩ := pkgAdd_ok_some_inv R f hp
          have hnn := rename_unreachable' R (f.cfg p.pfx) (T i) c.name c.args
            (by simpa [Flags.cfg] using hcond.2.1) (by simpa [Flags.cfg] using hcond.2.2) hs
          exact hcond.1 hnn
        · split at h
          · cases h
          · cases h
          · rename_i hr; exact regFile_ne_panic f ps rest T1 hr

theorem regFiles_ne_panic (f : Flags) (ps : List (Plugin τ)) :
    ∀ (files : List (List (Call τ))) (T : Tables τ), regFiles R f ps T files ≠ .panic
  | [], T => by simp [regFiles]
  | file :: rest, T => by
    intro h
    rw [regFiles] at h
    split at h
    · cases h
    · rename_i hr; exact regFile_ne_panic R f ps file T hr
    · rename_i ns ch T1 hr
      split at h
      · cases h
      · cases h
      · rename_i hr'; exact regFiles_ne_panic f ps rest T1 hr'

instance (ps : List (Plugin τ)) (a b : Call τ) : Decidable (conflictPair ps a b) := by
  unfold conflictPair; infer_instance

instance (ps : List (Plugin τ)) (a b : Call τ) : Decidable (duplicatePair ps a b) := by
  unfold duplicatePair; infer_instance

instance (L : List (List τ)) : Decidable (EqIsIdentityOn R L) := by
  unfold EqIsIdentityOn; infer_instance

theorem accepted_of_all {ps : List (Plugin τ)} (h : ∀ p ∈ ps, ∀ a, p.accept a = true) (calls : List (Call τ)) :
    Accepted ps calls :=
  fun c _ i p _ hp => h p (List.mem_of_getElem? hp) c.args

def RegRes.isError {α : Type} : RegRes α → Bool
  | .error _ => true
  | _ => false

def RegRes.isOk {α : Type} : RegRes α → Bool
  | .ok _ => true
  | _ => false

/-- final names per file of a successful registration -/
def RegRes.names {β : Type} : RegRes (List (List (Option Name) × Bool) × β) → List (List (Option Name))
  | .ok (out, _) => out.map (·.1)
  | _ => []

/-! ### renaming the names of a table (C12) -/

def Table.mapNames (g : Name → Name) (t : Table τ) : Table τ :=
  { entries := t.entries.map (fun e => (g e.1, e.2)), generated := t.generated.map g,
    autonamed := t.autonamed.map (fun e => (g e.1, g e.2)) }

def Err.map (g : Name → Name) : Err → Err
  | .duplicate h w => .duplicate (g h) (g w)
  | .conflict n => .conflict (g n)

theorem findName_map (g : Name → Name) (p : List τ → Bool) : ∀ (es : List (Name × List τ)),
    findName p (es.map (fun e => (g e.1, e.2))) = (findName p es).map g
  | [] => rfl
  | (n, ts) :: rest => by
    simp only [List.map_cons, findName]
    split
    · rfl
    · exact findName_map g p rest

theorem nameOf_mapNames (g : Name → Name) (t : Table τ) (typs : List τ) :
    nameOf R (t.mapNames g) typs = (nameOf R t typs).map g := by
  unfold nameOf Table.mapNames
  simp only [findName_map]
  cases findName (fun ts => decide (typs = ts)) t.entries <;> simp

theorem names_mapNames (g : Name → Name) (t : Table τ) : (t.mapNames g).names = t.names.map g := by
  simp [Table.mapNames, Table.names, List.map_map, Function.comp_def]

theorem lookup_mapNames (g : Name → Name) (fn : Name) : ∀ (es : List (Name × List τ)),
    (∀ n ∈ es.map (·.1), g n = g fn → n = fn) →
    (es.map (fun e => (g e.1, e.2))).lookup (g fn) = es.lookup fn
  | [], _ => rfl
  | (n, ts) :: rest, h => by
    simp only [List.map_cons, List.lookup_cons]
    by_cases hn : fn = n
    · subst hn; simp
    · have h1 : (fn == n) = false := by simpa using hn
      have h2 : (g fn == g n) = false := by
        simp only [beq_eq_false_iff_ne, ne_eq]
        intro e
        exact hn (h n (by simp) e.symm).symm
      rw [h1, h2]
      exact lookup_mapNames g fn rest (fun m hm => h m (by simp at hm ⊢; exact Or.inr hm))

theorem insert_mapNames (g : Name → Name) (t : Table τ) (n : Name) (typs : List τ) :
    (t.insert n typs).mapNames g = (t.mapNames g).insert (g n) typs := by
  simp [Table.insert, Table.mapNames]

/-- hypotheses of the renaming theorems for one table: `g` maps the candidate sequence of the old prefix
onto that of the new prefix, is injective on the names in play, and respects reservedness -/
structure Renaming (g : Name → Name) (c c' : Cfg) (t : Table τ) (fn : Name) (name : List Letter) : Prop where
  flags : c'.autoname = c.autoname ∧ c'.dedup = c.dedup
  cands : ∀ k, g (seqAt c.pfx name k) = seqAt c'.pfx name k
  inj : ∀ a b, (a ∈ t.names ∨ a = fn ∨ ∃ k, a = seqAt c.pfx name k) →
    (b ∈ t.names ∨ b = fn ∨ ∃ k, b = seqAt c.pfx name k) → g a = g b → a = b
  reserved : ∀ k, seqAt c.pfx name k ∈ c.reserved ↔ seqAt c'.pfx name k ∈ c'.reserved
  /-- candidates are keywords / predeclared identifiers under both prefixes or under neither -/
  words : ∀ k, seqAt c.pfx name k ∈ reservedWords ↔ seqAt c'.pfx name k ∈ reservedWords
  /-- the -autoname record answers alike before and after the renaming -/
  auto : ∀ f ∈ t.names, (t.mapNames g).autonamedFrom (g f) = g fn ↔ t.autonamedFrom f = fn

theorem taken_renamed {g : Name → Name} {c c' : Cfg} {t : Table τ} {fn : Name} {name : List Letter}
    (h : Renaming g c c' t fn name) (k : Nat) :
    taken c' (t.mapNames g) (seqAt c'.pfx name k) = taken c t (seqAt c.pfx name k) := by
  unfold taken
  have h1 : (t.mapNames g).names.contains (seqAt c'.pfx name k) = t.names.contains (seqAt c.pfx name k) := by
    rw [names_mapNames, ← h.cands k]
    apply Bool.eq_iff_iff.mpr
    simp only [List.contains_iff_mem, List.mem_map]
    constructor
    · rintro ⟨a, ha, he⟩
      have := h.inj a _ (Or.inl ha) (Or.inr (Or.inr ⟨k, rfl⟩)) he
      rw [← this]; exact ha
    · intro ha; exact ⟨_, ha, rfl⟩
  have h2 : c'.reserved.contains (seqAt c'.pfx name k) = c.reserved.contains (seqAt c.pfx name k) := by
    apply Bool.eq_iff_iff.mpr
    simp only [List.contains_iff_mem]
    exact (h.reserved k).symm
  have h3 : reservedWords.contains (seqAt c'.pfx name k) = reservedWords.contains (seqAt c.pfx name k) := by
    apply Bool.eq_iff_iff.mpr
    simp only [List.contains_iff_mem]
    exact (h.words k).symm
  rw [h1, h2, h3]

/-- the least index of a non-taken candidate is determined by the taken-predicate on the candidates -/
theorem least_unique {p : Nat → Bool} {k k' : Nat} (hk : p k = false) (hlt : ∀ j, j < k → p j = true)
    (hk' : p k' = false) (hlt' : ∀ j, j < k' → p j = true) : k = k' := by
  rcases Nat.lt_trichotomy k k' with h | h | h
  · have := hlt' k h; rw [hk] at this; exact Bool.noConfusion this
  · exact h
  · have := hlt k' h; rw [hk'] at this; exact Bool.noConfusion this

theorem newName_renamed {g : Name → Name} {c c' : Cfg} {t : Table τ} {fn : Name} (typs : List τ)
    (h : Renaming g c c' t fn (hintOf R typs)) :
    newName R c' (t.mapNames g) typs = g (newName R c t typs) := by
  obtain ⟨k, hk, hf, hall⟩ := newName_spec R c t typs
  obtain ⟨k', hk', hf', hall'⟩ := newName_spec R c' (t.mapNames g) typs
  have e : k = k' := by
    apply least_unique (p := fun j => taken c t (seqAt c.pfx (hintOf R typs) j)) hf hall
    · rw [← taken_renamed h k']; exact hf'
    · intro j hj; rw [← taken_renamed h j]; exact hall' j hj
  subst e
  rw [hk, hk', h.cands k]

theorem getFuncName_renamed {g : Name → Name} {c c' : Cfg} {t : Table τ} {fn : Name} (typs : List τ)
    (h : Renaming g c c' t fn (hintOf R typs)) :
    getFuncName R c' (t.mapNames g) typs =
      (g (getFuncName R c t typs).1, (getFuncName R c t typs).2.mapNames g) := by
  unfold getFuncName
  rw [nameOf_mapNames]
  cases nameOf R t typs with
  | some n => rfl
  | none =>
    simp only [Option.map_none]
    rw [newName_renamed R typs h, insert_mapNames]

/-- `SetFuncName` commutes with the renaming -/
theorem setFuncName_renamed {g : Name → Name} {c c' : Cfg} {t : Table τ} {fn : Name} (typs : List τ)
    (h : Renaming g c c' t fn (hintOf R typs)) :
    setFuncName R c' (t.mapNames g) (g fn) typs =
      match setFuncName R c t fn typs with
      | .ok (n, t') => .ok (g n, t'.mapNames g)
      | .error e => .error (e.map g) := by
  unfold setFuncName
  rw [nameOf_mapNames]
  cases hn : nameOf R t typs with
  | some f =>
    simp only [Option.map_some]
    by_cases hf : f = fn
    · subst hf; simp
    · have hgf : g f ≠ g fn := by
        intro e
        obtain ⟨ts, hm, _⟩ := nameOf_some R hn
        exact hf (h.inj f fn (Or.inl (List.mem_map.mpr ⟨(f, ts), hm, rfl⟩)) (Or.inr (Or.inl rfl)) e)
      obtain ⟨ts, hm, _⟩ := nameOf_some R hn
      have hauto := h.auto f (List.mem_map.mpr ⟨(f, ts), hm, rfl⟩)
      simp only [hf, hgf, if_false, h.flags.2, h.flags.1, hauto]
      cases c.dedup with
      | true => simp
      | false =>
        by_cases hc : c.autoname = true ∧ t.autonamedFrom f = fn
        · simp [hc]
        · simp [hc, Err.map]
  | none =>
    simp only [Option.map_none]
    have hl : (t.mapNames g).lookup (g fn) = t.lookup fn := by
      unfold Table.lookup Table.mapNames
      exact lookup_mapNames g fn t.entries (fun n hn e => h.inj n fn (Or.inl hn) (Or.inr (Or.inl rfl)) e)
    rw [hl]
    cases t.lookup fn with
    | some ts =>
      simp only [h.flags.1]
      cases c.autoname with
      | true =>
        simp only [if_true]
        rw [getFuncName_renamed R typs h]
        simp [recordAutoname, Table.mapNames]
      | false => simp [Err.map]
    | none => simp only; rw [insert_mapNames]

theorem lookup_mem_assoc : ∀ {l : List (Name × Name)} {k v : Name}, l.lookup k = some v → (k, v) ∈ l
  | [], _, _, h => by simp at h
  | (a, b) :: rest, k, v, h => by
    rw [List.lookup_cons] at h
    split at h
    · rename_i heq
      simp only [Option.some.injEq] at h
      have : k = a := by simpa using heq
      subst this; subst h; simp
    · exact List.mem_cons_of_mem _ (lookup_mem_assoc h)

theorem lookup_map_rename (P P' sf : Name) : ∀ (l : List (Name × Name)), (∀ e ∈ l, ∃ s, e.1 = P ++ s) →
    (l.map (fun e => (rename P P' e.1, rename P P' e.2))).lookup (rename P P' (P ++ sf)) =
      (l.lookup (P ++ sf)).map (rename P P')
  | [], _ => rfl
  | (k, v) :: rest, h => by
    obtain ⟨sk, hk⟩ := h (k, v) (by simp)
    simp only at hk
    subst hk
    simp only [List.map_cons, List.lookup_cons, rename_prefix]
    by_cases e : sf = sk
    · subst e; simp
    · have h1 : (P ++ sf == P ++ sk) = false := by
        simp only [beq_eq_false_iff_ne, ne_eq]
        intro h'; exact e (List.append_cancel_left h')
      have h2 : (P' ++ sf == P' ++ sk) = false := by
        simp only [beq_eq_false_iff_ne, ne_eq]
        intro h'; exact e (List.append_cancel_left h')
      rw [h1, h2]
      have := lookup_map_rename P P' sf rest (fun e' he' => h e' (by simp [he']))
      rw [rename_prefix] at this
      exact this

/-- the instance used for -prefix / -pluginprefix: `g` replaces the leading old prefix by the new one,
all names in play start with the old prefix, and the reserved sets correspond on the candidates -/
theorem renaming_of_prefix {P P' : Name} {c c' : Cfg} {t : Table τ} {fn : Name} (name : List Letter)
    (hc : c.pfx = P) (hc' : c'.pfx = P') (hflags : c'.autoname = c.autoname ∧ c'.dedup = c.dedup)
    (hnames : ∀ n ∈ t.names, ∃ s, n = P ++ s) (hfn : ∃ s, fn = P ++ s)
    (hres : ∀ s, P ++ s ∈ c.reserved ↔ P' ++ s ∈ c'.reserved)
    (hwords : ∀ s, P ++ s ∈ reservedWords ↔ P' ++ s ∈ reservedWords)
    (hP : P ≠ []) (hP' : P' ≠ [])
    (hauto : ∀ e ∈ t.autonamed, (∃ s, e.1 = P ++ s) ∧ (∃ s, e.2 = P ++ s)) :
    Renaming (rename P P') c c' t fn name := by
  have hseq : ∀ (Q : Name) k, ∃ s, (∀ Q' : Name, seqAt Q' name k = Q' ++ s) ∧ seqAt Q name k = Q ++ s := by
    intro Q k
    cases k with
    | zero => exact ⟨[], by simp [seqAt], by simp [seqAt]⟩
    | succ k =>
      unfold seqAt cand
      by_cases hk : k > name.length
      · exact ⟨underscore :: (flat name ++ itoa k), fun Q' => by simp only [hk, if_true], by simp only [hk, if_true]⟩
      · exact ⟨underscore :: flat (name.take k), fun Q' => by simp only [hk, if_false], by simp only [hk, if_false]⟩
  refine ⟨hflags, ?_, ?_, ?_, ?_, ?_⟩
  · intro k
    obtain ⟨s, hs, _⟩ := hseq P k
    rw [hc, hc', hs P, hs P', rename_prefix]
  · intro a b ha hb hab
    have hstart : ∀ x, (x ∈ t.names ∨ x = fn ∨ ∃ k, x = seqAt c.pfx name k) → ∃ s, x = P ++ s := by
      intro x hx
      rcases hx with hx | hx | ⟨k, hx⟩
      · exact hnames x hx
      · rw [hx]; exact hfn
      · obtain ⟨s, hs, _⟩ := hseq P k
        exact ⟨s, by rw [hx, hc, hs P]⟩
    obtain ⟨sa, rfl⟩ := hstart a ha
    obtain ⟨sb, rfl⟩ := hstart b hb
    rw [rename_prefix, rename_prefix] at hab
    rw [List.append_cancel_left hab]
  · intro k
    obtain ⟨s, hs, _⟩ := hseq P k
    rw [hc, hc', hs P, hs P']
    exact hres s
  · intro k
    obtain ⟨s, hs, _⟩ := hseq P k
    rw [hc, hc', hs P, hs P']
    exact hwords s
  · intro f hf
    obtain ⟨sf, rfl⟩ := hnames f hf
    obtain ⟨sn, rfl⟩ := hfn
    unfold Table.autonamedFrom
    rw [show (Table.mapNames (rename P P') t).autonamed = t.autonamed.map (fun e => (rename P P' e.1, rename P P' e.2)) from rfl,
      lookup_map_rename P P' sf t.autonamed (fun e he => (hauto e he).1)]
    cases hl : t.autonamed.lookup (P ++ sf) with
    | none =>
      simp only [Option.map_none, Option.getD_none, rename_prefix]
      constructor
      · intro h; exact absurd (List.append_eq_nil_iff.mp h.symm).1 hP'
      · intro h; exact absurd (List.append_eq_nil_iff.mp h.symm).1 hP
    | some v =>
      obtain ⟨sv, rfl⟩ := (hauto _ (lookup_mem_assoc hl)).2
      simp only [Option.map_some, Option.getD_some, rename_prefix]
      constructor
      · intro h; rw [List.append_cancel_left h]
      · intro h; rw [List.append_cancel_left h]

/-! ### renaming a whole registration (C12) -/

/-- the renaming of plugin `i`'s names when the plugin prefixes change from `ps` to `ps'` -/
def gOf (ps ps' : List (Plugin τ)) (i : Nat) : Name → Name :=
  match ps[i]?, ps'[i]? with
  | some p, some p' => rename p.pfx p'.pfx
  | _, _ => id

/-- the consistently renamed package: every handled call gets its plugin's new prefix -/
def renCall (ps ps' : List (Plugin τ)) (c : Call τ) : Call τ :=
  match handlerOf ps c with
  | some i => { c with name := gOf ps ps' i c.name }
  | none => c

def mapT (ps ps' : List (Plugin τ)) (T : Tables τ) : Tables τ := fun i => (T i).mapNames (gOf ps ps' i)

def renNames (ps ps' : List (Plugin τ)) : List (Call τ) → List (Option Name) → List (Option Name)
  | c :: cs, n :: ns =>
    (match handlerOf ps c with
      | some i => n.map (gOf ps ps' i)
      | none => n) :: renNames ps ps' cs ns
  | _, _ => []

def RegErr.ren (ps ps' : List (Plugin τ)) : RegErr → RegErr
  | .add i e => .add i (e.map (gOf ps ps' i))
  | .rejected i => .rejected i

structure PrefixChange (f f' : Flags) (ps ps' : List (Plugin τ)) : Prop where
  len : ps'.length = ps.length
  accept : ∀ (i : Nat) (p p' : Plugin τ), ps[i]? = some p → ps'[i]? = some p' → p'.accept = p.accept
  flags : f'.autoname = f.autoname ∧ f'.dedup = f.dedup
  /-- freshness: reservedness of names with the old / new prefix of a plugin corresponds -/
  fresh : ∀ (i : Nat) (p p' : Plugin τ), ps[i]? = some p → ps'[i]? = some p' →
    ∀ s, p.pfx ++ s ∈ f.reserved ↔ p'.pfx ++ s ∈ f'.reserved
  /-- a name with the old prefix is a keyword / predeclared identifier iff its image is (e.g. neither ever is) -/
  words : ∀ (i : Nat) (p p' : Plugin τ), ps[i]? = some p → ps'[i]? = some p' →
    ∀ s, p.pfx ++ s ∈ reservedWords ↔ p'.pfx ++ s ∈ reservedWords
  nonempty : (∀ p ∈ ps, p.pfx ≠ []) ∧ (∀ p ∈ ps', p.pfx ≠ [])

/-- all names a table holds (bound names, and both sides of the -autoname record) start with `P` -/
def TablePrefixed (P : Name) (t : Table τ) : Prop :=
  (∀ n ∈ t.names, ∃ s, n = P ++ s) ∧ (∀ e ∈ t.autonamed, (∃ s, e.1 = P ++ s) ∧ (∃ s, e.2 = P ++ s))

/-- every table holds only names that start with its plugin's prefix -/
def Prefixed (ps : List (Plugin τ)) (T : Tables τ) : Prop :=
  ∀ i p, ps[i]? = some p → TablePrefixed p.pfx (T i)

theorem minted_has_prefix' (c : Cfg) (t : Table τ) (typs : List τ) : ∃ s, newName R c t typs = c.pfx ++ s := by
  obtain ⟨k, hk, _⟩ := newName_spec R c t typs
  rw [hk]
  cases k with
  | zero => exact ⟨[], by simp [seqAt]⟩
  | succ k =>
    by_cases hk : k > (hintOf R typs).length
    · exact ⟨underscore :: (flat (hintOf R typs) ++ itoa k), by simp only [seqAt, cand, hk, if_true]⟩
    · exact ⟨underscore :: flat ((hintOf R typs).take k), by simp only [seqAt, cand, hk, if_false]⟩

theorem getFuncName_keeps_prefix' (c : Cfg) (t : Table τ) (typs : List τ)
    (h : ∀ n ∈ t.names, ∃ s, n = c.pfx ++ s) : ∀ n ∈ (getFuncName R c t typs).2.names, ∃ s, n = c.pfx ++ s := by
  unfold getFuncName
  cases nameOf R t typs with
  | some f => exact h
  | none =>
    intro n hn
    simp only [names_insert, List.mem_append, List.mem_singleton] at hn
    rcases hn with hn | rfl
    · exact h n hn
    · exact minted_has_prefix' R c t typs

theorem setFuncName_keeps_prefix' (c : Cfg) (t : Table τ) (fn : Name) (typs : List τ) {n : Name} {t' : Table τ}
    (h : ∀ n ∈ t.names, ∃ s, n = c.pfx ++ s) (hfn : ∃ s, fn = c.pfx ++ s)
    (hs : setFuncName R c t fn typs = .ok (n, t')) : ∀ m ∈ t'.names, ∃ s, m = c.pfx ++ s := by
  rcases setFuncName_ok_shape R hs with ⟨rfl, _⟩ | ⟨_, rfl, _, _⟩ | ⟨_, _, hn, _, _, rfl, _⟩
  · exact h
  · intro m hm
    simp only [names_insert, List.mem_append, List.mem_singleton] at hm
    rcases hm with hm | rfl
    · exact h m hm
    · exact hfn
  · intro m hm
    have hm' : m ∈ (t.insert n typs).names := hm
    simp only [names_insert, List.mem_append, List.mem_singleton] at hm'
    rcases hm' with hm' | rfl
    · exact h m hm'
    · rw [hn]; exact minted_has_prefix' R c t typs

theorem setFuncName_keeps_tablePrefixed (c : Cfg) (t : Table τ) (fn : Name) (typs : List τ) {n : Name} {t' : Table τ}
    (h : TablePrefixed c.pfx t) (hfn : ∃ s, fn = c.pfx ++ s)
    (hs : setFuncName R c t fn typs = .ok (n, t')) : TablePrefixed c.pfx t' := by
  refine ⟨setFuncName_keeps_prefix' R c t fn typs h.1 hfn hs, ?_⟩
  rcases setFuncName_ok_shape R hs with ⟨rfl, _⟩ | ⟨_, rfl, _, _⟩ | ⟨_, _, hn, _, _, rfl, _⟩
  · exact h.2
  · exact h.2
  · intro e he
    simp only [List.mem_cons] at he
    rcases he with rfl | he
    · exact ⟨by rw [hn]; exact minted_has_prefix' R c t typs, hfn⟩
    · exact h.2 e he

theorem hasPrefix_split {name p : Name} (h : hasPrefix name p = true) : ∃ s, name = p ++ s := by
  obtain ⟨s, hs⟩ := List.isPrefixOf_iff_prefix.mp h
  exact ⟨s, hs.symm⟩

theorem mapT_set (ps ps' : List (Plugin τ)) (T : Tables τ) (i : Nat) (t : Table τ) :
    mapT ps ps' (T.set i t) = (mapT ps ps' T).set i (t.mapNames (gOf ps ps' i)) := by
  funext j
  unfold mapT Tables.set
  by_cases h : j = i
  · subst h; simp
  · simp [h]

/-- one call of the renamed package against the renamed tables -/
theorem pkgAdd_renamed {f f' : Flags} {ps ps' : List (Plugin τ)} (hch : PrefixChange f f' ps ps')
    {T : Tables τ} (hpre : Prefixed ps T) {c : Call τ}
    (hd : handlerOf ps' (renCall ps ps' c) = handlerOf ps c) :
    pkgAdd R f' ps' (mapT ps ps' T) (renCall ps ps' c) =
      match pkgAdd R f ps T c with
      | .ok none => .ok none
      | .ok (some (n, T1)) =>
        (match handlerOf ps c with
          | some i => .ok (some (gOf ps ps' i n, mapT ps ps' T1))
          | none => .ok none)
      | .error e => .error (e.ren ps ps') := by
  cases hh : handlerOf ps c with
  | none =>
    rw [pkgAdd_unhandled R f T hh]
    have : handlerOf ps' (renCall ps ps' c) = none := by rw [hd, hh]
    rw [pkgAdd_unhandled R f' (mapT ps ps' T) this]
  | some i =>
    obtain ⟨p, hp, hpp⟩ := handlerOf_plugin hh
    have hh' : handlerOf ps' (renCall ps ps' c) = some i := by rw [hd, hh]
    obtain ⟨p', hp', _⟩ := handlerOf_plugin hh'
    have hacc := hch.accept i p p' hp hp'
    have hg : gOf ps ps' i = rename p.pfx p'.pfx := by
      funext n; simp only [gOf, hp, hp']
    have hname : (renCall ps ps' c).name = gOf ps ps' i c.name := by simp only [renCall, hh]
    have hargs : (renCall ps ps' c).args = c.args := by simp only [renCall, hh]
    obtain ⟨s, hs⟩ := hasPrefix_split hpp
    cases hac : p.accept c.args with
    | false =>
      have h1 : pkgAdd R f ps T c = .error (.rejected i) := by
        unfold pkgAdd; unfold handlerOf pfxs at hh; simp only [hh, hp, hac]; rfl
      have h2 : pkgAdd R f' ps' (mapT ps ps' T) (renCall ps ps' c) = .error (.rejected i) := by
        unfold pkgAdd; unfold handlerOf pfxs at hh'; simp only [hh', hp', hargs, hacc, hac]; rfl
      rw [h1, h2]; rfl
    | true =>
      rw [pkgAdd_handled R f T hh hp hac]
      rw [pkgAdd_handled R f' (mapT ps ps' T) hh' hp' (by rw [hargs, hacc]; exact hac)]
      have hren := renaming_of_prefix (c := f.cfg p.pfx) (c' := f'.cfg p'.pfx) (t := T i) (fn := c.name)
        (hintOf R c.args) rfl rfl (by simpa [Flags.cfg] using hch.flags) (hpre i p hp).1 ⟨s, hs⟩
        (by simpa [Flags.cfg] using hch.fresh i p p' hp hp') (hch.words i p p' hp hp')
        (hch.nonempty.1 p (List.mem_of_getElem? hp)) (hch.nonempty.2 p' (List.mem_of_getElem? hp'))
        (hpre i p hp).2
      have hset : setFuncName R (f'.cfg p'.pfx) ((T i).mapNames (rename p.pfx p'.pfx)) (rename p.pfx p'.pfx c.name) c.args =
          match setFuncName R (f.cfg p.pfx) (T i) c.name c.args with
          | .ok (n, t') => .ok (rename p.pfx p'.pfx n, t'.mapNames (rename p.pfx p'.pfx))
          | .error e => .error (e.map (rename p.pfx p'.pfx)) := setFuncName_renamed R c.args hren
      have hT : (mapT ps ps' T) i = (T i).mapNames (rename p.pfx p'.pfx) := by simp only [mapT, hg]
      rw [hname, hargs, hT, hg, hset]
      cases hs' : setFuncName R (f.cfg p.pfx) (T i) c.name c.args with
      | error e => simp only [RegErr.ren, hg]
      | ok r =>
        obtain ⟨n, t'⟩ := r
        simp only [mapT_set, hg]

theorem regFile_cons_some (f : Flags) {ps : List (Plugin τ)} {T T1 : Tables τ} {c : Call τ} (rest : List (Call τ))
    {n : Name} (h : pkgAdd R f ps T c = .ok (some (n, T1))) (hn : n ≠ []) :
    regFile R f ps T (c :: rest) =
      if n ≠ c.name ∧ f.autoname = false ∧ f.dedup = false then .panic else
      match regFile R f ps T1 rest with
      | .ok (ns, ch, T') => .ok (some n :: ns, decide (n ≠ c.name) || ch, T')
      | .error e => .error e
      | .panic => .panic := by
  rw [regFile, h]
  simp only [hn, if_false, Bool.not_eq_true']
  rfl

def mapFileRes (ps ps' : List (Plugin τ)) (calls : List (Call τ)) :
    RegRes (List (Option Name) × Bool × Tables τ) → RegRes (List (Option Name) × Bool × Tables τ)
  | .ok (ns, ch, T1) => .ok (renNames ps ps' calls ns, ch, mapT ps ps' T1)
  | .error e => .error (e.ren ps ps')
  | .panic => .panic

theorem prefixed_set {ps : List (Plugin τ)} {T : Tables τ} (hpre : Prefixed ps T) {i : Nat} {p : Plugin τ}
    (hp : ps[i]? = some p) {t' : Table τ} (h : TablePrefixed p.pfx t') : Prefixed ps (T.set i t') := by
  intro j q hq
  by_cases hj : j = i
  · subst hj
    rw [Tables.set_same]
    rw [hp] at hq; cases hq
    exact h
  · rw [Tables.set_other _ _ hj]
    exact hpre j q hq

theorem regFile_renamed {f f' : Flags} {ps ps' : List (Plugin τ)} (hch : PrefixChange f f' ps ps') :
    ∀ (calls : List (Call τ)) (T : Tables τ), Prefixed ps T →
    (∀ c ∈ calls, handlerOf ps' (renCall ps ps' c) = handlerOf ps c) →
    regFile R f' ps' (mapT ps ps' T) (calls.map (renCall ps ps')) = mapFileRes ps ps' calls (regFile R f ps T calls)
  | [], T, _, _ => by simp [regFile, mapFileRes, renNames]
  | c :: rest, T, hpre, hd => by
    have hstep := pkgAdd_renamed R hch hpre (hd c (by simp))
    have hd' : ∀ c' ∈ rest, handlerOf ps' (renCall ps ps' c') = handlerOf ps c' := fun c' hc' => hd c' (by simp [hc'])
    rw [List.map_cons]
    cases hp : pkgAdd R f ps T c with
    | error e =>
      rw [hp] at hstep
      rw [regFile_cons_error R f' _ hstep, regFile_cons_error R f rest hp]
      rfl
    | ok r =>
      cases r with
      | none =>
        rw [hp] at hstep
        rw [regFile_cons_none R f' _ hstep, regFile_cons_none R f rest hp, regFile_renamed hch rest T hpre hd']
        cases regFile R f ps T rest with
        | error e => rfl
        | panic => rfl
        | ok r =>
          obtain ⟨ns, ch, T'⟩ := r
          simp only [mapFileRes, renNames]
          cases handlerOf ps c <;> rfl
      | some r =>
        obtain ⟨n, T1⟩ := r
        obtain ⟨i, p, t', hh, hpi, hs, rfl⟩ := pkgAdd_ok_some_inv R f hp
        rw [hp, hh] at hstep
        simp only at hstep
        have hh' : handlerOf ps' (renCall ps ps' c) = some i := by rw [hd c (by simp), hh]
        obtain ⟨p', hpi', _⟩ := handlerOf_plugin hh'
        obtain ⟨_, hcp⟩ := handlerOf_plugin hh
        have hcp' : hasPrefix c.name p.pfx = true := by
          obtain ⟨q, hq, hqq⟩ := handlerOf_plugin hh
          rw [hpi] at hq; cases hq; exact hqq
        obtain ⟨sc, hsc⟩ := hasPrefix_split hcp'
        have hg : gOf ps ps' i = rename p.pfx p'.pfx := by
          funext m; simp only [gOf, hpi, hpi']
        have hkeep := setFuncName_keeps_tablePrefixed R (f.cfg p.pfx) (T i) c.name c.args (hpre i p hpi) ⟨sc, hsc⟩ hs
        obtain ⟨⟨ts, hm, _⟩, _⟩ := setFuncName_sound' R (f.cfg p.pfx) (T i) c.name c.args hs
        obtain ⟨sn, hsn⟩ := hkeep.1 n (List.mem_map.mpr ⟨(n, ts), hm, rfl⟩)
        have hsn' : n = p.pfx ++ sn := hsn
        have hpne : p.pfx ≠ [] := hch.nonempty.1 p (List.mem_of_getElem? hpi)
        have hpne' : p'.pfx ≠ [] := hch.nonempty.2 p' (List.mem_of_getElem? hpi')
        have hn : n ≠ [] := by rw [hsn']; simp [hpne]
        have hgn : gOf ps ps' i n = p'.pfx ++ sn := by rw [hg, hsn', rename_prefix]
        have hgn' : gOf ps ps' i n ≠ [] := by rw [hgn]; simp [hpne']
        have hcname : (renCall ps ps' c).name = p'.pfx ++ sc := by
          simp only [renCall, hh, hg]; rw [hsc, rename_prefix]
        have hneq : (gOf ps ps' i n = (renCall ps ps' c).name) ↔ (n = c.name) := by
          rw [hgn, hcname, hsn', hsc]
          constructor
          · intro e; rw [List.append_cancel_left e]
          · intro e; rw [List.append_cancel_left e]
        have hpre1 : Prefixed ps (T.set i t') := prefixed_set hpre hpi hkeep
        rw [regFile_cons_some R f' _ hstep hgn', regFile_cons_some R f rest hp hn,
          regFile_renamed hch rest (T.set i t') hpre1 hd']
        simp only [ne_eq, hneq, hch.flags.1, hch.flags.2]
        by_cases hcond : n ≠ c.name ∧ f.autoname = false ∧ f.dedup = false
        · simp [hcond, mapFileRes]
        · simp only [hcond, if_false]
          cases regFile R f ps (T.set i t') rest with
          | error e => rfl
          | panic => rfl
          | ok r =>
            obtain ⟨ns, ch, T'⟩ := r
            simp only [mapFileRes, renNames, hh, Option.map_some]

theorem regFile_prefixed (f : Flags) {ps : List (Plugin τ)} : ∀ (calls : List (Call τ)) (T : Tables τ)
    (ns : List (Option Name)) (ch : Bool) (T' : Tables τ), Prefixed ps T →
    regFile R f ps T calls = .ok (ns, ch, T') → Prefixed ps T'
  | [], T, ns, ch, T', hpre, h => by
    simp only [regFile, RegRes.ok.injEq, Prod.mk.injEq] at h
    obtain ⟨_, _, rfl⟩ := h
    exact hpre
  | c :: rest, T, ns, ch, T', hpre, h => by
    rcases regFile_cons_ok_inv R f h with ⟨_, ns', _, hr⟩ | ⟨n, T1, ns', ch', hadd, _, hr⟩
    · exact regFile_prefixed f rest T ns' ch T' hpre hr
    · obtain ⟨i, p, t', hh, hp, hs, rfl⟩ := pkgAdd_ok_some_inv R f hadd
      obtain ⟨q, hq, hqq⟩ := handlerOf_plugin hh
      rw [hp] at hq; cases hq
      have hkeep := setFuncName_keeps_tablePrefixed R (f.cfg p.pfx) (T i) c.name c.args (hpre i p hp) (hasPrefix_split hqq) hs
      exact regFile_prefixed f rest (T.set i t') ns' ch' T' (prefixed_set hpre hp hkeep) hr

def renOut (ps ps' : List (Plugin τ)) : List (List (Call τ)) → List (List (Option Name) × Bool) →
    List (List (Option Name) × Bool)
  | file :: fs, (ns, ch) :: os => (renNames ps ps' file ns, ch) :: renOut ps ps' fs os
  | _, _ => []

def mapFilesRes (ps ps' : List (Plugin τ)) (files : List (List (Call τ))) :
    RegRes (List (List (Option Name) × Bool) × Tables τ) → RegRes (List (List (Option Name) × Bool) × Tables τ)
  | .ok (out, T1) => .ok (renOut ps ps' files out, mapT ps ps' T1)
  | .error e => .error (e.ren ps ps')
  | .panic => .panic

theorem regFiles_renamed {f f' : Flags} {ps ps' : List (Plugin τ)} (hch : PrefixChange f f' ps ps') :
    ∀ (files : List (List (Call τ))) (T : Tables τ), Prefixed ps T →
    (∀ c ∈ files.flatten, handlerOf ps' (renCall ps ps' c) = handlerOf ps c) →
    regFiles R f' ps' (mapT ps ps' T) (files.map (·.map (renCall ps ps'))) =
      mapFilesRes ps ps' files (regFiles R f ps T files)
  | [], T, _, _ => by simp [regFiles, mapFilesRes, renOut]
  | file :: rest, T, hpre, hd => by
    have hd1 : ∀ c ∈ file, handlerOf ps' (renCall ps ps' c) = handlerOf ps c :=
      fun c hc => hd c (by simp [hc])
    have hd2 : ∀ c ∈ rest.flatten, handlerOf ps' (renCall ps ps' c) = handlerOf ps c :=
      fun c hc => hd c (by simp only [List.flatten_cons, List.mem_append]; exact Or.inr hc)
    rw [List.map_cons, regFiles, regFile_renamed R hch file T hpre hd1, regFiles]
    cases hr : regFile R f ps T file with
    | error e => rfl
    | panic => rfl
    | ok r =>
      obtain ⟨ns, ch, T1⟩ := r
      have hpre1 := regFile_prefixed R f file T ns ch T1 hpre hr
      simp only [mapFileRes]
      rw [regFiles_renamed hch rest T1 hpre1 hd2]
      cases regFiles R f ps T1 rest with
      | error e => rfl
      | panic => rfl
      | ok r' =>
        obtain ⟨out, T'⟩ := r'
        rfl

theorem prefixed_empty (ps : List (Plugin τ)) : Prefixed ps (Tables.empty : Tables τ) := by
  intro i p _
  exact ⟨by simp [Tables.empty, Table.names], by simp [Tables.empty]⟩

theorem mapT_empty (ps ps' : List (Plugin τ)) : mapT ps ps' (Tables.empty : Tables τ) = Tables.empty := by
  funext i
  simp [mapT, Tables.empty, Table.mapNames]

end

end Goderive.G
