/-
Helper lemmas for the method-aware models (S/Methods.lean) and specification (Spec/StructEqM.lean):

1. conservativity: on environments without user methods the M models / M specification coincide
   with the plain ones (`canEqualM_eq_canEqual…`, `eqMConserv`, `cmpMConserv`, `hashMConserv`,
   `specMConserv`, `structEqTopM_eq_structEqM_of_noMethods`);
2. the method clause of C02: `EqualM.top = structEqTopM`, `EqualM.field = structEqM` on environments
   where declarations may carry Equal methods (`equalMOK`; supportedness `SupportedM` /
   `SupportedCompM`; key lemma `goEqMOK`: `==` is `structEqM` on `canEqualM` types);
3. `HashM` respects `structEqM` / `structEqTopM` when exactly the declarations with an Equal method
   have a Hash method (`hashMOK`);
and the concrete world `MW` (types with methods) used by the non-vacuity examples of Props/C02c, C03c,
C04c, with the evaluation tactics `goderive_evalM` (specification) and `equalM_eval` (model).
-/
import GoderiveModel.S.Methods
import GoderiveModel.Spec.StructEqM
import GoderiveModel.Lemmas.Equal
import GoderiveModel.Lemmas.Hash

set_option linter.unusedSimpArgs false
set_option linter.unusedVariables false

namespace Goderive
open Val

/-! ## Flag consistency -/

/-- the two cached `canEqual` flags of every declaration agree (what the driver's `fixFlags`
computes when no declaration has a method) -/
def Env.flagsAgree (env : Env) : Bool := env.decls.all fun d => d.canEqM == d.canEq

/-- every declaration's cached `canEqM` flag is right: a type with an Equal method is never
compared with `==`, otherwise the flag is `canEqualM` of the underlying type -/
def Env.flagsOkM (env : Env) : Bool :=
  env.decls.all fun d => d.canEqM == (d.eqM.isNone && canEqualM env d.under)

/-- names reachable from a type through arrays and struct fields only (the positions `canEqual`
looks through) -/
def directRefs : Ty → List Nat
  | .named i => [i]
  | .array _ t => directRefs t
  | .struct fs => directRefs fs
  | .fcons t r => directRefs t ++ directRefs r
  | _ => []

/-- `rank` witnesses that no declaration contains itself through arrays and struct fields only
(Go rejects such types: "invalid recursive type"). Decidable for a concrete `rank`. -/
def Env.directWF (env : Env) (rank : Nat → Nat) : Prop :=
  ∀ i d, env.decl? i = some d → ∀ j ∈ directRefs d.under, rank j < rank i

theorem Env.flagsAgree_decl {env : Env} (h : env.flagsAgree = true) {i : Nat} {d : Decl}
    (hd : env.decl? i = some d) : d.canEqM = d.canEq := by
  unfold Env.flagsAgree at h
  rw [List.all_eq_true] at h
  simpa using h d (Env.decl_mem hd)

theorem Env.flagsOkM_decl {env : Env} (h : env.flagsOkM = true) {i : Nat} {d : Decl}
    (hd : env.decl? i = some d) : d.canEqM = (d.eqM.isNone && canEqualM env d.under) := by
  unfold Env.flagsOkM at h
  rw [List.all_eq_true] at h
  simpa using h d (Env.decl_mem hd)

theorem Env.noMethods_decl {env : Env} (h : env.noMethods = true) {i : Nat} {d : Decl}
    (hd : env.decl? i = some d) : d.eqM = none ∧ d.cmpM = none ∧ d.hashM = none := by
  unfold Env.noMethods at h
  rw [List.all_eq_true] at h
  have := h d (Env.decl_mem hd)
  simpa [Bool.and_eq_true, Option.isNone_iff_eq_none, and_assoc] using this

theorem Env.eqM?_none {env : Env} (h : env.noMethods = true) (T : Ty) : env.eqM? T = none := by
  cases T with
  | named i =>
    cases hd : env.decl? i with
    | none => simp [Env.eqM?, hd]
    | some d => simp [Env.eqM?, hd, (Env.noMethods_decl h hd).1]
  | _ => rfl

theorem Env.cmpM?_none {env : Env} (h : env.noMethods = true) (T : Ty) : env.cmpM? T = none := by
  cases T with
  | named i =>
    cases hd : env.decl? i with
    | none => simp [Env.cmpM?, hd]
    | some d => simp [Env.cmpM?, hd, (Env.noMethods_decl h hd).2.1]
  | _ => rfl

theorem Env.hashM?_none {env : Env} (h : env.noMethods = true) (T : Ty) : env.hashM? T = none := by
  cases T with
  | named i =>
    cases hd : env.decl? i with
    | none => simp [Env.hashM?, hd]
    | some d => simp [Env.hashM?, hd, (Env.noMethods_decl h hd).2.2]
  | _ => rfl

/-! ## Conservativity 1: `canEqualM = canEqual` -/

theorem canEqualM_eq_canEqual_of_flagsAgree {env : Env} (ha : env.flagsAgree = true) :
    ∀ T : Ty, canEqualM env T = canEqual env T := by
  intro T
  induction T with
  | named i =>
    cases hd : env.decl? i with
    | none => simp [canEqualM, canEqual, hd]
    | some d => simp [canEqualM, canEqual, hd, Env.flagsAgree_decl ha hd]
  | array n E ih => simpa [canEqualM, canEqual] using ih
  | struct fs ih => simpa [canEqualM, canEqual] using ih
  | fcons F r ih1 ih2 => simp [canEqualM, canEqual, ih1, ih2]
  | _ => rfl

/-- the two flags agree on every name the type refers to directly ⇒ the two predicates agree -/
theorem canEqualM_eq_canEqual_of_refs {env : Env} :
    ∀ T : Ty, (∀ j ∈ directRefs T, ∀ d, env.decl? j = some d → d.canEqM = d.canEq) →
      canEqualM env T = canEqual env T := by
  intro T
  induction T with
  | named i =>
    intro h
    cases hd : env.decl? i with
    | none => simp [canEqualM, canEqual, hd]
    | some d => simp [canEqualM, canEqual, hd, h i (by simp [directRefs]) d hd]
  | array n E ih => intro h; simpa [canEqualM, canEqual] using ih (by simpa [directRefs] using h)
  | struct fs ih => intro h; simpa [canEqualM, canEqual] using ih (by simpa [directRefs] using h)
  | fcons F r ih1 ih2 =>
    intro h
    simp only [directRefs, List.mem_append] at h
    simp [canEqualM, canEqual, ih1 (fun j hj => h j (Or.inl hj)), ih2 (fun j hj => h j (Or.inr hj))]
  | _ => intro _; rfl

/-- On a method-free environment whose declarations do not contain themselves through arrays and
struct fields only, ANY two consistent flag assignments agree. (Without the well-foundedness
hypothesis they need not: for `type T struct{ x T }` both `canEq = true` and `canEq = false` satisfy
the flag equation.) -/
theorem Env.flagsAgree_of_directWF {env : Env} (rank : Nat → Nat) (hn : env.noMethods = true)
    (hf : env.flagsOk = true) (hfM : env.flagsOkM = true) (hw : env.directWF rank) :
    env.flagsAgree = true := by
  have key : ∀ n i d, rank i < n → env.decl? i = some d → d.canEqM = d.canEq := by
    intro n
    induction n with
    | zero => intro i d h; omega
    | succ n ih =>
      intro i d hr hd
      rw [Env.flagsOkM_decl hfM hd, (Env.flagsOk_decl hf hd).1, (Env.noMethods_decl hn hd).1]
      simp only [Option.isNone_none, Bool.true_and]
      apply canEqualM_eq_canEqual_of_refs
      intro j hj d' hd'
      exact ih j d' (by have := hw i d hd j hj; omega) hd'
  unfold Env.flagsAgree
  rw [List.all_eq_true]
  intro d hm
  obtain ⟨i, hi, rfl⟩ := List.getElem_of_mem hm
  have hd : env.decl? i = some env.decls[i] := by
    unfold Env.decl?; exact List.getElem?_eq_getElem hi
  simpa using key (rank i + 1) i _ (Nat.lt_succ_self _) hd

theorem canEqualM_eq_canEqual {env : Env} (rank : Nat → Nat) (hn : env.noMethods = true)
    (hf : env.flagsOk = true) (hfM : env.flagsOkM = true) (hw : env.directWF rank) (T : Ty) :
    canEqualM env T = canEqual env T :=
  canEqualM_eq_canEqual_of_flagsAgree (Env.flagsAgree_of_directWF rank hn hf hfM hw) T

/-! ## Conservativity 2: `EqualM = Equal` -/

/-- close a goal `match … = match …` whose two sides are the same case analysis on variables: split the
left side, reduce the right side; in the catch-all case split the right side too (the extra cases
contradict the catch-all's side conditions) -/
syntax "match_both" : tactic
macro_rules
  | `(tactic| match_both) =>
    `(tactic| (split <;> (try simp only []) <;> first | rfl | (split <;> first | rfl | (exfalso; simp_all; done)) | skip))

structure EqMConserv (env : Env) (x : Val) : Prop where
  top : ∀ T y, EqualM.top env T x y = Equal.top env T x y
  field : ∀ F y, EqualM.field env F x y = Equal.field env F x y
  fields : ∀ fs ys, EqualM.fields env fs x ys = Equal.fields env fs x ys
  elems : ∀ E ys, EqualM.elems env E x ys = Equal.elems env E x ys
  entries : ∀ V ys, EqualM.entries env V x ys = Equal.entries env V x ys

theorem eqMConserv {env : Env} (hn : env.noMethods = true) (ha : env.flagsAgree = true) (x : Val) :
    EqMConserv env x := by
  induction x using Val.strongInduction with
  | step x ih =>
  have hc := canEqualM_eq_canEqual_of_flagsAgree ha
  have hm := Env.eqM?_none hn
  have htop : ∀ T y, EqualM.top env T x y = Equal.top env T x y := by
    intro T y
    rw [EqualM.top.eq_def, Equal.top.eq_def]
    simp only [hm, hc]
    cases hU : env.under T <;> simp only []
    case ptr R =>
      cases hR : env.under R <;> simp only []
      case struct fs =>
        split
        · match_both
          (refine (ih _ ?_).fields _ _; simp <;> omega)
        · rfl
      all_goals match_both
      all_goals first
        | (refine (ih _ ?_).top _ _; simp <;> omega)
        | (refine (ih _ ?_).fields _ _; simp <;> omega)
    case struct fs =>
      split
      · match_both
        (refine (ih _ ?_).fields _ _; simp <;> omega)
      · split
        · rfl
        · match_both
          (refine (ih _ ?_).fields _ _; simp <;> omega)
    case slice E =>
      match_both
      split <;> (try rfl)
      (refine (ih _ ?_).elems _ _; simp <;> omega)
    case array n E =>
      match_both
      (refine (ih _ ?_).elems _ _; simp <;> omega)
    case map K V =>
      match_both
      split <;> (try rfl)
      (refine (ih _ ?_).entries _ _; simp <;> omega)
  refine ⟨htop, ?_, ?_, ?_, ?_⟩
  · intro F y
    rw [EqualM.field.eq_def, Equal.field.eq_def]
    simp only [hm, hc]
    split
    · rfl
    · cases hU : env.under F <;> simp only [htop]
      · split
        · rfl
        · match_both
          (refine (ih _ ?_).field _ _; simp <;> omega)
  · intro fs ys
    rw [EqualM.fields.eq_def, Equal.fields.eq_def]
    match_both
    rw [(ih _ (by simp <;> omega)).field, (ih _ (by simp <;> omega)).fields]
  · intro fs ys
    rw [EqualM.elems.eq_def, Equal.elems.eq_def]
    match_both
    rw [(ih _ (by simp <;> omega)).field, (ih _ (by simp <;> omega)).elems]
  · intro fs ys
    rw [EqualM.entries.eq_def, Equal.entries.eq_def]
    match_both
    rename_i k v xs'
    cases mapLookup k ys <;> simp only []
    rw [(ih v (by simp <;> omega)).field, (ih xs' (by simp <;> omega)).entries]

/-! ## Conservativity 3: `CompareM = Compare`, `HashM = Hash` -/

structure CmpMConserv (env : Env) (x : Val) : Prop where
  top : ∀ T y, CompareM.top env T x y = Compare.top env T x y
  field : ∀ F y, CompareM.field env F x y = Compare.field env F x y
  fields : ∀ fs ys, CompareM.fields env fs x ys = Compare.fields env fs x ys
  elems : ∀ E ys, CompareM.elems env E x ys = Compare.elems env E x ys
  entries : ∀ V ys, CompareM.entries env V x ys = Compare.entries env V x ys

theorem cmpMConserv {env : Env} (hn : env.noMethods = true) (x : Val) : CmpMConserv env x := by
  induction x using Val.strongInduction with
  | step x ih =>
  have hm := Env.cmpM?_none hn
  have htop : ∀ T y, CompareM.top env T x y = Compare.top env T x y := by
    intro T y
    rw [CompareM.top.eq_def, Compare.top.eq_def]
    simp only [hm]
    cases hU : env.under T <;> simp only []
    case ptr R =>
      match_both
      cases hR : env.under R <;> simp only []
      case struct fs =>
        split
        · match_both
          (refine (ih _ ?_).fields _ _; simp <;> omega)
        · rfl
      all_goals (refine (ih _ ?_).top _ _; simp <;> omega)
    case struct fs =>
      split
      · match_both
        (refine (ih _ ?_).fields _ _; simp <;> omega)
      · rfl
    case slice E =>
      match_both
      split <;> (try rfl)
      (refine (ih _ ?_).elems _ _; simp <;> omega)
    case array n E =>
      match_both
      (refine (ih _ ?_).elems _ _; simp <;> omega)
    case map K V =>
      match_both
      split <;> (try rfl)
      (refine (ih _ ?_).entries _ _; simp [sizeOf_sortEntries] <;> omega)
  refine ⟨htop, ?_, ?_, ?_, ?_⟩
  · intro F y
    rw [CompareM.field.eq_def, Compare.field.eq_def]
    simp only [hm]
    cases hU : env.under F <;> simp only [htop]
  · intro fs ys
    rw [CompareM.fields.eq_def, Compare.fields.eq_def]
    match_both
    rw [(ih _ (by simp <;> omega)).field, (ih _ (by simp <;> omega)).fields]
  · intro fs ys
    rw [CompareM.elems.eq_def, Compare.elems.eq_def]
    match_both
    rw [(ih _ (by simp <;> omega)).field, (ih _ (by simp <;> omega)).elems]
  · intro fs ys
    rw [CompareM.entries.eq_def, Compare.entries.eq_def]
    match_both
    rw [(ih _ (by simp <;> omega)).field, (ih _ (by simp <;> omega)).entries]

structure HashMConserv (env : Env) (x : Val) : Prop where
  top : ∀ T, HashM.top env T x = Hash.top env T x
  field : ∀ F, HashM.field env F x = Hash.field env F x
  fields : ∀ skip fs h, HashM.fields env skip fs x h = Hash.fields env skip fs x h
  elems : ∀ E h, HashM.elems env E x h = Hash.elems env E x h
  entries : ∀ K V h, HashM.entries env K V x h = Hash.entries env K V x h

theorem hashMConserv {env : Env} (hn : env.noMethods = true) (x : Val) : HashMConserv env x := by
  induction x using Val.strongInduction with
  | step x ih =>
  have hm := Env.hashM?_none hn
  have htop : ∀ T, HashM.top env T x = Hash.top env T x := by
    intro T
    rw [HashM.top.eq_def, Hash.top.eq_def]
    simp only [hm]
    cases hU : env.under T <;> simp only []
    case ptr R =>
      match_both
      cases hR : env.under R <;> simp only []
      case struct fs =>
        split
        · match_both
          split
          · rfl
          · (refine (ih _ ?_).fields _ _ _; simp <;> omega)
        · rw [(ih _ (by simp <;> omega)).field]
      all_goals rw [(ih _ (by simp <;> omega)).field]
    case struct fs =>
      match_both
      split
      · rfl
      · (refine (ih _ ?_).fields _ _ _; simp <;> omega)
    case slice E =>
      match_both
      (refine (ih _ ?_).elems _ _; simp <;> omega)
    case array n E =>
      match_both
      (refine (ih _ ?_).elems _ _; simp <;> omega)
    case map K V =>
      match_both
      (refine (ih _ ?_).entries _ _ _; simp [sizeOf_sortEntries] <;> omega)
  refine ⟨htop, ?_, ?_, ?_, ?_⟩
  · intro F
    rw [HashM.field.eq_def, Hash.field.eq_def]
    simp only [hm]
    cases hU : env.under F <;> simp only [htop]
  · intro skip fs h
    rw [HashM.fields.eq_def, Hash.fields.eq_def]
    match_both
    split
    · (refine (ih _ ?_).fields _ _ _; simp <;> omega)
    · rw [(ih _ (by simp <;> omega)).field]
      congr 1; funext c
      (refine (ih _ ?_).fields _ _ _; simp <;> omega)
  · intro E h
    rw [HashM.elems.eq_def, Hash.elems.eq_def]
    match_both
    rw [(ih _ (by simp <;> omega)).field]
    congr 1; funext c
    (refine (ih _ ?_).elems _ _; simp <;> omega)
  · intro K V h
    rw [HashM.entries.eq_def, Hash.entries.eq_def]
    match_both
    rw [(ih _ (by simp <;> omega)).field]
    congr 1; funext ck
    rw [(ih _ (by simp <;> omega)).field]
    congr 1; funext cv
    (refine (ih _ ?_).entries _ _ _; simp <;> omega)

section SpecM
open Spec

/-! ## Shape of `structEqM` / `structEqTopM` once the method and the underlying type are known -/

theorem beq_ok_true (b : Bool) : ((Res.ok b : Res Bool) == Res.ok true) = b := by
  cases b <;> decide

theorem structEqM_method {env : Env} {T : Ty} {u : UserFn} (hM : env.eqM? T = some u) (x y : Val) :
    structEqM env T x y = (userEqVal x y == .ok true) := by
  rw [structEqM.eq_def]; simp only [hM]

theorem structEqM_basic {env : Env} {T : Ty} {b : Basic} (hM : env.eqM? T = none)
    (hU : env.under T = .basic b) (x y : Val) : structEqM env T x y = leafEq x y := by
  rw [structEqM.eq_def]; simp only [hM, hU]

theorem structEqM_ptr {env : Env} {T R : Ty} (hM : env.eqM? T = none) (hU : env.under T = .ptr R)
    (x y : Val) :
    structEqM env T x y =
      match x, y with
      | .nilv, .nilv => true
      | .ptr _ a, .ptr _ b => structEqM env R a b
      | _, _ => false := by
  rw [structEqM.eq_def]; simp only [hM, hU]
  cases x <;> cases y <;> rfl

theorem structEqM_slice {env : Env} {T E : Ty} (hM : env.eqM? T = none) (hU : env.under T = .slice E)
    (x y : Val) :
    structEqM env T x y =
      match x, y with
      | .nilv, .nilv => true
      | .slice _ _ xs, .slice _ _ ys => seqEqM env E xs ys
      | _, _ => false := by
  rw [structEqM.eq_def]; simp only [hM, hU]
  cases x <;> cases y <;> rfl

theorem structEqM_array {env : Env} {T E : Ty} {n : Nat} (hM : env.eqM? T = none)
    (hU : env.under T = .array n E) (x y : Val) :
    structEqM env T x y =
      match x, y with
      | .arr xs, .arr ys => seqEqM env E xs ys
      | _, _ => false := by
  rw [structEqM.eq_def]; simp only [hM, hU]
  cases x <;> cases y <;> rfl

theorem structEqM_struct {env : Env} {T fs : Ty} (hM : env.eqM? T = none)
    (hU : env.under T = .struct fs) (x y : Val) :
    structEqM env T x y =
      match x, y with
      | .struct xs, .struct ys => fieldsEqM env fs xs ys
      | _, _ => false := by
  rw [structEqM.eq_def]; simp only [hM, hU]
  cases x <;> cases y <;> rfl

theorem structEqM_map {env : Env} {T K V : Ty} (hM : env.eqM? T = none)
    (hU : env.under T = .map K V) (x y : Val) :
    structEqM env T x y =
      match x, y with
      | .nilv, .nilv => true
      | .map _ xs, .map _ ys => xs.slen == ys.slen && entriesInM env K V xs ys
      | _, _ => false := by
  rw [structEqM.eq_def]; simp only [hM, hU]
  cases x <;> cases y <;> rfl

theorem structEqM_bad {env : Env} {T : Ty} (hM : env.eqM? T = none)
    (hU : (match env.under T with
      | .named _ | .fnil | .fcons _ _ | .chan _ | .func | .iface => true
      | _ => false) = true) (x y : Val) : structEqM env T x y = false := by
  rw [structEqM.eq_def]; simp only [hM]
  cases hT : env.under T <;> simp_all

/-- the function generated for a non-pointer type answers with the component semantics -/
theorem structEqTopM_not_ptr {env : Env} {T : Ty} (h : ∀ R, env.under T ≠ .ptr R) (x y : Val) :
    structEqTopM env T x y = structEqM env T x y := by
  rw [structEqTopM.eq_def]
  cases hU : env.under T with
  | ptr R => exact absurd hU (h R)
  | _ => rfl

theorem structEqTopM_ptr {env : Env} {T R : Ty} (hM : env.eqM? T = none)
    (hU : env.under T = .ptr R) (x y : Val) :
    structEqTopM env T x y =
      match x, y with
      | .nilv, .nilv => true
      | .ptr _ a, .ptr _ b =>
        (match structFields? (env.under R) with
        | some fs =>
          if R.isNamed then
            (match a, b with
             | .struct xs, .struct ys => fieldsEqM env fs xs ys
             | _, _ => false)
          else structEqM env R a b
        | none => structEqTopM env R a b)
      | _, _ => false := by
  rw [structEqTopM.eq_def]; simp only [hU]
  cases x <;> cases y <;> first | rfl | (simp only [structEqM_ptr hM hU])

structure SpecMConserv (env : Env) (x : Val) : Prop where
  val : ∀ T y, structEqM env T x y = structEq env T x y
  seq : ∀ E ys, seqEqM env E x ys = seqEq env E x ys
  flds : ∀ fs ys, fieldsEqM env fs x ys = fieldsEq env fs x ys
  ents : ∀ K V ys, entriesInM env K V x ys = entriesIn env K V x ys

theorem valueAtM_eq_valueAt {env : Env} {K V : Ty} {k v : Val}
    (hv : ∀ y, structEqM env V v y = structEq env V v y) :
    ∀ ys, valueAtM env K V k v ys = valueAt env K V k v ys := by
  intro ys
  induction ys using Val.strongInduction with
  | step ys ih =>
  rw [valueAtM.eq_def, valueAt.eq_def]
  match_both
  rw [hv, ih _ (by simp <;> omega)]

theorem specMConserv {env : Env} (hn : env.noMethods = true) (x : Val) : SpecMConserv env x := by
  induction x using Val.strongInduction with
  | step x ih =>
  have hm := Env.eqM?_none hn
  refine ⟨?_, ?_, ?_, ?_⟩
  · intro T y
    cases hU : env.under T
    case basic b => rw [structEqM_basic (hm T) hU, structEq_basic hU]
    case ptr R =>
      rw [structEqM_ptr (hm T) hU, structEq_ptr hU]
      match_both; (refine (ih _ ?_).val _ _; simp <;> omega)
    case slice E =>
      rw [structEqM_slice (hm T) hU, structEq_slice hU]
      match_both; (refine (ih _ ?_).seq _ _; simp <;> omega)
    case array n E =>
      rw [structEqM_array (hm T) hU, structEq_array hU]
      match_both; (refine (ih _ ?_).seq _ _; simp <;> omega)
    case struct fs =>
      rw [structEqM_struct (hm T) hU, structEq_struct hU]
      match_both; (refine (ih _ ?_).flds _ _; simp <;> omega)
    case map K V =>
      rw [structEqM_map (hm T) hU, structEq_map hU]
      match_both; rw [(ih _ (by simp <;> omega)).ents]
    all_goals
      rw [structEqM_bad (hm T) (by rw [hU]), structEq.eq_def, hU]
  · intro E ys
    rw [seqEqM.eq_def, seqEq.eq_def]
    match_both
    rw [(ih _ (by simp <;> omega)).val, (ih _ (by simp <;> omega)).seq]
  · intro E ys
    rw [fieldsEqM.eq_def, fieldsEq.eq_def]
    match_both
    rw [(ih _ (by simp <;> omega)).val, (ih _ (by simp <;> omega)).flds]
  · intro K V ys
    rw [entriesInM.eq_def, entriesIn.eq_def]
    match_both
    rename_i k v r
    rw [(ih r (by simp <;> omega)).ents,
      valueAtM_eq_valueAt (K := K) (k := k) ((ih v (by simp <;> omega)).val V)]

theorem structEqM_eq_structEq' {env : Env} (hn : env.noMethods = true) (T : Ty) (x y : Val) :
    structEqM env T x y = structEq env T x y := (specMConserv hn x).val T y

/-- without methods the function generated for a type answers with the component semantics -/
theorem structEqTopM_eq_structEqM_of_noMethods {env : Env} (hn : env.noMethods = true) :
    ∀ (x : Val) (T : Ty) (y : Val), structEqTopM env T x y = structEqM env T x y := by
  intro x
  induction x using Val.strongInduction with
  | step x ih =>
  intro T y
  have hm := Env.eqM?_none hn
  by_cases hP : ∃ R, env.under T = .ptr R
  · obtain ⟨R, hU⟩ := hP
    rw [structEqTopM_ptr (hm T) hU, structEqM_ptr (hm T) hU]
    match_both
    rename_i a1 a b1 b
    cases hR : env.under R <;> simp only [structFields?] <;>
      try (exact ih _ (by simp <;> omega) _ _)
    case struct fs =>
      split
      · rw [structEqM_struct (hm R) hR]
      · rfl
  · exact structEqTopM_not_ptr (fun R h => hP ⟨R, h⟩) x y

end SpecM


/-! ## Supportedness in the presence of Equal methods -/

def isPtrTy : Ty → Bool
  | .ptr _ => true
  | _ => false

namespace EqualM

/-- `T` is supported in component position. As `Equal.okComp`, with `canEqualM` for `canEqual` (map key
types need no condition: keys are matched with `==` by the emitted code and by `structEqM` alike, and
typing makes the key type of a non-nil map comparable), and one more exclusion, a place where the
emitted code does not follow the component semantics `structEqM` (counterexample in Props/C02c.lean):
a pointer whose pointee is a NAMED POINTER type: the emitted code calls the function generated for the
pointer type, which compares the fields of the struct at the end of the chain even when that struct
declares an Equal method. -/
def okComp (env : Env) : Ty → Bool
  | .basic _ => true
  | .named i => (env.decl? i).isSome
  | .ptr R => (match R with | .struct _ => false | _ => true) &&
      !(R.isNamed && isPtrTy (env.under R)) && okComp env R
  | .slice E => okComp env E
  | .array _ E => okComp env E
  | .map _ V => okComp env V
  | .struct fs => canEqualM env (.struct fs)
  | .fnil => true
  | .fcons F r => okComp env F && okComp env r
  | .chan _ => false
  | .func => false
  | .iface => false

/-- supported as the underlying type of a declaration -/
def okDecl (env : Env) : Ty → Bool
  | .struct fs => okComp env fs
  | T => okComp env T

/-- supported as the type a function is generated for: as `okDecl`, and pointers to named pointer
types are fine here (`structEqTopM` follows the generated function through them) -/
def okTop (env : Env) : Ty → Bool
  | .struct fs => okComp env fs
  | .ptr R => (match R with | .struct _ => false | _ => true) && okTop env R
  | T => okComp env T

/-- a declaration with an Equal method is a struct with at least one field (the corpus' methods look at
the first field) -/
def methodOk (d : Decl) : Bool :=
  match d.eqM with
  | some _ => (match d.under with | .struct (.fcons _ _) => true | _ => false)
  | none => true

def envOk (env : Env) : Bool := env.decls.all fun d => okDecl env d.under && methodOk d

end EqualM

/-- `deriveEqual` can be generated for `T`, in an environment whose declarations may have Equal methods -/
def SupportedM (env : Env) (T : Ty) : Bool := EqualM.okTop env T && EqualM.envOk env

/-- `T` can also occur as a component -/
def SupportedCompM (env : Env) (T : Ty) : Bool := EqualM.okComp env T && EqualM.envOk env

/-! ## Facts about `canEqualM`, `eqM?` and supportedness -/

theorem Env.eqM?_not_named {env : Env} {T : Ty} (h : T.isNamed = false) : env.eqM? T = none := by
  cases T <;> first | rfl | (simp [Ty.isNamed] at h)

theorem canEqualM_inv {env : Env} (hfM : env.flagsOkM = true) {T : Ty}
    (hc : canEqualM env T = true) : env.eqM? T = none ∧ canEqualM env (env.under T) = true := by
  cases T with
  | named i =>
    cases hd : env.decl? i with
    | none => simp [canEqualM, hd] at hc
    | some d =>
      have h1 : d.canEqM = true := by simpa [canEqualM, hd] using hc
      rw [Env.flagsOkM_decl hfM hd, Bool.and_eq_true, Option.isNone_iff_eq_none] at h1
      exact ⟨by simp [Env.eqM?, hd, h1.1], by rw [Env.under_named_some hd]; exact h1.2⟩
  | _ => exact ⟨rfl, hc⟩

theorem canEqualM_eq_under {env : Env} (hfM : env.flagsOkM = true) {T : Ty}
    (hM : env.eqM? T = none) (hU : env.under T ≠ .fnil) :
    canEqualM env T = canEqualM env (env.under T) := by
  cases T with
  | named i =>
    cases hd : env.decl? i with
    | none => exact absurd (Env.under_named_none hd) hU
    | some d =>
      have hm : d.eqM = none := by simpa [Env.eqM?, hd] using hM
      rw [Env.under_named_some hd]
      simp [canEqualM, hd, Env.flagsOkM_decl hfM hd, hm]
  | _ => rfl

namespace EqualM

theorem okComp_of_canEqualM {env : Env} : ∀ T : Ty, canEqualM env T = true → okComp env T = true := by
  intro T
  induction T with
  | named i =>
    intro h
    simp only [canEqualM] at h
    simp only [okComp]
    cases hd : env.decl? i with
    | none => simp [hd] at h
    | some d => rfl
  | array n E ih => intro h; exact ih (by simpa [canEqualM] using h)
  | fcons F r ih1 ih2 =>
    intro h
    simp only [canEqualM, Bool.and_eq_true] at h
    simp only [okComp, Bool.and_eq_true]
    exact ⟨ih1 h.1, ih2 h.2⟩
  | struct fs _ => intro h; simpa [okComp] using h
  | basic _ => intro _; rfl
  | fnil => intro _; rfl
  | _ => intro h; simp [canEqualM] at h

theorem okDecl_of_okComp {env : Env} {T : Ty} (h : okComp env T = true) : okDecl env T = true := by
  cases T with
  | struct fs =>
    simp only [okComp, canEqualM] at h
    exact okComp_of_canEqualM fs h
  | _ => exact h

theorem okTop_of_okDecl {env : Env} : ∀ T : Ty, okDecl env T = true → okTop env T = true := by
  intro T
  induction T with
  | ptr R ih =>
    intro h
    simp only [okDecl, okComp, Bool.and_eq_true] at h
    simp only [okTop, Bool.and_eq_true]
    exact ⟨h.1.1, ih (okDecl_of_okComp h.2)⟩
  | struct fs _ => intro h; exact h
  | _ => intro h; exact h

theorem okTop_of_okComp {env : Env} {T : Ty} (h : okComp env T = true) : okTop env T = true :=
  okTop_of_okDecl T (okDecl_of_okComp h)

theorem envOk_decl {env : Env} (he : envOk env = true) {i : Nat} {d : Decl}
    (hd : env.decl? i = some d) : okDecl env d.under = true ∧ methodOk d = true := by
  unfold envOk at he
  rw [List.all_eq_true] at he
  simpa using he d (Env.decl_mem hd)

theorem okDecl_under {env : Env} (he : envOk env = true) {T : Ty} (h : okDecl env T = true) :
    okDecl env (env.under T) = true := by
  cases T with
  | named i =>
    cases hd : env.decl? i with
    | none => rw [Env.under_named_none hd]; rfl
    | some d => rw [Env.under_named_some hd]; exact (envOk_decl he hd).1
  | _ => exact h

theorem okTop_under {env : Env} (he : envOk env = true) {T : Ty} (h : okTop env T = true) :
    okTop env (env.under T) = true := by
  cases T with
  | named i =>
    cases hd : env.decl? i with
    | none => rw [Env.under_named_none hd]; rfl
    | some d => rw [Env.under_named_some hd]; exact okTop_of_okDecl _ (envOk_decl he hd).1
  | _ => exact h

/-- a declaration with an Equal method is a struct with a first field -/
theorem eqM?_some_inv {env : Env} (he : envOk env = true) {T : Ty} {u : UserFn}
    (hM : env.eqM? T = some u) : ∃ F rest, env.under T = .struct (.fcons F rest) := by
  cases T with
  | named i =>
    cases hd : env.decl? i with
    | none => simp [Env.eqM?, hd] at hM
    | some d =>
      have hm : d.eqM = some u := by simpa [Env.eqM?, hd] using hM
      have := (envOk_decl he hd).2
      rw [Env.under_named_some hd]
      unfold methodOk at this
      rw [hm] at this
      cases hu : d.under with
      | struct fs =>
        cases fs with
        | fcons F rest => exact ⟨F, rest, rfl⟩
        | _ => simp [hu] at this
      | _ => simp [hu] at this
  | _ => cases hM

theorem eqM?_none_of_not_struct {env : Env} (he : envOk env = true) {T : Ty}
    (h : ∀ fs, env.under T ≠ .struct fs) : env.eqM? T = none := by
  cases hM : env.eqM? T with
  | none => rfl
  | some u =>
    obtain ⟨F, rest, hU⟩ := eqM?_some_inv he hM
    exact absurd hU (h _)

/-- the user's method does not panic on typed values, and the specification reads its answer -/
theorem userEqVal_spec {env : Env} (he : envOk env = true) {T : Ty} {u : UserFn}
    (hM : env.eqM? T = some u) {x y : Val} (hx : hasType env T x = true)
    (hy : hasType env T y = true) :
    userEqVal x y = .ok (Spec.structEqM env T x y) := by
  obtain ⟨F, rest, hU⟩ := eqM?_some_inv he hM
  obtain ⟨xs, rfl, hxs⟩ := hasType_struct_inv hU hx
  obtain ⟨ys, rfl, hys⟩ := hasType_struct_inv hU hy
  rcases fieldsHaveType_inv hxs with ⟨h, -⟩ | ⟨_, _, a, r, -, rfl, -, -⟩
  · cases h
  rcases fieldsHaveType_inv hys with ⟨h, -⟩ | ⟨_, _, b, s, -, rfl, -, -⟩
  · cases h
  rw [structEqM_method hM]
  simp only [userEqVal, firstField, beq_ok_true]

end EqualM


/-! ## Go `==` is the component semantics on `canEqualM` types -/

/-- a `canEqualM` type contains no component with an Equal method, so `==` is `structEqM` there -/
structure GoEqMOK (env : Env) (x : Val) : Prop where
  val : ∀ T y, canEqualM env T = true → hasType env T x = true →
    goEq x y = Spec.structEqM env T x y
  seq : ∀ E ys, canEqualM env E = true → allHaveType env E x = true →
    goEq x ys = Spec.seqEqM env E x ys
  flds : ∀ fs ys, canEqualM env fs = true → fieldsHaveType env fs x = true →
    goEq x ys = Spec.fieldsEqM env fs x ys

theorem goEqMOK {env : Env} (hf : env.flagsOk = true) (hfM : env.flagsOkM = true) (x : Val) :
    GoEqMOK env x := by
  induction x using Val.strongInduction with
  | step x ih =>
  refine ⟨?_, ?_, ?_⟩
  · intro T y hc hx
    obtain ⟨hM, hcU⟩ := canEqualM_inv hfM hc
    have hnn := Env.under_not_named hf T
    cases hU : env.under T with
    | basic b =>
      rw [structEqM_basic hM hU]
      exact goEq_eq_leafEq (by rwa [hasType_basic hU] at hx) y
    | array n E =>
      obtain ⟨xs, rfl, -, hxs⟩ := hasType_array_inv hU hx
      rw [structEqM_array hM hU]
      rw [hU] at hcU
      cases y with
      | arr ys => exact (ih xs (by simp <;> omega)).seq E ys hcU hxs
      | _ => rfl
    | struct fs =>
      obtain ⟨xs, rfl, hxs⟩ := hasType_struct_inv hU hx
      rw [structEqM_struct hM hU]
      rw [hU] at hcU
      cases y with
      | struct ys => exact (ih xs (by simp <;> omega)).flds fs ys hcU hxs
      | _ => rfl
    | named i => rw [hU] at hnn; simp [Ty.isNamed] at hnn
    | fnil => rw [hasType_bad (by rw [hU])] at hx; cases hx
    | fcons _ _ => rw [hasType_bad (by rw [hU])] at hx; cases hx
    | _ => rw [hU] at hcU; simp [canEqualM] at hcU
  · intro E ys hc hx
    rw [Spec.seqEqM.eq_def]
    rcases allHaveType_inv hx with rfl | ⟨a, r, rfl, ha, hr⟩
    · cases ys <;> rfl
    · cases ys with
      | scons b s =>
        simp only [goEq]
        rw [(ih a (by simp <;> omega)).val E b hc ha, (ih r (by simp <;> omega)).seq E s hc hr]
      | _ => rfl
  · intro fs ys hc hx
    rw [Spec.fieldsEqM.eq_def]
    rcases fieldsHaveType_inv hx with ⟨rfl, rfl⟩ | ⟨F, rest, a, r, rfl, rfl, ha, hr⟩
    · cases ys <;> rfl
    · cases ys with
      | scons b s =>
        simp only [canEqualM, Bool.and_eq_true] at hc
        simp only [goEq]
        rw [(ih a (by simp <;> omega)).val F b hc.1 ha, (ih r (by simp <;> omega)).flds rest s hc.2 hr]
      | _ => rfl

theorem goEq_eq_structEqM {env : Env} (hf : env.flagsOk = true) (hfM : env.flagsOkM = true) {T : Ty}
    {x : Val} (y : Val) (hc : canEqualM env T = true) (hx : hasType env T x = true) :
    goEq x y = Spec.structEqM env T x y := (goEqMOK hf hfM x).val T y hc hx

theorem goEq_eq_seqEqM {env : Env} (hf : env.flagsOk = true) (hfM : env.flagsOkM = true) {E : Ty}
    {xs : Val} (ys : Val) (hc : canEqualM env E = true) (hx : allHaveType env E xs = true) :
    goEq xs ys = Spec.seqEqM env E xs ys := (goEqMOK hf hfM xs).seq E ys hc hx

/-! ## Map lookup against `valueAtM` -/

theorem valueAtM_false_of_fresh {env : Env} (hf : env.flagsOk = true)
    {K V : Ty} {k v : Val} (hc : canEqual env K = true) (hk : hasType env K k = true) :
    ∀ s, keyFresh k s = true → Spec.valueAtM env K V k v s = false := by
  intro s
  induction s using Val.strongInduction with
  | step s ih =>
  intro hfr
  rw [Spec.valueAtM.eq_def]
  cases s with
  | scons hd tl =>
    cases hd with
    | pair k' w =>
      simp only [keyFresh, Bool.and_eq_true, Bool.not_eq_true'] at hfr
      simp only
      rw [← goEq_eq_structEq hf k' hc hk, hfr.1, ih tl (by simp <;> omega) hfr.2]
      rfl
    | _ => rfl
  | _ => rfl

theorem valueAtM_eq_lookup {env : Env} (hf : env.flagsOk = true)
    {K V : Ty} {k v : Val} (hc : canEqual env K = true)
    (hk : hasType env K k = true) :
    ∀ s, entriesHaveType env K V s = true → keysDistinct s = true →
      Spec.valueAtM env K V k v s =
        match mapLookup k s with
        | none => false
        | some w => Spec.structEqM env V v w := by
  intro s
  induction s using Val.strongInduction with
  | step s ih =>
  intro hs hd
  rcases entriesHaveType_inv hs with rfl | ⟨k', w, r, rfl, hk', -, hr⟩
  · rw [Spec.valueAtM.eq_def]; rfl
  · simp only [keysDistinct, Bool.and_eq_true] at hd
    rw [Spec.valueAtM.eq_1, ← goEq_eq_structEq hf k' hc hk]
    simp only [mapLookup]
    cases h : goEq k k' with
    | true =>
      have hfr := keyFresh_of_goEq (V := V) hf hc hk hk' h r hr hd.1
      rw [valueAtM_false_of_fresh hf hc hk r hfr]
      simp
    | false =>
      rw [ih r (by simp <;> omega) hr hd.2]
      simp

theorem seqEqM_false_of_slen_ne {env : Env} {E : Ty} :
    ∀ xs ys : Val, xs.slen ≠ ys.slen → Spec.seqEqM env E xs ys = false := by
  intro xs
  induction xs using Val.strongInduction with
  | step xs ih =>
  intro ys hne
  rw [Spec.seqEqM.eq_def]
  cases xs with
  | snil => cases ys <;> first | rfl | (simp [Val.slen] at hne)
  | scons a r =>
    cases ys with
    | scons b s =>
      simp only
      rw [ih r (by simp <;> omega) s (by simpa [Val.slen] using hne), Bool.and_false]
    | _ => rfl
  | _ => rfl

theorem isByte_canEqualM {env : Env} {E : Ty} (h : isByte E = true) : canEqualM env E = true := by
  cases E <;> first | rfl | (simp [isByte] at h)

theorem structEqM_congr {env : Env} {T T' : Ty} (hM : env.eqM? T = env.eqM? T')
    (hU : env.under T = env.under T') (x y : Val) :
    Spec.structEqM env T x y = Spec.structEqM env T' x y := by
  rw [Spec.structEqM.eq_def, Spec.structEqM.eq_def env T', hM, hU]

/-! ## Shape of `EqualM` once the method and the underlying type are known -/

namespace EqualM

theorem top_basic {env : Env} {T : Ty} {b : Basic} (hU : env.under T = .basic b) (x y : Val) :
    top env T x y = .ok (goEq x y) := by
  rw [top.eq_def]; simp only [hU]

theorem top_ptr_struct {env : Env} {T R fs : Ty} (hU : env.under T = .ptr R)
    (hR : env.under R = .struct fs) (hn : R.isNamed = true) (x y : Val) :
    top env T x y =
      match x, y with
      | .nilv, .nilv => .ok true
      | .nilv, .ptr _ _ => .ok false
      | .ptr _ _, .nilv => .ok false
      | .ptr _ (.struct xs), .ptr _ (.struct ys) => fields env fs xs ys
      | _, _ => .panic := by
  rw [top.eq_def]; simp only [hU, hR, hn, if_true]
  rfl

theorem top_ptr_other {env : Env} {T R : Ty} (hU : env.under T = .ptr R)
    (hR : ∀ fs, env.under R ≠ .struct fs) (x y : Val) :
    top env T x y =
      match x, y with
      | .nilv, .nilv => .ok true
      | .nilv, .ptr _ _ => .ok false
      | .ptr _ _, .nilv => .ok false
      | .ptr _ a, .ptr _ b => top env R a b
      | _, _ => .panic := by
  rw [top.eq_def]; simp only [hU]
  cases hG : env.under R with
  | struct fs => exact absurd hG (hR fs)
  | _ => rfl

theorem top_struct_method {env : Env} {T fs : Ty} {u : UserFn} (hU : env.under T = .struct fs)
    (hn : T.isNamed = true) (hM : env.eqM? T = some u) (x y : Val) :
    top env T x y = userEqVal x y := by
  rw [top.eq_def]; simp only [hU, hn, hM, if_true]

theorem top_struct_named {env : Env} {T fs : Ty} (hU : env.under T = .struct fs)
    (hn : T.isNamed = true) (hM : env.eqM? T = none) (x y : Val) :
    top env T x y =
      match x, y with
      | .struct xs, .struct ys => fields env fs xs ys
      | _, _ => .panic := by
  rw [top.eq_def]; simp only [hU, hn, hM, if_true]
  rfl

theorem top_struct_eq {env : Env} {T fs : Ty} (hU : env.under T = .struct fs)
    (hn : T.isNamed = false) (hc : canEqualM env (.struct fs) = true) (x y : Val) :
    top env T x y = .ok (goEq x y) := by
  rw [top.eq_def]; simp only [hU, hn, hc, if_true, Bool.false_eq_true, if_false]

theorem top_struct_fields {env : Env} {T fs : Ty} (hU : env.under T = .struct fs)
    (hn : T.isNamed = false) (hc : canEqualM env (.struct fs) = false) (x y : Val) :
    top env T x y =
      match x, y with
      | .struct xs, .struct ys => fields env fs xs ys
      | _, _ => .panic := by
  rw [top.eq_def]; simp only [hU, hn, hc, Bool.false_eq_true, if_false]
  rfl

theorem top_slice {env : Env} {T E : Ty} (hU : env.under T = .slice E) (x y : Val) :
    top env T x y =
      match x, y with
      | .nilv, .nilv => .ok true
      | .nilv, .slice _ _ _ => .ok false
      | .slice _ _ _, .nilv => .ok false
      | .slice _ _ xs, .slice _ _ ys =>
        if xs.slen != ys.slen then .ok false else elems env E xs ys
      | _, _ => .panic := by
  rw [top.eq_def]; simp only [hU]
  rfl

theorem top_array {env : Env} {T E : Ty} {n : Nat} (hU : env.under T = .array n E) (x y : Val) :
    top env T x y =
      match x, y with
      | .arr xs, .arr ys => elems env E xs ys
      | _, _ => .panic := by
  rw [top.eq_def]; simp only [hU]
  rfl

theorem top_map {env : Env} {T K V : Ty} (hU : env.under T = .map K V) (x y : Val) :
    top env T x y =
      match x, y with
      | .nilv, .nilv => .ok true
      | .nilv, .map _ _ => .ok false
      | .map _ _, .nilv => .ok false
      | .map _ xs, .map _ ys =>
        if xs.slen != ys.slen then .ok false else entries env V xs ys
      | _, _ => .panic := by
  rw [top.eq_def]; simp only [hU]
  rfl

theorem field_method {env : Env} {F : Ty} {u : UserFn} (hM : env.eqM? F = some u) (x y : Val) :
    field env F x y = userEqVal x y := by
  rw [field.eq_def]; simp only [hM]

theorem field_canEqual {env : Env} {F : Ty} (hM : env.eqM? F = none)
    (hc : canEqualM env F = true) (x y : Val) : field env F x y = .ok (goEq x y) := by
  rw [field.eq_def]; simp only [hM, hc, if_true]

theorem field_ptr_mptr {env : Env} {F R : Ty} (hM : env.eqM? F = none)
    (hc : canEqualM env F = false) (hU : env.under F = .ptr R) (hR : env.eqM? R = some .ptr)
    (x y : Val) : field env F x y = userEqPtr x y := by
  rw [field.eq_def]; simp only [hM, hc, hU, hR, Bool.false_eq_true, if_false]

theorem field_ptr_mval {env : Env} {F R : Ty} (hM : env.eqM? F = none)
    (hc : canEqualM env F = false) (hU : env.under F = .ptr R) (hR : env.eqM? R = some .val)
    (x y : Val) :
    field env F x y =
      match x, y with
      | .nilv, .nilv => .ok true
      | .nilv, .ptr _ _ => .ok false
      | .ptr _ _, .nilv => .ok false
      | .ptr _ a, .ptr _ b => userEqVal a b
      | _, _ => .panic := by
  rw [field.eq_def]; simp only [hM, hc, hU, hR, Bool.false_eq_true, if_false]
  rfl

theorem field_ptr_named {env : Env} {F R : Ty} (hM : env.eqM? F = none)
    (hc : canEqualM env F = false) (hU : env.under F = .ptr R) (hR : env.eqM? R = none)
    (hn : R.isNamed = true) (x y : Val) :
    field env F x y = top env (.ptr R) x y := by
  rw [field.eq_def]; simp only [hM, hc, hU, hR, hn, if_true, Bool.false_eq_true, if_false]

theorem field_ptr_unnamed {env : Env} {F R : Ty} (hM : env.eqM? F = none)
    (hc : canEqualM env F = false) (hU : env.under F = .ptr R) (hR : env.eqM? R = none)
    (hn : R.isNamed = false) (x y : Val) :
    field env F x y =
      match x, y with
      | .nilv, .nilv => .ok true
      | .nilv, .ptr _ _ => .ok false
      | .ptr _ _, .nilv => .ok false
      | .ptr _ a, .ptr _ b => field env R a b
      | _, _ => .panic := by
  rw [field.eq_def]; simp only [hM, hc, hU, hR, hn, Bool.false_eq_true, if_false]
  rfl

theorem field_array {env : Env} {F E : Ty} {n : Nat} (hM : env.eqM? F = none)
    (hc : canEqualM env F = false) (hU : env.under F = .array n E) (x y : Val) :
    field env F x y = top env (.array n E) x y := by
  rw [field.eq_def]; simp only [hM, hc, hU, Bool.false_eq_true, if_false]

theorem field_slice_byte {env : Env} {F E : Ty} (hM : env.eqM? F = none)
    (hc : canEqualM env F = false) (hU : env.under F = .slice E) (hb : isByte E = true)
    (x y : Val) : field env F x y = bytesEqual x y := by
  rw [field.eq_def]; simp only [hM, hc, hU, hb, if_true, Bool.false_eq_true, if_false]

theorem field_slice {env : Env} {F E : Ty} (hM : env.eqM? F = none)
    (hc : canEqualM env F = false) (hU : env.under F = .slice E) (hb : isByte E = false)
    (x y : Val) : field env F x y = top env (.slice E) x y := by
  rw [field.eq_def]; simp only [hM, hc, hU, hb, Bool.false_eq_true, if_false]

theorem field_map {env : Env} {F K V : Ty} (hM : env.eqM? F = none)
    (hc : canEqualM env F = false) (hU : env.under F = .map K V) (x y : Val) :
    field env F x y = top env (.map K V) x y := by
  rw [field.eq_def]; simp only [hM, hc, hU, Bool.false_eq_true, if_false]

theorem field_struct_named {env : Env} {F fs : Ty} (hM : env.eqM? F = none)
    (hc : canEqualM env F = false) (hU : env.under F = .struct fs) (hn : F.isNamed = true)
    (x y : Val) : field env F x y = top env F x y := by
  rw [field.eq_def]; simp only [hM, hc, hU, hn, if_true, Bool.false_eq_true, if_false]

end EqualM


/-! ## The method-aware model computes the method-aware specification -/

open Spec EqualM in
structure EqualMOK (env : Env) (x : Val) : Prop where
  top : ∀ T y, okTop env T = true → hasType env T x = true → hasType env T y = true →
    EqualM.top env T x y = .ok (structEqTopM env T x y)
  field : ∀ F y, okComp env F = true → hasType env F x = true → hasType env F y = true →
    EqualM.field env F x y = .ok (structEqM env F x y)
  fields : ∀ fs ys, okComp env fs = true → fieldsHaveType env fs x = true →
    fieldsHaveType env fs ys = true → EqualM.fields env fs x ys = .ok (fieldsEqM env fs x ys)
  elems : ∀ E ys, okComp env E = true → allHaveType env E x = true →
    allHaveType env E ys = true → x.slen = ys.slen →
    EqualM.elems env E x ys = .ok (seqEqM env E x ys)
  entries : ∀ K V ys, okComp env V = true → canEqual env K = true →
    entriesHaveType env K V x = true → entriesHaveType env K V ys = true →
    keysDistinct ys = true → EqualM.entries env V x ys = .ok (entriesInM env K V x ys)

section StepsM
open Spec EqualM
variable {env : Env} (hf : env.flagsOk = true) (hfM : env.flagsOkM = true)
  (he : envOk env = true)

theorem EqualMOK.step_fields (x : Val) (ih : ∀ z, sizeOf z < sizeOf x → EqualMOK env z) :
    ∀ fs ys, okComp env fs = true → fieldsHaveType env fs x = true →
    fieldsHaveType env fs ys = true → EqualM.fields env fs x ys = .ok (fieldsEqM env fs x ys) := by
  intro fs ys ho hx hy
  rcases fieldsHaveType_inv hx with ⟨rfl, rfl⟩ | ⟨F, rest, a, r, rfl, rfl, ha, hr⟩
  · rcases fieldsHaveType_inv hy with ⟨-, rfl⟩ | ⟨_, _, _, _, h, _⟩
    · rw [EqualM.fields, Spec.fieldsEqM]
    · cases h
  · rcases fieldsHaveType_inv hy with ⟨h, -⟩ | ⟨F', rest', b, s, h, rfl, hb, hs⟩
    · cases h
    · cases h
      simp only [okComp, Bool.and_eq_true] at ho
      rw [EqualM.fields, Spec.fieldsEqM, (ih a (by simp <;> omega)).field F b ho.1 ha hb, Res.bind_ok,
        (ih r (by simp <;> omega)).fields rest s ho.2 hr hs]
      cases structEqM env F a b <;> rfl

theorem EqualMOK.step_elems (x : Val) (ih : ∀ z, sizeOf z < sizeOf x → EqualMOK env z) :
    ∀ E ys, okComp env E = true → allHaveType env E x = true →
    allHaveType env E ys = true → x.slen = ys.slen →
    EqualM.elems env E x ys = .ok (seqEqM env E x ys) := by
  intro E ys ho hx hy hl
  rcases allHaveType_inv hx with rfl | ⟨a, r, rfl, ha, hr⟩ <;>
    rcases allHaveType_inv hy with rfl | ⟨b, s, rfl, hb, hs⟩
  · rw [EqualM.elems, Spec.seqEqM]
  · simp [Val.slen] at hl
  · simp [Val.slen] at hl
  · have hl' : r.slen = s.slen := by simpa [Val.slen] using hl
    rw [EqualM.elems, Spec.seqEqM, (ih a (by simp <;> omega)).field E b ho ha hb, Res.bind_ok,
      (ih r (by simp <;> omega)).elems E s ho hr hs hl']
    cases structEqM env E a b <;> rfl

include hf in
theorem EqualMOK.step_entries (x : Val) (ih : ∀ z, sizeOf z < sizeOf x → EqualMOK env z) :
    ∀ K V ys, okComp env V = true → canEqual env K = true →
    entriesHaveType env K V x = true → entriesHaveType env K V ys = true →
    keysDistinct ys = true → EqualM.entries env V x ys = .ok (entriesInM env K V x ys) := by
  intro K V ys hV hK hx hy hd
  rcases entriesHaveType_inv hx with rfl | ⟨k, v, r, rfl, hk, hv, hr⟩
  · rw [EqualM.entries, Spec.entriesInM]
  · rw [EqualM.entries, Spec.entriesInM, valueAtM_eq_lookup hf hK hk ys hy hd]
    cases hl : mapLookup k ys with
    | none => rfl
    | some w =>
      have hw := mapLookup_hasType ys hy hl
      simp only
      rw [(ih v (by simp <;> omega)).field V w hV hv hw, Res.bind_ok,
        (ih r (by simp <;> omega)).entries K V ys hV hK hr hy hd]
      cases structEqM env V v w <;> rfl

include hf hfM he in
theorem EqualMOK.step_top (x : Val) (ih : ∀ z, sizeOf z < sizeOf x → EqualMOK env z) :
    ∀ T y, okTop env T = true → hasType env T x = true → hasType env T y = true →
    EqualM.top env T x y = .ok (structEqTopM env T x y) := by
  intro T y hT hx hy
  have hUok := okTop_under he hT
  have hnn := Env.under_not_named hf T
  cases hU : env.under T with
  | basic b =>
    have hM := eqM?_none_of_not_struct he (T := T) (by rw [hU]; intro fs h; cases h)
    rw [top_basic hU, structEqTopM_not_ptr (by rw [hU]; intro R h; cases h),
      structEqM_basic hM hU, goEq_eq_leafEq (by rwa [hasType_basic hU] at hx)]
  | ptr R =>
    have hM := eqM?_none_of_not_struct he (T := T) (by rw [hU]; intro fs h; cases h)
    rw [hU] at hUok
    simp only [okTop, Bool.and_eq_true] at hUok
    obtain ⟨hRns, hR⟩ := hUok
    rw [structEqTopM_ptr hM hU]
    by_cases hS : ∃ fs, env.under R = .struct fs
    · obtain ⟨fs, hS⟩ := hS
      have hn : R.isNamed = true := by
        cases R <;> simp_all [Env.under, Ty.isNamed]
      have hfs : okComp env fs = true := by
        have := okTop_under he hR
        rw [hS] at this; exact this
      rw [top_ptr_struct hU hS hn]
      rcases hasType_ptr_inv hU hx with rfl | ⟨a, v, rfl, hv⟩ <;>
        rcases hasType_ptr_inv hU hy with rfl | ⟨b, w, rfl, hw⟩ <;> try rfl
      obtain ⟨xs, rfl, hxs⟩ := hasType_struct_inv hS hv
      obtain ⟨ys, rfl, hys⟩ := hasType_struct_inv hS hw
      simp only [hS, structFields?, hn, if_true]
      exact (ih xs (by simp <;> omega)).fields fs ys hfs hxs hys
    · rw [top_ptr_other hU (fun fs h => hS ⟨fs, h⟩)]
      rcases hasType_ptr_inv hU hx with rfl | ⟨a, v, rfl, hv⟩ <;>
        rcases hasType_ptr_inv hU hy with rfl | ⟨b, w, rfl, hw⟩ <;> try rfl
      have hnone : structFields? (env.under R) = none := by
        cases hG : env.under R with
        | struct fs => exact absurd ⟨fs, hG⟩ hS
        | _ => rfl
      simp only [hnone]
      exact (ih v (by simp <;> omega)).top R w hR hv hw
  | struct fs =>
    rw [hU] at hUok
    have hfs : okComp env fs = true := hUok
    rw [structEqTopM_not_ptr (by rw [hU]; intro R h; cases h)]
    by_cases hn : T.isNamed = true
    · cases hM : env.eqM? T with
      | some u => rw [top_struct_method hU hn hM, userEqVal_spec he hM hx hy]
      | none =>
        obtain ⟨xs, rfl, hxs⟩ := hasType_struct_inv hU hx
        obtain ⟨ys, rfl, hys⟩ := hasType_struct_inv hU hy
        rw [top_struct_named hU hn hM, structEqM_struct hM hU]
        exact (ih xs (by simp <;> omega)).fields fs ys hfs hxs hys
    · have hn' : T.isNamed = false := by simpa using hn
      have hM := Env.eqM?_not_named (env := env) hn'
      obtain ⟨xs, rfl, hxs⟩ := hasType_struct_inv hU hx
      obtain ⟨ys, rfl, hys⟩ := hasType_struct_inv hU hy
      cases hc : canEqualM env (.struct fs) with
      | false =>
        rw [top_struct_fields hU hn' hc, structEqM_struct hM hU]
        exact (ih xs (by simp <;> omega)).fields fs ys hfs hxs hys
      | true =>
        rw [top_struct_eq hU hn' hc]
        have hTU : env.under T = T := env.under_of_not_named hn'
        rw [hTU] at hU
        subst hU
        rw [goEq_eq_structEqM hf hfM _ hc hx]
  | slice E =>
    have hM := eqM?_none_of_not_struct he (T := T) (by rw [hU]; intro fs h; cases h)
    rw [hU] at hUok
    have hE : okComp env E = true := hUok
    rw [top_slice hU, structEqTopM_not_ptr (by rw [hU]; intro R h; cases h), structEqM_slice hM hU]
    rcases hasType_slice_inv hU hx with rfl | ⟨a, sp, xs, rfl, hxs⟩ <;>
      rcases hasType_slice_inv hU hy with rfl | ⟨b, sp', ys, rfl, hys⟩ <;> try rfl
    simp only
    by_cases hl : xs.slen = ys.slen
    · rw [if_neg (by simpa using hl)]
      exact (ih xs (by simp <;> omega)).elems E ys hE hxs hys hl
    · rw [if_pos (by simpa using hl), seqEqM_false_of_slen_ne xs ys hl]
  | array n E =>
    have hM := eqM?_none_of_not_struct he (T := T) (by rw [hU]; intro fs h; cases h)
    rw [hU] at hUok
    have hE : okComp env E = true := hUok
    rw [top_array hU, structEqTopM_not_ptr (by rw [hU]; intro R h; cases h), structEqM_array hM hU]
    obtain ⟨xs, rfl, hlx, hxs⟩ := hasType_array_inv hU hx
    obtain ⟨ys, rfl, hly, hys⟩ := hasType_array_inv hU hy
    exact (ih xs (by simp <;> omega)).elems E ys hE hxs hys (by rw [hlx, hly])
  | map K V =>
    have hM := eqM?_none_of_not_struct he (T := T) (by rw [hU]; intro fs h; cases h)
    rw [hU] at hUok
    simp only [okTop, okComp] at hUok
    rw [top_map hU, structEqTopM_not_ptr (by rw [hU]; intro R h; cases h), structEqM_map hM hU]
    rcases hasType_map_inv hU hx with rfl | ⟨a, xs, rfl, hK, hxs, -⟩ <;>
      rcases hasType_map_inv hU hy with rfl | ⟨b, ys, rfl, -, hys, hd⟩ <;> try rfl
    simp only
    by_cases hl : xs.slen = ys.slen
    · have hb : (xs.slen == ys.slen) = true := by rw [hl]; exact beq_self_eq_true _
      rw [if_neg (by simpa using hl),
        (ih xs (by simp <;> omega)).entries K V ys hUok hK hxs hys hd, hb, Bool.true_and]
    · have hb : (xs.slen == ys.slen) = false := beq_eq_false_iff_ne.mpr hl
      rw [if_pos (by simpa using hl), hb, Bool.false_and]
  | named i => rw [hU] at hnn; simp [Ty.isNamed] at hnn
  | _ => rw [hasType_bad (by rw [hU])] at hx; cases hx

include hf hfM he in
theorem EqualMOK.step_field (x : Val)
    (htop : ∀ T y, okTop env T = true → hasType env T x = true → hasType env T y = true →
      EqualM.top env T x y = .ok (structEqTopM env T x y))
    (ih : ∀ z, sizeOf z < sizeOf x → EqualMOK env z) :
    ∀ F y, okComp env F = true → hasType env F x = true → hasType env F y = true →
    EqualM.field env F x y = .ok (structEqM env F x y) := by
  intro F y hF hx hy
  cases hM : env.eqM? F with
  | some u => rw [field_method hM, userEqVal_spec he hM hx hy]
  | none =>
  cases hc : canEqualM env F with
  | true => rw [field_canEqual hM hc, goEq_eq_structEqM hf hfM y hc hx]
  | false =>
    have hUok := okDecl_under he (okDecl_of_okComp hF)
    have hnn := Env.under_not_named hf F
    cases hU : env.under F with
    | ptr R =>
      rw [hU] at hUok
      have hPok : okComp env (.ptr R) = true := hUok
      simp only [okDecl, okComp, Bool.and_eq_true, Bool.not_eq_true', Bool.and_eq_false_iff] at hUok
      obtain ⟨⟨hRns, hRnp⟩, hR⟩ := hUok
      rw [structEqM_ptr hM hU]
      cases hMR : env.eqM? R with
      | some u =>
        cases u with
        | ptr =>
          rw [field_ptr_mptr hM hc hU hMR]
          rcases hasType_ptr_inv hU hx with rfl | ⟨a, v, rfl, hv⟩ <;>
            rcases hasType_ptr_inv hU hy with rfl | ⟨b, w, rfl, hw⟩ <;> try rfl
          simp only [userEqPtr]
          exact userEqVal_spec he hMR hv hw
        | val =>
          rw [field_ptr_mval hM hc hU hMR]
          rcases hasType_ptr_inv hU hx with rfl | ⟨a, v, rfl, hv⟩ <;>
            rcases hasType_ptr_inv hU hy with rfl | ⟨b, w, rfl, hw⟩ <;> try rfl
          exact userEqVal_spec he hMR hv hw
      | none =>
        by_cases hRn : R.isNamed = true
        · have hcg : env.under F = env.under (.ptr R) := by rw [hU]; rfl
          rw [field_ptr_named hM hc hU hMR hRn,
            htop (.ptr R) y (okTop_of_okComp hPok) (by rwa [← hasType_congr hcg])
              (by rwa [← hasType_congr hcg]),
            structEqTopM_ptr (T := .ptr R) rfl rfl]
          rcases hasType_ptr_inv hU hx with rfl | ⟨a, v, rfl, hv⟩ <;>
            rcases hasType_ptr_inv hU hy with rfl | ⟨b, w, rfl, hw⟩ <;> try rfl
          simp only
          cases hG : env.under R with
          | struct fs =>
            simp only [structFields?, hRn, if_true]
            rw [structEqM_struct hMR hG]
          | ptr R' =>
            rcases hRnp with h | h
            · rw [h] at hRn; cases hRn
            · rw [hG] at h; simp [isPtrTy] at h
          | _ =>
            simp only [structFields?]
            exact congrArg _ (structEqTopM_not_ptr (by rw [hG]; intro R' h; cases h) v w)
        · have hRn' : R.isNamed = false := by simpa using hRn
          rw [field_ptr_unnamed hM hc hU hMR hRn']
          rcases hasType_ptr_inv hU hx with rfl | ⟨a, v, rfl, hv⟩ <;>
            rcases hasType_ptr_inv hU hy with rfl | ⟨b, w, rfl, hw⟩ <;> try rfl
          exact (ih v (by simp <;> omega)).field R w hR hv hw
    | array n E =>
      rw [hU] at hUok
      have hcg : env.under F = env.under (.array n E) := by rw [hU]; rfl
      rw [field_array hM hc hU, structEqM_congr (T' := .array n E) hM hcg,
        htop _ y (okTop_of_okDecl _ hUok) (by rwa [← hasType_congr hcg]) (by rwa [← hasType_congr hcg]),
        structEqTopM_not_ptr (by intro R h; cases h)]
    | slice E =>
      rw [hU] at hUok
      cases hb : isByte E with
      | true =>
        rw [field_slice_byte hM hc hU hb, structEqM_slice hM hU]
        rcases hasType_slice_inv hU hx with rfl | ⟨a, sp, xs, rfl, hxs⟩ <;>
          rcases hasType_slice_inv hU hy with rfl | ⟨b, sp', ys, rfl, hys⟩ <;> try rfl
        simp only [bytesEqual]
        rw [goEq_eq_seqEqM hf hfM ys (isByte_canEqualM hb) hxs]
      | false =>
        have hcg : env.under F = env.under (.slice E) := by rw [hU]; rfl
        rw [field_slice hM hc hU hb, structEqM_congr (T' := .slice E) hM hcg,
          htop _ y (okTop_of_okDecl _ hUok) (by rwa [← hasType_congr hcg])
            (by rwa [← hasType_congr hcg]),
          structEqTopM_not_ptr (by intro R h; cases h)]
    | map K V =>
      rw [hU] at hUok
      have hcg : env.under F = env.under (.map K V) := by rw [hU]; rfl
      rw [field_map hM hc hU, structEqM_congr (T' := .map K V) hM hcg,
        htop _ y (okTop_of_okDecl _ hUok) (by rwa [← hasType_congr hcg]) (by rwa [← hasType_congr hcg]),
        structEqTopM_not_ptr (by intro R h; cases h)]
    | struct fs =>
      by_cases hn : F.isNamed = true
      · rw [field_struct_named hM hc hU hn, htop F y (okTop_of_okComp hF) hx hy,
          structEqTopM_not_ptr (by rw [hU]; intro R h; cases h)]
      · have hn' : F.isNamed = false := by simpa using hn
        rw [env.under_of_not_named hn'] at hU
        subst hU
        simp only [okComp] at hF
        rw [hF] at hc; cases hc
    | basic b =>
      rw [canEqualM_eq_under hfM hM (by rw [hU]; intro h; cases h), hU] at hc
      simp [canEqualM] at hc
    | named i => rw [hU] at hnn; simp [Ty.isNamed] at hnn
    | _ => rw [hasType_bad (by rw [hU])] at hx; cases hx

end StepsM

open EqualM in
theorem equalMOK {env : Env} (hf : env.flagsOk = true) (hfM : env.flagsOkM = true)
    (he : envOk env = true) (x : Val) : EqualMOK env x := by
  induction x using Val.strongInduction with
  | step x ih =>
  have htop := EqualMOK.step_top hf hfM he x ih
  exact ⟨htop, EqualMOK.step_field hf hfM he x htop ih, EqualMOK.step_fields x ih,
    EqualMOK.step_elems x ih, EqualMOK.step_entries hf x ih⟩



/-! ## Evaluation lemmas for the method-aware specification (for concrete examples) -/

section EvalM
open Spec
variable (env : Env)

theorem structEqM_eval_named (i : Nat) (x y : Val) (h : (env.under (.named i)).isNamed = false) :
    structEqM env (.named i) x y =
      match env.eqM? (.named i) with
      | some _ => userEqVal x y == .ok true
      | none => structEqM env (env.under (.named i)) x y := by
  cases hM : env.eqM? (.named i) with
  | some u => exact structEqM_method hM x y
  | none =>
    exact structEqM_congr (by rw [hM, Env.eqM?_not_named h])
      (env.under_of_not_named h).symm x y
theorem structEqM_eval_basic (b : Basic) (x y : Val) : structEqM env (.basic b) x y = leafEq x y :=
  structEqM_basic rfl rfl x y
theorem structEqM_eval_ptr (R : Ty) (x y : Val) :
    structEqM env (.ptr R) x y =
      match x, y with
      | .nilv, .nilv => true
      | .ptr _ a, .ptr _ b => structEqM env R a b
      | _, _ => false := structEqM_ptr rfl rfl x y
theorem structEqM_eval_slice (E : Ty) (x y : Val) :
    structEqM env (.slice E) x y =
      match x, y with
      | .nilv, .nilv => true
      | .slice _ _ xs, .slice _ _ ys => seqEqM env E xs ys
      | _, _ => false := structEqM_slice rfl rfl x y
theorem structEqM_eval_array (n : Nat) (E : Ty) (x y : Val) :
    structEqM env (.array n E) x y =
      match x, y with
      | .arr xs, .arr ys => seqEqM env E xs ys
      | _, _ => false := structEqM_array rfl rfl x y
theorem structEqM_eval_struct (fs : Ty) (x y : Val) :
    structEqM env (.struct fs) x y =
      match x, y with
      | .struct xs, .struct ys => fieldsEqM env fs xs ys
      | _, _ => false := structEqM_struct rfl rfl x y
theorem structEqM_eval_map (K V : Ty) (x y : Val) :
    structEqM env (.map K V) x y =
      match x, y with
      | .nilv, .nilv => true
      | .map _ xs, .map _ ys => xs.slen == ys.slen && entriesInM env K V xs ys
      | _, _ => false := structEqM_map rfl rfl x y
theorem structEqTopM_eval_ptr (R : Ty) (x y : Val) :
    structEqTopM env (.ptr R) x y =
      match x, y with
      | .nilv, .nilv => true
      | .ptr _ a, .ptr _ b =>
        (match structFields? (env.under R) with
        | some fs =>
          if R.isNamed then
            (match a, b with
             | .struct xs, .struct ys => fieldsEqM env fs xs ys
             | _, _ => false)
          else structEqM env R a b
        | none => structEqTopM env R a b)
      | _, _ => false := structEqTopM_ptr rfl rfl x y
theorem structEqTopM_eval_named (i : Nat) (x y : Val)
    (h : (match env.under (.named i) with | .ptr _ => false | _ => true) = true) :
    structEqTopM env (.named i) x y = structEqM env (.named i) x y :=
  structEqTopM_not_ptr (by intro R hR; rw [hR] at h; cases h) x y

theorem structEqTopM_congr' {T T' : Ty} (hM : env.eqM? T = env.eqM? T')
    (hU : env.under T = env.under T') (x y : Val) :
    structEqTopM env T x y = structEqTopM env T' x y := by
  rw [structEqTopM.eq_def, structEqTopM.eq_def env T', hU, structEqM_congr hM hU]
theorem structEqTopM_eval_named_ptr (i : Nat) (x y : Val)
    (hM : env.eqM? (.named i) = none) (h : (env.under (.named i)).isNamed = false) :
    structEqTopM env (.named i) x y = structEqTopM env (env.under (.named i)) x y :=
  structEqTopM_congr' env (by rw [hM, Env.eqM?_not_named h]) (env.under_of_not_named h).symm x y

end EvalM

/-- `goderive_eval` extended with the method-aware specification -/
syntax "goderive_evalM" (" [" Lean.Parser.Tactic.simpLemma,* "]")? : tactic
macro_rules
  | `(tactic| goderive_evalM) => `(tactic| goderive_evalM [])
  | `(tactic| goderive_evalM [$ls,*]) => `(tactic|
      goderive_eval [structEqM_eval_named, structEqM_eval_basic, structEqM_eval_ptr,
        structEqM_eval_slice, structEqM_eval_array, structEqM_eval_struct, structEqM_eval_map,
        structEqTopM_eval_ptr, structEqTopM_eval_named, structEqTopM_eval_named_ptr,
        Spec.structFields?,
        Spec.fieldsEqM, Spec.seqEqM, Spec.entriesInM, Spec.valueAtM, Env.eqM?, userEqVal,
        firstField, beq_ok_true, canEqualM, $ls,*])

/-- evaluate the method-aware model `EqualM` on concrete data -/
syntax "equalM_eval" (" [" Lean.Parser.Tactic.simpLemma,* "]")? : tactic
macro_rules
  | `(tactic| equalM_eval) => `(tactic| equalM_eval [])
  | `(tactic| equalM_eval [$ls,*]) => `(tactic|
      simp +decide [EqualM.top.eq_def, EqualM.field.eq_def, EqualM.fields, EqualM.elems,
        EqualM.entries, Env.eqM?, canEqualM, Env.under, Env.decl?, Ty.isNamed, userEqVal, userEqPtr,
        firstField, goEq, mapLookup, isByte, bytesEqual, Val.slen, $ls,*])

/-! ## A concrete world with user methods, for the non-vacuity examples of Props/C02c.lean -/

namespace MW

/-!
```go
type UE struct { A int64; B []int64 }        // named 0
func (t *UE) Equal(o *UE) bool               // nil-safe, then t.A == o.A
type UV struct { A int64; C string }         // named 1
func (t UV) Equal(o UV) bool                 // t.A == o.A
type Holder struct { N int64; P *UE; V UE; L []UE; Q *UV; M map[string]*UE }   // named 2
type PT *UE                                  // named 3: a named pointer type
```
-/
def i64 : Ty := .basic (.int 64 true)

def env : Env := { decls := [
  { under := .struct (.fcons i64 (.fcons (.slice i64) .fnil)),
    canEq := false, canEqM := false, eqM := some .ptr, cmpM := some .ptr, hashM := some .ptr },
  { under := .struct (.fcons i64 (.fcons (.basic .string) .fnil)),
    canEq := true, canEqM := false, eqM := some .val, hashM := some .val },
  { under := .struct (.fcons i64 (.fcons (.ptr (.named 0)) (.fcons (.named 0)
      (.fcons (.slice (.named 0)) (.fcons (.ptr (.named 1))
      (.fcons (.map (.basic .string) (.ptr (.named 0))) .fnil)))))),
    canEq := false, canEqM := false },
  { under := .ptr (.named 0), canEq := false, canEqM := false } ] }

def tUE : Ty := .named 0
def tUV : Ty := .named 1
def tHolder : Ty := .named 2
def tPT : Ty := .named 3

/-- `[]int64{n}` at the given address -/
def ints (addr : Nat) (n : Int) : Val := .slice addr 0 (.scons (.int n) .snil)
def ue (a : Int) (b : Val) : Val := .struct (.scons (.int a) (.scons b .snil))
def uv (a : Int) (c : List Nat) : Val := .struct (.scons (.int a) (.scons (.str c) .snil))
def holder (n : Int) (p v l q m : Val) : Val :=
  .struct (.scons (.int n) (.scons p (.scons v (.scons l (.scons q (.scons m .snil))))))

/-- `Holder{1, &UE{1,{1}}, UE{2,{2}}, []UE{{3,nil}}, &UV{4,"a"}, {"k": &UE{5,{5}}}}` -/
def hx : Val := holder 1 (.ptr 10 (ue 1 (ints 11 1))) (ue 2 (ints 12 2))
  (.slice 13 0 (.scons (ue 3 .nilv) .snil)) (.ptr 14 (uv 4 [97]))
  (.map 15 (.scons (.pair (.str [107]) (.ptr 16 (ue 5 (ints 17 5)))) .snil))
/-- as `hx`, but every component with an Equal method differs in its SECOND field -/
def hy : Val := holder 1 (.ptr 20 (ue 1 (ints 21 9))) (ue 2 .nilv)
  (.slice 23 0 (.scons (ue 3 (ints 28 7)) .snil)) (.ptr 24 (uv 4 [98]))
  (.map 25 (.scons (.pair (.str [107]) (.ptr 26 (ue 5 .nilv))) .snil))
/-- as `hx`, but `V.A` (the field the method of `UE` looks at) differs -/
def hz : Val := holder 1 (.ptr 10 (ue 1 (ints 11 1))) (ue 8 (ints 12 2))
  (.slice 13 0 (.scons (ue 3 .nilv) .snil)) (.ptr 14 (uv 4 [97]))
  (.map 15 (.scons (.pair (.str [107]) (.ptr 16 (ue 5 (ints 17 5)))) .snil))

theorem env_flagsOk : env.flagsOk = true := by decide
theorem env_flagsOkM : env.flagsOkM = true := by decide
theorem env_hasMethods : env.noMethods = false := by decide
theorem env_supported : SupportedM env tHolder = true := by decide
theorem env_supportedComp : SupportedCompM env tHolder = true := by decide
theorem hx_typed : hasType env tHolder hx = true := by
  goderive_eval [env, tHolder, hx, holder, ue, uv, ints, i64]
theorem hy_typed : hasType env tHolder hy = true := by
  goderive_eval [env, tHolder, hy, holder, ue, uv, ints, i64]
theorem hz_typed : hasType env tHolder hz = true := by
  goderive_eval [env, tHolder, hz, holder, ue, uv, ints, i64]
/-- the methods answer "equal" … -/
theorem hx_hy_structEqM : Spec.structEqM env tHolder hx hy = true := by
  goderive_evalM [env, tHolder, hx, hy, holder, ue, uv, ints, i64]
/-- … where plain structural equality says "different" -/
theorem hx_hy_structEq : Spec.structEq env tHolder hx hy = false := by
  goderive_eval [env, tHolder, hx, hy, holder, ue, uv, ints, i64]
theorem hx_hz_structEqM : Spec.structEqM env tHolder hx hz = false := by
  goderive_evalM [env, tHolder, hx, hz, holder, ue, uv, ints, i64]

end MW


/-! ## `HashM` respects `structEqM` -/

/-- the declarations with a Hash method are those with an Equal method -/
def Env.methodsPaired (env : Env) : Bool := env.decls.all fun d => d.hashM.isSome == d.eqM.isSome

theorem Env.methodsPaired_none {env : Env} (hp : env.methodsPaired = true) (T : Ty) :
    env.hashM? T = none ↔ env.eqM? T = none := by
  cases T with
  | named i =>
    cases hd : env.decl? i with
    | none => simp [Env.hashM?, Env.eqM?, hd]
    | some d =>
      unfold Env.methodsPaired at hp
      rw [List.all_eq_true] at hp
      have := hp d (Env.decl_mem hd)
      simp only [beq_iff_eq] at this
      simp only [Env.hashM?, Env.eqM?, hd, Option.bind_some]
      cases h1 : d.hashM <;> cases h2 : d.eqM <;> simp_all
  | _ => simp [Env.hashM?, Env.eqM?]

/-- `uint64(int32(a))` of the first field, as the corpus' Hash methods compute it -/
def hashFirst : Val → Res UInt64
  | .int a => .ok (toU64 (toI32 a))
  | _ => .panic

theorem userHashVal_struct_scons (a r : Val) : userHashVal (.struct (.scons a r)) = hashFirst a := by
  cases a <;> rfl

theorem hashFirst_eq_of_goEq {a b : Val} (h : goEq a b = true) : hashFirst a = hashFirst b := by
  cases a <;> cases b <;> simp_all [goEq, hashFirst]

theorem hasType_int_inv {env : Env} {F : Ty} {n : Int} (h : hasType env F (.int n) = true) :
    ∃ b, env.under F = .basic b := by
  rw [hasType.eq_def] at h
  cases hU : env.under F <;> simp_all

theorem hashFirst_eq_of_structEqM {env : Env} {F : Ty} {a b : Val}
    (ha : hasType env F a = true) (hb : hasType env F b = true)
    (he : Spec.structEqM env F a b = true) : hashFirst a = hashFirst b := by
  cases hM : env.eqM? F with
  | some u =>
    rw [structEqM_method hM] at he
    cases a <;> cases b <;> simp_all [hashFirst, userEqVal, firstField] <;> cases he
  | none =>
    by_cases hB : ∃ b', env.under F = .basic b'
    · obtain ⟨b', hU⟩ := hB
      rw [structEqM_basic hM hU] at he
      cases a <;> cases b <;> simp_all [leafEq, hashFirst]
    · have h1 : ∀ v, hasType env F v = true → hashFirst v = .panic := by
        intro v hv
        cases v with
        | int n => exact absurd (hasType_int_inv hv) hB
        | _ => rfl
      rw [h1 a ha, h1 b hb]

/-! ### Shape of `HashM` -/

namespace HashM

theorem field_ptr_method {env : Env} {F R : Ty} {u : UserFn} (hU : env.under F = .ptr R)
    (hH : env.hashM? R = some u) (x : Val) : field env F x = userHashPtr x := by
  rw [field.eq_def]; simp only [hU, hH]

theorem field_ptr_plain {env : Env} {F R : Ty} (hU : env.under F = .ptr R)
    (hH : env.hashM? R = none) (x : Val) : field env F x = top env F x := by
  rw [field.eq_def]; simp only [hU, hH]

theorem field_not_ptr {env : Env} {F : Ty} (h : ∀ R, env.under F ≠ .ptr R) (x : Val) :
    field env F x = top env F x := by
  rw [field.eq_def]
  cases hU : env.under F with
  | ptr R => exact absurd hU (h R)
  | _ => rfl

theorem top_basic {env : Env} {T : Ty} {b : Basic} (hU : env.under T = .basic b) (x : Val) :
    top env T x = Hash.leaf x := by
  rw [top.eq_def]; simp only [hU]

theorem top_ptr_struct {env : Env} {T R fs : Ty} (hU : env.under T = .ptr R)
    (hR : env.under R = .struct fs) (hn : R.isNamed = true) (x : Val) :
    top env T x =
      match x with
      | .nilv => .ok 0
      | .ptr _ (.struct xs) => if fs = .fnil then .ok 17 else fields env (env.skipMask R) fs xs 17
      | .ptr _ _ => .panic
      | _ => .panic := by
  rw [top.eq_def]; simp only [hU, hR, hn, if_true]
  cases x with
  | ptr a v => cases v <;> rfl
  | _ => rfl

theorem top_ptr_other {env : Env} {T R : Ty} (hU : env.under T = .ptr R)
    (hR : ∀ fs, env.under R ≠ .struct fs) (x : Val) :
    top env T x =
      match x with
      | .nilv => .ok 0
      | .ptr _ a => do let c ← field env R a; .ok ((31 * 17) + c)
      | _ => .panic := by
  rw [top.eq_def]; simp only [hU]
  cases hG : env.under R with
  | struct fs => exact absurd hG (hR fs)
  | _ => cases x <;> rfl

theorem top_struct_method {env : Env} {T fs : Ty} {u : UserFn} (hU : env.under T = .struct fs)
    (hH : env.hashM? T = some u) (x : Val) : top env T x = userHashVal x := by
  rw [top.eq_def]; simp only [hU, hH]

theorem top_struct_plain {env : Env} {T fs : Ty} (hU : env.under T = .struct fs)
    (hH : env.hashM? T = none) (x : Val) :
    top env T x =
      match x with
      | .struct xs => if fs = .fnil then .ok 17 else fields env (env.skipMask T) fs xs 17
      | _ => .panic := by
  rw [top.eq_def]; simp only [hU, hH]
  cases x <;> rfl

theorem top_slice {env : Env} {T E : Ty} (hU : env.under T = .slice E) (x : Val) :
    top env T x =
      match x with
      | .nilv => .ok 0
      | .slice _ _ xs => elems env E xs 17
      | _ => .panic := by
  rw [top.eq_def]; simp only [hU]
  cases x <;> rfl

theorem top_array {env : Env} {T E : Ty} {n : Nat} (hU : env.under T = .array n E) (x : Val) :
    top env T x =
      match x with
      | .arr xs => elems env E xs 17
      | _ => .panic := by
  rw [top.eq_def]; simp only [hU]
  cases x <;> rfl

theorem top_map {env : Env} {T K V : Ty} (hU : env.under T = .map K V) (x : Val) :
    top env T x =
      match x with
      | .nilv => .ok 0
      | .map _ xs => entries env K V (sortEntries xs) 17
      | _ => .panic := by
  rw [top.eq_def]; simp only [hU]
  cases x <;> rfl

/-- two entry spines whose keys agree position-wise, and whose entries with `==` keys have keys
that hash alike and values that hash alike, hash alike -/
theorem entries_congr (env : Env) (K V : Ty) :
    ∀ (sx sy : Val) (h : UInt64), isEntries sx = true → isEntries sy = true → keysAgree sx sy →
      (∀ e ∈ sx.toList, ∀ e' ∈ sy.toList, keyEq e e' →
        field env K (ekey e) = field env K (ekey e') ∧
        field env V (evalue e) = field env V (evalue e')) →
      entries env K V sx h = entries env K V sy h := by
  intro sx
  induction sx with
  | snil =>
    intro sy h _ hy ha _
    cases sy with
    | snil => rfl
    | scons _ _ => simp [keysAgree, toList, keysAgreeL] at ha
    | _ => simp [isEntries] at hy
  | scons e r ihe ihr =>
    intro sy h hx hy ha hQ
    clear ihe
    cases e <;> simp only [isEntries, Bool.false_eq_true] at hx
    rename_i k v
    cases sy with
    | scons e' s =>
      cases e' <;> simp only [isEntries, Bool.false_eq_true] at hy
      rename_i k' w
      simp only [keysAgree, toList, keysAgreeL] at ha
      have hq := hQ (.pair k v) (by simp [toList]) (.pair k' w) (by simp [toList]) ha.1
      simp only [ekey, evalue] at hq
      rw [entries, entries]
      simp only [hq.1, hq.2]
      cases field env K k' with
      | panic => rfl
      | ok ck =>
        cases field env V w with
        | panic => rfl
        | ok cv =>
          simp only [Res.bind_ok]
          exact ihr s _ hx hy ha.2 (fun e he e' he' =>
            hQ e (by simp [toList, he]) e' (by simp [toList, he']))
    | snil => simp [keysAgree, toList, keysAgreeL] at ha
    | _ => simp [isEntries] at hy
  | _ => intro sy h hx; simp [isEntries] at hx

end HashM

/-! ### `entriesInM` / `valueAtM` as quantified statements -/

theorem entriesInM_iff {env : Env} {K V : Ty} {ys : Val} :
    ∀ xs : Val, xs.isEntrySpine = true →
      (Spec.entriesInM env K V xs ys = true ↔
        ∀ k v, .pair k v ∈ xs.toList → Spec.valueAtM env K V k v ys = true) := by
  intro xs
  induction xs with
  | snil => intro _; simp [Spec.entriesInM, Val.toList]
  | scons hd tl _ ih =>
    intro hs
    cases hd with
    | pair k v =>
      have hs' : tl.isEntrySpine = true := by simpa [Val.isEntrySpine] using hs
      rw [Spec.entriesInM, Bool.and_eq_true, ih hs']
      simp only [Val.toList, List.mem_cons]
      constructor
      · rintro ⟨h1, h2⟩ k' v' (h | h)
        · cases h; exact h1
        · exact h2 k' v' h
      · intro h
        exact ⟨h k v (Or.inl rfl), fun k' v' h' => h k' v' (Or.inr h')⟩
    | _ => simp [Val.isEntrySpine] at hs
  | _ => intro hs; simp [Val.isEntrySpine] at hs

theorem valueAtM_iff {env : Env} {K V : Ty} {k v : Val} :
    ∀ ys : Val, ys.isEntrySpine = true →
      (Spec.valueAtM env K V k v ys = true ↔
        ∃ k' w, .pair k' w ∈ ys.toList ∧ Spec.structEq env K k k' = true ∧
          Spec.structEqM env V v w = true) := by
  intro ys
  induction ys with
  | snil => intro _; rw [Spec.valueAtM.eq_def]; simp [Val.toList]
  | scons hd tl _ ih =>
    intro hs
    cases hd with
    | pair k' w =>
      have hs' : tl.isEntrySpine = true := by simpa [Val.isEntrySpine] using hs
      rw [Spec.valueAtM.eq_1, Bool.or_eq_true, Bool.and_eq_true, ih hs']
      simp only [Val.toList, List.mem_cons]
      constructor
      · rintro (⟨h1, h2⟩ | ⟨k2, w2, hm, h1, h2⟩)
        · exact ⟨k', w, Or.inl rfl, h1, h2⟩
        · exact ⟨k2, w2, Or.inr hm, h1, h2⟩
      · rintro ⟨k2, w2, hm | hm, h1, h2⟩
        · cases hm; exact Or.inl ⟨h1, h2⟩
        · exact Or.inr ⟨k2, w2, hm, h1, h2⟩
    | _ => simp [Val.isEntrySpine] at hs
  | _ => intro hs; simp [Val.isEntrySpine] at hs



/-- two typed maps with distinct keys and the same number of entries, every key of the first `==` to a
key of the second: all keys of both are NaN-free (`==` is false on NaN), so both key sets are
ordered by `cmpKey` -/
theorem keysIn_of_keysSub {env : Env} (hf : env.flagsOk = true) {K V : Ty} {xs ys : Val}
    (hc : canEqual env K = true) (hxs : entriesHaveType env K V xs = true)
    (hys : entriesHaveType env K V ys = true) (dx : keysDistinct xs = true)
    (hl : xs.slen = ys.slen) (sub : KeysSub xs.toList ys.toList) :
    KeysIn (fun k => hasType env K k = true ∧ nanFree k = true) xs ∧
    KeysIn (fun k => hasType env K k = true ∧ nanFree k = true) ys := by
  have sx := entriesHaveType_isEntrySpine xs hxs
  have sy := entriesHaveType_isEntrySpine ys hys
  have nan_of_goEq : ∀ k k', hasType env K k = true → goEq k k' = true → nanFree k = true := by
    intro k k' hk h
    rw [goEq_eq_structEq hf k' hc hk] at h
    exact nanFree_left_of_structEq h
  refine ⟨⟨Cmp.isEntries_of_entriesHaveType hxs, ?_⟩, ⟨Cmp.isEntries_of_entriesHaveType hys, ?_⟩⟩
  · intro e he
    obtain ⟨k, v, rfl⟩ := isEntrySpine_mem xs sx he
    obtain ⟨e', he', hke⟩ := sub _ he
    exact ⟨(entriesHaveType_mem xs hxs he).1,
      nan_of_goEq k (ekey e') (entriesHaveType_mem xs hxs he).1 hke⟩
  · let R : Val → Val → Prop := fun e e' => keyEq e e' ∧ hasType env K (ekey e') = true
    have hpw := keysDistinct_pairwise xs sx dx
    have hinj : xs.toList.Pairwise (fun a a' => ∀ b, R a b → R a' b → False) := by
      refine List.Pairwise.imp_of_mem ?_ hpw
      intro e1 e2 he1 he2 hne b ⟨h1, hb⟩ ⟨h2, _⟩
      obtain ⟨k1, v1, rfl⟩ := isEntrySpine_mem xs sx he1
      obtain ⟨k2, v2, rfl⟩ := isEntrySpine_mem xs sx he2
      simp only [keyEq, ekey] at h1 h2
      obtain ⟨hk1t, _⟩ := entriesHaveType_mem xs hxs he1
      obtain ⟨hk2t, _⟩ := entriesHaveType_mem xs hxs he2
      have hne' := hne k1 v1 k2 v2 rfl rfl
      have : goEq k1 k2 = true :=
        goEq_trans hf hc hk1t hb h1 (by rw [goEq_symm hf hc hb hk2t]; exact h2)
      rw [hne'] at this; cases this
    have hall : ∀ a ∈ xs.toList, ∃ b ∈ ys.toList, R a b := by
      intro a ha
      obtain ⟨e', he', hke⟩ := sub a ha
      obtain ⟨k', w, rfl⟩ := isEntrySpine_mem ys sy he'
      exact ⟨_, he', hke, (entriesHaveType_mem ys hys he').1⟩
    have hlen' : ys.toList.length ≤ xs.toList.length := by
      have := hl; simp only [Val.slen_eq_length] at this; omega
    have honto := pigeon R xs.toList ys.toList hlen' hinj hall
    intro e' he'
    obtain ⟨k', w, rfl⟩ := isEntrySpine_mem ys sy he'
    obtain ⟨a, ha, hke, hk't⟩ := honto _ he'
    obtain ⟨k, v, rfl⟩ := isEntrySpine_mem xs sx ha
    simp only [keyEq, ekey] at hke hk't ⊢
    have hkt := (entriesHaveType_mem xs hxs ha).1
    exact ⟨hk't, nan_of_goEq k' k hk't (by rw [goEq_symm hf hc hk't hkt]; exact hke)⟩

/-- Map keys are pointer-free values of a comparable type: `==`-equal keys hash alike, whether or not
the key type (or a type inside it) declares Equal / Hash methods (the user's Hash reads the first
field, and `==`-equal structs have `==`-equal first fields). -/
structure HashKeyOK (env : Env) (x : Val) : Prop where
  val : ∀ K y, canEqual env K = true → hasType env K x = true → hasType env K y = true →
    goEq x y = true → HashM.field env K x = HashM.field env K y
  flds : ∀ skip fs ys h, canEqual env fs = true → fieldsHaveType env fs x = true →
    fieldsHaveType env fs ys = true → goEq x ys = true →
    HashM.fields env skip fs x h = HashM.fields env skip fs ys h
  elems : ∀ E ys h, canEqual env E = true → allHaveType env E x = true →
    allHaveType env E ys = true → goEq x ys = true →
    HashM.elems env E x h = HashM.elems env E ys h

theorem hashKeyOK {env : Env} (hf : env.flagsOk = true) (x : Val) : HashKeyOK env x := by
  induction x using Val.strongInduction with
  | step x ih =>
  refine ⟨?_, ?_, ?_⟩
  · intro K y hc hx hy hg
    have hcU := canEqual_under hf hc
    have hnn := Env.under_not_named hf K
    cases hU : env.under K with
    | basic b =>
      have hnp : ∀ R, env.under K ≠ .ptr R := by rw [hU]; intro R h; cases h
      rw [HashM.field_not_ptr hnp, HashM.field_not_ptr hnp, HashM.top_basic hU, HashM.top_basic hU]
      rw [hasType_basic hU] at hx hy
      exact leaf_eq_of_leafEq hx hy (by rw [← goEq_eq_leafEq hx]; exact hg)
    | array n E =>
      have hnp : ∀ R, env.under K ≠ .ptr R := by rw [hU]; intro R h; cases h
      rw [HashM.field_not_ptr hnp, HashM.field_not_ptr hnp, HashM.top_array hU, HashM.top_array hU]
      obtain ⟨xs, rfl, -, hxs⟩ := hasType_array_inv hU hx
      obtain ⟨ys, rfl, -, hys⟩ := hasType_array_inv hU hy
      rw [hU] at hcU
      simp only [goEq] at hg
      exact (ih xs (by simp <;> omega)).elems E ys 17 hcU hxs hys hg
    | struct fs =>
      have hnp : ∀ R, env.under K ≠ .ptr R := by rw [hU]; intro R h; cases h
      rw [HashM.field_not_ptr hnp, HashM.field_not_ptr hnp]
      obtain ⟨xs, rfl, hxs⟩ := hasType_struct_inv hU hx
      obtain ⟨ys, rfl, hys⟩ := hasType_struct_inv hU hy
      rw [hU] at hcU
      simp only [goEq] at hg
      cases hH : env.hashM? K with
      | some u =>
        rw [HashM.top_struct_method hU hH, HashM.top_struct_method hU hH]
        rcases fieldsHaveType_inv hxs with ⟨rfl, rfl⟩ | ⟨F, rest, a, r, rfl, rfl, -, -⟩
        · rcases fieldsHaveType_inv hys with ⟨-, rfl⟩ | ⟨_, _, _, _, h', _⟩
          · rfl
          · cases h'
        · rcases fieldsHaveType_inv hys with ⟨h', -⟩ | ⟨_, _, b, s, -, rfl, -, -⟩
          · cases h'
          · simp only [goEq, Bool.and_eq_true] at hg
            rw [userHashVal_struct_scons, userHashVal_struct_scons, hashFirst_eq_of_goEq hg.1]
      | none =>
        rw [HashM.top_struct_plain hU hH, HashM.top_struct_plain hU hH]
        simp only
        rw [(ih xs (by simp <;> omega)).flds _ fs ys 17 (by simpa [canEqual] using hcU) hxs hys hg]
    | named i => rw [hU] at hnn; simp [Ty.isNamed] at hnn
    | fnil => rw [hasType_bad (by rw [hU])] at hx; cases hx
    | fcons _ _ => rw [hasType_bad (by rw [hU])] at hx; cases hx
    | _ => rw [hU] at hcU; simp [canEqual] at hcU
  · intro skip fs ys h hc hx hy hg
    rcases fieldsHaveType_inv hx with ⟨rfl, rfl⟩ | ⟨F, rest, a, r, rfl, rfl, ha, hr⟩
    · rcases fieldsHaveType_inv hy with ⟨-, rfl⟩ | ⟨_, _, _, _, h', _⟩
      · rfl
      · cases h'
    · rcases fieldsHaveType_inv hy with ⟨h', -⟩ | ⟨F', rest', b, s, h', rfl, hb, hs⟩
      · cases h'
      · cases h'
        simp only [canEqual, Bool.and_eq_true] at hc
        simp only [goEq, Bool.and_eq_true] at hg
        rw [HashM.fields, HashM.fields]
        rw [(ih a (by simp <;> omega)).val F b hc.1 ha hb hg.1]
        have IH := fun sk h' => (ih r (by simp <;> omega)).flds sk rest s h' hc.2 hr hs hg.2
        split
        · exact IH _ _
        · cases HashM.field env F b with
          | panic => rfl
          | ok c => simp only [Res.bind_ok]; exact IH _ _
  · intro E ys h hc hx hy hg
    rcases allHaveType_inv hx with rfl | ⟨a, r, rfl, ha, hr⟩
    · rcases allHaveType_inv hy with rfl | ⟨_, _, rfl, _⟩
      · rfl
      · simp [goEq] at hg
    · rcases allHaveType_inv hy with rfl | ⟨b, s, rfl, hb, hs⟩
      · simp [goEq] at hg
      · simp only [goEq, Bool.and_eq_true] at hg
        rw [HashM.elems, HashM.elems]
        rw [(ih a (by simp <;> omega)).val E b hc ha hb hg.1]
        cases HashM.field env E b with
        | panic => rfl
        | ok c =>
          simp only [Res.bind_ok]
          exact (ih r (by simp <;> omega)).elems E s _ hc hr hs hg.2

open Spec EqualM in
/-- the induction invariant of `hashM_respects_structEqM` for a value `x` in its roles: a component,
the argument of a generated function, the pointee of a top-level pointer, a field spine, an
element spine -/
structure HashMOK (env : Env) (x : Val) : Prop where
  comp : ∀ F y, okComp env F = true → hasType env F x = true → hasType env F y = true →
    structEqM env F x y = true →
    HashM.field env F x = HashM.field env F y
  top : ∀ T y, okTop env T = true → hasType env T x = true → hasType env T y = true →
    structEqTopM env T x y = true →
    HashM.top env T x = HashM.top env T y
  topcomp : ∀ F y, okTop env F = true → hasType env F x = true → hasType env F y = true →
    structEqTopM env F x y = true →
    HashM.field env F x = HashM.field env F y
  fields : ∀ skip fs ys h, okComp env fs = true → fieldsHaveType env fs x = true →
    fieldsHaveType env fs ys = true →
    fieldsEqM env fs x ys = true → HashM.fields env skip fs x h = HashM.fields env skip fs ys h
  elems : ∀ E ys h, okComp env E = true → allHaveType env E x = true →
    allHaveType env E ys = true →
    seqEqM env E x ys = true → HashM.elems env E x h = HashM.elems env E ys h

section HashSteps
open Spec EqualM
variable {env : Env} (hf : env.flagsOk = true)
  (he : envOk env = true) (hp : env.methodsPaired = true)

/-- a typed value of a type with an Equal method is a struct with a first field -/
theorem method_struct_inv {T : Ty} {u : UserFn} (he : envOk env = true)
    (hM : env.eqM? T = some u) {x : Val}
    (hx : hasType env T x = true) : ∃ a r, x = .struct (.scons a r) := by
  obtain ⟨F, rest, hU⟩ := eqM?_some_inv he hM
  obtain ⟨xs, rfl, hxs⟩ := hasType_struct_inv hU hx
  rcases fieldsHaveType_inv hxs with ⟨h, -⟩ | ⟨_, _, a, r, -, rfl, -, -⟩
  · cases h
  · exact ⟨a, r, rfl⟩

include he in
/-- at a type with an Equal and a Hash method, method-equal values have the same method hash -/
theorem userHashVal_eq_of_method {T : Ty} {u : UserFn} (hM : env.eqM? T = some u) {x y : Val}
    (hx : hasType env T x = true) (hy : hasType env T y = true)
    (hE : structEqM env T x y = true) : userHashVal x = userHashVal y := by
  obtain ⟨a, r, rfl⟩ := method_struct_inv he hM hx
  obtain ⟨b, s, rfl⟩ := method_struct_inv he hM hy
  rw [structEqM_method hM] at hE
  simp only [userEqVal, firstField, beq_ok_true] at hE
  rw [userHashVal_struct_scons, userHashVal_struct_scons, hashFirst_eq_of_goEq hE]

include hf he hp in
/-- (N) the function generated for a non-pointer type -/
theorem HashMOK.step_nonptr (x : Val) (ih : ∀ z, sizeOf z < sizeOf x → HashMOK env z) :
    ∀ T y, okTop env T = true → (∀ R, env.under T ≠ .ptr R) → hasType env T x = true →
    hasType env T y = true →
    structEqM env T x y = true → HashM.top env T x = HashM.top env T y := by
  intro T y hT hnp hx hy hE
  have hUok := okTop_under he hT
  have hnn := Env.under_not_named hf T
  cases hU : env.under T with
  | basic b =>
    have hM := eqM?_none_of_not_struct he (T := T) (by rw [hU]; intro fs h; cases h)
    rw [structEqM_basic hM hU] at hE
    rw [hasType_basic hU] at hx hy
    rw [HashM.top_basic hU, HashM.top_basic hU]
    exact leaf_eq_of_leafEq hx hy hE
  | ptr R => exact absurd hU (hnp R)
  | struct fs =>
    rw [hU] at hUok
    have hfs : okComp env fs = true := hUok
    cases hH : env.hashM? T with
    | some u =>
      cases hM : env.eqM? T with
      | none => rw [(Env.methodsPaired_none hp T).2 hM] at hH; cases hH
      | some u' =>
        rw [HashM.top_struct_method hU hH, HashM.top_struct_method hU hH]
        exact userHashVal_eq_of_method he hM hx hy hE
    | none =>
      have hM := (Env.methodsPaired_none hp T).1 hH
      obtain ⟨xs, rfl, hxs⟩ := hasType_struct_inv hU hx
      obtain ⟨ys, rfl, hys⟩ := hasType_struct_inv hU hy
      rw [structEqM_struct hM hU] at hE
      rw [HashM.top_struct_plain hU hH, HashM.top_struct_plain hU hH]
      simp only
      rw [(ih xs (by simp <;> omega)).fields _ fs ys 17 hfs hxs hys hE]
  | slice E =>
    have hM := eqM?_none_of_not_struct he (T := T) (by rw [hU]; intro fs h; cases h)
    rw [hU] at hUok
    have hE' : okComp env E = true := hUok
    rw [structEqM_slice hM hU] at hE
    rw [HashM.top_slice hU, HashM.top_slice hU]
    rcases hasType_slice_inv hU hx with rfl | ⟨a, sp, xs, rfl, hxs⟩ <;>
      rcases hasType_slice_inv hU hy with rfl | ⟨b, sp', ys, rfl, hys⟩ <;>
      simp only [Bool.false_eq_true] at hE
    · rfl
    · exact (ih xs (by simp <;> omega)).elems E ys 17 hE' hxs hys hE
  | array n E =>
    have hM := eqM?_none_of_not_struct he (T := T) (by rw [hU]; intro fs h; cases h)
    rw [hU] at hUok
    have hE' : okComp env E = true := hUok
    obtain ⟨xs, rfl, -, hxs⟩ := hasType_array_inv hU hx
    obtain ⟨ys, rfl, -, hys⟩ := hasType_array_inv hU hy
    rw [structEqM_array hM hU] at hE
    rw [HashM.top_array hU, HashM.top_array hU]
    exact (ih xs (by simp <;> omega)).elems E ys 17 hE' hxs hys hE
  | map K V =>
    have hM := eqM?_none_of_not_struct he (T := T) (by rw [hU]; intro fs h; cases h)
    rw [hU] at hUok
    simp only [okTop, okComp] at hUok
    have hV : okComp env V = true := hUok
    rw [structEqM_map hM hU] at hE
    rw [HashM.top_map hU, HashM.top_map hU]
    rcases hasType_map_inv hU hx with rfl | ⟨a, xs, rfl, hc, hxs, dx⟩ <;>
      rcases hasType_map_inv hU hy with rfl | ⟨b, ys, rfl, -, hys, dy⟩ <;>
      simp only [Bool.false_eq_true] at hE
    · rfl
    · simp only [Bool.and_eq_true, beq_iff_eq] at hE
      obtain ⟨hl, hin⟩ := hE
      simp only
      have sx := entriesHaveType_isEntrySpine xs hxs
      have sy := entriesHaveType_isEntrySpine ys hys
      have partner : ∀ k v, .pair k v ∈ xs.toList → ∃ k' w, .pair k' w ∈ ys.toList ∧
          structEq env K k k' = true ∧ structEqM env V v w = true :=
        fun k v hm => (valueAtM_iff ys sy).1 ((entriesInM_iff xs sx).1 hin k v hm)
      have sub : KeysSub xs.toList ys.toList := by
        intro e hm
        obtain ⟨k, v, rfl⟩ := isEntrySpine_mem xs sx hm
        obtain ⟨k', w, hm', hk, -⟩ := partner k v hm
        refine ⟨.pair k' w, hm', ?_⟩
        simp only [keyEq, ekey]
        rw [goEq_eq_structEq hf k' hc (entriesHaveType_mem xs hxs hm).1]; exact hk
      have kin := keysIn_of_keysSub hf hc hxs hys dx hl sub
      have hag := sortEntries_keysAgree (Cmp.keySet_typed hf hc) kin.1 kin.2 dx dy hl sub
      apply HashM.entries_congr env K V _ _ 17
        (isEntries_sortEntries (Cmp.isEntries_of_entriesHaveType hxs))
        (isEntries_sortEntries (Cmp.isEntries_of_entriesHaveType hys)) hag
      intro e hm e' hm' hke
      rw [mem_sortEntries] at hm hm'
      obtain ⟨k, v, rfl⟩ := isEntrySpine_mem xs sx hm
      obtain ⟨k', w, rfl⟩ := isEntrySpine_mem ys sy hm'
      simp only [keyEq, ekey] at hke
      simp only [ekey, evalue]
      obtain ⟨hk, hv⟩ := entriesHaveType_mem xs hxs hm
      obtain ⟨hk', hw⟩ := entriesHaveType_mem ys hys hm'
      obtain ⟨k2, w2, hm2, hk2, hv2⟩ := partner k v hm
      have hk2' := (entriesHaveType_mem ys hys hm2).1
      have g2 : goEq k k2 = true := by rw [goEq_eq_structEq hf k2 hc hk]; exact hk2
      have g3 : goEq k2 k' = true :=
        goEq_trans hf hc hk2' hk (by rw [goEq_symm hf hc hk2' hk]; exact g2) hke
      have hu := entry_unique hf hc hys dy hm2 hm' g3
      cases hu
      have sz : sizeOf (Val.pair k v) < sizeOf xs := sizeOf_lt_of_mem_toList xs hm
      have sz' : sizeOf k < sizeOf (Val.pair k v) ∧ sizeOf v < sizeOf (Val.pair k v) := by
        constructor <;> simp <;> omega
      exact ⟨(hashKeyOK hf k).val K k' hc hk hk' hke,
        (ih v (by simp <;> omega)).comp V w hV hv hw hv2⟩
  | named i => rw [hU] at hnn; simp [Ty.isNamed] at hnn
  | _ => rw [hasType_bad (by rw [hU])] at hx; cases hx

theorem HashMOK.step_fields (x : Val) (ih : ∀ z, sizeOf z < sizeOf x → HashMOK env z) :
    ∀ skip fs ys h, okComp env fs = true → fieldsHaveType env fs x = true →
    fieldsHaveType env fs ys = true →
    fieldsEqM env fs x ys = true → HashM.fields env skip fs x h = HashM.fields env skip fs ys h := by
  intro skip fs ys h ho hx hy hE
  rcases fieldsHaveType_inv hx with ⟨rfl, rfl⟩ | ⟨F, rest, a, r, rfl, rfl, ha, hr⟩
  · rcases fieldsHaveType_inv hy with ⟨-, rfl⟩ | ⟨_, _, _, _, h', _⟩
    · rfl
    · cases h'
  · rcases fieldsHaveType_inv hy with ⟨h', -⟩ | ⟨F', rest', b, s, h', rfl, hb, hs⟩
    · cases h'
    · cases h'
      rw [Spec.fieldsEqM] at hE
      simp only [Bool.and_eq_true] at hE
      simp only [okComp, Bool.and_eq_true] at ho
      rw [HashM.fields, HashM.fields]
      rw [(ih a (by simp <;> omega)).comp F b ho.1 ha hb hE.1]
      have IH := fun sk h' =>
        (ih r (by simp <;> omega)).fields sk rest s h' ho.2 hr hs hE.2
      split
      · exact IH _ _
      · cases HashM.field env F b with
        | panic => rfl
        | ok c => simp only [Res.bind_ok]; exact IH _ _

theorem HashMOK.step_elems (x : Val) (ih : ∀ z, sizeOf z < sizeOf x → HashMOK env z) :
    ∀ E ys h, okComp env E = true → allHaveType env E x = true →
    allHaveType env E ys = true →
    seqEqM env E x ys = true → HashM.elems env E x h = HashM.elems env E ys h := by
  intro E ys h ho hx hy hE
  rcases allHaveType_inv hx with rfl | ⟨a, r, rfl, ha, hr⟩
  · rcases allHaveType_inv hy with rfl | ⟨_, _, rfl, _⟩
    · rfl
    · rw [Spec.seqEqM.eq_def] at hE; simp at hE
  · rcases allHaveType_inv hy with rfl | ⟨b, s, rfl, hb, hs⟩
    · rw [Spec.seqEqM.eq_def] at hE; simp at hE
    · rw [Spec.seqEqM] at hE
      simp only [Bool.and_eq_true] at hE
      rw [HashM.elems, HashM.elems]
      rw [(ih a (by simp <;> omega)).comp E b ho ha hb hE.1]
      cases HashM.field env E b with
      | panic => rfl
      | ok c =>
        simp only [Res.bind_ok]
        exact (ih r (by simp <;> omega)).elems E s _ ho hr hs hE.2

include he hp in
/-- (A) the expression emitted for a component -/
theorem HashMOK.step_comp (x : Val)
    (hN : ∀ T y, okTop env T = true → (∀ R, env.under T ≠ .ptr R) → hasType env T x = true →
      hasType env T y = true →
      structEqM env T x y = true → HashM.top env T x = HashM.top env T y)
    (ih : ∀ z, sizeOf z < sizeOf x → HashMOK env z) :
    ∀ F y, okComp env F = true → hasType env F x = true → hasType env F y = true →
    structEqM env F x y = true →
    HashM.field env F x = HashM.field env F y := by
  intro F y hF hx hy hE
  by_cases hP : ∃ R, env.under F = .ptr R
  · obtain ⟨R, hU⟩ := hP
    have hM := eqM?_none_of_not_struct he (T := F) (by rw [hU]; intro fs h; cases h)
    have hUok := okDecl_under he (okDecl_of_okComp hF)
    rw [hU] at hUok
    simp only [okDecl, okComp, Bool.and_eq_true] at hUok
    obtain ⟨⟨hRns, -⟩, hR⟩ := hUok
    rw [structEqM_ptr hM hU] at hE
    cases hH : env.hashM? R with
    | some u =>
      rw [HashM.field_ptr_method hU hH, HashM.field_ptr_method hU hH]
      rcases hasType_ptr_inv hU hx with rfl | ⟨a, v, rfl, hv⟩ <;>
        rcases hasType_ptr_inv hU hy with rfl | ⟨b, w, rfl, hw⟩ <;>
        simp only [Bool.false_eq_true] at hE
      · rfl
      · cases hMR : env.eqM? R with
        | none => rw [(Env.methodsPaired_none hp R).2 hMR] at hH; cases hH
        | some u' =>
          simp only [userHashPtr]
          exact userHashVal_eq_of_method he hMR hv hw hE
    | none =>
      have hMR := (Env.methodsPaired_none hp R).1 hH
      rw [HashM.field_ptr_plain hU hH, HashM.field_ptr_plain hU hH]
      by_cases hS : ∃ fs, env.under R = .struct fs
      · obtain ⟨fs, hS⟩ := hS
        have hn : R.isNamed = true := by
          cases R <;> simp_all [Env.under, Ty.isNamed]
        have hfs : okComp env fs = true := by
          have := okTop_under he (okTop_of_okComp hR)
          rw [hS] at this; exact this
        rw [HashM.top_ptr_struct hU hS hn, HashM.top_ptr_struct hU hS hn]
        rcases hasType_ptr_inv hU hx with rfl | ⟨a, v, rfl, hv⟩ <;>
          rcases hasType_ptr_inv hU hy with rfl | ⟨b, w, rfl, hw⟩ <;>
          simp only [Bool.false_eq_true] at hE
        · rfl
        · obtain ⟨xs, rfl, hxs⟩ := hasType_struct_inv hS hv
          obtain ⟨ys, rfl, hys⟩ := hasType_struct_inv hS hw
          rw [structEqM_struct hMR hS] at hE
          simp only
          rw [(ih xs (by simp <;> omega)).fields _ fs ys 17 hfs hxs hys hE]
      · have hS' : ∀ fs, env.under R ≠ .struct fs := fun fs h => hS ⟨fs, h⟩
        rw [HashM.top_ptr_other hU hS', HashM.top_ptr_other hU hS']
        rcases hasType_ptr_inv hU hx with rfl | ⟨a, v, rfl, hv⟩ <;>
          rcases hasType_ptr_inv hU hy with rfl | ⟨b, w, rfl, hw⟩ <;>
          simp only [Bool.false_eq_true] at hE
        · rfl
        · simp only
          rw [(ih v (by simp <;> omega)).comp R w hR hv hw hE]
  · have hnp : ∀ R, env.under F ≠ .ptr R := fun R h => hP ⟨R, h⟩
    rw [HashM.field_not_ptr hnp, HashM.field_not_ptr hnp]
    exact hN F y (okTop_of_okComp hF) hnp hx hy hE

include he in
/-- (B) the function generated for a type -/
theorem HashMOK.step_top (x : Val)
    (hN : ∀ T y, okTop env T = true → (∀ R, env.under T ≠ .ptr R) → hasType env T x = true →
      hasType env T y = true →
      structEqM env T x y = true → HashM.top env T x = HashM.top env T y)
    (ih : ∀ z, sizeOf z < sizeOf x → HashMOK env z) :
    ∀ T y, okTop env T = true → hasType env T x = true → hasType env T y = true →
    structEqTopM env T x y = true →
    HashM.top env T x = HashM.top env T y := by
  intro T y hT hx hy hE
  by_cases hP : ∃ R, env.under T = .ptr R
  · obtain ⟨R, hU⟩ := hP
    have hM := eqM?_none_of_not_struct he (T := T) (by rw [hU]; intro fs h; cases h)
    have hUok := okTop_under he hT
    rw [hU] at hUok
    simp only [okTop, Bool.and_eq_true] at hUok
    obtain ⟨hRns, hR⟩ := hUok
    rw [structEqTopM_ptr hM hU] at hE
    by_cases hS : ∃ fs, env.under R = .struct fs
    · obtain ⟨fs, hS⟩ := hS
      have hn : R.isNamed = true := by
        cases R <;> simp_all [Env.under, Ty.isNamed]
      have hfs : okComp env fs = true := by
        have := okTop_under he hR
        rw [hS] at this; exact this
      rw [HashM.top_ptr_struct hU hS hn, HashM.top_ptr_struct hU hS hn]
      rcases hasType_ptr_inv hU hx with rfl | ⟨a, v, rfl, hv⟩ <;>
        rcases hasType_ptr_inv hU hy with rfl | ⟨b, w, rfl, hw⟩ <;>
        simp only [Bool.false_eq_true] at hE
      · rfl
      · obtain ⟨xs, rfl, hxs⟩ := hasType_struct_inv hS hv
        obtain ⟨ys, rfl, hys⟩ := hasType_struct_inv hS hw
        simp only [hS, structFields?, hn, if_true] at hE
        simp only
        rw [(ih xs (by simp <;> omega)).fields _ fs ys 17 hfs hxs hys hE]
    · have hS' : ∀ fs, env.under R ≠ .struct fs := fun fs h => hS ⟨fs, h⟩
      have hnone : structFields? (env.under R) = none := by
        cases hG : env.under R with
        | struct fs => exact absurd ⟨fs, hG⟩ hS
        | _ => rfl
      rw [HashM.top_ptr_other hU hS', HashM.top_ptr_other hU hS']
      rcases hasType_ptr_inv hU hx with rfl | ⟨a, v, rfl, hv⟩ <;>
        rcases hasType_ptr_inv hU hy with rfl | ⟨b, w, rfl, hw⟩ <;>
        simp only [Bool.false_eq_true] at hE
      · rfl
      · simp only [hnone] at hE
        simp only
        rw [(ih v (by simp <;> omega)).topcomp R w hR hv hw hE]
  · have hnp : ∀ R, env.under T ≠ .ptr R := fun R h => hP ⟨R, h⟩
    rw [structEqTopM_not_ptr hnp] at hE
    exact hN T y hT hnp hx hy hE

include he hp in
/-- (E) the expression emitted for the pointee of a top-level pointer -/
theorem HashMOK.step_topcomp (x : Val)
    (hN : ∀ T y, okTop env T = true → (∀ R, env.under T ≠ .ptr R) → hasType env T x = true →
      hasType env T y = true →
      structEqM env T x y = true → HashM.top env T x = HashM.top env T y)
    (hB : ∀ T y, okTop env T = true → hasType env T x = true → hasType env T y = true →
      structEqTopM env T x y = true →
      HashM.top env T x = HashM.top env T y) :
    ∀ F y, okTop env F = true → hasType env F x = true → hasType env F y = true →
    structEqTopM env F x y = true →
    HashM.field env F x = HashM.field env F y := by
  intro F y hF hx hy hE
  by_cases hP : ∃ R, env.under F = .ptr R
  · obtain ⟨R, hU⟩ := hP
    have hM := eqM?_none_of_not_struct he (T := F) (by rw [hU]; intro fs h; cases h)
    cases hH : env.hashM? R with
    | none =>
      rw [HashM.field_ptr_plain hU hH, HashM.field_ptr_plain hU hH]
      exact hB F y hF hx hy hE
    | some u =>
      rw [HashM.field_ptr_method hU hH, HashM.field_ptr_method hU hH]
      rw [structEqTopM_ptr hM hU] at hE
      rcases hasType_ptr_inv hU hx with rfl | ⟨a, v, rfl, hv⟩ <;>
        rcases hasType_ptr_inv hU hy with rfl | ⟨b, w, rfl, hw⟩ <;>
        simp only [Bool.false_eq_true] at hE
      · rfl
      · cases hMR : env.eqM? R with
        | none => rw [(Env.methodsPaired_none hp R).2 hMR] at hH; cases hH
        | some u' =>
          obtain ⟨F0, rest, hS⟩ := eqM?_some_inv he hMR
          have hn : R.isNamed = true := by
            cases R <;> first | rfl | cases hMR
          obtain ⟨xs, rfl, hxs⟩ := hasType_struct_inv hS hv
          obtain ⟨ys, rfl, hys⟩ := hasType_struct_inv hS hw
          simp only [hS, structFields?, hn, if_true] at hE
          rcases fieldsHaveType_inv hxs with ⟨h, -⟩ | ⟨_, _, a0, r, h, rfl, ha0, -⟩
          · cases h
          cases h
          rcases fieldsHaveType_inv hys with ⟨h, -⟩ | ⟨_, _, b0, s, h, rfl, hb0, -⟩
          · cases h
          cases h
          rw [Spec.fieldsEqM] at hE
          simp only [Bool.and_eq_true] at hE
          simp only [userHashPtr, userHashVal_struct_scons]
          exact hashFirst_eq_of_structEqM ha0 hb0 hE.1
  · have hnp : ∀ R, env.under F ≠ .ptr R := fun R h => hP ⟨R, h⟩
    rw [structEqTopM_not_ptr hnp] at hE
    rw [HashM.field_not_ptr hnp, HashM.field_not_ptr hnp]
    exact hN F y hF hnp hx hy hE

end HashSteps

open EqualM in
theorem hashMOK {env : Env} (hf : env.flagsOk = true)
    (he : envOk env = true) (hp : env.methodsPaired = true) (x : Val) : HashMOK env x := by
  induction x using Val.strongInduction with
  | step x ih =>
  have hN := HashMOK.step_nonptr hf he hp x ih
  have hB := HashMOK.step_top he x hN ih
  exact ⟨HashMOK.step_comp he hp x hN ih, hB, HashMOK.step_topcomp he hp x hN hB,
    HashMOK.step_fields x ih, HashMOK.step_elems x ih⟩


end Goderive
