/-
Helper lemmas for the method-aware models (S/Methods.lean) and specification (Spec/StructEqM.lean):

1. conservativity: on environments without user methods the M models / M specification coincide
   with the plain ones;
2. the method clause of C02: `EqualM.top = structEqTopM`, `EqualM.field = structEqM` on environments
   where declarations may carry Equal methods.
-/
import GoderiveModel.S.Methods
import GoderiveModel.Spec.StructEqM
import GoderiveModel.Lemmas.Equal

set_option linter.unusedSimpArgs false
set_option linter.unusedVariables false

namespace Goderive
open Val

/-! ## Flag consistency -/

/-- the two cached `canEqual` flags of every declaration agree (what the driver's `fixFlags`
computes when no declaration has a method) -/
def Env.flagsAgree (env : Env) : Bool := env.decls.all fun d => d.canEqM == d.canEq

/-- every declaration's cached `canEqM` flag is right: a type with an Equal method is never
compared with `==`, otherwise the flag is `canEqualM` of the underlying type -/
def Env.flagsOkM (env : Env) : Bool :=
  env.decls.all fun d => d.canEqM == (d.eqM.isNone && canEqualM env d.under)

/-- names reachable from a type through arrays and struct fields only (the positions `canEqual`
looks through) -/
def directRefs : Ty → List Nat
  | .named i => [i]
  | .array _ t => directRefs t
  | .struct fs => directRefs fs
  | .fcons t r => directRefs t ++ directRefs r
  | _ => []

/-- `rank` witnesses that no declaration contains itself through arrays and struct fields only
(Go rejects such types: "invalid recursive type"). Decidable for a concrete `rank`. -/
def Env.directWF (env : Env) (rank : Nat → Nat) : Prop :=
  ∀ i d, env.decl? i = some d → ∀ j ∈ directRefs d.under, rank j < rank i

theorem Env.flagsAgree_decl {env : Env} (h : env.flagsAgree = true) {i : Nat} {d : Decl}
    (hd : env.decl? i = some d) : d.canEqM = d.canEq := by
  unfold Env.flagsAgree at h
  rw [List.all_eq_true] at h
  simpa using h d (Env.decl_mem hd)

theorem Env.flagsOkM_decl {env : Env} (h : env.flagsOkM = true) {i : Nat} {d : Decl}
    (hd : env.decl? i = some d) : d.canEqM = (d.eqM.isNone && canEqualM env d.under) := by
  unfold Env.flagsOkM at h
  rw [List.all_eq_true] at h
  simpa using h d (Env.decl_mem hd)

theorem Env.noMethods_decl {env : Env} (h : env.noMethods = true) {i : Nat} {d : Decl}
    (hd : env.decl? i = some d) : d.eqM = none ∧ d.cmpM = none ∧ d.hashM = none := by
  unfold Env.noMethods at h
  rw [List.all_eq_true] at h
  have := h d (Env.decl_mem hd)
  simpa [Bool.and_eq_true, Option.isNone_iff_eq_none, and_assoc] using this

theorem Env.eqM?_none {env : Env} (h : env.noMethods = true) (T : Ty) : env.eqM? T = none := by
  cases T with
  | named i =>
    cases hd : env.decl? i with
    | none => simp [Env.eqM?, hd]
    | some d => simp [Env.eqM?, hd, (Env.noMethods_decl h hd).1]
  | _ => rfl

theorem Env.cmpM?_none {env : Env} (h : env.noMethods = true) (T : Ty) : env.cmpM? T = none := by
  cases T with
  | named i =>
    cases hd : env.decl? i with
    | none => simp [Env.cmpM?, hd]
    | some d => simp [Env.cmpM?, hd, (Env.noMethods_decl h hd).2.1]
  | _ => rfl

theorem Env.hashM?_none {env : Env} (h : env.noMethods = true) (T : Ty) : env.hashM? T = none := by
  cases T with
  | named i =>
    cases hd : env.decl? i with
    | none => simp [Env.hashM?, hd]
    | some d => simp [Env.hashM?, hd, (Env.noMethods_decl h hd).2.2]
  | _ => rfl

/-! ## Conservativity 1: `canEqualM = canEqual` -/

theorem canEqualM_eq_canEqual_of_flagsAgree {env : Env} (ha : env.flagsAgree = true) :
    ∀ T : Ty, canEqualM env T = canEqual env T := by
  intro T
  induction T with
  | named i =>
    cases hd : env.decl? i with
    | none => simp [canEqualM, canEqual, hd]
    | some d => simp [canEqualM, canEqual, hd, Env.flagsAgree_decl ha hd]
  | array n E ih => simpa [canEqualM, canEqual] using ih
  | struct fs ih => simpa [canEqualM, canEqual] using ih
  | fcons F r ih1 ih2 => simp [canEqualM, canEqual, ih1, ih2]
  | _ => rfl

/-- the two flags agree on every name the type refers to directly ⇒ the two predicates agree -/
theorem canEqualM_eq_canEqual_of_refs {env : Env} :
    ∀ T : Ty, (∀ j ∈ directRefs T, ∀ d, env.decl? j = some d → d.canEqM = d.canEq) →
      canEqualM env T = canEqual env T := by
  intro T
  induction T with
  | named i =>
    intro h
    cases hd : env.decl? i with
    | none => simp [canEqualM, canEqual, hd]
    | some d => simp [canEqualM, canEqual, hd, h i (by simp [directRefs]) d hd]
  | array n E ih => intro h; simpa [canEqualM, canEqual] using ih (by simpa [directRefs] using h)
  | struct fs ih => intro h; simpa [canEqualM, canEqual] using ih (by simpa [directRefs] using h)
  | fcons F r ih1 ih2 =>
    intro h
    simp only [directRefs, List.mem_append] at h
    simp [canEqualM, canEqual, ih1 (fun j hj => h j (Or.inl hj)), ih2 (fun j hj => h j (Or.inr hj))]
  | _ => intro _; rfl

/-- On a method-free environment whose declarations do not contain themselves through arrays and
struct fields only, ANY two consistent flag assignments agree. (Without the well-foundedness
hypothesis they need not: for `type T struct{ x T }` both `canEq = true` and `canEq = false` satisfy
the flag equation.) -/
theorem Env.flagsAgree_of_directWF {env : Env} (rank : Nat → Nat) (hn : env.noMethods = true)
    (hf : env.flagsOk = true) (hfM : env.flagsOkM = true) (hw : env.directWF rank) :
    env.flagsAgree = true := by
  have key : ∀ n i d, rank i < n → env.decl? i = some d → d.canEqM = d.canEq := by
    intro n
    induction n with
    | zero => intro i d h; omega
    | succ n ih =>
      intro i d hr hd
      rw [Env.flagsOkM_decl hfM hd, (Env.flagsOk_decl hf hd).1, (Env.noMethods_decl hn hd).1]
      simp only [Option.isNone_none, Bool.true_and]
      apply canEqualM_eq_canEqual_of_refs
      intro j hj d' hd'
      exact ih j d' (by have := hw i d hd j hj; omega) hd'
  unfold Env.flagsAgree
  rw [List.all_eq_true]
  intro d hm
  obtain ⟨i, hi, rfl⟩ := List.getElem_of_mem hm
  have hd : env.decl? i = some env.decls[i] := by
    unfold Env.decl?; exact List.getElem?_eq_getElem hi
  simpa using key (rank i + 1) i _ (Nat.lt_succ_self _) hd

theorem canEqualM_eq_canEqual {env : Env} (rank : Nat → Nat) (hn : env.noMethods = true)
    (hf : env.flagsOk = true) (hfM : env.flagsOkM = true) (hw : env.directWF rank) (T : Ty) :
    canEqualM env T = canEqual env T :=
  canEqualM_eq_canEqual_of_flagsAgree (Env.flagsAgree_of_directWF rank hn hf hfM hw) T

/-! ## Conservativity 2: `EqualM = Equal` -/

/-- close a goal `match … = match …` whose two sides are the same case analysis on variables: split the
left side, reduce the right side; in the catch-all case split the right side too (the extra cases
contradict the catch-all's side conditions) -/
syntax "match_both" : tactic
macro_rules
  | `(tactic| match_both) =>
    `(tactic| (split <;> (try simp only []) <;> first | rfl | (split <;> first | rfl | (exfalso; simp_all; done)) | skip))

structure EqMConserv (env : Env) (x : Val) : Prop where
  top : ∀ T y, EqualM.top env T x y = Equal.top env T x y
  field : ∀ F y, EqualM.field env F x y = Equal.field env F x y
  fields : ∀ fs ys, EqualM.fields env fs x ys = Equal.fields env fs x ys
  elems : ∀ E ys, EqualM.elems env E x ys = Equal.elems env E x ys
  entries : ∀ V ys, EqualM.entries env V x ys = Equal.entries env V x ys

theorem eqMConserv {env : Env} (hn : env.noMethods = true) (ha : env.flagsAgree = true) (x : Val) :
    EqMConserv env x := by
  induction x using Val.strongInduction with
  | step x ih =>
  have hc := canEqualM_eq_canEqual_of_flagsAgree ha
  have hm := Env.eqM?_none hn
  have htop : ∀ T y, EqualM.top env T x y = Equal.top env T x y := by
    intro T y
    rw [EqualM.top.eq_def, Equal.top.eq_def]
    simp only [hm, hc]
    cases hU : env.under T <;> simp only []
    case ptr R =>
      cases hR : env.under R <;> simp only []
      case struct fs =>
        split
        · match_both
          (refine (ih _ ?_).fields _ _; simp <;> omega)
        · rfl
      all_goals match_both
      all_goals first
        | (refine (ih _ ?_).top _ _; simp <;> omega)
        | (refine (ih _ ?_).fields _ _; simp <;> omega)
    case struct fs =>
      split
      · match_both
        (refine (ih _ ?_).fields _ _; simp <;> omega)
      · split
        · rfl
        · match_both
          (refine (ih _ ?_).fields _ _; simp <;> omega)
    case slice E =>
      match_both
      split <;> (try rfl)
      (refine (ih _ ?_).elems _ _; simp <;> omega)
    case array n E =>
      match_both
      (refine (ih _ ?_).elems _ _; simp <;> omega)
    case map K V =>
      match_both
      split <;> (try rfl)
      (refine (ih _ ?_).entries _ _; simp <;> omega)
  refine ⟨htop, ?_, ?_, ?_, ?_⟩
  · intro F y
    rw [EqualM.field.eq_def, Equal.field.eq_def]
    simp only [hm, hc]
    split
    · rfl
    · cases hU : env.under F <;> simp only [htop]
      · split
        · rfl
        · match_both
          (refine (ih _ ?_).field _ _; simp <;> omega)
  · intro fs ys
    rw [EqualM.fields.eq_def, Equal.fields.eq_def]
    match_both
    rw [(ih _ (by simp <;> omega)).field, (ih _ (by simp <;> omega)).fields]
  · intro fs ys
    rw [EqualM.elems.eq_def, Equal.elems.eq_def]
    match_both
    rw [(ih _ (by simp <;> omega)).field, (ih _ (by simp <;> omega)).elems]
  · intro fs ys
    rw [EqualM.entries.eq_def, Equal.entries.eq_def]
    match_both
    rename_i k v xs'
    cases mapLookup k ys <;> simp only []
    rw [(ih v (by simp <;> omega)).field, (ih xs' (by simp <;> omega)).entries]

end Goderive
