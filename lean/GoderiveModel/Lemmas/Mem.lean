/-
Helper lemmas for C18 (Mem): the association-list maps, the bucket scan, the two generic
"run" inductions (answers under a state invariant; the call log under a state/log invariant), and
the per-step facts of the emitted shapes.
-/
import GoderiveModel.S.Mem
import GoderiveModel.Spec.Mem

namespace Goderive.Mem
open Goderive Val

/-! ### stored results -/

theorem unpack_pack (n : Nat) (rs : Results) (h : rs.length = n) : unpack n (pack n rs) = rs := by
  match n, rs, h with
  | 0, [], _ => rfl
  | 1, [r], _ => rfl
  | n + 2, rs, _ => simp [pack, unpack]

/-! ### Go maps -/

theorem mapGet_some {m : List (Val × Val)} {k v : Val} (h : mapGet m k = some v) :
    ∃ k', (k', v) ∈ m ∧ goEq k k' = true := by
  induction m with
  | nil => simp [mapGet] at h
  | cons e r ih =>
    obtain ⟨k', v'⟩ := e
    simp only [mapGet] at h
    split at h
    · rename_i hk
      cases h
      exact ⟨k', List.mem_cons_self, hk⟩
    · obtain ⟨k'', hm, hk⟩ := ih h
      exact ⟨k'', List.mem_cons_of_mem _ hm, hk⟩

theorem mapGet_none {m : List (Val × Val)} {k : Val} (h : mapGet m k = none) :
    ∀ e ∈ m, goEq k e.1 = false := by
  induction m with
  | nil => intro e he; cases he
  | cons e r ih =>
    obtain ⟨k', v'⟩ := e
    simp only [mapGet] at h
    split at h
    · cases h
    · rename_i hk
      intro e he
      rcases List.mem_cons.mp he with rfl | he
      · simpa using hk
      · exact ih h e he

theorem mapSet_of_none {m : List (Val × Val)} {k : Val} (v : Val) (h : mapGet m k = none) :
    mapSet m k v = m ++ [(k, v)] := by
  induction m with
  | nil => rfl
  | cons e r ih =>
    obtain ⟨k', v'⟩ := e
    simp only [mapGet] at h
    split at h
    · cases h
    · rename_i hk
      simp [mapSet, hk, ih h]

/-! ### the bucket table -/

theorem tblGet_mem {t : List (UInt64 × List (Val × Val))} {h : UInt64} {b : List (Val × Val)}
    (hg : tblGet t h = some b) : (h, b) ∈ t := by
  induction t with
  | nil => simp [tblGet] at hg
  | cons e r ih =>
    obtain ⟨h', b'⟩ := e
    simp only [tblGet] at hg
    split at hg
    · rename_i hh
      cases hg
      subst hh
      exact List.mem_cons_self
    · exact List.mem_cons_of_mem _ (ih hg)

theorem mem_tblSet {t : List (UInt64 × List (Val × Val))} {h : UInt64} {b : List (Val × Val)}
    {e : UInt64 × List (Val × Val)} (he : e ∈ tblSet t h b) : e = (h, b) ∨ e ∈ t := by
  induction t with
  | nil => simp [tblSet] at he; exact Or.inl he
  | cons e' r ih =>
    obtain ⟨h', b'⟩ := e'
    simp only [tblSet] at he
    split at he
    · rename_i hh
      rcases List.mem_cons.mp he with rfl | he
      · exact Or.inl (by rw [hh])
      · exact Or.inr (List.mem_cons_of_mem _ he)
    · rcases List.mem_cons.mp he with rfl | he
      · exact Or.inr List.mem_cons_self
      · rcases ih he with h1 | h1
        · exact Or.inl h1
        · exact Or.inr (List.mem_cons_of_mem _ h1)

theorem tblGet_tblSet (t : List (UInt64 × List (Val × Val))) (h : UInt64) (b : List (Val × Val))
    (h' : UInt64) : tblGet (tblSet t h b) h' = if h' = h then some b else tblGet t h' := by
  induction t with
  | nil => simp [tblSet, tblGet]
  | cons e r ih =>
    obtain ⟨h0, b0⟩ := e
    simp only [tblSet]
    by_cases hh : h = h0
    · subst hh
      simp only [if_true, tblGet]
      by_cases h2 : h' = h
      · simp [h2]
      · simp [h2]
    · simp only [hh, if_false, tblGet, ih]
      by_cases h2 : h' = h0
      · subst h2
        have : ¬ h' = h := fun e => hh e.symm
        simp [this]
      · simp [h2]

theorem scan_some {eq : Val → Val → Bool} {k o : Val} {b : List (Val × Val)}
    (h : scan eq k b = some o) : ∃ i, (i, o) ∈ b ∧ eq i k = true := by
  induction b with
  | nil => simp [scan] at h
  | cons e r ih =>
    obtain ⟨i, o'⟩ := e
    simp only [scan] at h
    split at h
    · rename_i hi
      cases h
      exact ⟨i, List.mem_cons_self, hi⟩
    · obtain ⟨i', hm, hi⟩ := ih h
      exact ⟨i', List.mem_cons_of_mem _ hm, hi⟩

theorem scan_none {eq : Val → Val → Bool} {k : Val} {b : List (Val × Val)}
    (h : scan eq k b = none) : ∀ e ∈ b, eq e.1 k = false := by
  induction b with
  | nil => intro e he; cases he
  | cons e r ih =>
    obtain ⟨i, o'⟩ := e
    simp only [scan] at h
    split at h
    · cases h
    · rename_i hi
      intro e he
      rcases List.mem_cons.mp he with rfl | he
      · simpa using hi
      · exact ih h e he

/-! ### generic inductions over a call sequence -/

theorem runFrom_cons (c : Cfg) (f : Fn) (s : State) (a : Args) (rest : List Args) :
    runFrom c f s (a :: rest) =
      (a, (step c f s a).2.1, (step c f s a).2.2) :: runFrom c f (step c f s a).1 rest := rfl

theorem answersFrom_cons (c : Cfg) (f : Fn) (s : State) (a : Args) (rest : List Args) :
    answersFrom c f s (a :: rest) = (step c f s a).2.1 :: answersFrom c f (step c f s a).1 rest := rfl

theorem logFrom_cons (c : Cfg) (f : Fn) (s : State) (a : Args) (rest : List Args) :
    logFrom c f s (a :: rest) =
      if (step c f s a).2.2 = true then a :: logFrom c f (step c f s a).1 rest
      else logFrom c f (step c f s a).1 rest := by
  simp only [logFrom, runFrom_cons, List.filter_cons]
  split <;> simp

/-- answers under an invariant of the state that every step re-establishes -/
theorem answersFrom_of_inv (c : Cfg) (f : Fn) (P : Args → Prop) (Inv : State → Prop)
    (hstep : ∀ s a, Inv s → P a → (step c f s a).2.1 = f a ∧ Inv (step c f s a).1) :
    ∀ (calls : List Args) (s : State), Inv s → (∀ a ∈ calls, P a) →
      answersFrom c f s calls = calls.map f := by
  intro calls
  induction calls with
  | nil => intro s _ _; rfl
  | cons a rest ih =>
    intro s hs hP
    obtain ⟨h1, h2⟩ := hstep s a hs (hP a List.mem_cons_self)
    rw [answersFrom_cons, h1, ih _ h2 (fun x hx => hP x (List.mem_cons_of_mem _ hx))]
    rfl

/-- the call log under an invariant `J state log-so-far`: if a step that invokes `f` on `a` implies
`R a0 a` for every earlier logged `a0`, the whole log is pairwise `R` -/
theorem logFrom_pairwise (c : Cfg) (f : Fn) (R : Args → Args → Prop) (P : Args → Prop)
    (J : State → List Args → Prop)
    (h1 : ∀ s L a, J s L → P a → (step c f s a).2.2 = true → ∀ a0 ∈ L, R a0 a)
    (h2 : ∀ s L a, J s L → P a →
      J (step c f s a).1 (if (step c f s a).2.2 = true then L ++ [a] else L)) :
    ∀ (calls : List Args) (s : State) (L : List Args), J s L → (∀ a ∈ calls, P a) →
      L.Pairwise R → (L ++ logFrom c f s calls).Pairwise R := by
  intro calls
  induction calls with
  | nil => intro s L _ _ hL; simpa [logFrom, runFrom] using hL
  | cons a rest ih =>
    intro s L hJ hP hL
    have hPa := hP a List.mem_cons_self
    have hrest : ∀ x ∈ rest, P x := fun x hx => hP x (List.mem_cons_of_mem _ hx)
    have hJ' := h2 s L a hJ hPa
    rw [logFrom_cons]
    by_cases hc : (step c f s a).2.2 = true
    · simp only [hc, if_true] at hJ' ⊢
      have hL' : (L ++ [a]).Pairwise R := by
        rw [List.pairwise_append]
        refine ⟨hL, List.pairwise_singleton _ _, ?_⟩
        intro a0 ha0 x hx
        rw [List.mem_singleton] at hx
        subst hx
        exact h1 s L x hJ hPa hc a0 ha0
      have := ih _ _ hJ' hrest hL'
      simpa [List.append_assoc] using this
    · simp only [hc] at hJ' ⊢
      exact ih _ _ hJ' hrest hL

theorem logFrom_sublist (c : Cfg) (f : Fn) :
    ∀ (calls : List Args) (s : State), (logFrom c f s calls).Sublist calls := by
  intro calls
  induction calls with
  | nil => intro s; exact List.Sublist.refl _
  | cons a rest ih =>
    intro s
    rw [logFrom_cons]
    split
    · exact (ih _).cons_cons a
    · exact (ih _).cons a

/-! ### the emitted shapes -/

/-- the captured state has the form the shape declares -/
def Kind : Shape → State → Prop
  | .flag, .flag _ _ => True
  | .single, .map _ => True
  | .input, .map _ => True
  | .bucket, .bucket _ => True
  | _, _ => False

theorem kind_init (c : Cfg) : Kind c.shape (init c) := by
  unfold init
  cases c.shape <;> exact True.intro

theorem kind_step (c : Cfg) (f : Fn) (s : State) (a : Args) (h : Kind c.shape s) :
    Kind c.shape (step c f s a).1 := by
  cases s with
  | flag memo res =>
    unfold step
    cases hs : c.shape <;> rw [hs] at h <;> first | exact h.elim | skip
    cases memo <;> exact True.intro
  | map m =>
    unfold step
    cases hs : c.shape <;> rw [hs] at h <;> first | exact h.elim | skip
    all_goals (dsimp only; split <;> exact True.intro)
  | bucket t =>
    unfold step
    cases hs : c.shape <;> rw [hs] at h <;> first | exact h.elim | skip
    dsimp only
    split <;> exact True.intro

/-- refinement invariant: every table entry is `(key of a, stored f a)` for an argument tuple `a` of
the universe `U` -/
def Inv (c : Cfg) (f : Fn) (U : List Args) : State → Prop
  | .flag memo res => memo = true → ∃ a0 ∈ U, res = f a0
  | .map m => ∀ e ∈ m, ∃ a0 ∈ U, e.1 = keyOf a0 ∧ e.2 = pack c.nres (f a0)
  | .bucket t => ∀ hb ∈ t, ∀ e ∈ hb.2, ∃ a0 ∈ U, e.1 = keyOf a0 ∧ e.2 = pack c.nres (f a0)

theorem step_refines (c : Cfg) (f : Fn) (U : List Args)
    (hlen : ∀ a ∈ U, (f a).length = c.nres)
    (hresp : ∀ a0 ∈ U, ∀ a ∈ U, hit c a0 a = true → f a0 = f a)
    (s : State) (a : Args) (hs : Kind c.shape s ∧ Inv c f U s) (ha : a ∈ U) :
    (step c f s a).2.1 = f a ∧ (Kind c.shape (step c f s a).1 ∧ Inv c f U (step c f s a).1) := by
  obtain ⟨hk, hi⟩ := hs
  refine ⟨?_, kind_step c f s a hk, ?_⟩
  · -- the answer
    cases s with
    | flag memo res =>
      have hsh : c.shape = .flag := by
        cases hs : c.shape <;> rw [hs] at hk <;> first | rfl | exact hk.elim
      cases memo with
      | false => simp [step]
      | true =>
        obtain ⟨a0, ha0, hr⟩ := hi rfl
        have := hresp a0 ha0 a ha (by simp [hit, hsh])
        simp [step, hr, this]
    | map m =>
      have hsh : c.shape = .single ∨ c.shape = .input := by
        cases hs : c.shape <;> rw [hs] at hk <;> first | exact Or.inl rfl | exact Or.inr rfl | exact hk.elim
      simp only [step]
      split
      · rename_i v hg
        obtain ⟨k', hm, hkk⟩ := mapGet_some hg
        obtain ⟨a0, ha0, h1, h2⟩ := hi _ hm
        simp only at h1 h2
        have hh : hit c a0 a = true := by
          rcases hsh with hsh | hsh <;> simp [hit, hsh, ← h1, hkk]
        rw [h2, unpack_pack _ _ (hlen a0 ha0), hresp a0 ha0 a ha hh]
      · rfl
    | bucket t =>
      have hsh : c.shape = .bucket := by
        cases hs : c.shape <;> rw [hs] at hk <;> first | rfl | exact hk.elim
      simp only [step]
      split
      · rename_i o hg
        obtain ⟨i, hm, hik⟩ := scan_some hg
        have hb : ∃ b, tblGet t (c.hash (keyOf a)) = some b ∧ (i, o) ∈ b := by
          cases hgt : tblGet t (c.hash (keyOf a)) with
          | none => rw [hgt] at hm; simp at hm
          | some b => rw [hgt] at hm; exact ⟨b, rfl, by simpa using hm⟩
        obtain ⟨b, hgt, hmb⟩ := hb
        obtain ⟨a0, ha0, h1, h2⟩ := hi _ (tblGet_mem hgt) _ hmb
        simp only at h1 h2
        have hh : hit c a0 a = true := by simp [hit, hsh, ← h1, hik]
        rw [h2, unpack_pack _ _ (hlen a0 ha0), hresp a0 ha0 a ha hh]
      · rfl
  · -- the invariant
    cases s with
    | flag memo res =>
      cases memo with
      | false => simp only [step]; intro _; exact ⟨a, ha, rfl⟩
      | true => simpa [step] using hi
    | map m =>
      simp only [step]
      split
      · exact hi
      · rename_i hg
        rw [mapSet_of_none _ hg]
        intro e he
        rcases List.mem_append.mp he with he | he
        · exact hi e he
        · rw [List.mem_singleton] at he
          subst he
          exact ⟨a, ha, rfl, rfl⟩
    | bucket t =>
      simp only [step]
      split
      · exact hi
      · intro hb hhb e he
        rcases mem_tblSet hhb with rfl | hhb
        · rcases List.mem_append.mp he with he | he
          · cases hgt : tblGet t (c.hash (keyOf a)) with
            | none => rw [hgt] at he; simp at he
            | some b =>
              rw [hgt] at he
              exact hi _ (tblGet_mem hgt) e (by simpa using he)
          · rw [List.mem_singleton] at he
            subst he
            exact ⟨a, ha, rfl, rfl⟩
        · exact hi hb hhb e he

/-- log invariant: every argument tuple `f` was invoked on has its entry where a later call looks -/
def J (c : Cfg) (U : List Args) : State → List Args → Prop
  | .flag memo _, L => L ≠ [] → memo = true
  | .map m, L => ∀ a0 ∈ L, ∃ v, (keyOf a0, v) ∈ m
  | .bucket t, L => ∀ a0 ∈ L, a0 ∈ U ∧
      ∃ b, tblGet t (c.hash (keyOf a0)) = some b ∧ ∃ v, (keyOf a0, v) ∈ b

theorem step_called_not_hit (c : Cfg) (f : Fn) (U : List Args)
    (hhash : c.shape = .bucket → ∀ a0 ∈ U, ∀ a ∈ U,
      c.eq (keyOf a0) (keyOf a) = true → c.hash (keyOf a0) = c.hash (keyOf a))
    (s : State) (L : List Args) (a : Args) (hs : Kind c.shape s ∧ J c U s L) (ha : a ∈ U)
    (hc : (step c f s a).2.2 = true) : ∀ a0 ∈ L, hit c a0 a = false := by
  obtain ⟨hk, hj⟩ := hs
  intro a0 ha0
  cases s with
  | flag memo res =>
    cases memo with
    | true => simp [step] at hc
    | false =>
      have := hj (List.ne_nil_of_mem ha0)
      cases this
  | map m =>
    have hsh : c.shape = .single ∨ c.shape = .input := by
      cases hs : c.shape <;> rw [hs] at hk <;> first | exact Or.inl rfl | exact Or.inr rfl | exact hk.elim
    simp only [step] at hc
    split at hc
    · cases hc
    · rename_i hg
      obtain ⟨v, hv⟩ := hj a0 ha0
      have := mapGet_none hg _ hv
      rcases hsh with hsh | hsh <;> simpa [hit, hsh] using this
  | bucket t =>
    have hsh : c.shape = .bucket := by
      cases hs : c.shape <;> rw [hs] at hk <;> first | rfl | exact hk.elim
    simp only [step] at hc
    split at hc
    · cases hc
    · rename_i hg
      obtain ⟨ha0U, b, hgt, v, hv⟩ := hj a0 ha0
      cases he : c.eq (keyOf a0) (keyOf a) with
      | false => simp [hit, hsh, he]
      | true =>
        have hh := hhash hsh a0 ha0U a ha he
        rw [← hh, hgt] at hg
        have := scan_none hg _ (by simpa using hv)
        simp only at this
        rw [he] at this
        cases this

theorem step_log_inv (c : Cfg) (f : Fn) (U : List Args)
    (s : State) (L : List Args) (a : Args) (hs : Kind c.shape s ∧ J c U s L) (ha : a ∈ U) :
    Kind c.shape (step c f s a).1 ∧
      J c U (step c f s a).1 (if (step c f s a).2.2 = true then L ++ [a] else L) := by
  obtain ⟨hk, hj⟩ := hs
  refine ⟨kind_step c f s a hk, ?_⟩
  cases s with
  | flag memo res =>
    cases memo with
    | true => simpa [step] using hj
    | false => simp [step, J]
  | map m =>
    cases hg : mapGet m (keyOf a) with
    | some v =>
      have hst : step c f (.map m) a = (.map m, unpack c.nres v, false) := by simp [step, hg]
      rw [hst]
      simpa using hj
    | none =>
      have hst : step c f (.map m) a =
          (.map (mapSet m (keyOf a) (pack c.nres (f a))), f a, true) := by simp [step, hg]
      rw [hst]
      simp only [if_true, J]
      rw [mapSet_of_none _ hg]
      intro a0 ha0
      rcases List.mem_append.mp ha0 with ha0 | ha0
      · obtain ⟨v, hv⟩ := hj a0 ha0
        exact ⟨v, List.mem_append_left _ hv⟩
      · rw [List.mem_singleton] at ha0
        subst ha0
        exact ⟨_, List.mem_append_right _ List.mem_cons_self⟩
  | bucket t =>
    cases hg : scan c.eq (keyOf a) ((tblGet t (c.hash (keyOf a))).getD []) with
    | some o =>
      have hst : step c f (.bucket t) a = (.bucket t, unpack c.nres o, false) := by simp [step, hg]
      rw [hst]
      simpa using hj
    | none =>
      have hst : step c f (.bucket t) a =
          (.bucket (tblSet t (c.hash (keyOf a))
            ((tblGet t (c.hash (keyOf a))).getD [] ++ [(keyOf a, pack c.nres (f a))])), f a, true) := by
        simp [step, hg]
      rw [hst]
      simp only [if_true, J]
      intro a0 ha0
      rw [tblGet_tblSet]
      rcases List.mem_append.mp ha0 with ha0 | ha0
      · obtain ⟨ha0U, b, hgt, v, hv⟩ := hj a0 ha0
        refine ⟨ha0U, ?_⟩
        by_cases hh : c.hash (keyOf a0) = c.hash (keyOf a)
        · rw [if_pos hh]
          rw [hh] at hgt
          refine ⟨_, rfl, v, ?_⟩
          rw [hgt]
          exact List.mem_append_left _ (by simpa using hv)
        · rw [if_neg hh]
          exact ⟨b, hgt, v, hv⟩
      · rw [List.mem_singleton] at ha0
        subst ha0
        refine ⟨ha, ?_⟩
        rw [if_pos rfl]
        exact ⟨_, rfl, _, List.mem_append_right _ List.mem_cons_self⟩

theorem J_init (c : Cfg) (U : List Args) : J c U (init c) [] := by
  unfold init
  cases c.shape <;> simp [J]

theorem Inv_init (c : Cfg) (f : Fn) (U : List Args) : Inv c f U (init c) := by
  unfold init
  cases c.shape <;> simp [Inv]

end Goderive.Mem
