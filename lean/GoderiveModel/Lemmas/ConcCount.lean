/-
Counting lemmas for indexed families (`K.count`, `K.upd`) used by the layer-K invariants
(WaitGroup counter = number of live forwarders, received errors = number of finished workers).
-/
import GoderiveModel.K.Lts

namespace Goderive.K

theorem upd_same {α : Type} (f : Nat → α) (i : Nat) (x : α) : upd f i x i = x := by simp [upd]

theorem upd_other {α : Type} (f : Nat → α) (i j : Nat) (x : α) (h : j ≠ i) : upd f i x j = f j := by
  simp [upd, h]

theorem count_le (p : Nat → Bool) : ∀ n, count p n ≤ n
  | 0 => by simp [count]
  | n + 1 => by
    have := count_le p n
    simp only [count]
    split <;> omega

theorem count_congr (p q : Nat → Bool) : ∀ n, (∀ i, i < n → p i = q i) → count p n = count q n
  | 0, _ => rfl
  | n + 1, h => by
    simp only [count]
    rw [count_congr p q n (fun i hi => h i (by omega)), h n (by omega)]

theorem count_upd_ge {α : Type} (p : α → Bool) (f : Nat → α) (i n : Nat) (x : α) (h : n ≤ i) :
    count (fun j => p (upd f i x j)) n = count (fun j => p (f j)) n := by
  apply count_congr
  intro j hj
  simp [upd, show j ≠ i by omega]

theorem count_upd_lt {α : Type} (p : α → Bool) (f : Nat → α) (i : Nat) (x : α) :
    ∀ n, i < n →
      count (fun j => p (upd f i x j)) n + (if p (f i) then 1 else 0)
        = count (fun j => p (f j)) n + (if p x then 1 else 0)
  | 0, h => by omega
  | n + 1, h => by
    simp only [count]
    by_cases hin : i = n
    · subst hin
      rw [count_upd_ge p f i i x (Nat.le_refl i)]
      simp only [upd_same]
      omega
    · have ih := count_upd_lt p f i x n (by omega)
      simp only [upd_other f i n x (fun h => hin h.symm)]
      omega

theorem count_zero (p : Nat → Bool) : ∀ n, count p n = 0 → ∀ i, i < n → p i = false
  | 0, _, i, hi => by omega
  | n + 1, h, i, hi => by
    simp only [count] at h
    by_cases hin : i = n
    · subst hin
      cases hp : p i
      · rfl
      · simp [hp] at h
    · exact count_zero p n (by omega) i (by omega)

theorem count_all_false (p : Nat → Bool) : ∀ n, (∀ i, i < n → p i = false) → count p n = 0
  | 0, _ => rfl
  | n + 1, h => by
    simp only [count]
    rw [count_all_false p n (fun i hi => h i (by omega)), h n (by omega)]
    simp

theorem count_full (p : Nat → Bool) : ∀ n, count p n = n → ∀ i, i < n → p i = true
  | 0, _, i, hi => by omega
  | n + 1, h, i, hi => by
    simp only [count] at h
    have hle := count_le p n
    by_cases hin : i = n
    · subst hin
      cases hp : p i
      · simp [hp] at h; omega
      · rfl
    · have : count p n = n := by
        split at h <;> omega
      exact count_full p n this i (by omega)

theorem count_pos_exists (p : Nat → Bool) : ∀ n, 0 < count p n → ∃ i, i < n ∧ p i = true
  | 0, h => by simp [count] at h
  | n + 1, h => by
    simp only [count] at h
    cases hp : p n
    · simp [hp] at h
      obtain ⟨i, hi, hpi⟩ := count_pos_exists p n h
      exact ⟨i, by omega, hpi⟩
    · exact ⟨n, by omega, hp⟩

theorem count_lt_exists (p : Nat → Bool) : ∀ n, count p n < n → ∃ i, i < n ∧ p i = false
  | 0, h => by omega
  | n + 1, h => by
    simp only [count] at h
    cases hp : p n
    · exact ⟨n, by omega, hp⟩
    · simp [hp] at h
      obtain ⟨i, hi, hpi⟩ := count_lt_exists p n (by omega)
      exact ⟨i, by omega, hpi⟩

/-- a least index below `n` violating `d` exists as soon as some index does -/
theorem exists_least (d : Nat → Bool) : ∀ n, (∃ p, p < n ∧ d p = false) →
    ∃ p, p < n ∧ d p = false ∧ ∀ q, q < p → d q = true
  | 0, ⟨p, hp, _⟩ => by omega
  | n + 1, ⟨p, hp, hd⟩ => by
    by_cases h : ∃ p, p < n ∧ d p = false
    · obtain ⟨q, hq, hdq, hmin⟩ := exists_least d n h
      exact ⟨q, by omega, hdq, hmin⟩
    · have hpn : p = n := by
        by_cases hlt : p < n
        · exact absurd ⟨p, hlt, hd⟩ h
        · omega
      subst hpn
      refine ⟨p, by omega, hd, ?_⟩
      intro q hq
      cases hdq : d q
      · exact absurd ⟨q, hq, hdq⟩ h
      · rfl

theorem gotOf_append (got : List (Nat × Nat)) (i j v : Nat) :
    gotOf (got ++ [(j, v)]) i = if j = i then gotOf got i ++ [v] else gotOf got i := by
  unfold gotOf
  by_cases h : j = i
  · simp [List.filter_append, h]
  · have : (j == i) = false := by simp [h]
    simp [List.filter_append, h, this]

theorem gotOf_nil (i : Nat) : gotOf [] i = [] := rfl

/-- Σ_{i<n} f i (for the termination measures of the indexed systems) -/
def sumTo (f : Nat → Nat) : Nat → Nat
  | 0 => 0
  | n + 1 => sumTo f n + f n

theorem sumTo_congr (f g : Nat → Nat) : ∀ n, (∀ i, i < n → f i = g i) → sumTo f n = sumTo g n
  | 0, _ => rfl
  | n + 1, h => by
    simp only [sumTo]
    rw [sumTo_congr f g n (fun i hi => h i (by omega)), h n (by omega)]

theorem sumTo_upd_ge {α : Type} (w : α → Nat) (f : Nat → α) (i n : Nat) (x : α) (h : n ≤ i) :
    sumTo (fun j => w (upd f i x j)) n = sumTo (fun j => w (f j)) n := by
  apply sumTo_congr
  intro j hj
  simp [upd, show j ≠ i by omega]

theorem sumTo_upd_lt {α : Type} (w : α → Nat) (f : Nat → α) (i : Nat) (x : α) :
    ∀ n, i < n →
      sumTo (fun j => w (upd f i x j)) n + w (f i) = sumTo (fun j => w (f j)) n + w x
  | 0, h => by omega
  | n + 1, h => by
    simp only [sumTo]
    by_cases hin : i = n
    · subst hin
      rw [sumTo_upd_ge w f i i x (Nat.le_refl i)]
      simp only [upd_same]
      omega
    · have ih := sumTo_upd_lt w f i x n (by omega)
      simp only [upd_other f i n x (fun h => hin h.symm)]
      omega

end Goderive.K
