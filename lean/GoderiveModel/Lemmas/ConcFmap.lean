/-
Inductive invariant of K/FmapChan.
-/
import GoderiveModel.K.FmapChan

namespace Goderive.K.FmapChan

structure Inv (c : Cfg) (s : State) : Prop where
  np : s.panicked = false
  capIn : s.inp.cap = c.cap
  capOut : s.out.cap = c.cap
  deliv : c.items.map c.f = s.got ++ s.out.buf ++ held s.pc ++ s.inp.buf.map c.f ++ s.pend.map c.f
  closedPend : s.inp.closed = true → s.pend = []
  late : (s.pc = .closing ∨ s.pc = .done) → s.inp.closed = true ∧ s.inp.buf = []
  outClosed : s.out.closed = true ↔ s.pc = .done
  seenC : s.seen = true → s.out.closed = true ∧ s.out.buf = []
  inLen : s.inp.buf.length ≤ s.inp.cap

theorem inv_init (c : Cfg) : Inv c (init c) := by
  refine ⟨?_, ?_, ?_, ?_, ?_, ?_, ?_, ?_, ?_⟩ <;> simp [init, Chan.mk0, held]

theorem inv_step (c : Cfg) (s s' : State) (l : Label) (hi : Inv c s) (hs : step c s l = some s') :
    Inv c s' := by
  obtain ⟨np, ci, co, dl, cp, lt, oc, sc, il⟩ := hi
  cases l <;> simp only [step] at hs <;> (repeat' split at hs) <;> (try cases hs) <;>
    (refine ⟨?_, ?_, ?_, ?_, ?_, ?_, ?_, ?_, ?_⟩ <;> simp_all [held] <;>
      first
        | omega
        | (have hb : s.inp.buf = [] := List.eq_nil_of_length_eq_zero (by omega)
           simp_all))

theorem inv_reachable (c : Cfg) (s : State) (h : (lts c).Reachable s) : Inv c s :=
  Lts.invariant (lts c) (Inv c) (inv_init c) (fun s l s' hi hs => inv_step c s s' l hi hs) s h

theorem progress (c : Cfg) (s : State) (hi : Inv c s) (hnf : s.seen = false) : (lts c).Enabled s := by
  obtain ⟨np, ci, co, dl, cp, lt, oc, sc, il⟩ := hi
  have en : ∀ l, (step c s l).isSome = true → (lts c).Enabled s :=
    fun l h => Lts.enabled_of_isSome (lts c) s l h
  cases hpc : s.pc with
  | recv =>
    cases hb : s.inp.buf with
    | cons v rest => exact en .fRecv (by simp [step, np, hpc, hb])
    | nil =>
      by_cases hcl : s.inp.closed = true
      · exact en .fRecv (by simp [step, np, hpc, hb, hcl])
      · cases hp : s.pend with
        | nil => exact en .pClose (by simp [step, np, hp, hcl])
        | cons v rest =>
          by_cases hcap : s.inp.cap = 0
          · exact en .pSend (by simp [step, np, hp, hcl, hb, hcap, hpc])
          · exact en .pSend (by
              have : 0 < s.inp.cap := by omega
              simp [step, np, hp, hcl, hb, this])
  | send b =>
    have hoc : s.out.closed = false := by
      cases h : s.out.closed
      · rfl
      · rw [oc.mp h] at hpc; cases hpc
    cases hob : s.out.buf with
    | cons x rest => exact en .cRecv (by simp [step, np, hnf, hob])
    | nil =>
      by_cases hcap : s.out.cap = 0
      · exact en .cRecv (by simp [step, np, hnf, hob, hoc, hpc, hcap])
      · exact en .fSend (by
          have : 0 < s.out.cap := by omega
          simp [step, np, hpc, hoc, hob, this])
  | closing =>
    have hoc : s.out.closed = false := by
      cases h : s.out.closed
      · rfl
      · rw [oc.mp h] at hpc; cases hpc
    exact en .fClose (by simp [step, np, hpc, hoc])
  | done =>
    have hoc : s.out.closed = true := oc.mpr hpc
    cases hob : s.out.buf with
    | cons x rest => exact en .cRecv (by simp [step, np, hnf, hob])
    | nil => exact en .cRecv (by simp [step, np, hnf, hob, hoc])

def pcWeight : Pc → Nat
  | .recv => 2 | .send _ => 4 | .closing => 1 | .done => 0

/-- every step strictly decreases this measure -/
def measure (s : State) : Nat :=
  6 * s.pend.length + 5 * s.inp.buf.length + pcWeight s.pc + s.out.buf.length +
  (if s.inp.closed then 0 else 1) + (if s.seen then 0 else 1) + (if s.panicked then 0 else 1)

theorem measure_decreases (c : Cfg) (s s' : State) (l : Label)
    (hs : step c s l = some s') : measure s' < measure s := by
  cases l <;> simp only [step] at hs <;> (repeat' split at hs) <;> (try cases hs) <;>
    simp_all [measure, pcWeight] <;> omega


end Goderive.K.FmapChan
