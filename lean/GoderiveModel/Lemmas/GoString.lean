/-
Helper lemmas for property C06 (derived GoString round-trips).
-/
import GoderiveModel.S.GoString
import GoderiveModel.Lemmas.Equal

namespace Goderive
namespace GoString
open Val

/-! ## The value-level lexical layer satisfies the contract -/

theorem fltIsNaN_of_finite {w b : Nat} (h : fltFinite w b = true) : fltIsNaN w b = false := by
  simp only [fltFinite, bne_iff_ne, ne_eq] at h
  simp [fltIsNaN, h]

theorem fltFinite_zero (w : Nat) : fltFinite w 0 = true := by
  simp only [fltFinite, fltExp, fltMag, expBits, bne_iff_ne, ne_eq, Nat.zero_mod, Nat.zero_div]
  split <;> decide

theorem fltKey_negzero (w : Nat) : fltKey w (2 ^ (w - 1)) = 0 := by
  simp [fltKey, fltMag]

theorem fltKey_zero (w : Nat) : fltKey w 0 = 0 := by
  simp [fltKey, fltSign, fltMag]

theorem fltEq_normZero {w b : Nat} (h : fltFinite w b = true) : fltEq w b (normZero w b) = true := by
  unfold normZero
  split
  · next hb =>
    subst hb
    simp [fltEq, fltIsNaN_of_finite h, fltIsNaN_of_finite (fltFinite_zero w), fltKey_negzero, fltKey_zero]
  · exact fltEq_refl w b (fltIsNaN_of_finite h)

theorem normZero_lt {w b : Nat} (h : b < 2 ^ w) : normZero w b < 2 ^ w := by
  unfold normZero
  split
  · exact Nat.pos_of_ne_zero (by intro h0; rw [h0] at h; omega)
  · exact h

theorem valLex_round : valLex.Round := by
  intro b v ht hfin
  refine ⟨normLeaf v, rfl, ?_, ?_⟩
  · cases b <;> cases v <;> simp_all [basicHasType, normLeaf]
    · obtain ⟨rfl, h⟩ := ht; exact normZero_lt h
    · obtain ⟨⟨rfl, h1⟩, h2⟩ := ht; exact ⟨normZero_lt h1, normZero_lt h2⟩
  · cases b <;> cases v <;> simp_all [basicHasType, normLeaf, leafEq, finiteFloats, fltEq_normZero]

end GoString
end Goderive
