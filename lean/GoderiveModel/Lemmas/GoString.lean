/-
Helper lemmas for property C06 (derived GoString round-trips).
-/
import GoderiveModel.S.GoString
import GoderiveModel.Lemmas.Equal

namespace Goderive
namespace GoString
open Val

/-! ## The value-level lexical layer satisfies the contract -/

theorem fltIsNaN_of_finite {w b : Nat} (h : fltFinite w b = true) : fltIsNaN w b = false := by
  simp only [fltFinite, bne_iff_ne, ne_eq] at h
  simp [fltIsNaN, h]

theorem fltFinite_zero (w : Nat) : fltFinite w 0 = true := by
  simp only [fltFinite, fltExp, fltMag, expBits, bne_iff_ne, ne_eq, Nat.zero_mod, Nat.zero_div]
  split <;> decide

theorem fltKey_negzero (w : Nat) : fltKey w (2 ^ (w - 1)) = 0 := by
  simp [fltKey, fltMag]

theorem fltKey_zero (w : Nat) : fltKey w 0 = 0 := by
  simp [fltKey, fltSign, fltMag]

theorem fltEq_normZero {w b : Nat} (h : fltFinite w b = true) : fltEq w b (normZero w b) = true := by
  unfold normZero
  split
  · next hb =>
    subst hb
    simp [fltEq, fltIsNaN_of_finite h, fltIsNaN_of_finite (fltFinite_zero w), fltKey_negzero, fltKey_zero]
  · exact fltEq_refl w b (fltIsNaN_of_finite h)

theorem normZero_lt {w b : Nat} (h : b < 2 ^ w) : normZero w b < 2 ^ w := by
  unfold normZero
  split
  · exact Nat.pos_of_ne_zero (by intro h0; rw [h0] at h; omega)
  · exact h

theorem valLex_round : valLex.Round := by
  intro b v ht hfin
  refine ⟨normLeaf v, rfl, ?_, ?_⟩
  · cases b <;> cases v <;> simp_all [basicHasType, normLeaf]
    · obtain ⟨rfl, h⟩ := ht; exact normZero_lt h
    · obtain ⟨⟨rfl, h1⟩, h2⟩ := ht; exact ⟨normZero_lt h1, normZero_lt h2⟩
  · cases b <;> cases v <;> simp_all [basicHasType, normLeaf, leafEq, finiteFloats, fltEq_normZero]

/-! ## Spines -/

/-- append on `scons` spines (anything that is not a `scons` ends the left spine) -/
def sapp : Val → Val → Val
  | .scons h t, ys => .scons h (sapp t ys)
  | _, ys => ys

theorem slen_scons (h t : Val) : (Val.scons h t).slen = t.slen + 1 := rfl

theorem sapp_scons (h t ys : Val) : sapp (.scons h t) ys = .scons h (sapp t ys) := rfl

theorem setNth_sapp (v z t : Val) : ∀ pre : Val,
    setNth pre.slen v (sapp pre (.scons z t)) = some (sapp pre (.scons v t)) := by
  intro pre
  induction pre with
  | scons h r _ ihr => rw [slen_scons, sapp_scons, sapp_scons, setNth, ihr]; rfl
  | _ => rfl

theorem sapp_single_assoc (y rest : Val) : ∀ pre : Val,
    sapp (sapp pre (.scons y .snil)) rest = sapp pre (.scons y rest) := by
  intro pre
  induction pre with
  | scons h r _ ihr => rw [sapp_scons, sapp_scons, sapp_scons, ihr]
  | _ => rfl

theorem slen_sapp_single (y : Val) : ∀ pre : Val, (sapp pre (.scons y .snil)).slen = pre.slen + 1 := by
  intro pre
  induction pre with
  | scons h r _ ihr => rw [sapp_scons, slen_scons, slen_scons, ihr]
  | _ => rfl

/-! ## The relation "evaluated value `v'` is a good image of the original `v`" -/

/-- `v'` is well-typed, structurally equal to `v` (nil-ness included), and lives at addresses `≥ n0` -/
def Rel1 (env : Env) (n0 : Nat) (T : Ty) (v v' : Val) : Prop :=
  hasType env T v' = true ∧ Spec.structEq env T v v' = true ∧ ∀ a ∈ addrs v', n0 ≤ a

def SeqRel (env : Env) (n0 : Nat) (E : Ty) : Val → Val → Prop
  | .scons x r, .scons y s => Rel1 env n0 E x y ∧ SeqRel env n0 E r s
  | .snil, .snil => True
  | _, _ => False

def FldRel (env : Env) (n0 : Nat) : Ty → Val → Val → Prop
  | .fcons F rest, .scons x r, .scons y s => Rel1 env n0 F x y ∧ FldRel env n0 rest r s
  | .fnil, .snil, .snil => True
  | _, _, _ => False

def EntRel (env : Env) (n0 : Nat) (K V : Ty) : Val → Val → Prop
  | .scons (.pair k v) r, .scons (.pair k' v') s =>
    Rel1 env n0 K k k' ∧ Rel1 env n0 V v v' ∧ EntRel env n0 K V r s
  | .snil, .snil => True
  | _, _ => False

theorem Rel1.congr {env : Env} {n0 : Nat} {T T' : Ty} {v v' : Val} (h : env.under T = env.under T')
    (r : Rel1 env n0 T v v') : Rel1 env n0 T' v v' :=
  ⟨by rw [← hasType_congr h]; exact r.1, by rw [← structEq_congr h]; exact r.2.1, r.2.2⟩

theorem addrs_scons (h t : Val) : addrs (.scons h t) = addrs h ++ addrs t := by simp [addrs]

theorem SeqRel.out {env : Env} {n0 : Nat} {E : Ty} : ∀ {xs ys : Val}, SeqRel env n0 E xs ys →
    allHaveType env E ys = true ∧ Spec.seqEq env E xs ys = true ∧ (∀ a ∈ addrs ys, n0 ≤ a) ∧
      ys.slen = xs.slen := by
  intro xs
  induction xs with
  | snil =>
    intro ys h
    cases ys <;> simp [SeqRel] at h
    refine ⟨by rw [allHaveType.eq_def], by rw [Spec.seqEq.eq_def], by simp [addrs], rfl⟩
  | scons x r _ ihr =>
    intro ys h
    cases ys with
    | scons y s =>
      simp only [SeqRel] at h
      obtain ⟨h1, h2, h3, h4⟩ := ihr h.2
      refine ⟨?_, ?_, ?_, ?_⟩
      · rw [allHaveType.eq_def]; simp [h.1.1, h1]
      · rw [Spec.seqEq.eq_def]; simp [h.1.2.1, h2]
      · intro a ha
        rw [addrs_scons, List.mem_append] at ha
        cases ha with
        | inl ha => exact h.1.2.2 a ha
        | inr ha => exact h3 a ha
      · rw [slen_scons, slen_scons, h4]
    | _ => simp [SeqRel] at h
  | _ => intro ys h; simp [SeqRel] at h

theorem FldRel.out {env : Env} {n0 : Nat} : ∀ {fs : Ty} {xs ys : Val}, FldRel env n0 fs xs ys →
    fieldsHaveType env fs ys = true ∧ Spec.fieldsEq env fs xs ys = true ∧ (∀ a ∈ addrs ys, n0 ≤ a) := by
  intro fs
  induction fs with
  | fnil =>
    intro xs ys h
    cases xs <;> cases ys <;> simp [FldRel] at h
    refine ⟨by rw [fieldsHaveType.eq_def], by rw [Spec.fieldsEq.eq_def], by simp [addrs]⟩
  | fcons F rest _ ihr =>
    intro xs ys h
    cases xs with
    | scons x r =>
      cases ys with
      | scons y s =>
        simp only [FldRel] at h
        obtain ⟨h1, h2, h3⟩ := ihr h.2
        refine ⟨?_, ?_, ?_⟩
        · rw [fieldsHaveType.eq_def]; simp [h.1.1, h1]
        · rw [Spec.fieldsEq.eq_def]; simp [h.1.2.1, h2]
        · intro a ha
          rw [addrs_scons, List.mem_append] at ha
          cases ha with
          | inl ha => exact h.1.2.2 a ha
          | inr ha => exact h3 a ha
      | _ => simp [FldRel] at h
    | _ => simp [FldRel] at h
  | _ => intro xs ys h; simp [FldRel] at h

/-! ## Map entries: images of distinct keys are distinct -/

theorem goEq_of_rel {env : Env} (hf : env.flagsOk = true) {n0 : Nat} {K : Ty} {k k' : Val}
    (hc : canEqual env K = true) (hk : hasType env K k = true) (r : Rel1 env n0 K k k') :
    goEq k k' = true := by
  rw [goEq_eq_structEq hf k' hc hk]; exact r.2.1

/-- `k ~ k'`, `kd ~ kd'` and `kd ≠ k` give `k' ≠ kd'` (Go `==` is a partial equivalence on typed values) -/
theorem key_transfer {env : Env} (hf : env.flagsOk = true) {K : Ty} {k k' kd kd' : Val}
    (hc : canEqual env K = true) (hk : hasType env K k = true) (hk' : hasType env K k' = true)
    (hd : hasType env K kd = true) (hd' : hasType env K kd' = true)
    (e1 : goEq k k' = true) (e2 : goEq kd kd' = true) (hne : goEq kd k = false) :
    goEq k' kd' = false := by
  cases h : goEq k' kd' with
  | false => rfl
  | true =>
    have h1 : goEq k kd' = true := goEq_trans hf hc hk hk' e1 h
    have h2 : goEq kd' kd = true := by rw [goEq_symm hf hc hd' hd]; exact e2
    have h3 : goEq k kd = true := goEq_trans hf hc hk hd' h1 h2
    rw [goEq_symm hf hc hk hd] at h3
    rw [h3] at hne; cases hne

/-- every key of the spine differs from `k` (the spine's keys on the left of `==`) -/
def preFresh (k : Val) : Val → Bool
  | .scons (.pair kd _) r => !goEq kd k && preFresh k r
  | _ => true

theorem keyFresh_sapp {env : Env} {K V : Ty} {kd k v r : Val} : ∀ t : Val,
    entriesHaveType env K V t = true → keyFresh kd (sapp t (.scons (.pair k v) r)) = true →
    goEq kd k = false := by
  intro t
  induction t with
  | snil => intro _ h; simp [sapp, keyFresh] at h; exact h.1
  | scons e t' _ iht =>
    intro ht h
    rcases entriesHaveType_inv ht with h0 | ⟨k1, v1, r1, he, _, _, hr⟩
    · cases h0
    · cases he
      rw [sapp_scons] at h
      simp only [keyFresh, Bool.and_eq_true] at h
      exact iht hr h.2
  | _ => intro ht; simp [entriesHaveType] at ht

theorem preFresh_of_distinct {env : Env} {K V : Ty} {k v r : Val} : ∀ pre : Val,
    entriesHaveType env K V pre = true → keysDistinct (sapp pre (.scons (.pair k v) r)) = true →
    preFresh k pre = true := by
  intro pre
  induction pre with
  | snil => intro _ _; rfl
  | scons e t _ iht =>
    intro hp h
    rcases entriesHaveType_inv hp with h0 | ⟨k1, v1, r1, he, _, _, hr⟩
    · cases h0
    · cases he
      rw [sapp_scons] at h
      simp only [keysDistinct, Bool.and_eq_true] at h
      simp only [preFresh, Bool.and_eq_true, Bool.not_eq_true']
      exact ⟨keyFresh_sapp t hr h.1, iht hr h.2⟩
  | _ => intro hp; simp [entriesHaveType] at hp

/-- backward: the image `k'` of a key that differs from every key of `pre` is absent from the images -/
theorem keyFresh_of_preFresh {env : Env} (hf : env.flagsOk = true) {n0 : Nat} {K V : Ty} {k k' : Val}
    (hc : canEqual env K = true) (hk : hasType env K k = true) (hk' : hasType env K k' = true)
    (e1 : goEq k k' = true) : ∀ pre done : Val, EntRel env n0 K V pre done →
    entriesHaveType env K V pre = true → preFresh k pre = true → keyFresh k' done = true := by
  intro pre
  induction pre with
  | snil => intro done h _ _; cases done <;> simp [EntRel] at h; rfl
  | scons e t _ iht =>
    intro done h hp hfr
    rcases entriesHaveType_inv hp with h0 | ⟨kd, vd, r1, he, hkd, _, hr⟩
    · cases h0
    · cases he
      cases done with
      | scons e' s =>
        cases e' with
        | pair kd' vd' =>
          simp only [EntRel] at h
          simp only [preFresh, Bool.and_eq_true, Bool.not_eq_true'] at hfr
          simp only [keyFresh, Bool.and_eq_true, Bool.not_eq_true']
          exact ⟨key_transfer hf hc hk hk' hkd h.1.1 e1 (goEq_of_rel hf hc hkd h.1) hfr.1,
            iht s h.2.2 hr hfr.2⟩
        | _ => simp [EntRel] at h
      | _ => simp [EntRel] at h
  | _ => intro done h; simp [EntRel] at h

/-- forward: the image of a key that differs from all later keys differs from all later images -/
theorem keyFresh_rel {env : Env} (hf : env.flagsOk = true) {n0 : Nat} {K V : Ty} {kd kd' : Val}
    (hc : canEqual env K = true) (hd : hasType env K kd = true) (hd' : hasType env K kd' = true)
    (e2 : goEq kd kd' = true) : ∀ r s : Val, EntRel env n0 K V r s →
    entriesHaveType env K V r = true → keyFresh kd r = true → keyFresh kd' s = true := by
  intro r
  induction r with
  | snil => intro s h _ _; cases s <;> simp [EntRel] at h; rfl
  | scons e t _ iht =>
    intro s h hp hfr
    rcases entriesHaveType_inv hp with h0 | ⟨k, v, r1, he, hk, _, hr⟩
    · cases h0
    · cases he
      cases s with
      | scons e' s' =>
        cases e' with
        | pair k' v' =>
          simp only [EntRel] at h
          simp only [keyFresh, Bool.and_eq_true, Bool.not_eq_true'] at hfr ⊢
          have hne : goEq k kd = false := by rw [goEq_symm hf hc hk hd]; exact hfr.1
          exact ⟨key_transfer hf hc hd hd' hk h.1.1 e2 (goEq_of_rel hf hc hk h.1) hne,
            iht s' h.2.2 hr hfr.2⟩
        | _ => simp [EntRel] at h
      | _ => simp [EntRel] at h
  | _ => intro s h; simp [EntRel] at h

theorem keysDistinct_rel {env : Env} (hf : env.flagsOk = true) {n0 : Nat} {K V : Ty}
    (hc : canEqual env K = true) : ∀ xs ys : Val, EntRel env n0 K V xs ys →
    entriesHaveType env K V xs = true → keysDistinct xs = true → keysDistinct ys = true := by
  intro xs
  induction xs with
  | snil => intro ys h _ _; cases ys <;> simp [EntRel] at h; rfl
  | scons e t _ iht =>
    intro ys h hp hd
    rcases entriesHaveType_inv hp with h0 | ⟨k, v, r1, he, hk, _, hr⟩
    · cases h0
    · cases he
      cases ys with
      | scons e' s' =>
        cases e' with
        | pair k' v' =>
          simp only [EntRel] at h
          simp only [keysDistinct, Bool.and_eq_true] at hd ⊢
          exact ⟨keyFresh_rel hf hc hk h.1.1 (goEq_of_rel hf hc hk h.1) t s' h.2.2 hr hd.1,
            iht s' h.2.2 hr hd.2⟩
        | _ => simp [EntRel] at h
      | _ => simp [EntRel] at h
  | _ => intro ys h; simp [EntRel] at h

/-! ## Map entries: what the positional relation gives -/

theorem valueAt_cons {env : Env} {K V : Ty} {k v k' w s : Val}
    (h : Spec.valueAt env K V k v s = true) :
    Spec.valueAt env K V k v (.scons (.pair k' w) s) = true := by
  rw [Spec.valueAt.eq_def]; simp [h]

theorem entriesIn_cons {env : Env} {K V : Ty} {k' w s : Val} : ∀ xs : Val,
    Spec.entriesIn env K V xs s = true → Spec.entriesIn env K V xs (.scons (.pair k' w) s) = true := by
  intro xs
  induction xs with
  | snil => intro _; rw [Spec.entriesIn.eq_def]
  | scons e t _ iht =>
    intro h
    cases e with
    | pair k v =>
      rw [Spec.entriesIn.eq_def] at h ⊢
      simp only [Bool.and_eq_true] at h ⊢
      exact ⟨valueAt_cons h.1, iht h.2⟩
    | _ => rw [Spec.entriesIn.eq_def] at h; simp at h
  | _ => intro h; rw [Spec.entriesIn.eq_def] at h; simp at h

theorem EntRel.out {env : Env} {n0 : Nat} {K V : Ty} : ∀ {xs ys : Val}, EntRel env n0 K V xs ys →
    entriesHaveType env K V ys = true ∧ ys.slen = xs.slen ∧ Spec.entriesIn env K V xs ys = true ∧
      (∀ a ∈ addrs ys, n0 ≤ a) := by
  intro xs
  induction xs with
  | snil =>
    intro ys h
    cases ys <;> simp [EntRel] at h
    exact ⟨by rw [entriesHaveType.eq_def], rfl, by rw [Spec.entriesIn.eq_def], by simp [addrs]⟩
  | scons e t _ iht =>
    intro ys h
    cases e with
    | pair k v =>
      cases ys with
      | scons e' s =>
        cases e' with
        | pair k' v' =>
          simp only [EntRel] at h
          obtain ⟨h1, h2, h3, h4⟩ := iht h.2.2
          refine ⟨?_, ?_, ?_, ?_⟩
          · rw [entriesHaveType.eq_def]; simp [h.1.1, h.2.1.1, h1]
          · rw [slen_scons, slen_scons, h2]
          · rw [Spec.entriesIn.eq_def]
            simp only [Bool.and_eq_true]
            refine ⟨?_, entriesIn_cons t h3⟩
            rw [Spec.valueAt.eq_def]; simp [h.1.2.1, h.2.1.2.1]
          · intro a ha
            simp only [addrs, List.mem_append] at ha
            rcases ha with (ha | ha) | ha
            · exact h.1.2.2 a ha
            · exact h.2.1.2.2 a ha
            · exact h4 a ha
        | _ => simp [EntRel] at h
      | _ => simp [EntRel] at h
    | _ => simp [EntRel] at h
  | _ => intro ys h; simp [EntRel] at h

theorem mapSet_fresh {env : Env} {K V : Ty} {k' v' : Val} : ∀ done : Val,
    entriesHaveType env K V done = true → keyFresh k' done = true →
    mapSet k' v' done = sapp done (.scons (.pair k' v') .snil) := by
  intro done
  induction done with
  | snil => intro _ _; rfl
  | scons e t _ iht =>
    intro hd hfr
    rcases entriesHaveType_inv hd with h0 | ⟨k, v, r1, he, _, _, hr⟩
    · cases h0
    · cases he
      simp only [keyFresh, Bool.and_eq_true, Bool.not_eq_true'] at hfr
      rw [mapSet, sapp_scons, iht hr hfr.2]
      simp [hfr.1]
  | _ => intro hd; simp [entriesHaveType] at hd

theorem EntRel.snoc {env : Env} {n0 : Nat} {K V : Ty} {k v k' v' : Val}
    (hk : Rel1 env n0 K k k') (hv : Rel1 env n0 V v v') : ∀ pre done : Val,
    EntRel env n0 K V pre done →
    EntRel env n0 K V (sapp pre (.scons (.pair k v) .snil)) (sapp done (.scons (.pair k' v') .snil)) := by
  intro pre
  induction pre with
  | snil => intro done h; cases done <;> simp [EntRel] at h; simp [sapp, EntRel, hk, hv]
  | scons e t _ iht =>
    intro done h
    cases e with
    | pair k1 v1 =>
      cases done with
      | scons e' s =>
        cases e' with
        | pair k1' v1' =>
          simp only [EntRel] at h
          rw [sapp_scons, sapp_scons]
          simp only [EntRel]
          exact ⟨h.1, h.2.1, iht s h.2.2⟩
        | _ => simp [EntRel] at h
      | _ => simp [EntRel] at h
    | _ => simp [EntRel] at h
  | _ => intro done h; simp [EntRel] at h

theorem entriesHaveType_snoc {env : Env} {K V : Ty} {k v : Val} (hk : hasType env K k = true)
    (hv : hasType env V v = true) : ∀ pre : Val, entriesHaveType env K V pre = true →
    entriesHaveType env K V (sapp pre (.scons (.pair k v) .snil)) = true := by
  intro pre
  induction pre with
  | snil =>
    intro _
    have h0 : entriesHaveType env K V .snil = true := by rw [entriesHaveType.eq_def]
    show entriesHaveType env K V (.scons (.pair k v) .snil) = true
    rw [entriesHaveType.eq_def]; simp [hk, hv, h0]
  | scons e t _ iht =>
    intro hp
    rcases entriesHaveType_inv hp with h0 | ⟨k1, v1, r1, he, hk1, hv1, hr⟩
    · cases h0
    · cases he
      rw [sapp_scons, entriesHaveType.eq_def]; simp [hk1, hv1, iht hr]
  | _ => intro hp; simp [entriesHaveType] at hp

/-! ## Evaluation of texts: specifications used by the induction -/

section Eval
variable {τ : Type} (env : Env) (L : Lex τ)

/-- the expression `e` evaluates, from any next address `n ≥ n0`, to a good image of `x : T` -/
def ExprOK (n0 : Nat) (T : Ty) (x : Val) (e : G τ) : Prop :=
  ∀ n, n0 ≤ n → ∃ v' n', evalE env L e n = .ok (v', n') ∧ n ≤ n' ∧ Rel1 env n0 T x v'

/-- the function body evaluates, in any frame, to a good image of `x : T` -/
def BodyOK (n0 : Nat) (T : Ty) (x : Val) (body : G τ) : Prop :=
  ∀ fr n, n0 ≤ n → ∃ v' n', evalBody env L body fr n = .ok (v', n') ∧ n ≤ n' ∧ Rel1 env n0 T x v'

/-- what the induction proves about a value `x`: the body printed for it at top level evaluates well,
and in component position either nothing is printed (`x` is nil and the zero value is nil) or one
assignment of a well-evaluating expression -/
structure P (x : Val) : Prop where
  top : ∀ T n0, hasType env T x = true → finiteFloats x = true → BodyOK env L n0 T x (top env L T x)
  field : ∀ F n0, hasType env F x = true → finiteFloats x = true →
    ((∀ tgt, field env L F x tgt = .skip) ∧ zero0 env F = .nilv ∧ Rel1 env n0 F x .nilv) ∨
    ∃ e, (∀ tgt, field env L F x tgt = assign tgt e) ∧ ExprOK env L n0 F x e

variable {env L}

theorem addrs_of_basic {b : Basic} {v : Val} (h : basicHasType b v = true) : addrs v = [] := by
  cases b <;> cases v <;> simp_all [basicHasType, addrs]

theorem rel1_basic {n0 : Nat} {b : Basic} {x v' : Val} (ht : basicHasType b v' = true)
    (he : leafEq x v' = true) : Rel1 env n0 (.basic b) x v' := by
  refine ⟨?_, ?_, ?_⟩
  · rw [hasType_basic (b := b) rfl]; exact ht
  · rw [structEq_basic (b := b) rfl]; exact he
  · rw [addrs_of_basic ht]; intro a ha; cases ha

theorem leaf_eval (hL : L.Round) {n0 : Nat} {b : Basic} {x : Val} (hx : basicHasType b x = true)
    (hfin : finiteFloats x = true) (n : Nat) :
    ∃ v', evalE env L (.leaf b (L.print b x)) n = .ok (v', n) ∧ Rel1 env n0 (.basic b) x v' := by
  obtain ⟨v', hp, ht, he⟩ := hL b x hx hfin
  exact ⟨v', by rw [evalE.eq_1, hp], rel1_basic ht he⟩

theorem finite_scons {h t : Val} (hf : finiteFloats (.scons h t) = true) :
    finiteFloats h = true ∧ finiteFloats t = true := by
  simpa [finiteFloats] using hf

theorem leaves_eval (hL : L.Round) {n0 : Nat} {b : Basic} : ∀ xs : Val,
    allHaveType env (.basic b) xs = true → finiteFloats xs = true → ∀ n,
    ∃ ys, evalSeq env L (leaves L b xs) n = .ok (ys, n) ∧ SeqRel env n0 (.basic b) xs ys := by
  intro xs
  induction xs with
  | snil => intro _ _ n; exact ⟨.snil, by show evalSeq env L .enil n = _; rw [evalSeq.eq_1], by simp [SeqRel]⟩
  | scons x r _ ihr =>
    intro ht hfin n
    rcases allHaveType_inv ht with h0 | ⟨a, r', he, hx, hr⟩
    · cases h0
    · cases he
      obtain ⟨hf1, hf2⟩ := finite_scons hfin
      rw [hasType_basic (b := b) rfl] at hx
      obtain ⟨v', hv, hrel⟩ := leaf_eval (env := env) (n0 := n0) hL hx hf1 n
      obtain ⟨ys, hys, hrs⟩ := ihr hr hf2 n
      refine ⟨.scons v' ys, ?_, by simp [SeqRel, hrel, hrs]⟩
      rw [leaves, evalSeq.eq_2, hv]
      simp only [Res.bind_ok, hys]
  | _ => intro ht; simp [allHaveType] at ht

theorem entryLeaves_eval (hL : L.Round) {n0 : Nat} {bk bv : Basic} : ∀ es : Val,
    entriesHaveType env (.basic bk) (.basic bv) es = true → finiteFloats es = true → ∀ n,
    ∃ ys, evalEntries env L (entryLeaves L bk bv es) n = .ok (ys, n) ∧
      EntRel env n0 (.basic bk) (.basic bv) es ys := by
  intro es
  induction es with
  | snil => intro _ _ n; exact ⟨.snil, by show evalEntries env L .enil n = _; rw [evalEntries.eq_1], by simp [EntRel]⟩
  | scons e r _ ihr =>
    intro ht hfin n
    rcases entriesHaveType_inv ht with h0 | ⟨k, v, r', he, hk, hv, hr⟩
    · cases h0
    · cases he
      obtain ⟨hf1, hf2⟩ := finite_scons hfin
      have hf1' : finiteFloats k = true ∧ finiteFloats v = true := by simpa [finiteFloats] using hf1
      rw [hasType_basic (b := bk) rfl] at hk
      rw [hasType_basic (b := bv) rfl] at hv
      obtain ⟨k', hk', hrk⟩ := leaf_eval (env := env) (n0 := n0) hL hk hf1'.1 n
      obtain ⟨v', hv', hrv⟩ := leaf_eval (env := env) (n0 := n0) hL hv hf1'.2 n
      obtain ⟨ys, hys, hrs⟩ := ihr hr hf2 n
      refine ⟨.scons (.pair k' v') ys, ?_, by simp [EntRel, hrk, hrv, hrs]⟩
      rw [entryLeaves, evalEntries.eq_2, hk']
      simp only [Res.bind_ok, hv', hys]
  | _ => intro ht; simp [entriesHaveType] at ht

/-! ## Statements against a known frame -/

theorem setField_eval {e : G τ} {n n1 i a : Nat} {v' fs fs' : Val} {keys : List (Nat × Val)}
    (h1 : evalE env L e n = .ok (v', n1)) (h2 : setNth i v' fs = some fs') :
    evalStmt env L (.setField i true e) ⟨.ptr a (.struct fs), keys⟩ n
      = .ok (⟨.ptr a (.struct fs'), keys⟩, n1) := by
  rw [evalStmt.eq_7]; simp [h1, h2]

theorem setDeref_eval {e : G τ} {n n1 a : Nat} {v' old : Val} {keys : List (Nat × Val)}
    (h1 : evalE env L e n = .ok (v', n1)) :
    evalStmt env L (.setDeref e) ⟨.ptr a old, keys⟩ n = .ok (⟨.ptr a v', keys⟩, n1) := by
  rw [evalStmt.eq_8]; simp [h1]

/-- the two containers `this[i] = e` writes into -/
inductive SeqWrap : (Val → Val) → Prop where
  | slice (a sp : Nat) : SeqWrap (fun es => .slice a sp es)
  | arr : SeqWrap (fun es => .arr es)

theorem setIndex_eval {W : Val → Val} (hW : SeqWrap W) {e : G τ} {n n1 i : Nat} {v' es es' : Val}
    {keys : List (Nat × Val)} (h1 : evalE env L e n = .ok (v', n1)) (h2 : setNth i v' es = some es') :
    evalStmt env L (.setIndex i e) ⟨W es, keys⟩ n = .ok (⟨W es', keys⟩, n1) := by
  cases hW <;> (rw [evalStmt.eq_9]; simp [h1, h2])

theorem call_eval {T : Ty} {body : G τ} {n : Nat} :
    evalE env L (.call T body) n = evalBody env L body {} n := by rw [evalE.eq_7]

/-! ## The loops -/

theorem fields_loop {mask : List Bool} (hExp : ∀ i, exportedAt mask i = true) {n0 : Nat} (k : G τ)
    (a : Nat) (keys : List (Nat × Val)) : ∀ (fs : Ty) (xs pre : Val) (n : Nat),
    fieldsHaveType env fs xs = true → finiteFloats xs = true →
    (∀ z, sizeOf z < sizeOf xs → P env L z) → n0 ≤ n →
    ∃ ys n', n ≤ n' ∧ FldRel env n0 fs xs ys ∧
      evalBody env L (fieldsG env L fs mask xs pre.slen k)
          ⟨.ptr a (.struct (sapp pre (zeroFields env fs))), keys⟩ n
        = evalBody env L k ⟨.ptr a (.struct (sapp pre ys)), keys⟩ n' := by
  intro fs
  induction fs with
  | fnil =>
    intro xs pre n ht _ _ _
    cases xs <;> simp [fieldsHaveType] at ht
    exact ⟨.snil, n, Nat.le_refl _, by simp [FldRel], by rw [fieldsG.eq_def]; rfl⟩
  | fcons F rest _ ihr =>
    intro xs pre n ht hfin hP hn
    cases xs with
    | scons x r =>
      rw [fieldsHaveType.eq_def] at ht
      simp only [Bool.and_eq_true] at ht
      obtain ⟨hf1, hf2⟩ := finite_scons hfin
      have hPr : ∀ z, sizeOf z < sizeOf r → P env L z := fun z hz => hP z (by simp; omega)
      rw [fieldsG.eq_1, evalBody.eq_1]
      rcases (hP x (by simp; omega)).field F n0 ht.1 hf1 with ⟨hskip, hz, hrel⟩ | ⟨e, he, hok⟩
      · -- nil component: nothing printed, the zero value stays
        rw [hskip, evalStmt.eq_1]
        simp only [Res.bind_ok]
        obtain ⟨ys, n', hn', hrs, hev⟩ := ihr r (sapp pre (.scons .nilv .snil)) n ht.2 hf2 hPr hn
        refine ⟨.scons .nilv ys, n', hn', by simp [FldRel, hrel, hrs], ?_⟩
        rw [slen_sapp_single, sapp_single_assoc, sapp_single_assoc] at hev
        rw [zeroFields, hz]
        exact hev
      · obtain ⟨v', n1, hv, hn1, hrel⟩ := hok n hn
        rw [he, assign, hExp, zeroFields,
          setField_eval (env := env) (L := L) hv (setNth_sapp v' (zero0 env F) (zeroFields env rest) pre)]
        simp only [Res.bind_ok]
        obtain ⟨ys, n', hn', hrs, hev⟩ :=
          ihr r (sapp pre (.scons v' .snil)) n1 ht.2 hf2 hPr (Nat.le_trans hn hn1)
        refine ⟨.scons v' ys, n', Nat.le_trans hn1 hn', by simp [FldRel, hrel, hrs], ?_⟩
        rw [slen_sapp_single, sapp_single_assoc, sapp_single_assoc] at hev
        exact hev
    | _ => simp [fieldsHaveType] at ht
  | _ => intro xs pre n ht; simp [fieldsHaveType] at ht

theorem sreplicate_succ (n : Nat) (z : Val) : sreplicate (n + 1) z = .scons z (sreplicate n z) := rfl

theorem elems_loop {W : Val → Val} (hW : SeqWrap W) {n0 : Nat} (k : G τ) (keys : List (Nat × Val))
    (E : Ty) (z : Val) : ∀ (xs pre : Val) (n : Nat),
    allHaveType env E xs = true → finiteFloats xs = true →
    (∀ y, sizeOf y < sizeOf xs → P env L y) → n0 ≤ n →
    ∃ ys n', n ≤ n' ∧ SeqRel env n0 E xs ys ∧
      evalBody env L (elemsG env L E xs pre.slen k) ⟨W (sapp pre (sreplicate xs.slen z)), keys⟩ n
        = evalBody env L k ⟨W (sapp pre ys), keys⟩ n' := by
  intro xs
  induction xs with
  | snil =>
    intro pre n _ _ _ _
    exact ⟨.snil, n, Nat.le_refl _, by simp [SeqRel], by rw [elemsG.eq_def]; rfl⟩
  | scons x r _ ihr =>
    intro pre n ht hfin hP hn
    rw [allHaveType.eq_def] at ht
    simp only [Bool.and_eq_true] at ht
    obtain ⟨hf1, hf2⟩ := finite_scons hfin
    have hPr : ∀ y, sizeOf y < sizeOf r → P env L y := fun y hy => hP y (by simp; omega)
    obtain ⟨v', n1, hv, hn1, hrel⟩ := (hP x (by simp; omega)).top E n0 ht.1 hf1 {} n hn
    rw [elemsG.eq_1, evalBody.eq_1, slen_scons, sreplicate_succ,
      setIndex_eval (env := env) (L := L) hW (by rw [call_eval]; exact hv)
        (setNth_sapp v' z (sreplicate r.slen z) pre)]
    simp only [Res.bind_ok]
    obtain ⟨ys, n', hn', hrs, hev⟩ :=
      ihr (sapp pre (.scons v' .snil)) n1 ht.2 hf2 hPr (Nat.le_trans hn hn1)
    refine ⟨.scons v' ys, n', Nat.le_trans hn1 hn', by simp [SeqRel, hrel, hrs], ?_⟩
    rw [slen_sapp_single, sapp_single_assoc, sapp_single_assoc] at hev
    exact hev
  | _ => intro pre n ht; simp [allHaveType] at ht

theorem sapp_snil_of_entries {K V : Ty} : ∀ pre : Val, entriesHaveType env K V pre = true →
    sapp pre .snil = pre := by
  intro pre
  induction pre with
  | snil => intro _; rfl
  | scons e t _ iht =>
    intro hpre
    rcases entriesHaveType_inv hpre with h0 | ⟨_, _, _, he, _, _, hr'⟩
    · cases h0
    · cases he; rw [sapp_scons, iht hr']
  | _ => intro hpre; simp [entriesHaveType] at hpre

theorem finite_pair {k v : Val} (h : finiteFloats (.pair k v) = true) :
    finiteFloats k = true ∧ finiteFloats v = true := by
  simpa [finiteFloats] using h

/-- one `this[k'] = v'` on a map whose entries are the images of `pre`, for the image of a new key -/
theorem mapSet_step (hf : env.flagsOk = true) {n0 : Nat} {K V : Ty} (hc : canEqual env K = true)
    {key v k' v' r pre done : Val} (hk : hasType env K key = true)
    (hrk : Rel1 env n0 K key k') (hr : EntRel env n0 K V pre done)
    (hpre : entriesHaveType env K V pre = true)
    (hd : keysDistinct (sapp pre (.scons (.pair key v) r)) = true) :
    mapSet k' v' done = sapp done (.scons (.pair k' v') .snil) :=
  mapSet_fresh done hr.out.1
    (keyFresh_of_preFresh hf hc hk hrk.1 (goEq_of_rel hf hc hk hrk) pre done hr hpre
      (preFresh_of_distinct pre hpre hd))

theorem entriesLit_loop (hf : env.flagsOk = true) (hL : L.Round) {n0 : Nat} (k : G τ) (a : Nat)
    (keys : List (Nat × Val)) (bk : Basic) (V : Ty) : ∀ (es pre done : Val) (n : Nat),
    entriesHaveType env (.basic bk) V es = true → finiteFloats es = true →
    (∀ y, sizeOf y < sizeOf es → P env L y) → n0 ≤ n →
    EntRel env n0 (.basic bk) V pre done → entriesHaveType env (.basic bk) V pre = true →
    keysDistinct (sapp pre es) = true →
    ∃ done' n', n ≤ n' ∧ EntRel env n0 (.basic bk) V (sapp pre es) done' ∧
      evalBody env L (entriesLitG env L bk V es k) ⟨.map a done, keys⟩ n
        = evalBody env L k ⟨.map a done', keys⟩ n' := by
  intro es
  induction es with
  | snil =>
    intro pre done n _ _ _ _ hr hpre _
    refine ⟨done, n, Nat.le_refl _, ?_, by rw [entriesLitG.eq_def]⟩
    rw [sapp_snil_of_entries pre hpre]; exact hr
  | scons e r _ ihr =>
    intro pre done n ht hfin hP hn hr hpre hd
    rcases entriesHaveType_inv ht with h0 | ⟨key, v, r', he, hk, hv, hrt⟩
    · cases h0
    · cases he
      obtain ⟨hf1, hf2⟩ := finite_scons hfin
      obtain ⟨hfk, hfv⟩ := finite_pair hf1
      have hPr : ∀ y, sizeOf y < sizeOf r → P env L y := fun y hy => hP y (by simp; omega)
      have hkb := hk
      rw [hasType_basic (b := bk) rfl] at hkb
      obtain ⟨k', hk', hrk⟩ := leaf_eval (env := env) (n0 := n0) hL hkb hfk n
      obtain ⟨v', n1, hv', hn1, hrv⟩ := (hP v (by simp; omega)).top V n0 hv hfv {} n hn
      have hset := mapSet_step (v' := v') hf (by simp [canEqual]) hk hrk hr hpre hd
      rw [entriesLitG.eq_1, evalBody.eq_1, evalStmt.eq_10, hk']
      simp only [call_eval, hv', hset, Res.bind_ok]
      obtain ⟨done', n', hn', hrs, hev⟩ := ihr (sapp pre (.scons (.pair key v) .snil))
        (sapp done (.scons (.pair k' v') .snil)) n1 hrt hf2 hPr (Nat.le_trans hn hn1)
        (EntRel.snoc hrk hrv pre done hr) (entriesHaveType_snoc hk hv pre hpre)
        (by rw [sapp_single_assoc]; exact hd)
      rw [sapp_single_assoc] at hrs
      exact ⟨done', n', Nat.le_trans hn1 hn', hrs, hev⟩
  | _ => intro pre done n ht; simp [entriesHaveType] at ht

theorem entriesVar_loop (hf : env.flagsOk = true) {n0 : Nat} (k : G τ) (a : Nat)
    (K V : Ty) (hc : canEqual env K = true) : ∀ (es pre done : Val) (i n : Nat) (keys : List (Nat × Val)),
    entriesHaveType env K V es = true → finiteFloats es = true →
    (∀ y, sizeOf y < sizeOf es → P env L y) → n0 ≤ n →
    EntRel env n0 K V pre done → entriesHaveType env K V pre = true →
    keysDistinct (sapp pre es) = true →
    ∃ done' n' keys', n ≤ n' ∧ EntRel env n0 K V (sapp pre es) done' ∧
      evalBody env L (entriesVarG env L K V es i k) ⟨.map a done, keys⟩ n
        = evalBody env L k ⟨.map a done', keys'⟩ n' := by
  intro es
  induction es with
  | snil =>
    intro pre done i n keys _ _ _ _ hr hpre _
    refine ⟨done, n, keys, Nat.le_refl _, ?_, by rw [entriesVarG.eq_def]⟩
    rw [sapp_snil_of_entries pre hpre]; exact hr
  | scons e r _ ihr =>
    intro pre done i n keys ht hfin hP hn hr hpre hd
    rcases entriesHaveType_inv ht with h0 | ⟨key, v, r', he, hk, hv, hrt⟩
    · cases h0
    · cases he
      obtain ⟨hf1, hf2⟩ := finite_scons hfin
      obtain ⟨hfk, hfv⟩ := finite_pair hf1
      have hPr : ∀ y, sizeOf y < sizeOf r → P env L y := fun y hy => hP y (by simp; omega)
      obtain ⟨k', n1, hk', hn1, hrk⟩ := (hP key (by simp; omega)).top K n0 hk hfk {} n hn
      obtain ⟨v', n2, hv', hn2, hrv⟩ :=
        (hP v (by simp; omega)).top V n0 hv hfv {} n1 (Nat.le_trans hn hn1)
      have hset := mapSet_step (v' := v') hf hc hk hrk hr hpre hd
      rw [entriesVarG.eq_1, evalBody.eq_1, evalStmt.eq_11]
      simp only [call_eval, hk', Res.bind_ok]
      rw [evalBody.eq_1, evalStmt.eq_12]
      simp only [List.lookup_cons_self, call_eval, hv', hset, Res.bind_ok]
      obtain ⟨done', n', keys', hn', hrs, hev⟩ := ihr (sapp pre (.scons (.pair key v) .snil))
        (sapp done (.scons (.pair k' v') .snil)) (i + 1) n2 ((i, k') :: keys) hrt hf2 hPr
        (Nat.le_trans hn (Nat.le_trans hn1 hn2))
        (EntRel.snoc hrk hrv pre done hr) (entriesHaveType_snoc hk hv pre hpre)
        (by rw [sapp_single_assoc]; exact hd)
      rw [sapp_single_assoc] at hrs
      exact ⟨done', n', keys', Nat.le_trans hn1 (Nat.le_trans hn2 hn'), hrs, hev⟩
  | _ => intro pre done i n keys ht; simp [entriesHaveType] at ht

/-! ## Shape of `top` / `field` once the underlying type is known -/

theorem top_basic {T : Ty} {b : Basic} (hU : env.under T = .basic b) (x : Val) :
    top env L T x = .ret (.leaf b (L.print b x)) := by
  rw [top.eq_def]; simp only [hU]

theorem top_ptr_nil {T R : Ty} (hU : env.under T = .ptr R) : top env L T .nilv = .retNil := by
  rw [top.eq_def]; simp only [hU]

theorem top_ptr_struct {T R fs : Ty} (hU : env.under T = .ptr R) (hR : env.under R = .struct fs)
    (a : Nat) (xs : Val) :
    top env L T (.ptr a (.struct xs)) =
      if isExternal env R && (privMaskOf env R).any id then .bad
      else if fs = .fnil then .ret (.addrEmpty R)
      else .seq (.newStruct R) (fieldsG env L fs (privMaskOf env R) xs 0 .retThis) := by
  rw [top.eq_def]; simp only [hU, hR]

theorem top_ptr_other {T R : Ty} (hU : env.under T = .ptr R) (hR : ∀ fs, env.under R ≠ .struct fs)
    (a : Nat) (y : Val) :
    top env L T (.ptr a y) = .seq (.newPtr R) (.seq (field env L R y .deref) .retThis) := by
  rw [top.eq_def]; simp only [hU]   -- the catch-all branch: its side condition is `hR`

theorem top_struct {T fs : Ty} (hU : env.under T = .struct fs) (xs : Val) :
    top env L T (.struct xs) = .seq (.newStruct T) (fieldsG env L fs (privMaskOf env T) xs 0 .retDeref) := by
  rw [top.eq_def]; simp only [hU]

theorem top_slice_nil {T E : Ty} (hU : env.under T = .slice E) : top env L T .nilv = .retNil := by
  rw [top.eq_def]; simp only [hU]

theorem top_slice_basic {T E : Ty} {b : Basic} (hU : env.under T = .slice E) (hB : isBasicTy E = some b)
    (a sp : Nat) (xs : Val) : top env L T (.slice a sp xs) = .ret (.sliceLit T (leaves L b xs)) := by
  rw [top.eq_def]; simp only [hU, hB]

theorem top_slice_other {T E : Ty} (hU : env.under T = .slice E) (hB : isBasicTy E = none)
    (a sp : Nat) (xs : Val) :
    top env L T (.slice a sp xs) = .seq (.makeSlice T xs.slen) (elemsG env L E xs 0 .retThis) := by
  rw [top.eq_def]; simp only [hU, hB]

theorem top_array_basic {T E : Ty} {m : Nat} {b : Basic} (hU : env.under T = .array m E)
    (hB : isBasicTy E = some b) (xs : Val) :
    top env L T (.arr xs) = .ret (.arrayLit T (leaves L b xs)) := by
  rw [top.eq_def]; simp only [hU, hB]

theorem top_array_other {T E : Ty} {m : Nat} (hU : env.under T = .array m E)
    (hB : isBasicTy E = none) (xs : Val) :
    top env L T (.arr xs) = .seq (.arrZero T) (elemsG env L E xs 0 .retThis) := by
  rw [top.eq_def]; simp only [hU, hB]

theorem top_map_nil {T K V : Ty} (hU : env.under T = .map K V) : top env L T .nilv = .retNil := by
  rw [top.eq_def]; simp only [hU]

theorem top_map_lit {T K V : Ty} {bk bv : Basic} (hU : env.under T = .map K V)
    (hK : isBasicTy K = some bk) (hV : isBasicTy V = some bv) (a : Nat) (es : Val) :
    top env L T (.map a es) = .ret (.mapLit T (entryLeaves L bk bv es)) := by
  rw [top.eq_def]; simp only [hU, hK, hV]

theorem top_map_keylit {T K V : Ty} {bk : Basic} (hU : env.under T = .map K V)
    (hK : isBasicTy K = some bk) (hV : isBasicTy V = none) (a : Nat) (es : Val) :
    top env L T (.map a es) = .seq (.makeMap T) (entriesLitG env L bk V es .retThis) := by
  rw [top.eq_def]; simp only [hU, hK, hV]

theorem top_map_keyvar {T K V : Ty} (hU : env.under T = .map K V)
    (hK : isBasicTy K = none) (a : Nat) (es : Val) :
    top env L T (.map a es) = .seq (.makeMap T) (entriesVarG env L K V es 0 .retThis) := by
  rw [top.eq_def]; simp only [hU, hK]

theorem field_basic {F : Ty} {b : Basic} (hU : env.under F = .basic b) (x : Val) (tgt : Tgt) :
    field env L F x tgt = assign tgt (.leaf b (L.print b x)) := by
  rw [field.eq_def]; simp only [hU]

theorem field_nil {F : Ty} (hU : (∃ R, env.under F = .ptr R) ∨ (∃ E, env.under F = .slice E) ∨
    ∃ K V, env.under F = .map K V) (tgt : Tgt) : field env L F .nilv tgt = .skip := by
  rw [field.eq_def]
  rcases hU with ⟨R, h⟩ | ⟨E, h⟩ | ⟨K, V, h⟩ <;> simp only [h]

theorem field_ptr_basic {F R : Ty} {b : Basic} (hU : env.under F = .ptr R) (hB : isBasicTy R = some b)
    (a : Nat) (y : Val) (tgt : Tgt) :
    field env L F (.ptr a y) tgt = assign tgt (.addrOf b (.leaf b (L.print b y))) := by
  rw [field.eq_def]; simp only [hU, hB]

theorem field_ptr_other {F R : Ty} (hU : env.under F = .ptr R) (hB : isBasicTy R = none)
    (a : Nat) (y : Val) (tgt : Tgt) :
    field env L F (.ptr a y) tgt = assign tgt (.call (.ptr R) (top env L (.ptr R) (.ptr a y))) := by
  rw [field.eq_def]; simp only [hU, hB]

theorem field_slice_basic {F E : Ty} {b : Basic} (hU : env.under F = .slice E)
    (hB : isBasicTy E = some b) (a sp : Nat) (xs : Val) (tgt : Tgt) :
    field env L F (.slice a sp xs) tgt = assign tgt (.sliceLit F (leaves L b xs)) := by
  rw [field.eq_def]; simp only [hU, hB]

theorem field_slice_other {F E : Ty} (hU : env.under F = .slice E) (hB : isBasicTy E = none)
    (a sp : Nat) (xs : Val) (tgt : Tgt) :
    field env L F (.slice a sp xs) tgt = assign tgt (.call F (top env L F (.slice a sp xs))) := by
  rw [field.eq_def]; simp only [hU, hB]

theorem field_array_basic {F E : Ty} {m : Nat} {b : Basic} (hU : env.under F = .array m E)
    (hB : isBasicTy E = some b) (xs : Val) (tgt : Tgt) :
    field env L F (.arr xs) tgt = assign tgt (.arrayLit F (leaves L b xs)) := by
  rw [field.eq_def]; simp only [hU, hB]

theorem field_array_other {F E : Ty} {m : Nat} (hU : env.under F = .array m E)
    (hB : isBasicTy E = none) (xs : Val) (tgt : Tgt) :
    field env L F (.arr xs) tgt = assign tgt (.call F (top env L F (.arr xs))) := by
  rw [field.eq_def]; simp only [hU, hB]

theorem field_map_lit {F K V : Ty} {bk bv : Basic} (hU : env.under F = .map K V)
    (hK : isBasicTy K = some bk) (hV : isBasicTy V = some bv) (a : Nat) (es : Val) (tgt : Tgt) :
    field env L F (.map a es) tgt = assign tgt (.mapLit F (entryLeaves L bk bv es)) := by
  rw [field.eq_def]; simp only [hU, hK, hV]

theorem field_map_other {F K V : Ty} (hU : env.under F = .map K V)
    (hKV : isBasicTy K = none ∨ isBasicTy V = none) (a : Nat) (es : Val) (tgt : Tgt) :
    field env L F (.map a es) tgt = assign tgt (.call F (top env L F (.map a es))) := by
  rw [field.eq_def]; simp only [hU]
  rcases hKV with h | h
  · simp only [h]
  · cases hK : isBasicTy K <;> simp only [h]

theorem field_struct {F fs : Ty} (hU : env.under F = .struct fs) (x : Val) (tgt : Tgt) :
    field env L F x tgt = assign tgt (.call F (top env L F x)) := by
  rw [field.eq_def]; simp only [hU]

theorem isBasicTy_some {E : Ty} {b : Basic} (h : isBasicTy E = some b) : E = .basic b := by
  cases E <;> simp [isBasicTy] at h; rw [h]

/-! ## Building `Rel1` for each type constructor -/

theorem rel1_nil {n0 : Nat} {T : Ty} (hU : (∃ R, env.under T = .ptr R) ∨ (∃ E, env.under T = .slice E) ∨
    ∃ K V, env.under T = .map K V) : Rel1 env n0 T .nilv .nilv := by
  refine ⟨?_, ?_, by simp [addrs]⟩
  · rw [hasType.eq_def]; rcases hU with ⟨R, h⟩ | ⟨E, h⟩ | ⟨K, V, h⟩ <;> simp only [h]
  · rw [Spec.structEq.eq_def]; rcases hU with ⟨R, h⟩ | ⟨E, h⟩ | ⟨K, V, h⟩ <;> simp only [h]

theorem rel1_ptr {n0 a a' : Nat} {T R : Ty} {y y' : Val} (hU : env.under T = .ptr R)
    (h : Rel1 env n0 R y y') (ha : n0 ≤ a') : Rel1 env n0 T (.ptr a y) (.ptr a' y') := by
  refine ⟨?_, ?_, ?_⟩
  · rw [hasType.eq_def]; simp only [hU]; exact h.1
  · rw [structEq_ptr hU]; exact h.2.1
  · intro b hb
    simp only [addrs, List.mem_cons] at hb
    rcases hb with rfl | hb
    · exact ha
    · exact h.2.2 b hb

theorem rel1_slice {n0 a sp a' : Nat} {T E : Ty} {xs ys : Val} (hU : env.under T = .slice E)
    (h : SeqRel env n0 E xs ys) (ha : n0 ≤ a') : Rel1 env n0 T (.slice a sp xs) (.slice a' 0 ys) := by
  obtain ⟨h1, h2, h3, _⟩ := h.out
  refine ⟨?_, ?_, ?_⟩
  · rw [hasType.eq_def]; simp only [hU]; exact h1
  · rw [structEq_slice hU]; exact h2
  · intro b hb
    simp only [addrs, List.mem_cons] at hb
    rcases hb with rfl | hb
    · exact ha
    · exact h3 b hb

theorem rel1_arr {n0 m : Nat} {T E : Ty} {xs ys : Val} (hU : env.under T = .array m E)
    (h : SeqRel env n0 E xs ys) (hl : xs.slen = m) : Rel1 env n0 T (.arr xs) (.arr ys) := by
  obtain ⟨h1, h2, h3, h4⟩ := h.out
  refine ⟨?_, ?_, ?_⟩
  · rw [hasType.eq_def]; simp only [hU, Bool.and_eq_true, beq_iff_eq]; exact ⟨by rw [h4, hl], h1⟩
  · rw [structEq_array hU]; exact h2
  · intro b hb
    simp only [addrs] at hb
    exact h3 b hb

theorem rel1_struct {n0 : Nat} {T fs : Ty} {xs ys : Val} (hU : env.under T = .struct fs)
    (h : FldRel env n0 fs xs ys) : Rel1 env n0 T (.struct xs) (.struct ys) := by
  obtain ⟨h1, h2, h3⟩ := h.out
  refine ⟨?_, ?_, ?_⟩
  · rw [hasType.eq_def]; simp only [hU]; exact h1
  · rw [structEq_struct hU]; exact h2
  · intro b hb
    simp only [addrs] at hb
    exact h3 b hb

theorem rel1_map (hf : env.flagsOk = true) {n0 a a' : Nat} {T K V : Ty} {es ys : Val}
    (hU : env.under T = .map K V) (hc : canEqual env K = true)
    (ht : entriesHaveType env K V es = true) (hd : keysDistinct es = true)
    (h : EntRel env n0 K V es ys) (ha : n0 ≤ a') : Rel1 env n0 T (.map a es) (.map a' ys) := by
  obtain ⟨h1, h2, h3, h4⟩ := h.out
  refine ⟨?_, ?_, ?_⟩
  · rw [hasType.eq_def]; simp only [hU, Bool.and_eq_true]
    exact ⟨⟨hc, h1⟩, keysDistinct_rel hf hc es ys h ht hd⟩
  · rw [structEq_map hU]; simp only [Bool.and_eq_true, beq_iff_eq]; exact ⟨h2.symm, h3⟩
  · intro b hb
    simp only [addrs, List.mem_cons] at hb
    rcases hb with rfl | hb
    · exact ha
    · exact h4 b hb

/-! ## "Exported fields" and zero values -/

theorem getD_of_all_false : ∀ (l : List Bool) (i : Nat), (l.all fun p => !p) = true → l.getD i false = false := by
  intro l
  induction l with
  | nil => intro i _; simp
  | cons h t iht =>
    intro i hl
    simp only [List.all_cons, Bool.and_eq_true, Bool.not_eq_true'] at hl
    cases i with
    | zero => simpa using hl.1
    | succ j => simpa using iht j hl.2

theorem any_of_all_false : ∀ (l : List Bool), (l.all fun p => !p) = true → l.any id = false := by
  intro l
  induction l with
  | nil => intro _; rfl
  | cons h t iht =>
    intro hl
    simp only [List.all_cons, Bool.and_eq_true, Bool.not_eq_true'] at hl
    simp [hl.1, iht hl.2]

theorem privMask_all_false (hexp : ExportedOnly env = true) (T : Ty) :
    ((privMaskOf env T).all fun p => !p) = true := by
  cases T with
  | named i =>
    simp only [privMaskOf]
    cases hd : env.decl? i with
    | none => rfl
    | some d =>
      have hm := Env.decl_mem hd
      unfold ExportedOnly at hexp
      rw [List.all_eq_true] at hexp
      exact hexp d hm
  | _ => rfl

theorem exportedAt_ok (hexp : ExportedOnly env = true) (T : Ty) (i : Nat) :
    exportedAt (privMaskOf env T) i = true := by
  unfold exportedAt; rw [getD_of_all_false _ i (privMask_all_false hexp T)]; rfl

theorem not_bad (hexp : ExportedOnly env = true) (R : Ty) :
    (isExternal env R && (privMaskOf env R).any id) = false := by
  rw [any_of_all_false _ (privMask_all_false hexp R)]; simp

theorem zero1_of_zero0_nil {R : Ty} (h : zero0 env R = .nilv) : zero1 env R = .nilv := by
  unfold zero1
  split
  · next m E hU => unfold zero0 at h; simp [hU] at h
  · next fs hU => unfold zero0 at h; simp [hU] at h
  · exact h

theorem zero1_struct {T fs : Ty} (hU : env.under T = .struct fs) :
    zero1 env T = .struct (zeroFields env fs) := by
  unfold zero1; simp only [hU]

theorem zero1_array {T E : Ty} {m : Nat} (hU : env.under T = .array m E) :
    zero1 env T = .arr (sreplicate m (zero0 env E)) := by
  unfold zero1; simp only [hU]

theorem zero0_nil {F : Ty} (hU : (∃ R, env.under F = .ptr R) ∨ (∃ E, env.under F = .slice E) ∨
    ∃ K V, env.under F = .map K V) : zero0 env F = .nilv := by
  unfold zero0
  rcases hU with ⟨R, h⟩ | ⟨E, h⟩ | ⟨K, V, h⟩ <;> simp only [h]

/-! ## The induction step: `top` -/

theorem step_top (hf : env.flagsOk = true) (hL : L.Round) (hexp : ExportedOnly env = true) (x : Val)
    (ih : ∀ z, sizeOf z < sizeOf x → P env L z) :
    ∀ T n0, hasType env T x = true → finiteFloats x = true → BodyOK env L n0 T x (top env L T x) := by
  intro T n0 ht hfin fr n hn
  cases hU : env.under T with
  | basic b =>
    rw [top_basic hU, evalBody.eq_5]
    rw [hasType_basic hU] at ht
    obtain ⟨v', hv, hrel⟩ := leaf_eval (env := env) (n0 := n0) hL ht hfin n
    exact ⟨v', n, hv, Nat.le_refl _, hrel.congr (by rw [hU]; rfl)⟩
  | ptr R =>
    rcases hasType_ptr_inv hU ht with rfl | ⟨a, y, rfl, hy⟩
    · rw [top_ptr_nil hU, evalBody.eq_4]
      exact ⟨.nilv, n, rfl, Nat.le_refl _, rel1_nil (Or.inl ⟨R, hU⟩)⟩
    · have hfy : finiteFloats y = true := by simpa [finiteFloats] using hfin
      by_cases hS : ∃ fs, env.under R = .struct fs
      · obtain ⟨fs, hR⟩ := hS
        obtain ⟨xs, rfl, hxs⟩ := hasType_struct_inv hR hy
        have hfxs : finiteFloats xs = true := by simpa [finiteFloats] using hfy
        rw [top_ptr_struct hU hR, not_bad hexp R]
        by_cases hfs : fs = .fnil
        · subst hfs
          have hx0 : xs = .snil := by
            cases xs <;> simp [fieldsHaveType] at hxs
            rfl
          subst hx0
          simp only [Bool.false_eq_true, if_false, if_true]
          rw [evalBody.eq_5, evalE.eq_6]
          exact ⟨.ptr n (.struct .snil), n + 1, rfl, Nat.le_succ _,
            rel1_ptr hU (rel1_struct hR (by simp [FldRel])) hn⟩
        · simp only [Bool.false_eq_true, if_false, hfs]
          rw [evalBody.eq_1, evalStmt.eq_2]
          simp only [Res.bind_ok]
          rw [zero1_struct hR]
          obtain ⟨ys, n', hn', hrs, hev⟩ := fields_loop (exportedAt_ok hexp R) (n0 := n0) .retThis n fr.keys
            fs xs .snil (n + 1) hxs hfxs (fun z hz => ih z (by simp; omega)) (by omega)
          rw [evalBody.eq_2] at hev
          exact ⟨.ptr n (.struct ys), n', hev, by omega, rel1_ptr hU (rel1_struct hR hrs) hn⟩
      · have hR : ∀ fs, env.under R ≠ .struct fs := fun fs h => hS ⟨fs, h⟩
        rw [top_ptr_other hU hR, evalBody.eq_1, evalStmt.eq_3]
        simp only [Res.bind_ok]
        rw [evalBody.eq_1]
        rcases (ih y (by simp; omega)).field R n0 hy hfy with ⟨hskip, hz, hrel⟩ | ⟨e, he, hok⟩
        · rw [hskip, evalStmt.eq_1]
          simp only [Res.bind_ok]
          rw [evalBody.eq_2, zero1_of_zero0_nil hz]
          exact ⟨.ptr n .nilv, n + 1, rfl, by omega, rel1_ptr hU hrel hn⟩
        · obtain ⟨v', n1, hv, hn1, hrel⟩ := hok (n + 1) (by omega)
          rw [he]
          simp only [assign]
          rw [setDeref_eval hv]
          simp only [Res.bind_ok]
          rw [evalBody.eq_2]
          exact ⟨.ptr n v', n1, rfl, by omega, rel1_ptr hU hrel hn⟩
  | struct fs =>
    obtain ⟨xs, rfl, hxs⟩ := hasType_struct_inv hU ht
    have hfxs : finiteFloats xs = true := by simpa [finiteFloats] using hfin
    rw [top_struct hU, evalBody.eq_1, evalStmt.eq_2]
    simp only [Res.bind_ok]
    rw [zero1_struct hU]
    obtain ⟨ys, n', hn', hrs, hev⟩ := fields_loop (exportedAt_ok hexp T) (n0 := n0) .retDeref n fr.keys
      fs xs .snil (n + 1) hxs hfxs (fun z hz => ih z (by simp; omega)) (by omega)
    rw [evalBody.eq_3] at hev
    exact ⟨.struct ys, n', hev, by omega, rel1_struct hU hrs⟩
  | slice E =>
    rcases hasType_slice_inv hU ht with rfl | ⟨a, sp, xs, rfl, hxs⟩
    · rw [top_slice_nil hU, evalBody.eq_4]
      exact ⟨.nilv, n, rfl, Nat.le_refl _, rel1_nil (Or.inr (Or.inl ⟨E, hU⟩))⟩
    · have hfxs : finiteFloats xs = true := by simpa [finiteFloats] using hfin
      cases hB : isBasicTy E with
      | some b =>
        have hE := isBasicTy_some hB
        subst hE
        obtain ⟨ys, hys, hrs⟩ := leaves_eval (env := env) (n0 := n0) hL xs hxs hfxs n
        rw [top_slice_basic hU hB, evalBody.eq_5, evalE.eq_2, hys]
        simp only [Res.bind_ok]
        exact ⟨.slice n 0 ys, n + 1, rfl, by omega, rel1_slice hU hrs hn⟩
      | none =>
        rw [top_slice_other hU hB, evalBody.eq_1, evalStmt.eq_4]
        simp only [hU, Res.bind_ok]
        obtain ⟨ys, n', hn', hrs, hev⟩ := elems_loop (SeqWrap.slice n 0) (n0 := n0) .retThis fr.keys E
          (zero0 env E) xs .snil (n + 1) hxs hfxs (fun z hz => ih z (by simp; omega)) (by omega)
        rw [evalBody.eq_2] at hev
        exact ⟨.slice n 0 ys, n', hev, by omega, rel1_slice hU hrs hn⟩
  | array m E =>
    obtain ⟨xs, rfl, hlen, hxs⟩ := hasType_array_inv hU ht
    have hfxs : finiteFloats xs = true := by simpa [finiteFloats] using hfin
    cases hB : isBasicTy E with
    | some b =>
      have hE := isBasicTy_some hB
      subst hE
      obtain ⟨ys, hys, hrs⟩ := leaves_eval (env := env) (n0 := n0) hL xs hxs hfxs n
      rw [top_array_basic hU hB, evalBody.eq_5, evalE.eq_3, hys]
      simp only [Res.bind_ok]
      exact ⟨.arr ys, n, rfl, Nat.le_refl _, rel1_arr hU hrs hlen⟩
    | none =>
      rw [top_array_other hU hB, evalBody.eq_1, evalStmt.eq_6]
      simp only [Res.bind_ok]
      rw [zero1_array hU, ← hlen]
      obtain ⟨ys, n', hn', hrs, hev⟩ := elems_loop SeqWrap.arr (n0 := n0) .retThis fr.keys E
        (zero0 env E) xs .snil n hxs hfxs (fun z hz => ih z (by simp; omega)) hn
      rw [evalBody.eq_2] at hev
      exact ⟨.arr ys, n', hev, hn', rel1_arr hU hrs hlen⟩
  | map K V =>
    rcases hasType_map_inv hU ht with rfl | ⟨a, es, rfl, hc, hes, hd⟩
    · rw [top_map_nil hU, evalBody.eq_4]
      exact ⟨.nilv, n, rfl, Nat.le_refl _, rel1_nil (Or.inr (Or.inr ⟨K, V, hU⟩))⟩
    · have hfes : finiteFloats es = true := by simpa [finiteFloats] using hfin
      have h0 : entriesHaveType env K V .snil = true := by rw [entriesHaveType.eq_def]
      cases hK : isBasicTy K with
      | some bk =>
        have hKe := isBasicTy_some hK
        subst hKe
        cases hV : isBasicTy V with
        | some bv =>
          have hVe := isBasicTy_some hV
          subst hVe
          obtain ⟨ys, hys, hrs⟩ := entryLeaves_eval (env := env) (n0 := n0) hL es hes hfes n
          rw [top_map_lit hU hK hV, evalBody.eq_5, evalE.eq_4, hys]
          simp only [Res.bind_ok, keysDistinct_rel hf hc es ys hrs hes hd, if_true]
          exact ⟨.map n ys, n + 1, rfl, by omega, rel1_map hf hU hc hes hd hrs hn⟩
        | none =>
          rw [top_map_keylit hU hK hV, evalBody.eq_1, evalStmt.eq_5]
          simp only [Res.bind_ok]
          obtain ⟨ys, n', hn', hrs, hev⟩ := entriesLit_loop hf hL (n0 := n0) .retThis n fr.keys bk V es
            .snil .snil (n + 1) hes hfes (fun z hz => ih z (by simp; omega)) (by omega)
            (by simp [EntRel]) h0 hd
          rw [evalBody.eq_2] at hev
          exact ⟨.map n ys, n', hev, by omega, rel1_map hf hU hc hes hd hrs hn⟩
      | none =>
        rw [top_map_keyvar hU hK, evalBody.eq_1, evalStmt.eq_5]
        simp only [Res.bind_ok]
        obtain ⟨ys, n', keys', hn', hrs, hev⟩ := entriesVar_loop hf (n0 := n0) .retThis n K V hc es
          .snil .snil 0 (n + 1) fr.keys hes hfes (fun z hz => ih z (by simp; omega)) (by omega)
          (by simp [EntRel]) h0 hd
        rw [evalBody.eq_2] at hev
        exact ⟨.map n ys, n', hev, by omega, rel1_map hf hU hc hes hd hrs hn⟩
  | _ => rw [hasType_bad (by rw [hU])] at ht; cases ht

/-! ## The induction step: `field` -/

/-- a helper call `func() F { top F x }()` evaluates like the body -/
theorem call_ok {n0 : Nat} {F : Ty} {x : Val} (h : BodyOK env L n0 F x (top env L F x)) :
    ExprOK env L n0 F x (.call F (top env L F x)) := by
  intro n hn
  rw [call_eval]
  exact h {} n hn

theorem step_field (hf : env.flagsOk = true) (hL : L.Round) (x : Val)
    (htop : ∀ T n0, hasType env T x = true → finiteFloats x = true → BodyOK env L n0 T x (top env L T x)) :
    ∀ F n0, hasType env F x = true → finiteFloats x = true →
      ((∀ tgt, field env L F x tgt = .skip) ∧ zero0 env F = .nilv ∧ Rel1 env n0 F x .nilv) ∨
      ∃ e, (∀ tgt, field env L F x tgt = assign tgt e) ∧ ExprOK env L n0 F x e := by
  intro F n0 ht hfin
  cases hU : env.under F with
  | basic b =>
    refine Or.inr ⟨_, field_basic hU x, ?_⟩
    intro n _
    rw [hasType_basic hU] at ht
    obtain ⟨v', hv, hrel⟩ := leaf_eval (env := env) (n0 := n0) hL ht hfin n
    exact ⟨v', n, hv, Nat.le_refl _, hrel.congr (by rw [hU]; rfl)⟩
  | ptr R =>
    have hN : (∃ R, env.under F = .ptr R) ∨ (∃ E, env.under F = .slice E) ∨ ∃ K V, env.under F = .map K V :=
      Or.inl ⟨R, hU⟩
    rcases hasType_ptr_inv hU ht with rfl | ⟨a, y, rfl, hy⟩
    · exact Or.inl ⟨field_nil hN, zero0_nil hN, rel1_nil hN⟩
    · have hfy : finiteFloats y = true := by simpa [finiteFloats] using hfin
      cases hB : isBasicTy R with
      | some b =>
        have hE := isBasicTy_some hB
        subst hE
        refine Or.inr ⟨_, field_ptr_basic hU hB a y, ?_⟩
        intro n hn
        rw [hasType_basic (b := b) rfl] at hy
        obtain ⟨v', hv, hrel⟩ := leaf_eval (env := env) (n0 := n0) hL hy hfy n
        rw [evalE.eq_5, hv]
        simp only [Res.bind_ok]
        exact ⟨.ptr n v', n + 1, rfl, by omega, rel1_ptr hU hrel hn⟩
      | none =>
        refine Or.inr ⟨_, field_ptr_other hU hB a y, ?_⟩
        have hc : env.under F = env.under (.ptr R) := by rw [hU]; rfl
        have ht' : hasType env (.ptr R) (.ptr a y) = true := by rw [← hasType_congr hc]; exact ht
        intro n hn
        obtain ⟨v', n', hv, hn', hrel⟩ := call_ok (htop (.ptr R) n0 ht' hfin) n hn
        exact ⟨v', n', hv, hn', hrel.congr hc.symm⟩
  | slice E =>
    have hN : (∃ R, env.under F = .ptr R) ∨ (∃ E, env.under F = .slice E) ∨ ∃ K V, env.under F = .map K V :=
      Or.inr (Or.inl ⟨E, hU⟩)
    rcases hasType_slice_inv hU ht with rfl | ⟨a, sp, xs, rfl, hxs⟩
    · exact Or.inl ⟨field_nil hN, zero0_nil hN, rel1_nil hN⟩
    · have hfxs : finiteFloats xs = true := by simpa [finiteFloats] using hfin
      cases hB : isBasicTy E with
      | some b =>
        have hE := isBasicTy_some hB
        subst hE
        refine Or.inr ⟨_, field_slice_basic hU hB a sp xs, ?_⟩
        intro n hn
        obtain ⟨ys, hys, hrs⟩ := leaves_eval (env := env) (n0 := n0) hL xs hxs hfxs n
        rw [evalE.eq_2, hys]
        simp only [Res.bind_ok]
        exact ⟨.slice n 0 ys, n + 1, rfl, by omega, rel1_slice hU hrs hn⟩
      | none => exact Or.inr ⟨_, field_slice_other hU hB a sp xs, call_ok (htop F n0 ht hfin)⟩
  | array m E =>
    obtain ⟨xs, rfl, hlen, hxs⟩ := hasType_array_inv hU ht
    have hfxs : finiteFloats xs = true := by simpa [finiteFloats] using hfin
    cases hB : isBasicTy E with
    | some b =>
      have hE := isBasicTy_some hB
      subst hE
      refine Or.inr ⟨_, field_array_basic hU hB xs, ?_⟩
      intro n _
      obtain ⟨ys, hys, hrs⟩ := leaves_eval (env := env) (n0 := n0) hL xs hxs hfxs n
      rw [evalE.eq_3, hys]
      simp only [Res.bind_ok]
      exact ⟨.arr ys, n, rfl, Nat.le_refl _, rel1_arr hU hrs hlen⟩
    | none => exact Or.inr ⟨_, field_array_other hU hB xs, call_ok (htop F n0 ht hfin)⟩
  | map K V =>
    have hN : (∃ R, env.under F = .ptr R) ∨ (∃ E, env.under F = .slice E) ∨ ∃ K V, env.under F = .map K V :=
      Or.inr (Or.inr ⟨K, V, hU⟩)
    rcases hasType_map_inv hU ht with rfl | ⟨a, es, rfl, hc, hes, hd⟩
    · exact Or.inl ⟨field_nil hN, zero0_nil hN, rel1_nil hN⟩
    · have hfes : finiteFloats es = true := by simpa [finiteFloats] using hfin
      cases hK : isBasicTy K with
      | some bk =>
        cases hV : isBasicTy V with
        | some bv =>
          have hKe := isBasicTy_some hK
          have hVe := isBasicTy_some hV
          subst hKe; subst hVe
          refine Or.inr ⟨_, field_map_lit hU hK hV a es, ?_⟩
          intro n hn
          obtain ⟨ys, hys, hrs⟩ := entryLeaves_eval (env := env) (n0 := n0) hL es hes hfes n
          rw [evalE.eq_4, hys]
          simp only [Res.bind_ok, keysDistinct_rel hf hc es ys hrs hes hd, if_true]
          exact ⟨.map n ys, n + 1, rfl, by omega, rel1_map hf hU hc hes hd hrs hn⟩
        | none => exact Or.inr ⟨_, field_map_other hU (Or.inr hV) a es, call_ok (htop F n0 ht hfin)⟩
      | none => exact Or.inr ⟨_, field_map_other hU (Or.inl hK) a es, call_ok (htop F n0 ht hfin)⟩
  | struct fs => exact Or.inr ⟨_, field_struct hU x, call_ok (htop F n0 ht hfin)⟩
  | _ => rw [hasType_bad (by rw [hU])] at ht; cases ht

/-- **Everything about every value.** -/
theorem allP (hf : env.flagsOk = true) (hL : L.Round) (hexp : ExportedOnly env = true) (x : Val) :
    P env L x := by
  induction x using Val.strongInduction with
  | step x ih =>
    have ht := step_top hf hL hexp x ih
    exact ⟨ht, step_field hf hL x ht⟩

end Eval

end GoString
end Goderive
