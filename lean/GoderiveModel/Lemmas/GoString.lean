/-
Helper lemmas for property C06 (derived GoString round-trips).
-/
import GoderiveModel.S.GoString
import GoderiveModel.Lemmas.Equal

namespace Goderive
namespace GoString
open Val

/-! ## The value-level lexical layer satisfies the contract -/

theorem fltIsNaN_of_finite {w b : Nat} (h : fltFinite w b = true) : fltIsNaN w b = false := by
  simp only [fltFinite, bne_iff_ne, ne_eq] at h
  simp [fltIsNaN, h]

theorem fltFinite_zero (w : Nat) : fltFinite w 0 = true := by
  simp only [fltFinite, fltExp, fltMag, expBits, bne_iff_ne, ne_eq, Nat.zero_mod, Nat.zero_div]
  split <;> decide

theorem fltKey_negzero (w : Nat) : fltKey w (2 ^ (w - 1)) = 0 := by
  simp [fltKey, fltMag]

theorem fltKey_zero (w : Nat) : fltKey w 0 = 0 := by
  simp [fltKey, fltSign, fltMag]

theorem fltEq_normZero {w b : Nat} (h : fltFinite w b = true) : fltEq w b (normZero w b) = true := by
  unfold normZero
  split
  · next hb =>
    subst hb
    simp [fltEq, fltIsNaN_of_finite h, fltIsNaN_of_finite (fltFinite_zero w), fltKey_negzero, fltKey_zero]
  · exact fltEq_refl w b (fltIsNaN_of_finite h)

theorem normZero_lt {w b : Nat} (h : b < 2 ^ w) : normZero w b < 2 ^ w := by
  unfold normZero
  split
  · exact Nat.pos_of_ne_zero (by intro h0; rw [h0] at h; omega)
  · exact h

theorem valLex_round : valLex.Round := by
  intro b v ht hfin
  refine ⟨normLeaf v, rfl, ?_, ?_⟩
  · cases b <;> cases v <;> simp_all [basicHasType, normLeaf]
    · obtain ⟨rfl, h⟩ := ht; exact normZero_lt h
    · obtain ⟨⟨rfl, h1⟩, h2⟩ := ht; exact ⟨normZero_lt h1, normZero_lt h2⟩
  · cases b <;> cases v <;> simp_all [basicHasType, normLeaf, leafEq, finiteFloats, fltEq_normZero]

/-! ## Spines -/

/-- append on `scons` spines (anything that is not a `scons` ends the left spine) -/
def sapp : Val → Val → Val
  | .scons h t, ys => .scons h (sapp t ys)
  | _, ys => ys

theorem slen_scons (h t : Val) : (Val.scons h t).slen = t.slen + 1 := rfl

theorem sapp_scons (h t ys : Val) : sapp (.scons h t) ys = .scons h (sapp t ys) := rfl

theorem setNth_sapp (v z t : Val) : ∀ pre : Val,
    setNth pre.slen v (sapp pre (.scons z t)) = some (sapp pre (.scons v t)) := by
  intro pre
  induction pre with
  | scons h r _ ihr => rw [slen_scons, sapp_scons, sapp_scons, setNth, ihr]; rfl
  | _ => rfl

theorem sapp_single_assoc (y rest : Val) : ∀ pre : Val,
    sapp (sapp pre (.scons y .snil)) rest = sapp pre (.scons y rest) := by
  intro pre
  induction pre with
  | scons h r _ ihr => rw [sapp_scons, sapp_scons, sapp_scons, ihr]
  | _ => rfl

theorem slen_sapp_single (y : Val) : ∀ pre : Val, (sapp pre (.scons y .snil)).slen = pre.slen + 1 := by
  intro pre
  induction pre with
  | scons h r _ ihr => rw [sapp_scons, slen_scons, slen_scons, ihr]
  | _ => rfl

/-! ## The relation "evaluated value `v'` is a good image of the original `v`" -/

/-- `v'` is well-typed, structurally equal to `v` (nil-ness included), and lives at addresses `≥ n0` -/
def Rel1 (env : Env) (n0 : Nat) (T : Ty) (v v' : Val) : Prop :=
  hasType env T v' = true ∧ Spec.structEq env T v v' = true ∧ ∀ a ∈ addrs v', n0 ≤ a

def SeqRel (env : Env) (n0 : Nat) (E : Ty) : Val → Val → Prop
  | .scons x r, .scons y s => Rel1 env n0 E x y ∧ SeqRel env n0 E r s
  | .snil, .snil => True
  | _, _ => False

def FldRel (env : Env) (n0 : Nat) : Ty → Val → Val → Prop
  | .fcons F rest, .scons x r, .scons y s => Rel1 env n0 F x y ∧ FldRel env n0 rest r s
  | .fnil, .snil, .snil => True
  | _, _, _ => False

def EntRel (env : Env) (n0 : Nat) (K V : Ty) : Val → Val → Prop
  | .scons (.pair k v) r, .scons (.pair k' v') s =>
    Rel1 env n0 K k k' ∧ Rel1 env n0 V v v' ∧ EntRel env n0 K V r s
  | .snil, .snil => True
  | _, _ => False

theorem Rel1.congr {env : Env} {n0 : Nat} {T T' : Ty} {v v' : Val} (h : env.under T = env.under T')
    (r : Rel1 env n0 T v v') : Rel1 env n0 T' v v' :=
  ⟨by rw [← hasType_congr h]; exact r.1, by rw [← structEq_congr h]; exact r.2.1, r.2.2⟩

theorem addrs_scons (h t : Val) : addrs (.scons h t) = addrs h ++ addrs t := by simp [addrs]

theorem SeqRel.out {env : Env} {n0 : Nat} {E : Ty} : ∀ {xs ys : Val}, SeqRel env n0 E xs ys →
    allHaveType env E ys = true ∧ Spec.seqEq env E xs ys = true ∧ (∀ a ∈ addrs ys, n0 ≤ a) ∧
      ys.slen = xs.slen := by
  intro xs
  induction xs with
  | snil =>
    intro ys h
    cases ys <;> simp [SeqRel] at h
    refine ⟨by rw [allHaveType.eq_def], by rw [Spec.seqEq.eq_def], by simp [addrs], rfl⟩
  | scons x r _ ihr =>
    intro ys h
    cases ys with
    | scons y s =>
      simp only [SeqRel] at h
      obtain ⟨h1, h2, h3, h4⟩ := ihr h.2
      refine ⟨?_, ?_, ?_, ?_⟩
      · rw [allHaveType.eq_def]; simp [h.1.1, h1]
      · rw [Spec.seqEq.eq_def]; simp [h.1.2.1, h2]
      · intro a ha
        rw [addrs_scons, List.mem_append] at ha
        cases ha with
        | inl ha => exact h.1.2.2 a ha
        | inr ha => exact h3 a ha
      · rw [slen_scons, slen_scons, h4]
    | _ => simp [SeqRel] at h
  | _ => intro ys h; simp [SeqRel] at h

theorem FldRel.out {env : Env} {n0 : Nat} : ∀ {fs : Ty} {xs ys : Val}, FldRel env n0 fs xs ys →
    fieldsHaveType env fs ys = true ∧ Spec.fieldsEq env fs xs ys = true ∧ (∀ a ∈ addrs ys, n0 ≤ a) := by
  intro fs
  induction fs with
  | fnil =>
    intro xs ys h
    cases xs <;> cases ys <;> simp [FldRel] at h
    refine ⟨by rw [fieldsHaveType.eq_def], by rw [Spec.fieldsEq.eq_def], by simp [addrs]⟩
  | fcons F rest _ ihr =>
    intro xs ys h
    cases xs with
    | scons x r =>
      cases ys with
      | scons y s =>
        simp only [FldRel] at h
        obtain ⟨h1, h2, h3⟩ := ihr h.2
        refine ⟨?_, ?_, ?_⟩
        · rw [fieldsHaveType.eq_def]; simp [h.1.1, h1]
        · rw [Spec.fieldsEq.eq_def]; simp [h.1.2.1, h2]
        · intro a ha
          rw [addrs_scons, List.mem_append] at ha
          cases ha with
          | inl ha => exact h.1.2.2 a ha
          | inr ha => exact h3 a ha
      | _ => simp [FldRel] at h
    | _ => simp [FldRel] at h
  | _ => intro xs ys h; simp [FldRel] at h

end GoString
end Goderive
