/-
Helper lemmas for property C06 (derived GoString round-trips).
-/
import GoderiveModel.S.GoString
import GoderiveModel.Lemmas.Equal

namespace Goderive
namespace GoString
open Val

/-! ## The value-level lexical layer satisfies the contract -/

theorem fltIsNaN_of_finite {w b : Nat} (h : fltFinite w b = true) : fltIsNaN w b = false := by
  simp only [fltFinite, bne_iff_ne, ne_eq] at h
  simp [fltIsNaN, h]

theorem fltFinite_zero (w : Nat) : fltFinite w 0 = true := by
  simp only [fltFinite, fltExp, fltMag, expBits, bne_iff_ne, ne_eq, Nat.zero_mod, Nat.zero_div]
  split <;> decide

theorem fltKey_negzero (w : Nat) : fltKey w (2 ^ (w - 1)) = 0 := by
  simp [fltKey, fltMag]

theorem fltKey_zero (w : Nat) : fltKey w 0 = 0 := by
  simp [fltKey, fltSign, fltMag]

theorem fltEq_normZero {w b : Nat} (h : fltFinite w b = true) : fltEq w b (normZero w b) = true := by
  unfold normZero
  split
  · next hb =>
    subst hb
    simp [fltEq, fltIsNaN_of_finite h, fltIsNaN_of_finite (fltFinite_zero w), fltKey_negzero, fltKey_zero]
  · exact fltEq_refl w b (fltIsNaN_of_finite h)

theorem normZero_lt {w b : Nat} (h : b < 2 ^ w) : normZero w b < 2 ^ w := by
  unfold normZero
  split
  · exact Nat.pos_of_ne_zero (by intro h0; rw [h0] at h; omega)
  · exact h

theorem valLex_round : valLex.Round := by
  intro b v ht hfin
  refine ⟨normLeaf v, rfl, ?_, ?_⟩
  · cases b <;> cases v <;> simp_all [basicHasType, normLeaf]
    · obtain ⟨rfl, h⟩ := ht; exact normZero_lt h
    · obtain ⟨⟨rfl, h1⟩, h2⟩ := ht; exact ⟨normZero_lt h1, normZero_lt h2⟩
  · cases b <;> cases v <;> simp_all [basicHasType, normLeaf, leafEq, finiteFloats, fltEq_normZero]

/-! ## Spines -/

/-- append on `scons` spines (anything that is not a `scons` ends the left spine) -/
def sapp : Val → Val → Val
  | .scons h t, ys => .scons h (sapp t ys)
  | _, ys => ys

theorem slen_scons (h t : Val) : (Val.scons h t).slen = t.slen + 1 := rfl

theorem sapp_scons (h t ys : Val) : sapp (.scons h t) ys = .scons h (sapp t ys) := rfl

theorem setNth_sapp (v z t : Val) : ∀ pre : Val,
    setNth pre.slen v (sapp pre (.scons z t)) = some (sapp pre (.scons v t)) := by
  intro pre
  induction pre with
  | scons h r _ ihr => rw [slen_scons, sapp_scons, sapp_scons, setNth, ihr]; rfl
  | _ => rfl

theorem sapp_single_assoc (y rest : Val) : ∀ pre : Val,
    sapp (sapp pre (.scons y .snil)) rest = sapp pre (.scons y rest) := by
  intro pre
  induction pre with
  | scons h r _ ihr => rw [sapp_scons, sapp_scons, sapp_scons, ihr]
  | _ => rfl

theorem slen_sapp_single (y : Val) : ∀ pre : Val, (sapp pre (.scons y .snil)).slen = pre.slen + 1 := by
  intro pre
  induction pre with
  | scons h r _ ihr => rw [sapp_scons, slen_scons, slen_scons, ihr]
  | _ => rfl

/-! ## The relation "evaluated value `v'` is a good image of the original `v`" -/

/-- `v'` is well-typed, structurally equal to `v` (nil-ness included), and lives at addresses `≥ n0` -/
def Rel1 (env : Env) (n0 : Nat) (T : Ty) (v v' : Val) : Prop :=
  hasType env T v' = true ∧ Spec.structEq env T v v' = true ∧ ∀ a ∈ addrs v', n0 ≤ a

def SeqRel (env : Env) (n0 : Nat) (E : Ty) : Val → Val → Prop
  | .scons x r, .scons y s => Rel1 env n0 E x y ∧ SeqRel env n0 E r s
  | .snil, .snil => True
  | _, _ => False

def FldRel (env : Env) (n0 : Nat) : Ty → Val → Val → Prop
  | .fcons F rest, .scons x r, .scons y s => Rel1 env n0 F x y ∧ FldRel env n0 rest r s
  | .fnil, .snil, .snil => True
  | _, _, _ => False

def EntRel (env : Env) (n0 : Nat) (K V : Ty) : Val → Val → Prop
  | .scons (.pair k v) r, .scons (.pair k' v') s =>
    Rel1 env n0 K k k' ∧ Rel1 env n0 V v v' ∧ EntRel env n0 K V r s
  | .snil, .snil => True
  | _, _ => False

theorem Rel1.congr {env : Env} {n0 : Nat} {T T' : Ty} {v v' : Val} (h : env.under T = env.under T')
    (r : Rel1 env n0 T v v') : Rel1 env n0 T' v v' :=
  ⟨by rw [← hasType_congr h]; exact r.1, by rw [← structEq_congr h]; exact r.2.1, r.2.2⟩

theorem addrs_scons (h t : Val) : addrs (.scons h t) = addrs h ++ addrs t := by simp [addrs]

theorem SeqRel.out {env : Env} {n0 : Nat} {E : Ty} : ∀ {xs ys : Val}, SeqRel env n0 E xs ys →
    allHaveType env E ys = true ∧ Spec.seqEq env E xs ys = true ∧ (∀ a ∈ addrs ys, n0 ≤ a) ∧
      ys.slen = xs.slen := by
  intro xs
  induction xs with
  | snil =>
    intro ys h
    cases ys <;> simp [SeqRel] at h
    refine ⟨by rw [allHaveType.eq_def], by rw [Spec.seqEq.eq_def], by simp [addrs], rfl⟩
  | scons x r _ ihr =>
    intro ys h
    cases ys with
    | scons y s =>
      simp only [SeqRel] at h
      obtain ⟨h1, h2, h3, h4⟩ := ihr h.2
      refine ⟨?_, ?_, ?_, ?_⟩
      · rw [allHaveType.eq_def]; simp [h.1.1, h1]
      · rw [Spec.seqEq.eq_def]; simp [h.1.2.1, h2]
      · intro a ha
        rw [addrs_scons, List.mem_append] at ha
        cases ha with
        | inl ha => exact h.1.2.2 a ha
        | inr ha => exact h3 a ha
      · rw [slen_scons, slen_scons, h4]
    | _ => simp [SeqRel] at h
  | _ => intro ys h; simp [SeqRel] at h

theorem FldRel.out {env : Env} {n0 : Nat} : ∀ {fs : Ty} {xs ys : Val}, FldRel env n0 fs xs ys →
    fieldsHaveType env fs ys = true ∧ Spec.fieldsEq env fs xs ys = true ∧ (∀ a ∈ addrs ys, n0 ≤ a) := by
  intro fs
  induction fs with
  | fnil =>
    intro xs ys h
    cases xs <;> cases ys <;> simp [FldRel] at h
    refine ⟨by rw [fieldsHaveType.eq_def], by rw [Spec.fieldsEq.eq_def], by simp [addrs]⟩
  | fcons F rest _ ihr =>
    intro xs ys h
    cases xs with
    | scons x r =>
      cases ys with
      | scons y s =>
        simp only [FldRel] at h
        obtain ⟨h1, h2, h3⟩ := ihr h.2
        refine ⟨?_, ?_, ?_⟩
        · rw [fieldsHaveType.eq_def]; simp [h.1.1, h1]
        · rw [Spec.fieldsEq.eq_def]; simp [h.1.2.1, h2]
        · intro a ha
          rw [addrs_scons, List.mem_append] at ha
          cases ha with
          | inl ha => exact h.1.2.2 a ha
          | inr ha => exact h3 a ha
      | _ => simp [FldRel] at h
    | _ => simp [FldRel] at h
  | _ => intro xs ys h; simp [FldRel] at h

/-! ## Map entries: images of distinct keys are distinct -/

theorem goEq_of_rel {env : Env} (hf : env.flagsOk = true) {n0 : Nat} {K : Ty} {k k' : Val}
    (hc : canEqual env K = true) (hk : hasType env K k = true) (r : Rel1 env n0 K k k') :
    goEq k k' = true := by
  rw [goEq_eq_structEq hf k' hc hk]; exact r.2.1

/-- `k ~ k'`, `kd ~ kd'` and `kd ≠ k` give `k' ≠ kd'` (Go `==` is a partial equivalence on typed values) -/
theorem key_transfer {env : Env} (hf : env.flagsOk = true) {K : Ty} {k k' kd kd' : Val}
    (hc : canEqual env K = true) (hk : hasType env K k = true) (hk' : hasType env K k' = true)
    (hd : hasType env K kd = true) (hd' : hasType env K kd' = true)
    (e1 : goEq k k' = true) (e2 : goEq kd kd' = true) (hne : goEq kd k = false) :
    goEq k' kd' = false := by
  cases h : goEq k' kd' with
  | false => rfl
  | true =>
    have h1 : goEq k kd' = true := goEq_trans hf hc hk hk' e1 h
    have h2 : goEq kd' kd = true := by rw [goEq_symm hf hc hd' hd]; exact e2
    have h3 : goEq k kd = true := goEq_trans hf hc hk hd' h1 h2
    rw [goEq_symm hf hc hk hd] at h3
    rw [h3] at hne; cases hne

/-- every key of the spine differs from `k` (the spine's keys on the left of `==`) -/
def preFresh (k : Val) : Val → Bool
  | .scons (.pair kd _) r => !goEq kd k && preFresh k r
  | _ => true

theorem keyFresh_sapp {env : Env} {K V : Ty} {kd k v r : Val} : ∀ t : Val,
    entriesHaveType env K V t = true → keyFresh kd (sapp t (.scons (.pair k v) r)) = true →
    goEq kd k = false := by
  intro t
  induction t with
  | snil => intro _ h; simp [sapp, keyFresh] at h; exact h.1
  | scons e t' _ iht =>
    intro ht h
    rcases entriesHaveType_inv ht with h0 | ⟨k1, v1, r1, he, _, _, hr⟩
    · cases h0
    · cases he
      rw [sapp_scons] at h
      simp only [keyFresh, Bool.and_eq_true] at h
      exact iht hr h.2
  | _ => intro ht; simp [entriesHaveType] at ht

theorem preFresh_of_distinct {env : Env} {K V : Ty} {k v r : Val} : ∀ pre : Val,
    entriesHaveType env K V pre = true → keysDistinct (sapp pre (.scons (.pair k v) r)) = true →
    preFresh k pre = true := by
  intro pre
  induction pre with
  | snil => intro _ _; rfl
  | scons e t _ iht =>
    intro hp h
    rcases entriesHaveType_inv hp with h0 | ⟨k1, v1, r1, he, _, _, hr⟩
    · cases h0
    · cases he
      rw [sapp_scons] at h
      simp only [keysDistinct, Bool.and_eq_true] at h
      simp only [preFresh, Bool.and_eq_true, Bool.not_eq_true']
      exact ⟨keyFresh_sapp t hr h.1, iht hr h.2⟩
  | _ => intro hp; simp [entriesHaveType] at hp

/-- backward: the image `k'` of a key that differs from every key of `pre` is absent from the images -/
theorem keyFresh_of_preFresh {env : Env} (hf : env.flagsOk = true) {n0 : Nat} {K V : Ty} {k k' : Val}
    (hc : canEqual env K = true) (hk : hasType env K k = true) (hk' : hasType env K k' = true)
    (e1 : goEq k k' = true) : ∀ pre done : Val, EntRel env n0 K V pre done →
    entriesHaveType env K V pre = true → preFresh k pre = true → keyFresh k' done = true := by
  intro pre
  induction pre with
  | snil => intro done h _ _; cases done <;> simp [EntRel] at h; rfl
  | scons e t _ iht =>
    intro done h hp hfr
    rcases entriesHaveType_inv hp with h0 | ⟨kd, vd, r1, he, hkd, _, hr⟩
    · cases h0
    · cases he
      cases done with
      | scons e' s =>
        cases e' with
        | pair kd' vd' =>
          simp only [EntRel] at h
          simp only [preFresh, Bool.and_eq_true, Bool.not_eq_true'] at hfr
          simp only [keyFresh, Bool.and_eq_true, Bool.not_eq_true']
          exact ⟨key_transfer hf hc hk hk' hkd h.1.1 e1 (goEq_of_rel hf hc hkd h.1) hfr.1,
            iht s h.2.2 hr hfr.2⟩
        | _ => simp [EntRel] at h
      | _ => simp [EntRel] at h
  | _ => intro done h; simp [EntRel] at h

/-- forward: the image of a key that differs from all later keys differs from all later images -/
theorem keyFresh_rel {env : Env} (hf : env.flagsOk = true) {n0 : Nat} {K V : Ty} {kd kd' : Val}
    (hc : canEqual env K = true) (hd : hasType env K kd = true) (hd' : hasType env K kd' = true)
    (e2 : goEq kd kd' = true) : ∀ r s : Val, EntRel env n0 K V r s →
    entriesHaveType env K V r = true → keyFresh kd r = true → keyFresh kd' s = true := by
  intro r
  induction r with
  | snil => intro s h _ _; cases s <;> simp [EntRel] at h; rfl
  | scons e t _ iht =>
    intro s h hp hfr
    rcases entriesHaveType_inv hp with h0 | ⟨k, v, r1, he, hk, _, hr⟩
    · cases h0
    · cases he
      cases s with
      | scons e' s' =>
        cases e' with
        | pair k' v' =>
          simp only [EntRel] at h
          simp only [keyFresh, Bool.and_eq_true, Bool.not_eq_true'] at hfr ⊢
          have hne : goEq k kd = false := by rw [goEq_symm hf hc hk hd]; exact hfr.1
          exact ⟨key_transfer hf hc hd hd' hk h.1.1 e2 (goEq_of_rel hf hc hk h.1) hne,
            iht s' h.2.2 hr hfr.2⟩
        | _ => simp [EntRel] at h
      | _ => simp [EntRel] at h
  | _ => intro s h; simp [EntRel] at h

theorem keysDistinct_rel {env : Env} (hf : env.flagsOk = true) {n0 : Nat} {K V : Ty}
    (hc : canEqual env K = true) : ∀ xs ys : Val, EntRel env n0 K V xs ys →
    entriesHaveType env K V xs = true → keysDistinct xs = true → keysDistinct ys = true := by
  intro xs
  induction xs with
  | snil => intro ys h _ _; cases ys <;> simp [EntRel] at h; rfl
  | scons e t _ iht =>
    intro ys h hp hd
    rcases entriesHaveType_inv hp with h0 | ⟨k, v, r1, he, hk, _, hr⟩
    · cases h0
    · cases he
      cases ys with
      | scons e' s' =>
        cases e' with
        | pair k' v' =>
          simp only [EntRel] at h
          simp only [keysDistinct, Bool.and_eq_true] at hd ⊢
          exact ⟨keyFresh_rel hf hc hk h.1.1 (goEq_of_rel hf hc hk h.1) t s' h.2.2 hr hd.1,
            iht s' h.2.2 hr hd.2⟩
        | _ => simp [EntRel] at h
      | _ => simp [EntRel] at h
  | _ => intro ys h; simp [EntRel] at h

/-! ## Map entries: what the positional relation gives -/

theorem valueAt_cons {env : Env} {K V : Ty} {k v k' w s : Val}
    (h : Spec.valueAt env K V k v s = true) :
    Spec.valueAt env K V k v (.scons (.pair k' w) s) = true := by
  rw [Spec.valueAt.eq_def]; simp [h]

theorem entriesIn_cons {env : Env} {K V : Ty} {k' w s : Val} : ∀ xs : Val,
    Spec.entriesIn env K V xs s = true → Spec.entriesIn env K V xs (.scons (.pair k' w) s) = true := by
  intro xs
  induction xs with
  | snil => intro _; rw [Spec.entriesIn.eq_def]
  | scons e t _ iht =>
    intro h
    cases e with
    | pair k v =>
      rw [Spec.entriesIn.eq_def] at h ⊢
      simp only [Bool.and_eq_true] at h ⊢
      exact ⟨valueAt_cons h.1, iht h.2⟩
    | _ => rw [Spec.entriesIn.eq_def] at h; simp at h
  | _ => intro h; rw [Spec.entriesIn.eq_def] at h; simp at h

theorem EntRel.out {env : Env} {n0 : Nat} {K V : Ty} : ∀ {xs ys : Val}, EntRel env n0 K V xs ys →
    entriesHaveType env K V ys = true ∧ ys.slen = xs.slen ∧ Spec.entriesIn env K V xs ys = true ∧
      (∀ a ∈ addrs ys, n0 ≤ a) := by
  intro xs
  induction xs with
  | snil =>
    intro ys h
    cases ys <;> simp [EntRel] at h
    exact ⟨by rw [entriesHaveType.eq_def], rfl, by rw [Spec.entriesIn.eq_def], by simp [addrs]⟩
  | scons e t _ iht =>
    intro ys h
    cases e with
    | pair k v =>
      cases ys with
      | scons e' s =>
        cases e' with
        | pair k' v' =>
          simp only [EntRel] at h
          obtain ⟨h1, h2, h3, h4⟩ := iht h.2.2
          refine ⟨?_, ?_, ?_, ?_⟩
          · rw [entriesHaveType.eq_def]; simp [h.1.1, h.2.1.1, h1]
          · rw [slen_scons, slen_scons, h2]
          · rw [Spec.entriesIn.eq_def]
            simp only [Bool.and_eq_true]
            refine ⟨?_, entriesIn_cons t h3⟩
            rw [Spec.valueAt.eq_def]; simp [h.1.2.1, h.2.1.2.1]
          · intro a ha
            simp only [addrs, List.mem_append] at ha
            rcases ha with (ha | ha) | ha
            · exact h.1.2.2 a ha
            · exact h.2.1.2.2 a ha
            · exact h4 a ha
        | _ => simp [EntRel] at h
      | _ => simp [EntRel] at h
    | _ => simp [EntRel] at h
  | _ => intro ys h; simp [EntRel] at h

theorem mapSet_fresh {env : Env} {K V : Ty} {k' v' : Val} : ∀ done : Val,
    entriesHaveType env K V done = true → keyFresh k' done = true →
    mapSet k' v' done = sapp done (.scons (.pair k' v') .snil) := by
  intro done
  induction done with
  | snil => intro _ _; rfl
  | scons e t _ iht =>
    intro hd hfr
    rcases entriesHaveType_inv hd with h0 | ⟨k, v, r1, he, _, _, hr⟩
    · cases h0
    · cases he
      simp only [keyFresh, Bool.and_eq_true, Bool.not_eq_true'] at hfr
      rw [mapSet, sapp_scons, iht hr hfr.2]
      simp [hfr.1]
  | _ => intro hd; simp [entriesHaveType] at hd

theorem EntRel.snoc {env : Env} {n0 : Nat} {K V : Ty} {k v k' v' : Val}
    (hk : Rel1 env n0 K k k') (hv : Rel1 env n0 V v v') : ∀ pre done : Val,
    EntRel env n0 K V pre done →
    EntRel env n0 K V (sapp pre (.scons (.pair k v) .snil)) (sapp done (.scons (.pair k' v') .snil)) := by
  intro pre
  induction pre with
  | snil => intro done h; cases done <;> simp [EntRel] at h; simp [sapp, EntRel, hk, hv]
  | scons e t _ iht =>
    intro done h
    cases e with
    | pair k1 v1 =>
      cases done with
      | scons e' s =>
        cases e' with
        | pair k1' v1' =>
          simp only [EntRel] at h
          rw [sapp_scons, sapp_scons]
          simp only [EntRel]
          exact ⟨h.1, h.2.1, iht s h.2.2⟩
        | _ => simp [EntRel] at h
      | _ => simp [EntRel] at h
    | _ => simp [EntRel] at h
  | _ => intro done h; simp [EntRel] at h

theorem entriesHaveType_snoc {env : Env} {K V : Ty} {k v : Val} (hk : hasType env K k = true)
    (hv : hasType env V v = true) : ∀ pre : Val, entriesHaveType env K V pre = true →
    entriesHaveType env K V (sapp pre (.scons (.pair k v) .snil)) = true := by
  intro pre
  induction pre with
  | snil =>
    intro _
    have h0 : entriesHaveType env K V .snil = true := by rw [entriesHaveType.eq_def]
    show entriesHaveType env K V (.scons (.pair k v) .snil) = true
    rw [entriesHaveType.eq_def]; simp [hk, hv, h0]
  | scons e t _ iht =>
    intro hp
    rcases entriesHaveType_inv hp with h0 | ⟨k1, v1, r1, he, hk1, hv1, hr⟩
    · cases h0
    · cases he
      rw [sapp_scons, entriesHaveType.eq_def]; simp [hk1, hv1, iht hr]
  | _ => intro hp; simp [entriesHaveType] at hp

/-! ## Evaluation of texts: specifications used by the induction -/

section Eval
variable {τ : Type} (env : Env) (L : Lex τ)

/-- the expression `e` evaluates, from any next address `n ≥ n0`, to a good image of `x : T` -/
def ExprOK (n0 : Nat) (T : Ty) (x : Val) (e : G τ) : Prop :=
  ∀ n, n0 ≤ n → ∃ v' n', evalE env L e n = .ok (v', n') ∧ n ≤ n' ∧ Rel1 env n0 T x v'

/-- the function body evaluates, in any frame, to a good image of `x : T` -/
def BodyOK (n0 : Nat) (T : Ty) (x : Val) (body : G τ) : Prop :=
  ∀ fr n, n0 ≤ n → ∃ v' n', evalBody env L body fr n = .ok (v', n') ∧ n ≤ n' ∧ Rel1 env n0 T x v'

/-- what the induction proves about a value `x`: the body printed for it at top level evaluates well,
and in component position either nothing is printed (`x` is nil and the zero value is nil) or one
assignment of a well-evaluating expression -/
structure P (x : Val) : Prop where
  top : ∀ T n0, hasType env T x = true → finiteFloats x = true → BodyOK env L n0 T x (top env L T x)
  field : ∀ F n0, hasType env F x = true → finiteFloats x = true →
    ((∀ tgt, field env L F x tgt = .skip) ∧ zero0 env F = .nilv ∧ Rel1 env n0 F x .nilv) ∨
    ∃ e, (∀ tgt, field env L F x tgt = assign tgt e) ∧ ExprOK env L n0 F x e

variable {env L}

theorem addrs_of_basic {b : Basic} {v : Val} (h : basicHasType b v = true) : addrs v = [] := by
  cases b <;> cases v <;> simp_all [basicHasType, addrs]

theorem rel1_basic {n0 : Nat} {b : Basic} {x v' : Val} (ht : basicHasType b v' = true)
    (he : leafEq x v' = true) : Rel1 env n0 (.basic b) x v' := by
  refine ⟨?_, ?_, ?_⟩
  · rw [hasType_basic (b := b) rfl]; exact ht
  · rw [structEq_basic (b := b) rfl]; exact he
  · rw [addrs_of_basic ht]; intro a ha; cases ha

theorem leaf_eval (hL : L.Round) {n0 : Nat} {b : Basic} {x : Val} (hx : basicHasType b x = true)
    (hfin : finiteFloats x = true) (n : Nat) :
    ∃ v', evalE env L (.leaf b (L.print b x)) n = .ok (v', n) ∧ Rel1 env n0 (.basic b) x v' := by
  obtain ⟨v', hp, ht, he⟩ := hL b x hx hfin
  exact ⟨v', by rw [evalE.eq_1, hp], rel1_basic ht he⟩

theorem finite_scons {h t : Val} (hf : finiteFloats (.scons h t) = true) :
    finiteFloats h = true ∧ finiteFloats t = true := by
  simpa [finiteFloats] using hf

theorem leaves_eval (hL : L.Round) {n0 : Nat} {b : Basic} : ∀ xs : Val,
    allHaveType env (.basic b) xs = true → finiteFloats xs = true → ∀ n,
    ∃ ys, evalSeq env L (leaves L b xs) n = .ok (ys, n) ∧ SeqRel env n0 (.basic b) xs ys := by
  intro xs
  induction xs with
  | snil => intro _ _ n; exact ⟨.snil, by show evalSeq env L .enil n = _; rw [evalSeq.eq_1], by simp [SeqRel]⟩
  | scons x r _ ihr =>
    intro ht hfin n
    rcases allHaveType_inv ht with h0 | ⟨a, r', he, hx, hr⟩
    · cases h0
    · cases he
      obtain ⟨hf1, hf2⟩ := finite_scons hfin
      rw [hasType_basic (b := b) rfl] at hx
      obtain ⟨v', hv, hrel⟩ := leaf_eval (env := env) (n0 := n0) hL hx hf1 n
      obtain ⟨ys, hys, hrs⟩ := ihr hr hf2 n
      refine ⟨.scons v' ys, ?_, by simp [SeqRel, hrel, hrs]⟩
      rw [leaves, evalSeq.eq_2, hv]
      simp only [Res.bind_ok, hys]
  | _ => intro ht; simp [allHaveType] at ht

theorem entryLeaves_eval (hL : L.Round) {n0 : Nat} {bk bv : Basic} : ∀ es : Val,
    entriesHaveType env (.basic bk) (.basic bv) es = true → finiteFloats es = true → ∀ n,
    ∃ ys, evalEntries env L (entryLeaves L bk bv es) n = .ok (ys, n) ∧
      EntRel env n0 (.basic bk) (.basic bv) es ys := by
  intro es
  induction es with
  | snil => intro _ _ n; exact ⟨.snil, by show evalEntries env L .enil n = _; rw [evalEntries.eq_1], by simp [EntRel]⟩
  | scons e r _ ihr =>
    intro ht hfin n
    rcases entriesHaveType_inv ht with h0 | ⟨k, v, r', he, hk, hv, hr⟩
    · cases h0
    · cases he
      obtain ⟨hf1, hf2⟩ := finite_scons hfin
      have hf1' : finiteFloats k = true ∧ finiteFloats v = true := by simpa [finiteFloats] using hf1
      rw [hasType_basic (b := bk) rfl] at hk
      rw [hasType_basic (b := bv) rfl] at hv
      obtain ⟨k', hk', hrk⟩ := leaf_eval (env := env) (n0 := n0) hL hk hf1'.1 n
      obtain ⟨v', hv', hrv⟩ := leaf_eval (env := env) (n0 := n0) hL hv hf1'.2 n
      obtain ⟨ys, hys, hrs⟩ := ihr hr hf2 n
      refine ⟨.scons (.pair k' v') ys, ?_, by simp [EntRel, hrk, hrv, hrs]⟩
      rw [entryLeaves, evalEntries.eq_2, hk']
      simp only [Res.bind_ok, hv', hys]
  | _ => intro ht; simp [entriesHaveType] at ht

/-! ## Statements against a known frame -/

theorem setField_eval {e : G τ} {n n1 i a : Nat} {v' fs fs' : Val} {keys : List (Nat × Val)}
    (h1 : evalE env L e n = .ok (v', n1)) (h2 : setNth i v' fs = some fs') :
    evalStmt env L (.setField i true e) ⟨.ptr a (.struct fs), keys⟩ n
      = .ok (⟨.ptr a (.struct fs'), keys⟩, n1) := by
  rw [evalStmt.eq_7]; simp [h1, h2]

theorem setDeref_eval {e : G τ} {n n1 a : Nat} {v' old : Val} {keys : List (Nat × Val)}
    (h1 : evalE env L e n = .ok (v', n1)) :
    evalStmt env L (.setDeref e) ⟨.ptr a old, keys⟩ n = .ok (⟨.ptr a v', keys⟩, n1) := by
  rw [evalStmt.eq_8]; simp [h1]

/-- the two containers `this[i] = e` writes into -/
inductive SeqWrap : (Val → Val) → Prop where
  | slice (a sp : Nat) : SeqWrap (fun es => .slice a sp es)
  | arr : SeqWrap (fun es => .arr es)

theorem setIndex_eval {W : Val → Val} (hW : SeqWrap W) {e : G τ} {n n1 i : Nat} {v' es es' : Val}
    {keys : List (Nat × Val)} (h1 : evalE env L e n = .ok (v', n1)) (h2 : setNth i v' es = some es') :
    evalStmt env L (.setIndex i e) ⟨W es, keys⟩ n = .ok (⟨W es', keys⟩, n1) := by
  cases hW <;> (rw [evalStmt.eq_9]; simp [h1, h2])

theorem call_eval {T : Ty} {body : G τ} {n : Nat} :
    evalE env L (.call T body) n = evalBody env L body {} n := by rw [evalE.eq_7]

/-! ## The loops -/

theorem fields_loop {mask : List Bool} (hExp : ∀ i, exportedAt mask i = true) {n0 : Nat} (k : G τ)
    (a : Nat) (keys : List (Nat × Val)) : ∀ (fs : Ty) (xs pre : Val) (n : Nat),
    fieldsHaveType env fs xs = true → finiteFloats xs = true →
    (∀ z, sizeOf z < sizeOf xs → P env L z) → n0 ≤ n →
    ∃ ys n', n ≤ n' ∧ FldRel env n0 fs xs ys ∧
      evalBody env L (fieldsG env L fs mask xs pre.slen k)
          ⟨.ptr a (.struct (sapp pre (zeroFields env fs))), keys⟩ n
        = evalBody env L k ⟨.ptr a (.struct (sapp pre ys)), keys⟩ n' := by
  intro fs
  induction fs with
  | fnil =>
    intro xs pre n ht _ _ _
    cases xs <;> simp [fieldsHaveType] at ht
    exact ⟨.snil, n, Nat.le_refl _, by simp [FldRel], by rw [fieldsG.eq_def]; rfl⟩
  | fcons F rest _ ihr =>
    intro xs pre n ht hfin hP hn
    cases xs with
    | scons x r =>
      rw [fieldsHaveType.eq_def] at ht
      simp only [Bool.and_eq_true] at ht
      obtain ⟨hf1, hf2⟩ := finite_scons hfin
      have hPr : ∀ z, sizeOf z < sizeOf r → P env L z := fun z hz => hP z (by simp; omega)
      rw [fieldsG.eq_1, evalBody.eq_1]
      rcases (hP x (by simp; omega)).field F n0 ht.1 hf1 with ⟨hskip, hz, hrel⟩ | ⟨e, he, hok⟩
      · -- nil component: nothing printed, the zero value stays
        rw [hskip, evalStmt.eq_1]
        simp only [Res.bind_ok]
        obtain ⟨ys, n', hn', hrs, hev⟩ := ihr r (sapp pre (.scons .nilv .snil)) n ht.2 hf2 hPr hn
        refine ⟨.scons .nilv ys, n', hn', by simp [FldRel, hrel, hrs], ?_⟩
        rw [slen_sapp_single, sapp_single_assoc, sapp_single_assoc] at hev
        rw [zeroFields, hz]
        exact hev
      · obtain ⟨v', n1, hv, hn1, hrel⟩ := hok n hn
        rw [he, assign, hExp, zeroFields,
          setField_eval (env := env) (L := L) hv (setNth_sapp v' (zero0 env F) (zeroFields env rest) pre)]
        simp only [Res.bind_ok]
        obtain ⟨ys, n', hn', hrs, hev⟩ :=
          ihr r (sapp pre (.scons v' .snil)) n1 ht.2 hf2 hPr (Nat.le_trans hn hn1)
        refine ⟨.scons v' ys, n', Nat.le_trans hn1 hn', by simp [FldRel, hrel, hrs], ?_⟩
        rw [slen_sapp_single, sapp_single_assoc, sapp_single_assoc] at hev
        exact hev
    | _ => simp [fieldsHaveType] at ht
  | _ => intro xs pre n ht; simp [fieldsHaveType] at ht

theorem sreplicate_succ (n : Nat) (z : Val) : sreplicate (n + 1) z = .scons z (sreplicate n z) := rfl

theorem elems_loop {W : Val → Val} (hW : SeqWrap W) {n0 : Nat} (k : G τ) (keys : List (Nat × Val))
    (E : Ty) (z : Val) : ∀ (xs pre : Val) (n : Nat),
    allHaveType env E xs = true → finiteFloats xs = true →
    (∀ y, sizeOf y < sizeOf xs → P env L y) → n0 ≤ n →
    ∃ ys n', n ≤ n' ∧ SeqRel env n0 E xs ys ∧
      evalBody env L (elemsG env L E xs pre.slen k) ⟨W (sapp pre (sreplicate xs.slen z)), keys⟩ n
        = evalBody env L k ⟨W (sapp pre ys), keys⟩ n' := by
  intro xs
  induction xs with
  | snil =>
    intro pre n _ _ _ _
    exact ⟨.snil, n, Nat.le_refl _, by simp [SeqRel], by rw [elemsG.eq_def]; rfl⟩
  | scons x r _ ihr =>
    intro pre n ht hfin hP hn
    rw [allHaveType.eq_def] at ht
    simp only [Bool.and_eq_true] at ht
    obtain ⟨hf1, hf2⟩ := finite_scons hfin
    have hPr : ∀ y, sizeOf y < sizeOf r → P env L y := fun y hy => hP y (by simp; omega)
    obtain ⟨v', n1, hv, hn1, hrel⟩ := (hP x (by simp; omega)).top E n0 ht.1 hf1 {} n hn
    rw [elemsG.eq_1, evalBody.eq_1, slen_scons, sreplicate_succ,
      setIndex_eval (env := env) (L := L) hW (by rw [call_eval]; exact hv)
        (setNth_sapp v' z (sreplicate r.slen z) pre)]
    simp only [Res.bind_ok]
    obtain ⟨ys, n', hn', hrs, hev⟩ :=
      ihr (sapp pre (.scons v' .snil)) n1 ht.2 hf2 hPr (Nat.le_trans hn hn1)
    refine ⟨.scons v' ys, n', Nat.le_trans hn1 hn', by simp [SeqRel, hrel, hrs], ?_⟩
    rw [slen_sapp_single, sapp_single_assoc, sapp_single_assoc] at hev
    exact hev
  | _ => intro pre n ht; simp [allHaveType] at ht

theorem finite_pair {k v : Val} (h : finiteFloats (.pair k v) = true) :
    finiteFloats k = true ∧ finiteFloats v = true := by
  simpa [finiteFloats] using h

/-- one `this[k'] = v'` on a map whose entries are the images of `pre`, for the image of a new key -/
theorem mapSet_step (hf : env.flagsOk = true) {n0 : Nat} {K V : Ty} (hc : canEqual env K = true)
    {key v k' v' r pre done : Val} (hk : hasType env K key = true)
    (hrk : Rel1 env n0 K key k') (hr : EntRel env n0 K V pre done)
    (hpre : entriesHaveType env K V pre = true)
    (hd : keysDistinct (sapp pre (.scons (.pair key v) r)) = true) :
    mapSet k' v' done = sapp done (.scons (.pair k' v') .snil) :=
  mapSet_fresh done hr.out.1
    (keyFresh_of_preFresh hf hc hk hrk.1 (goEq_of_rel hf hc hk hrk) pre done hr hpre
      (preFresh_of_distinct pre hpre hd))

theorem entriesLit_loop (hf : env.flagsOk = true) (hL : L.Round) {n0 : Nat} (k : G τ) (a : Nat)
    (keys : List (Nat × Val)) (bk : Basic) (V : Ty) : ∀ (es pre done : Val) (n : Nat),
    entriesHaveType env (.basic bk) V es = true → finiteFloats es = true →
    (∀ y, sizeOf y < sizeOf es → P env L y) → n0 ≤ n →
    EntRel env n0 (.basic bk) V pre done → entriesHaveType env (.basic bk) V pre = true →
    keysDistinct (sapp pre es) = true →
    ∃ done' n', n ≤ n' ∧ EntRel env n0 (.basic bk) V (sapp pre es) done' ∧
      evalBody env L (entriesLitG env L bk V es k) ⟨.map a done, keys⟩ n
        = evalBody env L k ⟨.map a done', keys⟩ n' := by
  intro es
  induction es with
  | snil =>
    intro pre done n _ _ _ _ hr hpre _
    refine ⟨done, n, Nat.le_refl _, ?_, by rw [entriesLitG.eq_def]; rfl⟩
    have : sapp pre .snil = pre := by
      clear hr
      induction pre with
      | scons e t _ iht =>
        rcases entriesHaveType_inv hpre with h0 | ⟨_, _, _, he, _, _, hr'⟩
        · cases h0
        · cases he; rw [sapp_scons, iht hr']
      | _ => first | rfl | simp [entriesHaveType] at hpre
    rw [this]; exact hr
  | scons e r _ ihr =>
    intro pre done n ht hfin hP hn hr hpre hd
    rcases entriesHaveType_inv ht with h0 | ⟨key, v, r', he, hk, hv, hrt⟩
    · cases h0
    · cases he
      obtain ⟨hf1, hf2⟩ := finite_scons hfin
      obtain ⟨hfk, hfv⟩ := finite_pair hf1
      have hPr : ∀ y, sizeOf y < sizeOf r → P env L y := fun y hy => hP y (by simp; omega)
      have hkb := hk
      rw [hasType_basic (b := bk) rfl] at hkb
      obtain ⟨k', hk', hrk⟩ := leaf_eval (env := env) (n0 := n0) hL hkb hfk n
      obtain ⟨v', n1, hv', hn1, hrv⟩ := (hP v (by simp; omega)).top V n0 hv hfv {} n hn
      have hset := mapSet_step (v' := v') hf (by simp [canEqual]) hk hrk hr hpre hd
      rw [entriesLitG.eq_1, evalBody.eq_1, evalStmt.eq_10, hk']
      simp only [call_eval, hv', hset, Res.bind_ok]
      obtain ⟨done', n', hn', hrs, hev⟩ := ihr (sapp pre (.scons (.pair key v) .snil))
        (sapp done (.scons (.pair k' v') .snil)) n1 hrt hf2 hPr (Nat.le_trans hn hn1)
        (EntRel.snoc hrk hrv pre done hr) (entriesHaveType_snoc hk hv pre hpre)
        (by rw [sapp_single_assoc]; exact hd)
      rw [sapp_single_assoc] at hrs
      exact ⟨done', n', Nat.le_trans hn1 hn', hrs, hev⟩
  | _ => intro pre done n ht; simp [entriesHaveType] at ht

end Eval

end GoString
end Goderive
