/-
Helper lemmas for C13 / C14 / C17: each loop of S/Lists.lean against the textbook definitions of
Spec/Lists.lean.
-/
import GoderiveModel.S.Lists
import GoderiveModel.Spec.Lists

set_option linter.unusedSimpArgs false

namespace Goderive
namespace Lists

/-! ### textbook monadic definitions on a logged pure function -/

theorem filterM_logged (f : Val → Bool) (xs : List Val) (log : List Val) :
    Spec.filterM (logged f) xs log = (xs.filter f, log ++ xs) := by
  induction xs generalizing log with
  | nil => simp [Spec.filterM]
  | cons x r ih =>
    simp only [Spec.filterM, logged, ih]
    cases hf : f x <;> simp [List.filter_cons, hf]

theorem mapM_logged (f : Val → Val) (xs : List Val) (log : List Val) :
    Spec.mapM (logged f) xs log = (xs.map f, log ++ xs) := by
  induction xs generalizing log with
  | nil => simp [Spec.mapM]
  | cons x r ih => simp [Spec.mapM, logged, ih]

/-- the calls a short-circuiting loop makes: every element up to and including the first on which
`f` answers `stop` -/
def callsUntil (f : Val → Bool) (stop : Bool) (xs : List Val) : List Val :=
  xs.take ((xs.takeWhile (fun x => f x != stop)).length + 1)

theorem callsUntil_cons (f : Val → Bool) (stop : Bool) (x : Val) (r : List Val) :
    callsUntil f stop (x :: r) = if f x = stop then [x] else x :: callsUntil f stop r := by
  unfold callsUntil
  by_cases h : f x = stop
  · simp [h]
  · have : (f x != stop) = true := by simp [h]
    simp [this, h]

theorem takeWhileM_logged (f : Val → Bool) (xs : List Val) (log : List Val) :
    Spec.takeWhileM (logged f) xs log = (xs.takeWhile f, log ++ callsUntil f false xs) := by
  induction xs generalizing log with
  | nil => simp [Spec.takeWhileM, callsUntil]
  | cons x r ih =>
    simp only [Spec.takeWhileM, logged, callsUntil_cons]
    rcases Bool.eq_false_or_eq_true (f x) with hf | hf <;> simp [List.takeWhile_cons, hf, ih]

theorem allM_logged (f : Val → Bool) (xs : List Val) (log : List Val) :
    Spec.allM (logged f) xs log = (xs.all f, log ++ callsUntil f false xs) := by
  induction xs generalizing log with
  | nil => simp [Spec.allM, callsUntil]
  | cons x r ih =>
    simp only [Spec.allM, logged, callsUntil_cons]
    rcases Bool.eq_false_or_eq_true (f x) with hf | hf <;> simp [hf, ih]

theorem anyM_logged (f : Val → Bool) (xs : List Val) (log : List Val) :
    Spec.anyM (logged f) xs log = (xs.any f, log ++ callsUntil f true xs) := by
  induction xs generalizing log with
  | nil => simp [Spec.anyM, callsUntil]
  | cons x r ih =>
    simp only [Spec.anyM, logged, callsUntil_cons]
    rcases Bool.eq_false_or_eq_true (f x) with hf | hf <;> simp [hf, ih]

/-! ### all / any / takewhile / contains: structural loops -/

theorem all_eq_allM {σ : Type} (p : Fn σ Bool) (xs : List Val) (s : σ) :
    all p xs s = Spec.allM p xs s := by
  induction xs generalizing s with
  | nil => rfl
  | cons x r ih =>
    simp only [all, Spec.allM]
    rcases hp : p x s with ⟨b, s'⟩
    cases b <;> simp [ih]

theorem any_eq_anyM {σ : Type} (p : Fn σ Bool) (xs : List Val) (s : σ) :
    any p xs s = Spec.anyM p xs s := by
  induction xs generalizing s with
  | nil => rfl
  | cons x r ih =>
    simp only [any, Spec.anyM]
    rcases hp : p x s with ⟨b, s'⟩
    cases b <;> simp [ih]

theorem takeWhileLoop_eq {σ : Type} (p : Fn σ Bool) (out xs : List Val) (s : σ) :
    takeWhileLoop p out xs s = (out ++ (Spec.takeWhileM p xs s).1, (Spec.takeWhileM p xs s).2) := by
  induction xs generalizing out s with
  | nil => simp [takeWhileLoop, Spec.takeWhileM]
  | cons x r ih =>
    simp only [takeWhileLoop, Spec.takeWhileM]
    rcases hp : p x s with ⟨b, s'⟩
    cases b <;> simp [ih]

theorem contains_eq (eq : Val → Val → Res Bool) (e : Val → Val → Bool) (item : Val) (xs : List Val)
    (h : ∀ v ∈ xs, eq v item = .ok (e v item)) :
    contains eq item xs = .ok (Spec.containsBy e xs item) := by
  induction xs with
  | nil => rfl
  | cons x r ih =>
    have hx := h x (by simp)
    have ih' := ih (fun v hv => h v (by simp [hv]))
    simp only [contains, hx]
    cases hv : e x item <;> simp_all [Spec.containsBy]

/-! ### filter: the in-place compaction loop -/

theorem getElem_pre (pre : List Val) (x : Val) (r : List Val) (i : Nat) (hi : i = pre.length)
    (h : i < (pre ++ x :: r).length) : (pre ++ x :: r)[i] = x := by
  subst hi
  rw [List.getElem_append_right (Nat.le_refl _)]
  simp

theorem set_pre (pre : List Val) (y x : Val) (r : List Val) (i : Nat) (hi : i = pre.length) :
    (pre ++ y :: r).set i x = pre ++ x :: r := by
  subst hi
  simp [List.set_append_right]

theorem filterLoop_spec {σ : Type} (p : Fn σ Bool) (rest : List Val) :
    ∀ (kept junk : List Val) (s : σ),
    filterLoop p (kept ++ junk ++ rest) (kept.length + junk.length) kept.length s =
      .ok (kept ++ (Spec.filterM p rest s).1 ++ (junk ++ rest).drop (Spec.filterM p rest s).1.length,
           kept.length + (Spec.filterM p rest s).1.length, (Spec.filterM p rest s).2) := by
  induction rest with
  | nil =>
    intro kept junk s
    rw [filterLoop]
    simp [Spec.filterM]
  | cons x r ih =>
    intro kept junk s
    rw [filterLoop]
    have hlt : kept.length + junk.length < (kept ++ junk ++ x :: r).length := by simp
    rw [dif_pos hlt, getElem_pre (kept ++ junk) x r _ (by simp)]
    simp only [Spec.filterM]
    rcases hp : p x s with ⟨b, s'⟩
    cases b
    · -- predicate false: x joins the junk
      have := ih kept (junk ++ [x]) s'
      simp only [List.append_assoc, List.length_append, List.length_cons, List.length_nil,
        List.cons_append, List.nil_append, ← Nat.add_assoc] at this
      simp only [List.append_assoc]
      rw [this]
      simp
    · -- predicate true: x is written at position j
      have hj : kept.length < (kept ++ junk ++ x :: r).length := by simp; omega
      simp only [if_pos hj]
      cases junk with
      | nil =>
        have := ih (kept ++ [x]) [] s'
        simp only [List.append_assoc, List.length_append, List.length_cons, List.length_nil,
          List.cons_append, List.nil_append, List.append_nil, ← Nat.add_assoc] at this
        simp [this]
        omega
      | cons y js =>
        have hne : (kept.length + (y :: js).length != kept.length) = true := by simp
        simp only [hne, if_true]
        have hset : (kept ++ y :: js ++ x :: r).set kept.length x = (kept ++ [x]) ++ (js ++ [x]) ++ r := by
          simp [List.set_append_right, List.set_append_left]
        rw [hset]
        have := ih (kept ++ [x]) (js ++ [x]) s'
        simp only [List.length_append, List.length_cons, List.length_nil] at this
        have hidx : kept.length + (y :: js).length + 1 = kept.length + (0 + 1) + (js.length + (0 + 1)) := by
          simp; omega
        rw [hidx, show kept.length + 1 = kept.length + (0 + 1) by omega, this]
        simp [Nat.add_assoc]
        omega
/-! ### fmap -/

theorem fmapLoop_spec {σ : Type} (f : Fn σ Val) (xs : List Val) :
    ∀ (done pending : List Val) (s : σ), pending.length = xs.length →
    fmapLoop f (done ++ pending) done.length xs s =
      .ok (done ++ (Spec.mapM f xs s).1, (Spec.mapM f xs s).2) := by
  induction xs with
  | nil =>
    intro done pending s h
    have : pending = [] := List.eq_nil_of_length_eq_zero (by simpa using h)
    simp [fmapLoop, Spec.mapM, this]
  | cons x r ih =>
    intro done pending s h
    cases pending with
    | nil => simp at h
    | cons z ps =>
      simp only [fmapLoop, Spec.mapM]
      rcases hf : f x s with ⟨y, s'⟩
      have hlt : done.length < (done ++ z :: ps).length := by simp
      simp only [if_pos hlt]
      rw [set_pre done z y ps _ rfl]
      have := ih (done ++ [y]) ps s' (by simpa using h)
      simp only [List.append_assoc, List.length_append, List.length_cons, List.length_nil,
        List.cons_append, List.nil_append] at this
      simp [this]

theorem fmap_spec {σ : Type} (f : Fn σ Val) (list : Sl) (s : σ) :
    fmap f list s = .ok (some (Spec.mapM f list.elems s).1, (Spec.mapM f list.elems s).2) := by
  unfold fmap
  have := fmapLoop_spec f list.elems [] (List.replicate list.elems.length zeroCell) s (by simp)
  simp only [List.nil_append, List.length_nil] at this
  rw [this]

/-! ### join -/

theorem joinLoop_spec (ls : List Sl) (res : List Val) :
    joinLoop res ls = res ++ (ls.map Sl.elems).flatten := by
  induction ls generalizing res with
  | nil => simp [joinLoop]
  | cons e r ih => simp [joinLoop, ih]

theorem joinLen_spec (ls : List Sl) : joinLen ls = ((ls.map Sl.elems).flatten).length := by
  induction ls with
  | nil => rfl
  | cons e r ih => simp [joinLen, ih]

theorem joinStrings_spec (ss : List (List Nat)) : joinStrings ss = ss.flatten := by
  induction ss with
  | nil => rfl
  | cons e r ih => simp [joinStrings, ih]

/-! ### min / max -/

theorem minLoop_spec (lt : Val → Val → Res Bool) (l : Val → Val → Bool) (S : List Val)
    (hlt : ∀ a ∈ S, ∀ b ∈ S, lt a b = .ok (l a b))
    (hirr : ∀ a ∈ S, l a a = false)
    (htr : ∀ a ∈ S, ∀ b ∈ S, ∀ c ∈ S, l a b = true → l b c = true → l a c = true)
    (rest : List Val) :
    ∀ (m : Val) (seen : List Val), m ∈ seen → (∀ y ∈ seen, l y m = false) →
      (∀ y ∈ seen, y ∈ S) → (∀ y ∈ rest, y ∈ S) →
      ∃ m', minLoop lt m rest = .ok m' ∧ m' ∈ seen ++ rest ∧ ∀ y ∈ seen ++ rest, l y m' = false := by
  induction rest with
  | nil =>
    intro m seen hm hmin _ _
    exact ⟨m, rfl, by simpa using hm, by simpa using hmin⟩
  | cons v r ih =>
    intro m seen hm hmin hseen hrest
    have hvS : v ∈ S := hrest v (by simp)
    have hmS : m ∈ S := hseen m hm
    simp only [minLoop, hlt v hvS m hmS]
    cases hvm : l v m with
    | true =>
      have := ih v (seen ++ [v]) (by simp) (by
          intro y hy
          rcases List.mem_append.mp hy with hy | hy
          · -- y < v and v < m would give y < m
            cases hyv : l y v with
            | false => rfl
            | true =>
              have := htr y (hseen y hy) v hvS m hmS hyv hvm
              rw [hmin y hy] at this; cases this
          · have : y = v := by simpa using hy
            subst this; exact hirr y hvS)
        (by intro y hy; rcases List.mem_append.mp hy with hy | hy
            · exact hseen y hy
            · have : y = v := by simpa using hy
              subst this; exact hvS)
        (fun y hy => hrest y (by simp [hy]))
      simpa [List.append_assoc] using this
    | false =>
      have := ih m (seen ++ [v]) (by simp [hm]) (by
          intro y hy
          rcases List.mem_append.mp hy with hy | hy
          · exact hmin y hy
          · have : y = v := by simpa using hy
            subst this; exact hvm)
        (by intro y hy; rcases List.mem_append.mp hy with hy | hy
            · exact hseen y hy
            · have : y = v := by simpa using hy
              subst this; exact hvS)
        (fun y hy => hrest y (by simp [hy]))
      simpa [List.append_assoc] using this

/-! ### sort: the two sorter instances satisfy the contract -/

theorem insertSorted_perm (lt : Val → Val → Bool) (x : Val) (ys : List Val) :
    (insertSorted lt x ys).Perm (x :: ys) := by
  induction ys with
  | nil => simp [insertSorted]
  | cons y r ih =>
    simp only [insertSorted]
    split
    · exact List.Perm.refl _
    · exact (List.Perm.cons y ih).trans (List.Perm.swap x y r)

theorem insertionSort_perm (lt : Val → Val → Bool) (xs : List Val) :
    (insertionSort lt xs).Perm xs := by
  induction xs with
  | nil => simp [insertionSort]
  | cons x r ih =>
    simp only [insertionSort]
    exact (insertSorted_perm lt x _).trans (List.Perm.cons x ih)

theorem insertSorted_sorted (lt : Val → Val → Bool) (S : List Val)
    (hasym : ∀ a ∈ S, ∀ b ∈ S, lt a b = true → lt b a = false)
    (htr : ∀ a ∈ S, ∀ b ∈ S, ∀ c ∈ S, lt a b = true → lt b c = true → lt a c = true)
    (x : Val) (hx : x ∈ S) (ys : List Val) (hys : ∀ y ∈ ys, y ∈ S)
    (hs : Spec.SortedLt lt ys) : Spec.SortedLt lt (insertSorted lt x ys) := by
  induction ys with
  | nil => simp [insertSorted, Spec.SortedLt]
  | cons y r ih =>
    unfold Spec.SortedLt at hs ih ⊢
    rw [List.pairwise_cons] at hs
    have hyS : y ∈ S := hys y (by simp)
    have hrS : ∀ z ∈ r, z ∈ S := fun z hz => hys z (by simp [hz])
    simp only [insertSorted]
    cases hxy : lt x y with
    | true =>
      simp only [if_true]
      rw [List.pairwise_cons]
      refine ⟨?_, List.pairwise_cons.mpr hs⟩
      intro z hz
      rcases List.mem_cons.mp hz with rfl | hz
      · exact hasym x hx z hyS hxy
      · -- z < x and x < y would give z < y
        cases hzx : lt z x with
        | false => rfl
        | true =>
          have := htr z (hrS z hz) x hx y hyS hzx hxy
          rw [hs.1 z hz] at this; cases this
    | false =>
      simp only [Bool.false_eq_true, if_false]
      rw [List.pairwise_cons]
      refine ⟨?_, ih hrS hs.2⟩
      intro z hz
      have hz' := (insertSorted_perm lt x r).subset hz
      rcases List.mem_cons.mp hz' with rfl | hz'
      · exact hxy
      · exact hs.1 z hz'

theorem insertionSort_sorted (lt : Val → Val → Bool) (xs : List Val) (h : Spec.StrictOrderOn lt xs) :
    Spec.SortedLt lt (insertionSort lt xs) := by
  suffices ∀ ys, (∀ y ∈ ys, y ∈ xs) → Spec.SortedLt lt (insertionSort lt ys) from this xs (fun _ h => h)
  intro ys
  induction ys with
  | nil => intro _; simp [insertionSort, Spec.SortedLt]
  | cons y r ih =>
    intro hsub
    simp only [insertionSort]
    apply insertSorted_sorted lt xs h.asymm h.trans y (hsub y (by simp))
    · intro z hz
      exact hsub z (by simp [(insertionSort_perm lt r).subset hz])
    · exact ih (fun z hz => hsub z (by simp [hz]))

theorem insertionSort_ok : Spec.SorterOK insertionSort :=
  ⟨insertionSort_perm, insertionSort_sorted⟩

theorem mergeSorter_perm (lt : Val → Val → Bool) (xs : List Val) : (mergeSorter lt xs).Perm xs :=
  List.mergeSort_perm xs _

theorem mergeSorter_sorted (lt : Val → Val → Bool) (xs : List Val) (h : Spec.StrictOrderOn lt xs) :
    Spec.SortedLt lt (mergeSorter lt xs) := by
  -- run merge sort on the subtype of members of `xs`, where the order laws hold globally
  let r : {x // x ∈ xs} → {x // x ∈ xs} → Bool := fun a b => !lt b.1 a.1
  have htrans : ∀ a b c : {x // x ∈ xs}, r a b = true → r b c = true → r a c = true := by
    intro a b c hab hbc
    simp only [r, Bool.not_eq_true'] at *
    exact h.negTrans c.1 c.2 b.1 b.2 a.1 a.2 hbc hab
  have htotal : ∀ a b : {x // x ∈ xs}, (r a b || r b a) = true := by
    intro a b
    simp only [r]
    cases hba : lt b.1 a.1 with
    | false => simp
    | true => simp [h.asymm b.1 b.2 a.1 a.2 hba]
  have hp := List.pairwise_mergeSort htrans htotal xs.attach
  have hmap : (xs.attach.mergeSort r).map Subtype.val = mergeSorter lt xs := by
    unfold mergeSorter
    rw [List.map_mergeSort (s := fun a b => !lt b a) (f := Subtype.val)]
    · simp
    · intros; rfl
  unfold Spec.SortedLt
  rw [← hmap, List.pairwise_map]
  refine hp.imp ?_
  intro a b hab
  simpa [r] using hab

theorem mergeSorter_ok : Spec.SorterOK mergeSorter :=
  ⟨mergeSorter_perm, mergeSorter_sorted⟩

/-- deriveSort through any sorter that satisfies the contract -/
theorem sort_spec (sorter : (Val → Val → Bool) → List Val → List Val) (hs : Spec.SorterOK sorter)
    (less : Val → Val → Res Bool) (l : Val → Val → Bool) (xs : List Val)
    (hless : ∀ a ∈ xs, ∀ b ∈ xs, less a b = .ok (l a b))
    (hord : Spec.StrictOrderOn l xs) :
    ∃ out, sort sorter less (some xs) = .ok (some out) ∧ out.Perm xs ∧ Spec.SortedLt l out := by
  have hall : xs.all (fun a => xs.all (fun b => resIsOk (less a b))) = true := by
    simp only [List.all_eq_true]
    intro a ha b hb
    simp [hless a ha b hb, resIsOk]
  refine ⟨sorter (fun a b => resTrue (less a b)) xs, by simp [sort, hall], hs.perm _ _, ?_⟩
  -- on the elements of xs the Bool view of `less` is `l`
  have hagree : ∀ a ∈ xs, ∀ b ∈ xs, resTrue (less a b) = l a b := by
    intro a ha b hb; simp [hless a ha b hb, resTrue]
  have hord' : Spec.StrictOrderOn (fun a b => resTrue (less a b)) xs := by
    refine ⟨?_, ?_, ?_⟩
    · intro a ha b hb; simp only [hagree a ha b hb, hagree b hb a ha]; exact hord.asymm a ha b hb
    · intro a ha b hb c hc
      simp only [hagree a ha b hb, hagree b hb c hc, hagree a ha c hc]; exact hord.trans a ha b hb c hc
    · intro a ha b hb c hc
      simp only [hagree a ha b hb, hagree b hb c hc, hagree a ha c hc]; exact hord.negTrans a ha b hb c hc
  have hsorted := hs.sorted _ xs hord'
  have hperm := hs.perm (fun a b => resTrue (less a b)) xs
  unfold Spec.SortedLt at hsorted ⊢
  have hmem : ∀ a ∈ sorter (fun a b => resTrue (less a b)) xs, a ∈ xs := fun a ha => hperm.subset ha
  -- transfer along membership
  refine List.Pairwise.imp_of_mem ?_ hsorted
  intro a b ha hb hab
  rw [← hagree b (hmem b hb) a (hmem a ha)]; exact hab

/-! ### first-occurrence dedup -/

/-- one step of the dedup fold -/
def dedupStep (e : Val → Val → Bool) (kept : List Val) (x : Val) : List Val :=
  if kept.any (fun y => e y x) then kept else kept ++ [x]

theorem dedupFirst_eq_foldl (e : Val → Val → Bool) (xs : List Val) :
    Spec.dedupFirst e xs = xs.foldl (dedupStep e) [] := rfl

/-- invariant of the dedup fold started from `kept` -/
theorem dedupFold_props (e : Val → Val → Bool) (xs : List Val) :
    ∀ kept : List Val,
      (∃ added, xs.foldl (dedupStep e) kept = kept ++ added ∧ (∀ y ∈ added, y ∈ xs)) ∧
      (kept.Pairwise (fun a b => e a b = false) →
        (xs.foldl (dedupStep e) kept).Pairwise (fun a b => e a b = false)) ∧
      ((∀ x ∈ xs, e x x = true) → ∀ x ∈ xs, ∃ y ∈ xs.foldl (dedupStep e) kept, e y x = true) := by
  induction xs with
  | nil => intro kept; exact ⟨⟨[], by simp, by simp⟩, fun h => h, by simp⟩
  | cons x r ih =>
    intro kept
    simp only [List.foldl_cons]
    obtain ⟨⟨added, hadd, hsub⟩, hpw, hcov⟩ := ih (dedupStep e kept x)
    refine ⟨?_, ?_, ?_⟩
    · unfold dedupStep at hadd ⊢
      split at hadd
      · rename_i hany
        simp only [hany, if_true]
        exact ⟨added, hadd, fun y hy => by simp [hsub y hy]⟩
      · rename_i hany
        simp only [hany, Bool.false_eq_true, if_false]
        refine ⟨x :: added, by simpa [List.append_assoc] using hadd, ?_⟩
        intro y hy
        rcases List.mem_cons.mp hy with rfl | hy
        · simp
        · simp [hsub y hy]
    · intro hk
      apply hpw
      unfold dedupStep
      split
      · exact hk
      · rename_i hany
        rw [List.pairwise_append]
        refine ⟨hk, by simp, ?_⟩
        intro a ha b hb
        have : b = x := by simpa using hb
        subst this
        have hnone : ¬ (kept.any (fun y => e y b) = true) := hany
        simp only [List.any_eq_true, not_exists, not_and] at hnone
        cases hab : e a b with
        | false => rfl
        | true => exact absurd hab (hnone a ha)
    · intro hrefl y hy
      rcases List.mem_cons.mp hy with rfl | hy
      · -- the head: either an earlier kept element is Equal to it, or it was kept itself
        unfold dedupStep at hadd ⊢
        split at hadd
        · rename_i hany
          simp only [hany, if_true]
          obtain ⟨z, hz, hzy⟩ := List.any_eq_true.mp hany
          exact ⟨z, by rw [hadd]; simp [hz], hzy⟩
        · rename_i hany
          simp only [hany, Bool.false_eq_true, if_false]
          exact ⟨y, by rw [hadd]; simp, hrefl y (by simp)⟩
      · exact hcov (fun x hx => hrefl x (by simp [hx])) y hy

theorem dedupFirst_isSetOf (e : Val → Val → Bool) (xs : List Val) (hrefl : ∀ x ∈ xs, e x x = true) :
    Spec.IsSetOf e xs (Spec.dedupFirst e xs) := by
  obtain ⟨⟨added, hadd, hsub⟩, hpw, hcov⟩ := dedupFold_props e xs []
  refine ⟨hcov hrefl, ?_, hpw (by simp)⟩
  intro y hy
  rw [dedupFirst_eq_foldl, hadd] at hy
  exact hsub y (by simpa using hy)

/-! ### unique: the hash-bucket loop -/

/-- the table maps every hash to exactly the positions of the kept elements with that hash -/
def TableInv (hf : Val → UInt64) (table : UInt64 → List Nat) (kept : List Val) : Prop :=
  ∀ h k, k ∈ table h ↔ ∃ y, kept[k]? = some y ∧ hf y = h

theorem bucketContains_spec (eq : Val → Val → Res Bool) (e : Val → Val → Bool)
    (kept tail : List Val) (x : Val) (heq : ∀ y ∈ kept, eq y x = .ok (e y x)) (idxs : List Nat)
    (hidx : ∀ k ∈ idxs, k < kept.length) :
    bucketContains eq (kept ++ tail) x idxs =
      .ok (idxs.any (fun k => match kept[k]? with | some y => e y x | none => false)) := by
  induction idxs with
  | nil => rfl
  | cons k r ih =>
    have hk : k < kept.length := hidx k (by simp)
    have ih' := ih (fun j hj => hidx j (by simp [hj]))
    have hget : (kept ++ tail)[k]? = some kept[k] := by
      rw [List.getElem?_append_left hk]; simp [hk]
    have hget' : kept[k]? = some kept[k] := by simp [hk]
    simp only [bucketContains, hget, heq kept[k] (List.getElem_mem hk), List.any_cons, hget']
    cases e kept[k] x <;> simp [ih']

theorem bucket_eq_any (hf : Val → UInt64) (e : Val → Val → Bool) (table : UInt64 → List Nat)
    (kept : List Val) (x : Val) (hinv : TableInv hf table kept)
    (hresp : ∀ y ∈ kept, e y x = true → hf y = hf x) :
    (table (hf x)).any (fun k => match kept[k]? with | some y => e y x | none => false) =
      kept.any (fun y => e y x) := by
  rw [Bool.eq_iff_iff]
  simp only [List.any_eq_true]
  constructor
  · rintro ⟨k, _, hk⟩
    cases hg : kept[k]? with
    | none => simp [hg] at hk
    | some y =>
      simp only [hg] at hk
      exact ⟨y, List.mem_of_getElem? hg, hk⟩
  · rintro ⟨y, hy, hyx⟩
    obtain ⟨k, hk⟩ := List.getElem?_of_mem hy
    exact ⟨k, (hinv (hf x) k).mpr ⟨y, hk, hresp y hy hyx⟩, by simp [hk, hyx]⟩

theorem tableInv_push (hf : Val → UInt64) (table : UInt64 → List Nat) (kept : List Val) (x : Val)
    (hinv : TableInv hf table kept) :
    TableInv hf (fun k => if k == hf x then table k ++ [kept.length] else table k) (kept ++ [x]) := by
  intro h k
  have hlt_of_mem : ∀ h', k ∈ table h' → k < kept.length := by
    intro h' hk
    obtain ⟨y, hy, _⟩ := (hinv h' k).mp hk
    exact (List.getElem?_eq_some_iff.mp hy).1
  by_cases hk : k < kept.length
  · have hg : (kept ++ [x])[k]? = kept[k]? := List.getElem?_append_left hk
    rw [hg]
    by_cases hh : h = hf x
    · subst hh
      simp only [beq_self_eq_true, if_true, List.mem_append, List.mem_singleton]
      rw [hinv]
      constructor
      · rintro (h1 | h1)
        · exact h1
        · omega
      · exact fun h1 => Or.inl h1
    · have : (h == hf x) = false := by simp [hh]
      simp only [this, Bool.false_eq_true, if_false]
      exact hinv h k
  · have hnot : ∀ h', k ∉ table h' := fun h' hm => hk (hlt_of_mem h' hm)
    by_cases hke : k = kept.length
    · subst hke
      have hg : (kept ++ [x])[kept.length]? = some x := by simp
      rw [hg]
      by_cases hh : h = hf x
      · subst hh; simp
      · have : (h == hf x) = false := by simp [hh]
        simp only [this, Bool.false_eq_true, if_false]
        constructor
        · intro hm; exact absurd hm (hnot h)
        · rintro ⟨y, hy, hyh⟩
          have : y = x := by simpa using hy.symm
          subst this; exact absurd hyh.symm hh
    · have hg : (kept ++ [x])[k]? = none := by
        apply List.getElem?_eq_none; simp; omega
      rw [hg]
      by_cases hh : h = hf x
      · subst hh
        simp only [beq_self_eq_true, if_true, List.mem_append, List.mem_singleton]
        constructor
        · rintro (h1 | h1)
          · exact absurd h1 (hnot _)
          · exact absurd h1 hke
        · rintro ⟨y, hy, _⟩; cases hy
      · have : (h == hf x) = false := by simp [hh]
        simp only [this, Bool.false_eq_true, if_false]
        constructor
        · intro hm; exact absurd hm (hnot h)
        · rintro ⟨y, hy, _⟩; cases hy

theorem dedupFold_prefix (e : Val → Val → Bool) (xs kept : List Val) :
    ∃ added, xs.foldl (dedupStep e) kept = kept ++ added := by
  obtain ⟨⟨added, h, _⟩, _⟩ := dedupFold_props e xs kept
  exact ⟨added, h⟩

/-- dropping past a one-element difference -/
theorem drop_past_mid (p t : List Val) (a b : Val) (m : Nat) :
    (p ++ a :: t).drop (p.length + 1 + m) = (p ++ b :: t).drop (p.length + 1 + m) := by
  induction p with
  | nil =>
    have h : ([] : List Val).length + 1 + m = m + 1 := by simp; omega
    rw [h]; rfl
  | cons c p ih =>
    have h : (c :: p).length + 1 + m = (p.length + 1 + m) + 1 := by simp; omega
    rw [h]
    exact ih

theorem uniqueLoop_spec (hash : Val → Res UInt64) (eq : Val → Val → Res Bool)
    (hf : Val → UInt64) (e : Val → Val → Bool) (U : List Val)
    (hhash : ∀ v ∈ U, hash v = .ok (hf v))
    (heq : ∀ a ∈ U, ∀ b ∈ U, eq a b = .ok (e a b))
    (hresp : ∀ a ∈ U, ∀ b ∈ U, e a b = true → hf a = hf b)
    (rest : List Val) :
    ∀ (kept junk : List Val) (table : UInt64 → List Nat),
      (∀ y ∈ kept, y ∈ U) → (∀ y ∈ rest, y ∈ U) → TableInv hf table kept →
      uniqueLoop hash eq (kept ++ junk ++ rest) table (kept.length + junk.length) kept.length =
        .ok (rest.foldl (dedupStep e) kept ++
               (kept ++ junk ++ rest).drop (rest.foldl (dedupStep e) kept).length,
             (rest.foldl (dedupStep e) kept).length) := by
  induction rest with
  | nil =>
    intro kept junk table _ _ _
    rw [uniqueLoop]
    simp
  | cons x r ih =>
    intro kept junk table hkU hrU hinv
    have hxU : x ∈ U := hrU x (by simp)
    have hrU' : ∀ y ∈ r, y ∈ U := fun y hy => hrU y (by simp [hy])
    rw [uniqueLoop]
    have hlt : kept.length + junk.length < (kept ++ junk ++ x :: r).length := by simp
    rw [dif_pos hlt, getElem_pre (kept ++ junk) x r _ (by simp)]
    simp only [hhash x hxU]
    have hb := bucketContains_spec eq e kept (junk ++ x :: r) x (fun y hy => heq y (hkU y hy) x hxU)
      (table (hf x)) (fun k hk => by
        obtain ⟨y, hy, _⟩ := (hinv (hf x) k).mp hk
        exact (List.getElem?_eq_some_iff.mp hy).1)
    rw [List.append_assoc kept junk, hb,
      bucket_eq_any hf e table kept x hinv (fun y hy => hresp y (hkU y hy) x hxU)]
    simp only [List.foldl_cons, dedupStep]
    cases hany : kept.any (fun y => e y x) with
    | true =>
      -- a kept element is Equal to x: x is skipped
      simp only [if_true]
      have := ih kept (junk ++ [x]) table hkU hrU' hinv
      simp only [List.append_assoc, List.length_append, List.length_cons, List.length_nil,
        List.cons_append, List.nil_append, ← Nat.add_assoc] at this
      simpa [List.append_assoc] using this
    | false =>
      simp only [Bool.false_eq_true, if_false]
      have hu : kept.length < (kept ++ (junk ++ x :: r)).length := by simp; omega
      simp only [if_pos hu]
      have hkU' : ∀ y ∈ kept ++ [x], y ∈ U := by
        intro y hy
        rcases List.mem_append.mp hy with hy | hy
        · exact hkU y hy
        · have : y = x := by simpa using hy
          subst this; exact hxU
      have hinv' := tableInv_push hf table kept x hinv
      obtain ⟨added, hadd⟩ := dedupFold_prefix e r (kept ++ [x])
      cases junk with
      | nil =>
        have hne : (kept.length + ([] : List Val).length != kept.length) = false := by simp
        simp only [hne, Bool.false_eq_true, if_false]
        have := ih (kept ++ [x]) [] _ hkU' hrU' hinv'
        simp only [List.append_assoc, List.length_append, List.length_cons, List.length_nil,
          List.cons_append, List.nil_append, List.append_nil, ← Nat.add_assoc] at this
        simpa [List.append_assoc] using this
      | cons y js =>
        have hne : (kept.length + (y :: js).length != kept.length) = true := by simp
        simp only [hne, if_true]
        have hset : (kept ++ (y :: js ++ x :: r)).set kept.length x = (kept ++ [x]) ++ (js ++ [x]) ++ r := by
          simp [List.set_append_right]
        rw [hset]
        have := ih (kept ++ [x]) (js ++ [x]) _ hkU' hrU' hinv'
        simp only [List.length_append, List.length_cons, List.length_nil] at this
        have hidx : kept.length + (y :: js).length + 1 = kept.length + (0 + 1) + (js.length + (0 + 1)) := by
          simp; omega
        rw [hidx, show kept.length + 1 = kept.length + (0 + 1) by omega, this]
        -- the two arrays differ only at position `kept.length`, which lies before the drop point
        have hlen : (List.foldl (dedupStep e) (kept ++ [x]) r).length = kept.length + 1 + added.length := by
          rw [hadd]; simp; omega
        rw [hlen]
        have h1 : kept ++ [x] ++ (js ++ [x]) ++ r = kept ++ x :: (js ++ x :: r) := by simp
        have h2 : kept ++ (y :: js ++ x :: r) = kept ++ y :: (js ++ x :: r) := by simp
        rw [h1, h2, drop_past_mid kept (js ++ x :: r) x y added.length]

/-! ### union / intersect over lists -/

theorem unionLoop_spec (eq : Val → Val → Res Bool) (e : Val → Val → Bool) (U : List Val)
    (heq : ∀ a ∈ U, ∀ b ∈ U, eq a b = .ok (e a b)) (that : List Val) :
    ∀ this : Sl, (∀ y ∈ this.elems, y ∈ U) → (∀ y ∈ that, y ∈ U) →
      ∃ out, unionLoop eq this that = .ok out ∧ out.elems = that.foldl (dedupStep e) this.elems ∧
        (out = none ↔ this = none ∧ that.foldl (dedupStep e) this.elems = this.elems) := by
  induction that with
  | nil =>
    intro this _ _
    exact ⟨this, rfl, rfl, by simp⟩
  | cons v r ih =>
    intro this hthis hthat
    have hv : v ∈ U := hthat v (by simp)
    have hr : ∀ y ∈ r, y ∈ U := fun y hy => hthat y (by simp [hy])
    have hc := contains_eq eq e v this.elems (fun w hw => heq w (hthis w hw) v hv)
    simp only [unionLoop, hc, List.foldl_cons, dedupStep, Spec.containsBy]
    cases hany : this.elems.any (fun w => e w v) with
    | true =>
      simp only [if_true]
      exact ih this hthis hr
    | false =>
      simp only [Bool.false_eq_true, if_false]
      obtain ⟨out, h1, h2, h3⟩ := ih (some (this.elems ++ [v])) (by
        intro y hy
        rcases List.mem_append.mp hy with hy | hy
        · exact hthis y hy
        · have : y = v := by simpa using hy
          subst this; exact hv) hr
      refine ⟨out, h1, h2, ?_⟩
      constructor
      · intro ho; have := h3.mp ho; simp at this
      · rintro ⟨_, hfix⟩
        -- the fold only ever extends its accumulator, so it cannot return to `this`
        obtain ⟨added, hadd⟩ := dedupFold_prefix e r (this.elems ++ [v])
        have hlen := congrArg List.length hfix
        rw [hadd] at hlen
        simp at hlen

/-- the union fold against the independent specification -/
theorem unionFold_eq_unionBy (e : Val → Val → Bool) (this that : List Val) :
    ∀ acc : List Val,
      that.foldl (dedupStep e) (this ++ acc) =
        this ++ (that.filter (fun v => !Spec.containsBy e this v)).foldl (dedupStep e) acc := by
  induction that with
  | nil => intro acc; simp
  | cons v r ih =>
    intro acc
    simp only [List.foldl_cons, List.filter_cons]
    cases hin' : Spec.containsBy e this v with
    | true =>
      have hin : this.any (fun w => e w v) = true := hin'
      have : dedupStep e (this ++ acc) v = this ++ acc := by
        simp [dedupStep, List.any_append, hin]
      simp [this, ih acc]
    | false =>
      have hin : this.any (fun w => e w v) = false := hin'
      have : dedupStep e (this ++ acc) v = this ++ dedupStep e acc v := by
        simp only [dedupStep, List.any_append, hin, Bool.false_or]
        split <;> simp
      simp [this, ih (dedupStep e acc v)]

theorem unionList_spec (eq : Val → Val → Res Bool) (e : Val → Val → Bool) (this that : Sl)
    (heq : ∀ a ∈ this.elems ++ that.elems, ∀ b ∈ this.elems ++ that.elems, eq a b = .ok (e a b)) :
    ∃ out, unionList eq this that = .ok out ∧ out.elems = Spec.unionBy e this.elems that.elems := by
  obtain ⟨out, h1, h2, _⟩ := unionLoop_spec eq e (this.elems ++ that.elems) heq that.elems this
    (fun y hy => by simp [hy]) (fun y hy => by simp [hy])
  refine ⟨out, h1, ?_⟩
  rw [h2]
  have := unionFold_eq_unionBy e this.elems that.elems []
  simpa [Spec.unionBy, dedupFirst_eq_foldl] using this

theorem intersectLoop_spec (eq : Val → Val → Res Bool) (e : Val → Val → Bool) (that : List Val)
    (this : List Val) (heq : ∀ a ∈ that, ∀ b ∈ this, eq a b = .ok (e a b)) :
    ∀ acc, intersectLoop eq that acc this = .ok (acc ++ this.filter (fun v => Spec.containsBy e that v)) := by
  induction this with
  | nil => intro acc; simp [intersectLoop]
  | cons v r ih =>
    intro acc
    have hc := contains_eq eq e v that (fun w hw => heq w hw v (by simp))
    have ih' := ih (fun a ha b hb => heq a ha b (by simp [hb]))
    simp only [intersectLoop, hc, List.filter_cons]
    cases hin : Spec.containsBy e that v <;> simp [ih']

theorem intersectList_spec (eq : Val → Val → Res Bool) (e : Val → Val → Bool) (this that : Sl)
    (heq : ∀ a ∈ that.elems, ∀ b ∈ this.elems, eq a b = .ok (e a b)) :
    intersectList eq this that = .ok (some (Spec.intersectBy e this.elems that.elems)) := by
  simp [intersectList, intersectLoop_spec eq e that.elems this.elems heq, Spec.intersectBy]

/-! ### sets as Go maps: `set[v] = struct{}{}` -/

theorem eq_false_of_symm {e : Val → Val → Bool} {U : List Val} (h : Spec.EquivOn e U)
    {a b : Val} (ha : a ∈ U) (hb : b ∈ U) (hab : e a b = false) : e b a = false := by
  cases hba : e b a with
  | false => rfl
  | true => rw [h.symm b hb a ha hba] at hab; cases hab

theorem setInsert_props (U : List Val) (h : Spec.EquivOn goEq U) (k : Val) (hk : k ∈ U) (m : List Val) :
    (∀ y ∈ m, y ∈ U) → m.Pairwise (fun a b => goEq a b = false) →
      (∀ y ∈ setInsert k m, y = k ∨ y ∈ m) ∧ k ∈ setInsert k m ∧
      (∀ y ∈ m, ∃ z ∈ setInsert k m, goEq z y = true) ∧
      (setInsert k m).Pairwise (fun a b => goEq a b = false) := by
  induction m with
  | nil => intro _ _; simp [setInsert]
  | cons k' rest ih =>
    intro hm hd
    rw [List.pairwise_cons] at hd
    have hk' : k' ∈ U := hm k' (by simp)
    have hrest : ∀ y ∈ rest, y ∈ U := fun y hy => hm y (by simp [hy])
    simp only [setInsert]
    cases hkk : goEq k k' with
    | true =>
      simp only [if_true]
      refine ⟨?_, by simp, ?_, ?_⟩
      · intro y hy
        rcases List.mem_cons.mp hy with rfl | hy
        · exact Or.inl rfl
        · exact Or.inr (by simp [hy])
      · intro y hy
        rcases List.mem_cons.mp hy with rfl | hy
        · exact ⟨k, by simp, hkk⟩
        · exact ⟨y, by simp [hy], h.refl y (hrest y hy)⟩
      · rw [List.pairwise_cons]
        refine ⟨?_, hd.2⟩
        intro b hb
        cases hkb : goEq k b with
        | false => rfl
        | true =>
          have h1 := h.symm k hk k' hk' hkk
          have h2 := h.trans k' hk' k hk b (hrest b hb) h1 hkb
          rw [hd.1 b hb] at h2; cases h2
    | false =>
      simp only [Bool.false_eq_true, if_false]
      obtain ⟨i1, i2, i3, i4⟩ := ih hrest hd.2
      refine ⟨?_, by simp [i2], ?_, ?_⟩
      · intro y hy
        rcases List.mem_cons.mp hy with rfl | hy
        · exact Or.inr (by simp)
        · rcases i1 y hy with rfl | hy
          · exact Or.inl rfl
          · exact Or.inr (by simp [hy])
      · intro y hy
        rcases List.mem_cons.mp hy with rfl | hy
        · exact ⟨y, by simp, h.refl y hk'⟩
        · obtain ⟨z, hz, hzy⟩ := i3 y hy
          exact ⟨z, by simp [hz], hzy⟩
      · rw [List.pairwise_cons]
        refine ⟨?_, i4⟩
        intro z hz
        rcases i1 z hz with rfl | hz
        · exact eq_false_of_symm h hk hk' hkk
        · exact hd.1 z hz

theorem setFold_props (U : List Val) (h : Spec.EquivOn goEq U) (xs : List Val) :
    ∀ m : List Val, (∀ y ∈ m, y ∈ U) → (∀ y ∈ xs, y ∈ U) → m.Pairwise (fun a b => goEq a b = false) →
      (∀ y ∈ xs.foldl (fun m v => setInsert v m) m, y ∈ m ∨ y ∈ xs) ∧
      (∀ y ∈ m ++ xs, ∃ z ∈ xs.foldl (fun m v => setInsert v m) m, goEq z y = true) ∧
      (xs.foldl (fun m v => setInsert v m) m).Pairwise (fun a b => goEq a b = false) := by
  induction xs with
  | nil =>
    intro m hm _ hd
    exact ⟨fun y hy => Or.inl hy, fun y hy => ⟨y, by simpa using hy, h.refl y (hm y (by simpa using hy))⟩, hd⟩
  | cons x r ih =>
    intro m hm hxs hd
    have hx : x ∈ U := hxs x (by simp)
    have hr : ∀ y ∈ r, y ∈ U := fun y hy => hxs y (by simp [hy])
    obtain ⟨s1, s2, s3, s4⟩ := setInsert_props U h x hx m hm hd
    have hm' : ∀ y ∈ setInsert x m, y ∈ U := by
      intro y hy
      rcases s1 y hy with rfl | hy
      · exact hx
      · exact hm y hy
    obtain ⟨f1, f2, f3⟩ := ih (setInsert x m) hm' hr s4
    simp only [List.foldl_cons]
    refine ⟨?_, ?_, f3⟩
    · intro y hy
      rcases f1 y hy with hy | hy
      · rcases s1 y hy with rfl | hy
        · exact Or.inr (by simp)
        · exact Or.inl hy
      · exact Or.inr (by simp [hy])
    · intro y hy
      rcases List.mem_append.mp hy with hy | hy
      · -- y was in the map: its representative may have been overwritten by an Equal key
        obtain ⟨z, hz, hzy⟩ := s3 y hy
        obtain ⟨w, hw, hwz⟩ := f2 z (by simp [hz])
        have hwU : w ∈ U := by
          rcases f1 w hw with hw | hw
          · exact hm' w hw
          · exact hr w hw
        exact ⟨w, hw, h.trans w hwU z (hm' z hz) y (hm y hy) hwz hzy⟩
      · rcases List.mem_cons.mp hy with rfl | hy
        · exact f2 y (by simp [s2])
        · exact f2 y (by simp [hy])

theorem set_spec (xs : List Val) (h : Spec.EquivOn goEq xs) :
    Spec.IsSetOf goEq xs (set (some xs)) := by
  obtain ⟨f1, f2, f3⟩ := setFold_props xs h xs [] (by simp) (fun _ hy => hy) (by simp)
  exact ⟨fun x hx => f2 x (by simpa using hx), fun y hy => by simpa using f1 y hy, f3⟩

theorem unionMapLoop_eq (u ks : List Val) :
    unionMapLoop (some u) ks = .ok (some (ks.foldl (fun m v => setInsert v m) u)) := by
  induction ks generalizing u with
  | nil => rfl
  | cons k r ih => simp [unionMapLoop, ih]

theorem condFold_eq_filter (c : Val → Bool) (ks : List Val) :
    ∀ acc, ks.foldl (fun acc k => if c k then setInsert k acc else acc) acc =
      (ks.filter c).foldl (fun m v => setInsert v m) acc := by
  induction ks with
  | nil => intro acc; rfl
  | cons k r ih =>
    intro acc
    simp only [List.foldl_cons, List.filter_cons]
    cases c k <;> simp [ih]

/-! ### permutations of representative sets -/

theorem pairwise_of_perm_symmOn {R : Val → Val → Prop} {l l' : List Val} (hp : l.Perm l')
    (hsymm : ∀ a ∈ l, ∀ b ∈ l, R a b → R b a) (h : l.Pairwise R) : l'.Pairwise R := by
  induction hp with
  | nil => exact h
  | cons x _ ih =>
    rw [List.pairwise_cons] at h ⊢
    rename_i l₁ l₂ hp'
    refine ⟨fun b hb => h.1 b (hp'.symm.subset hb), ih (fun a ha b hb => hsymm a (by simp [ha]) b (by simp [hb])) h.2⟩
  | swap x y l =>
    simp only [List.pairwise_cons, List.mem_cons] at h ⊢
    obtain ⟨hy, hx, hl⟩ := h
    refine ⟨?_, ?_, hl⟩
    · intro b hb
      rcases hb with hb | hb
      · subst hb
        exact hsymm b (by simp) x (by simp) (hy x (Or.inl rfl))
      · exact hx b hb
    · intro b hb
      exact hy b (Or.inr hb)
  | trans h₁ _ ih₁ ih₂ =>
    apply ih₂
    · intro a ha b hb hab
      exact hsymm a (h₁.symm.subset ha) b (h₁.symm.subset hb) hab
    · exact ih₁ hsymm h

theorem isSetOf_perm {e : Val → Val → Bool} {xs ys ys' : List Val} (h : Spec.IsSetOf e xs ys)
    (hp : ys.Perm ys') (hsymm : ∀ a ∈ xs, ∀ b ∈ xs, e a b = true → e b a = true) :
    Spec.IsSetOf e xs ys' := by
  refine ⟨?_, fun y hy => h.sound y (hp.symm.subset hy), ?_⟩
  · intro x hx
    obtain ⟨y, hy, hyx⟩ := h.covers x hx
    exact ⟨y, hp.subset hy, hyx⟩
  · apply pairwise_of_perm_symmOn hp ?_ h.distinct
    intro a ha b hb hab
    cases hba : e b a with
    | false => rfl
    | true => rw [hsymm b (h.sound b hb) a (h.sound a ha) hba] at hab; cases hab

theorem isSetOf_congr_mem {e : Val → Val → Bool} {xs xs' ys : List Val} (h : Spec.IsSetOf e xs ys)
    (hm : ∀ x, x ∈ xs ↔ x ∈ xs') : Spec.IsSetOf e xs' ys :=
  ⟨fun x hx => h.covers x ((hm x).mpr hx), fun y hy => (hm y).mp (h.sound y hy), h.distinct⟩

end Lists
end Goderive
