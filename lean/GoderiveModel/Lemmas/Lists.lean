/-
Helper lemmas for C13 / C14 / C17: each loop of S/Lists.lean against the textbook definitions of
Spec/Lists.lean.
-/
import GoderiveModel.S.Lists
import GoderiveModel.Spec.Lists

namespace Goderive
namespace Lists

/-! ### textbook monadic definitions on a logged pure function -/

theorem filterM_logged (f : Val → Bool) (xs : List Val) (log : List Val) :
    Spec.filterM (logged f) xs log = (xs.filter f, log ++ xs) := by
  induction xs generalizing log with
  | nil => simp [Spec.filterM]
  | cons x r ih =>
    simp only [Spec.filterM, logged, ih]
    cases hf : f x <;> simp [List.filter_cons, hf]

theorem mapM_logged (f : Val → Val) (xs : List Val) (log : List Val) :
    Spec.mapM (logged f) xs log = (xs.map f, log ++ xs) := by
  induction xs generalizing log with
  | nil => simp [Spec.mapM]
  | cons x r ih => simp [Spec.mapM, logged, ih]

/-- the calls a short-circuiting loop makes: every element up to and including the first on which
`f` answers `stop` -/
def callsUntil (f : Val → Bool) (stop : Bool) (xs : List Val) : List Val :=
  xs.take ((xs.takeWhile (fun x => f x != stop)).length + 1)

theorem callsUntil_cons (f : Val → Bool) (stop : Bool) (x : Val) (r : List Val) :
    callsUntil f stop (x :: r) = if f x = stop then [x] else x :: callsUntil f stop r := by
  unfold callsUntil
  by_cases h : f x = stop
  · simp [h]
  · have : (f x != stop) = true := by simp [h]
    simp [this, h]

theorem takeWhileM_logged (f : Val → Bool) (xs : List Val) (log : List Val) :
    Spec.takeWhileM (logged f) xs log = (xs.takeWhile f, log ++ callsUntil f false xs) := by
  induction xs generalizing log with
  | nil => simp [Spec.takeWhileM, callsUntil]
  | cons x r ih =>
    simp only [Spec.takeWhileM, logged, callsUntil_cons]
    rcases Bool.eq_false_or_eq_true (f x) with hf | hf <;> simp [List.takeWhile_cons, hf, ih]

theorem allM_logged (f : Val → Bool) (xs : List Val) (log : List Val) :
    Spec.allM (logged f) xs log = (xs.all f, log ++ callsUntil f false xs) := by
  induction xs generalizing log with
  | nil => simp [Spec.allM, callsUntil]
  | cons x r ih =>
    simp only [Spec.allM, logged, callsUntil_cons]
    rcases Bool.eq_false_or_eq_true (f x) with hf | hf <;> simp [hf, ih]

theorem anyM_logged (f : Val → Bool) (xs : List Val) (log : List Val) :
    Spec.anyM (logged f) xs log = (xs.any f, log ++ callsUntil f true xs) := by
  induction xs generalizing log with
  | nil => simp [Spec.anyM, callsUntil]
  | cons x r ih =>
    simp only [Spec.anyM, logged, callsUntil_cons]
    rcases Bool.eq_false_or_eq_true (f x) with hf | hf <;> simp [hf, ih]

/-! ### all / any / takewhile / contains: structural loops -/

theorem all_eq_allM {σ : Type} (p : Fn σ Bool) (xs : List Val) (s : σ) :
    all p xs s = Spec.allM p xs s := by
  induction xs generalizing s with
  | nil => rfl
  | cons x r ih =>
    simp only [all, Spec.allM]
    rcases hp : p x s with ⟨b, s'⟩
    cases b <;> simp [ih]

theorem any_eq_anyM {σ : Type} (p : Fn σ Bool) (xs : List Val) (s : σ) :
    any p xs s = Spec.anyM p xs s := by
  induction xs generalizing s with
  | nil => rfl
  | cons x r ih =>
    simp only [any, Spec.anyM]
    rcases hp : p x s with ⟨b, s'⟩
    cases b <;> simp [ih]

theorem takeWhileLoop_eq {σ : Type} (p : Fn σ Bool) (out xs : List Val) (s : σ) :
    takeWhileLoop p out xs s = (out ++ (Spec.takeWhileM p xs s).1, (Spec.takeWhileM p xs s).2) := by
  induction xs generalizing out s with
  | nil => simp [takeWhileLoop, Spec.takeWhileM]
  | cons x r ih =>
    simp only [takeWhileLoop, Spec.takeWhileM]
    rcases hp : p x s with ⟨b, s'⟩
    cases b <;> simp [ih]

theorem contains_eq (eq : Val → Val → Res Bool) (e : Val → Val → Bool) (item : Val) (xs : List Val)
    (h : ∀ v ∈ xs, eq v item = .ok (e v item)) :
    contains eq item xs = .ok (Spec.containsBy e xs item) := by
  induction xs with
  | nil => rfl
  | cons x r ih =>
    have hx := h x (by simp)
    have ih' := ih (fun v hv => h v (by simp [hv]))
    simp only [contains, hx]
    cases hv : e x item <;> simp_all [Spec.containsBy]

end Lists
end Goderive
