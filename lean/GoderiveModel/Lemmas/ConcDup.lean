/-
Inductive invariant of K/Dup.
-/
import GoderiveModel.K.Dup

namespace Goderive.K.Dup

structure Inv (c : Cfg) (s : State) : Prop where
  np : s.panicked = false
  capIn : s.inp.cap = c.cap
  cap1 : s.o1.cap = c.cap
  cap2 : s.o2.cap = c.cap
  d1 : c.items = s.got1 ++ s.o1.buf ++ held1 s.pc ++ s.inp.buf ++ s.pend
  d2 : c.items = s.got2 ++ s.o2.buf ++ held2 s.pc ++ s.inp.buf ++ s.pend
  closedPend : s.inp.closed = true → s.pend = []
  late : (s.pc = .close1 ∨ s.pc = .close2 ∨ s.pc = .done) → s.inp.closed = true ∧ s.inp.buf = []
  oc1 : s.o1.closed = true ↔ (s.pc = .close2 ∨ s.pc = .done)
  oc2 : s.o2.closed = true ↔ s.pc = .done
  sc1 : s.seen1 = true → s.o1.closed = true ∧ s.o1.buf = []
  sc2 : s.seen2 = true → s.o2.closed = true ∧ s.o2.buf = []
  inLen : s.inp.buf.length ≤ s.inp.cap

theorem inv_init (c : Cfg) : Inv c (init c) := by
  refine ⟨?_, ?_, ?_, ?_, ?_, ?_, ?_, ?_, ?_, ?_, ?_, ?_, ?_⟩ <;> simp [init, Chan.mk0, held1, held2]

theorem inv_step (c : Cfg) (s s' : State) (l : Label) (hi : Inv c s) (hs : step c s l = some s') :
    Inv c s' := by
  obtain ⟨np, ci, c1, c2, d1, d2, cp, lt, oc1, oc2, sc1, sc2, il⟩ := hi
  cases l <;> simp only [step] at hs <;> (repeat' split at hs) <;> (try cases hs) <;>
    (refine ⟨?_, ?_, ?_, ?_, ?_, ?_, ?_, ?_, ?_, ?_, ?_, ?_, ?_⟩ <;> simp_all [held1, held2] <;>
      first
        | omega
        | (have hb : s.inp.buf = [] := List.eq_nil_of_length_eq_zero (by omega)
           simp_all))

theorem inv_reachable (c : Cfg) (s : State) (h : (lts c).Reachable s) : Inv c s :=
  Lts.invariant (lts c) (Inv c) (inv_init c) (fun s l s' hi hs => inv_step c s s' l hi hs) s h

theorem progress (c : Cfg) (s : State) (hi : Inv c s) (hnf : ¬ (s.seen1 = true ∧ s.seen2 = true)) :
    (lts c).Enabled s := by
  obtain ⟨np, ci, c1, c2, d1, d2, cp, lt, oc1, oc2, sc1, sc2, il⟩ := hi
  have en : ∀ l, (step c s l).isSome = true → (lts c).Enabled s :=
    fun l h => Lts.enabled_of_isSome (lts c) s l h
  cases hpc : s.pc with
  | recv =>
    cases hb : s.inp.buf with
    | cons v rest => exact en .dRecv (by simp [step, np, hpc, hb])
    | nil =>
      by_cases hcl : s.inp.closed = true
      · exact en .dRecv (by simp [step, np, hpc, hb, hcl])
      · cases hp : s.pend with
        | nil => exact en .pClose (by simp [step, np, hp, hcl])
        | cons v rest =>
          by_cases hcap : s.inp.cap = 0
          · exact en .pSend (by simp [step, np, hp, hcl, hb, hcap, hpc])
          · exact en .pSend (by
              have : 0 < s.inp.cap := by omega
              simp [step, np, hp, hcl, hb, this])
  | send1 v =>
    have hoc : s.o1.closed = false := by
      cases h : s.o1.closed
      · rfl
      · rcases oc1.mp h with h' | h' <;> rw [h'] at hpc <;> cases hpc
    have hns : s.seen1 = false := by
      cases h : s.seen1
      · rfl
      · rw [(sc1 h).1] at hoc; cases hoc
    cases hob : s.o1.buf with
    | cons x rest => exact en .c1Recv (by simp [step, np, hns, hob])
    | nil =>
      by_cases hcap : s.o1.cap = 0
      · exact en .c1Recv (by simp [step, np, hns, hob, hoc, hpc, hcap])
      · exact en .dSend1 (by
          have : 0 < s.o1.cap := by omega
          simp [step, np, hpc, hoc, hob, this])
  | send2 v =>
    have hoc : s.o2.closed = false := by
      cases h : s.o2.closed
      · rfl
      · rw [oc2.mp h] at hpc; cases hpc
    have hns : s.seen2 = false := by
      cases h : s.seen2
      · rfl
      · rw [(sc2 h).1] at hoc; cases hoc
    cases hob : s.o2.buf with
    | cons x rest => exact en .c2Recv (by simp [step, np, hns, hob])
    | nil =>
      by_cases hcap : s.o2.cap = 0
      · exact en .c2Recv (by simp [step, np, hns, hob, hoc, hpc, hcap])
      · exact en .dSend2 (by
          have : 0 < s.o2.cap := by omega
          simp [step, np, hpc, hoc, hob, this])
  | close1 =>
    have hoc : s.o1.closed = false := by
      cases h : s.o1.closed
      · rfl
      · rcases oc1.mp h with h' | h' <;> rw [h'] at hpc <;> cases hpc
    exact en .dClose1 (by simp [step, np, hpc, hoc])
  | close2 =>
    have hoc : s.o2.closed = false := by
      cases h : s.o2.closed
      · rfl
      · rw [oc2.mp h] at hpc; cases hpc
    exact en .dClose2 (by simp [step, np, hpc, hoc])
  | done =>
    have ho1 : s.o1.closed = true := oc1.mpr (Or.inr hpc)
    have ho2 : s.o2.closed = true := oc2.mpr hpc
    by_cases h1 : s.seen1 = true
    · have h2 : s.seen2 = false := by
        cases h : s.seen2
        · rfl
        · exact absurd ⟨h1, h⟩ hnf
      cases hob : s.o2.buf with
      | cons x rest => exact en .c2Recv (by simp [step, np, h2, hob])
      | nil => exact en .c2Recv (by simp [step, np, h2, hob, ho2])
    · have h1' : s.seen1 = false := by cases h : s.seen1 <;> simp_all
      cases hob : s.o1.buf with
      | cons x rest => exact en .c1Recv (by simp [step, np, h1', hob])
      | nil => exact en .c1Recv (by simp [step, np, h1', hob, ho1])

def pcWeight : Pc → Nat
  | .recv => 3 | .send1 _ => 7 | .send2 _ => 5 | .close1 => 2 | .close2 => 1 | .done => 0

def measure (s : State) : Nat :=
  9 * s.pend.length + 8 * s.inp.buf.length + pcWeight s.pc + s.o1.buf.length + s.o2.buf.length +
  (if s.inp.closed then 0 else 1) + (if s.seen1 then 0 else 1) + (if s.seen2 then 0 else 1) +
  (if s.panicked then 0 else 1)

theorem measure_decreases (c : Cfg) (s s' : State) (l : Label)
    (hs : step c s l = some s') : measure s' < measure s := by
  cases l <;> simp only [step] at hs <;> (repeat' split at hs) <;> (try cases hs) <;>
    simp_all [measure, pcWeight] <;> omega

end Goderive.K.Dup
