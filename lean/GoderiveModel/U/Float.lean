/-
IEEE-754 bit patterns. No `Float` is used anywhere: `==` and `<` on non-NaN floats are exactly
integer comparison of the sign-magnitude key (`±0 ↦ 0`), which the kernel can compute.
-/
namespace Goderive

/-- mantissa width for a float of total width `w` (32 or 64) -/
def mantBits (w : Nat) : Nat := if w = 32 then 23 else 52
def expBits (w : Nat) : Nat := if w = 32 then 8 else 11

def fltSign (w bits : Nat) : Bool := (bits / 2 ^ (w - 1)) % 2 = 1
def fltMag (w bits : Nat) : Nat := bits % 2 ^ (w - 1)
def fltExp (w bits : Nat) : Nat := (fltMag w bits) / 2 ^ (mantBits w)
def fltMant (w bits : Nat) : Nat := bits % 2 ^ (mantBits w)

def fltIsNaN (w bits : Nat) : Bool :=
  fltExp w bits = 2 ^ (expBits w) - 1 && fltMant w bits ≠ 0

/-- sign-magnitude key: order and equality of non-NaN floats are those of the keys -/
def fltKey (w bits : Nat) : Int :=
  if fltSign w bits then - (fltMag w bits : Int) else (fltMag w bits : Int)

def fltEq (w a b : Nat) : Bool := !fltIsNaN w a && !fltIsNaN w b && fltKey w a == fltKey w b
def fltLt (w a b : Nat) : Bool := !fltIsNaN w a && !fltIsNaN w b && fltKey w a < fltKey w b

theorem fltEq_refl (w a : Nat) (h : fltIsNaN w a = false) : fltEq w a a = true := by
  simp [fltEq, h]

theorem fltEq_symm (w a b : Nat) : fltEq w a b = fltEq w b a := by
  simp only [fltEq]
  cases fltIsNaN w a <;> cases fltIsNaN w b <;> simp [Bool.beq_comm]

theorem fltEq_trans (w a b c : Nat) (h1 : fltEq w a b = true) (h2 : fltEq w b c = true) :
    fltEq w a c = true := by
  simp only [fltEq, Bool.and_eq_true, Bool.not_eq_true', beq_iff_eq] at *
  obtain ⟨⟨ha, _⟩, hab⟩ := h1
  obtain ⟨⟨_, hc⟩, hbc⟩ := h2
  exact ⟨⟨ha, hc⟩, hab.trans hbc⟩

end Goderive
