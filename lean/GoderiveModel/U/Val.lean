/-
Layer U: heap-annotated first-order values.

Addresses, spare capacity and map insertion order are *in* the value so that theorems can say that
the emitted code ignores them (C02–C04) or does not reuse them (C05). Values are finite trees, hence
acyclic: the "acyclic" quantifier of C02–C06 is the domain of the model.
-/
namespace Goderive

inductive Val where
  | bool (b : Bool)
  | int (n : Int)                       -- every integer kind, by value
  | flt (w : Nat) (bits : Nat)          -- IEEE bit pattern, width 32 or 64
  | cplx (w : Nat) (re im : Nat)        -- component width 32 or 64
  | str (bytes : List Nat)
  | nilv                                -- nil pointer / slice / map
  | ptr (addr : Nat) (v : Val)
  | slice (addr spare : Nat) (elems : Val)   -- backing-array identity, spare capacity
  | arr (elems : Val)
  | struct (fields : Val)
  | map (addr : Nat) (entries : Val)    -- `scons (pair k v) …` in insertion order
  | pair (k v : Val)
  | snil
  | scons (hd tl : Val)
  deriving DecidableEq, Repr, Inhabited

namespace Val

def slen : Val → Nat
  | scons _ t => t.slen + 1
  | _ => 0

def toList : Val → List Val
  | scons h t => h :: t.toList
  | _ => []

def ofList : List Val → Val
  | [] => snil
  | h :: t => scons h (ofList t)

@[simp] theorem toList_ofList (l : List Val) : (ofList l).toList = l := by
  induction l with
  | nil => rfl
  | cons h t ih => simp [ofList, toList, ih]

@[simp] theorem slen_eq_length (v : Val) : v.slen = v.toList.length := by
  induction v <;> simp_all [slen, toList]

end Val

/-- Result of running emitted code: a value or a Go panic. -/
inductive Res (α : Type) where
  | ok (a : α)
  | panic
  deriving DecidableEq, Repr, Inhabited

namespace Res
@[inline] def bind {α β} : Res α → (α → Res β) → Res β
  | ok a, f => f a
  | panic, _ => panic
instance : Monad Res where
  pure := ok
  bind := bind
@[simp] theorem bind_ok {α β} (a : α) (f : α → Res β) : (Res.ok a >>= f) = f a := rfl
@[simp] theorem bind_panic {α β} (f : α → Res β) : ((Res.panic : Res α) >>= f) = Res.panic := rfl
@[simp] theorem pure_eq {α} (a : α) : (pure a : Res α) = Res.ok a := rfl
end Res

end Goderive
