/-
Decidable typing of values, NaN-freeness, and the set of addresses of a value.
-/
import GoderiveModel.U.Ty
import GoderiveModel.U.Val
import GoderiveModel.U.Float
import GoderiveModel.S.Equal

namespace Goderive
open Val

def intInRange (bits : Nat) (signed : Bool) (n : Int) : Bool :=
  if signed then decide (-(2 ^ (bits - 1) : Int) ≤ n) && decide (n < (2 ^ (bits - 1) : Int))
  else decide (0 ≤ n) && decide (n < (2 ^ bits : Int))

def basicHasType : Basic → Val → Bool
  | .bool, .bool _ => true
  | .int bits s, .int n => intInRange bits s n
  | .float w, .flt w' bits => w == w' && decide (bits < 2 ^ w)
  | .complex w, .cplx w' re im => w == 2 * w' && decide (re < 2 ^ w') && decide (im < 2 ^ w')
  | .string, .str bs => bs.all (· < 256)
  | _, _ => false

/-- the keys of a map spine do not contain `k` (under Go `==`) -/
def keyFresh (k : Val) : Val → Bool
  | .scons (.pair k' _) rest => !goEq k k' && keyFresh k rest
  | _ => true

def keysDistinct : Val → Bool
  | .scons (.pair k _) rest => keyFresh k rest && keysDistinct rest
  | _ => true

mutual
def hasType (env : Env) (T : Ty) (v : Val) : Bool :=
  match env.under T, v with
  | .basic b, v => basicHasType b v
  | .ptr _, .nilv => true
  | .ptr R, .ptr _ a => hasType env R a
  | .slice _, .nilv => true
  | .slice E, .slice _ _ xs => allHaveType env E xs
  | .array n E, .arr xs => xs.slen == n && allHaveType env E xs
  | .struct fs, .struct xs => fieldsHaveType env fs xs
  | .map _ _, .nilv => true
  | .map K V, .map _ es => canEqual env K && entriesHaveType env K V es && keysDistinct es
  | _, _ => false
termination_by (sizeOf v, 0)

def allHaveType (env : Env) (E : Ty) (xs : Val) : Bool :=
  match xs with
  | .snil => true
  | .scons a r => hasType env E a && allHaveType env E r
  | _ => false
termination_by (sizeOf xs, 1)

def fieldsHaveType (env : Env) (fs : Ty) (xs : Val) : Bool :=
  match fs, xs with
  | .fnil, .snil => true
  | .fcons F rest, .scons a r => hasType env F a && fieldsHaveType env rest r
  | _, _ => false
termination_by (sizeOf xs, 1)

def entriesHaveType (env : Env) (K V : Ty) (es : Val) : Bool :=
  match es with
  | .snil => true
  | .scons (.pair k v) r => hasType env K k && hasType env V v && entriesHaveType env K V r
  | _ => false
termination_by (sizeOf es, 1)
end

/-- no NaN anywhere in the value -/
def nanFree : Val → Bool
  | .flt w b => !fltIsNaN w b
  | .cplx w a b => !fltIsNaN w a && !fltIsNaN w b
  | .ptr _ v => nanFree v
  | .slice _ _ es => nanFree es
  | .arr es => nanFree es
  | .struct fs => nanFree fs
  | .map _ es => nanFree es
  | .pair k v => nanFree k && nanFree v
  | .scons h t => nanFree h && nanFree t
  | _ => true

/-- all heap identities (pointer targets, backing arrays, maps) reachable in the value -/
def addrs : Val → List Nat
  | .ptr a v => a :: addrs v
  | .slice a _ es => a :: addrs es
  | .arr es => addrs es
  | .struct fs => addrs fs
  | .map a es => a :: addrs es
  | .pair k v => addrs k ++ addrs v
  | .scons h t => addrs h ++ addrs t
  | _ => []

/-- heap objects with their contents: (kind tag, address, content) -/
def objs : Val → List (Nat × Nat × Val)
  | .ptr a v => (0, a, v) :: objs v
  | .slice a _ es => (1, a, es) :: objs es
  | .arr es => objs es
  | .struct fs => objs fs
  | .map a es => (2, a, es) :: objs es
  | .pair k v => objs k ++ objs v
  | .scons h t => objs h ++ objs t
  | _ => []

/-- one address never denotes two different contents (slices that share a backing array may be
views of different length, so for them one content must be a prefix of the other) -/
def prefixOf : Val → Val → Bool
  | .snil, _ => true
  | .scons a r, .scons b s => a == b && prefixOf r s
  | _, _ => false

def heapConsistent (os : List (Nat × Nat × Val)) : Bool :=
  os.all fun (k, a, v) => os.all fun (k', a', v') =>
    !(k == k' && a == a') || (if k == 1 then prefixOf v v' || prefixOf v' v else v == v')

end Goderive
