/-
Wire format shared with the Go harness: one S-expression per token group.

types : bool i8 i16 i32 i64 int u8 u16 u32 u64 uint uintptr f32 f64 c64 c128 string
        (n I) (p T) (sl T) (ar N T) (m K V) (st T…) (ch T) func iface
values: (b 0|1) (i N) (f W BITS) (c W RE IM) (s HEX) nil (p A V) (sl A SPARE V…) (ar V…) (st V…)
        (m A (K V)…)
-/
import GoderiveModel.U.Ty
import GoderiveModel.U.Val

namespace Goderive

inductive SExp where
  | atom (s : String)
  | list (xs : List SExp)
  deriving Repr, Inhabited

namespace SExp

def tokenize (s : String) : List String := Id.run do
  let mut out : Array String := #[]
  let mut cur : String := ""
  for c in s.toList do
    if c == '(' || c == ')' then
      if cur != "" then out := out.push cur; cur := ""
      out := out.push (String.singleton c)
    else if c == ' ' || c == '\t' || c == '\n' || c == '\r' then
      if cur != "" then out := out.push cur; cur := ""
    else cur := cur.push c
  if cur != "" then out := out.push cur
  return out.toList

/-- parse a sequence of S-expressions until `)` or end; returns the rest -/
partial def parseSeq : List String → List SExp → Option (List SExp × List String)
  | [], acc => some (acc.reverse, [])
  | ")" :: rest, acc => some (acc.reverse, ")" :: rest)
  | "(" :: rest, acc =>
    match parseSeq rest [] with
    | some (xs, ")" :: rest') => parseSeq rest' (list xs :: acc)
    | _ => none
  | t :: rest, acc => parseSeq rest (atom t :: acc)

def parseAll (toks : List String) : Option (List SExp) :=
  match parseSeq toks [] with
  | some (xs, []) => some xs
  | _ => none

partial def toString : SExp → String
  | atom s => s
  | list xs => "(" ++ " ".intercalate (xs.map toString) ++ ")"

end SExp

open SExp

def basicOfAtom : String → Option Basic
  | "bool" => some .bool
  | "i8" => some (.int 8 true) | "i16" => some (.int 16 true) | "i32" => some (.int 32 true)
  | "i64" => some (.int 64 true) | "int" => some (.int 64 true)
  | "u8" => some (.int 8 false) | "u16" => some (.int 16 false) | "u32" => some (.int 32 false)
  | "u64" => some (.int 64 false) | "uint" => some (.int 64 false) | "uintptr" => some (.int 64 false)
  | "f32" => some (.float 32) | "f64" => some (.float 64)
  | "c64" => some (.complex 64) | "c128" => some (.complex 128)
  | "string" => some .string
  | _ => none

mutual
partial def parseTy : SExp → Option Ty
  | .atom "func" => some .func
  | .atom "iface" => some .iface
  | .atom a => (basicOfAtom a).map .basic
  | .list [.atom "n", .atom i] => i.toNat?.map .named
  | .list [.atom "p", t] => (parseTy t).map .ptr
  | .list [.atom "sl", t] => (parseTy t).map .slice
  | .list [.atom "ch", t] => (parseTy t).map .chan
  | .list [.atom "ar", .atom n, t] => do let n ← n.toNat?; let t ← parseTy t; pure (.array n t)
  | .list [.atom "m", k, v] => do let k ← parseTy k; let v ← parseTy v; pure (.map k v)
  | .list (.atom "st" :: fs) => (parseFields fs).map .struct
  | _ => none
partial def parseFields : List SExp → Option Ty
  | [] => some .fnil
  | f :: rest => do let t ← parseTy f; let r ← parseFields rest; pure (.fcons t r)
end

def hexVal (c : Char) : Option Nat :=
  if '0' ≤ c && c ≤ '9' then some (c.toNat - '0'.toNat)
  else if 'a' ≤ c && c ≤ 'f' then some (c.toNat - 'a'.toNat + 10)
  else none

def parseHex : List Char → Option (List Nat)
  | [] => some []
  | [_] => none
  | a :: b :: rest => do
    let x ← hexVal a; let y ← hexVal b; let r ← parseHex rest
    pure ((x * 16 + y) :: r)

mutual
partial def parseVal : SExp → Option Val
  | .atom "nil" => some .nilv
  | .list [.atom "b", .atom "0"] => some (.bool false)
  | .list [.atom "b", .atom "1"] => some (.bool true)
  | .list [.atom "i", .atom n] => n.toInt?.map .int
  | .list [.atom "f", .atom w, .atom b] => do pure (.flt (← w.toNat?) (← b.toNat?))
  | .list [.atom "c", .atom w, .atom a, .atom b] => do pure (.cplx (← w.toNat?) (← a.toNat?) (← b.toNat?))
  | .list [.atom "s"] => some (.str [])
  | .list [.atom "s", .atom h] => (parseHex h.toList).map .str
  | .list [.atom "p", .atom a, v] => do pure (.ptr (← a.toNat?) (← parseVal v))
  | .list (.atom "sl" :: .atom a :: .atom sp :: vs) => do pure (.slice (← a.toNat?) (← sp.toNat?) (← parseVals vs))
  | .list (.atom "ar" :: vs) => (parseVals vs).map .arr
  | .list (.atom "st" :: vs) => (parseVals vs).map .struct
  | .list (.atom "m" :: .atom a :: es) => do pure (.map (← a.toNat?) (← parseEntries es))
  | _ => none
partial def parseVals : List SExp → Option Val
  | [] => some .snil
  | v :: rest => do pure (.scons (← parseVal v) (← parseVals rest))
partial def parseEntries : List SExp → Option Val
  | [] => some .snil
  | .list [k, v] :: rest => do pure (.scons (.pair (← parseVal k) (← parseVal v)) (← parseEntries rest))
  | _ => none
end

def hexDigit (n : Nat) : Char :=
  if n < 10 then Char.ofNat ('0'.toNat + n) else Char.ofNat ('a'.toNat + n - 10)

def hexOfBytes (bs : List Nat) : String :=
  String.ofList (bs.flatMap fun b => [hexDigit (b / 16 % 16), hexDigit (b % 16)])

mutual
partial def printVal : Val → String
  | .bool b => if b then "(b 1)" else "(b 0)"
  | .int n => s!"(i {n})"
  | .flt w b => s!"(f {w} {b})"
  | .cplx w a b => s!"(c {w} {a} {b})"
  | .str [] => "(s)"
  | .str bs => s!"(s {hexOfBytes bs})"
  | .nilv => "nil"
  | .ptr a v => s!"(p {a} {printVal v})"
  | .slice a sp es => s!"(sl {a} {sp}{printSeq es})"
  | .arr es => s!"(ar{printSeq es})"
  | .struct es => s!"(st{printSeq es})"
  | .map a es => s!"(m {a}{printSeq es})"
  | .pair k v => s!"({printVal k} {printVal v})"
  | .snil => "()"
  | .scons h t => s!"({printVal h}{printSeq t})"
partial def printSeq : Val → String
  | .scons h t => " " ++ printVal h ++ printSeq t
  | _ => ""
end

end Goderive
