/-
Layer U: the formal universe of Go types used by the models.

`Ty` is first-order (field lists are `fnil`/`fcons` spines inside the same inductive) so that
`deriving DecidableEq`, structural recursion and the plain `induction` tactic all work.
-/
namespace Goderive

/-- Basic kinds. `int bits signed` covers all fixed and platform width integers
(`int`/`uint`/`uintptr` are 64 bit on the platform the tie runs on). -/
inductive Basic where
  | bool
  | int (bits : Nat) (signed : Bool)
  | float (bits : Nat)
  | complex (bits : Nat)      -- total width: 64 or 128
  | string
  deriving DecidableEq, Repr, Inhabited

inductive Ty where
  | basic (b : Basic)
  | named (i : Nat)                    -- index into `Env.decls`
  | ptr (t : Ty)
  | slice (t : Ty)
  | array (n : Nat) (t : Ty)
  | map (k v : Ty)
  | struct (fs : Ty)                   -- `fs` is an `fnil`/`fcons` spine
  | fnil
  | fcons (t : Ty) (rest : Ty)
  | chan (t : Ty)                      -- unsupported constituents (C09 stream)
  | func
  | iface
  deriving DecidableEq, Repr, Inhabited

/-- The shape of a user-declared Equal / Compare / Hash method of a corpus type. The corpus generator
emits bodies that look at the first field only (so that the method's answer differs from the structural
one); their semantics are in `S/Methods.lean`. -/
inductive UserFn where
  | ptr      -- pointer receiver and pointer parameter (nil-safe)
  | val      -- value receiver and value parameter
  deriving DecidableEq, Repr, Inhabited

structure Decl where
  under    : Ty                -- never `named` (go/types resolves chains)
  external : Bool := false     -- declared in another package
  priv     : Bool := false     -- has unexported fields (reflect/unsafe path when external)
  canEq    : Bool := false     -- cached `canEqual under` (checked by `Env.flagsOk`)
  privMask : List Bool := []   -- per field: unexported (only consulted when `external`)
  canEqM   : Bool := false     -- `canEqual` as plugin/equal computes it: a type with an Equal method is not `==`-compared
  eqM      : Option UserFn := none
  cmpM     : Option UserFn := none
  hashM    : Option UserFn := none
  copyM    : Option UserFn := none
  deriving Repr, Inhabited

structure Env where
  decls : List Decl
  deriving Repr, Inhabited

def Env.decl? (env : Env) (i : Nat) : Option Decl := env.decls[i]?

/-- `Underlying()` of go/types. A dangling name resolves to `fnil` (never well-typed). -/
def Env.under (env : Env) : Ty → Ty
  | .named i => match env.decl? i with
      | some d => d.under
      | none => .fnil
  | t => t

/-- per-field "unexported field of an imported struct" flags of a type (all false unless the type is
a name declared in another package) -/
def Env.skipMask (env : Env) : Ty → List Bool
  | .named i => match env.decl? i with
      | some d => if d.external then d.privMask else []
      | none => []
  | _ => []

def Ty.isNamed : Ty → Bool
  | .named _ => true
  | _ => false

/-- `canEqual` of plugin/equal (= `derive.IsComparable`): `==` is usable. Named types carry the
answer as a flag (`Decl.canEq`, validated by `Env.flagsOk`) so the function is structural. -/
def canEqual (env : Env) : Ty → Bool
  | .basic _ => true
  | .named i => match env.decl? i with
      | some d => d.canEq
      | none => false
  | .array _ t => canEqual env t
  | .struct fs => canEqual env fs
  | .fnil => true
  | .fcons t r => canEqual env t && canEqual env r
  | _ => false

/-- every declaration's cached flag is right, and no declaration's underlying type is a name -/
def Env.flagsOk (env : Env) : Bool :=
  env.decls.all fun d => d.canEq == canEqual env d.under && !d.under.isNamed

/-- length of an `fnil`/`fcons` spine -/
def Ty.flen : Ty → Nat
  | .fcons _ r => r.flen + 1
  | _ => 0

end Goderive
