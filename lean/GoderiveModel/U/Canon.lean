/-
Canonical printing of observed heaps: addresses renumbered in first-visit order (zero-size pointer
targets and zero-capacity slices get id 0, as the Go runtime gives them no identity), map entries
sorted by their printed key. Mirrors `harness/rt` `Obs`.
-/
import GoderiveModel.U.Val
import GoderiveModel.U.Wire

namespace Goderive
open Val

/-- values that occupy no memory: their addresses carry no identity in Go -/
def zeroSize : Val → Bool
  | .struct fs => zeroSize fs
  | .arr es => zeroSize es
  | .snil => true
  | .scons h t => zeroSize h && zeroSize t
  | _ => false

abbrev IdMap := List ((Nat × Nat) × Nat)

def IdMap.get (m : IdMap) (k : Nat × Nat) : IdMap × Nat :=
  match m.lookup k with
  | some i => (m, i)
  | none => let i := m.length + 1; (m ++ [(k, i)], i)

def insertSortedStr (e : String × String) : List (String × String) → List (String × String)
  | [] => [e]
  | h :: t => if e.1 < h.1 then e :: h :: t else h :: insertSortedStr e t

mutual
/-- print with canonical ids; state = id table -/
partial def canonVal (m : IdMap) : Val → IdMap × String
  | .ptr a v =>
    if zeroSize v then
      let (m, s) := canonVal m v; (m, s!"(p 0 {s})")
    else
      let (m, i) := m.get (0, a)
      let (m, s) := canonVal m v; (m, s!"(p {i} {s})")
  | .slice a sp es =>
    let (m, i) := if es.slen + sp == 0 then (m, 0) else m.get (1, a)
    let (m, s) := canonSeq m es; (m, s!"(sl {i} {sp}{s})")
  | .arr es => let (m, s) := canonSeq m es; (m, s!"(ar{s})")
  | .struct es => let (m, s) := canonSeq m es; (m, s!"(st{s})")
  | .map a es =>
    let (m, i) := m.get (2, a)
    -- keys are pointer-free: print them first, sort, then visit values in that order
    let keyed := es.toList.filterMap fun e => match e with
      | .pair k v => some (printVal k, v)
      | _ => none
    let sorted := keyed.foldl (fun acc (k, v) => insertSortedV (k, v) acc) []
    let (m, s) := sorted.foldl (fun (acc : IdMap × String) (kv : String × Val) =>
      let (m', vs) := canonVal acc.1 kv.2
      (m', acc.2 ++ s!" ({kv.1} {vs})")) (m, "")
    (m, s!"(m {i}{s})")
  | v => (m, printVal v)
partial def canonSeq (m : IdMap) : Val → IdMap × String
  | .scons h t =>
    let (m, s) := canonVal m h
    let (m, r) := canonSeq m t
    (m, " " ++ s ++ r)
  | _ => (m, "")
partial def insertSortedV (e : String × Val) : List (String × Val) → List (String × Val)
  | [] => [e]
  | h :: t => if e.1 < h.1 then e :: h :: t else h :: insertSortedV e t
end

/-- canonical joint observation of several values (shared numbering), answers use `,` for spaces -/
def canonAll (vs : List Val) : List String :=
  (vs.foldl (fun (acc : IdMap × List String) v =>
    let (m, s) := canonVal acc.1 v
    (m, acc.2 ++ [s.replace " " ","])) ([], [])).2

end Goderive
