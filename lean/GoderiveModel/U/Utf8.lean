/-
Go's `for _, c := range s` decoder (utf8.DecodeRuneInString): an invalid or truncated encoding
yields U+FFFD and consumes one byte. Validated against the Go runtime by the C04/C17 ties.
-/
namespace Goderive

def runeError : Nat := 0xFFFD

def isCont (lo hi b : Nat) : Bool := lo ≤ b && b ≤ hi

/-- decode one rune: returns (rune, width) -/
def decodeRune : List Nat → Nat × Nat
  | [] => (runeError, 0)
  | b0 :: rest =>
    if b0 < 0x80 then (b0, 1)
    else if 0xC2 ≤ b0 && b0 ≤ 0xDF then
      match rest with
      | b1 :: _ => if isCont 0x80 0xBF b1 then ((b0 % 0x20) * 0x40 + b1 % 0x40, 2) else (runeError, 1)
      | _ => (runeError, 1)
    else if 0xE0 ≤ b0 && b0 ≤ 0xEF then
      let lo := if b0 = 0xE0 then 0xA0 else 0x80
      let hi := if b0 = 0xED then 0x9F else 0xBF
      match rest with
      | b1 :: b2 :: _ =>
        if isCont lo hi b1 && isCont 0x80 0xBF b2 then
          ((b0 % 0x10) * 0x1000 + (b1 % 0x40) * 0x40 + b2 % 0x40, 3)
        else (runeError, 1)
      | _ => (runeError, 1)
    else if 0xF0 ≤ b0 && b0 ≤ 0xF4 then
      let lo := if b0 = 0xF0 then 0x90 else 0x80
      let hi := if b0 = 0xF4 then 0x8F else 0xBF
      match rest with
      | b1 :: b2 :: b3 :: _ =>
        if isCont lo hi b1 && isCont 0x80 0xBF b2 && isCont 0x80 0xBF b3 then
          ((b0 % 0x08) * 0x40000 + (b1 % 0x40) * 0x1000 + (b2 % 0x40) * 0x40 + b3 % 0x40, 4)
        else (runeError, 1)
      | _ => (runeError, 1)
    else (runeError, 1)

/-- all runes of a byte string, in order (fuel = length bounds the number of steps) -/
def decodeRunesAux : Nat → List Nat → List Nat
  | 0, _ => []
  | _, [] => []
  | fuel + 1, bs =>
    let (r, w) := decodeRune bs
    r :: decodeRunesAux fuel (bs.drop (max w 1))

def decodeRunes (bs : List Nat) : List Nat := decodeRunesAux bs.length bs

end Goderive
