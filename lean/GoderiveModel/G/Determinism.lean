/-
  G/Determinism — the places where goderive iterates over a Go map, as folds over an explicitly
  permuted list, and the name lookup that used to be one of them.

  Go's `for k, v := range m` visits the entries of m in an order the runtime re-randomises on every
  range statement. A map is therefore modelled as the list of its entries in *some* order, and every
  consumer is proved to give the same result for any two orders (`List.Perm` in, equal out).
  The sites (regenerated fact `Generated.mapRangeSites`, pinned in Props/C08):

    derive/generate.go:union              for k := range that { this[k] = struct{}{} }
    derive/generate.go:(*pkg).Done        for _, g := range pkg.generators { if !g.Done() { return false } }
    derive/printer.go:(*printer).WriteTo  for qual, path := range p.imports { pathToQual[path] = qual; paths = append(paths, path) }; sort.Strings(paths)

  derive/typesmap.go:(*typesMap).nameOf no longer ranges a map (two passes over the registration-ordered
  slices typss / names): it is modelled as a function of those slices.
-/
import GoderiveModel.G.Imports

namespace Goderive.G.Determinism
open Goderive.G.Imports

/-! ## 1. union of reserved-name sets

A Go `map[string]struct{}` that is only ever *queried* (`_, ok := reserved[name]`) is its membership
function. -/

abbrev NameSet := String → Bool

def emptySet : NameSet := fun _ => false

/-- `this[k] = struct{}{}` -/
def insert (s : NameSet) (k : String) : NameSet := fun x => x == k || s x

/-- `for k := range that { this[k] = struct{}{} }` with `that` visited in the given order -/
def union (this : NameSet) (that : List String) : NameSet := that.foldl insert this

theorem insert_comm (s : NameSet) (a b : String) : insert (insert s a) b = insert (insert s b) a := by
  funext x; simp only [insert]; cases (x == a) <;> cases (x == b) <;> simp

theorem insert_idem (s : NameSet) (a : String) : insert (insert s a) a = insert s a := by
  funext x; simp only [insert]; cases (x == a) <;> simp

theorem union_perm {this : NameSet} {that₁ that₂ : List String} (h : that₁.Perm that₂) :
    union this that₁ = union this that₂ :=
  List.Perm.foldl_eq' h (fun x _ y _ z => insert_comm z x y) this

theorem union_apply (this : NameSet) (that : List String) (x : String) :
    union this that x = (this x || that.contains x) := by
  induction that generalizing this with
  | nil => simp [union]
  | cons k ks ih =>
    simp only [union, List.foldl_cons] at ih ⊢
    rw [ih]
    simp only [insert, List.contains_cons]
    cases (x == k) <;> cases (this x) <;> simp

/-- `reserved = union(reserved, fileFuncs.funcNames)` over the files, each file's set visited in its own order -/
def reserved (files : List (List String)) : NameSet := files.foldl union emptySet

/-- the same files, each file's name set visited in a possibly different order -/
inductive PermEach : List (List String) → List (List String) → Prop
  | nil : PermEach [] []
  | cons {f₁ f₂ : List String} {r₁ r₂ : List (List String)} : f₁.Perm f₂ → PermEach r₁ r₂ → PermEach (f₁ :: r₁) (f₂ :: r₂)

theorem foldl_union_perm {fs₁ fs₂ : List (List String)} (h : PermEach fs₁ fs₂) :
    ∀ (s : NameSet), fs₁.foldl union s = fs₂.foldl union s := by
  induction h with
  | nil => intro s; rfl
  | cons hf _ ih =>
    intro s
    simp only [List.foldl_cons]
    rw [union_perm hf]
    exact ih _

theorem reserved_perm {fs₁ fs₂ : List (List String)} (h : PermEach fs₁ fs₂) :
    reserved fs₁ = reserved fs₂ := foldl_union_perm h _

/-! ## 2. pkg.Done -/

/-- the loop with its early return; the list holds the answers `g.Done()` of the generators in visiting order -/
def doneLoop : List Bool → Bool
  | [] => true
  | g :: gs => if !g then false else doneLoop gs

theorem doneLoop_eq_all (l : List Bool) : doneLoop l = l.all id := by
  induction l with
  | nil => rfl
  | cons g gs ih => cases g <;> simp [doneLoop, ih]

theorem doneLoop_perm {l₁ l₂ : List Bool} (h : l₁.Perm l₂) : doneLoop l₁ = doneLoop l₂ := by
  rw [doneLoop_eq_all, doneLoop_eq_all]; exact h.all_eq

/-! `g.Done()` is not pure: typesMap.Done → isGenerated → nameOf re-qualifies every named argument type
(`tm.qual(pkg)`), which invokes the NewImport closure. With the early return, WHICH generators are
consulted depends on the map order. The effectful loop: each generator first replays its import requests,
then answers. -/

structure GenDone where
  reqs : List Req
  answer : Bool

def replay (unv full : String → String) (sfx : String → Nat → String) : Table → List Req → Option Table
  | t, [] => some t
  | t, r :: rs => match newImport unv full sfx t r with
    | none => none
    | some (t', _) => replay unv full sfx t' rs

def doneLoopM (unv full : String → String) (sfx : String → Nat → String) : Table → List GenDone → Option (Table × Bool)
  | t, [] => some (t, true)
  | t, g :: gs =>
    match replay unv full sfx t g.reqs with
    | none => none
    | some t' => if !g.answer then some (t', false) else doneLoopM unv full sfx t' gs

/-- a request is settled in t: asking again returns without changing the table -/
def Settled (unv full : String → String) (sfx : String → Nat → String) (t : Table) (r : Req) : Prop :=
  ∃ a, newImport unv full sfx t r = some (t, a)

theorem replay_settled {unv full : String → String} {sfx : String → Nat → String} {t : Table} :
    ∀ {rs : List Req}, (∀ r ∈ rs, Settled unv full sfx t r) → replay unv full sfx t rs = some t
  | [], _ => rfl
  | r :: rs, h => by
    obtain ⟨a, ha⟩ := h r (List.mem_cons_self ..)
    simp only [replay, ha]
    exact replay_settled (fun r' hr' => h r' (List.mem_cons_of_mem _ hr'))

theorem doneLoopM_settled {unv full : String → String} {sfx : String → Nat → String} {t : Table} :
    ∀ {gs : List GenDone}, (∀ g ∈ gs, ∀ r ∈ g.reqs, Settled unv full sfx t r) →
      doneLoopM unv full sfx t gs = some (t, doneLoop (gs.map (·.answer)))
  | [], _ => rfl
  | g :: gs, h => by
    simp only [doneLoopM, replay_settled (h g (List.mem_cons_self ..)), List.map_cons, doneLoop]
    cases g.answer
    · simp
    · simp only [Bool.not_true, Bool.false_eq_true, if_false]
      exact doneLoopM_settled (fun g' hg' => h g' (List.mem_cons_of_mem _ hg'))

/-- Every request that was made while the table was built is settled in the final table: tables only grow
at the end, and a settled request stays settled (Imports.newImport_after). -/
theorem run_extends {unv full : String → String} {sfx : String → Nat → String} :
    ∀ {rs : List Req} {t t' : Table} {as : List String}, run unv full sfx t rs = some (t', as) → ∃ u, t' = t ++ u
  | [], t, t', as, h => by simp [run] at h; exact ⟨[], by simp [h.1]⟩
  | r :: rs, t, t', as, h => by
    unfold run at h
    split at h
    · simp at h
    · next t1 a h1 =>
      split at h
      · simp at h
      · next t2 as2 h2 =>
        simp only [Option.some.injEq, Prod.mk.injEq] at h
        obtain ⟨rfl, _⟩ := h
        obtain ⟨u2, rfl⟩ := run_extends h2
        have : ∃ u1, t1 = t ++ u1 := newImport_extends h1
        obtain ⟨u1, rfl⟩ := this
        exact ⟨u1 ++ u2, by simp⟩

theorem run_settles {unv full : String → String} {sfx : String → Nat → String} :
    ∀ {rs : List Req} {t t' : Table} {as : List String}, run unv full sfx t rs = some (t', as) →
      ∀ r ∈ rs, Settled unv full sfx t' r
  | [], _, _, _, _, r, hr => by simp at hr
  | r0 :: rs, t, t', as, h, r, hr => by
    unfold run at h
    split at h
    · simp at h
    · next t1 a h1 =>
      split at h
      · simp at h
      · next t2 as2 h2 =>
        simp only [Option.some.injEq, Prod.mk.injEq] at h
        obtain ⟨rfl, _⟩ := h
        rcases List.mem_cons.1 hr with rfl | hr
        · obtain ⟨u, rfl⟩ := run_extends h2
          exact ⟨a, newImport_after h1 u⟩
        · exact run_settles h2 r hr

/-! ## 3. printer.WriteTo: the import block -/

/-- `pathToQual[path] = qual` in visiting order: the last entry with that path wins -/
def qualOf (entries : Table) (p : String) : Option String :=
  entries.foldl (fun acc e => if e.2 = p then some e.1 else acc) none

/-- The import block: paths collected in visiting order, sorted, each printed with its alias. -/
def writeTo (le : String → String → Bool) (entries : Table) : List (Option String × String) :=
  ((entries.map (·.2)).mergeSort le).map (fun p => (qualOf entries p, p))

/-- one alias per path (Imports.Inv.vals_unique) -/
def OneAliasPerPath (entries : Table) : Prop :=
  ∀ a b p, (a, p) ∈ entries → (b, p) ∈ entries → a = b

private theorem qualOf_foldl (entries : Table) (p : String) (acc : Option String) :
    entries.foldl (fun acc e => if e.2 = p then some e.1 else acc) acc =
      match (entries.reverse.find? (fun e => e.2 = p)) with
      | some e => some e.1
      | none => acc := by
  induction entries generalizing acc with
  | nil => simp
  | cons e es ih =>
    simp only [List.foldl_cons, List.reverse_cons, List.find?_append]
    rw [ih]
    cases h : es.reverse.find? (fun e => decide (e.2 = p)) with
    | some x => simp
    | none =>
      by_cases hp : e.2 = p <;> simp [hp]

theorem qualOf_of_mem {entries : Table} (h1 : OneAliasPerPath entries) {a p : String}
    (hm : (a, p) ∈ entries) : qualOf entries p = some a := by
  unfold qualOf
  rw [qualOf_foldl]
  cases h : entries.reverse.find? (fun e => decide (e.2 = p)) with
  | some x =>
    have hx := List.find?_some h
    have hmem := List.mem_of_find?_eq_some h
    simp only [decide_eq_true_eq] at hx
    have : (x.1, p) ∈ entries := by
      have := List.mem_reverse.1 hmem
      rw [← hx]; exact this
    simp [h1 _ _ _ this hm]
  | none =>
    have := List.find?_eq_none.1 h (a, p) (List.mem_reverse.2 hm)
    simp at this

theorem qualOf_none_of_not_mem {entries : Table} {p : String} (h : p ∉ entries.map (·.2)) :
    qualOf entries p = none := by
  unfold qualOf
  rw [qualOf_foldl]
  cases hf : entries.reverse.find? (fun e => decide (e.2 = p)) with
  | none => rfl
  | some x =>
    have hx := List.find?_some hf
    have hmem := List.mem_reverse.1 (List.mem_of_find?_eq_some hf)
    simp only [decide_eq_true_eq] at hx
    exact absurd (List.mem_map.2 ⟨x, hmem, hx⟩) h

theorem qualOf_perm {e₁ e₂ : Table} (h1 : OneAliasPerPath e₁) (hp : e₁.Perm e₂) (p : String) :
    qualOf e₁ p = qualOf e₂ p := by
  have h2 : OneAliasPerPath e₂ := fun a b q ha hb => h1 a b q (hp.mem_iff.2 ha) (hp.mem_iff.2 hb)
  by_cases hm : p ∈ e₁.map (·.2)
  · obtain ⟨⟨a, q⟩, hmem, rfl⟩ := List.mem_map.1 hm
    rw [qualOf_of_mem h1 hmem, qualOf_of_mem h2 (hp.mem_iff.1 hmem)]
  · rw [qualOf_none_of_not_mem hm, qualOf_none_of_not_mem (fun h => hm ((hp.map _).mem_iff.2 h))]

/-- sorting forgets the visiting order (contract of sort.Strings: `le` is a total order) -/
theorem mergeSort_perm_eq {le : String → String → Bool}
    (trans : ∀ a b c, le a b = true → le b c = true → le a c = true)
    (total : ∀ a b, (le a b || le b a) = true)
    (antisymm : ∀ a b, le a b = true → le b a = true → a = b)
    {l₁ l₂ : List String} (h : l₁.Perm l₂) : l₁.mergeSort le = l₂.mergeSort le := by
  apply List.Perm.eq_of_pairwise (le := fun a b => le a b = true)
  · intro a b _ _ hab hba; exact antisymm a b hab hba
  · exact List.pairwise_mergeSort trans total l₁
  · exact List.pairwise_mergeSort trans total l₂
  · exact (List.mergeSort_perm l₁ le).trans (h.trans (List.mergeSort_perm l₂ le).symm)

theorem writeTo_perm {le : String → String → Bool}
    (trans : ∀ a b c, le a b = true → le b c = true → le a c = true)
    (total : ∀ a b, (le a b || le b a) = true)
    (antisymm : ∀ a b, le a b = true → le b a = true → a = b)
    {e₁ e₂ : Table} (h1 : OneAliasPerPath e₁) (hp : e₁.Perm e₂) :
    writeTo le e₁ = writeTo le e₂ := by
  unfold writeTo
  rw [mergeSort_perm_eq trans total antisymm (hp.map (·.2))]
  apply List.map_congr_left
  intro p _
  rw [qualOf_perm h1 hp p]

/-! ## 4. nameOf — registration order, exact match first, then assignable

    for i, ts := range tm.typss { if identical(typs, ts) { return tm.names[i], true } }
    for i, ts := range tm.typss { if eq(typs, ts)        { return tm.names[i], true } }
    return "", false

  `ident` (types.Identical on defaulted types) and `assign` (types.AssignableTo) are parameters. -/

section NameOf
variable {Ty : Type} (ident assign : List Ty → List Ty → Bool)

/-- the name table: typss and names in registration order (same length) -/
structure TM (Ty : Type) where
  typss : List (List Ty)
  names : List String
  deriving DecidableEq

def firstMatch (f : List Ty → Bool) : List (List Ty) → List String → Option String
  | ts :: tss, n :: ns => if f ts then some n else firstMatch f tss ns
  | _, _ => none

def nameOf (tm : TM Ty) (typs : List Ty) : Option String :=
  match firstMatch (ident typs) tm.typss tm.names with
  | some n => some n
  | none => firstMatch (assign typs) tm.typss tm.names

theorem firstMatch_some_of_mem {f : List Ty → Bool} :
    ∀ {tss : List (List Ty)} {ns : List String} {ts : List Ty}, tss.length = ns.length → ts ∈ tss → f ts = true →
      (firstMatch f tss ns).isSome
  | [], _, _, _, h, _ => by simp at h
  | t :: tss, [], _, hl, _, _ => by simp at hl
  | t :: tss, n :: ns, ts, hl, hm, hf => by
    unfold firstMatch
    by_cases ht : f t = true
    · simp [ht]
    · simp only [ht]
      rcases List.mem_cons.1 hm with rfl | hm
      · exact absurd hf ht
      · exact firstMatch_some_of_mem (by simpa using hl) hm hf

/-- an exact match always wins over a merely assignable one, whatever was registered before it -/
theorem nameOf_exact_first (tm : TM Ty) (typs : List Ty) (n : String)
    (h : firstMatch (ident typs) tm.typss tm.names = some n) : nameOf ident assign tm typs = some n := by
  simp [nameOf, h]

/-- a registered type list is always found (types.Identical is reflexive): `Generating` cannot panic on
type lists taken from the table -/
theorem nameOf_registered (tm : TM Ty) (hl : tm.typss.length = tm.names.length)
    (hrefl : ∀ ts, ident ts ts = true) {ts : List Ty} (hm : ts ∈ tm.typss) :
    (nameOf ident assign tm ts).isSome := by
  unfold nameOf
  have := firstMatch_some_of_mem (f := ident ts) hl hm (hrefl ts)
  cases h : firstMatch (ident ts) tm.typss tm.names with
  | some n => simp
  | none => simp [h] at this

/-- the lookup before the fix: first assignable entry in MAP order (kept to show what the fact check guards) -/
def nameOfMapOrder (visiting : List (String × List Ty)) (typs : List Ty) : Option String :=
  (visiting.find? (fun e => assign typs e.2)).map (·.1)

/-- `funcToTyps[name]` -/
def typsOf : List (List Ty) → List String → String → Option (List Ty)
  | ts :: tss, n :: ns, name => if n = name then some ts else typsOf tss ns name
  | _, _, _ => none

inductive SetRes (Ty : Type)
  | ok (name : String) (tm : TM Ty)
  | err (msg : String)
  deriving DecidableEq

/-- typesMap.SetFuncName. `fresh` stands for GetFuncName (newName + SetFuncName) in the autoname branch. -/
def setFuncName (autoname dedup : Bool) (fresh : TM Ty → List Ty → String) (tm : TM Ty)
    (name : String) (typs : List Ty) : SetRes Ty :=
  match nameOf ident assign tm typs with
  | some f =>
    if f = name then .ok name tm
    else if dedup then .ok f tm
    else .err "ambigious function names"
  | none =>
    match typsOf tm.typss tm.names name with
    | some ts =>
      if assign ts typs then .ok name tm
      else if autoname then .ok (fresh tm typs) tm
      else .err "conflicting function names"
    | none => .ok name ⟨tm.typss ++ [typs], tm.names ++ [name]⟩

/-- Without -autoname and -dedup SetFuncName returns the name it was given or fails: the
`panic("unreachable: function names cannot be changed …")` in newPackage is unreachable. -/
theorem setFuncName_noflags (fresh : TM Ty → List Ty → String) (tm tm' : TM Ty) (name n' : String)
    (typs : List Ty) (h : setFuncName ident assign false false fresh tm name typs = .ok n' tm') : n' = name := by
  unfold setFuncName at h
  split at h
  · split at h
    · cases h; rfl
    · simp at h
  · split at h
    · split at h
      · cases h; rfl
      · simp at h
    · cases h; rfl

/-- GetFuncName drops SetFuncName's error: it cannot occur, because the name comes from newName, whose loop
only exits on a name that is not in funcToTyps, and nameOf has just failed. -/
theorem setFuncName_fresh_ok (autoname dedup : Bool) (fresh : TM Ty → List Ty → String) (tm : TM Ty)
    (name : String) (typs : List Ty) (h1 : nameOf ident assign tm typs = none)
    (h2 : typsOf tm.typss tm.names name = none) :
    setFuncName ident assign autoname dedup fresh tm name typs =
      .ok name ⟨tm.typss ++ [typs], tm.names ++ [name]⟩ := by
  simp [setFuncName, h1, h2]

end NameOf

end Goderive.G.Determinism
