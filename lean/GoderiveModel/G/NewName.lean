/-
Layer G: the fresh-name search of `typesMap.newName` (derive/typesmap.go).

Go strings are byte sequences, so a function name is modelled as a list of byte values (`Name`).
Since the repair 35849dc the type name is extended letter by letter (`letters := []rune(name)`), so the
name fragment is modelled as its list of letters (`Letter` = the non-empty UTF-8 encoding of one rune;
type names are identifiers, hence valid UTF-8, so `name` is the concatenation of its letters).
The candidate sequence of the Go loop is

    prefix, prefix_, prefix_N, prefix_Na, …, prefix_Name, prefix_Name<len+1>, prefix_Name<len+2>, …

(`seqAt`): the first candidate is the bare prefix; iteration `i` of the loop builds
`prefix + "_" + string(letters[:i])` while `i ≤ len(letters)` and `prefix + "_" + name + strconv.Itoa(i)`
afterwards.

The Go loop has no bound. The model runs the same loop with `fuel` = number of names that can be
taken (table entries + reserved names); `Lemmas/TypesMap.lean` proves that the candidates are
pairwise distinct, hence (pigeonhole) the loop always exits through the "not taken" branch before the
fuel is used up, and that the result is the *first* candidate that is not taken — which is exactly what
the unbounded Go loop computes, and shows that it terminates.
-/
namespace Goderive.G

/-- a Go string: its bytes -/
abbrev Name := List Nat

/-- bytes of an ASCII literal (used for constants of the model; exact for ASCII only) -/
def asc (s : String) : Name := s.toList.map Char.toNat

/-- decimal digits, most significant first (`fuel ≥ n` is enough) -/
def itoaAux : Nat → Nat → Name
  | 0, n => [48 + n % 10]
  | fuel + 1, n => if n < 10 then [48 + n] else itoaAux fuel (n / 10) ++ [48 + n % 10]

/-- `strconv.Itoa` on naturals -/
def itoa (n : Nat) : Name := itoaAux n n

/-- the byte `_` -/
def underscore : Nat := 95

/-- one letter of a type name: the (non-empty) UTF-8 encoding of one rune -/
structure Letter where
  head : Nat
  tail : List Nat
  deriving DecidableEq, Repr

def Letter.bytes (l : Letter) : Name := l.head :: l.tail

/-- `string(letters)` -/
def flat (ls : List Letter) : Name := ls.flatMap Letter.bytes

/-- the candidate built by loop iteration `i`
(Go: `if i > len(letters) {…name + Itoa(i)} else {…string(letters[:i])}`) -/
def cand (pfx : Name) (name : List Letter) (i : Nat) : Name :=
  if i > name.length then pfx ++ underscore :: (flat name ++ itoa i)
  else pfx ++ underscore :: flat (name.take i)

/-- the whole candidate sequence: index 0 is the bare prefix, index `k+1` is iteration `k` -/
def seqAt (pfx : Name) (name : List Letter) : Nat → Name
  | 0 => pfx
  | k + 1 => cand pfx name k

/-- the `for exists || isreserved` loop, entered after candidate `seqAt k` was found taken;
`fuel` bounds the number of further candidates tested -/
def newNameLoop (taken : Name → Bool) (pfx : Name) (name : List Letter) : Nat → Nat → Name
  | 0, i => cand pfx name i
  | fuel + 1, i =>
    if taken (cand pfx name i) then newNameLoop taken pfx name fuel (i + 1) else cand pfx name i

/-- `newName` over an abstract `taken` predicate; `bound` = an upper bound on the number of taken names -/
def newNameWith (taken : Name → Bool) (bound : Nat) (pfx : Name) (name : List Letter) : Name :=
  if taken pfx then newNameLoop taken pfx name bound 0 else pfx

end Goderive.G
