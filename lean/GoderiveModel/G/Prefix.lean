/-
Layer G: plugin prefixes (derive/generate.go `sortPlugins`, `pkg.Add`; main.go prefix flags).

* `pluginLess` is the comparison given to `sort.Slice`: longer prefix first, ties by string descending
  (Go compares strings bytewise).
* `sort.Slice` itself is a trusted component; its contract is `SortContract`: the result is a
  permutation of the input in which no later element is `less` than an earlier one. `sortPrefixes` is
  one function satisfying it (insertion sort); for pairwise distinct prefixes every function that
  satisfies the contract returns the same list (`Props/C12.sort_canonical`).
* `handler` is the first-match dispatch of `pkg.Add` / the `HasUndefined` loop of `newPackage`.
* `replaceFirst` is `strings.Replace(s, old, new, 1)`; `rho p` is what main.go applies to every plugin's
  default prefix for `-prefix=p`; `applyOverrides` adds the `-pluginprefix` map.
-/
import GoderiveModel.G.NewName

namespace Goderive.G

/-- bytewise lexicographic `<` on Go strings -/
def ltBytes : Name → Name → Bool
  | [], [] => false
  | [], _ :: _ => true
  | _ :: _, [] => false
  | a :: as, b :: bs => if a < b then true else if b < a then false else ltBytes as bs

/-- the `less` of `sortPlugins`: `len(a) > len(b)`, and for equal lengths `a > b` -/
def pluginLess (a b : Name) : Bool :=
  if a.length = b.length then ltBytes b a else a.length > b.length

/-- contract of `sort.Slice(ps, less)` for a strict weak order `less` -/
def SortContract (less : Name → Name → Bool) (inp out : List Name) : Prop :=
  out.Perm inp ∧ out.Pairwise (fun a b => less b a = false)

def insertBy (less : Name → Name → Bool) (x : Name) : List Name → List Name
  | [] => [x]
  | y :: ys => if less y x then y :: insertBy less x ys else x :: y :: ys

/-- one implementation of the contract (stable insertion sort) -/
def sortBy (less : Name → Name → Bool) : List Name → List Name
  | [] => []
  | x :: xs => insertBy less x (sortBy less xs)

def sortPrefixes (ps : List Name) : List Name := sortBy pluginLess ps

/-- sort plugins given as (name, prefix) pairs by prefix (insertion sort on the pairs) -/
def insertPlugin (x : Name × Name) : List (Name × Name) → List (Name × Name)
  | [] => [x]
  | y :: ys => if pluginLess y.2 x.2 then y :: insertPlugin x ys else x :: y :: ys

def sortPlugins : List (Name × Name) → List (Name × Name)
  | [] => []
  | x :: xs => insertPlugin x (sortPlugins xs)

/-- `strings.HasPrefix(name, p)` -/
def hasPrefix (name p : Name) : Bool := p.isPrefixOf name

/-- index of the first plugin (in the given, i.e. sorted, order) whose prefix is a prefix of `name` -/
def handlerFrom (name : Name) : List Name → Nat → Option Nat
  | [], _ => none
  | p :: ps, i => if hasPrefix name p then some i else handlerFrom name ps (i + 1)

def handler (prefixes : List Name) (name : Name) : Option Nat := handlerFrom name prefixes 0

/-- the prefix of the handling plugin -/
def dispatch : List Name → Name → Option Name
  | [], _ => none
  | p :: ps, name => if hasPrefix name p then some p else dispatch ps name

/-- `strings.Replace(s, old, new, 1)` for non-empty `old` -/
def replaceFirst (old new : Name) : Name → Name
  | [] => []
  | c :: cs => if old.isPrefixOf (c :: cs) then new ++ (c :: cs).drop old.length
               else c :: replaceFirst old new cs

def derive : Name := asc "derive"

/-- what `-prefix=p` does to a plugin's default prefix -/
def rho (p : Name) (s : Name) : Name := replaceFirst derive p s

/-- renaming of an identifier that starts with `old`: the leading `old` becomes `new` -/
def rename (old new : Name) (s : Name) : Name :=
  if old.isPrefixOf s then new ++ s.drop old.length else s

/-- main.go: prefix of plugin `(name, default)` under `-prefix=p -pluginprefix=ov` -/
def effectivePrefix (p : Name) (ov : List (Name × Name)) (pl : Name × Name) : Name :=
  match ov.lookup pl.1 with
  | some q => q
  | none => rho p pl.2

/-- The plugins of main.go in registration order with their default prefixes
(`derive.NewPlugin(name, prefix, New)` in plugin/*/*.go). Compared with the source on every run of
the C12 check (T4). -/
def defaultPlugins : List (String × String) := [
  ("equal", "deriveEqual"), ("compare", "deriveCompare"), ("fmap", "deriveFmap"), ("join", "deriveJoin"),
  ("keys", "deriveKeys"), ("sort", "deriveSort"), ("deepcopy", "deriveDeepCopy"), ("set", "deriveSet"),
  ("min", "deriveMin"), ("max", "deriveMax"), ("contains", "deriveContains"),
  ("intersect", "deriveIntersect"), ("union", "deriveUnion"), ("filter", "deriveFilter"),
  ("takewhile", "deriveTakeWhile"), ("unique", "deriveUnique"), ("flip", "deriveFlip"),
  ("toerror", "deriveToError"), ("curry", "deriveCurry"), ("uncurry", "deriveUncurry"),
  ("all", "deriveAll"), ("any", "deriveAny"), ("tuple", "deriveTuple"), ("gostring", "deriveGoString"),
  ("compose", "deriveCompose"), ("do", "deriveDo"), ("pipeline", "derivePipeline"), ("dup", "deriveDup"),
  ("clone", "deriveClone"), ("hash", "deriveHash"), ("mem", "deriveMem"), ("traverse", "deriveTraverse"),
  ("apply", "deriveApply")]

def defaultPrefixes : List Name := defaultPlugins.map fun p => asc p.2

/-- no element is a prefix of another element at a different position -/
def prefixFree : List Name → Bool
  | [] => true
  | p :: ps => ps.all (fun q => !p.isPrefixOf q && !q.isPrefixOf p) && prefixFree ps

end Goderive.G
