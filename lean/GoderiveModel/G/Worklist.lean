/-
Layer G: the generate-until-done work list of `pkg.Generate` (derive/generate.go):

    for !pkg.Done() {                              -- `run` (fuel-bounded), `isDone`
        for _, plugin := range pkg.plugins {       -- `round`: plugins `0 .. P-1` in their fixed order
            g := pkg.generators[plugin.Name()]
            for _, typs := range g.ToGenerate() {  -- `pluginTurn`: SNAPSHOT `pending s p`, taken when p's turn comes
                g.Generate(typs)                   -- `generate`: `Generating(typs)`, emit, `GetFuncName`s
            }
        }
    }

Abstraction. A key `(p, i)` stands for "argument type list number `i` of plugin `p`" (type lists up to
`nameOf`'s lookup; the lookup itself is `G/TypesMap`). `req k` is the ordered list of `GetFuncName`
calls that `Generate` performs for `k`, on this plugin or on other plugins (`G/Requests` instantiates
it; here it is a parameter). Errors of `Generate` are not part of this model (`req` is total): the Go
loop returns at the first error, which is a prefix of the run described here.

State: the tables of all plugins as ONE list `keys` in registration order (plugin `p`'s table
`typss` is `keys.filter (·.1 = p)`; only the relative order inside one plugin is ever observed, by
`pending`), and `emitted`, the keys whose function has been emitted, in emission order
(`generated[name] = true` is set by `Generating` at the start of `Generate`, the function is printed
by the same call).
-/

namespace Goderive.G.Worklist

/-- `(plugin index in pkg.plugins, id of the argument type list)` -/
abbrev Key := Nat × Nat

structure State where
  /-- all tables, registration order -/
  keys : List Key := []
  /-- generated keys, emission order -/
  emitted : List Key := []
  deriving Repr, DecidableEq

/-- `GetFuncName` / `Add` on the owning plugin's table: a new entry is appended only if there is none -/
def addKey (s : State) (k : Key) : State :=
  if k ∈ s.keys then s else { s with keys := s.keys ++ [k] }

/-- `newPackage`: the derive calls found in the package are registered in order; nothing is generated -/
def initState (init : List Key) : State :=
  init.foldl addKey {}

/-- `tm.isGenerated` -/
def isGenerated (s : State) (k : Key) : Bool :=
  decide (k ∈ s.emitted)

/-- `g.Generate(typs)`: mark generated and emit, then the helper requests in order -/
def generate (req : Key → List Key) (s : State) (k : Key) : State :=
  (req k).foldl addKey { s with emitted := s.emitted ++ [k] }

/-- `g.ToGenerate()` of plugin `p`: a fresh slice of its not yet generated keys, registration order -/
def pending (s : State) (p : Nat) : List Key :=
  s.keys.filter fun k => k.1 == p && !isGenerated s k

/-- the inner `for _, typs := range snapshot` -/
def genAll (req : Key → List Key) (s : State) (ks : List Key) : State :=
  ks.foldl (generate req) s

/-- one plugin's turn: snapshot, then generate every key of the snapshot -/
def pluginTurn (req : Key → List Key) (s : State) (p : Nat) : State :=
  genAll req s (pending s p)

/-- the turns of the plugins `ps`, in that order -/
def turns (req : Key → List Key) (ps : List Nat) (s : State) : State :=
  ps.foldl (pluginTurn req) s

/-- `for _, plugin := range pkg.plugins { … }` with `P` plugins -/
def round (req : Key → List Key) (P : Nat) (s : State) : State :=
  turns req (List.range P) s

/-- `pkg.Done()`: every key of every table is generated -/
def isDone (s : State) : Bool :=
  s.keys.all (isGenerated s)

/-- `for !pkg.Done() { round }`, at most `fuel - 1` rounds; `none` = fuel exhausted -/
def run (req : Key → List Key) (P : Nat) : Nat → State → Option State
  | 0, _ => none
  | fuel + 1, s => if isDone s then some s else run req P fuel (round req P s)

/-! ### specification side -/

/-- the derive calls of the package and every helper needed transitively -/
inductive Reach (req : Key → List Key) (init : List Key) : Key → Prop
  | init {k} : k ∈ init → Reach req init k
  | step {k r} : Reach req init k → r ∈ req k → Reach req init r

/-- the states the loop can be in between two `Generate` calls: the initial tables, and from there any
sequence of `Generate` calls on a registered, not yet generated key (this over-approximates the loop:
any plugin order, any snapshot discipline) -/
inductive Reachable (req : Key → List Key) (init : List Key) : State → Prop
  | init : Reachable req init (initState init)
  | gen {s k} : Reachable req init s → k ∈ s.keys → k ∉ s.emitted →
      Reachable req init (generate req s k)

/-- the invariant of the work list -/
structure Inv (req : Key → List Key) (init : List Key) (s : State) : Prop where
  emitted_sub : ∀ k ∈ s.emitted, k ∈ s.keys
  keys_nodup : s.keys.Nodup
  emitted_nodup : s.emitted.Nodup
  keys_reach : ∀ k ∈ s.keys, Reach req init k
  init_sub : ∀ k ∈ init, k ∈ s.keys
  req_closed : ∀ k ∈ s.emitted, ∀ r ∈ req k, r ∈ s.keys

end Goderive.G.Worklist
