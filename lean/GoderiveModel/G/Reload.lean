/-
Layer G: the write / reload / retry loop of `generatePackage` over an abstract loader (C07).

A derive call's argument is either typed by the user's own expressions (`known`) or its type is the
result type of another derive call (`resultOf callee`): then the loader takes it from the signature
of `callee` in the derived.gen.go *currently on disk* — which may be stale, truncated or absent.
`GenFn` abstracts what a plugin's `Add` + `Generate` do for given argument types: the result type of
the emitted function, `addFails` when `Add` rejects the arguments, `generateFails` when `Add` accepts
them and `Generate` (of the function or of a helper it asks for) then fails.

The model is RUN next to the real goderive (driver op `regen`, `Driver/OpsRegen.lean`; scenarios of
`harness/cmd/genregen`; comparison in `vlib/regen.py`): same calls, same old file, `GenFn` tabulated
from one-call runs of the real plugins; invocations over several packages by `invocation` (op `regenall`)
in the order `G/Order.generationOrder` gives.  Types are numbered such that two distinct numbers are not
assignable to each other (the scenario generator uses no two types with one underlying type).
-/
namespace Goderive.Reload

inductive Arg where
  | known (t : Nat)
  | resultOf (callee : Nat)
  deriving DecidableEq, Repr

/-- function names, plugins and call texts are numbered (the harness maps them to identifiers):
`plugin` is the plugin whose prefix the name starts with, `text` the call as it is written
(`types.ExprString`: what the loop compares from pass to pass) -/
structure Call where
  name : Nat
  plugin : Nat
  text : Nat
  args : List Arg
  deriving DecidableEq, Repr

/-- the derived file as the loader sees it: declared function ↦ result type, in file order -/
abbrev Derived := List (Nat × Nat)
/-- what a plugin does for given argument types -/
inductive Gen where
  | emits (r : Nat)     -- `Add` accepts, `Generate` writes a function with this result type
  | addFails            -- `Add` refuses the argument types ("Add Error", in `newPackage`)
  | generateFails       -- `Add` accepts (the name table gets its entry), `Generate` fails ("Generator Error")
  deriving DecidableEq, Repr

/-- plugin, argument types ↦ what the plugin does -/
abbrev GenFn := Nat → List Nat → Gen

/-- one entry of a plugin's `typesMap`: a function that this pass is to emit (`result = none`: its
generation will fail) -/
structure Fn where
  name : Nat
  plugin : Nat
  ts : List Nat
  result : Option Nat
  deriving DecidableEq, Repr

def argType (d : Derived) : Arg → Option Nat
  | .known t => some t
  | .resultOf f => d.lookup f

def argTypes (d : Derived) (c : Call) : Option (List Nat) := c.args.mapM (argType d)

/-- `typesMap.SetFuncName` (per plugin; without -autoname / -dedup): a function of this plugin for
these types exists — under this name: nothing new; under another name: "ambigious function names";
the name is taken for other types: "conflicting function names"; else a new entry.
(The types a plugin registers are a function of the accepted argument types and determine them.) -/
def setFuncName (reg : List Fn) (c : Call) (ts : List Nat) (r : Option Nat) : Except String (List Fn) :=
  match reg.find? (fun f => f.plugin = c.plugin ∧ f.ts = ts) with
  | some f => if f.name = c.name then .ok reg else .error "Add Error"
  | none =>
    if reg.any (fun f => f.plugin = c.plugin ∧ f.name = c.name) then .error "Add Error"
    else .ok (reg ++ [⟨c.name, c.plugin, ts, r⟩])

/-- registering one call: deferred (an argument type is unknown: `HasUndefined`), rejected by the
plugin or by its name table (`pkg.Add`), or a function to emit -/
def register (gen : GenFn) (d : Derived) (acc : List Fn × List Nat) (c : Call) :
    Except String (List Fn × List Nat) :=
  match argTypes d c with
  | none => .ok (acc.1, acc.2 ++ [c.text])
  | some ts =>
    match gen c.plugin ts with
    | .addFails => .error "Add Error"
    | g =>
      match setFuncName acc.1 c ts (match g with | .emits r => some r | _ => none) with
      | .error e => .error e
      | .ok reg => .ok (reg, acc.2)

/-- `newPackage` with the loader seeing `d`: the calls are registered in source order -/
def registerAll (gen : GenFn) (d : Derived) (calls : List Call) : Except String (List Fn × List Nat) :=
  calls.foldlM (register gen d) ([], [])

/-- one pass (newPackage + Generate): an Add Error of any call comes before the Generator Error of any
registered function -/
def pass (gen : GenFn) (d : Derived) (calls : List Call) : Except String (List Fn × List Nat) :=
  match registerAll gen d calls with
  | .error e => .error e
  | .ok (reg, us) => if reg.any (fun f => f.result.isNone) then .error "Generator Error" else .ok (reg, us)

/-- what `Print` writes for the registered functions (helper functions, which only generated code
calls, are not part of the model: their names are never those of user calls that wait for a type) -/
def fileOf (reg : List Fn) : Derived := reg.filterMap fun f => f.result.map fun r => (f.name, r)

def insertSorted (s : Nat) : List Nat → List Nat
  | [] => [s]
  | h :: t => if s ≤ h then s :: h :: t else h :: insertSorted s t

def sortStrings (l : List Nat) : List Nat := l.foldr insertSorted []

/-- `generatePackage`: the result is what is left on disk — the functions written by the last pass with
the argument types they were generated for (`none` = derived.gen.go removed). `view` is what the loader
shows of derived files in this pass: the package's own file and, after it, `env`, the files of the
other packages of the program (several packages in one invocation; `[]` for a package alone); after a
pass the own file is `fileOf reg`. `passes` counts the passes made (`for passes := 0; generated ||
passes < 2; passes++`): the first pass is followed by a reload also when it generated nothing (F74:
the first pass works on the program as it was loaded before this run generated for the imported
packages — its view of them is the one handed to `regenIn` as `env0`). -/
def loop (gen : GenFn) (calls : List Call) (env : Derived) :
    Nat → Nat → Derived → Option (List Nat) → Except String (Option (List Fn))
  | 0, _, _, _ => .error "no fixpoint within the fuel"
  | fuel + 1, passes, view, prev => do
    let (reg, us) ← pass gen view calls
    let us := sortStrings us
    let file : Option (List Fn) := if reg = [] then none else some reg   -- Print, or Delete when nothing was printed
    if us = [] then .ok file
    else if prev = some us then .error "cannot generate"   -- 5fa8037 (F131): whether or not this pass generated again
    else if reg = [] ∧ 1 ≤ passes then .error "cannot generate"
    else loop gen calls env fuel (passes + 1) (fileOf reg ++ env) (some us)

/-- one package of an invocation: `old` is its own derived.gen.go, `env0` the derived files of the other
packages as the program was loaded at the start of the invocation, `env` the same files as they are on
disk when this package is reloaded (the packages generated before it in this run have new ones) -/
def regenIn (gen : GenFn) (calls : List Call) (env0 env old : Derived) : Except String (Option (List Fn)) :=
  loop gen calls env (calls.length + 3) 0 (old ++ env0) none

/-- one run of goderive on a package whose derived.gen.go the loader sees as `old` -/
def regen (gen : GenFn) (calls : List Call) (old : Derived) : Except String (Option (List Fn)) :=
  regenIn gen calls [] [] old

/-! ### several packages in one invocation (function names are numbered across the packages) -/

structure PkgRun where
  id : Nat
  calls : List Call
  deriving Repr

/-- the derived files of the other packages -/
def others (p : Nat) (disk : List (Nat × Derived)) : Derived :=
  (disk.filter fun x => x.1 ≠ p).flatMap (·.2)

def setFile (disk : List (Nat × Derived)) (p : Nat) (f : Derived) : List (Nat × Derived) :=
  (disk.filter fun x => x.1 ≠ p) ++ [(p, f)]

/-- `program.Generate`: the packages in generation order (`G/Order.generationOrder`), each with the view
of the others from the initial load (`start`) in its first pass and from the disk afterwards; the first
failing package ends the run. Result: per processed package what it left (the failing one last). -/
def runAll (gen : GenFn) (start : List (Nat × Derived)) :
    List PkgRun → List (Nat × Derived) → List (Nat × Except String (Option (List Fn))) →
    List (Nat × Except String (Option (List Fn)))
  | [], _, res => res
  | p :: rest, disk, res =>
    match regenIn gen p.calls (others p.id start) (others p.id disk) ((disk.lookup p.id).getD []) with
    | .error e => res ++ [(p.id, .error e)]
    | .ok file =>
      runAll gen start rest (setFile disk p.id (match file with | some reg => fileOf reg | none => []))
        (res ++ [(p.id, .ok file)])

def invocation (gen : GenFn) (start : List (Nat × Derived)) (order : List PkgRun) :
    List (Nat × Except String (Option (List Fn))) :=
  runAll gen start order start []

/-- `NoStaleFlow`: on every callee whose result type flows into another derive call, the old file
declares exactly what `f` declares (same signature, or neither declares it) -/
def AgreeOn (calls : List Call) (d f : Derived) : Prop :=
  ∀ c ∈ calls, ∀ n, Arg.resultOf n ∈ c.args → d.lookup n = f.lookup n

/-- the callees whose signature a pass reads from the file on disk -/
def flowing (calls : List Call) : List Nat :=
  calls.flatMap fun c => c.args.filterMap fun a => match a with
    | .resultOf n => some n
    | .known _ => none

/-- `AgreeOn`, computed (for the driver) -/
def agreeOnB (calls : List Call) (d f : Derived) : Bool :=
  (flowing calls).all fun n => d.lookup n == f.lookup n

end Goderive.Reload
