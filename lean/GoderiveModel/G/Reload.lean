/-
Layer G: the write / reload / retry loop of `generatePackage` over an abstract loader (C07).

A derive call's argument is either typed by the user's own expressions (`known`) or its type is the
result type of another derive call (`resultOf callee`): then the loader takes it from the signature
of `callee` in the derived.gen.go *currently on disk* — which may be stale, truncated or absent.
`GenFn` abstracts what a plugin generates for (function name, argument types): the result type of
the emitted function, or `none` when `Add` rejects the arguments.
-/
namespace Goderive.Reload

inductive Arg where
  | known (t : Nat)
  | resultOf (callee : Nat)
  deriving DecidableEq, Repr

/-- function names are numbered (the harness maps them to identifiers) -/
structure Call where
  name : Nat
  args : List Arg
  deriving DecidableEq, Repr

/-- the derived file as the loader sees it: declared function ↦ result type, in file order -/
abbrev Derived := List (Nat × Nat)
abbrev GenFn := Nat → List Nat → Option Nat

def argType (d : Derived) : Arg → Option Nat
  | .known t => some t
  | .resultOf f => d.lookup f

def argTypes (d : Derived) (c : Call) : Option (List Nat) := c.args.mapM (argType d)

/-- registering one call: deferred (argument types unknown), rejected, or a function to emit
(a name already registered is not emitted twice) -/
def register (gen : GenFn) (d : Derived) (acc : Derived × List Nat) (c : Call) :
    Except String (Derived × List Nat) :=
  match argTypes d c with
  | none => .ok (acc.1, acc.2 ++ [c.name])
  | some ts =>
    match gen c.name ts with
    | none => .error "Add Error"
    | some r => if acc.1.lookup c.name |>.isSome then .ok acc else .ok (acc.1 ++ [(c.name, r)], acc.2)

/-- one pass (newPackage + Generate) with the loader seeing `d`: calls are registered in source order -/
def pass (gen : GenFn) (d : Derived) (calls : List Call) : Except String (Derived × List Nat) :=
  calls.foldlM (register gen d) ([], [])

def insertSorted (s : Nat) : List Nat → List Nat
  | [] => [s]
  | h :: t => if s ≤ h then s :: h :: t else h :: insertSorted s t

def sortStrings (l : List Nat) : List Nat := l.foldr insertSorted []

/-- `generatePackage`: `file` is what is left on disk (`none` = derived.gen.go removed).
`passes` counts the passes made (`for passes := 0; generated || passes < 2; passes++`): the first pass
is followed by a reload also when it generated nothing (F74: it worked on the program as it was loaded
before this run generated for the imported packages). -/
def loop (gen : GenFn) (calls : List Call) :
    Nat → Nat → Derived → Option (List Nat) → Except String (Option Derived)
  | 0, _, _, _ => .error "no fixpoint within the fuel"
  | fuel + 1, passes, d, prev => do
    let (out, us) ← pass gen d calls
    let us := sortStrings us
    let file : Option Derived := if out = [] then none else some out   -- Print, or Delete when nothing was printed
    if us = [] then .ok file
    else if prev = some us then (if out = [] then .error "cannot generate" else .ok file)
    else if out = [] ∧ 1 ≤ passes then .error "cannot generate"
    else loop gen calls fuel (passes + 1) out (some us)

/-- one run of goderive on a package whose derived.gen.go the loader sees as `old` -/
def regen (gen : GenFn) (calls : List Call) (old : Derived) : Except String (Option Derived) :=
  loop gen calls (calls.length + 3) 0 old none

/-- `NoStaleFlow`: on every callee whose result type flows into another derive call, the old file
declares exactly what `f` declares (same signature, or neither declares it) -/
def AgreeOn (calls : List Call) (d f : Derived) : Prop :=
  ∀ c ∈ calls, ∀ n, Arg.resultOf n ∈ c.args → d.lookup n = f.lookup n

end Goderive.Reload
