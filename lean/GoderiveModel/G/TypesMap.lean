/-
Layer G: the name table `typesMap` (derive/typesmap.go) as a state machine, and the registration loop
of `newPackage` (derive/generate.go).

Types are abstract: `τ` stands for go/types types up to `types.Identical` (after `types.Default`), so
`types.Identical` is equality on `τ`. What the table needs to know about types is in `TyRel τ`:

* `asg a b`  = `sameFunctionServes(a, b)` of derive/typesmap.go (0b79109): identical, or `b` is not an
  interface type and `types.AssignableTo(a, b)` — reflexive, in general neither symmetric nor transitive;
* `hint t`   = the name fragment `newName` derives from `t` when `t` is the first argument type
  (`Obj().Name()` of a named type, the printed name of the listed basic kinds, otherwise empty), as its
  list of letters (`[]rune(name)`).

State of one table (one per plugin): `entries` = `names[i]`/`typss[i]` in registration order (the map
`funcToTyps` is the same association read as a map: names are unique, `Props/C11.Inv`), `generated`.
The immutable part is `Cfg` (`prefix`, `reserved`, `autoname`, `dedup`).

The qualifier side effect of `nameOf` (imports are registered in the printer) is not part of this
model.
-/
import GoderiveModel.U.Utf8
import GoderiveModel.G.NewName
import GoderiveModel.G.Prefix

namespace Goderive.G

structure TyRel (τ : Type) where
  asg : τ → τ → Bool
  hint : τ → List Letter

structure Cfg where
  pfx : Name
  reserved : List Name := []
  autoname : Bool := false
  dedup : Bool := false
  deriving Repr, DecidableEq

structure Table (τ : Type) where
  entries : List (Name × List τ) := []
  generated : List Name := []
  /-- `autonamed` (78f76aa): the name a call was renamed TO by -autoname ↦ the name it was written with;
  most recent binding first -/
  autonamed : List (Name × Name) := []
  deriving Repr

instance {τ} [DecidableEq τ] : DecidableEq (Table τ) := fun a b =>
  match a, b with
  | ⟨e1, g1, a1⟩, ⟨e2, g2, a2⟩ =>
    if h : e1 = e2 ∧ g1 = g2 ∧ a1 = a2 then isTrue (by obtain ⟨h1, h2, h3⟩ := h; subst_vars; rfl)
    else isFalse (by intro h'; cases h'; exact h ⟨rfl, rfl, rfl⟩)

/-- message class of a `SetFuncName` error -/
inductive Err where
  | duplicate (have_ want : Name)   -- "ambigious function names for type … = (have | want)"
  | conflict (name : Name)          -- "conflicting function names name(…) and name(…)"
  deriving Repr, DecidableEq

/-- `token.IsKeyword(n) || types.Universe.Lookup(n) != nil`: the 25 keywords and the 44 names of the
universe scope of the Go toolchain goderive is built with (go1.24). The check re-extracts both lists from
go/token and go/types on every run (T4) and compares them with this table. -/
def reservedWordStrings : List String := [
  "break", "case", "chan", "const", "continue", "default", "defer", "else", "fallthrough", "for", "func", "go",
  "goto", "if", "import", "interface", "map", "package", "range", "return", "select", "struct", "switch", "type",
  "var",
  "any", "append", "bool", "byte", "cap", "clear", "close", "comparable", "complex", "complex128", "complex64",
  "copy", "delete", "error", "false", "float32", "float64", "imag", "int", "int16", "int32", "int64", "int8",
  "iota", "len", "make", "max", "min", "new", "nil", "panic", "print", "println", "real", "recover", "rune",
  "string", "true", "uint", "uint16", "uint32", "uint64", "uint8", "uintptr"]

def reservedWords : List Name := reservedWordStrings.map asc

section
variable {τ : Type} [DecidableEq τ] (R : TyRel τ)

/-- `eq(this, that)`: same length and pointwise `AssignableTo(this[i], that[i])` -/
def eqL : List τ → List τ → Bool
  | [], [] => true
  | a :: as, b :: bs => R.asg a b && eqL as bs
  | _, _ => false

/-- the name of the first entry satisfying `p` on its type list -/
def findName (p : List τ → Bool) : List (Name × List τ) → Option Name
  | [] => none
  | (n, ts) :: rest => if p ts then some n else findName p rest

/-- `nameOf`: registration order, an identical type list first, then an assignable one -/
def nameOf (t : Table τ) (typs : List τ) : Option Name :=
  match findName (fun ts => decide (typs = ts)) t.entries with
  | some n => some n
  | none => findName (fun ts => eqL R typs ts) t.entries

def Table.names (t : Table τ) : List Name := t.entries.map (·.1)

/-- `funcToTyps[name]` -/
def Table.lookup (t : Table τ) (n : Name) : Option (List τ) := t.entries.lookup n

def Table.insert (t : Table τ) (n : Name) (typs : List τ) : Table τ :=
  { t with entries := t.entries ++ [(n, typs)] }

/-- `typesMap.taken` (60219e3): registered, reserved, a Go keyword or a name of the universe scope -/
def taken (c : Cfg) (t : Table τ) (n : Name) : Bool :=
  t.names.contains n || c.reserved.contains n || reservedWords.contains n

/-- the `name` computed at the top of `newName` -/
def hintOf : List τ → List Letter
  | [] => []
  | t :: _ => R.hint t

def newName (c : Cfg) (t : Table τ) (typs : List τ) : Name :=
  newNameWith (taken c t) (t.entries.length + c.reserved.length + reservedWords.length) c.pfx (hintOf R typs)

/-- `GetFuncName`. In the `nameOf`-fails case Go calls `SetFuncName(newName, typs)` and ignores its
result; that call always takes the insertion branch (`Lemmas/TypesMap.setFuncName_newName`), which is
what is written here. -/
def getFuncName (c : Cfg) (t : Table τ) (typs : List τ) : Name × Table τ :=
  match nameOf R t typs with
  | some n => (n, t)
  | none => let n := newName R c t typs; (n, t.insert n typs)

/- Since 67eda32 the same Go map also holds keys `name(types)` ↦ new name, consulted at the top of
`SetFuncName` ("a call of this name with these types was renamed in an earlier pass"). Within one table
that lookup changes no answer: the key is written together with `autonamed[new] = name` when `new` is
bound to these types, so a later `SetFuncName(name, types)` returns `new` either way (through the
substitution, or through `nameOf = new` and the `autonamed[new] == name` test). It matters only across the
passes over one package (the table of renames outlives the name tables), which is outside `registerAll`
(one pass) and is covered by the T2 stream `pending`; T3 confirms the single-table agreement. -/

/-- `tm.autonamed[f]` (the zero value "" when `f` is not a key) -/
def Table.autonamedFrom (t : Table τ) (f : Name) : Name := (t.autonamed.lookup f).getD []

/-- `tm.autonamed[name] = funcName` on the result of `GetFuncName` -/
def recordAutoname (r : Name × Table τ) (fn : Name) : Name × Table τ :=
  (r.1, { r.2 with autonamed := (r.1, fn) :: r.2.autonamed })

def setFuncName (c : Cfg) (t : Table τ) (fn : Name) (typs : List τ) : Except Err (Name × Table τ) :=
  match nameOf R t typs with
  | some f =>
    if f = fn then .ok (fn, t)
    else if c.dedup then .ok (f, t)
    -- an earlier call of `fn` with these types was renamed to `f` by -autoname: this is that call again
    else if c.autoname = true ∧ t.autonamedFrom f = fn then .ok (f, t)
    else .error (.duplicate f fn)
  | none =>
    match t.lookup fn with
    | some _ =>
      -- (4422487) the function of this name cannot be called with these types, or `nameOf` would have found
      -- it: a conflict, even when its own types could be passed where these are expected
      if c.autoname then .ok (recordAutoname (getFuncName R c t typs) fn)
      else .error (.conflict fn)
    | none => .ok (fn, t.insert fn typs)

/-- `Generating`: `none` models the Go panic "generating unknown …" -/
def generating (t : Table τ) (typs : List τ) : Option (Table τ) :=
  match nameOf R t typs with
  | none => none
  | some n => some { t with generated := if t.generated.contains n then t.generated else n :: t.generated }

def isGenerated (t : Table τ) (typs : List τ) : Bool :=
  match nameOf R t typs with
  | none => false
  | some n => t.generated.contains n

def toGenerate (t : Table τ) : List (List τ) :=
  (t.entries.filter fun e => !isGenerated R t e.2).map (·.2)

def done (t : Table τ) : Bool := t.entries.all fun e => isGenerated R t e.2

/-! ### operation sequences on one table (what T3 drives) -/

inductive Op (τ : Type) where
  | set (fn : Name) (typs : List τ)
  | get (typs : List τ)
  | generating (typs : List τ)
  | toGenerate
  | done
  | nameOf (typs : List τ)
  | newName (typs : List τ)

/-- one step; `none` = the Go code panicked (only `Generating` can). Errors of `SetFuncName` leave the
table unchanged. -/
def step (c : Cfg) (t : Table τ) : Op τ → Option (Table τ)
  | .set fn typs => match setFuncName R c t fn typs with
    | .ok (_, t') => some t'
    | .error _ => some t
  | .get typs => some (getFuncName R c t typs).2
  | .generating typs => generating R t typs
  | _ => some t

def runOps (c : Cfg) : Table τ → List (Op τ) → Option (Table τ)
  | t, [] => some t
  | t, op :: ops => match step R c t op with
    | some t' => runOps c t' ops
    | none => none

/-! ### `newPackage`: registration of all calls of a package -/

structure Plugin (τ : Type) where
  pfx : Name
  /-- the plugin's own argument check in `Add` (arity, …) before it calls `SetFuncName` -/
  accept : List τ → Bool

structure Call (τ : Type) where
  name : Name
  args : List τ
  deriving DecidableEq

inductive RegErr where
  | add (plugin : Nat) (e : Err)   -- "Add Error: <plugin>: <SetFuncName error>"
  | rejected (plugin : Nat)        -- "Add Error: <plugin>: <argument check>"
  deriving Repr, DecidableEq

/-- tables of all plugins, by position in the sorted plugin list -/
abbrev Tables (τ : Type) := Nat → Table τ

def Tables.set (T : Tables τ) (i : Nat) (t : Table τ) : Tables τ := fun j => if j = i then t else T j

structure Flags where
  /-- the shared `reserved` set of newPackage: names the user calls and declares outside derived.gen.go, and
  (7ac80cc) the names of the derive calls that still wait for an argument's type in this pass -/
  reserved : List Name := []
  autoname : Bool := false
  dedup : Bool := false
  deriving Repr, DecidableEq

def Flags.cfg (f : Flags) (pfx : Name) : Cfg :=
  { pfx := pfx, reserved := f.reserved, autoname := f.autoname, dedup := f.dedup }

inductive RegRes (α : Type) where
  | ok (a : α)
  | error (e : RegErr)
  | panic            -- `panic("unreachable: function names cannot be changed …")`
  deriving Repr

/-- `pkg.Add`: first plugin whose prefix matches; `none` = no plugin (the call is ignored) -/
def pkgAdd (f : Flags) (ps : List (Plugin τ)) (T : Tables τ) (call : Call τ) :
    Except RegErr (Option (Name × Tables τ)) :=
  match handler (ps.map (·.pfx)) call.name with
  | none => .ok none
  | some i =>
    match ps[i]? with
    | none => .ok none
    | some p =>
      if !p.accept call.args then .error (.rejected i) else
      match setFuncName R (f.cfg p.pfx) (T i) call.name call.args with
      | .error e => .error (.add i e)
      | .ok (n, t') => .ok (some (n, T.set i t'))

/-- the calls of one file; result: final name per call (`none` for ignored calls), `changed`, tables -/
def regFile (f : Flags) (ps : List (Plugin τ)) :
    Tables τ → List (Call τ) → RegRes (List (Option Name) × Bool × Tables τ)
  | T, [] => .ok ([], false, T)
  | T, call :: rest =>
    match pkgAdd R f ps T call with
    | .error e => .error e
    | .ok none =>
      match regFile f ps T rest with
      | .ok (ns, ch, T') => .ok (none :: ns, ch, T')
      | .error e => .error e
      | .panic => .panic
    | .ok (some (n, T1)) =>
      -- `if len(name) == 0 { continue }`: an empty result is treated like "no plugin matched"
      if n = [] then
        match regFile f ps T1 rest with
        | .ok (ns, ch, T') => .ok (none :: ns, ch, T')
        | .error e => .error e
        | .panic => .panic
      else
      if n ≠ call.name ∧ !f.autoname ∧ !f.dedup then .panic else
      match regFile f ps T1 rest with
      | .ok (ns, ch, T') => .ok (some n :: ns, (decide (n ≠ call.name)) || ch, T')
      | .error e => .error e
      | .panic => .panic

/-- all files in order; result: per file (names, changed) and the final tables -/
def regFiles (f : Flags) (ps : List (Plugin τ)) :
    Tables τ → List (List (Call τ)) → RegRes (List (List (Option Name) × Bool) × Tables τ)
  | T, [] => .ok ([], T)
  | T, file :: rest =>
    match regFile R f ps T file with
    | .error e => .error e
    | .panic => .panic
    | .ok (ns, ch, T1) =>
      match regFiles f ps T1 rest with
      | .ok (out, T') => .ok ((ns, ch) :: out, T')
      | .error e => .error e
      | .panic => .panic

def Tables.empty : Tables τ := fun _ => {}

/-- `newPackage`'s loop on fresh tables. `ps` must be in `sortPlugins` order. -/
def registerAll (f : Flags) (ps : List (Plugin τ)) (files : List (List (Call τ))) :=
  regFiles R f ps Tables.empty files

end

/-! ### a concrete universe of types (used by the driver for T3/T2)

Named types carry their package number, name and underlying type inline (no recursive types: not
needed for name tables). `GTy` terms are canonical representatives of identity classes as long as
a (pkg, name) pair always comes with the same underlying type, which the wire parser checks. -/

inductive GTy where
  | basic (name : Name)                       -- predeclared types, by the name `TypeString` prints
  | named (pkg : Nat) (name : Name) (under : GTy)
  | namedM (pkg : Nat) (name : Name) (under : GTy)   -- a declared type WITH declared methods (`NumMethods() > 0`)
  | ptr (t : GTy)
  | slice (t : GTy)
  | array (n : Nat) (t : GTy)
  | map (k v : GTy)
  | chan (t : GTy)                            -- `chan T`
  | chanR (t : GTy)                           -- `<-chan T`
  | chanS (t : GTy)                           -- `chan<- T`
  | struct (fs : GTy)                         -- `fnil`/`fcons` spine; field i is named F<i>
  | structT (tag : Name) (fs : GTy)           -- the same with the tag `json:"<tag>"` on the first field
  | fnil
  | fcons (t : GTy) (rest : GTy)
  | func                                      -- `func()`
  | iface                                     -- `interface{}`
  | ifaceM (methods : List Name)              -- `interface{ M1(); M2() … }` (method names sorted)
  deriving DecidableEq, Repr, Inhabited

namespace GTy

def under : GTy → GTy
  | .named _ _ u => u
  | .namedM _ _ u => u
  | t => t

/-- go/types `hasName`: predeclared and declared types -/
def hasName : GTy → Bool
  | .basic _ => true
  | .named _ _ _ => true
  | .namedM _ _ _ => true
  | _ => false

/-- `hasMethods` of derive/typesmap.go (2c333b7): a declared type with declared methods -/
def hasMethods : GTy → Bool
  | .namedM _ _ _ => true
  | _ => false

/-- the underlying type is an interface type -/
def isInterface (t : GTy) : Bool :=
  match t.under with
  | .iface => true
  | .ifaceM _ => true
  | _ => false

/-- `sameFunctionServes(a, b)` (0b79109) on this fragment (typed operands only): identical; or `b` is not
an interface type and `types.AssignableTo(a, b)`, i.e. identical underlying types with at least one side
unnamed, or a bidirectional channel for a directional one. A type that merely implements an interface is NOT served by the function for the interface;
neither does a declared type with methods share a function with a type it is not identical to (2c333b7: the
generated code calls the methods of the one, which the other does not have). -/
def assignable (a b : GTy) : Bool :=
  a == b || (!a.hasMethods && !b.hasMethods &&
  ((!b.isInterface && a.under == b.under && (!a.hasName || !b.hasName)) ||
  -- a bidirectional channel value is assignable to a directional channel type with an identical element type
  (match a.under, b.under with
    | .chan e, .chanR e' => e == e' && (!a.hasName || !b.hasName)
    | .chan e, .chanS e' => e == e' && (!a.hasName || !b.hasName)
    | _, _ => false)))

/-- the predeclared type `error`: a named type of the universe scope -/
def error : GTy := .named 1000 (asc "error") (.ifaceM [asc "Error"])

/-- basic kinds for which `newName` uses the printed type as the name fragment -/
def hintBasics : List Name :=
  ["bool", "int", "int8", "int16", "int32", "int64", "uint", "uint8", "uint16", "uint32", "uint64",
   "float32", "float64", "string"].map asc

/-- `[]rune(name)` with every rune kept as its source bytes (exact for valid UTF-8) -/
def lettersAux : Nat → Name → List Letter
  | 0, _ => []
  | _, [] => []
  | fuel + 1, b :: bs =>
    let w := (decodeRune (b :: bs)).2
    { head := b, tail := bs.take (w - 1) } :: lettersAux fuel (bs.drop (w - 1))

def lettersOf (n : Name) : List Letter := lettersAux n.length n

def hint : GTy → List Letter
  | .named _ n _ => lettersOf n
  | .namedM _ n _ => lettersOf n
  | .basic n => if hintBasics.contains n then lettersOf n else []
  | _ => []

def rel : TyRel GTy := { asg := assignable, hint := hint }

end GTy

end Goderive.G
