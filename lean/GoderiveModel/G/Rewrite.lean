/-
  G/Rewrite — file-system effects of one goderive run on one package, and the byte-level model of the
  source rewrite.

  Go code (derive/generate.go):

    newPackage:   for each file { changed := false
                    for each call { name, err := pkg.Add(call); if err != nil { return nil, err }
                                    if len(name) == 0 { continue }
                                    if name != call.Name { …panic if no flag…; changed = true; call.Expr.Fun = ast.NewIdent(name) } }
                    if changed { f := os.OpenFile(file, <flags>, mode); format.Node(f, fset, astFile) } }
    generatePackage: pkgGen.Generate(); on error return; if HasContent { Print: os.Create(derived) … } else { Delete: os.Stat; os.Remove(derived) }

  The open flags are NOT written here: Props/C10 instantiates them with the regenerated fact
  `Generated.rewriteOpenFlags`.
-/
namespace Goderive.G.Rewrite

abbrev Bytes := List UInt8

def hasTrunc (flags : List String) : Bool := flags.contains "O_TRUNC"

/-- open(path, flags) of an existing file with contents `old`, then one write of `new` at offset 0, close -/
def applyWrite (old new : Bytes) (flags : List String) : Bytes :=
  if hasTrunc flags then new else new ++ old.drop new.length

theorem applyWrite_trunc {old new : Bytes} {flags : List String} (h : "O_TRUNC" ∈ flags) :
    applyWrite old new flags = new := by
  have : hasTrunc flags = true := by simpa [hasTrunc] using h
  simp [applyWrite, this]

theorem applyWrite_leftover {old new : Bytes} {flags : List String} (h : "O_TRUNC" ∉ flags)
    (hlen : new.length < old.length) : applyWrite old new flags ≠ new := by
  have : hasTrunc flags = false := by simpa [hasTrunc] using h
  simp only [applyWrite, this]
  intro e
  have := congrArg List.length e
  simp at this
  omega

/-- why the defect stayed hidden for renamings to names of equal or greater length -/
theorem applyWrite_not_shorter {old new : Bytes} {flags : List String} (hlen : old.length ≤ new.length) :
    applyWrite old new flags = new := by
  unfold applyWrite
  split
  · rfl
  · simp [List.drop_eq_nil_of_le hlen]

/-! ### effects -/

inductive FsOp
  | rewrite (path : String) (flags : List String)   -- os.OpenFile + format.Node in newPackage
  | create (path : String)                          -- os.Create in (*pkg).Print
  | remove (path : String)                          -- os.Remove in (*pkg).Delete
  deriving DecidableEq, Repr

def FsOp.path : FsOp → String
  | .rewrite p _ => p
  | .create p => p
  | .remove p => p

structure CallIn (Ty : Type) where
  name : String
  typs : List Ty

structure FileIn (Ty : Type) where
  path : String
  calls : List (CallIn Ty)

/-- pkg.Add on the state σ of all name tables: `none` = Add error, `some (none, s)` = no plugin's prefix
matches (the call is skipped), `some (some n, s)` = registered under the name n. -/
abbrev AddFn (σ Ty : Type) := σ → CallIn Ty → Option (Option String × σ)

/-- the per-file loop over calls: the (old, new) pairs of the calls that were registered -/
def addCalls {σ Ty : Type} (add : AddFn σ Ty) : σ → List (CallIn Ty) → Option (List (String × String) × σ)
  | s, [] => some ([], s)
  | s, c :: cs =>
    match add s c with
    | none => none
    | some (none, s') => addCalls add s' cs
    | some (some n, s') =>
      match addCalls add s' cs with
      | none => none
      | some (ps, s'') => some ((c.name, n) :: ps, s'')

def changed (pairs : List (String × String)) : Bool := pairs.any (fun p => p.1 != p.2)

/-- newPackage: the rewrites performed, and the final state if no Add error stopped it -/
def newPackage {σ Ty : Type} (add : AddFn σ Ty) (flags : List String) :
    σ → List (FileIn Ty) → List FsOp × Option σ
  | s, [] => ([], some s)
  | s, f :: fs =>
    match addCalls add s f.calls with
    | none => ([], none)
    | some (pairs, s') =>
      let here := if changed pairs then [FsOp.rewrite f.path flags] else []
      let rest := newPackage add flags s' fs
      (here ++ rest.1, rest.2)

inductive GenOutcome
  | error                              -- Generator Error: nothing is written
  | content                            -- HasContent: Print
  | empty (derivedExists : Bool)       -- no content: Delete (os.Stat, then os.Remove if it exists)

def afterGenerate (derived : String) : GenOutcome → List FsOp
  | .error => []
  | .content => [.create derived]
  | .empty true => [.remove derived]
  | .empty false => []

/-- one pass of generatePackage's loop -/
def effects {σ Ty : Type} (add : AddFn σ Ty) (flags : List String) (derived : String)
    (s : σ) (files : List (FileIn Ty)) (gen : GenOutcome) : List FsOp :=
  match (newPackage add flags s files).2 with
  | none => (newPackage add flags s files).1
  | some _ => (newPackage add flags s files).1 ++ afterGenerate derived gen

/-- pkg.Add never renames (what SetFuncName guarantees without -autoname and -dedup) -/
def NoRename {σ Ty : Type} (add : AddFn σ Ty) : Prop :=
  ∀ s c n s', add s c = some (some n, s') → n = c.name

theorem addCalls_unchanged {σ Ty : Type} {add : AddFn σ Ty} (h : NoRename add) :
    ∀ {cs : List (CallIn Ty)} {s s' : σ} {pairs : List (String × String)},
      addCalls add s cs = some (pairs, s') → changed pairs = false
  | [], s, s', pairs, e => by simp [addCalls] at e; simp [e.1, changed]
  | c :: cs, s, s', pairs, e => by
    unfold addCalls at e
    split at e
    · simp at e
    · exact addCalls_unchanged h e
    · next n s1 hadd =>
      split at e
      · simp at e
      · next ps s2 hrest =>
        simp only [Option.some.injEq, Prod.mk.injEq] at e
        obtain ⟨rfl, _⟩ := e
        have hn := h _ _ _ _ hadd
        have ih := addCalls_unchanged h hrest
        simp only [changed, List.any_cons, hn, bne_self_eq_false, Bool.false_or] at ih ⊢
        exact ih

theorem newPackage_no_ops {σ Ty : Type} {add : AddFn σ Ty} (h : NoRename add) (flags : List String) :
    ∀ (fs : List (FileIn Ty)) (s : σ), (newPackage add flags s fs).1 = []
  | [], s => rfl
  | f :: fs, s => by
    unfold newPackage
    split
    · rfl
    · next pairs s' hc =>
      simp [addCalls_unchanged h hc, newPackage_no_ops h flags fs s']

/-- every rewrite performed by newPackage is of a file in which some call was given a different name -/
theorem newPackage_rewrites {σ Ty : Type} {add : AddFn σ Ty} (flags : List String) :
    ∀ (fs : List (FileIn Ty)) (s : σ) (op : FsOp), op ∈ (newPackage add flags s fs).1 →
      ∃ f ∈ fs, op = .rewrite f.path flags ∧
        ∃ s0 pairs s1, addCalls add s0 f.calls = some (pairs, s1) ∧ ∃ p ∈ pairs, p.1 ≠ p.2
  | [], s, op, h => by simp [newPackage] at h
  | f :: fs, s, op, h => by
    unfold newPackage at h
    split at h
    · simp at h
    · next pairs s' hc =>
      simp only [List.mem_append] at h
      rcases h with h | h
      · by_cases hch : changed pairs = true
        · simp only [hch, if_true, List.mem_singleton] at h
          refine ⟨f, List.mem_cons_self .., h, s, pairs, s', hc, ?_⟩
          simp only [changed, List.any_eq_true, bne_iff_ne] at hch
          exact hch
        · simp [hch] at h
      · obtain ⟨f', hf', rest⟩ := newPackage_rewrites flags fs s' op h
        exact ⟨f', List.mem_cons_of_mem _ hf', rest⟩

end Goderive.G.Rewrite
