/-
  The order in which `(*program).Generate` (derive/generate.go) processes the packages of one invocation:

      sort.Slice(pkgInfos, by Pkg.Path())            -- the packages named on the command line
      pkgInfos = importedFirst(pg.program, pkgInfos)

  `importedFirst` is a depth-first walk over the import graph of the loaded program. It starts from the
  named packages in path order, walks the imports of a package in path order, and after walking an imported
  package it also walks the NAMED packages that live in the directory of that imported package (a package
  named by a relative path is another package object than the one of the same directory that somebody
  imports: they are matched by directory). A named package is emitted when its walk ends.

  The model works on an abstract program: a list of packages, each with its path (= identity of the package
  object), directory, import paths and whether it was named. This is exactly the input of the hook
  `derive.VerifGenerationOrder` (derive/verif_hooks_order.go, build tag verif), which runs the real
  `sort.Slice` + `importedFirst` on such a graph; the tie `vlib/order.py` compares the two.

  Correspondence of the state: Go `visited` (set of *types.Package) = `St.visited` (paths); Go `ordered`
  = `St.ordered`; Go `placed[pkgInfo]` = membership in `ordered`; Go `named[dir]` (named packages of a
  directory, in path order) = `namedIn`; Go `program.AllPackages[p]` = `Ctx.look`.

  Assumptions on the input (checked by the driver op, produced by the generator of the tie): paths are
  distinct (a path names one package object); directories are given as clean absolute paths (the code
  compares `filepath.Dir(filepath.Abs(file))`, the model compares the strings).
  An imported path that is not a package of the program has no directory, no imports and is not named
  (the hook drops such imports; in a loaded program every import is a package of the program).

  Go's recursion is modelled with fuel. `Lemmas/Order.lean` proves that `length + 1` is enough
  (`Goderive.C08o.generationOrder_fuel_enough`): the fuel case `0` is never reached.
-/
namespace Goderive.G.Order

structure Pkg where
  path : String
  dir : String
  imports : List String
  named : Bool
  deriving Repr, DecidableEq, Inhabited

/-! ### sort.Slice by path (paths are distinct, so the result of any sorting algorithm is the same list) -/

def insertSorted (a : String) : List String → List String
  | [] => [a]
  | b :: l => if a ≤ b then a :: b :: l else b :: insertSorted a l

def sortPaths : List String → List String
  | [] => []
  | a :: l => insertSorted a (sortPaths l)

/-! ### the loaded program as `importedFirst` sees it -/

/-- `program.AllPackages` keyed by path -/
def look (G : List Pkg) (p : String) : Option Pkg := G.find? (fun x => x.path == p)

structure Ctx where
  /-- the package object of a path, if it is a package of the program -/
  look : String → Option Pkg
  /-- `pkgInfos`: the named packages, sorted by path -/
  named : List String

/-- `(*program).Generate`: the initial packages sorted by path -/
def ctxOf (G : List Pkg) : Ctx :=
  { look := look G, named := sortPaths ((G.filter (·.named)).map (·.path)) }

/-- `dirOf(program.AllPackages[p])` -/
def dirOf (c : Ctx) (p : String) : Option String := (c.look p).map (·.dir)

/-- `named[dir]`: the named packages of a directory, in the order of `pkgInfos` -/
def namedIn (c : Ctx) (dir : String) : List String :=
  c.named.filter (fun t => dirOf c t == some dir)

/-- the inner loop of `visit`: `for _, twin := range named[dirOf(AllPackages[imported])] { if twin.Pkg != p {…} }` -/
def twins (c : Ctx) (imported p : String) : List String :=
  match dirOf c imported with
  | none => []
  | some d => (namedIn c d).filter (fun t => t != p)

/-- `imports := append(nil, p.Imports()...); sort.Slice(imports, by path)` -/
def sortedImports (c : Ctx) (p : String) : List String :=
  match c.look p with
  | none => []
  | some pk => sortPaths pk.imports

structure St where
  visited : List String
  ordered : List String
  deriving Repr, DecidableEq

def St.mark (st : St) (p : String) : St := { st with visited := p :: st.visited }

/-- the end of `visit`: a named package that is not yet placed is appended -/
def place (c : Ctx) (p : String) (st : St) : St :=
  if c.named.contains p && !st.ordered.contains p then { st with ordered := st.ordered ++ [p] } else st

/-- the closure `visit` of `importedFirst` -/
def visit (c : Ctx) : Nat → String → St → St
  | 0, _, st => st
  | fuel + 1, p, st =>
    if st.visited.contains p then st else
    let st1 := st.mark p
    let st2 := (sortedImports c p).foldl (fun st imported =>
        (twins c imported p).foldl (fun st twin => visit c fuel twin st) (visit c fuel imported st)) st1
    place c p st2

/-- `for _, pkgInfo := range pkgInfos { visit(pkgInfo.Pkg) }; return ordered` with the given recursion budget -/
def runWith (G : List Pkg) (fuel : Nat) : List String :=
  let c := ctxOf G
  (c.named.foldl (fun st p => visit c fuel p st) ⟨[], []⟩).ordered

/-- The paths of the named packages in the order in which `Generate` processes them. -/
def generationOrder (G : List Pkg) : List String := runWith G (G.length + 1)

/-- well-formed input: one package object per path -/
def WF (G : List Pkg) : Prop := (G.map (·.path)).Nodup

instance (G : List Pkg) : Decidable (WF G) := by unfold WF; infer_instance

/-! ### the relations the statements are about -/

/-- One step of the walk, stated on the graph: from package `x` to a path `x` imports, or to a named package
(other than `x`) whose directory is that of a package `x` imports. -/
def Step (G : List Pkg) (x y : String) : Prop :=
  ∃ px ∈ G, px.path = x ∧ ∃ i ∈ px.imports,
    (y = i ∨ ∃ pi ∈ G, pi.path = i ∧ ∃ t ∈ G, t.named = true ∧ t.dir = pi.dir ∧ t.path ≠ x ∧ y = t.path)

/-- transitive closure of `Step` -/
inductive Reaches (G : List Pkg) : String → String → Prop
  | base {x y : String} : Step G x y → Reaches G x y
  | step {x y z : String} : Step G x y → Reaches G y z → Reaches G x z

/-- `x` imports `z`, directly or through packages of the program -/
inductive ImportsT (G : List Pkg) : String → String → Prop
  | base {px : Pkg} {i : String} : px ∈ G → i ∈ px.imports → ImportsT G px.path i
  | step {px : Pkg} {i z : String} : px ∈ G → i ∈ px.imports → ImportsT G i z → ImportsT G px.path z

/-- `a` occurs in `l` at a position before an occurrence of `b` -/
def Before (a b : String) (l : List String) : Prop := ∃ A B, l = A ++ b :: B ∧ a ∈ A

/-- A decidable certificate of acyclicity: `rank` decreases along every `Step` of the graph. -/
def rankOK (G : List Pkg) (rank : String → Nat) : Bool :=
  G.all fun px => px.imports.all fun i =>
    decide (rank i < rank px.path) &&
    G.all fun pi => pi.path != i ||
      G.all fun t => !t.named || t.dir != pi.dir || t.path == px.path || decide (rank t.path < rank px.path)

end Goderive.G.Order
