/-
  G/Imports — model of the lazy import table of derive/printer.go.

  Go code (derive/printer.go):

    imports map[string]string                      // alias -> path
    func (p *printer) NewImport(name, path string) Import {
      return func() string {
        path = unvendor(path); fullpath := makeFullpath(path); alias := name
        if _, ok := p.imports[alias]; !ok { p.imports[alias] = path; return alias }
        if p.imports[alias] == path { return alias }
        if path2, ok := p.imports[fullpath]; ok { if path2 != path { panic("non unique fullpath…") } }
        p.imports[fullpath] = path; return fullpath } }

  The table is an association list in insertion order; Go's map is observed only through lookups and
  through the range in WriteTo (modelled in G/Determinism as "any permutation of this list").
  `unv` (unvendor) and `full` (makeFullpath) are parameters here; `unvendor` itself is modelled on path
  segments below. `none` models the Go panic.
-/
namespace Goderive.G.Imports

abbrev Table := List (String × String)

/-- p.imports[k] -/
def lookup (k : String) : Table → Option String
  | [] => none
  | (a, p) :: t => if a = k then some p else lookup k t

def keys (t : Table) : List String := t.map (·.1)
def vals (t : Table) : List String := t.map (·.2)

structure Req where
  name : String
  path : String
  deriving DecidableEq, Repr

/-- One invocation of the closure returned by NewImport(name, path). `none` = panic. -/
def newImport (unv full : String → String) (t : Table) (r : Req) : Option (Table × String) :=
  let path := unv r.path
  let fullpath := full path
  match lookup r.name t with
  | none => some (t ++ [(r.name, path)], r.name)
  | some p =>
    if p = path then some (t, r.name)
    else match lookup fullpath t with
      | some p2 => if p2 = path then some (t, fullpath) else none
      | none => some (t ++ [(fullpath, path)], fullpath)

/-- A sequence of closure invocations, in program order. -/
def run (unv full : String → String) : Table → List Req → Option (Table × List String)
  | t, [] => some (t, [])
  | t, r :: rs =>
    match newImport unv full t r with
    | none => none
    | some (t', a) =>
      match run unv full t' rs with
      | none => none
      | some (t'', as) => some (t'', a :: as)

/-! ### lookup lemmas -/

theorem lookup_some_mem {k p : String} {t : Table} (h : lookup k t = some p) : (k, p) ∈ t := by
  induction t with
  | nil => simp [lookup] at h
  | cons e t ih =>
    obtain ⟨a, q⟩ := e
    unfold lookup at h
    split at h
    · next ha => simp at h; subst ha; subst h; simp
    · exact List.mem_cons_of_mem _ (ih h)

theorem lookup_none_iff {k : String} {t : Table} : lookup k t = none ↔ k ∉ keys t := by
  induction t with
  | nil => simp [lookup, keys]
  | cons e t ih =>
    obtain ⟨a, q⟩ := e
    unfold lookup
    by_cases ha : a = k
    · simp [ha, keys]
    · simp only [ha, if_false, keys, List.map_cons, List.mem_cons, not_or]
      constructor
      · intro h; exact ⟨fun hk => ha hk.symm, by simpa [keys] using ih.1 h⟩
      · intro h; exact ih.2 (by simpa [keys] using h.2)

theorem lookup_of_mem_nodup {k p : String} {t : Table} (hn : (keys t).Nodup) (hm : (k, p) ∈ t) :
    lookup k t = some p := by
  induction t with
  | nil => simp at hm
  | cons e t ih =>
    obtain ⟨a, q⟩ := e
    simp only [keys, List.map_cons, List.nodup_cons] at hn
    unfold lookup
    rcases List.mem_cons.1 hm with h | h
    · simp at h; obtain ⟨h1, h2⟩ := h; subst h1; subst h2; simp
    · have : a ≠ k := by
        intro hk; subst hk
        exact hn.1 (List.mem_map.2 ⟨(a, p), h, rfl⟩)
      simp only [this, if_false]
      exact ih hn.2 h

theorem lookup_append_left {k p : String} {t u : Table} (h : lookup k t = some p) :
    lookup k (t ++ u) = some p := by
  induction t with
  | nil => simp [lookup] at h
  | cons e t ih =>
    obtain ⟨a, q⟩ := e
    simp only [List.cons_append]
    unfold lookup at h ⊢
    split
    · next ha => simpa [ha] using h
    · next ha => simp only [ha, if_false] at h; exact ih h

theorem lookup_append_none {k : String} {t u : Table} (h : lookup k t = none) :
    lookup k (t ++ u) = lookup k u := by
  induction t with
  | nil => rfl
  | cons e t ih =>
    obtain ⟨a, q⟩ := e
    by_cases ha : a = k
    · simp [lookup, ha] at h
    · have h' : lookup k t = none := by simpa [lookup, ha] using h
      simp only [List.cons_append, lookup, ha, if_false]
      exact ih h'

/-! ### the invariant -/

/-- `nm` gives the package name of an (unvendored) import path: the requests are consistent when every
request for a path carries that name (go/types: a package has one name; the plugins' own
`p.NewImport("bytes", "bytes")` calls use the real name). -/
def Consistent (unv nm : String → String) (r : Req) : Prop := r.name = nm (unv r.path)

/-- Invariant of the table: aliases are distinct; every entry is either under its package name or under
its full path with the package name already taken. -/
structure Inv (full nm : String → String) (t : Table) : Prop where
  keysNodup : (keys t).Nodup
  shape : ∀ a p, (a, p) ∈ t → a = nm p ∨ (a = full p ∧ nm p ∈ keys t ∧ lookup (nm p) t ≠ some p)

theorem inv_nil (full nm : String → String) : Inv full nm [] :=
  ⟨by simp [keys], by intro a p h; simp at h⟩

/-- Every path occurs under exactly one alias ("one alias per path"). -/
theorem Inv.vals_unique {full nm : String → String} {t : Table} (h : Inv full nm t)
    {a b p : String} (ha : (a, p) ∈ t) (hb : (b, p) ∈ t) : a = b := by
  rcases h.shape a p ha with h1 | ⟨h1, _, h1n⟩ <;> rcases h.shape b p hb with h2 | ⟨h2, _, h2n⟩
  · rw [h1, h2]
  · exact absurd (lookup_of_mem_nodup h.keysNodup (h1 ▸ ha)) h2n
  · exact absurd (lookup_of_mem_nodup h.keysNodup (h2 ▸ hb)) h1n
  · rw [h1, h2]

theorem keys_append (t u : Table) : keys (t ++ u) = keys t ++ keys u := by simp [keys]

private theorem nodup_append_single {l : List String} {k : String} (h : l.Nodup) (hk : k ∉ l) :
    (l ++ [k]).Nodup := by
  rw [List.nodup_append]
  refine ⟨h, by simp, ?_⟩
  intro a ha b hb
  simp at hb; subst hb
  intro e; subst e; exact hk ha

/-- NewImport preserves the invariant (when it does not panic). -/
theorem newImport_inv {unv full nm : String → String} {t t' : Table} {r : Req} {a : String}
    (hI : Inv full nm t) (hc : Consistent unv nm r)
    (h : newImport unv full t r = some (t', a)) : Inv full nm t' := by
  unfold newImport at h
  simp only at h
  unfold Consistent at hc
  split at h
  · -- alias free: add (name, path)
    next hnone =>
    simp only [Option.some.injEq, Prod.mk.injEq] at h
    obtain ⟨rfl, rfl⟩ := h
    have hk : r.name ∉ keys t := lookup_none_iff.1 hnone
    refine ⟨by rw [keys_append]; exact nodup_append_single hI.keysNodup (by simpa [keys] using hk), ?_⟩
    intro b p hb
    rcases List.mem_append.1 hb with hb | hb
    · rcases hI.shape b p hb with h1 | ⟨h1, h2, h3⟩
      · exact Or.inl h1
      · refine Or.inr ⟨h1, by rw [keys_append]; exact List.mem_append_left _ h2, ?_⟩
        obtain ⟨q, hq⟩ : ∃ q, lookup (nm p) t = some q := by
          cases hl : lookup (nm p) t with
          | none => exact absurd (lookup_none_iff.1 hl) (by simpa using h2)
          | some q => exact ⟨q, rfl⟩
        rw [lookup_append_left hq]; rw [hq] at h3; exact h3
    · simp at hb; obtain ⟨rfl, rfl⟩ := hb; exact Or.inl hc
  · next p hsome =>
    split at h
    · -- same path already under the alias
      simp only [Option.some.injEq, Prod.mk.injEq] at h
      obtain ⟨rfl, _⟩ := h; exact hI
    · next hne =>
      split at h
      · next p2 hfull =>
        split at h
        · simp only [Option.some.injEq, Prod.mk.injEq] at h
          obtain ⟨rfl, _⟩ := h; exact hI
        · simp at h
      · next hfull =>
        simp only [Option.some.injEq, Prod.mk.injEq] at h
        obtain ⟨rfl, rfl⟩ := h
        have hk : full (unv r.path) ∉ keys t := lookup_none_iff.1 hfull
        refine ⟨by rw [keys_append]; exact nodup_append_single hI.keysNodup (by simpa [keys] using hk), ?_⟩
        intro b q hb
        rcases List.mem_append.1 hb with hb | hb
        · rcases hI.shape b q hb with h1 | ⟨h1, h2, h3⟩
          · exact Or.inl h1
          · refine Or.inr ⟨h1, by rw [keys_append]; exact List.mem_append_left _ h2, ?_⟩
            obtain ⟨q', hq⟩ : ∃ q', lookup (nm q) t = some q' := by
              cases hl : lookup (nm q) t with
              | none => exact absurd (lookup_none_iff.1 hl) (by simpa using h2)
              | some q' => exact ⟨q', rfl⟩
            rw [lookup_append_left hq]; rw [hq] at h3; exact h3
        · simp at hb; obtain ⟨rfl, rfl⟩ := hb
          refine Or.inr ⟨rfl, ?_, ?_⟩
          · rw [keys_append, ← hc]
            exact List.mem_append_left _ (by
              have := lookup_some_mem hsome
              exact List.mem_map.2 ⟨_, this, rfl⟩)
          · rw [← hc, lookup_append_left hsome]
            intro e; simp at e; exact hne e

/-- Lifted to whole request sequences. -/
theorem run_inv {unv full nm : String → String} :
    ∀ {rs : List Req} {t t' : Table} {as : List String}, Inv full nm t →
      (∀ r ∈ rs, Consistent unv nm r) → run unv full t rs = some (t', as) → Inv full nm t'
  | [], t, t', as, hI, _, h => by simp [run] at h; obtain ⟨rfl, _⟩ := h; exact hI
  | r :: rs, t, t', as, hI, hc, h => by
    unfold run at h
    split at h
    · simp at h
    · next t1 a h1 =>
      split at h
      · simp at h
      · next t2 as2 h2 =>
        simp only [Option.some.injEq, Prod.mk.injEq] at h
        obtain ⟨rfl, _⟩ := h
        exact run_inv (newImport_inv hI (hc r (List.mem_cons_self ..)) h1)
          (fun r' hr' => hc r' (List.mem_cons_of_mem _ hr')) h2

/-! ### idempotence: asking again changes nothing (nameOf re-qualifies on every lookup, pkg.Done's early
exit decides which tables are consulted: neither can change the table) -/

theorem newImport_idempotent {unv full : String → String} {t t' : Table} {r : Req} {a : String}
    (h : newImport unv full t r = some (t', a)) :
    newImport unv full t' r = some (t', a) := by
  unfold newImport at h
  simp only at h
  split at h
  · next hnone =>
    simp only [Option.some.injEq, Prod.mk.injEq] at h
    obtain ⟨rfl, rfl⟩ := h
    have : lookup r.name (t ++ [(r.name, unv r.path)]) = some (unv r.path) := by
      rw [lookup_append_none hnone]; simp [lookup]
    simp [newImport, this]
  · next p hsome =>
    split at h
    · next hp =>
      simp only [Option.some.injEq, Prod.mk.injEq] at h
      obtain ⟨rfl, rfl⟩ := h
      simp [newImport, hsome, hp]
    · next hne =>
      split at h
      · next p2 hfull =>
        split at h
        · next hp2 =>
          simp only [Option.some.injEq, Prod.mk.injEq] at h
          obtain ⟨rfl, rfl⟩ := h
          simp [newImport, hsome, hne, hfull, hp2]
        · simp at h
      · next hfull =>
        simp only [Option.some.injEq, Prod.mk.injEq] at h
        obtain ⟨rfl, rfl⟩ := h
        have h1 : lookup r.name (t ++ [(full (unv r.path), unv r.path)]) = some p := lookup_append_left hsome
        have h2 : lookup (full (unv r.path)) (t ++ [(full (unv r.path), unv r.path)]) = some (unv r.path) := by
          rw [lookup_append_none hfull]; simp [lookup]
        simp [newImport, h1, hne, h2]

/-- A request that is at its fixed point stays there when the table grows. -/
theorem newImport_stable {unv full : String → String} {t u : Table} {r : Req} {a : String}
    (h : newImport unv full t r = some (t, a)) :
    newImport unv full (t ++ u) r = some (t ++ u, a) := by
  unfold newImport at h
  simp only at h
  split at h
  · next hnone =>
    simp only [Option.some.injEq, Prod.mk.injEq] at h
    have := congrArg List.length h.1
    simp at this
  · next p hsome =>
    split at h
    · next hp =>
      simp only [Option.some.injEq, Prod.mk.injEq] at h
      obtain ⟨_, rfl⟩ := h
      simp [newImport, lookup_append_left hsome, hp]
    · next hne =>
      split at h
      · next p2 hfull =>
        split at h
        · next hp2 =>
          simp only [Option.some.injEq, Prod.mk.injEq] at h
          obtain ⟨_, rfl⟩ := h
          simp [newImport, lookup_append_left hsome, hne, lookup_append_left hfull, hp2]
        · simp at h
      · next hfull =>
        simp only [Option.some.injEq, Prod.mk.injEq] at h
        have := congrArg List.length h.1
        simp at this

/-! ### the panic -/

/-- Exactly when `panic("non unique fullpath")` is reached. -/
theorem newImport_panics_iff (unv full : String → String) (t : Table) (r : Req) :
    newImport unv full t r = none ↔
      (∃ p, lookup r.name t = some p ∧ p ≠ unv r.path) ∧
      (∃ p2, lookup (full (unv r.path)) t = some p2 ∧ p2 ≠ unv r.path) := by
  unfold newImport
  simp only
  cases h1 : lookup r.name t with
  | none => simp
  | some p =>
    by_cases hp : p = unv r.path
    · simp [hp]
    · cases h2 : lookup (full (unv r.path)) t with
      | none => simp [hp]
      | some p2 =>
        by_cases hp2 : p2 = unv r.path
        · simp [hp, hp2]
        · simp [hp, hp2]

/-- Side condition under which the panic is unreachable: on the paths in play `full` is injective and no
package is *named* like the full path of another one. -/
def NoClash (full nm : String → String) (paths : List String) : Prop :=
  ∀ p ∈ paths, ∀ q ∈ paths, (full p = full q → p = q) ∧ (full p = nm q → p = q)

theorem newImport_no_panic {unv full nm : String → String} {t : Table} {r : Req} {paths : List String}
    (hI : Inv full nm t) (hnc : NoClash full nm paths)
    (hp : unv r.path ∈ paths) (ht : ∀ p ∈ vals t, p ∈ paths) :
    newImport unv full t r ≠ none := by
  intro h
  obtain ⟨_, p2, h2, hne⟩ := (newImport_panics_iff unv full t r).1 h
  have hm := lookup_some_mem h2
  have hp2 : p2 ∈ paths := ht p2 (List.mem_map.2 ⟨_, hm, rfl⟩)
  rcases hI.shape _ _ hm with h3 | ⟨h3, _⟩
  · exact hne ((hnc _ hp _ hp2).2 h3).symm
  · exact hne ((hnc _ hp _ hp2).1 h3).symm

/-! ### unvendor, on path segments (a path is its list of `/`-separated segments)

    lastvendor := strings.LastIndex(path, "/vendor/"); if != -1 { path = path[lastvendor+8:] }
    if strings.HasPrefix(path, "vendor/") { path = path[7:] }

  Both steps together: drop everything up to and including the last segment "vendor" that is not the final
  segment. -/

/-- the suffix after the last non-final "vendor" segment, if there is one -/
def cut : List String → Option (List String)
  | [] => none
  | s :: rest =>
    match cut rest with
    | some r => some r
    | none => if s = "vendor" ∧ rest ≠ [] then some rest else none

def unvendor (l : List String) : List String := (cut l).getD l

theorem cut_result_fixed : ∀ {l r : List String}, cut l = some r → cut r = none
  | [], r, h => by simp [cut] at h
  | s :: rest, r, h => by
    unfold cut at h
    split at h
    · next r' hr => simp at h; subst h; exact cut_result_fixed hr
    · next hn =>
      split at h
      · simp at h; subst h; exact hn
      · simp at h

/-- unvendor is idempotent: calling the closure again (it re-applies unvendor to the captured, already
unvendored path) is harmless. -/
theorem unvendor_idempotent (l : List String) : unvendor (unvendor l) = unvendor l := by
  unfold unvendor
  cases h : cut l with
  | none => simp [h]
  | some r => simp [cut_result_fixed h]

end Goderive.G.Imports
