/-
  G/Imports — model of the lazy import table of derive/printer.go.

  Go code (derive/printer.go, after fix 81ad18a):

    imports map[string]string                      // alias -> path
    func (p *printer) NewImport(name, path string) Import {
      return func() string {
        path = unvendor(path); fullpath := makeFullpath(path); alias := name
        if _, ok := p.imports[alias]; !ok { p.imports[alias] = path; return alias }
        if p.imports[alias] == path { return alias }
        alias = fullpath
        for i := 2; ; i++ { path2, ok := p.imports[alias]; if !ok || path2 == path { break }
                            alias = fullpath + "_" + strconv.Itoa(i) }
        p.imports[alias] = path; return alias } }

  i.e. the first USABLE alias (unbound, or bound to this very path) among  name, fullpath, fullpath_2,
  fullpath_3, …  is bound to the path and returned. (Before the fix a bound `fullpath` with another path was
  `panic("non unique fullpath")`.)

  The table is an association list in insertion order; Go's map is observed only through lookups and
  through the range in WriteTo (modelled in G/Determinism as "any permutation of this list").
  Parameters: `unv` (unvendor), `full` (makeFullpath), `sfx fp i` (the i-th candidate after the name:
  `sfx fp 0 = fp`, `sfx fp (i+1) = fp ++ "_" ++ itoa (i+2)`; only its injectivity in i is used).
  `unvendor` itself is modelled on path segments below. The search loop gets fuel `len(table)+1`; `none`
  would mean the Go loop does not terminate — `newImport_total` shows that cannot happen.
-/
namespace Goderive.G.Imports

abbrev Table := List (String × String)

/-- p.imports[k] -/
def lookup (k : String) : Table → Option String
  | [] => none
  | (a, p) :: t => if a = k then some p else lookup k t

def keys (t : Table) : List String := t.map (·.1)
def vals (t : Table) : List String := t.map (·.2)

structure Req where
  name : String
  path : String
  deriving DecidableEq, Repr

/-- the alias is unbound, or bound to this very path -/
def usable (t : Table) (a path : String) : Bool :=
  match lookup a t with
  | none => true
  | some p => decide (p = path)

/-- `p.imports[a] = path` for a usable alias -/
def bind (t : Table) (a path : String) : Table :=
  match lookup a t with
  | none => t ++ [(a, path)]
  | some _ => t

/-- the loop `alias = fullpath; for i := 2; ; i++ { … }`: candidates `sfx fp i, sfx fp (i+1), …` -/
def findAlias (sfx : String → Nat → String) (t : Table) (fp path : String) : Nat → Nat → Option String
  | 0, _ => none
  | fuel + 1, i => if usable t (sfx fp i) path then some (sfx fp i) else findAlias sfx t fp path fuel (i + 1)

/-- One invocation of the closure returned by NewImport(name, path). -/
def newImport (unv full : String → String) (sfx : String → Nat → String) (t : Table) (r : Req) :
    Option (Table × String) :=
  if usable t r.name (unv r.path) then some (bind t r.name (unv r.path), r.name)
  else match findAlias sfx t (full (unv r.path)) (unv r.path) (t.length + 1) 0 with
    | none => none
    | some a => some (bind t a (unv r.path), a)

/-- A sequence of closure invocations, in program order. -/
def run (unv full : String → String) (sfx : String → Nat → String) : Table → List Req → Option (Table × List String)
  | t, [] => some (t, [])
  | t, r :: rs =>
    match newImport unv full sfx t r with
    | none => none
    | some (t', a) =>
      match run unv full sfx t' rs with
      | none => none
      | some (t'', as) => some (t'', a :: as)

/-! ### lookup lemmas -/

theorem lookup_some_mem {k p : String} {t : Table} (h : lookup k t = some p) : (k, p) ∈ t := by
  induction t with
  | nil => simp [lookup] at h
  | cons e t ih =>
    obtain ⟨a, q⟩ := e
    unfold lookup at h
    split at h
    · next ha => simp at h; subst ha; subst h; simp
    · exact List.mem_cons_of_mem _ (ih h)

theorem lookup_none_iff {k : String} {t : Table} : lookup k t = none ↔ k ∉ keys t := by
  induction t with
  | nil => simp [lookup, keys]
  | cons e t ih =>
    obtain ⟨a, q⟩ := e
    unfold lookup
    by_cases ha : a = k
    · simp [ha, keys]
    · simp only [ha, if_false, keys, List.map_cons, List.mem_cons, not_or]
      constructor
      · intro h; exact ⟨fun hk => ha hk.symm, by simpa [keys] using ih.1 h⟩
      · intro h; exact ih.2 (by simpa [keys] using h.2)

theorem lookup_of_mem_nodup {k p : String} {t : Table} (hn : (keys t).Nodup) (hm : (k, p) ∈ t) :
    lookup k t = some p := by
  induction t with
  | nil => simp at hm
  | cons e t ih =>
    obtain ⟨a, q⟩ := e
    simp only [keys, List.map_cons, List.nodup_cons] at hn
    unfold lookup
    rcases List.mem_cons.1 hm with h | h
    · simp at h; obtain ⟨h1, h2⟩ := h; subst h1; subst h2; simp
    · have : a ≠ k := by
        intro hk; subst hk
        exact hn.1 (List.mem_map.2 ⟨(a, p), h, rfl⟩)
      simp only [this, if_false]
      exact ih hn.2 h

theorem lookup_append_left {k p : String} {t u : Table} (h : lookup k t = some p) :
    lookup k (t ++ u) = some p := by
  induction t with
  | nil => simp [lookup] at h
  | cons e t ih =>
    obtain ⟨a, q⟩ := e
    simp only [List.cons_append]
    unfold lookup at h ⊢
    split
    · next ha => simpa [ha] using h
    · next ha => simp only [ha, if_false] at h; exact ih h

theorem lookup_append_none {k : String} {t u : Table} (h : lookup k t = none) :
    lookup k (t ++ u) = lookup k u := by
  induction t with
  | nil => rfl
  | cons e t ih =>
    obtain ⟨a, q⟩ := e
    by_cases ha : a = k
    · simp [lookup, ha] at h
    · have h' : lookup k t = none := by simpa [lookup, ha] using h
      simp only [List.cons_append, lookup, ha, if_false]
      exact ih h'

/-! ### usable / bind / findAlias -/

theorem keys_append (t u : Table) : keys (t ++ u) = keys t ++ keys u := by simp [keys]

theorem not_usable_iff {t : Table} {a path : String} :
    usable t a path = false ↔ ∃ q, lookup a t = some q ∧ q ≠ path := by
  unfold usable
  cases h : lookup a t with
  | none => simp
  | some p => simp

theorem usable_iff {t : Table} {a path : String} :
    usable t a path = true ↔ lookup a t = none ∨ lookup a t = some path := by
  unfold usable
  cases h : lookup a t with
  | none => simp
  | some p => simp

theorem not_usable_append {t u : Table} {a path : String} (h : usable t a path = false) :
    usable (t ++ u) a path = false := by
  obtain ⟨q, hq, hne⟩ := not_usable_iff.1 h
  exact not_usable_iff.2 ⟨q, lookup_append_left hq, hne⟩

theorem bind_extends (t : Table) (a path : String) : ∃ u, bind t a path = t ++ u := by
  unfold bind
  cases lookup a t with
  | none => exact ⟨_, rfl⟩
  | some _ => exact ⟨[], by simp⟩

theorem lookup_bind {t : Table} {a path : String} (h : usable t a path = true) :
    lookup a (bind t a path) = some path := by
  unfold bind
  rcases usable_iff.1 h with h | h
  · rw [h]; simp only; rw [lookup_append_none h]; simp [lookup]
  · rw [h]; simp only; exact h

theorem bind_of_bound {t : Table} {a path : String} (h : lookup a t = some path) : bind t a path = t := by
  simp [bind, h]

private theorem nodup_append_single {l : List String} {k : String} (h : l.Nodup) (hk : k ∉ l) :
    (l ++ [k]).Nodup := by
  rw [List.nodup_append]
  refine ⟨h, by simp, ?_⟩
  intro a ha b hb
  simp at hb; subst hb
  intro e; subst e; exact hk ha

theorem bind_keys_nodup {t : Table} (a path : String) (h : (keys t).Nodup) : (keys (bind t a path)).Nodup := by
  unfold bind
  cases hl : lookup a t with
  | none =>
    simp only
    rw [keys_append]
    exact nodup_append_single h (by simpa [keys] using lookup_none_iff.1 hl)
  | some _ => exact h

section
variable (sfx : String → Nat → String) (t : Table) (fp path : String)

theorem findAlias_some : ∀ (fuel i : Nat) {a : String}, findAlias sfx t fp path fuel i = some a →
    ∃ j, i ≤ j ∧ j < i + fuel ∧ a = sfx fp j ∧ usable t a path = true ∧
      ∀ k, i ≤ k → k < j → usable t (sfx fp k) path = false
  | 0, _, _, h => by simp [findAlias] at h
  | fuel + 1, i, a, h => by
    unfold findAlias at h
    split at h
    · next hu =>
      simp at h; subst h
      exact ⟨i, Nat.le_refl _, by omega, rfl, hu, fun k h1 h2 => by omega⟩
    · next hu =>
      obtain ⟨j, h1, h2, h3, h4, h5⟩ := findAlias_some fuel (i + 1) h
      refine ⟨j, by omega, by omega, h3, h4, ?_⟩
      intro k hk1 hk2
      by_cases hki : k = i
      · subst hki; simpa using hu
      · exact h5 k (by omega) hk2

theorem findAlias_of : ∀ (fuel i j : Nat), i ≤ j → j < i + fuel →
    (∀ k, i ≤ k → k < j → usable t (sfx fp k) path = false) → usable t (sfx fp j) path = true →
    findAlias sfx t fp path fuel i = some (sfx fp j)
  | 0, i, j, h1, h2, _, _ => by omega
  | fuel + 1, i, j, h1, h2, hb, hu => by
    unfold findAlias
    by_cases hij : i = j
    · subst hij; simp [hu]
    · have := hb i (Nat.le_refl _) (by omega)
      simp only [this, Bool.false_eq_true, if_false]
      exact findAlias_of fuel (i + 1) j (by omega) (by omega) (fun k hk1 hk2 => hb k (by omega) hk2) hu

theorem findAlias_none : ∀ (fuel i : Nat), findAlias sfx t fp path fuel i = none →
    ∀ k, i ≤ k → k < i + fuel → usable t (sfx fp k) path = false
  | 0, _, _, k, h1, h2 => by omega
  | fuel + 1, i, h, k, h1, h2 => by
    unfold findAlias at h
    split at h
    · simp at h
    · next hu =>
      by_cases hki : k = i
      · subst hki; simpa using hu
      · exact findAlias_none fuel (i + 1) h k (by omega) (by omega)

end

/-- the numbered aliases of one full path are pairwise different (strconv.Itoa is injective) -/
def SfxInj (sfx : String → Nat → String) : Prop := ∀ fp i j, sfx fp i = sfx fp j → i = j

/-- The search loop terminates: among len(table)+1 different candidates one is not a key of the table. -/
theorem findAlias_total {sfx : String → Nat → String} (hinj : SfxInj sfx) (t : Table) (fp path : String) :
    findAlias sfx t fp path (t.length + 1) 0 ≠ none := by
  intro h
  have hall := findAlias_none sfx t fp path (t.length + 1) 0 h
  let cands := (List.range' 0 (t.length + 1)).map (sfx fp)
  have hnd : cands.Nodup := by
    have := List.nodup_range' (s := 0) (n := t.length + 1) 1
    rw [List.nodup_iff_pairwise_ne] at this ⊢
    exact List.Pairwise.map _ (fun a b hab e => hab (hinj fp a b e)) this
  have hsub : cands ⊆ keys t := by
    intro a ha
    obtain ⟨k, hk, rfl⟩ := List.mem_map.1 ha
    obtain ⟨i, hi, rfl⟩ := List.mem_range'.1 hk
    obtain ⟨q, hq, _⟩ := not_usable_iff.1 (hall (0 + 1 * i) (by omega) (by omega))
    exact List.mem_map.2 ⟨_, lookup_some_mem hq, rfl⟩
  have := hnd.length_le_of_subset hsub
  simp [cands, keys] at this
  omega

/-- NewImport always returns (no panic, no endless loop). -/
theorem newImport_total {unv full : String → String} {sfx : String → Nat → String} (hinj : SfxInj sfx)
    (t : Table) (r : Req) : newImport unv full sfx t r ≠ none := by
  unfold newImport
  split
  · simp
  · cases h : findAlias sfx t (full (unv r.path)) (unv r.path) (t.length + 1) 0 with
    | none => exact absurd h (findAlias_total hinj t _ _)
    | some a => simp

theorem run_total {unv full : String → String} {sfx : String → Nat → String} (hinj : SfxInj sfx) :
    ∀ (rs : List Req) (t : Table), run unv full sfx t rs ≠ none
  | [], t => by simp [run]
  | r :: rs, t => by
    unfold run
    cases h : newImport unv full sfx t r with
    | none => exact absurd h (newImport_total hinj t r)
    | some x =>
      obtain ⟨t', a⟩ := x
      simp only
      cases h2 : run unv full sfx t' rs with
      | none => exact absurd h2 (run_total hinj rs t')
      | some y => simp

/-- what a successful call looks like -/
theorem newImport_spec {unv full : String → String} {sfx : String → Nat → String} {t t' : Table} {r : Req}
    {a : String} (h : newImport unv full sfx t r = some (t', a)) :
    t' = bind t a (unv r.path) ∧ usable t a (unv r.path) = true ∧
      (a = r.name ∨
        (usable t r.name (unv r.path) = false ∧ ∃ j, j ≤ t.length ∧ a = sfx (full (unv r.path)) j ∧
          ∀ k, k < j → usable t (sfx (full (unv r.path)) k) (unv r.path) = false)) := by
  unfold newImport at h
  split at h
  · next hu => simp at h; obtain ⟨rfl, rfl⟩ := h; exact ⟨rfl, hu, Or.inl rfl⟩
  · next hu =>
    split at h
    · simp at h
    · next a' hf =>
      simp at h; obtain ⟨rfl, rfl⟩ := h
      obtain ⟨j, _, h2, h3, h4, h5⟩ := findAlias_some sfx t _ _ _ _ hf
      exact ⟨rfl, h4, Or.inr ⟨by simpa using hu, j, by omega, h3, fun k hk => h5 k (Nat.zero_le _) hk⟩⟩

/-! ### the invariant -/

/-- `nm` gives the package name of an (unvendored) import path: the requests are consistent when every
request for a path carries that name (go/types: a package has one name; the plugins' own
`p.NewImport("bytes", "bytes")` calls use the real name). -/
def Consistent (unv nm : String → String) (r : Req) : Prop := r.name = nm (unv r.path)

/-- an entry is under its package name, or under the j-th numbered full-path alias with the package name and
all earlier candidates taken by other paths -/
def Shape (full nm : String → String) (sfx : String → Nat → String) (t : Table) (a p : String) : Prop :=
  a = nm p ∨ ∃ j, a = sfx (full p) j ∧ usable t (nm p) p = false ∧ ∀ k, k < j → usable t (sfx (full p) k) p = false

theorem Shape.mono {full nm : String → String} {sfx : String → Nat → String} {t : Table} {a p : String}
    (h : Shape full nm sfx t a p) (u : Table) : Shape full nm sfx (t ++ u) a p := by
  rcases h with h | ⟨j, h1, h2, h3⟩
  · exact Or.inl h
  · exact Or.inr ⟨j, h1, not_usable_append h2, fun k hk => not_usable_append (h3 k hk)⟩

/-- Invariant of the table: aliases are distinct, every entry has the shape above. -/
structure Inv (full nm : String → String) (sfx : String → Nat → String) (t : Table) : Prop where
  keysNodup : (keys t).Nodup
  shape : ∀ a p, (a, p) ∈ t → Shape full nm sfx t a p

theorem inv_nil (full nm : String → String) (sfx : String → Nat → String) : Inv full nm sfx [] :=
  ⟨by simp [keys], by intro a p h; simp at h⟩

/-- Every path occurs under exactly one alias ("one alias per path"). -/
theorem Inv.vals_unique {full nm : String → String} {sfx : String → Nat → String} {t : Table}
    (h : Inv full nm sfx t) {a b p : String} (ha : (a, p) ∈ t) (hb : (b, p) ∈ t) : a = b := by
  have bound : ∀ {c}, (c, p) ∈ t → usable t c p = true := fun hc =>
    usable_iff.2 (Or.inr (lookup_of_mem_nodup h.keysNodup hc))
  rcases h.shape a p ha with h1 | ⟨i, h1, h1n, h1b⟩ <;> rcases h.shape b p hb with h2 | ⟨j, h2, h2n, h2b⟩
  · rw [h1, h2]
  · have := bound (h1 ▸ ha); rw [h2n] at this; cases this
  · have := bound (h2 ▸ hb); rw [h1n] at this; cases this
  · rcases Nat.lt_trichotomy i j with hij | hij | hij
    · have := bound (h1 ▸ ha); rw [h2b i hij] at this; cases this
    · rw [h1, h2, hij]
    · have := bound (h2 ▸ hb); rw [h1b j hij] at this; cases this

/-- NewImport preserves the invariant. -/
theorem newImport_inv {unv full nm : String → String} {sfx : String → Nat → String} {t t' : Table} {r : Req}
    {a : String} (hI : Inv full nm sfx t) (hc : Consistent unv nm r)
    (h : newImport unv full sfx t r = some (t', a)) : Inv full nm sfx t' := by
  obtain ⟨rfl, hu, hcase⟩ := newImport_spec h
  unfold Consistent at hc
  refine ⟨bind_keys_nodup _ _ hI.keysNodup, ?_⟩
  intro b p hb
  unfold bind at hb ⊢
  cases hl : lookup a t with
  | some q => rw [hl] at hb; simp only at hb ⊢; exact hI.shape b p hb
  | none =>
    rw [hl] at hb; simp only at hb ⊢
    rcases List.mem_append.1 hb with hb | hb
    · exact (hI.shape b p hb).mono _
    · simp at hb; obtain ⟨rfl, rfl⟩ := hb
      rcases hcase with rfl | ⟨hn, j, _, rfl, hblk⟩
      · exact Or.inl hc
      · refine Or.inr ⟨j, rfl, ?_, fun k hk => not_usable_append (hblk k hk)⟩
        rw [← hc]; exact not_usable_append hn

/-- Lifted to whole request sequences. -/
theorem run_inv {unv full nm : String → String} {sfx : String → Nat → String} :
    ∀ {rs : List Req} {t t' : Table} {as : List String}, Inv full nm sfx t →
      (∀ r ∈ rs, Consistent unv nm r) → run unv full sfx t rs = some (t', as) → Inv full nm sfx t'
  | [], t, t', as, hI, _, h => by simp [run] at h; obtain ⟨rfl, _⟩ := h; exact hI
  | r :: rs, t, t', as, hI, hc, h => by
    unfold run at h
    split at h
    · simp at h
    · next t1 a h1 =>
      split at h
      · simp at h
      · next t2 as2 h2 =>
        simp only [Option.some.injEq, Prod.mk.injEq] at h
        obtain ⟨rfl, _⟩ := h
        exact run_inv (newImport_inv hI (hc r (List.mem_cons_self ..)) h1)
          (fun r' hr' => hc r' (List.mem_cons_of_mem _ hr')) h2

/-! ### asking again changes nothing (nameOf re-qualifies on every lookup, pkg.Done's early exit decides
which tables are consulted: neither can change the table) -/

theorem newImport_extends {unv full : String → String} {sfx : String → Nat → String} {t t' : Table} {r : Req}
    {a : String} (h : newImport unv full sfx t r = some (t', a)) : ∃ u, t' = t ++ u := by
  obtain ⟨rfl, _, _⟩ := newImport_spec h
  exact bind_extends _ _ _

/-- Once a request has been answered, it is answered the same way, without changing the table, in every
later (larger) table. -/
theorem newImport_after {unv full : String → String} {sfx : String → Nat → String} {t t' : Table} {r : Req}
    {a : String} (h : newImport unv full sfx t r = some (t', a)) (u : Table) :
    newImport unv full sfx (t' ++ u) r = some (t' ++ u, a) := by
  obtain ⟨rfl, hu, hcase⟩ := newImport_spec h
  obtain ⟨w, hw⟩ := bind_extends t a (unv r.path)
  have hbound : lookup a (bind t a (unv r.path) ++ u) = some (unv r.path) := lookup_append_left (lookup_bind hu)
  have husable : usable (bind t a (unv r.path) ++ u) a (unv r.path) = true := usable_iff.2 (Or.inr hbound)
  unfold newImport
  rcases hcase with rfl | ⟨hn, j, hj, rfl, hblk⟩
  · simp [husable, bind_of_bound hbound]
  · have hn' : usable (bind t r.name (unv r.path) ++ u) r.name (unv r.path) = false := by
      rw [show bind t r.name (unv r.path) = t ++ (match lookup r.name t with | none => [(r.name, unv r.path)] | some _ => []) by
        unfold bind; cases lookup r.name t <;> simp, List.append_assoc]
      exact not_usable_append hn
    have hn2 : usable (bind t (sfx (full (unv r.path)) j) (unv r.path) ++ u) r.name (unv r.path) = false := by
      rw [hw, List.append_assoc]; exact not_usable_append hn
    simp only [hn2, Bool.false_eq_true, if_false]
    have hfind := findAlias_of sfx (bind t (sfx (full (unv r.path)) j) (unv r.path) ++ u) (full (unv r.path)) (unv r.path)
      ((bind t (sfx (full (unv r.path)) j) (unv r.path) ++ u).length + 1) 0 j (Nat.zero_le _)
      (by rw [hw]; simp; omega)
      (fun k _ hk => by rw [hw, List.append_assoc]; exact not_usable_append (hblk k hk)) husable
    rw [hfind]
    simp [bind_of_bound hbound]

theorem newImport_idempotent {unv full : String → String} {sfx : String → Nat → String} {t t' : Table} {r : Req}
    {a : String} (h : newImport unv full sfx t r = some (t', a)) :
    newImport unv full sfx t' r = some (t', a) := by
  simpa using newImport_after h []

/-! ### unvendor, on path segments (a path is its list of `/`-separated segments)

    lastvendor := strings.LastIndex(path, "/vendor/"); if != -1 { path = path[lastvendor+8:] }
    if strings.HasPrefix(path, "vendor/") { path = path[7:] }

  Both steps together: drop everything up to and including the last segment "vendor" that is not the final
  segment. -/

/-- the suffix after the last non-final "vendor" segment, if there is one -/
def cut : List String → Option (List String)
  | [] => none
  | s :: rest =>
    match cut rest with
    | some r => some r
    | none => if s = "vendor" ∧ rest ≠ [] then some rest else none

def unvendor (l : List String) : List String := (cut l).getD l

theorem cut_result_fixed : ∀ {l r : List String}, cut l = some r → cut r = none
  | [], r, h => by simp [cut] at h
  | s :: rest, r, h => by
    unfold cut at h
    split at h
    · next r' hr => simp at h; subst h; exact cut_result_fixed hr
    · next hn =>
      split at h
      · simp at h; subst h; exact hn
      · simp at h

/-- unvendor is idempotent: calling the closure again (it re-applies unvendor to the captured, already
unvendored path) is harmless. -/
theorem unvendor_idempotent (l : List String) : unvendor (unvendor l) = unvendor l := by
  unfold unvendor
  cases h : cut l with
  | none => simp [h]
  | some r => simp [cut_result_fixed h]

end Goderive.G.Imports
