/-
Layer G: the CONCRETE helper-request relation of the plugins equal, compare, hash, deepcopy, clone (and of
keys / sort, which compare and hash ask for), and the work list of `G/Worklist` instantiated with it.

`requests pl env T` is the ordered list of `g.GetFuncName(…)` / `dep.GetFuncName(…)` calls that plugin
`pl` performs while it generates the function for the argument type `T` (plugin/*/…go: `genStatement`,
`genField`, `field`). A key is `(plugin, argument type)`; the argument type list of a helper is determined
by it (equal, compare: `(T, T)`; hash, deepcopy, clone, keys, sort: `(T)`). The one-argument (curried)
entries `deriveEqual(T)` / `deriveCompare(T)` live in the same tables as the two-argument ones; they are
the pseudo plugins `equalC` / `compareC` here (same turn as `equal` / `compare`, same requests, never
requested by generated code).

What is abstracted:
* Type identity is that of the universe `U/Ty`: `int`/`int64`, `uint`/`uint64`/`uintptr` are one basic kind
  each and struct field names are positional. The tie compares modulo the same identification.
* `nameOf` falls back to an *assignable* registered type list when there is no identical one (a named slice
  type and its literal underlying type can share one function). Keys here are compared by identity; the
  tie reports where the fallback was taken on the real side (`Unambiguous` packages are compared exactly).
* Errors: `Generate` returning an error ends the Go loop; here the unsupported shapes request nothing.

Shape of the code (one Lean function per Go function, same case order):
  equal    field = `Equal.field`,  genStatement = `Equal.stmt`
  compare  field = `Compare.field`, genStatement = `Compare.stmt`
  hash     field = `Hash.field`,   genStatement = `Hash.stmt`
  deepcopy genField = `DeepCopy.genField`, genStatement = `DeepCopy.stmt`
  clone    genFuncFor = `Clone.stmt`;  sort printSortFunc = `Sort.stmt`;  keys: no requests
-/
import GoderiveModel.U.Ty
import GoderiveModel.S.Methods
import GoderiveModel.G.Worklist

namespace Goderive.G.Requests
open Goderive

/-- the plugins of `main.go` that take part, in the order of `pkg.plugins` (`idx`) -/
inductive Plugin where
  | equal | equalC | compare | compareC | keys | sort | deepcopy | clone | hash
  deriving DecidableEq, Repr, Inhabited

/-- position among the participating plugins of `pkg.plugins` (equal, compare, …, keys, sort, deepcopy, …,
clone, hash); the curried entries share the table of their plugin -/
def Plugin.idx : Plugin → Nat
  | .equal => 0 | .equalC => 0
  | .compare => 1 | .compareC => 1
  | .keys => 2 | .sort => 3 | .deepcopy => 4 | .clone => 5 | .hash => 6

def numPlugins : Nat := 7

theorem Plugin.idx_lt (p : Plugin) : p.idx < numPlugins := by cases p <;> decide

/-- `(plugin, argument type)`: one entry of the plugin's `typesMap` -/
abbrev Key := Plugin × Ty

/-- `hasDeepCopyMethod` -/
def copyM? (env : Env) : Ty → Option UserFn
  | .named i => (env.decl? i).bind (·.copyM)
  | _ => none

/-- `byte` = `uint8` (an unnamed basic) -/
def byteTy : Ty := .basic (.int 8 false)

/-! ### equal (plugin/equal/equal.go) -/
namespace Equal

/-- the `switch fieldType.Underlying()` of `field`, after the method and `canEqual` tests; `U` is the
underlying type of `F` -/
def fieldShape (env : Env) (F : Ty) : Ty → List Key
  | .ptr R =>
    if R.isNamed then
      match env.eqM? R with
      | some _ => []                      -- `.Equal(...)`, directly or after the dereference
      | none => [(.equal, F)]
    else if canEqualM env R then []       -- `g.field("*(..)", ref)`: `==`
    else fieldShape env R R
  | .array _ _ => [(.equal, F)]
  | .map _ _ => [(.equal, F)]
  | .slice E => if E = byteTy then [] else [(.equal, F)]   -- `bytes.Equal`
  | .struct _ => if F.isNamed then [(.equal, .ptr F)] else []   -- `g.field("&"…, NewPointer(fieldType))` / error
  | _ => []

/-- `g.field(this, that, fieldType)` -/
def field (env : Env) (F : Ty) : List Key :=
  if (env.eqM? F).isSome then [] else
  if canEqualM env F then [] else fieldShape env F (env.under F)

def fieldsReq (env : Env) : Ty → List Key
  | .fcons t r => field env t ++ fieldsReq env r
  | _ => []

/-- `genStatement` for a type whose underlying type `U` is not a pointer -/
def stmtFlat (env : Env) (T U : Ty) : List Key :=
  match U with
  | .struct fs =>
    if T.isNamed then (if (env.eqM? T).isSome then [] else [(.equal, .ptr T)])
    else if canEqualM env U then [] else fieldsReq env fs
  | .slice E => field env E
  | .array _ E => field env E
  | .map _ E => field env E
  | _ => []                               -- basic: `field` of a basic is `==` or the method

/-- `genStatement(typ)`; `U` is the underlying type of `T` -/
def stmtShape (env : Env) (T : Ty) : Ty → List Key
  | .ptr R =>
    match env.under R with
    | .struct fs => if R.isNamed then fieldsReq env fs else []
    | .ptr _ => if R.isNamed then field env R else stmtShape env R R
    | U' => stmtFlat env R U'
  | U => stmtFlat env T U

def stmt (env : Env) (T : Ty) : List Key := stmtShape env T (env.under T)

end Equal

/-! ### compare (plugin/compare/compare.go) -/
namespace Compare

/-- `g.field(this, that, fieldType)` -/
def field (env : Env) (F : Ty) : List Key :=
  if (env.cmpM? F).isSome then [] else
  match env.under F with
  | .basic .string => []                  -- `strings.Compare`
  | .basic _ => [(.compare, F)]
  | .ptr R => if R.isNamed && env.cmpM? R = some .ptr then [] else [(.compare, F)]
  | .array _ _ => [(.compare, F)]
  | .map _ _ => [(.compare, F)]
  | .slice _ => [(.compare, F)]
  | .struct _ => [(.compare, .ptr F)]
  | _ => []

def fieldsReq (env : Env) : Ty → List Key
  | .fcons t r => field env t ++ fieldsReq env r
  | _ => []

/-- `genStatement(typ)` -/
def stmt (env : Env) (T : Ty) : List Key :=
  match env.under T with
  | .ptr R =>
    match env.under R with
    | .struct fs => if R.isNamed then fieldsReq env fs else [(.compare, R)]
    | _ => [(.compare, R)]
  | .struct _ =>
    if T.isNamed then (if env.cmpM? T = some .ptr then [] else [(.compare, .ptr T)]) else []
  | .slice E => field env E
  | .array _ E => field env E
  | .map K V => [(.sort, .slice K), (.keys, T)] ++ field env V ++ field env K
  | _ => []

end Compare

/-! ### hash (plugin/hash/hash.go) -/
namespace Hash

/-- `g.field(name, fieldType)` -/
def field (env : Env) (F : Ty) : List Key :=
  match env.under F with
  | .basic .bool => [(.hash, F)]
  | .basic .string => [(.hash, F)]
  | .basic _ => []
  | .ptr R => if R.isNamed && (env.hashM? R).isSome then [] else [(.hash, F)]
  | .array _ _ => [(.hash, F)]
  | .slice _ => [(.hash, F)]
  | .map _ _ => [(.hash, F)]
  | .struct _ => if F.isNamed && (env.hashM? F).isSome then [] else [(.hash, F)]
  | _ => []

def fieldsReq (env : Env) : Ty → List Key
  | .fcons t r => field env t ++ fieldsReq env r
  | _ => []

/-- the fields of a named struct behind a pointer: unexported fields of an imported struct are skipped -/
def fieldsReqMask (env : Env) : Ty → List Bool → List Key
  | .fcons t r, m => (if m.headD false then [] else field env t) ++ fieldsReqMask env r m.tail
  | _, _ => []

/-- `genStatement(o, typ)` -/
def stmt (env : Env) (T : Ty) : List Key :=
  match env.under T with
  | .ptr R =>
    match env.under R with
    | .struct fs => if R.isNamed then fieldsReqMask env fs (env.skipMask R) else field env R
    | _ => field env R
  | .struct fs =>
    if T.isNamed then (if (env.hashM? T).isSome then [] else [(.hash, .ptr T)]) else fieldsReq env fs
  | .slice E => field env E
  | .array _ E => field env E
  | .map K V => [(.sort, .slice K), (.keys, T)] ++ field env K ++ field env V
  | _ => []

end Hash

/-! ### deepcopy (plugin/deepcopy/deepcopy.go); `canCopy` is `canEqual` of `U/Ty` -/
namespace DeepCopy

def underIsStruct (env : Env) (T : Ty) : Bool :=
  match env.under T with
  | .struct _ => true
  | _ => false

/-- the `switch fieldType.Underlying()` of `genField` for a type that cannot be assigned; arrays are copied
in place (`genStatement`), element by element: `hop` is `genField` of a NAMED element type -/
def fieldShape (env : Env) (hop : Ty → List Key) (F : Ty) : Ty → List Key
  | .ptr R =>
    -- the method of a struct takes the pointer; a named slice or map with a method takes the value, which the
    -- function requested for the pointer type hands over
    if (copyM? env R).isSome && underIsStruct env R then [] else if canEqual env R then [] else [(.deepcopy, F)]
  | .array _ E =>
    if canEqual env E then [] else if E.isNamed then hop E else fieldShape env hop E E
  | .slice E =>
    if (copyM? env F).isSome then [] else if canEqual env E then [] else [(.deepcopy, F)]
  | .map _ _ => if (copyM? env F).isSome then [] else [(.deepcopy, F)]
  | .struct _ => if (copyM? env F).isSome then [] else [(.deepcopy, .ptr F)]
  | _ => []

/-- `genField` of a named, not assignable element type, through at most `n` declarations (go/types rejects
a declaration that contains itself by value, so a chain of arrays passes through each declaration at most
once) -/
def hopN (env : Env) : Nat → Ty → List Key
  | 0, _ => []
  | n + 1, E => fieldShape env (hopN env n) E (env.under E)

/-- `g.genField(fieldType, …)` -/
def genField (env : Env) (F : Ty) : List Key :=
  if canEqual env F then [] else fieldShape env (hopN env env.decls.length) F (env.under F)

def fieldsReq (env : Env) : Ty → List Key
  | .fcons t r => genField env t ++ fieldsReq env r
  | _ => []

/-- `genStatement(typ, …)` -/
def stmt (env : Env) (T : Ty) : List Key :=
  if canEqual env T then [] else
  match env.under T with
  | .ptr R =>
    match env.under R with
    | .struct fs => if R.isNamed then fieldsReq env fs else []
    | _ => genField env R
  | .slice E => if canEqual env E then [] else genField env E
  | .array _ E => genField env E
  | .map K V => (if canEqual env K then [] else genField env K) ++ genField env V
  | _ => []

end DeepCopy

/-! ### clone, sort, keys -/

/-- plugin/clone `genFuncFor` -/
def Clone.stmt (env : Env) (T : Ty) : List Key :=
  match env.under T with
  | .ptr _ => [(.deepcopy, T)]
  | .slice _ => [(.deepcopy, T)]
  | .map _ _ => [(.deepcopy, T)]
  | _ => [(.deepcopy, .ptr T)]

/-- plugin/sort `printSortFunc` (the argument must be an unnamed slice) -/
def Sort.stmt (env : Env) (T : Ty) : List Key :=
  match T with
  | .slice E =>
    match env.under E with
    | .basic (.complex _) => [(.compare, E)]
    | .basic .bool => [(.compare, E)]
    | .basic _ => []                       -- `sort.Strings` / `sort.Ints` / `list[i] < list[j]`
    | .ptr _ => [(.compare, E)]
    | .struct _ => [(.compare, E)]
    | .slice _ => [(.compare, E)]
    | .array _ _ => [(.compare, E)]
    | .map _ _ => [(.compare, E)]
    | _ => []
  | _ => []

/-- the helper requests of `Generate(typs)` of plugin `pl` for the argument type `T`, in order -/
def requests (pl : Plugin) (env : Env) (T : Ty) : List Key :=
  match pl with
  | .equal => Equal.stmt env T
  | .equalC => Equal.stmt env T
  | .compare => Compare.stmt env T
  | .compareC => Compare.stmt env T
  | .hash => Hash.stmt env T
  | .deepcopy => DeepCopy.stmt env T
  | .clone => Clone.stmt env T
  | .sort => Sort.stmt env T
  | .keys => []

def reqK (env : Env) (k : Key) : List Key := requests k.1 env k.2

/-- the user's calls and every helper needed transitively -/
inductive ReachK (env : Env) (init : List Key) : Key → Prop
  | init {k} : k ∈ init → ReachK env init k
  | step {k r} : ReachK env init k → r ∈ reqK env k → ReachK env init r

/-! ### the finite universe of keys -/

/-- a type and all the types it is built from (the `fnil`/`fcons` spine nodes of a struct included) -/
def subs : Ty → List Ty
  | .ptr a => .ptr a :: subs a
  | .slice a => .slice a :: subs a
  | .array n a => .array n a :: subs a
  | .chan a => .chan a :: subs a
  | .map k v => .map k v :: (subs k ++ subs v)
  | .struct fs => .struct fs :: subs fs
  | .fcons a r => .fcons a r :: (subs a ++ subs r)
  | t => [t]

/-- the types that occur in the calls and in the declarations -/
def baseTys (env : Env) (init : List Key) : List Ty :=
  .fnil :: (init.flatMap (fun k => subs k.2) ++ env.decls.flatMap (fun d => subs d.under))

/-- every type a key can have: an occurring type `X`, `*X` (a struct value is handled through a pointer to
it; clone of a value) or `[]X` (the sorted key list of a map) -/
def tyUniverse (env : Env) (init : List Key) : List Ty :=
  let B := baseTys env init
  B ++ B.map .ptr ++ B.map .slice

def allPlugins : List Plugin :=
  [.equal, .equalC, .compare, .compareC, .keys, .sort, .deepcopy, .clone, .hash]

/-- the finite set of keys that bounds the run: every plugin at every type of `tyUniverse` -/
def keyUniverse (env : Env) (init : List Key) : List Key :=
  allPlugins.flatMap fun p => (tyUniverse env init).map fun t => (p, t)

/-! ### the work list of `G/Worklist` over these keys

`Worklist.Key = Nat × Nat`: a key is coded as `(plugin index, position of its first occurrence in the
universe)` (the universe list may repeat a key; only first positions are ever used as codes). -/

def pos {α : Type} [DecidableEq α] (a : α) : List α → Nat
  | [] => 0
  | b :: l => if a = b then 0 else pos a l + 1

def enc (U : List Key) (k : Key) : Worklist.Key := (k.1.idx, pos k U)

def dec (U : List Key) (c : Worklist.Key) : Option Key :=
  match U[c.2]? with
  | some k => if k.1.idx = c.1 then some k else none
  | none => none

def reqC (env : Env) (U : List Key) (c : Worklist.Key) : List Worklist.Key :=
  match dec U c with
  | some k => (reqK env k).map (enc U)
  | none => []

/-- the final state of `for !pkg.Done() { … }` started from the user's calls `init`, keys coded over `U` -/
def closureStateU (env : Env) (U : List Key) (init : List Key) : Option Worklist.State :=
  Worklist.run (reqC env U) numPlugins (U.length + 1) (Worklist.initState (init.map (enc U)))

/-- the fuel `|keyUniverse| + 1` is sufficient (`Props/C01r.closure_terminates`) -/
def closureState (env : Env) (init : List Key) : Option Worklist.State :=
  closureStateU env (keyUniverse env init) init

/-- the generated functions of a state, in emission order -/
def emittedKeys (U : List Key) (s : Worklist.State) : List Key := s.emitted.filterMap (dec U)

/-- the generated functions of a package whose derive calls are `init`, in emission order -/
def closure (env : Env) (init : List Key) : List Key :=
  match closureState env init with
  | some s => emittedKeys (keyUniverse env init) s
  | none => []

end Goderive.G.Requests
