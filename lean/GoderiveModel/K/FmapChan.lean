/-
K/FmapChan: the goroutine emitted by plugin/fmap genChan

    out := make(chan B, cap(in))
    go func() { for a := range in { b := f(a); out <- b }; close(out) }()
    return out

with its environment: one producer that sends `items` on `in` in order and then closes it, one
consumer that keeps receiving from `out` until it observes the close.  The LTS starts right after the
call returned (make / go / return are the straight-line prologue, validated by the T5 replay against
the configuration).  `b := f(a)` is local to the forwarder and merged into its receive.
-/
import GoderiveModel.K.Lts

namespace Goderive.K.FmapChan

structure Cfg where
  items : List Nat
  cap : Nat
  f : Nat → Nat

inductive Pc
  | recv | send (b : Nat) | closing | done
  deriving DecidableEq, Repr

structure State where
  pend : List Nat      -- producer: items not sent yet
  inp : Chan
  out : Chan
  pc : Pc              -- forwarder goroutine
  got : List Nat       -- consumer: items received, in order
  seen : Bool          -- consumer observed that `out` is closed
  panicked : Bool
  deriving Repr

inductive Label
  | pSend | pClose        -- producer (environment)
  | fRecv | fSend | fClose  -- forwarder (emitted code)
  | cRecv                 -- consumer (environment); includes observing the close
  deriving DecidableEq, Repr

def init (c : Cfg) : State :=
  { pend := c.items, inp := Chan.mk0 c.cap, out := Chan.mk0 c.cap, pc := .recv, got := [],
    seen := false, panicked := false }

def held : Pc → List Nat
  | .send b => [b]
  | _ => []

def step (c : Cfg) (s : State) (l : Label) : Option State :=
  if s.panicked then none else
  match l with
  | .pSend =>
    match s.pend with
    | [] => none
    | v :: rest =>
      if s.inp.closed then none
      else if s.inp.buf.length < s.inp.cap then
        some { s with pend := rest, inp := { s.inp with buf := s.inp.buf ++ [v] } }
      else if s.inp.cap = 0 ∧ s.pc = .recv then
        some { s with pend := rest, pc := .send (c.f v) }
      else none
  | .pClose =>
    if s.pend = [] ∧ s.inp.closed = false then some { s with inp := { s.inp with closed := true } }
    else none
  | .fRecv =>
    if s.pc = .recv then
      match s.inp.buf with
      | v :: rest => some { s with inp := { s.inp with buf := rest }, pc := .send (c.f v) }
      | [] => if s.inp.closed then some { s with pc := .closing } else none
    else none
  | .fSend =>
    match s.pc with
    | .send b =>
      if s.out.closed then some { s with panicked := true }
      else if s.out.buf.length < s.out.cap then
        some { s with out := { s.out with buf := s.out.buf ++ [b] }, pc := .recv }
      else none
    | _ => none
  | .fClose =>
    if s.pc = .closing then
      if s.out.closed then some { s with panicked := true }
      else some { s with out := { s.out with closed := true }, pc := .done }
    else none
  | .cRecv =>
    if s.seen then none else
    match s.out.buf with
    | b :: rest => some { s with out := { s.out with buf := rest }, got := s.got ++ [b] }
    | [] =>
      if s.out.closed then some { s with seen := true }
      else match s.pc with
        | .send b => if s.out.cap = 0 then some { s with got := s.got ++ [b], pc := .recv } else none
        | _ => none

def lts (c : Cfg) : Lts State Label := { init := init c, step := step c }

/-- the consumer has seen the close (then, by the invariant, the forwarder is at its end) -/
def final (s : State) : Prop := s.seen = true

/-- the value a transition moves (`none`: a close is observed / no value); used by the replay to
compare the effect of an implementation step with the model step -/
def effect (s : State) : Label → Option Nat
  | .pSend => s.pend.head?
  | .fRecv => s.inp.buf.head?
  | .fSend => (held s.pc).head?
  | .cRecv => match s.out.buf with
    | b :: _ => some b
    | [] => if s.out.closed then none else (held s.pc).head?
  | _ => none

end Goderive.K.FmapChan
