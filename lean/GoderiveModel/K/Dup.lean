/-
K/Dup: the goroutine emitted by plugin/dup

    cc1, cc2 := make(chan T, cap(c)), make(chan T, cap(c))
    go func() { for v := range c { cc1 <- v; cc2 <- v }; close(cc1); close(cc2) }()
    return cc1, cc2

Environment: one producer on `c`, one consumer per output, each receiving until it sees the close.
-/
import GoderiveModel.K.Lts

namespace Goderive.K.Dup

structure Cfg where
  items : List Nat
  cap : Nat

inductive Pc
  | recv | send1 (v : Nat) | send2 (v : Nat) | close1 | close2 | done
  deriving DecidableEq, Repr

structure State where
  pend : List Nat
  inp : Chan
  o1 : Chan
  o2 : Chan
  pc : Pc
  got1 : List Nat
  got2 : List Nat
  seen1 : Bool
  seen2 : Bool
  panicked : Bool
  deriving Repr

inductive Label
  | pSend | pClose
  | dRecv | dSend1 | dSend2 | dClose1 | dClose2
  | c1Recv | c2Recv
  deriving DecidableEq, Repr

def init (c : Cfg) : State :=
  { pend := c.items, inp := Chan.mk0 c.cap, o1 := Chan.mk0 c.cap, o2 := Chan.mk0 c.cap, pc := .recv,
    got1 := [], got2 := [], seen1 := false, seen2 := false, panicked := false }

/-- item held by the goroutine that still has to reach output 1 / output 2 -/
def held1 : Pc → List Nat
  | .send1 v => [v]
  | _ => []

def held2 : Pc → List Nat
  | .send1 v => [v]
  | .send2 v => [v]
  | _ => []

def step (_c : Cfg) (s : State) (l : Label) : Option State :=
  if s.panicked then none else
  match l with
  | .pSend =>
    match s.pend with
    | [] => none
    | v :: rest =>
      if s.inp.closed then none
      else if s.inp.buf.length < s.inp.cap then
        some { s with pend := rest, inp := { s.inp with buf := s.inp.buf ++ [v] } }
      else if s.inp.cap = 0 ∧ s.pc = .recv then
        some { s with pend := rest, pc := .send1 v }
      else none
  | .pClose =>
    if s.pend = [] ∧ s.inp.closed = false then some { s with inp := { s.inp with closed := true } }
    else none
  | .dRecv =>
    if s.pc = .recv then
      match s.inp.buf with
      | v :: rest => some { s with inp := { s.inp with buf := rest }, pc := .send1 v }
      | [] => if s.inp.closed then some { s with pc := .close1 } else none
    else none
  | .dSend1 =>
    match s.pc with
    | .send1 v =>
      if s.o1.closed then some { s with panicked := true }
      else if s.o1.buf.length < s.o1.cap then
        some { s with o1 := { s.o1 with buf := s.o1.buf ++ [v] }, pc := .send2 v }
      else none
    | _ => none
  | .dSend2 =>
    match s.pc with
    | .send2 v =>
      if s.o2.closed then some { s with panicked := true }
      else if s.o2.buf.length < s.o2.cap then
        some { s with o2 := { s.o2 with buf := s.o2.buf ++ [v] }, pc := .recv }
      else none
    | _ => none
  | .dClose1 =>
    if s.pc = .close1 then
      if s.o1.closed then some { s with panicked := true }
      else some { s with o1 := { s.o1 with closed := true }, pc := .close2 }
    else none
  | .dClose2 =>
    if s.pc = .close2 then
      if s.o2.closed then some { s with panicked := true }
      else some { s with o2 := { s.o2 with closed := true }, pc := .done }
    else none
  | .c1Recv =>
    if s.seen1 then none else
    match s.o1.buf with
    | b :: rest => some { s with o1 := { s.o1 with buf := rest }, got1 := s.got1 ++ [b] }
    | [] =>
      if s.o1.closed then some { s with seen1 := true }
      else match s.pc with
        | .send1 v => if s.o1.cap = 0 then some { s with got1 := s.got1 ++ [v], pc := .send2 v } else none
        | _ => none
  | .c2Recv =>
    if s.seen2 then none else
    match s.o2.buf with
    | b :: rest => some { s with o2 := { s.o2 with buf := rest }, got2 := s.got2 ++ [b] }
    | [] =>
      if s.o2.closed then some { s with seen2 := true }
      else match s.pc with
        | .send2 v => if s.o2.cap = 0 then some { s with got2 := s.got2 ++ [v], pc := .recv } else none
        | _ => none

def lts (c : Cfg) : Lts State Label := { init := init c, step := step c }

def final (s : State) : Prop := s.seen1 = true ∧ s.seen2 = true

def effect (s : State) : Label → Option Nat
  | .pSend => s.pend.head?
  | .dRecv => s.inp.buf.head?
  | .dSend1 => (held1 s.pc).head?
  | .dSend2 => match s.pc with
    | .send2 v => some v
    | _ => none
  | .c1Recv => match s.o1.buf with
    | b :: _ => some b
    | [] => if s.o1.closed then none else (held1 s.pc).head?
  | .c2Recv => match s.o2.buf with
    | b :: _ => some b
    | [] => if s.o2.closed then none else match s.pc with
      | .send2 v => some v
      | _ => none
  | _ => none

end Goderive.K.Dup
