/-
The channel-operation skeletons the layer-K transition systems were written for (tie T4).

`Generated/ConcFacts.lean` is rewritten on every run of `./check C19` / `./check C20` by
`harness/cmd/genconc` from the code the real goderive emits NOW for a small fixed package using every
concurrent combinator form; `skeleton_matches` makes `lake build` fail as soon as the emitted
concurrency structure (order / nesting of make(chan, cap), go, range over a channel, send, receive,
wg.Add / Done / Wait, select cases and the nil-ing of closed inputs, close, return) changes.

Which LTS models which skeleton:
  deriveFmapC, deriveFmap            K/FmapChan   (deriveFmap: the stage-1 forwarder of K/Pipeline)
  deriveDupB, deriveDupR             K/Dup
  deriveJoinCC, deriveJoinCCb        K/JoinWG, chanForm = true   (`wait.Add 1` precedes the inner `go`; `if listening[c] { continue }`
                                     / `listening[c] = true` before it: one forwarder per distinct channel — `Cfg.seen`, `take`)
  deriveJoinSC, deriveJoinSCb        K/JoinWG, chanForm = false (since F103 the CALLER reads the list: Add / go run before the
                                     function returns, a last goroutine only waits and closes — same transitions, other goroutines)
  deriveJoinV2, V3, V5, V6           K/JoinSelect with n = 2, 3, 5, 6 (one select case per channel argument)
  derivePipelineP                    K/Pipeline   (= deriveJoinCC ∘ deriveFmap)
  deriveDo2, deriveDo3, deriveDo4    K/Do with n = 2, 3, 4
  deriveDo3b, deriveDo2b             K/Do with n = 3, 2 (second package: two Do calls, the larger arity first)
  deriveDo3m                         K/Do with n = 3, functions of three different result types
  deriveJoinCCbb, deriveJoinPb, deriveFmapPb, derivePipelineB
                                     bidirectional inner channels / stage results (F94, F95): identical skeletons
  deriveFmapA, deriveDupA, deriveJoinCCe, deriveJoinSCe, deriveJoinV2e, deriveFmapPe, derivePipelineE
                                     the same systems over INTERFACE-typed streams (interface{} / error): identical skeletons;
                                     the item alphabet of the LTSs is Nat, items 0 / 1 stand for the nil interface value / a typed-nil pointer
-/
import GoderiveModel.Generated.ConcFacts

namespace Goderive.K

def expectedSkeletons : List (String × String) := [
  ("deriveDo2",
   "(func (f0 f1) (def (errChan) (make-chan 0)) (var v0) (go (var v0err) (set (v0 v0err) (f0)) (send errChan v0err)) (var v1) (go (var v1err) (set (v1 v1err) (f1)) (send errChan v1err)) (var err) (for ((def (i) 0)) ((< i 2)) ((++ i)) (def (errc) (recv errChan)) (if (!= errc nil) (then (if (== err nil) (then (set (err) errc)))))) (return v0 v1 err))"),
  ("deriveDo2b",
   "(func (f0 f1) (def (errChan) (make-chan 0)) (var v0) (go (var v0err) (set (v0 v0err) (f0)) (send errChan v0err)) (var v1) (go (var v1err) (set (v1 v1err) (f1)) (send errChan v1err)) (var err) (for ((def (i) 0)) ((< i 2)) ((++ i)) (def (errc) (recv errChan)) (if (!= errc nil) (then (if (== err nil) (then (set (err) errc)))))) (return v0 v1 err))"),
  ("deriveDo3",
   "(func (f0 f1 f2) (def (errChan) (make-chan 0)) (var v0) (go (var v0err) (set (v0 v0err) (f0)) (send errChan v0err)) (var v1) (go (var v1err) (set (v1 v1err) (f1)) (send errChan v1err)) (var v2) (go (var v2err) (set (v2 v2err) (f2)) (send errChan v2err)) (var err) (for ((def (i) 0)) ((< i 3)) ((++ i)) (def (errc) (recv errChan)) (if (!= errc nil) (then (if (== err nil) (then (set (err) errc)))))) (return v0 v1 v2 err))"),
  ("deriveDo3b",
   "(func (f0 f1 f2) (def (errChan) (make-chan 0)) (var v0) (go (var v0err) (set (v0 v0err) (f0)) (send errChan v0err)) (var v1) (go (var v1err) (set (v1 v1err) (f1)) (send errChan v1err)) (var v2) (go (var v2err) (set (v2 v2err) (f2)) (send errChan v2err)) (var err) (for ((def (i) 0)) ((< i 3)) ((++ i)) (def (errc) (recv errChan)) (if (!= errc nil) (then (if (== err nil) (then (set (err) errc)))))) (return v0 v1 v2 err))"),
  ("deriveDo3m",
   "(func (f0 f1 f2) (def (errChan) (make-chan 0)) (var v0) (go (var v0err) (set (v0 v0err) (f0)) (send errChan v0err)) (var v1) (go (var v1err) (set (v1 v1err) (f1)) (send errChan v1err)) (var v2) (go (var v2err) (set (v2 v2err) (f2)) (send errChan v2err)) (var err) (for ((def (i) 0)) ((< i 3)) ((++ i)) (def (errc) (recv errChan)) (if (!= errc nil) (then (if (== err nil) (then (set (err) errc)))))) (return v0 v1 v2 err))"),
  ("deriveDo4",
   "(func (f0 f1 f2 f3) (def (errChan) (make-chan 0)) (var v0) (go (var v0err) (set (v0 v0err) (f0)) (send errChan v0err)) (var v1) (go (var v1err) (set (v1 v1err) (f1)) (send errChan v1err)) (var v2) (go (var v2err) (set (v2 v2err) (f2)) (send errChan v2err)) (var v3) (go (var v3err) (set (v3 v3err) (f3)) (send errChan v3err)) (var err) (for ((def (i) 0)) ((< i 4)) ((++ i)) (def (errc) (recv errChan)) (if (!= errc nil) (then (if (== err nil) (then (set (err) errc)))))) (return v0 v1 v2 v3 err))"),
  ("deriveDupA",
   "(func (c) (def (cc1 cc2) (make-chan (cap c)) (make-chan (cap c))) (go (range-chan (v) c (send cc1 v) (send cc2 v)) (close cc1) (close cc2)) (return cc1 cc2))"),
  ("deriveDupB",
   "(func (c) (def (cc1 cc2) (make-chan (cap c)) (make-chan (cap c))) (go (range-chan (v) c (send cc1 v) (send cc2 v)) (close cc1) (close cc2)) (return cc1 cc2))"),
  ("deriveDupR",
   "(func (c) (def (cc1 cc2) (make-chan (cap c)) (make-chan (cap c))) (go (range-chan (v) c (send cc1 v) (send cc2 v)) (close cc1) (close cc2)) (return cc1 cc2))"),
  ("deriveFmap",
   "(func (f in) (def (out) (make-chan (cap in))) (go (range-chan (a) in (def (b) (f a)) (send out b)) (close out)) (return out))"),
  ("deriveFmapA",
   "(func (f in) (def (out) (make-chan (cap in))) (go (range-chan (a) in (def (b) (f a)) (send out b)) (close out)) (return out))"),
  ("deriveFmapC",
   "(func (f in) (def (out) (make-chan (cap in))) (go (range-chan (a) in (def (b) (f a)) (send out b)) (close out)) (return out))"),
  ("deriveFmapPb",
   "(func (f in) (def (out) (make-chan (cap in))) (go (range-chan (a) in (def (b) (f a)) (send out b)) (close out)) (return out))"),
  ("deriveFmapPe",
   "(func (f in) (def (out) (make-chan (cap in))) (go (range-chan (a) in (def (b) (f a)) (send out b)) (close out)) (return out))"),
  ("deriveJoinCC",
   "(func (in) (def (out) (make-chan 0)) (go (def (wait) (lit sync.WaitGroup)) (def (listening) (make-other)) (range-chan (c) in (if (index listening c) (then (continue))) (set ((index listening c)) true) (wait.Add 1) (def (res) c) (go (range-chan (r) res (send out r)) (wait.Done))) (wait.Wait) (close out)) (return out))"),
  ("deriveJoinCCb",
   "(func (in) (def (out) (make-chan 0)) (go (def (wait) (lit sync.WaitGroup)) (def (listening) (make-other)) (range-chan (c) in (if (index listening c) (then (continue))) (set ((index listening c)) true) (wait.Add 1) (def (res) c) (go (range-chan (r) res (send out r)) (wait.Done))) (wait.Wait) (close out)) (return out))"),
  ("deriveJoinCCbb",
   "(func (in) (def (out) (make-chan 0)) (go (def (wait) (lit sync.WaitGroup)) (def (listening) (make-other)) (range-chan (c) in (if (index listening c) (then (continue))) (set ((index listening c)) true) (wait.Add 1) (def (res) c) (go (range-chan (r) res (send out r)) (wait.Done))) (wait.Wait) (close out)) (return out))"),
  ("deriveJoinCCe",
   "(func (in) (def (out) (make-chan 0)) (go (def (wait) (lit sync.WaitGroup)) (def (listening) (make-other)) (range-chan (c) in (if (index listening c) (then (continue))) (set ((index listening c)) true) (wait.Add 1) (def (res) c) (go (range-chan (r) res (send out r)) (wait.Done))) (wait.Wait) (close out)) (return out))"),
  ("deriveJoinPb",
   "(func (in) (def (out) (make-chan 0)) (go (def (wait) (lit sync.WaitGroup)) (def (listening) (make-other)) (range-chan (c) in (if (index listening c) (then (continue))) (set ((index listening c)) true) (wait.Add 1) (def (res) c) (go (range-chan (r) res (send out r)) (wait.Done))) (wait.Wait) (close out)) (return out))"),
  ("deriveJoinSC",
   "(func (in) (def (out) (make-chan 0)) (def (wait) (& (lit sync.WaitGroup))) (def (listening) (make-other (len in))) (range-slice (_ c) in (if (index listening c) (then (continue))) (set ((index listening c)) true) (wait.Add 1) (def (res) c) (go (range-chan (r) res (send out r)) (wait.Done))) (go (wait.Wait) (close out)) (return out))"),
  ("deriveJoinSCb",
   "(func (in) (def (out) (make-chan 0)) (def (wait) (& (lit sync.WaitGroup))) (def (listening) (make-other (len in))) (range-slice (_ c) in (if (index listening c) (then (continue))) (set ((index listening c)) true) (wait.Add 1) (def (res) c) (go (range-chan (r) res (send out r)) (wait.Done))) (go (wait.Wait) (close out)) (return out))"),
  ("deriveJoinSCe",
   "(func (in) (def (out) (make-chan 0)) (def (wait) (& (lit sync.WaitGroup))) (def (listening) (make-other (len in))) (range-slice (_ c) in (if (index listening c) (then (continue))) (set ((index listening c)) true) (wait.Add 1) (def (res) c) (go (range-chan (r) res (send out r)) (wait.Done))) (go (wait.Wait) (close out)) (return out))"),
  ("deriveJoinV2",
   "(func (c0 c1) (def (out) (make-chan 0)) (go (for () ((|| (!= c0 nil) (!= c1 nil))) () (select (case (def (v0 ok0) (recv c0)) (if (! ok0) (then (set (c0) nil)) (else (send out v0)))) (case (def (v1 ok1) (recv c1)) (if (! ok1) (then (set (c1) nil)) (else (send out v1)))))) (close out)) (return out))"),
  ("deriveJoinV2e",
   "(func (c0 c1) (def (out) (make-chan 0)) (go (for () ((|| (!= c0 nil) (!= c1 nil))) () (select (case (def (v0 ok0) (recv c0)) (if (! ok0) (then (set (c0) nil)) (else (send out v0)))) (case (def (v1 ok1) (recv c1)) (if (! ok1) (then (set (c1) nil)) (else (send out v1)))))) (close out)) (return out))"),
  ("deriveJoinV3",
   "(func (c0 c1 c2) (def (out) (make-chan 0)) (go (for () ((|| (|| (!= c0 nil) (!= c1 nil)) (!= c2 nil))) () (select (case (def (v0 ok0) (recv c0)) (if (! ok0) (then (set (c0) nil)) (else (send out v0)))) (case (def (v1 ok1) (recv c1)) (if (! ok1) (then (set (c1) nil)) (else (send out v1)))) (case (def (v2 ok2) (recv c2)) (if (! ok2) (then (set (c2) nil)) (else (send out v2)))))) (close out)) (return out))"),
  ("deriveJoinV5",
   "(func (c0 c1 c2 c3 c4) (def (out) (make-chan 0)) (go (for () ((|| (|| (|| (|| (!= c0 nil) (!= c1 nil)) (!= c2 nil)) (!= c3 nil)) (!= c4 nil))) () (select (case (def (v0 ok0) (recv c0)) (if (! ok0) (then (set (c0) nil)) (else (send out v0)))) (case (def (v1 ok1) (recv c1)) (if (! ok1) (then (set (c1) nil)) (else (send out v1)))) (case (def (v2 ok2) (recv c2)) (if (! ok2) (then (set (c2) nil)) (else (send out v2)))) (case (def (v3 ok3) (recv c3)) (if (! ok3) (then (set (c3) nil)) (else (send out v3)))) (case (def (v4 ok4) (recv c4)) (if (! ok4) (then (set (c4) nil)) (else (send out v4)))))) (close out)) (return out))"),
  ("deriveJoinV6",
   "(func (c0 c1 c2 c3 c4 c5) (def (out) (make-chan 0)) (go (for () ((|| (|| (|| (|| (|| (!= c0 nil) (!= c1 nil)) (!= c2 nil)) (!= c3 nil)) (!= c4 nil)) (!= c5 nil))) () (select (case (def (v0 ok0) (recv c0)) (if (! ok0) (then (set (c0) nil)) (else (send out v0)))) (case (def (v1 ok1) (recv c1)) (if (! ok1) (then (set (c1) nil)) (else (send out v1)))) (case (def (v2 ok2) (recv c2)) (if (! ok2) (then (set (c2) nil)) (else (send out v2)))) (case (def (v3 ok3) (recv c3)) (if (! ok3) (then (set (c3) nil)) (else (send out v3)))) (case (def (v4 ok4) (recv c4)) (if (! ok4) (then (set (c4) nil)) (else (send out v4)))) (case (def (v5 ok5) (recv c5)) (if (! ok5) (then (set (c5) nil)) (else (send out v5)))))) (close out)) (return out))"),
  ("derivePipelineB",
   "(func (f g) (return (lambda (a) (def (b) (f a)) (return (deriveJoinPb (deriveFmapPb g b))))))"),
  ("derivePipelineE",
   "(func (f g) (return (lambda (a) (def (b) (f a)) (return (deriveJoinCCe (deriveFmapPe g b))))))"),
  ("derivePipelineP",
   "(func (f g) (return (lambda (a) (def (b) (f a)) (return (deriveJoinCC (deriveFmap g b))))))")
]

/-- T4: the code goderive emits now has the concurrency skeleton the transition systems model. -/
theorem skeleton_matches : Generated.skeletons = expectedSkeletons := by rfl

end Goderive.K
