/-
K/JoinWG: the goroutines emitted by plugin/join genChan (chan of chan) and genSliceOfChan

    out := make(chan T)
    go func() {
        wait := sync.WaitGroup{}
        listening := make(map[<-chan T]bool)        // slice form: make(map[…]bool, len(in))
        for c := range in {            // slice form: for _, c := range in
            if listening[c] { continue }            // a channel given twice is listened to once (F64)
            listening[c] = true
            wait.Add(1)
            res := c
            go func() { for r := range res { out <- r }; wait.Done() }()
        }
        wait.Wait()
        close(out)
    }()
    return out

Since F103 the slice form runs the loop (listening check, `wait.Add(1)`, `go`) in the CALLER, before the function
returns, and starts one more goroutine for `wait.Wait(); close(out)`: the same transitions, performed by other
goroutines (the replay maps `main` to the dispatcher's loop and `join#1` to wait / close for that form); the LTS —
which lets the consumer and the producers interleave freely with the loop — over-approximates it.

The two forms differ only in how the spawner learns the next channel: in the chan-of-chan form it
receives it from the outer channel (capacity `ocap`, an environment producer sends the `n` channels in
order and closes); in the slice form the loop header is local.  The outer channel is FIFO and carries
the positions 0,1,2,… in that order, so it is modelled by counters (`orem` still to send, `obuf`
buffered); the replay checks that the k-th channel received is channel k.  The slice form is the same
system started with all `n` channels buffered and the outer channel closed, with the (then always
enabled, local) `next` step merged into the preceding step.

Environment: producer `i` sends `items i` on inner channel `i` (capacity `cap i`) and closes it — it
may do so before the forwarder for `i` exists; one consumer receives on the unbuffered `out` until it
observes the close.  Items are tagged with their input index in the consumer log (ghost).
-/
import GoderiveModel.K.Lts

namespace Goderive.K.JoinWG

structure Cfg where
  n : Nat                  -- number of POSITIONS (slice elements / channels carried by the outer channel)
  items : Nat → List Nat
  cap : Nat → Nat
  chanForm : Bool
  ocap : Nat
  /-- `seen p`: the channel at position p already occurred at an earlier position (`listening[c]` is true when
  the dispatcher gets to it).  Such a position is skipped; its items are those of the first occurrence, so the
  environment gives it no items of its own (`items p = []`).  Distinct inputs: `seen = fun _ => false`. -/
  seen : Nat → Bool

/-- forwarder `i` -/
inductive FSt
  | absent | recv | send (v : Nat) | doneCall | finished
  | skipped   -- no forwarder: the position repeats a channel that is already listened to
  deriving DecidableEq, Repr

/-- spawner -/
inductive SPc
  | next | add | go | wait | close | fin
  deriving DecidableEq, Repr

structure State where
  orem : Nat           -- outer producer: channels not sent yet
  obuf : Nat           -- outer channel: channels buffered
  oclosed : Bool
  k : Nat              -- forwarders spawned so far
  pc : SPc
  wg : Nat             -- WaitGroup counter
  pend : Nat → List Nat
  ch : Nat → Chan
  st : Nat → FSt
  outClosed : Bool
  got : List (Nat × Nat)
  seen : Bool
  panicked : Bool

inductive Label
  | oSend | oClose                       -- outer producer (environment, chan-of-chan form)
  | spNext | spAdd | spGo | spWait | spClose
  | pSend (i : Nat) | pClose (i : Nat)   -- producer i (environment)
  | fRecv (i : Nat) | fSend (i : Nat) | fDone (i : Nat)
  | cTake (i : Nat) | cSeeClose          -- consumer (environment); cTake i = rendezvous with forwarder i
  deriving DecidableEq, Repr

def live : FSt → Bool
  | .recv => true
  | .send _ => true
  | .doneCall => true
  | _ => false

def held : FSt → List Nat
  | .send v => [v]
  | _ => []

/-- one turn of the dispatcher's loop head: it takes the next position from the outer channel — skipping it
(`if listening[c] { continue }`) when its channel is already listened to — or sees the outer channel closed and
drained.  The map lookup / insert is local to the dispatcher and merged into this step. -/
def take (c : Cfg) (s : State) : State :=
  if 0 < s.obuf then
    if c.seen s.k then { s with obuf := s.obuf - 1, st := upd s.st s.k .skipped, k := s.k + 1 }
    else { s with obuf := s.obuf - 1, pc := .add }
  else { s with pc := .wait }

/-- slice form: the loop header is local, so `take` is iterated until the dispatcher is at a visible step -/
def advance (c : Cfg) : Nat → State → State
  | 0, s => take c s
  | f + 1, s => if (take c s).pc = .next then advance c f (take c s) else take c s

def init (c : Cfg) : State :=
  let s0 : State :=
    { orem := c.n, obuf := 0, oclosed := false, k := 0, pc := .next, wg := 0,
      pend := c.items, ch := fun i => Chan.mk0 (c.cap i), st := fun _ => .absent,
      outClosed := false, got := [], seen := false, panicked := false }
  if c.chanForm then s0 else advance c c.n { s0 with orem := 0, obuf := c.n, oclosed := true }

def step (c : Cfg) (s : State) (l : Label) : Option State :=
  if s.panicked then none else
  match l with
  | .oSend =>
    if c.chanForm = true ∧ 0 < s.orem ∧ s.oclosed = false then
      if s.obuf < c.ocap then some { s with orem := s.orem - 1, obuf := s.obuf + 1 }
      else if c.ocap = 0 ∧ s.pc = .next then some (take c { s with orem := s.orem - 1, obuf := s.obuf + 1 })
      else none
    else none
  | .oClose =>
    if c.chanForm = true ∧ s.orem = 0 ∧ s.oclosed = false then some { s with oclosed := true } else none
  | .spNext =>
    if c.chanForm = true ∧ s.pc = .next ∧ (0 < s.obuf ∨ s.oclosed = true) then some (take c s) else none
  | .spAdd =>
    if s.pc = .add then some { s with wg := s.wg + 1, pc := .go } else none
  | .spGo =>
    if s.pc = .go then
      let s1 := { s with st := upd s.st s.k .recv, k := s.k + 1, pc := .next }
      some (if c.chanForm then s1 else advance c s1.obuf s1)
    else none
  | .spWait =>
    if s.pc = .wait ∧ s.wg = 0 then some { s with pc := .close } else none
  | .spClose =>
    if s.pc = .close then
      if s.outClosed then some { s with panicked := true }
      else some { s with outClosed := true, pc := .fin }
    else none
  | .pSend i =>
    if c.n ≤ i then none else
    match s.pend i with
    | [] => none
    | v :: rest =>
      if (s.ch i).closed then none
      else if (s.ch i).buf.length < (s.ch i).cap then
        some { s with pend := upd s.pend i rest,
                      ch := upd s.ch i { s.ch i with buf := (s.ch i).buf ++ [v] } }
      else if (s.ch i).cap = 0 ∧ s.st i = .recv then
        some { s with pend := upd s.pend i rest, st := upd s.st i (.send v) }
      else none
  | .pClose i =>
    if c.n ≤ i then none else
    if s.pend i = [] ∧ (s.ch i).closed = false then
      some { s with ch := upd s.ch i { s.ch i with closed := true } }
    else none
  | .fRecv i =>
    if c.n ≤ i then none else
    if s.st i = .recv then
      match (s.ch i).buf with
      | v :: rest => some { s with ch := upd s.ch i { s.ch i with buf := rest }, st := upd s.st i (.send v) }
      | [] => if (s.ch i).closed then some { s with st := upd s.st i .doneCall } else none
    else none
  | .fSend i =>
    if c.n ≤ i then none else
    match s.st i with
    | .send _ => if s.outClosed then some { s with panicked := true } else none
    | _ => none
  | .fDone i =>
    if c.n ≤ i then none else
    if s.st i = .doneCall then
      if s.wg = 0 then some { s with panicked := true }
      else some { s with wg := s.wg - 1, st := upd s.st i .finished }
    else none
  | .cTake i =>
    if c.n ≤ i then none else
    if s.seen = true ∨ s.outClosed = true then none else
    match s.st i with
    | .send v => some { s with got := s.got ++ [(i, v)], st := upd s.st i .recv }
    | _ => none
  | .cSeeClose =>
    if s.seen = false ∧ s.outClosed = true then some { s with seen := true } else none

def lts (c : Cfg) : Lts State Label := { init := init c, step := step c }

def final (s : State) : Prop := s.seen = true

def effect (c : Cfg) (s : State) : Label → Option Nat
  | .oSend => some (c.n - s.orem)
  | .spNext => if 0 < s.obuf then some s.k else none
  | .pSend i => (s.pend i).head?
  | .fRecv i => (s.ch i).buf.head?
  | .fSend i => (held (s.st i)).head?
  | .cTake i => (held (s.st i)).head?
  | _ => none

end Goderive.K.JoinWG
