/-
Layer K: labelled transition systems for the goroutine skeletons emitted by fmap / join / pipeline /
dup / do.  `step` is executable (the driver replays implementation traces on it, tie T5); every safety
claim in Props/C19, Props/C20 is an invariant proved by induction over `Reachable`.

Go channel semantics used by all systems (and implemented by harness/vsched the same way):
  * a channel has a capacity, a FIFO buffer and a closed flag;
  * buffered send: enabled when the buffer has room; appends.  Buffered receive: pops the head;
  * unbuffered (cap = 0) send/receive is ONE joint transition of the sender and a receiver that is
    parked at a receive on that channel;
  * a receive on a closed, empty channel is enabled and reports "closed";
  * a send on a closed channel and a close of a closed channel are enabled and lead to the panic state;
  * `wg.Wait` is enabled iff the counter is 0; `wg.Done` on a zero counter panics;
  * `select` = any enabled case (a nil channel is never enabled).
-/
namespace Goderive.K

structure Lts (σ ℓ : Type) where
  init : σ
  step : σ → ℓ → Option σ

namespace Lts
variable {σ ℓ : Type}

/-- run a list of labels; `none` as soon as one label is not enabled -/
def run (m : Lts σ ℓ) : σ → List ℓ → Option σ
  | s, [] => some s
  | s, l :: ls =>
    match m.step s l with
    | some s' => run m s' ls
    | none => none

inductive Reachable (m : Lts σ ℓ) : σ → Prop
  | init : Reachable m m.init
  | step {s s' : σ} {l : ℓ} : Reachable m s → m.step s l = some s' → Reachable m s'

/-- some transition is enabled -/
def Enabled (m : Lts σ ℓ) (s : σ) : Prop := ∃ l s', m.step s l = some s'

theorem enabled_of_isSome (m : Lts σ ℓ) (s : σ) (l : ℓ) (h : (m.step s l).isSome = true) : Enabled m s := by
  cases h' : m.step s l with
  | none => simp [h'] at h
  | some s' => exact ⟨l, s', h'⟩

theorem invariant (m : Lts σ ℓ) (P : σ → Prop) (h0 : P m.init)
    (hs : ∀ s l s', P s → m.step s l = some s' → P s') : ∀ s, Reachable m s → P s := by
  intro s h
  induction h with
  | init => exact h0
  | step _ hst ih => exact hs _ _ _ ih hst

theorem reachable_run_from (m : Lts σ ℓ) : ∀ (tr : List ℓ) (s s' : σ),
    Reachable m s → m.run s tr = some s' → Reachable m s' := by
  intro tr
  induction tr with
  | nil => intro s s' hr h; simp [run] at h; exact h ▸ hr
  | cons l ls ih =>
    intro s s' hr h
    simp only [run] at h
    split at h
    · next s1 h1 => exact ih s1 s' (Reachable.step hr h1) h
    · cases h

/-- everything reached by a trace from `init` is reachable (what the T5 replay establishes for the
states an implementation run goes through) -/
theorem reachable_of_run (m : Lts σ ℓ) (tr : List ℓ) (s : σ) (h : m.run m.init tr = some s) :
    Reachable m s :=
  reachable_run_from m tr m.init s Reachable.init h

theorem run_append (m : Lts σ ℓ) : ∀ (t1 t2 : List ℓ) (s s1 : σ),
    m.run s t1 = some s1 → m.run s (t1 ++ t2) = m.run s1 t2 := by
  intro t1
  induction t1 with
  | nil => intro t2 s s1 h; simp [run] at h; simp [h]
  | cons l ls ih =>
    intro t2 s s1 h
    simp only [run, List.cons_append] at h ⊢
    cases h' : m.step s l with
    | none => simp [h'] at h
    | some s' => simp only [h'] at h ⊢; exact ih t2 s' s1 h

theorem run_of_reachable (m : Lts σ ℓ) (s : σ) (h : Reachable m s) :
    ∃ tr, m.run m.init tr = some s := by
  induction h with
  | init => exact ⟨[], rfl⟩
  | @step s1 s2 l _ hst ih =>
    obtain ⟨tr, htr⟩ := ih
    refine ⟨tr ++ [l], ?_⟩
    rw [run_append m tr _ _ _ htr]
    simp [run, hst]

/-- if every step from a state satisfying the (inductive) invariant strictly decreases a measure, every
run is at most as long as the measure of its first state: no schedule is infinite -/
theorem run_length_le (m : Lts σ ℓ) (Inv : σ → Prop) (μ : σ → Nat)
    (hinv : ∀ s l s', Inv s → m.step s l = some s' → Inv s')
    (hdec : ∀ s l s', Inv s → m.step s l = some s' → μ s' < μ s) :
    ∀ (tr : List ℓ) (s s' : σ), Inv s → m.run s tr = some s' → tr.length + μ s' ≤ μ s := by
  intro tr
  induction tr with
  | nil => intro s s' _ h; simp [run] at h; subst h; simp
  | cons l ls ih =>
    intro s s' hi h
    simp only [run] at h
    cases h1 : m.step s l with
    | none => simp [h1] at h
    | some s1 =>
      simp only [h1] at h
      have := ih s1 s' (hinv s l s1 hi h1) h
      have := hdec s l s1 hi h1
      simp only [List.length_cons]
      omega

end Lts

/-- a Go channel: capacity, FIFO buffer, closed flag -/
structure Chan where
  cap : Nat
  buf : List Nat
  closed : Bool
  deriving DecidableEq, Repr, Inhabited

def Chan.mk0 (cap : Nat) : Chan := { cap := cap, buf := [], closed := false }

/-- number of indices `i < n` with `p i` -/
def count (p : Nat → Bool) : Nat → Nat
  | 0 => 0
  | n + 1 => count p n + (if p n then 1 else 0)

/-- pointwise update of an indexed family -/
def upd {α : Type} (f : Nat → α) (i : Nat) (x : α) : Nat → α := fun j => if j = i then x else f j

/-- the items the consumer received that came from input `i` (the tag is ghost state) -/
def gotOf (got : List (Nat × Nat)) (i : Nat) : List Nat :=
  (got.filter (fun p => p.1 == i)).map (fun p => p.2)

end Goderive.K
