/-
K/JoinSelect: the goroutine emitted by plugin/join genChanVariant (`deriveJoin(c0, c1, …)`)

    out := make(chan T)
    go func() {
        for c0 != nil || c1 != nil || … {
            select {
            case v0, ok0 := <-c0: if !ok0 { c0 = nil } else { out <- v0 }
            case v1, ok1 := <-c1: …
            }
        }
        close(out)
    }()
    return out

`select` = any enabled case; a nil channel is never enabled.  The loop condition is local to the
goroutine and is merged into the step that precedes it (`afterBody`).  The assignment `ci = nil` is a
step of its own (it is what the T4 skeleton and the T5 trace show).
-/
import GoderiveModel.K.Lts

namespace Goderive.K.JoinSelect

structure Cfg where
  n : Nat
  items : Nat → List Nat
  cap : Nat → Nat
  /-- `nilIn i`: channel ARGUMENT i is nil at run time.  It is never received from (`ci != nil` is false from the
  start); in the model it is an input that is closed and drained from the start, without items of its own. -/
  nilIn : Nat → Bool := fun _ => false

/-- the items input i really carries: none for a nil argument -/
def eitems (c : Cfg) (i : Nat) : List Nat := if c.nilIn i then [] else c.items i

inductive Pc
  | sel | send (i v : Nat) | nil (i : Nat) | closing | done
  deriving DecidableEq, Repr

structure State where
  pend : Nat → List Nat
  ch : Nat → Chan
  liveIn : Nat → Bool     -- `ci != nil`
  pc : Pc
  outClosed : Bool
  got : List (Nat × Nat)
  seen : Bool
  panicked : Bool

inductive Label
  | pSend (i : Nat) | pClose (i : Nat)
  | sRecv (i : Nat) | sNil | sSend | sClose
  | cTake | cSeeClose
  deriving DecidableEq, Repr

def anyLive (live : Nat → Bool) : Nat → Bool
  | 0 => false
  | n + 1 => anyLive live n || live n

/-- loop head: evaluate `c0 != nil || …` -/
def loopHead (c : Cfg) (live : Nat → Bool) : Pc := if anyLive live c.n then .sel else .closing

def init (c : Cfg) : State :=
  { pend := eitems c,
    ch := fun i => if c.nilIn i then { cap := c.cap i, buf := [], closed := true } else Chan.mk0 (c.cap i),
    liveIn := fun i => !c.nilIn i,
    pc := loopHead c (fun i => !c.nilIn i), outClosed := false, got := [], seen := false, panicked := false }

def held : Pc → Nat → List Nat
  | .send i v, j => if i = j then [v] else []
  | _, _ => []

def step (c : Cfg) (s : State) (l : Label) : Option State :=
  if s.panicked then none else
  match l with
  | .pSend i =>
    if c.n ≤ i then none else
    match s.pend i with
    | [] => none
    | v :: rest =>
      if (s.ch i).closed then none
      else if (s.ch i).buf.length < (s.ch i).cap then
        some { s with pend := upd s.pend i rest,
                      ch := upd s.ch i { s.ch i with buf := (s.ch i).buf ++ [v] } }
      else if (s.ch i).cap = 0 ∧ s.pc = .sel ∧ s.liveIn i = true then
        some { s with pend := upd s.pend i rest, pc := .send i v }
      else none
  | .pClose i =>
    if c.n ≤ i then none else
    if s.pend i = [] ∧ (s.ch i).closed = false then
      some { s with ch := upd s.ch i { s.ch i with closed := true } }
    else none
  | .sRecv i =>
    if c.n ≤ i then none else
    if s.pc = .sel ∧ s.liveIn i = true then
      match (s.ch i).buf with
      | v :: rest => some { s with ch := upd s.ch i { s.ch i with buf := rest }, pc := .send i v }
      | [] => if (s.ch i).closed then some { s with pc := .nil i } else none
    else none
  | .sNil =>
    match s.pc with
    | .nil i =>
      let live' := upd s.liveIn i false
      some { s with liveIn := live', pc := loopHead c live' }
    | _ => none
  | .sSend =>
    match s.pc with
    | .send _ _ => if s.outClosed then some { s with panicked := true } else none
    | _ => none
  | .sClose =>
    if s.pc = .closing then
      if s.outClosed then some { s with panicked := true }
      else some { s with outClosed := true, pc := .done }
    else none
  | .cTake =>
    if s.seen = true ∨ s.outClosed = true then none else
    match s.pc with
    | .send i v => some { s with got := s.got ++ [(i, v)], pc := loopHead c s.liveIn }
    | _ => none
  | .cSeeClose =>
    if s.seen = false ∧ s.outClosed = true then some { s with seen := true } else none

def lts (c : Cfg) : Lts State Label := { init := init c, step := step c }

def final (s : State) : Prop := s.seen = true

def effect (s : State) : Label → Option Nat
  | .pSend i => (s.pend i).head?
  | .sRecv i => (s.ch i).buf.head?
  | .sNil => match s.pc with
    | .nil i => some i
    | _ => none
  | .sSend => match s.pc with
    | .send _ v => some v
    | _ => none
  | .cTake => match s.pc with
    | .send _ v => some v
    | _ => none
  | _ => none

end Goderive.K.JoinSelect
