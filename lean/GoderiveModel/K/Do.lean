/-
K/Do: the code emitted by plugin/do

    errChan := make(chan error)
    var v0 T0
    go func() { var v0err error; v0, v0err = f0(); errChan <- v0err }()
    …                                             (one per function, in program order)
    var err error
    for i := 0; i < n; i++ { errc := <-errChan; if errc != nil { if err == nil { err = errc } } }
    return v0, …, err

Environment: the user functions.  They may rendezvous with each other: `pairs` is a list of
(a, b) rendezvous (unbuffered exchange between `fa` and `fb`); every function performs the rendezvous
it takes part in, in the order of the list, and then returns value `val i` and error `err i`
(`none` = nil).  A rendezvous needs both functions running — so the functions only complete if Do
starts all of them before waiting for any.

Worker i: absent → run (inside fi) → (fi returns, the worker writes vi) → send (parked at
`errChan <- err`) → fin.  `errChan` is unbuffered: send and main's receive are one joint step `xfer i`.
-/
import GoderiveModel.K.Lts

namespace Goderive.K.Do

structure Cfg where
  n : Nat
  val : Nat → Nat
  err : Nat → Option Nat
  pairs : List (Nat × Nat)

inductive WSt
  | absent | run | send | fin
  deriving DecidableEq, Repr

inductive MPc
  | spawn (k : Nat) | recv (j : Nat) | ret | done
  deriving DecidableEq, Repr

structure State where
  pc : MPc
  st : Nat → WSt
  rvDone : Nat → Bool          -- rendezvous p has happened
  v : Nat → Option Nat         -- the variables v0 … (none = not written)
  errVar : Option Nat          -- main's `err`
  result : Option (List (Option Nat) × Option Nat)   -- what Do returned

inductive Label
  | spawn                 -- main: go worker k
  | rv (p : Nat)          -- environment: rendezvous p between two running functions
  | wr (i : Nat)          -- fi returns, worker i writes vi
  | xfer (i : Nat)        -- worker i sends its error, main receives it
  | ret                   -- main reads v0 … and returns
  deriving DecidableEq, Repr

def involves (pr : Nat × Nat) (i : Nat) : Bool := pr.1 == i || pr.2 == i

/-- every rendezvous before position `p` that involves `i` has happened -/
def earlierDone (c : Cfg) (done : Nat → Bool) (p i : Nat) : Bool :=
  (List.range p).all (fun q => match c.pairs[q]? with
    | some pr => !involves pr i || done q
    | none => true)

/-- all rendezvous of function `i` have happened (it can return) -/
def allDone (c : Cfg) (done : Nat → Bool) (i : Nat) : Bool := earlierDone c done c.pairs.length i

def init (_c : Cfg) : State :=
  { pc := .spawn 0, st := fun _ => .absent, rvDone := fun _ => false, v := fun _ => none,
    errVar := none, result := none }

def step (c : Cfg) (s : State) (l : Label) : Option State :=
  match l with
  | .spawn =>
    match s.pc with
    | .spawn k =>
      if k < c.n then
        some { s with st := upd s.st k .run, pc := if k + 1 < c.n then .spawn (k + 1) else .recv 0 }
      else none
    | _ => none
  | .rv p =>
    match c.pairs[p]? with
    | some (a, b) =>
      if s.rvDone p = false ∧ a < c.n ∧ b < c.n ∧ a ≠ b ∧ s.st a = .run ∧ s.st b = .run
          ∧ earlierDone c s.rvDone p a = true ∧ earlierDone c s.rvDone p b = true then
        some { s with rvDone := upd s.rvDone p true }
      else none
    | none => none
  | .wr i =>
    if i < c.n ∧ s.st i = .run ∧ allDone c s.rvDone i = true then
      some { s with st := upd s.st i .send, v := upd s.v i (some (c.val i)) }
    else none
  | .xfer i =>
    match s.pc with
    | .recv j =>
      if i < c.n ∧ s.st i = .send then
        some { s with st := upd s.st i .fin,
                      errVar := match s.errVar with
                        | some e => some e
                        | none => c.err i,
                      pc := if j + 1 < c.n then .recv (j + 1) else .ret }
      else none
    | _ => none
  | .ret =>
    if s.pc = .ret then
      some { s with result := some ((List.range c.n).map s.v, s.errVar), pc := .done }
    else none

def lts (c : Cfg) : Lts State Label := { init := init c, step := step c }

def final (s : State) : Prop := s.pc = .done

end Goderive.K.Do
