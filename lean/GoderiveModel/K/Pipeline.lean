/-
K/Pipeline: the code emitted by plugin/pipeline

    return func(a A) <-chan C { b := f(a); return deriveJoin(deriveFmap(g, b)) }

i.e. the FmapChan goroutine (with a channel-valued `g`) feeding the chan-of-chan form of JoinWG:
the product of the two systems synchronised on the middle channel (`deriveFmap`'s `out`, capacity
`cap(b)`), which is JoinWG's outer channel: the stage-1 forwarder's send / close ARE JoinWG's
`oSend` / `oClose`.  Every step of the product either leaves the JoinWG component unchanged or is a
JoinWG step, so every JoinWG invariant holds of the product (Props/C19 `pipeline_*`).

Environment: the producer started by `f` sends `n` items on `b` (FIFO, modelled by counters as the
outer channel of JoinWG) and closes; `g` applied to the i-th item creates inner channel `i` with its
producer (`items i`, `cap i`) — producer `i` exists only once `g` has been called (`created`).
-/
import GoderiveModel.K.JoinWG

namespace Goderive.K.Pipeline

structure Cfg where
  n : Nat
  bcap : Nat
  items : Nat → List Nat
  cap : Nat → Nat

def jcfg (c : Cfg) : JoinWG.Cfg :=
  { n := c.n, items := c.items, cap := c.cap, chanForm := true, ocap := c.bcap, seen := fun _ => false }

/-- stage-1 forwarder (deriveFmap's goroutine): `for a := range b { c := g(a); out <- c }; close(out)` -/
inductive MPc
  | recv | send | closing | done
  deriving DecidableEq, Repr

structure State where
  brem : Nat
  bbuf : Nat
  bclosed : Bool
  mpc : MPc
  created : Nat
  j : JoinWG.State

inductive Label
  | bSend | bClose            -- producer on b (environment)
  | mRecv | mSend | mClose    -- stage-1 forwarder
  | j (l : JoinWG.Label)      -- a step of the join stage or of an inner producer / the consumer
  deriving DecidableEq, Repr

def init (c : Cfg) : State :=
  { brem := c.n, bbuf := 0, bclosed := false, mpc := .recv, created := 0, j := JoinWG.init (jcfg c) }

/-- labels of JoinWG that the product does not offer on their own / offers only for created inputs -/
def allowed (s : State) : JoinWG.Label → Bool
  | .oSend => false
  | .oClose => false
  | .pSend i => decide (i < s.created)
  | .pClose i => decide (i < s.created)
  | _ => true

def step (c : Cfg) (s : State) (l : Label) : Option State :=
  if s.j.panicked then none else
  match l with
  | .bSend =>
    if 0 < s.brem ∧ s.bclosed = false then
      if s.bbuf < c.bcap then some { s with brem := s.brem - 1, bbuf := s.bbuf + 1 }
      else if c.bcap = 0 ∧ s.mpc = .recv then
        some { s with brem := s.brem - 1, created := s.created + 1, mpc := .send }
      else none
    else none
  | .bClose =>
    if s.brem = 0 ∧ s.bclosed = false then some { s with bclosed := true } else none
  | .mRecv =>
    if s.mpc = .recv then
      if 0 < s.bbuf then some { s with bbuf := s.bbuf - 1, created := s.created + 1, mpc := .send }
      else if s.bclosed then some { s with mpc := .closing }
      else none
    else none
  | .mSend =>
    if s.mpc = .send then
      match JoinWG.step (jcfg c) s.j .oSend with
      | some j' => some { s with j := j', mpc := .recv }
      | none => none
    else none
  | .mClose =>
    if s.mpc = .closing then
      match JoinWG.step (jcfg c) s.j .oClose with
      | some j' => some { s with j := j', mpc := .done }
      | none => none
    else none
  | .j l =>
    if allowed s l then
      match JoinWG.step (jcfg c) s.j l with
      | some j' => some { s with j := j' }
      | none => none
    else none

def lts (c : Cfg) : Lts State Label := { init := init c, step := step c }

def final (s : State) : Prop := s.j.seen = true

def effect (c : Cfg) (s : State) : Label → Option Nat
  | .bSend => some (c.n - s.brem)
  | .mRecv => if 0 < s.bbuf then some s.created else none
  | .mSend => JoinWG.effect (jcfg c) s.j .oSend
  | .j l => JoinWG.effect (jcfg c) s.j l
  | _ => none

end Goderive.K.Pipeline
