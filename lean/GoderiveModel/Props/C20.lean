import GoderiveModel.K.Skeleton
import GoderiveModel.K.Do

namespace Goderive.C20
open Goderive.K

theorem skeleton_facts : Generated.skeletons = expectedSkeletons := skeleton_matches

end Goderive.C20
