/-
C20 — "Do runs all functions concurrently and returns every result and an error".

Model: K/Do (the code emitted by plugin/do: n workers spawned in program order, each runs its function,
writes its result variable and sends its error on the unbuffered errChan; main receives n times, keeps
the first non-nil error, returns).  Environment: the user functions, which may rendezvous pairwise with
each other (`Cfg.pairs`).  All theorems are over `Reachable`, i.e. over EVERY interleaving, for every
number of functions, every subset failing and every rendezvous list (`WF`: at least one function, every
rendezvous joins two different functions of the call).

Ties: T4 `skeleton_facts` (the emitted deriveDo has the skeleton K/Do models), T5 trace validation and
race stress (vlib/props/c20.py).  Partial: memory-level data-race freedom and the faithfulness of the
channel semantics to the Go runtime are observed (race detector), not proved; `do_no_conflict` proves
the logical absence of conflicting accesses to the result variables.
-/
import GoderiveModel.K.Skeleton
import GoderiveModel.Lemmas.ConcDo

namespace Goderive.C20
open Goderive.K
open Goderive.K.Do

/-- T4: the functions goderive emits now have the skeletons the transition systems were written for. -/
theorem skeleton_facts : Generated.skeletons = expectedSkeletons := skeleton_matches

/-- Do starts all its argument functions before waiting for any: whenever main is at (any of) its
receives on errChan — in particular whenever a worker's send can be matched — every function has been
started.  So no function ever waits for main. -/
theorem do_all_started_before_wait (c : Cfg) (hwf : WF c) (s : State) (hr : (lts c).Reachable s) :
    (∀ j, s.pc = .recv j → ∀ i, i < c.n → s.st i ≠ .absent) ∧
    (∀ i s', (lts c).step s (.xfer i) = some s' → ∀ i', i' < c.n → s.st i' ≠ .absent) := by
  have hi := inv_reachable c hwf.1 s hr
  have h1 : ∀ j, s.pc = .recv j → ∀ i, i < c.n → s.st i ≠ .absent := by
    intro j hj
    exact hi.started (by intro k h; rw [hj] at h; cases h)
  refine ⟨h1, ?_⟩
  intro i s' hs
  simp only [lts, step] at hs
  cases hpc : s.pc with
  | recv j => exact h1 j hpc
  | spawn k => simp [hpc] at hs
  | ret => simp [hpc] at hs
  | done => simp [hpc] at hs

example : ∃ s, (lts { n := 2, val := fun i => 10 + i, err := fun _ => none, pairs := [] }).run
      (init { n := 2, val := fun i => 10 + i, err := fun _ => none, pairs := [] })
      [.spawn, .wr 0, .spawn] = some s ∧ s.pc = .recv 0 ∧ s.st 0 = .send ∧ s.st 1 = .run := by
  refine ⟨_, rfl, ?_, ?_, ?_⟩ <;> decide

/-- Do returns only after every function has returned, with each function's value in its position:
when main is at its return (or has returned) every worker has written its variable and finished, and
the returned tuple is exactly (val 0, …, val (n-1)). -/
theorem do_returns_after_all (c : Cfg) (hwf : WF c) (s : State) (hr : (lts c).Reachable s) :
    ((s.pc = .ret ∨ s.pc = .done) → ∀ i, i < c.n → s.st i = .fin ∧ s.v i = some (c.val i)) ∧
    (∀ vs e, s.result = some (vs, e) → vs = (List.range c.n).map (fun i => some (c.val i))) := by
  have hi := inv_reachable c hwf.1 s hr
  refine ⟨?_, ?_⟩
  · intro h i hin
    have hf := hi.ret_inv h i hin
    exact ⟨hf, (hi.written i (Or.inr hf)).1⟩
  · intro vs e hres
    have := (hi.res (vs, e) hres).2
    exact (Prod.mk.inj this).1

/-- The error returned is nil exactly when all functions succeeded, and otherwise it is one of the
errors actually returned by a function. -/
theorem do_error (c : Cfg) (hwf : WF c) (s : State) (hr : (lts c).Reachable s) :
    ∀ vs e, s.result = some (vs, e) →
      (e = none ↔ ∀ i, i < c.n → c.err i = none) ∧
      (∀ x, e = some x → ∃ i, i < c.n ∧ c.err i = some x) := by
  have hi := inv_reachable c hwf.1 s hr
  intro vs e hres
  obtain ⟨hdone, hr'⟩ := hi.res (vs, e) hres
  have he : e = s.errVar := (Prod.mk.inj hr').2
  have hall := hi.ret_inv (Or.inr hdone)
  refine ⟨⟨?_, ?_⟩, ?_⟩
  · intro hn i hin
    exact hi.err_none (he ▸ hn) i hin (hall i hin)
  · intro hnone
    cases hev : s.errVar with
    | none => rw [he, hev]
    | some x =>
      obtain ⟨i, hin, _, herr⟩ := hi.err_some x hev
      rw [hnone i hin] at herr
      cases herr
  · intro x hx
    obtain ⟨i, hin, _, herr⟩ := hi.err_some x (he ▸ hx)
    exact ⟨i, hin, herr⟩

/-- a complete run of Do with two functions that rendezvous, the second failing: both results in
position, the error is the second function's -/
example : ((lts { n := 2, val := fun i => 10 + i, err := fun i => if i = 1 then some 7 else none, pairs := [(1, 0)] }).run
      (init { n := 2, val := fun i => 10 + i, err := fun i => if i = 1 then some 7 else none, pairs := [(1, 0)] })
      [.spawn, .spawn, .rv 0, .wr 1, .xfer 1, .wr 0, .xfer 0, .ret]).map (·.result)
    = some (some ([some 10, some 11], some 7)) := by decide

/-- No conflicting accesses to the result variables: the write of `vᵢ` by worker i and main's read of
the variables at its return are never both enabled; and two different workers write different
variables. -/
theorem do_no_conflict (c : Cfg) (hwf : WF c) (s : State) (hr : (lts c).Reachable s) :
    ∀ i s1 s2, (lts c).step s (.wr i) = some s1 → (lts c).step s .ret = some s2 → False := by
  have hi := inv_reachable c hwf.1 s hr
  intro i s1 s2 h1 h2
  simp only [lts, step] at h1 h2
  split at h1
  · next hc =>
    split at h2
    · next hpc =>
      have := hi.ret_inv (Or.inl hpc) i hc.1
      rw [hc.2.1] at this
      cases this
    · cases h2
  · cases h1

/-- Progress under every schedule, rendezvousing functions included: in every reachable state in which
Do has not returned some transition is enabled.  (With the functions started one after the other
instead, a function waiting for a later one would block for ever: the rendezvous step needs both
functions running.) -/
theorem do_progress (c : Cfg) (hwf : WF c) (s : State) (hr : (lts c).Reachable s) (hnf : ¬ final s) :
    (lts c).Enabled s :=
  progress c hwf s (inv_reachable c hwf.1 s hr) hnf

/-- three functions in a ring of rendezvous, stuck nowhere: after all are spawned the first rendezvous
is enabled -/
example : ((lts { n := 3, val := fun i => i, err := fun _ => none, pairs := [(1, 0), (2, 1)] }).run
      (init { n := 3, val := fun i => i, err := fun _ => none, pairs := [(1, 0), (2, 1)] })
      [.spawn, .spawn, .spawn, .rv 0, .wr 0, .rv 1]).isSome = true := by decide

/-- Termination under every schedule: each step strictly decreases `Do.measure`, so a run from the
initial state has at most `measure init` steps; with `do_progress`, every maximal run ends with Do
returned — functions that wait for one another do complete. -/
theorem do_terminates (c : Cfg) (hwf : WF c) (tr : List Label) (s : State)
    (h : (lts c).run (init c) tr = some s) :
    tr.length + Do.measure c s ≤ Do.measure c (init c) :=
  Lts.run_length_le (lts c) (Inv c) (Do.measure c) (fun s l s' hi hs => inv_step c s s' l hi hs)
    (fun s l s' hi hs => measure_decreases c s s' l hi hs) tr _ s (inv_init c hwf.1) h

/-- No goroutine is left behind: when Do has returned every worker has finished (its send on the
unbuffered errChan was matched by one of main's n receives), and nothing else was ever started. -/
theorem do_no_leak (c : Cfg) (hwf : WF c) (s : State) (hr : (lts c).Reachable s) (hf : final s) :
    (∀ i, i < c.n → s.st i = .fin) ∧ (∀ i, c.n ≤ i → s.st i = .absent) := by
  have hi := inv_reachable c hwf.1 s hr
  exact ⟨hi.ret_inv (Or.inr hf), hi.out_absent⟩

end Goderive.C20
