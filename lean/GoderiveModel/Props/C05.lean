/-
Property C05: DeepCopy and Clone produce an equal, fully independent copy.

"After deriveDeepCopy into a pointer destination with arbitrary unrelated prior contents (or into a
slice of equal length, or an empty map), and for deriveClone, the result is structurally equal to
the source with the nil-ness of every pointer, slice and map reproduced, and the source is unchanged.
No pointer target, slice backing array or map reachable from the result is reachable from the source,
so a later write through either is never visible through the other."
Quantifier: all supported types x all sources x all prior destination states that are tree-shaped and
share no memory with the source.

Model: `DeepCopy.top` (= body of `deriveDeepCopy(dst, src T)`), `DeepCopy.field` (= `genField`),
`DeepCopy.clone` (S/DeepCopy.lean); the state is the next fresh address. Specifications:
`Spec.structEq` (Spec/StructEq.lean: equality in Go's sense, IEEE `==` at float leaves and map keys,
so it can hold only for NaN-free sources: sections 2 and 5) and `Spec.shapeEq` (Spec/ShapeEq.lean: the
same nil-ness, lengths and BITS everywhere, map entries paired one-to-one by the bits of the key and the
shape of the value; no hypothesis on NaN: sections 6 and 7; on NaN-free values it implies `structEq`,
`shape_implies_equal`). Supportedness: `SupportedCopy`, `SupportedClone`, precondition
on the top-level form: `DeepCopy.topPre` (Lemmas/DeepCopy/Supported.lean). `memAddrs v` = all pointer
targets, backing arrays and maps reachable in `v`; `writeAt a f v` = the view `v` after a write to
the object at address `a` (Lemmas/DeepCopy/Clone.lean). Values are finite trees, hence acyclic.
"The source is unchanged" cannot fail in a functional model (the source is an argument, not a
result); it is observed by the tie. Only theorems and their non-vacuity examples live here; proofs
and the concrete world of the examples (`Ex.env`, `tNode`, `src`, `dst`, `res`, `cres`, …) are in
Lemmas/DeepCopy/*.lean.
-/
import GoderiveModel.Lemmas.DeepCopy

set_option linter.unusedSimpArgs false

namespace Goderive.C05
open Goderive Val DeepCopy DeepCopy.Ex

/-! ### 1. Freshness and independence -/

/-- **`genField` allocates fresh or reuses the prior destination.** Whatever the prior contents of
the l-value (`prior`), after the statements emitted for a component of type `F` the counter has not
gone back and every heap identity of the new value is an identity of the prior destination (a reused
backing array) or was allocated by the call — never one taken from the source. -/
theorem field_fresh (env : Env) (F : Ty) (src prior d' : Val) (n n' : Nat)
    (hf : env.flagsOk = true) (hs : hasType env F src = true)
    (h : DeepCopy.field env F src prior n = .ok (d', n')) :
    n ≤ n' ∧ ∀ a ∈ memAddrs d', a ∈ memAddrs prior ∨ (n ≤ a ∧ a < n') :=
  have A := (freshOK hf src).field F prior n hs d' n' h
  ⟨A.le, A.sub⟩

example : ∀ a ∈ memAddrs fres, a ∈ memAddrs fprior ∨ (30 ≤ a ∧ a < 31) :=
  (field_fresh Ex.env (.slice pI) fsrc fprior fres 30 31 env_flagsOk fsrc_typed frun).2
example : memAddrs fres = [22, 30] := by decide

/-- **`deriveDeepCopy(dst, src)` allocates fresh or reuses the prior destination.** No precondition
on `dst` at all (it need not even be well typed). -/
theorem deepcopy_fresh (env : Env) (T : Ty) (src dst d' : Val) (n n' : Nat)
    (hf : env.flagsOk = true) (hs : hasType env T src = true)
    (h : DeepCopy.top env T src dst n = .ok (d', n')) :
    n ≤ n' ∧ ∀ a ∈ memAddrs d', a ∈ memAddrs dst ∨ (n ≤ a ∧ a < n') :=
  have A := (freshOK hf src).top T dst n hs d' n' h
  ⟨A.le, A.sub⟩

example : ∀ a ∈ memAddrs res, a ∈ memAddrs Ex.dst ∨ (30 ≤ a ∧ a < 34) :=
  (deepcopy_fresh Ex.env tNode Ex.src Ex.dst res 30 34 env_flagsOk src_typed run).2
example : memAddrs res = [20, 30, 22, 31, 32, 33] := by decide

/-- The same for the three loops of the emitted code (struct fields in order, slice / array elements
by index, map entries in iteration order), which with `field` and `top` form the joint induction. -/
theorem loops_fresh (env : Env) (ss ds d' : Val) (n n' : Nat) (hf : env.flagsOk = true) :
    (∀ fs, fieldsHaveType env fs ss = true → DeepCopy.fields env fs ss ds n = .ok (d', n') →
      n ≤ n' ∧ ∀ a ∈ memAddrs d', a ∈ memAddrs ds ∨ (n ≤ a ∧ a < n')) ∧
    (∀ E, allHaveType env E ss = true → DeepCopy.elems env E ss ds n = .ok (d', n') →
      n ≤ n' ∧ ∀ a ∈ memAddrs d', a ∈ memAddrs ds ∨ (n ≤ a ∧ a < n')) ∧
    (∀ K V, canEqual env K = true → entriesHaveType env K V ss = true →
      DeepCopy.entries env V ss ds n = .ok (d', n') →
      n ≤ n' ∧ ∀ a ∈ memAddrs d', a ∈ memAddrs ds ∨ (n ≤ a ∧ a < n')) := by
  refine ⟨fun fs hs h => ?_, fun E hs h => ?_, fun K V hK hs h => ?_⟩
  · have A := (freshOK hf ss).fields fs ds n hs d' n' h
    exact ⟨A.le, A.sub⟩
  · have A := (freshOK hf ss).elems E ds n hs d' n' h
    exact ⟨A.le, A.sub⟩
  · have A := (freshOK hf ss).entries K V ds n hK hs d' n' h
    exact ⟨A.le, A.sub⟩

example : DeepCopy.elems Ex.env pI (.scons (.ptr 13 (.int 2)) .snil)
    (.scons (.ptr 23 (.int 8)) (.scons (.ptr 24 (.int 8)) .snil)) 30 =
    .ok (.scons (.ptr 30 (.int 2)) (.scons (.ptr 24 (.int 8)) .snil), 31) := by
  dc_eval [Ex.env, pI]

/-- **C05, "no pointer target, slice backing array or map reachable from the result is reachable
from the source".** If the source lies below the allocation counter and shares no memory with the
prior destination, the destination after the call shares no memory with the source. -/
theorem deepcopy_disjoint (env : Env) (T : Ty) (src dst d' : Val) (n n' : Nat)
    (hf : env.flagsOk = true) (hs : hasType env T src = true)
    (h : DeepCopy.top env T src dst n = .ok (d', n'))
    (hbelow : ∀ a ∈ memAddrs src, a < n)
    (hdisj : ∀ a ∈ memAddrs src, a ∉ memAddrs dst) :
    ∀ a ∈ memAddrs d', a ∉ memAddrs src := by
  intro a ha hsrc
  rcases (deepcopy_fresh env T src dst d' n n' hf hs h).2 a ha with h1 | h1
  · exact hdisj a hsrc h1
  · have := hbelow a hsrc; omega

example : ∀ a ∈ memAddrs res, a ∉ memAddrs Ex.src :=
  deepcopy_disjoint Ex.env tNode Ex.src Ex.dst res 30 34 env_flagsOk src_typed run src_below
    src_dst_disjoint

/-- `deriveClone` has no prior destination: every heap identity of the result is fresh. -/
theorem clone_fresh (env : Env) (T : Ty) (src d' : Val) (n n' : Nat)
    (hf : env.flagsOk = true) (hs : hasType env T src = true)
    (h : DeepCopy.clone env T src n = .ok (d', n')) :
    n ≤ n' ∧ ∀ a ∈ memAddrs d', n ≤ a ∧ a < n' := by
  have A := clone_FTL hf hs h
  refine ⟨A.le, fun a ha => ?_⟩
  rcases A.sub a ha with h1 | h1
  · cases h1
  · exact h1

example : ∀ a ∈ memAddrs cres, 30 ≤ a ∧ a < 36 :=
  (clone_fresh Ex.env tNode Ex.src cres 30 36 env_flagsOk src_typed crun).2
example : memAddrs cres = [30, 31, 32, 33, 34, 35] := by decide

/-- **C05 for `deriveClone`: the clone shares no memory with the source.** -/
theorem clone_disjoint (env : Env) (T : Ty) (src d' : Val) (n n' : Nat)
    (hf : env.flagsOk = true) (hs : hasType env T src = true)
    (h : DeepCopy.clone env T src n = .ok (d', n'))
    (hbelow : ∀ a ∈ memAddrs src, a < n) :
    ∀ a ∈ memAddrs d', a ∉ memAddrs src := by
  intro a ha hsrc
  have := (clone_fresh env T src d' n n' hf hs h).2 a ha
  have := hbelow a hsrc
  omega

example : ∀ a ∈ memAddrs cres, a ∉ memAddrs Ex.src :=
  clone_disjoint Ex.env tNode Ex.src cres 30 36 env_flagsOk src_typed crun src_below

/-! ### 2. The copy is structurally equal to the source, and the call does not panic -/

/-- **C05, "the result is structurally equal to the source with the nil-ness of every pointer, slice
and map reproduced".** `topPre` is the property's precondition on the top-level form: pointers both
non-nil; slices both nil or both non-nil of equal length; maps both nil, or both non-nil with an
empty destination. -/
theorem deepcopy_equal (env : Env) (T : Ty) (src dst d' : Val) (n n' : Nat)
    (hf : env.flagsOk = true) (hsup : SupportedCopy env T = true)
    (hs : hasType env T src = true) (hd : hasType env T dst = true) (hnan : nanFree src = true)
    (hpre : topPre env T src dst = true)
    (h : DeepCopy.top env T src dst n = .ok (d', n')) :
    Spec.structEq env T src d' = true := by
  simp only [SupportedCopy, Bool.and_eq_true] at hsup
  obtain ⟨d2, n2, h2, -, e⟩ := (corrOK hf hsup.2 src).top T dst n hsup.1 hs hd hnan hpre
  rw [h] at h2; cases h2; exact e

example : Spec.structEq Ex.env tNode Ex.src res = true :=
  deepcopy_equal Ex.env tNode Ex.src Ex.dst res 30 34 env_flagsOk supportedCopy src_typed dst_typed
    src_nanFree pre run
/-- outside `topPre` the copy is not equal, because the destination is passed by value: a nil source
slice leaves an empty non-nil destination non-nil; a populated destination map keeps its foreign keys -/
example : Spec.structEq Ex3.env Ex3.tS .nilv (.slice 1 0 .snil) = false := Ex3.slice_nil_into_empty.2
example : DeepCopy.top Ex3.env Ex3.tS .nilv (.slice 1 0 .snil) 10 = .ok (.slice 1 0 .snil, 10) :=
  Ex3.slice_nil_into_empty.1

/-- **The emitted code does not panic** (no nil dereference, index out of range, assignment to a nil
map) under the same hypotheses except NaN-freeness, which the run does not depend on, and the
destination is again a value of the type. -/
theorem deepcopy_ok (env : Env) (T : Ty) (src dst : Val) (n : Nat)
    (hf : env.flagsOk = true) (hsup : SupportedCopy env T = true)
    (hs : hasType env T src = true) (hd : hasType env T dst = true)
    (hpre : topPre env T src dst = true) :
    ∃ d' n', DeepCopy.top env T src dst n = .ok (d', n') ∧ hasType env T d' = true := by
  simp only [SupportedCopy, Bool.and_eq_true] at hsup
  obtain ⟨d2, n2, h2, t, -⟩ := (shapeOK hf hsup.2 src).top T dst n hsup.1 hs hd hpre
  exact ⟨d2, n2, h2, t⟩

example : ∃ d' n', DeepCopy.top Ex.env tNode Ex.src Ex.dst 30 = .ok (d', n') ∧
    hasType Ex.env tNode d' = true :=
  deepcopy_ok Ex.env tNode Ex.src Ex.dst 30 env_flagsOk supportedCopy src_typed dst_typed pre
/-- a source with NaN leaves and NaN map keys is no obstacle -/
example : ∃ d' n', DeepCopy.top Ex4.env Ex4.tW Ex4.src Ex4.dst 10 = .ok (d', n') ∧
    hasType Ex4.env Ex4.tW d' = true :=
  deepcopy_ok Ex4.env Ex4.tW Ex4.src Ex4.dst 10 Ex4.env_flagsOk Ex4.supportedCopy Ex4.src_typed
    Ex4.dst_typed Ex4.pre

/-- **`deriveClone` returns a structurally equal value** (nil stays nil at every level). -/
theorem clone_equal (env : Env) (T : Ty) (src d' : Val) (n n' : Nat)
    (hf : env.flagsOk = true) (hsup : SupportedClone env T = true)
    (hs : hasType env T src = true) (hnan : nanFree src = true)
    (h : DeepCopy.clone env T src n = .ok (d', n')) :
    Spec.structEq env T src d' = true := by
  simp only [SupportedClone, Bool.and_eq_true] at hsup
  obtain ⟨d2, n2, h2, -, e⟩ := clone_good hf hsup.2 n hsup.1 hs hnan
  rw [h] at h2; cases h2; exact e

example : Spec.structEq Ex.env tNode Ex.src cres = true :=
  clone_equal Ex.env tNode Ex.src cres 30 36 env_flagsOk supportedClone src_typed src_nanFree crun

/-- **`deriveClone` does not panic** and returns a value of the type. -/
theorem clone_ok (env : Env) (T : Ty) (src : Val) (n : Nat)
    (hf : env.flagsOk = true) (hsup : SupportedClone env T = true)
    (hs : hasType env T src = true) :
    ∃ d' n', DeepCopy.clone env T src n = .ok (d', n') ∧ hasType env T d' = true := by
  simp only [SupportedClone, Bool.and_eq_true] at hsup
  obtain ⟨d2, n2, h2, t, -⟩ := clone_goodS hf hsup.2 n hsup.1 hs
  exact ⟨d2, n2, h2, t⟩

example : ∃ d' n', DeepCopy.clone Ex.env tNode Ex.src 30 = .ok (d', n') ∧
    hasType Ex.env tNode d' = true :=
  clone_ok Ex.env tNode Ex.src 30 env_flagsOk supportedClone src_typed
example : ∃ d' n', DeepCopy.clone Ex4.env Ex4.tW Ex4.src 10 = .ok (d', n') ∧
    hasType Ex4.env Ex4.tW d' = true :=
  clone_ok Ex4.env Ex4.tW Ex4.src 10 Ex4.env_flagsOk Ex4.supportedClone Ex4.src_typed

/-! ### 3. Tree shape -/

/-- **The destination stays tree-shaped.** If no heap identity occurs twice in the prior destination
and all of them lie below the allocation counter, none occurs twice in the destination after the call.
(In the model every `new` / `make` takes a fresh address, also for zero-size objects.) -/
theorem deepcopy_tree (env : Env) (T : Ty) (src dst d' : Val) (n n' : Nat)
    (hf : env.flagsOk = true) (hs : hasType env T src = true)
    (h : DeepCopy.top env T src dst n = .ok (d', n'))
    (htree : (memAddrs dst).Nodup) (hbelow : ∀ a ∈ memAddrs dst, a < n) :
    (memAddrs d').Nodup :=
  ((freshOK hf src).top T dst n hs d' n' h).nodup htree hbelow

example : (memAddrs res).Nodup :=
  deepcopy_tree Ex.env tNode Ex.src Ex.dst res 30 34 env_flagsOk src_typed run dst_tree dst_below

/-- **A clone is tree-shaped.** -/
theorem clone_tree (env : Env) (T : Ty) (src d' : Val) (n n' : Nat)
    (hf : env.flagsOk = true) (hs : hasType env T src = true)
    (h : DeepCopy.clone env T src n = .ok (d', n')) :
    (memAddrs d').Nodup :=
  (clone_FTL hf hs h).nodup List.nodup_nil (fun _ m => by cases m)

example : (memAddrs cres).Nodup :=
  clone_tree Ex.env tNode Ex.src cres 30 36 env_flagsOk src_typed crun

/-! ### 4. Write isolation -/

/-- **Frame rule of the store semantics**: a write to an address a view does not reach leaves the
view unchanged. -/
theorem write_frame (a : Nat) (f : Val → Val) (v : Val) (h : a ∉ memAddrs v) : writeAt a f v = v :=
  writeAt_of_not_mem a f v h

example : writeAt 30 (fun _ => .int 99) Ex.src = Ex.src :=
  write_frame 30 _ Ex.src (by decide)
/-- … whereas a write to an address the view does reach is observed -/
example : writeAt 11 (fun _ => .int 99) Ex.src ≠ Ex.src := by decide

/-- **C05, "a later write through either is never visible through the other".** After
`deriveDeepCopy`, a write to any object reachable from the destination leaves the source as it was,
and a write to any object reachable from the source leaves the destination as it was. -/
theorem deepcopy_write_isolation (env : Env) (T : Ty) (src dst d' : Val) (n n' : Nat)
    (hf : env.flagsOk = true) (hs : hasType env T src = true)
    (h : DeepCopy.top env T src dst n = .ok (d', n'))
    (hbelow : ∀ a ∈ memAddrs src, a < n)
    (hdisj : ∀ a ∈ memAddrs src, a ∉ memAddrs dst) (f : Val → Val) :
    (∀ a ∈ memAddrs d', writeAt a f src = src) ∧ (∀ a ∈ memAddrs src, writeAt a f d' = d') := by
  have hd := deepcopy_disjoint env T src dst d' n n' hf hs h hbelow hdisj
  exact ⟨fun a ha => write_frame a f src (hd a ha),
    fun a ha => write_frame a f d' (fun h' => hd a h' ha)⟩

example (f : Val → Val) : (∀ a ∈ memAddrs res, writeAt a f Ex.src = Ex.src) ∧
    (∀ a ∈ memAddrs Ex.src, writeAt a f res = res) :=
  deepcopy_write_isolation Ex.env tNode Ex.src Ex.dst res 30 34 env_flagsOk src_typed run src_below
    src_dst_disjoint f
/-- the write through the copy is a real write: it changes the copy -/
example : writeAt 30 (fun _ => .int 99) res ≠ res := by decide

/-- **Write isolation for `deriveClone`.** -/
theorem clone_write_isolation (env : Env) (T : Ty) (src d' : Val) (n n' : Nat)
    (hf : env.flagsOk = true) (hs : hasType env T src = true)
    (h : DeepCopy.clone env T src n = .ok (d', n'))
    (hbelow : ∀ a ∈ memAddrs src, a < n) (f : Val → Val) :
    (∀ a ∈ memAddrs d', writeAt a f src = src) ∧ (∀ a ∈ memAddrs src, writeAt a f d' = d') := by
  have hd := clone_disjoint env T src d' n n' hf hs h hbelow
  exact ⟨fun a ha => write_frame a f src (hd a ha),
    fun a ha => write_frame a f d' (fun h' => hd a h' ha)⟩

example (f : Val → Val) : (∀ a ∈ memAddrs cres, writeAt a f Ex.src = Ex.src) ∧
    (∀ a ∈ memAddrs Ex.src, writeAt a f cres = cres) :=
  clone_write_isolation Ex.env tNode Ex.src cres 30 36 env_flagsOk src_typed crun src_below f

/-! ### 5. The property in one statement -/

/-- **C05 for `deriveDeepCopy`.** For every supported type, every well-typed NaN-free source and every
well-typed prior destination that is tree-shaped, shares no memory with the source and satisfies the
precondition on the top-level form (allocation counter above both): the call does not panic and the
destination afterwards is (a) structurally equal to the source, nil-ness included, (b) built from
memory of the prior destination and fresh memory only, hence (c) disjoint from the source,
(d) tree-shaped, and (e) writes through either never show through the other. -/
theorem deepcopy_correct (env : Env) (T : Ty) (src dst : Val) (n : Nat)
    (hf : env.flagsOk = true) (hsup : SupportedCopy env T = true)
    (hs : hasType env T src = true) (hd : hasType env T dst = true) (hnan : nanFree src = true)
    (hpre : topPre env T src dst = true)
    (htree : (memAddrs dst).Nodup)
    (hdisj : ∀ a ∈ memAddrs src, a ∉ memAddrs dst)
    (hsb : ∀ a ∈ memAddrs src, a < n) (hdb : ∀ a ∈ memAddrs dst, a < n) :
    ∃ d' n', DeepCopy.top env T src dst n = .ok (d', n') ∧ n ≤ n' ∧
      hasType env T d' = true ∧
      Spec.structEq env T src d' = true ∧
      (∀ a ∈ memAddrs d', a ∈ memAddrs dst ∨ (n ≤ a ∧ a < n')) ∧
      (∀ a ∈ memAddrs d', a ∉ memAddrs src) ∧
      (memAddrs d').Nodup ∧
      (∀ f, (∀ a ∈ memAddrs d', writeAt a f src = src) ∧
        (∀ a ∈ memAddrs src, writeAt a f d' = d')) := by
  obtain ⟨d', n', h, t⟩ := deepcopy_ok env T src dst n hf hsup hs hd hpre
  have hfr := deepcopy_fresh env T src dst d' n n' hf hs h
  exact ⟨d', n', h, hfr.1, t,
    deepcopy_equal env T src dst d' n n' hf hsup hs hd hnan hpre h, hfr.2,
    deepcopy_disjoint env T src dst d' n n' hf hs h hsb hdisj,
    deepcopy_tree env T src dst d' n n' hf hs h htree hdb,
    deepcopy_write_isolation env T src dst d' n n' hf hs h hsb hdisj⟩

example : ∃ d' n', DeepCopy.top Ex.env tNode Ex.src Ex.dst 30 = .ok (d', n') ∧ 30 ≤ n' ∧
    hasType Ex.env tNode d' = true ∧ Spec.structEq Ex.env tNode Ex.src d' = true ∧
    (∀ a ∈ memAddrs d', a ∈ memAddrs Ex.dst ∨ (30 ≤ a ∧ a < n')) ∧
    (∀ a ∈ memAddrs d', a ∉ memAddrs Ex.src) ∧ (memAddrs d').Nodup ∧
    (∀ f, (∀ a ∈ memAddrs d', writeAt a f Ex.src = Ex.src) ∧
      (∀ a ∈ memAddrs Ex.src, writeAt a f d' = d')) :=
  deepcopy_correct Ex.env tNode Ex.src Ex.dst 30 env_flagsOk supportedCopy src_typed dst_typed
    src_nanFree pre dst_tree src_dst_disjoint src_below dst_below

/-- **C05 for `deriveClone`.** -/
theorem clone_correct (env : Env) (T : Ty) (src : Val) (n : Nat)
    (hf : env.flagsOk = true) (hsup : SupportedClone env T = true)
    (hs : hasType env T src = true) (hnan : nanFree src = true)
    (hsb : ∀ a ∈ memAddrs src, a < n) :
    ∃ d' n', DeepCopy.clone env T src n = .ok (d', n') ∧ n ≤ n' ∧
      hasType env T d' = true ∧
      Spec.structEq env T src d' = true ∧
      (∀ a ∈ memAddrs d', n ≤ a ∧ a < n') ∧
      (∀ a ∈ memAddrs d', a ∉ memAddrs src) ∧
      (memAddrs d').Nodup ∧
      (∀ f, (∀ a ∈ memAddrs d', writeAt a f src = src) ∧
        (∀ a ∈ memAddrs src, writeAt a f d' = d')) := by
  obtain ⟨d', n', h, t⟩ := clone_ok env T src n hf hsup hs
  have hfr := clone_fresh env T src d' n n' hf hs h
  exact ⟨d', n', h, hfr.1, t, clone_equal env T src d' n n' hf hsup hs hnan h, hfr.2,
    clone_disjoint env T src d' n n' hf hs h hsb,
    clone_tree env T src d' n n' hf hs h,
    clone_write_isolation env T src d' n n' hf hs h hsb⟩

example : ∃ d' n', DeepCopy.clone Ex.env tNode Ex.src 30 = .ok (d', n') ∧ 30 ≤ n' ∧
    hasType Ex.env tNode d' = true ∧ Spec.structEq Ex.env tNode Ex.src d' = true ∧
    (∀ a ∈ memAddrs d', 30 ≤ a ∧ a < n') ∧
    (∀ a ∈ memAddrs d', a ∉ memAddrs Ex.src) ∧ (memAddrs d').Nodup ∧
    (∀ f, (∀ a ∈ memAddrs d', writeAt a f Ex.src = Ex.src) ∧
      (∀ a ∈ memAddrs Ex.src, writeAt a f d' = d')) :=
  clone_correct Ex.env tNode Ex.src 30 env_flagsOk supportedClone src_typed src_nanFree src_below
/-- a recursive type with an array of pointers, a nested named struct and a `[]byte` -/
example : ∃ d' n', DeepCopy.clone Ex2.env Ex2.tL Ex2.src 10 = .ok (d', n') ∧ 10 ≤ n' ∧
    hasType Ex2.env Ex2.tL d' = true ∧ Spec.structEq Ex2.env Ex2.tL Ex2.src d' = true ∧
    (∀ a ∈ memAddrs d', 10 ≤ a ∧ a < n') ∧
    (∀ a ∈ memAddrs d', a ∉ memAddrs Ex2.src) ∧ (memAddrs d').Nodup ∧
    (∀ f, (∀ a ∈ memAddrs d', writeAt a f Ex2.src = Ex2.src) ∧
      (∀ a ∈ memAddrs Ex2.src, writeAt a f d' = d')) :=
  clone_correct Ex2.env Ex2.tL Ex2.src 10 Ex2.env_flagsOk Ex2.supportedClone Ex2.src_typed
    Ex2.src_nanFree Ex2.src_below
example : DeepCopy.clone Ex2.env Ex2.tL Ex2.src 10 = .ok (Ex2.cres, 17) := Ex2.crun
example : memAddrs Ex2.cres = [10, 11, 12, 13, 16] := by decide

/-! ### 6. The copy has the shape and the bits of the source — no hypothesis on NaN

`Spec.shapeEq` (Spec/ShapeEq.lean): leaves bit for bit (a NaN equals a NaN of the same bit pattern,
`+0` differs from `-0`), the same nil-ness at every pointer, slice and map, the same lengths, and for
maps a one-to-one pairing of all entries of the one with all entries of the other in which paired
entries have keys of the same bits and values of the same shape (keys are never looked up with `==`,
so entries under NaN keys — several of them may carry the same bit pattern — are paired like any
other). The source is any value of the type: `hasType` demands that the keys of every map are pairwise
not `==`, which any number of NaN keys satisfy. -/

/-- **C05 without NaN-freeness, `deriveDeepCopy`.** For every supported type, every well-typed source
(NaN leaves and NaN map keys allowed) and every well-typed prior destination admitted by `topPre`,
the destination after the call has the shape and the bits of the source. -/
theorem deepcopy_same_shape (env : Env) (T : Ty) (src dst d' : Val) (n n' : Nat)
    (hf : env.flagsOk = true) (hsup : SupportedCopy env T = true)
    (hs : hasType env T src = true) (hd : hasType env T dst = true)
    (hpre : topPre env T src dst = true)
    (h : DeepCopy.top env T src dst n = .ok (d', n')) :
    Spec.shapeEq env T src d' = true := by
  simp only [SupportedCopy, Bool.and_eq_true] at hsup
  obtain ⟨d2, n2, h2, -, e⟩ := (shapeOK hf hsup.2 src).top T dst n hsup.1 hs hd hpre
  rw [h] at h2; cases h2; exact e

/-- a NaN leaf and two map entries under one and the same NaN bit pattern (and a third, ordinary one):
the prior destination's own NaN entry is gone, both NaN entries of the source are there -/
example : Spec.shapeEq Ex4.env Ex4.tW Ex4.src Ex4.res = true :=
  deepcopy_same_shape Ex4.env Ex4.tW Ex4.src Ex4.dst Ex4.res 10 13 Ex4.env_flagsOk Ex4.supportedCopy
    Ex4.src_typed Ex4.dst_typed Ex4.pre Ex4.run
example : nanFree Ex4.src = false := Ex4.src_not_nanFree
/-- Go's equality rejects this perfect copy, and the source against itself -/
example : Spec.structEq Ex4.env Ex4.tW Ex4.src Ex4.res = false := Ex4.res_not_structEq
example : Spec.structEq Ex4.env Ex4.tW Ex4.src Ex4.src = false := Ex4.src_not_structEq
/-- the specification is not trivially true: a copy that lost one of the two NaN entries (F68), and one
whose two NaN entries both hold the first value, are rejected -/
example : Spec.shapeEq Ex4.env Ex4.tW Ex4.src Ex4.lost = false := Ex4.lost_not_shapeEq
example : Spec.shapeEq Ex4.env Ex4.tW Ex4.src Ex4.twice = false := Ex4.twice_not_shapeEq
/-- on the NaN-free example the new theorem applies as well -/
example : Spec.shapeEq Ex.env tNode Ex.src res = true :=
  deepcopy_same_shape Ex.env tNode Ex.src Ex.dst res 30 34 env_flagsOk supportedCopy src_typed
    dst_typed pre run

/-- **C05 without NaN-freeness, `deriveClone`.** -/
theorem clone_same_shape (env : Env) (T : Ty) (src d' : Val) (n n' : Nat)
    (hf : env.flagsOk = true) (hsup : SupportedClone env T = true)
    (hs : hasType env T src = true)
    (h : DeepCopy.clone env T src n = .ok (d', n')) :
    Spec.shapeEq env T src d' = true := by
  simp only [SupportedClone, Bool.and_eq_true] at hsup
  obtain ⟨d2, n2, h2, -, e⟩ := clone_goodS hf hsup.2 n hsup.1 hs
  rw [h] at h2; cases h2; exact e

example : Spec.shapeEq Ex4.env Ex4.tW Ex4.src Ex4.cres = true :=
  clone_same_shape Ex4.env Ex4.tW Ex4.src Ex4.cres 10 14 Ex4.env_flagsOk Ex4.supportedClone
    Ex4.src_typed Ex4.crun
example : Spec.shapeEq Ex.env tNode Ex.src cres = true :=
  clone_same_shape Ex.env tNode Ex.src cres 30 36 env_flagsOk supportedClone src_typed crun

/-- **The bit-level equality is the stronger one on NaN-free values**: whatever has the shape and the
bits of a NaN-free `x` is structurally equal to `x` in Go's sense (no typing hypothesis). Hence
`deepcopy_equal` / `clone_equal` are corollaries of `deepcopy_same_shape` / `clone_same_shape`; the
converse fails for `+0` / `-0` only. -/
theorem shape_implies_equal (env : Env) (T : Ty) (x y : Val) (hnan : nanFree x = true)
    (h : Spec.shapeEq env T x y = true) : Spec.structEq env T x y = true :=
  shapeEq_structEq env T x y hnan h

example : Spec.structEq Ex.env tNode Ex.src res = true :=
  shape_implies_equal Ex.env tNode Ex.src res src_nanFree
    (deepcopy_same_shape Ex.env tNode Ex.src Ex.dst res 30 34 env_flagsOk supportedCopy src_typed
      dst_typed pre run)
/-- `+0` and `-0` (bits `2^63`): equal for Go, of different bits -/
example : Spec.structEq Ex3.env (.basic (.float 64)) (.flt 64 0) (.flt 64 9223372036854775808) = true ∧
    Spec.shapeEq Ex3.env (.basic (.float 64)) (.flt 64 0) (.flt 64 9223372036854775808) = false := by
  constructor <;> dc_eval [Ex3.env, fltIsNaN, fltKey, fltSign, fltMag, fltExp, fltMant, mantBits, expBits]

/-! ### 7. The property in one statement, without NaN-freeness -/

/-- **C05 for `deriveDeepCopy`, every source.** As `deepcopy_correct` with the hypothesis
`nanFree src` dropped and (a) read as "has the shape and the bits of the source". -/
theorem deepcopy_correct_shape (env : Env) (T : Ty) (src dst : Val) (n : Nat)
    (hf : env.flagsOk = true) (hsup : SupportedCopy env T = true)
    (hs : hasType env T src = true) (hd : hasType env T dst = true)
    (hpre : topPre env T src dst = true)
    (htree : (memAddrs dst).Nodup)
    (hdisj : ∀ a ∈ memAddrs src, a ∉ memAddrs dst)
    (hsb : ∀ a ∈ memAddrs src, a < n) (hdb : ∀ a ∈ memAddrs dst, a < n) :
    ∃ d' n', DeepCopy.top env T src dst n = .ok (d', n') ∧ n ≤ n' ∧
      hasType env T d' = true ∧
      Spec.shapeEq env T src d' = true ∧
      (∀ a ∈ memAddrs d', a ∈ memAddrs dst ∨ (n ≤ a ∧ a < n')) ∧
      (∀ a ∈ memAddrs d', a ∉ memAddrs src) ∧
      (memAddrs d').Nodup ∧
      (∀ f, (∀ a ∈ memAddrs d', writeAt a f src = src) ∧
        (∀ a ∈ memAddrs src, writeAt a f d' = d')) := by
  obtain ⟨d', n', h, t⟩ := deepcopy_ok env T src dst n hf hsup hs hd hpre
  have hfr := deepcopy_fresh env T src dst d' n n' hf hs h
  exact ⟨d', n', h, hfr.1, t,
    deepcopy_same_shape env T src dst d' n n' hf hsup hs hd hpre h, hfr.2,
    deepcopy_disjoint env T src dst d' n n' hf hs h hsb hdisj,
    deepcopy_tree env T src dst d' n n' hf hs h htree hdb,
    deepcopy_write_isolation env T src dst d' n n' hf hs h hsb hdisj⟩

example : ∃ d' n', DeepCopy.top Ex4.env Ex4.tW Ex4.src Ex4.dst 10 = .ok (d', n') ∧ 10 ≤ n' ∧
    hasType Ex4.env Ex4.tW d' = true ∧ Spec.shapeEq Ex4.env Ex4.tW Ex4.src d' = true ∧
    (∀ a ∈ memAddrs d', a ∈ memAddrs Ex4.dst ∨ (10 ≤ a ∧ a < n')) ∧
    (∀ a ∈ memAddrs d', a ∉ memAddrs Ex4.src) ∧ (memAddrs d').Nodup ∧
    (∀ f, (∀ a ∈ memAddrs d', writeAt a f Ex4.src = Ex4.src) ∧
      (∀ a ∈ memAddrs Ex4.src, writeAt a f d' = d')) :=
  deepcopy_correct_shape Ex4.env Ex4.tW Ex4.src Ex4.dst 10 Ex4.env_flagsOk Ex4.supportedCopy
    Ex4.src_typed Ex4.dst_typed Ex4.pre Ex4.dst_tree Ex4.src_dst_disjoint Ex4.src_below Ex4.dst_below
example : DeepCopy.top Ex4.env Ex4.tW Ex4.src Ex4.dst 10 = .ok (Ex4.res, 13) := Ex4.run
example : memAddrs Ex4.res = [5, 10, 11, 12] := by decide

/-- **C05 for `deriveClone`, every source.** -/
theorem clone_correct_shape (env : Env) (T : Ty) (src : Val) (n : Nat)
    (hf : env.flagsOk = true) (hsup : SupportedClone env T = true)
    (hs : hasType env T src = true)
    (hsb : ∀ a ∈ memAddrs src, a < n) :
    ∃ d' n', DeepCopy.clone env T src n = .ok (d', n') ∧ n ≤ n' ∧
      hasType env T d' = true ∧
      Spec.shapeEq env T src d' = true ∧
      (∀ a ∈ memAddrs d', n ≤ a ∧ a < n') ∧
      (∀ a ∈ memAddrs d', a ∉ memAddrs src) ∧
      (memAddrs d').Nodup ∧
      (∀ f, (∀ a ∈ memAddrs d', writeAt a f src = src) ∧
        (∀ a ∈ memAddrs src, writeAt a f d' = d')) := by
  obtain ⟨d', n', h, t⟩ := clone_ok env T src n hf hsup hs
  have hfr := clone_fresh env T src d' n n' hf hs h
  exact ⟨d', n', h, hfr.1, t, clone_same_shape env T src d' n n' hf hsup hs h, hfr.2,
    clone_disjoint env T src d' n n' hf hs h hsb,
    clone_tree env T src d' n n' hf hs h,
    clone_write_isolation env T src d' n n' hf hs h hsb⟩

example : ∃ d' n', DeepCopy.clone Ex4.env Ex4.tW Ex4.src 10 = .ok (d', n') ∧ 10 ≤ n' ∧
    hasType Ex4.env Ex4.tW d' = true ∧ Spec.shapeEq Ex4.env Ex4.tW Ex4.src d' = true ∧
    (∀ a ∈ memAddrs d', 10 ≤ a ∧ a < n') ∧
    (∀ a ∈ memAddrs d', a ∉ memAddrs Ex4.src) ∧ (memAddrs d').Nodup ∧
    (∀ f, (∀ a ∈ memAddrs d', writeAt a f Ex4.src = Ex4.src) ∧
      (∀ a ∈ memAddrs Ex4.src, writeAt a f d' = d')) :=
  clone_correct_shape Ex4.env Ex4.tW Ex4.src 10 Ex4.env_flagsOk Ex4.supportedClone Ex4.src_typed
    Ex4.src_below
example : DeepCopy.clone Ex4.env Ex4.tW Ex4.src 10 = .ok (Ex4.cres, 14) := Ex4.crun

end Goderive.C05
