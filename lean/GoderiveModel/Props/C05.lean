/-
Property C05: DeepCopy and Clone produce an equal, fully independent copy.

"After deriveDeepCopy into a pointer destination with arbitrary unrelated prior contents (or into a
slice of equal length, or an empty map), and for deriveClone, the result is structurally equal to
the source with the nil-ness of every pointer, slice and map reproduced, and the source is unchanged.
No pointer target, slice backing array or map reachable from the result is reachable from the source,
so a later write through either is never visible through the other."
Quantifier: all supported types x all sources x all prior destination states that are tree-shaped and
share no memory with the source.

Model: `DeepCopy.top` (= body of `deriveDeepCopy(dst, src T)`), `DeepCopy.field` (= `genField`),
`DeepCopy.clone` (S/DeepCopy.lean); the state is the next fresh address. Specification:
`Spec.structEq` (Spec/StructEq.lean). Supportedness: `SupportedCopy`, `SupportedClone`, precondition
on the top-level form: `DeepCopy.topPre` (Lemmas/DeepCopy/Supported.lean). `memAddrs v` = all pointer
targets, backing arrays and maps reachable in `v`; `writeAt a f v` = the view `v` after a write to
the object at address `a` (Lemmas/DeepCopy/Clone.lean). Values are finite trees, hence acyclic.
"The source is unchanged" cannot fail in a functional model (the source is an argument, not a
result); it is observed by the tie. Only theorems and their non-vacuity examples live here; proofs
and the concrete world of the examples (`Ex.env`, `tNode`, `src`, `dst`, `res`, `cres`, …) are in
Lemmas/DeepCopy/*.lean.
-/
import GoderiveModel.Lemmas.DeepCopy

set_option linter.unusedSimpArgs false

namespace Goderive.C05
open Goderive Val DeepCopy DeepCopy.Ex

/-! ### 1. Freshness and independence -/

/-- **`genField` allocates fresh or reuses the prior destination.** Whatever the prior contents of
the l-value (`prior`), after the statements emitted for a component of type `F` the counter has not
gone back and every heap identity of the new value is an identity of the prior destination (a reused
backing array) or was allocated by the call — never one taken from the source. -/
theorem field_fresh (env : Env) (F : Ty) (src prior d' : Val) (n n' : Nat)
    (hf : env.flagsOk = true) (hs : hasType env F src = true)
    (h : DeepCopy.field env F src prior n = .ok (d', n')) :
    n ≤ n' ∧ ∀ a ∈ memAddrs d', a ∈ memAddrs prior ∨ (n ≤ a ∧ a < n') :=
  have A := (freshOK hf src).field F prior n hs d' n' h
  ⟨A.le, A.sub⟩

example : ∀ a ∈ memAddrs fres, a ∈ memAddrs fprior ∨ (30 ≤ a ∧ a < 31) :=
  (field_fresh Ex.env (.slice pI) fsrc fprior fres 30 31 env_flagsOk fsrc_typed frun).2
example : memAddrs fres = [22, 30] := by decide

/-- **`deriveDeepCopy(dst, src)` allocates fresh or reuses the prior destination.** No precondition
on `dst` at all (it need not even be well typed). -/
theorem deepcopy_fresh (env : Env) (T : Ty) (src dst d' : Val) (n n' : Nat)
    (hf : env.flagsOk = true) (hs : hasType env T src = true)
    (h : DeepCopy.top env T src dst n = .ok (d', n')) :
    n ≤ n' ∧ ∀ a ∈ memAddrs d', a ∈ memAddrs dst ∨ (n ≤ a ∧ a < n') :=
  have A := (freshOK hf src).top T dst n hs d' n' h
  ⟨A.le, A.sub⟩

example : ∀ a ∈ memAddrs res, a ∈ memAddrs Ex.dst ∨ (30 ≤ a ∧ a < 34) :=
  (deepcopy_fresh Ex.env tNode Ex.src Ex.dst res 30 34 env_flagsOk src_typed run).2
example : memAddrs res = [20, 30, 22, 31, 32, 33] := by decide

/-- The same for the three loops of the emitted code (struct fields in order, slice / array elements
by index, map entries in iteration order), which with `field` and `top` form the joint induction. -/
theorem loops_fresh (env : Env) (ss ds d' : Val) (n n' : Nat) (hf : env.flagsOk = true) :
    (∀ fs, fieldsHaveType env fs ss = true → DeepCopy.fields env fs ss ds n = .ok (d', n') →
      n ≤ n' ∧ ∀ a ∈ memAddrs d', a ∈ memAddrs ds ∨ (n ≤ a ∧ a < n')) ∧
    (∀ E, allHaveType env E ss = true → DeepCopy.elems env E ss ds n = .ok (d', n') →
      n ≤ n' ∧ ∀ a ∈ memAddrs d', a ∈ memAddrs ds ∨ (n ≤ a ∧ a < n')) ∧
    (∀ K V, canEqual env K = true → entriesHaveType env K V ss = true →
      DeepCopy.entries env V ss ds n = .ok (d', n') →
      n ≤ n' ∧ ∀ a ∈ memAddrs d', a ∈ memAddrs ds ∨ (n ≤ a ∧ a < n')) := by
  refine ⟨fun fs hs h => ?_, fun E hs h => ?_, fun K V hK hs h => ?_⟩
  · have A := (freshOK hf ss).fields fs ds n hs d' n' h
    exact ⟨A.le, A.sub⟩
  · have A := (freshOK hf ss).elems E ds n hs d' n' h
    exact ⟨A.le, A.sub⟩
  · have A := (freshOK hf ss).entries K V ds n hK hs d' n' h
    exact ⟨A.le, A.sub⟩

example : DeepCopy.elems Ex.env pI (.scons (.ptr 13 (.int 2)) .snil)
    (.scons (.ptr 23 (.int 8)) (.scons (.ptr 24 (.int 8)) .snil)) 30 =
    .ok (.scons (.ptr 30 (.int 2)) (.scons (.ptr 24 (.int 8)) .snil), 31) := by
  dc_eval [Ex.env, pI]

/-- **C05, "no pointer target, slice backing array or map reachable from the result is reachable
from the source".** If the source lies below the allocation counter and shares no memory with the
prior destination, the destination after the call shares no memory with the source. -/
theorem deepcopy_disjoint (env : Env) (T : Ty) (src dst d' : Val) (n n' : Nat)
    (hf : env.flagsOk = true) (hs : hasType env T src = true)
    (h : DeepCopy.top env T src dst n = .ok (d', n'))
    (hbelow : ∀ a ∈ memAddrs src, a < n)
    (hdisj : ∀ a ∈ memAddrs src, a ∉ memAddrs dst) :
    ∀ a ∈ memAddrs d', a ∉ memAddrs src := by
  intro a ha hsrc
  rcases (deepcopy_fresh env T src dst d' n n' hf hs h).2 a ha with h1 | h1
  · exact hdisj a hsrc h1
  · have := hbelow a hsrc; omega

example : ∀ a ∈ memAddrs res, a ∉ memAddrs Ex.src :=
  deepcopy_disjoint Ex.env tNode Ex.src Ex.dst res 30 34 env_flagsOk src_typed run src_below
    src_dst_disjoint

/-- `deriveClone` has no prior destination: every heap identity of the result is fresh. -/
theorem clone_fresh (env : Env) (T : Ty) (src d' : Val) (n n' : Nat)
    (hf : env.flagsOk = true) (hs : hasType env T src = true)
    (h : DeepCopy.clone env T src n = .ok (d', n')) :
    n ≤ n' ∧ ∀ a ∈ memAddrs d', n ≤ a ∧ a < n' := by
  have A := clone_FTL hf hs h
  refine ⟨A.le, fun a ha => ?_⟩
  rcases A.sub a ha with h1 | h1
  · cases h1
  · exact h1

example : ∀ a ∈ memAddrs cres, 30 ≤ a ∧ a < 36 :=
  (clone_fresh Ex.env tNode Ex.src cres 30 36 env_flagsOk src_typed crun).2
example : memAddrs cres = [30, 31, 32, 33, 34, 35] := by decide

/-- **C05 for `deriveClone`: the clone shares no memory with the source.** -/
theorem clone_disjoint (env : Env) (T : Ty) (src d' : Val) (n n' : Nat)
    (hf : env.flagsOk = true) (hs : hasType env T src = true)
    (h : DeepCopy.clone env T src n = .ok (d', n'))
    (hbelow : ∀ a ∈ memAddrs src, a < n) :
    ∀ a ∈ memAddrs d', a ∉ memAddrs src := by
  intro a ha hsrc
  have := (clone_fresh env T src d' n n' hf hs h).2 a ha
  have := hbelow a hsrc
  omega

example : ∀ a ∈ memAddrs cres, a ∉ memAddrs Ex.src :=
  clone_disjoint Ex.env tNode Ex.src cres 30 36 env_flagsOk src_typed crun src_below

/-! ### 2. The copy is structurally equal to the source, and the call does not panic -/

/-- **C05, "the result is structurally equal to the source with the nil-ness of every pointer, slice
and map reproduced".** `topPre` is the property's precondition on the top-level form: pointers both
non-nil; slices both nil or both non-nil of equal length; maps both nil, or both non-nil with an
empty destination. -/
theorem deepcopy_equal (env : Env) (T : Ty) (src dst d' : Val) (n n' : Nat)
    (hf : env.flagsOk = true) (hsup : SupportedCopy env T = true)
    (hs : hasType env T src = true) (hd : hasType env T dst = true) (hnan : nanFree src = true)
    (hpre : topPre env T src dst = true)
    (h : DeepCopy.top env T src dst n = .ok (d', n')) :
    Spec.structEq env T src d' = true := by
  simp only [SupportedCopy, Bool.and_eq_true] at hsup
  obtain ⟨d2, n2, h2, -, e⟩ := (corrOK hf hsup.2 src).top T dst n hsup.1 hs hd hnan hpre
  rw [h] at h2; cases h2; exact e

example : Spec.structEq Ex.env tNode Ex.src res = true :=
  deepcopy_equal Ex.env tNode Ex.src Ex.dst res 30 34 env_flagsOk supportedCopy src_typed dst_typed
    src_nanFree pre run
/-- outside `topPre` the copy is not equal, because the destination is passed by value: a nil source
slice leaves an empty non-nil destination non-nil; a populated destination map keeps its foreign keys -/
example : Spec.structEq Ex3.env Ex3.tS .nilv (.slice 1 0 .snil) = false := Ex3.slice_nil_into_empty.2
example : DeepCopy.top Ex3.env Ex3.tS .nilv (.slice 1 0 .snil) 10 = .ok (.slice 1 0 .snil, 10) :=
  Ex3.slice_nil_into_empty.1

/-- **The emitted code does not panic** (no nil dereference, index out of range, assignment to a nil
map) under the same hypotheses, and the destination is again a value of the type. -/
theorem deepcopy_ok (env : Env) (T : Ty) (src dst : Val) (n : Nat)
    (hf : env.flagsOk = true) (hsup : SupportedCopy env T = true)
    (hs : hasType env T src = true) (hd : hasType env T dst = true) (hnan : nanFree src = true)
    (hpre : topPre env T src dst = true) :
    ∃ d' n', DeepCopy.top env T src dst n = .ok (d', n') ∧ hasType env T d' = true := by
  simp only [SupportedCopy, Bool.and_eq_true] at hsup
  obtain ⟨d2, n2, h2, t, -⟩ := (corrOK hf hsup.2 src).top T dst n hsup.1 hs hd hnan hpre
  exact ⟨d2, n2, h2, t⟩

example : ∃ d' n', DeepCopy.top Ex.env tNode Ex.src Ex.dst 30 = .ok (d', n') ∧
    hasType Ex.env tNode d' = true :=
  deepcopy_ok Ex.env tNode Ex.src Ex.dst 30 env_flagsOk supportedCopy src_typed dst_typed
    src_nanFree pre

/-- **`deriveClone` returns a structurally equal value** (nil stays nil at every level). -/
theorem clone_equal (env : Env) (T : Ty) (src d' : Val) (n n' : Nat)
    (hf : env.flagsOk = true) (hsup : SupportedClone env T = true)
    (hs : hasType env T src = true) (hnan : nanFree src = true)
    (h : DeepCopy.clone env T src n = .ok (d', n')) :
    Spec.structEq env T src d' = true := by
  simp only [SupportedClone, Bool.and_eq_true] at hsup
  obtain ⟨d2, n2, h2, -, e⟩ := clone_good hf hsup.2 n hsup.1 hs hnan
  rw [h] at h2; cases h2; exact e

example : Spec.structEq Ex.env tNode Ex.src cres = true :=
  clone_equal Ex.env tNode Ex.src cres 30 36 env_flagsOk supportedClone src_typed src_nanFree crun

/-- **`deriveClone` does not panic** and returns a value of the type. -/
theorem clone_ok (env : Env) (T : Ty) (src : Val) (n : Nat)
    (hf : env.flagsOk = true) (hsup : SupportedClone env T = true)
    (hs : hasType env T src = true) (hnan : nanFree src = true) :
    ∃ d' n', DeepCopy.clone env T src n = .ok (d', n') ∧ hasType env T d' = true := by
  simp only [SupportedClone, Bool.and_eq_true] at hsup
  obtain ⟨d2, n2, h2, t, -⟩ := clone_good hf hsup.2 n hsup.1 hs hnan
  exact ⟨d2, n2, h2, t⟩

example : ∃ d' n', DeepCopy.clone Ex.env tNode Ex.src 30 = .ok (d', n') ∧
    hasType Ex.env tNode d' = true :=
  clone_ok Ex.env tNode Ex.src 30 env_flagsOk supportedClone src_typed src_nanFree

/-! ### 3. Tree shape -/

/-- **The destination stays tree-shaped.** If no heap identity occurs twice in the prior destination
and all of them lie below the allocation counter, none occurs twice in the destination after the call.
(In the model every `new` / `make` takes a fresh address, also for zero-size objects.) -/
theorem deepcopy_tree (env : Env) (T : Ty) (src dst d' : Val) (n n' : Nat)
    (hf : env.flagsOk = true) (hs : hasType env T src = true)
    (h : DeepCopy.top env T src dst n = .ok (d', n'))
    (htree : (memAddrs dst).Nodup) (hbelow : ∀ a ∈ memAddrs dst, a < n) :
    (memAddrs d').Nodup :=
  ((freshOK hf src).top T dst n hs d' n' h).nodup htree hbelow

example : (memAddrs res).Nodup :=
  deepcopy_tree Ex.env tNode Ex.src Ex.dst res 30 34 env_flagsOk src_typed run dst_tree dst_below

/-- **A clone is tree-shaped.** -/
theorem clone_tree (env : Env) (T : Ty) (src d' : Val) (n n' : Nat)
    (hf : env.flagsOk = true) (hs : hasType env T src = true)
    (h : DeepCopy.clone env T src n = .ok (d', n')) :
    (memAddrs d').Nodup :=
  (clone_FTL hf hs h).nodup List.nodup_nil (fun _ m => by cases m)

example : (memAddrs cres).Nodup :=
  clone_tree Ex.env tNode Ex.src cres 30 36 env_flagsOk src_typed crun

/-! ### 4. Write isolation -/

/-- **Frame rule of the store semantics**: a write to an address a view does not reach leaves the
view unchanged. -/
theorem write_frame (a : Nat) (f : Val → Val) (v : Val) (h : a ∉ memAddrs v) : writeAt a f v = v :=
  writeAt_of_not_mem a f v h

example : writeAt 30 (fun _ => .int 99) Ex.src = Ex.src :=
  write_frame 30 _ Ex.src (by decide)
/-- … whereas a write to an address the view does reach is observed -/
example : writeAt 11 (fun _ => .int 99) Ex.src ≠ Ex.src := by decide

/-- **C05, "a later write through either is never visible through the other".** After
`deriveDeepCopy`, a write to any object reachable from the destination leaves the source as it was,
and a write to any object reachable from the source leaves the destination as it was. -/
theorem deepcopy_write_isolation (env : Env) (T : Ty) (src dst d' : Val) (n n' : Nat)
    (hf : env.flagsOk = true) (hs : hasType env T src = true)
    (h : DeepCopy.top env T src dst n = .ok (d', n'))
    (hbelow : ∀ a ∈ memAddrs src, a < n)
    (hdisj : ∀ a ∈ memAddrs src, a ∉ memAddrs dst) (f : Val → Val) :
    (∀ a ∈ memAddrs d', writeAt a f src = src) ∧ (∀ a ∈ memAddrs src, writeAt a f d' = d') := by
  have hd := deepcopy_disjoint env T src dst d' n n' hf hs h hbelow hdisj
  exact ⟨fun a ha => write_frame a f src (hd a ha),
    fun a ha => write_frame a f d' (fun h' => hd a h' ha)⟩

example (f : Val → Val) : (∀ a ∈ memAddrs res, writeAt a f Ex.src = Ex.src) ∧
    (∀ a ∈ memAddrs Ex.src, writeAt a f res = res) :=
  deepcopy_write_isolation Ex.env tNode Ex.src Ex.dst res 30 34 env_flagsOk src_typed run src_below
    src_dst_disjoint f
/-- the write through the copy is a real write: it changes the copy -/
example : writeAt 30 (fun _ => .int 99) res ≠ res := by decide

/-- **Write isolation for `deriveClone`.** -/
theorem clone_write_isolation (env : Env) (T : Ty) (src d' : Val) (n n' : Nat)
    (hf : env.flagsOk = true) (hs : hasType env T src = true)
    (h : DeepCopy.clone env T src n = .ok (d', n'))
    (hbelow : ∀ a ∈ memAddrs src, a < n) (f : Val → Val) :
    (∀ a ∈ memAddrs d', writeAt a f src = src) ∧ (∀ a ∈ memAddrs src, writeAt a f d' = d') := by
  have hd := clone_disjoint env T src d' n n' hf hs h hbelow
  exact ⟨fun a ha => write_frame a f src (hd a ha),
    fun a ha => write_frame a f d' (fun h' => hd a h' ha)⟩

example (f : Val → Val) : (∀ a ∈ memAddrs cres, writeAt a f Ex.src = Ex.src) ∧
    (∀ a ∈ memAddrs Ex.src, writeAt a f cres = cres) :=
  clone_write_isolation Ex.env tNode Ex.src cres 30 36 env_flagsOk src_typed crun src_below f

/-! ### 5. The property in one statement -/

/-- **C05 for `deriveDeepCopy`.** For every supported type, every well-typed NaN-free source and every
well-typed prior destination that is tree-shaped, shares no memory with the source and satisfies the
precondition on the top-level form (allocation counter above both): the call does not panic and the
destination afterwards is (a) structurally equal to the source, nil-ness included, (b) built from
memory of the prior destination and fresh memory only, hence (c) disjoint from the source,
(d) tree-shaped, and (e) writes through either never show through the other. -/
theorem deepcopy_correct (env : Env) (T : Ty) (src dst : Val) (n : Nat)
    (hf : env.flagsOk = true) (hsup : SupportedCopy env T = true)
    (hs : hasType env T src = true) (hd : hasType env T dst = true) (hnan : nanFree src = true)
    (hpre : topPre env T src dst = true)
    (htree : (memAddrs dst).Nodup)
    (hdisj : ∀ a ∈ memAddrs src, a ∉ memAddrs dst)
    (hsb : ∀ a ∈ memAddrs src, a < n) (hdb : ∀ a ∈ memAddrs dst, a < n) :
    ∃ d' n', DeepCopy.top env T src dst n = .ok (d', n') ∧ n ≤ n' ∧
      hasType env T d' = true ∧
      Spec.structEq env T src d' = true ∧
      (∀ a ∈ memAddrs d', a ∈ memAddrs dst ∨ (n ≤ a ∧ a < n')) ∧
      (∀ a ∈ memAddrs d', a ∉ memAddrs src) ∧
      (memAddrs d').Nodup ∧
      (∀ f, (∀ a ∈ memAddrs d', writeAt a f src = src) ∧
        (∀ a ∈ memAddrs src, writeAt a f d' = d')) := by
  obtain ⟨d', n', h, t⟩ := deepcopy_ok env T src dst n hf hsup hs hd hnan hpre
  have hfr := deepcopy_fresh env T src dst d' n n' hf hs h
  exact ⟨d', n', h, hfr.1, t,
    deepcopy_equal env T src dst d' n n' hf hsup hs hd hnan hpre h, hfr.2,
    deepcopy_disjoint env T src dst d' n n' hf hs h hsb hdisj,
    deepcopy_tree env T src dst d' n n' hf hs h htree hdb,
    deepcopy_write_isolation env T src dst d' n n' hf hs h hsb hdisj⟩

example : ∃ d' n', DeepCopy.top Ex.env tNode Ex.src Ex.dst 30 = .ok (d', n') ∧ 30 ≤ n' ∧
    hasType Ex.env tNode d' = true ∧ Spec.structEq Ex.env tNode Ex.src d' = true ∧
    (∀ a ∈ memAddrs d', a ∈ memAddrs Ex.dst ∨ (30 ≤ a ∧ a < n')) ∧
    (∀ a ∈ memAddrs d', a ∉ memAddrs Ex.src) ∧ (memAddrs d').Nodup ∧
    (∀ f, (∀ a ∈ memAddrs d', writeAt a f Ex.src = Ex.src) ∧
      (∀ a ∈ memAddrs Ex.src, writeAt a f d' = d')) :=
  deepcopy_correct Ex.env tNode Ex.src Ex.dst 30 env_flagsOk supportedCopy src_typed dst_typed
    src_nanFree pre dst_tree src_dst_disjoint src_below dst_below

/-- **C05 for `deriveClone`.** -/
theorem clone_correct (env : Env) (T : Ty) (src : Val) (n : Nat)
    (hf : env.flagsOk = true) (hsup : SupportedClone env T = true)
    (hs : hasType env T src = true) (hnan : nanFree src = true)
    (hsb : ∀ a ∈ memAddrs src, a < n) :
    ∃ d' n', DeepCopy.clone env T src n = .ok (d', n') ∧ n ≤ n' ∧
      hasType env T d' = true ∧
      Spec.structEq env T src d' = true ∧
      (∀ a ∈ memAddrs d', n ≤ a ∧ a < n') ∧
      (∀ a ∈ memAddrs d', a ∉ memAddrs src) ∧
      (memAddrs d').Nodup ∧
      (∀ f, (∀ a ∈ memAddrs d', writeAt a f src = src) ∧
        (∀ a ∈ memAddrs src, writeAt a f d' = d')) := by
  obtain ⟨d', n', h, t⟩ := clone_ok env T src n hf hsup hs hnan
  have hfr := clone_fresh env T src d' n n' hf hs h
  exact ⟨d', n', h, hfr.1, t, clone_equal env T src d' n n' hf hsup hs hnan h, hfr.2,
    clone_disjoint env T src d' n n' hf hs h hsb,
    clone_tree env T src d' n n' hf hs h,
    clone_write_isolation env T src d' n n' hf hs h hsb⟩

example : ∃ d' n', DeepCopy.clone Ex.env tNode Ex.src 30 = .ok (d', n') ∧ 30 ≤ n' ∧
    hasType Ex.env tNode d' = true ∧ Spec.structEq Ex.env tNode Ex.src d' = true ∧
    (∀ a ∈ memAddrs d', 30 ≤ a ∧ a < n') ∧
    (∀ a ∈ memAddrs d', a ∉ memAddrs Ex.src) ∧ (memAddrs d').Nodup ∧
    (∀ f, (∀ a ∈ memAddrs d', writeAt a f Ex.src = Ex.src) ∧
      (∀ a ∈ memAddrs Ex.src, writeAt a f d' = d')) :=
  clone_correct Ex.env tNode Ex.src 30 env_flagsOk supportedClone src_typed src_nanFree src_below
/-- a recursive type with an array of pointers, a nested named struct and a `[]byte` -/
example : ∃ d' n', DeepCopy.clone Ex2.env Ex2.tL Ex2.src 10 = .ok (d', n') ∧ 10 ≤ n' ∧
    hasType Ex2.env Ex2.tL d' = true ∧ Spec.structEq Ex2.env Ex2.tL Ex2.src d' = true ∧
    (∀ a ∈ memAddrs d', 10 ≤ a ∧ a < n') ∧
    (∀ a ∈ memAddrs d', a ∉ memAddrs Ex2.src) ∧ (memAddrs d').Nodup ∧
    (∀ f, (∀ a ∈ memAddrs d', writeAt a f Ex2.src = Ex2.src) ∧
      (∀ a ∈ memAddrs Ex2.src, writeAt a f d' = d')) :=
  clone_correct Ex2.env Ex2.tL Ex2.src 10 Ex2.env_flagsOk Ex2.supportedClone Ex2.src_typed
    Ex2.src_nanFree Ex2.src_below
example : DeepCopy.clone Ex2.env Ex2.tL Ex2.src 10 = .ok (Ex2.cres, 17) := Ex2.crun
example : memAddrs Ex2.cres = [10, 11, 12, 13, 16] := by decide

end Goderive.C05
