/-
Property C04: derived Hash is a function of the value that respects Equal.

"For every supported type, any two values that derived Equal considers equal hash to the same
number: a value and its clone, equal contents at different addresses, maps populated in different
orders, slices with different spare capacity, +0 and -0. Hashing is repeatable within and across
processes and does not modify its argument."

Model: `Hash.top` / `Hash.field` (S/Hash.lean; `uint64` arithmetic wraps, floats by
`math.Float64bits(x + 0)`, unexported fields of imported structs skipped, map entries visited in
key-sorted order). "Derived Equal considers equal" is `Spec.structEq` (the specification that C02
proves `Equal.top` computes) in `hash_respects_structEq`, and literally the model of the emitted
Equal in `hash_respects_equal`.

Scope. The theorems hold for EVERY well-typed value (`hasType`): a well-typed value has no chan /
func / interface component and no dangling type name at any position the hash function visits, and
the key type of a non-nil map is comparable by typing; so the syntactic predicate `SupportedHash`
(Lemmas/Hash.lean: the types plugin/hash emits code for) is not needed as a hypothesis. NaN-freeness
is not a hypothesis either: `structEq x y = true` already excludes NaN on both sides.

"Repeatable within and across processes, does not modify its argument": `Hash.top` is a Lean
function, hence deterministic and without effect by construction; a theorem would say nothing about
the Go code, so these two clauses are carried by the tie (two processes, argument observed before and
after the call), see DESIGN.md §6-C04.

Only theorems and their non-vacuity examples live here; proofs and the concrete world of the
examples (`C04.env`, `tNode`, `x1`, `y1`, `z1`, `tMapPt`, `m1`, `m2`, `m3`) are in Lemmas/Hash.lean.
-/
import GoderiveModel.Lemmas.Hash
import GoderiveModel.Props.C02

set_option linter.unusedSimpArgs false

namespace Goderive.C04
open Goderive Val

/-! ### 1. Values that are equal hash to the same number -/

/-- **C04, main clause.** Two well-typed values that are structurally equal (same nil-ness at every
pointer, slice and map, same lengths and key sets, equal leaves with IEEE `==`, so `+0 = -0`;
whatever the addresses, the spare capacities, the map insertion orders) have the same hash. -/
theorem hash_respects_structEq (env : Env) (T : Ty) (x y : Val)
    (hf : env.flagsOk = true) (hx : hasType env T x = true) (hy : hasType env T y = true)
    (he : Spec.structEq env T x y = true) :
    Hash.top env T x = Hash.top env T y :=
  hash_eq_of_structEq hf hx hy he

/-- `x1` and `y1`: other addresses, other spare capacity, the map filled in the other order, every
zero with the other sign. By the theorem … -/
example : Hash.top env tNode x1 = Hash.top env tNode y1 :=
  hash_respects_structEq env tNode x1 y1 env_flagsOk x1_typed y1_typed x1_y1_structEq
/-- … and by evaluation: the hypotheses hold, the values differ, the two hashes are the same number. -/
example : x1 ≠ y1 ∧ Spec.structEq env tNode x1 y1 = true ∧
    Hash.top env tNode x1 = .ok 13407230646409729311 ∧
    Hash.top env tNode y1 = .ok 13407230646409729311 :=
  ⟨by decide, x1_y1_structEq, x1_hash, y1_hash⟩
/-- the hash is not constant: `z1` differs from `x1` in one leaf -/
example : Spec.structEq env tNode x1 z1 = false ∧
    Hash.top env tNode z1 = .ok 8795544627982341407 :=
  ⟨x1_z1_structEq, by hash_eval [env, tNode, z1, node, leaf, pt, hi, ka, kb, f0, fm0, f1, f2]⟩
/-- `+0` and `-0`: `==`, different bits, same hash -/
example : Spec.structEq env (.basic (.float 64)) (.flt 64 f0) (.flt 64 fm0) = true ∧
    Hash.top env (.basic (.float 64)) (.flt 64 f0) = .ok 0 ∧
    Hash.top env (.basic (.float 64)) (.flt 64 fm0) = .ok 0 :=
  ⟨by goderive_eval [f0, fm0], by hash_eval [f0], by hash_eval [fm0]⟩
/-- struct-keyed maps filled in different orders with keys that are `==` but not bit-identical -/
example : Spec.structEq env tMapPt (.map 1 m1) (.map 2 m3) = true ∧
    Hash.top env tMapPt (.map 1 m1) = .ok 13407216091184869426 ∧
    Hash.top env tMapPt (.map 2 m3) = .ok 13407216091184869426 :=
  ⟨m1_m3_structEq, by hash_eval [env, tMapPt, m1, pt, f0, fm0, f1, f2],
    by hash_eval [env, tMapPt, m3, pt, f0, fm0, f1, f2]⟩
/-- slices with different backing arrays and different spare capacity -/
example : Spec.structEq env (.slice (.basic .string)) (.slice 1 0 (.scons hi .snil))
      (.slice 2 7 (.scons hi .snil)) = true ∧
    Hash.top env (.slice (.basic .string)) (.slice 1 0 (.scons hi .snil)) = .ok 3856 ∧
    Hash.top env (.slice (.basic .string)) (.slice 2 7 (.scons hi .snil)) = .ok 3856 :=
  ⟨by goderive_eval [hi], by hash_eval [hi], by hash_eval [hi]⟩
/-- a pointer at a different address -/
example : Spec.structEq env (.ptr tPt) (.ptr 1 (pt f1 f2)) (.ptr 99 (pt f1 f2)) = true ∧
    Hash.top env (.ptr tPt) (.ptr 1 (pt f1 f2)) = .ok 18307132485261082577 ∧
    Hash.top env (.ptr tPt) (.ptr 99 (pt f1 f2)) = .ok 18307132485261082577 :=
  ⟨by goderive_eval [env, tPt, pt, f1, f2], by hash_eval [env, tPt, pt, f1, f2],
    by hash_eval [env, tPt, pt, f1, f2]⟩
/-- unexported fields of an imported struct are skipped: that only removes information -/
example : Hash.top env tExt (.struct (.scons (.int 5) (.scons (.int 7) .snil))) = .ok 532 ∧
    Hash.top env tExt (.struct (.scons (.int 5) (.scons (.int 8) .snil))) = .ok 532 :=
  ⟨by hash_eval [env, tExt], by hash_eval [env, tExt]⟩

/-- **C04, literally: "any two values that derived Equal considers equal hash to the same
number".** `Equal.top` is the model of the emitted `deriveEqual` (C02), `Supported` says that
plugin/equal emits code for `T`. -/
theorem hash_respects_equal (env : Env) (T : Ty) (x y : Val)
    (hf : env.flagsOk = true) (hx : hasType env T x = true) (hy : hasType env T y = true)
    (hs : Supported env T = true) (he : Equal.top env T x y = .ok true) :
    Hash.top env T x = Hash.top env T y := by
  rw [C02.equal_correct env T x y hf hx hy hs] at he
  exact hash_eq_of_structEq hf hx hy (Res.ok.inj he)

example : Equal.top env tNode x1 y1 = .ok true ∧ Hash.top env tNode x1 = Hash.top env tNode y1 := by
  have h : Equal.top env tNode x1 y1 = .ok true := by
    rw [C02.equal_correct env tNode x1 y1 env_flagsOk x1_typed y1_typed env_supported,
      x1_y1_structEq]
  exact ⟨h, hash_respects_equal env tNode x1 y1 env_flagsOk x1_typed y1_typed env_supported h⟩

/-! ### 2. Hashing never panics; a component hashes the same at top level and as a field -/

/-- Hashing a well-typed value never panics (nil pointers, slices and maps included). -/
theorem hash_total (env : Env) (T : Ty) (x : Val) (hx : hasType env T x = true) :
    ∃ h, Hash.top env T x = .ok h :=
  (hashTotal env x).top T hx

example : ∃ h, Hash.top env tNode x1 = .ok h := hash_total env tNode x1 x1_typed
example : Hash.top env tNode leaf = .ok 488542609 := by
  hash_eval [env, tNode, node, leaf, f0]
/-- on an ill-typed argument the model does panic -/
example : hasType env tNode (.int 3) = false ∧ Hash.top env tNode (.int 3) = .panic :=
  ⟨by rw [hasType.eq_def]; simp [env, tNode, Env.under, Env.decl?], by hash_eval [env, tNode]⟩

/-- The expression emitted for a component of type `T` is a call of the function generated for `T`
(numeric leaves are inlined with the same result). -/
theorem hash_field_eq_top (env : Env) (T : Ty) (x : Val) :
    Hash.field env T x = Hash.top env T x :=
  Hash.field_eq_top env T x

example : Hash.field env tNode x1 = .ok 13407230646409729311 := by
  rw [hash_field_eq_top, x1_hash]

/-! ### 3. Addresses, spare capacity and map insertion order are never read -/

/-- Hashing does not look at any address or spare capacity, at any depth (no typing needed). -/
theorem hash_eraseIds (env : Env) (T : Ty) (x : Val) :
    Hash.top env T (eraseIds x) = Hash.top env T x :=
  (hashErase env x).top T

example : eraseIds x1 ≠ x1 ∧ Hash.top env tNode (eraseIds x1) = .ok 13407230646409729311 := by
  refine ⟨by decide, ?_⟩
  rw [hash_eraseIds, x1_hash]

/-- The hash is a function of the value with all heap identities forgotten: a value and its clone,
equal contents at different addresses, slices with different spare capacity. -/
theorem hash_eq_of_eraseIds_eq (env : Env) (T : Ty) (x y : Val) (h : eraseIds x = eraseIds y) :
    Hash.top env T x = Hash.top env T y := by
  rw [← hash_eraseIds env T x, ← hash_eraseIds env T y, h]

/-- a "clone" of `x1`: the same tree at fresh addresses, without spare capacity -/
example :
    let c : Val := node 1 (.ptr 30 leaf) (.slice 31 0 (.scons hi .snil))
      (.map 32 (.scons (.pair ka (pt f0 f1)) (.scons (.pair kb (pt f2 fm0)) .snil))) fm0
    c ≠ x1 ∧ Hash.top env tNode c = Hash.top env tNode x1 :=
  ⟨by decide, hash_eq_of_eraseIds_eq env tNode _ x1 (by decide)⟩

/-- Hashing does not depend on the insertion order of a map (nor on its address): the entries are
visited in key order, and a strictly sorted permutation is unique. Only the KEYS have to be NaN-free
(with a NaN key the derived key order is not an order); `nanFree es = true` is more than enough. -/
theorem hash_map_perm (env : Env) (T : Ty) (a a' : Nat) (es es' : Val)
    (hf : env.flagsOk = true)
    (h1 : hasType env T (.map a es) = true) (h2 : hasType env T (.map a' es') = true)
    (nk : ∀ e ∈ es.toList, nanFree (ekey e) = true)
    (hp : es.toList.Perm es'.toList) :
    Hash.top env T (.map a es) = Hash.top env T (.map a' es') := by
  obtain ⟨K, V, hU, -⟩ := hasType_map_under h1
  rcases hasType_map_inv hU h1 with h | ⟨_, _, h, hc, hxs, dx⟩
  · cases h
  · cases h
    rcases hasType_map_inv hU h2 with h | ⟨_, _, h, -, hys, dy⟩
    · cases h
    · cases h
      rw [Hash.top_eq_topU, Hash.top_eq_topU env T (.map a' es'), hU]
      simp only [Hash.topU]
      rw [sortEntries_eq_of_perm_typed hf hc hxs hys nk dx dy hp]

example : Hash.top env tMapPt (.map 1 m1) = Hash.top env tMapPt (.map 2 m2) :=
  hash_map_perm env tMapPt 1 2 m1 m2 env_flagsOk (m1_typed 1) (m2_typed 2) (by decide) m1_perm_m2
example : m1 ≠ m2 ∧ Hash.top env tMapPt (.map 1 m1) = .ok 13407216091184869426 ∧
    Hash.top env tMapPt (.map 2 m2) = .ok 13407216091184869426 :=
  ⟨by decide, by hash_eval [env, tMapPt, m1, pt, f0, fm0, f1, f2],
    by hash_eval [env, tMapPt, m2, pt, f0, fm0, f1, f2]⟩

end Goderive.C04
