/-
Property C14: set and list helpers.

"Derived Contains is true exactly when some element is Equal to the item; Unique returns pairwise
non-Equal elements covering every input element (keeping first occurrences in order when elements
are not ==-comparable); Set, Union and Intersect return exactly the mathematical set, union and
intersection (for lists: first list's order, then new items), and Filter, TakeWhile, All and Any
agree with their textbook definitions, calling the predicate on elements in order."

Model: S/Lists.lean (the loops the templates contain). Specification: Spec/Lists.lean (textbook
definitions). Facts about derived Equal / Hash that belong to C02 / C04 are explicit hypotheses:
`eq a b = .ok (e a b)` says that the element equality the plugin picked returns the verdict `e`
without panicking (C02: `equal_correct`, with `e = Spec.structEq env E`), `EquivOn e` that the
verdict is an equivalence (C02), `e a b → hf a = hf b` that Equal values hash alike (C04).
A predicate is a stateful oracle `Fn σ Bool`; `logged f` is a pure predicate with a call log.
Only theorems and their non-vacuity examples live here; proofs are in Lemmas/Lists.lean.
-/
import GoderiveModel.Lemmas.Lists
import GoderiveModel.Spec.StructEq

set_option linter.unusedSimpArgs false

namespace Goderive.C14
open Goderive Goderive.Lists

/-! ### concrete data for the non-vacuity examples -/

def i (n : Int) : Val := .int n
/-- `==` on ints as the element equality (what `elemEq` picks for a comparable element type) -/
def eqInt : Val → Val → Res Bool := fun a b => .ok (goEq a b)
/-- a deliberately poor hash: the value modulo 2 -/
def hashMod2 : Val → UInt64
  | .int n => if n % 2 = 0 then 0 else 1
  | _ => 7
def isPos : Val → Bool
  | .int n => decide (n > 0)
  | _ => false

private theorem goEq_equiv_ints (xs : List Val) (h : ∀ x ∈ xs, ∃ n, x = .int n) : Spec.EquivOn goEq xs := by
  refine ⟨?_, ?_, ?_⟩
  · intro a ha; obtain ⟨n, rfl⟩ := h a ha; simp [goEq]
  · intro a ha b hb; obtain ⟨n, rfl⟩ := h a ha; obtain ⟨m, rfl⟩ := h b hb
    simp only [goEq, beq_iff_eq]; exact fun h => h.symm
  · intro a ha b hb c hc; obtain ⟨n, rfl⟩ := h a ha; obtain ⟨m, rfl⟩ := h b hb; obtain ⟨k, rfl⟩ := h c hc
    simp only [goEq, beq_iff_eq]; exact fun h1 h2 => h1.trans h2

/-! ### 1. Contains -/

/-- **C14, Contains.** The emitted loop returns — without panicking — whether some element is Equal
to the item, for the element equality `eq` the plugin picked (`==` or derived Equal) with verdict `e`. -/
theorem contains_spec (eq : Val → Val → Res Bool) (e : Val → Val → Bool) (xs : List Val) (item : Val)
    (heq : ∀ v ∈ xs, eq v item = .ok (e v item)) :
    contains eq item xs = .ok (xs.any (fun v => e v item)) :=
  contains_eq eq e item xs heq

example : contains eqInt (i 2) [i 1, i 2, i 3] = .ok true := by
  rw [contains_spec eqInt goEq _ _ (fun _ _ => rfl)]; decide
example : contains eqInt (i 5) [i 1, i 2, i 3] = .ok false := by
  rw [contains_spec eqInt goEq _ _ (fun _ _ => rfl)]; decide

/-- the same statement in the property's words -/
theorem contains_true_iff (eq : Val → Val → Res Bool) (e : Val → Val → Bool) (xs : List Val) (item : Val)
    (heq : ∀ v ∈ xs, eq v item = .ok (e v item)) :
    contains eq item xs = .ok true ↔ ∃ v ∈ xs, e v item = true := by
  rw [contains_spec eq e xs item heq]
  simp

example : contains eqInt (i 2) [i 1, i 2] = .ok true :=
  (contains_true_iff eqInt goEq _ _ (fun _ _ => rfl)).mpr ⟨i 2, by simp, by decide⟩

/-- **C14, Contains, instantiated with what the plugin emits for element type `E`** (`==` when
`canEqual`, else `deriveEqual`) and the C02 facts as hypotheses: derived Equal computes structural
equality without panicking, and `==` on a comparable type is the same verdict. -/
theorem contains_spec_derived (env : Env) (E : Ty) (xs : List Val) (item : Val)
    (hEqual : ∀ v ∈ xs, Equal.top env E v item = .ok (Spec.structEq env E v item))
    (hGoEq : canEqual env E = true → ∀ v ∈ xs, goEq v item = Spec.structEq env E v item) :
    contains (elemEq env E) item xs = .ok (xs.any (fun v => Spec.structEq env E v item)) := by
  unfold elemEq
  cases hc : canEqual env E with
  | true =>
    simp only [if_true]
    exact contains_eq _ (Spec.structEq env E) item xs (fun v hv => by rw [hGoEq hc v hv])
  | false =>
    simp only [Bool.false_eq_true, if_false]
    exact contains_eq _ (Spec.structEq env E) item xs hEqual


def env0 : Env := { decls := [] }
def tInt : Ty := .basic (.int 64 true)
example : contains (elemEq env0 tInt) (.int 2) [.int 1, .int 2] = .ok true := by
  rw [contains_spec_derived env0 tInt _ _ ?_ ?_]
  · simp [Spec.structEq, env0, tInt, Env.under, leafEq]
  · intro v hv
    simp only [List.mem_cons, List.mem_nil_iff, or_false] at hv
    rcases hv with rfl | rfl <;> simp [Equal.top, Spec.structEq, env0, tInt, Env.under, leafEq, goEq]
  · intro _ v hv
    simp only [List.mem_cons, List.mem_nil_iff, or_false] at hv
    rcases hv with rfl | rfl <;> simp [Spec.structEq, env0, tInt, Env.under, leafEq, goEq]

/-! ### 2. Unique -/

/-- **C14, Unique on elements that are not `==`-comparable (the hash-bucket loop).** Given that Equal
elements hash alike (C04), the result is exactly the first occurrences in order, and the input array
afterwards holds the result followed by its own untouched tail (in-place compaction). -/
theorem unique_hash_spec (π : List Val → List Val) (hash : Val → Res UInt64) (eq : Val → Val → Res Bool)
    (hf : Val → UInt64) (e : Val → Val → Bool) (xs : List Val) (hne : xs ≠ [])
    (hhash : ∀ v ∈ xs, hash v = .ok (hf v))
    (heq : ∀ a ∈ xs, ∀ b ∈ xs, eq a b = .ok (e a b))
    (hresp : ∀ a ∈ xs, ∀ b ∈ xs, e a b = true → hf a = hf b) :
    unique false π hash eq (some xs) =
      .ok (some (Spec.dedupFirst e xs),
           some (Spec.dedupFirst e xs ++ xs.drop (Spec.dedupFirst e xs).length)) := by
  have hloop := uniqueLoop_spec hash eq hf e xs hhash heq hresp xs [] [] (fun _ => [])
    (by simp) (fun _ h => h) (by intro h k; simp)
  simp only [List.nil_append, List.length_nil, Nat.add_zero] at hloop
  cases xs with
  | nil => exact absurd rfl hne
  | cons x r =>
    simp only [unique, Bool.false_eq_true, if_false, hloop, dedupFirst_eq_foldl]
    simp

example : unique false id (fun v => .ok (hashMod2 v)) eqInt (some [i 1, i 2, i 1, i 3, i 2]) =
    .ok (some [i 1, i 2, i 3], some [i 1, i 2, i 3, i 3, i 2]) := by
  rw [unique_hash_spec id _ eqInt hashMod2 goEq _ (by simp) (fun _ _ => rfl) (fun _ _ _ _ => rfl)]
  · decide
  · decide

/-- what "first occurrences" means: pairwise non-Equal, from the input, covering every input element -/
theorem unique_hash_set (e : Val → Val → Bool) (xs : List Val) (hrefl : ∀ x ∈ xs, e x x = true) :
    Spec.IsSetOf e xs (Spec.dedupFirst e xs) :=
  dedupFirst_isSetOf e xs hrefl

example : Spec.IsSetOf goEq [i 1, i 2, i 1] (Spec.dedupFirst goEq [i 1, i 2, i 1]) :=
  unique_hash_set goEq _ (by decide)

/-- Without "Equal ⇒ same Hash" the loop keeps Equal duplicates: the hypothesis is needed. -/
theorem unique_hash_needs_hash_respects_equal :
    unique false id (fun v => .ok (hashMod2 v)) (fun _ _ => .ok true) (some [i 1, i 2]) ≠
      .ok (some (Spec.dedupFirst (fun _ _ => true) [i 1, i 2]), some [i 1, i 2]) := by
  have h : unique false id (fun v => .ok (hashMod2 v)) (fun _ _ => .ok true) (some [i 1, i 2]) =
      .ok (some [i 1, i 2], some [i 1, i 2]) := by
    simp only [unique, Bool.false_eq_true, if_false]
    rw [uniqueLoop]; simp [hashMod2, i, bucketContains]
    rw [uniqueLoop]; simp [hashMod2, bucketContains]
    rw [uniqueLoop]; simp
  rw [h]; decide

/-- **C14, Unique, degenerate inputs.** `len(list) == 0` returns nil. -/
theorem unique_empty (useMap : Bool) (π : List Val → List Val) (hash : Val → Res UInt64)
    (eq : Val → Val → Res Bool) :
    unique useMap π hash eq none = .ok (none, none) ∧
    unique useMap π hash eq (some []) = .ok (none, some []) := ⟨rfl, rfl⟩

example : unique true id (fun _ => .panic) (fun _ _ => .panic) (some []) = .ok (none, some []) :=
  (unique_empty _ _ _ _).2

/-- **C14, Unique on `==`-comparable elements (`keys(set(list))`).** Whatever order the map is
iterated in, the result is a set of representatives of the input modulo `==`, and the input is left
as it was. -/
theorem unique_map_spec (π : List Val → List Val) (hπ : ∀ l, (π l).Perm l) (hash : Val → Res UInt64)
    (eq : Val → Val → Res Bool) (xs : List Val) (hne : xs ≠ []) (h : Spec.EquivOn goEq xs) :
    ∃ out, unique true π hash eq (some xs) = .ok (some out, some xs) ∧ Spec.IsSetOf goEq xs out := by
  cases xs with
  | nil => exact absurd rfl hne
  | cons x r =>
    refine ⟨π (Lists.set (some (x :: r))), by simp [unique], ?_⟩
    exact isSetOf_perm (set_spec (x :: r) h) (hπ _).symm h.symm

example : ∃ out, unique true List.reverse (fun _ => .panic) (fun _ _ => .panic) (some [i 1, i 2, i 1]) =
    .ok (some out, some [i 1, i 2, i 1]) ∧ Spec.IsSetOf goEq [i 1, i 2, i 1] out :=
  unique_map_spec List.reverse List.reverse_perm _ _ _ (by simp)
    (goEq_equiv_ints _ (by simp [i]))

/-! ### 3. Set, Union, Intersect -/

/-- **C14, Set.** The keys of the returned map are a set of representatives of the list modulo `==`. -/
theorem set_spec (list : Sl) (h : Spec.EquivOn goEq list.elems) :
    Spec.IsSetOf goEq list.elems (Lists.set list) := by
  cases list with
  | none => exact ⟨by simp [Sl.elems], by simp [Lists.set, Sl.elems], by simp [Lists.set, Sl.elems]⟩
  | some xs => exact Lists.set_spec xs h

example : Spec.IsSetOf goEq [i 3, i 1, i 3] (Lists.set (some [i 3, i 1, i 3])) :=
  set_spec (some [i 3, i 1, i 3]) (goEq_equiv_ints _ (by simp [i, Sl.elems]))
example : Lists.set (some [i 3, i 1, i 3]) = [i 3, i 1] := by decide

/-- **C14, Union of lists.** First list as it is, then the new items of the second, each once, in
order of first occurrence. -/
theorem union_list_spec (eq : Val → Val → Res Bool) (e : Val → Val → Bool) (this that : Sl)
    (heq : ∀ a ∈ this.elems ++ that.elems, ∀ b ∈ this.elems ++ that.elems, eq a b = .ok (e a b)) :
    ∃ out, unionList eq this that = .ok out ∧ out.elems = Spec.unionBy e this.elems that.elems :=
  unionList_spec eq e this that heq

example : ∃ out, unionList eqInt (some [i 1, i 2]) (some [i 2, i 3, i 3, i 1]) = .ok out ∧
    out.elems = [i 1, i 2, i 3] := by
  obtain ⟨out, h1, h2⟩ := union_list_spec eqInt goEq (some [i 1, i 2]) (some [i 2, i 3, i 3, i 1])
    (fun _ _ _ _ => rfl)
  exact ⟨out, h1, by rw [h2]; decide⟩

/-- the union is the mathematical union: membership modulo Equal -/
theorem union_list_mem (e : Val → Val → Bool) (this that : List Val) (hrefl : ∀ x ∈ that, e x x = true) (x : Val) :
    (x ∈ this ∨ x ∈ that) → ∃ y ∈ Spec.unionBy e this that, y = x ∨ e y x = true := by
  rintro (hx | hx)
  · exact ⟨x, by simp [Spec.unionBy, hx], Or.inl rfl⟩
  · by_cases hin : Spec.containsBy e this x = true
    · obtain ⟨y, hy, hyx⟩ := List.any_eq_true.mp hin
      exact ⟨y, by simp [Spec.unionBy, hy], Or.inr hyx⟩
    · have hmem : x ∈ that.filter (fun v => !Spec.containsBy e this v) := by
        simp [List.mem_filter, hx, hin]
      have hset := dedupFirst_isSetOf e (that.filter (fun v => !Spec.containsBy e this v))
        (fun z hz => hrefl z (List.mem_filter.mp hz).1)
      obtain ⟨y, hy, hyx⟩ := hset.covers x hmem
      exact ⟨y, by simp [Spec.unionBy, hy], Or.inr hyx⟩

example : ∃ y ∈ Spec.unionBy goEq [i 1] [i 2], y = i 2 ∨ goEq y (i 2) = true :=
  union_list_mem goEq [i 1] [i 2] (by decide) (i 2) (Or.inr (by simp))

/-- **C14, Intersect of lists.** The elements of the first list that have an Equal element in the
second, in the first list's order; never nil. -/
theorem intersect_list_spec (eq : Val → Val → Res Bool) (e : Val → Val → Bool) (this that : Sl)
    (heq : ∀ a ∈ that.elems, ∀ b ∈ this.elems, eq a b = .ok (e a b)) :
    intersectList eq this that = .ok (some (this.elems.filter (fun v => that.elems.any (fun w => e w v)))) :=
  intersectList_spec eq e this that heq

example : intersectList eqInt (some [i 1, i 2, i 3]) (some [i 3, i 1]) = .ok (some [i 1, i 3]) := by
  rw [intersect_list_spec eqInt goEq _ _ (fun _ _ _ _ => rfl)]; decide

/-- **C14, Union of maps.** The result holds exactly the keys of both maps modulo `==`, each once; it
is the first map itself (written in place) unless that is nil; nil only for nil ∪ empty. -/
theorem union_map_spec (π : List Val → List Val) (hπ : ∀ l, (π l).Perm l)
    (this that : Option (List Val))
    (h : Spec.EquivOn goEq (this.getD [] ++ that.getD []))
    (hd : (this.getD []).Pairwise (fun a b => goEq a b = false)) :
    ∃ out, unionMap π this that = .ok (out, if this.isSome then out else none) ∧
      Spec.IsSetOf goEq (this.getD [] ++ that.getD []) (out.getD []) ∧
      (out = none ↔ this = none ∧ that.getD [] = []) := by
  have hmemπ : ∀ x, x ∈ π (that.getD []) ↔ x ∈ that.getD [] := fun x => (hπ _).mem_iff
  -- the loop from a (possibly fresh) non-nil map `u`
  have key : ∀ u : List Val, u = this.getD [] →
      Spec.IsSetOf goEq (this.getD [] ++ that.getD [])
        ((π (that.getD [])).foldl (fun m v => setInsert v m) u) := by
    intro u hu
    obtain ⟨f1, f2, f3⟩ := setFold_props (this.getD [] ++ that.getD []) h (π (that.getD [])) u
      (by intro y hy; simp [← hu, hy]) (by intro y hy; simp [(hmemπ y).mp hy]) (by rw [hu]; exact hd)
    refine ⟨?_, ?_, f3⟩
    · intro x hx
      apply f2
      rcases List.mem_append.mp hx with hx | hx
      · simp [hu, hx]
      · simp [(hmemπ x).mpr hx]
    · intro y hy
      rcases f1 y hy with hy | hy
      · simp [← hu, hy]
      · simp [(hmemπ y).mp hy]
  cases this with
  | some u =>
    refine ⟨some ((π (that.getD [])).foldl (fun m v => setInsert v m) u), ?_, key u rfl, by simp⟩
    simp [unionMap, unionMapLoop_eq]
  | none =>
    by_cases hlen : (that.getD []).length > 0
    · refine ⟨some ((π (that.getD [])).foldl (fun m v => setInsert v m) []), ?_, key [] rfl, ?_⟩
      · simp [unionMap, hlen, unionMapLoop_eq]
      · simp; intro hnil; simp [hnil] at hlen
    · have hnil : that.getD [] = [] := List.eq_nil_of_length_eq_zero (by omega)
      refine ⟨none, by simp [unionMap, hnil], ?_, by simp [hnil]⟩
      simp only [Option.getD_none, hnil, List.append_nil]
      exact ⟨by simp, by simp, by simp⟩

example : ∃ out, unionMap id (some [i 1, i 2]) (some [i 2, i 3]) = .ok (out, out) ∧
    Spec.IsSetOf goEq [i 1, i 2, i 2, i 3] (out.getD []) := by
  obtain ⟨out, h1, h2, _⟩ := union_map_spec id (fun _ => List.Perm.refl _) (some [i 1, i 2]) (some [i 2, i 3])
    (goEq_equiv_ints _ (by simp [i])) (by decide)
  exact ⟨out, h1, h2⟩
example : unionMap id none (some [i 2]) = .ok (some [i 2], none) := by decide

/-- **C14, Intersect of maps.** A fresh map holding exactly the keys of the first map that are (`==`)
keys of the second. -/
theorem intersect_map_spec (π : List Val → List Val) (hπ : ∀ l, (π l).Perm l)
    (this that : Option (List Val)) (h : Spec.EquivOn goEq (this.getD [])) :
    Spec.IsSetOf goEq ((this.getD []).filter (fun k => hasKey k (that.getD [])))
      (intersectMap π this that) := by
  unfold intersectMap
  rw [condFold_eq_filter]
  have hsub : ∀ y ∈ (π (this.getD [])).filter (fun k => hasKey k (that.getD [])), y ∈ this.getD [] :=
    fun y hy => (hπ _).subset (List.mem_filter.mp hy).1
  obtain ⟨f1, f2, f3⟩ := setFold_props (this.getD []) h
    ((π (this.getD [])).filter (fun k => hasKey k (that.getD []))) [] (by simp) hsub (by simp)
  have hmem : ∀ x, x ∈ (π (this.getD [])).filter (fun k => hasKey k (that.getD [])) ↔
      x ∈ (this.getD []).filter (fun k => hasKey k (that.getD [])) := by
    intro x; simp only [List.mem_filter, (hπ _).mem_iff]
  refine ⟨?_, ?_, f3⟩
  · intro x hx; exact f2 x (by simpa using (hmem x).mpr hx)
  · intro y hy; exact (hmem y).mp (by simpa using f1 y hy)

example : Spec.IsSetOf goEq [i 2] (intersectMap id (some [i 1, i 2]) (some [i 2, i 3])) :=
  intersect_map_spec id (fun _ => List.Perm.refl _) (some [i 1, i 2]) (some [i 2, i 3])
    (goEq_equiv_ints _ (by simp [i]))

/-! ### 4. Filter, TakeWhile, All, Any -/

/-- **C14, Filter, any predicate.** The in-place compaction loop calls the predicate on the elements
in order, once each (`Spec.filterM` threads the oracle exactly so), returns the kept elements, and
leaves in the input array the kept elements followed by the array's own untouched tail. -/
theorem filter_spec {σ : Type} (p : Fn σ Bool) (xs : List Val) (s : σ) :
    filter p (some xs) s =
      .ok ((some (Spec.filterM p xs s).1,
            some ((Spec.filterM p xs s).1 ++ xs.drop (Spec.filterM p xs s).1.length)),
           (Spec.filterM p xs s).2) := by
  have := filterLoop_spec p xs [] [] s
  simp only [List.nil_append, List.length_nil, Nat.add_zero, Nat.zero_add] at this
  simp [filter, this]

/-- **C14, Filter, pure predicate with a call log**: the textbook `List.filter`, log = the input. -/
theorem filter_logged (f : Val → Bool) (xs log : List Val) :
    filter (logged f) (some xs) log =
      .ok ((some (xs.filter f), some (xs.filter f ++ xs.drop (xs.filter f).length)), log ++ xs) := by
  rw [filter_spec, filterM_logged]

example : filter (logged isPos) (some [i 1, i (-2), i 3]) [] =
    .ok ((some [i 1, i 3], some [i 1, i 3, i 3]), [i 1, i (-2), i 3]) := by
  rw [filter_logged]; decide

/-- a nil list stays nil and the predicate is not called -/
theorem filter_nil {σ : Type} (p : Fn σ Bool) (s : σ) : filter p none s = .ok ((none, none), s) := rfl

example : filter (logged isPos) none [] = .ok ((none, none), []) := filter_nil _ _

/-- **C14, TakeWhile.** The longest prefix on which the predicate holds, as a fresh non-nil slice;
the predicate is called in order up to and including the first failing element. -/
theorem takewhile_spec {σ : Type} (p : Fn σ Bool) (list : Sl) (s : σ) :
    takeWhile p list s = (some (Spec.takeWhileM p list.elems s).1, (Spec.takeWhileM p list.elems s).2) := by
  simp [takeWhile, takeWhileLoop_eq]

theorem takewhile_logged (f : Val → Bool) (list : Sl) (log : List Val) :
    takeWhile (logged f) list log = (some (list.elems.takeWhile f), log ++ callsUntil f false list.elems) := by
  rw [takewhile_spec, takeWhileM_logged]

example : takeWhile (logged isPos) (some [i 1, i 2, i (-3), i 4]) [] =
    (some [i 1, i 2], [i 1, i 2, i (-3)]) := by
  rw [takewhile_logged]; decide

/-- **C14, All.** -/
theorem all_spec {σ : Type} (p : Fn σ Bool) (xs : List Val) (s : σ) : all p xs s = Spec.allM p xs s :=
  all_eq_allM p xs s

theorem all_logged (f : Val → Bool) (xs log : List Val) :
    all (logged f) xs log = (xs.all f, log ++ callsUntil f false xs) := by
  rw [all_spec, allM_logged]

example : all (logged isPos) [i 1, i (-2), i 3] [] = (false, [i 1, i (-2)]) := by
  rw [all_logged]; decide

/-- **C14, Any.** -/
theorem any_spec {σ : Type} (p : Fn σ Bool) (xs : List Val) (s : σ) : any p xs s = Spec.anyM p xs s :=
  any_eq_anyM p xs s

theorem any_logged (f : Val → Bool) (xs log : List Val) :
    any (logged f) xs log = (xs.any f, log ++ callsUntil f true xs) := by
  rw [any_spec, anyM_logged]

example : any (logged isPos) [i (-1), i 2, i 3] [] = (true, [i (-1), i 2]) := by
  rw [any_logged]; decide

/-- the scripted oracle of the correspondence runs is an instance: the k-th call gets bit k -/
theorem filter_scripted (bits : List Bool) (xs : List Val) :
    filter (Script.call false) (some xs) { script := bits } =
      .ok ((some (Spec.filterM (Script.call false) xs { script := bits }).1,
            some ((Spec.filterM (Script.call false) xs { script := bits }).1 ++
              xs.drop (Spec.filterM (Script.call false) xs { script := bits }).1.length)),
           (Spec.filterM (Script.call false) xs { script := bits }).2) :=
  filter_spec _ _ _

example : (Spec.filterM (Script.call false) [i 1, i 2, i 3] { script := [true, false, true] }).1 = [i 1, i 3] := by
  decide

end Goderive.C14
