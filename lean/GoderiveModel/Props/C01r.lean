/-
C01 (helper-request part) — "every helper a generated function calls is itself generated exactly once",
for the CONCRETE request relation of the plugins equal, compare, hash, deepcopy, clone (and keys / sort,
which compare and hash ask for).

Model: `G/Requests.lean`. `requests pl env T` lists the `GetFuncName` calls plugin `pl` makes while it
generates the function for the argument type `T`; `closure env init` is the emission list of the work list
of `G/Worklist` (`Worklist.run`, the loop of `pkg.Generate` with its plugin order and snapshot semantics)
instantiated with this relation and started from the user's calls `init`. The theorems of `Props/C01.lean`
are used by instantiation; what is added here is (a) the finite key universe `keyUniverse env init` — every
plugin at every type that occurs in the calls or the declarations, a pointer to such a type, or a slice of
it — is closed under `requests`, which makes `|keyUniverse| + 1` a sufficient fuel (no hypothesis left), and
(b) the statement in terms of keys `(plugin, type)` instead of numeric codes.

All statements are full strength for the model. Tie to the implementation: `vlib/requests.py` (real
goderive on isolated one-call packages and on the shared corpus packages; `reqobserve`; driver ops `reqs`,
`req1`). Not modelled here: names (C11/C12), the assignability fallback of `nameOf` (keys are compared by
identity; see the header of `G/Requests.lean`).
-/
import GoderiveModel.Props.C01
import GoderiveModel.Lemmas.Requests

namespace Goderive.C01r
open Goderive Goderive.G Goderive.G.Requests

/-! ## Example environment

`0: S1 = struct{int; string}` (comparable), `1: R1 = struct{int; *R1}` (recursive), `2: NSl = []int`,
`3: W = struct{S1; NSl; map[S1]int; *R1}`. -/
namespace Ex
def int : Ty := .basic (.int 64 true)
def env : Env := { decls := [
  { under := .struct (.fcons int (.fcons (.basic .string) .fnil)), canEq := true, canEqM := true },
  { under := .struct (.fcons int (.fcons (.ptr (.named 1)) .fnil)) },
  { under := .slice int },
  { under := .struct (.fcons (.named 0) (.fcons (.named 2) (.fcons (.map (.named 0) int) (.fcons (.ptr (.named 1)) .fnil)))) } ] }
end Ex

/-! ## 1. The key universe bounds the run -/

/-- The universe contains the user's calls and is closed under the helper requests of every plugin: a
requested type is a type occurring in the calls or declarations, a pointer to one (struct values are
handled through a pointer; clone of a value) or the slice of a map's key type (the sorted key list). -/
theorem requests_closed (env : Env) (init : List Key) :
    (∀ k ∈ init, k ∈ keyUniverse env init) ∧
    (∀ k ∈ keyUniverse env init, ∀ r ∈ requests k.1 env k.2, r ∈ keyUniverse env init) :=
  ⟨init_sub_keyUniverse env init, closedU_keyUniverse env init⟩

/-- equal of `*W` asks for `*S1`? no: `S1` is comparable (`==`); it asks for the helpers of the named slice,
the map and the recursive struct -/
example : requests .equal Ex.env (.ptr (.named 3)) =
    [(.equal, .named 2), (.equal, .map (.named 0) Ex.int), (.equal, .ptr (.named 1))] := by decide
/-- compare of a map asks the sort and keys plugins (cross-plugin requests) -/
example : requests .compare Ex.env (.map (.named 0) Ex.int) =
    [(.sort, .slice (.named 0)), (.keys, .map (.named 0) Ex.int), (.compare, Ex.int), (.compare, .ptr (.named 0))] := by
  decide

/-- every reachable key is in the universe -/
theorem reach_in_universe {env : Env} {init : List Key} {k : Key} (h : ReachK env init k) :
    k ∈ keyUniverse env init :=
  reachK_mem (closedU_keyUniverse env init) (init_sub_keyUniverse env init) h

example : ReachK Ex.env [(.compare, .map (.named 0) Ex.int)] (.compare, .named 0) :=
  .step (.step (.init (k := (.compare, .map (.named 0) Ex.int)) (by decide))
    (r := (.sort, .slice (.named 0))) (by decide)) (by decide)

/-- The loop `for !pkg.Done()` over the concrete requests terminates: the fuel `|keyUniverse| + 1` of
`closureState` is sufficient, whatever the calls and the declarations (instance of `C01.run_terminates`). -/
theorem closure_terminates (env : Env) (init : List Key) : closureState env init ≠ none := by
  have hc := closedU_keyUniverse env init
  have hi := init_sub_keyUniverse env init
  have h := C01.run_terminates (req := reqC env (keyUniverse env init)) (P := numPlugins)
    (init := init.map (enc (keyUniverse env init))) (U := (keyUniverse env init).map (enc (keyUniverse env init)))
    (fun c hc' => by
      obtain ⟨k, _, rfl⟩ := List.mem_map.1 hc'
      exact Plugin.idx_lt _)
    (reqC_bound)
    (fun c hr => by
      obtain ⟨k, hk, rfl⟩ := reach_dec hc hi hr
      exact List.mem_map.2 ⟨k, reachK_mem hc hi hk, rfl⟩)
  simpa [closureState, closureStateU] using h

example : (closureState Ex.env [(.equal, .ptr (.named 1))]).isSome = true := by decide +kernel

/-! ## 2. The generated functions are exactly the needed ones, each once -/

/-- the final state of the run, with the properties `C01.run_sound` gives it -/
theorem closure_state (env : Env) (init : List Key) :
    ∃ s, closureState env init = some s ∧ closure env init = emittedKeys (keyUniverse env init) s ∧
      (∀ c, c ∈ s.keys ↔ Worklist.Reach (reqC env (keyUniverse env init)) (init.map (enc (keyUniverse env init))) c) ∧
      (∀ c ∈ s.keys, c ∈ s.emitted) ∧ s.emitted.Nodup ∧ s.keys.Nodup ∧ s.emitted.Perm s.keys := by
  cases h : closureState env init with
  | none => exact absurd h (closure_terminates env init)
  | some s =>
    refine ⟨s, rfl, by simp [closure, h], ?_⟩
    exact C01.run_sound (by simpa [closureState, closureStateU] using h)

example : (closureState Ex.env [(.compare, .map (.named 0) Ex.int)]).map (fun s => (s.keys.length, s.emitted.length)) =
    some (6, 6) := by decide +kernel

/-- `generated_eq_closure`: the emission list of the run is exactly the set of keys reachable from the
user's calls through the helper requests — nothing missing, nothing extra — and no key occurs twice. -/
theorem generated_eq_closure (env : Env) (init : List Key) :
    (∀ k, k ∈ closure env init ↔ ReachK env init k) ∧ (closure env init).Nodup := by
  have hc := closedU_keyUniverse env init
  have hi := init_sub_keyUniverse env init
  obtain ⟨s, _, hcl, hkeys, hgen, hnd, _, hperm⟩ := closure_state env init
  -- every emitted code is the code of a reachable key
  have hcode : ∀ c ∈ s.emitted, ∃ k, ReachK env init k ∧ c = enc (keyUniverse env init) k :=
    fun c hc' => reach_dec hc hi ((hkeys c).1 (hperm.subset hc'))
  rw [hcl]
  constructor
  · intro k
    simp only [emittedKeys, List.mem_filterMap]
    constructor
    · rintro ⟨c, hc', hd⟩
      obtain ⟨k', hk', rfl⟩ := hcode c hc'
      rw [dec_enc (reachK_mem hc hi hk')] at hd
      cases hd; exact hk'
    · intro hk
      exact ⟨enc _ k, hgen _ ((hkeys _).2 (reach_enc hc hi hk)), dec_enc (reachK_mem hc hi hk)⟩
  · refine filterMap_nodup_of_injOn ?_ hnd
    intro c hc' c' hc'' b hb hb'
    obtain ⟨k, hk, rfl⟩ := hcode c hc'
    obtain ⟨k', hk', rfl⟩ := hcode c' hc''
    rw [dec_enc (reachK_mem hc hi hk)] at hb
    rw [dec_enc (reachK_mem hc hi hk')] at hb'
    cases hb; cases hb'; rfl

/-- the self-request of the recursive struct resolves to the one function being generated -/
example : closure Ex.env [(.equal, .ptr (.named 1))] = [(.equal, .ptr (.named 1))] := by decide +kernel
/-- compare of `map[S1]int`: helpers of three plugins, in the emission order of the loop (round 1: compare,
keys, sort in plugin order; round 2: what they asked for; …) -/
example : closure Ex.env [(.compare, .map (.named 0) Ex.int)] =
    [(.compare, .map (.named 0) Ex.int), (.keys, .map (.named 0) Ex.int), (.sort, .slice (.named 0)),
     (.compare, Ex.int), (.compare, .ptr (.named 0)), (.compare, .named 0)] := by decide +kernel

/-- Exactly once, nothing else: a needed key occurs once in the emission list, any other key not at all. -/
theorem closure_exactly_once (env : Env) (init : List Key) (k : Key) :
    (ReachK env init k → (closure env init).count k = 1) ∧
    (¬ ReachK env init k → (closure env init).count k = 0) := by
  obtain ⟨hm, hnd⟩ := generated_eq_closure env init
  rw [hnd.count]
  exact ⟨fun h => by rw [if_pos ((hm k).2 h)], fun h => by rw [if_neg fun h' => h ((hm k).1 h')]⟩

/-- `compare(int)` is requested by the map's function and by `compare(*S1)`: one function; hash was not asked for -/
example : (closure Ex.env [(.compare, .map (.named 0) Ex.int)]).count (.compare, Ex.int) = 1 ∧
    (closure Ex.env [(.compare, .map (.named 0) Ex.int)]).count (.hash, Ex.int) = 0 := by decide +kernel

/-- Every helper a generated function calls is itself generated (the C01 clause, for the concrete plugins). -/
theorem closure_requests_resolved (env : Env) (init : List Key) :
    ∀ k ∈ closure env init, ∀ r ∈ requests k.1 env k.2, r ∈ closure env init := by
  obtain ⟨hm, _⟩ := generated_eq_closure env init
  exact fun k hk r hr => (hm r).2 (.step ((hm k).1 hk) hr)

example : ∀ k ∈ closure Ex.env [(.hash, .ptr (.named 3))], ∀ r ∈ requests k.1 Ex.env k.2,
    r ∈ closure Ex.env [(.hash, .ptr (.named 3))] := closure_requests_resolved _ _

/-- every user call is generated -/
theorem closure_contains_calls (env : Env) (init : List Key) : ∀ k ∈ init, k ∈ closure env init :=
  fun k hk => ((generated_eq_closure env init).1 k).2 (.init hk)

example : (.clone, .named 3) ∈ closure Ex.env [(.clone, .named 3)] := closure_contains_calls _ _ _ (by decide)

/-- The functions of a package are the union of what its calls need one by one (the tie uses this for
packages with many calls). -/
theorem closure_union (env : Env) (a b : List Key) (k : Key) :
    k ∈ closure env (a ++ b) ↔ k ∈ closure env a ∨ k ∈ closure env b := by
  rw [(generated_eq_closure env (a ++ b)).1, (generated_eq_closure env a).1, (generated_eq_closure env b).1]
  constructor
  · intro h
    induction h with
    | init hk => exact (List.mem_append.1 hk).elim (fun h => Or.inl (.init h)) (fun h => Or.inr (.init h))
    | step _ hr ih => exact ih.elim (fun h => Or.inl (.step h hr)) (fun h => Or.inr (.step h hr))
  · rintro (h | h)
    · induction h with
      | init hk => exact .init (List.mem_append_left _ hk)
      | step _ hr ih => exact .step ih hr
    · induction h with
      | init hk => exact .init (List.mem_append_right _ hk)
      | step _ hr ih => exact .step ih hr

example : (.equal, .named 2) ∈ closure Ex.env ([(.hash, Ex.int)] ++ [(.equal, .ptr (.named 3))]) :=
  (closure_union _ _ _ _).2 (Or.inr (by decide +kernel))

/-- at most one function per key of the universe -/
theorem closure_length_le (env : Env) (init : List Key) :
    (closure env init).length ≤ (keyUniverse env init).length := by
  obtain ⟨hm, hnd⟩ := generated_eq_closure env init
  exact hnd.length_le_of_subset fun k hk => reach_in_universe ((hm k).1 hk)

example : (closure Ex.env [(.equal, .ptr (.named 3))]).length = 4 := by decide +kernel

/-! ## 3. Shape facts used by the tie -/

/-- The curried one-argument entries make the same requests as the two-argument ones, always to the
two-argument table; keys asks for nothing; nobody asks for a curried function or for clone. -/
theorem request_targets (env : Env) (pl : Plugin) (T : Ty) :
    requests .equalC env T = requests .equal env T ∧ requests .compareC env T = requests .compare env T ∧
    requests .keys env T = [] ∧
    ∀ r ∈ requests pl env T, r.1.idx < numPlugins := by
  exact ⟨rfl, rfl, rfl, fun r _ => Plugin.idx_lt r.1⟩

example : requests .equalC Ex.env (.ptr (.named 3)) = requests .equal Ex.env (.ptr (.named 3)) :=
  (request_targets Ex.env .equal _).1

end Goderive.C01r
