/-
  C10 — User source files are left intact.

  Model: G/Rewrite (effects of one pass over a package; byte-level open/write). The open flags and the
  list of file-system call sites are the REGENERATED facts of Generated/Facts.lean: a change of the flags
  or a new file-system call in the source changes that file and the theorems below are re-checked.
  The instance of pkg.Add used for the no-flags theorem is SetFuncName of G/Determinism.

  Trusted parameters (partial): go/format and the parser (what bytes `format.Node` produces for the
  substituted AST) — exercised by the rewrite oracle of the C10 check; the kernel's open/write semantics as
  modelled by `applyWrite`; that the loader and gotool only read (strace of every run).
-/
import GoderiveModel.G.Rewrite
import GoderiveModel.G.Determinism
import GoderiveModel.Generated.Facts

namespace Goderive.C10
open Goderive.G.Rewrite Goderive.G.Determinism

/-! ### the facts the model rests on -/

/-- Every call site into os / io/ioutil / os/exec / syscall / go/format / FS-touching path/filepath in
main.go, derive/, plugin/. A new call site (or other flags) breaks this theorem. -/
theorem fs_call_sites_expected : Generated.fsCallSites =
    ["derive/generate.go:(*pkg).Delete:os.Remove:",
     "derive/generate.go:(*pkg).Delete:os.Stat:",
     "derive/generate.go:(*pkg).Print:(*os.File).Close:",
     "derive/generate.go:(*pkg).Print:os.Create:",
     "derive/generate.go:importedFirst:filepath.Abs:",
     "derive/generate.go:newPackage:(*os.File).Close:",
     "derive/generate.go:newPackage:filepath.Abs:",
     "derive/generate.go:newPackage:format.Node:",
     "derive/generate.go:newPackage:os.OpenFile:os.O_WRONLY | os.O_TRUNC",
     "derive/generate.go:newPackage:os.Stat:",
     "derive/typesmap.go:(*typesMap).FieldStrings:format.Source:"] := by decide

/-- callees that cannot create, modify or delete a file-system object -/
def readOnlyCallees : List String :=
  ["os.Stat", "os.Lstat", "filepath.Abs", "(*os.File).Close", "format.Node", "format.Source"]

/-- The call sites that can change the file system are exactly the three operations of the model:
`FsOp.remove` (Delete), `FsOp.create` (Print), `FsOp.rewrite` (newPackage). -/
theorem source_mutators_are_the_modelled_ops :
    (Generated.fsCalls.filter (fun c => !readOnlyCallees.contains c.callee)).map (fun c => (c.function, c.callee)) =
      [("(*pkg).Delete", "os.Remove"), ("(*pkg).Print", "os.Create"), ("newPackage", "os.OpenFile")] := by decide

/-- Calls into x/tools' loader and gotool: assumed read-only (checked by strace on every run of the check). -/
theorem external_calls_expected : Generated.externalCalls =
    ["derive/generate.go:(*program).Generate:(*golang.org/x/tools/go/loader.Program).InitialPackages",
     "derive/generate.go:(*program).generatePackage:(*golang.org/x/tools/go/loader.Program).Package",
     "derive/gotool.go:ImportPaths:gotool.ImportPaths",
     "derive/load.go:load:(*golang.org/x/tools/go/loader.Config).FromArgs",
     "derive/load.go:load:(*golang.org/x/tools/go/loader.Config).Load"] := by decide

theorem facts_complete : Generated.typeCheckErrors = [] := by decide

/-! ### the rewrite replaces the whole file -/

/-- Given the flags the source passes to os.OpenFile NOW, the file after the rewrite is exactly the new bytes. -/
theorem rewrite_is_whole_file (old new : Bytes) :
    "O_TRUNC" ∈ Generated.rewriteOpenFlags → applyWrite old new Generated.rewriteOpenFlags = new :=
  fun h => applyWrite_trunc h

/-- …and the premise holds for the current source. -/
theorem rewrite_truncates : "O_TRUNC" ∈ Generated.rewriteOpenFlags := by decide

theorem rewrite_content (old new : Bytes) : applyWrite old new Generated.rewriteOpenFlags = new :=
  rewrite_is_whole_file old new rewrite_truncates

example : applyWrite [1, 2, 3, 4, 5] [9, 9] Generated.rewriteOpenFlags = [9, 9] := by decide

/-- Without O_TRUNC a shorter rewrite leaves the tail of the old contents (the defect repaired by ecafaa6:
dropping the flag again makes `rewrite_truncates` fail). -/
theorem rewrite_leftover_witness (old new : Bytes) (flags : List String) (h : "O_TRUNC" ∉ flags)
    (hlen : new.length < old.length) : applyWrite old new flags ≠ new :=
  applyWrite_leftover h hlen

example : applyWrite [1, 2, 3, 4, 5] [9, 9] ["O_WRONLY"] = [9, 9, 3, 4, 5] := by decide

/-- …and is invisible when the new text is not shorter (equal / longer names). -/
theorem rewrite_not_shorter_any_flags (old new : Bytes) (flags : List String) (hlen : old.length ≤ new.length) :
    applyWrite old new flags = new := applyWrite_not_shorter hlen

example : applyWrite [1, 2] [9, 9, 9] ["O_WRONLY"] = [9, 9, 9] := by decide

/-! ### which files are touched -/

section
variable {Ty : Type} (ident assign : List Ty → List Ty → Bool)

/-- pkg.Add for one plugin table, built from SetFuncName (G/Determinism); `accepts` stands for the plugin's
own Add checks (arity, argument kinds), `isCall` for the prefix dispatch. -/
def addTM (autoname dedup : Bool) (fresh : TM Ty → List Ty → String) (isCall : String → Bool)
    (accepts : CallIn Ty → Bool) : AddFn (TM Ty) Ty := fun tm c =>
  if !isCall c.name then some (none, tm)
  else if !accepts c then none
  else match setFuncName ident assign autoname dedup fresh tm c.name c.typs with
    | .ok n tm' => some (some n, tm')
    | .err _ => none

theorem addTM_noRename (fresh : TM Ty → List Ty → String) (isCall : String → Bool) (accepts : CallIn Ty → Bool) :
    NoRename (addTM ident assign false false fresh isCall accepts) := by
  intro tm c n tm' h
  unfold addTM at h
  split at h
  · simp at h
  · split at h
    · simp at h
    · split at h
      · next n0 tm0 hs =>
        simp only [Option.some.injEq, Prod.mk.injEq] at h
        obtain ⟨rfl, _⟩ := h
        exact setFuncName_noflags ident assign fresh tm tm0 c.name n0 c.typs hs
      · simp at h

/-- Without -autoname and -dedup every file-system effect of a pass — whether it ends in an Add error, a
generator error, with content or without — targets derived.gen.go. -/
theorem no_flags_only_derived (fresh : TM Ty → List Ty → String) (isCall : String → Bool)
    (accepts : CallIn Ty → Bool) (derived : String) (tm : TM Ty) (files : List (FileIn Ty)) (gen : GenOutcome) :
    ∀ op ∈ effects (addTM ident assign false false fresh isCall accepts) Generated.rewriteOpenFlags derived tm files gen,
      op.path = derived := by
  intro op hop
  unfold effects at hop
  simp only [newPackage_no_ops (addTM_noRename ident assign fresh isCall accepts)] at hop
  split at hop
  · simp at hop
  · simp only [List.nil_append] at hop
    cases gen with
    | error => simp [afterGenerate] at hop
    | content => simp [afterGenerate] at hop; subst hop; rfl
    | empty b => cases b <;> simp [afterGenerate] at hop; subst hop; rfl

end

/-- With any flags: an effect on a file other than derived.gen.go is the rewrite of a user file in which some
call was registered under a different name, with the flags of the fact file. -/
theorem rewrite_only_changed {σ Ty : Type} (add : AddFn σ Ty) (derived : String) (s : σ)
    (files : List (FileIn Ty)) (gen : GenOutcome) :
    ∀ op ∈ effects add Generated.rewriteOpenFlags derived s files gen, op.path ≠ derived →
      ∃ f ∈ files, op = .rewrite f.path Generated.rewriteOpenFlags ∧
        ∃ s0 pairs s1, addCalls add s0 f.calls = some (pairs, s1) ∧ ∃ p ∈ pairs, p.1 ≠ p.2 := by
  intro op hop hne
  unfold effects at hop
  have key : op ∈ (newPackage add Generated.rewriteOpenFlags s files).1 := by
    split at hop
    · exact hop
    · rcases List.mem_append.1 hop with h | h
      · exact h
      · exfalso
        cases gen with
        | error => simp [afterGenerate] at h
        | content => simp [afterGenerate] at h; subst h; exact hne rfl
        | empty b => cases b <;> simp [afterGenerate] at h; subst h; exact hne rfl
  exact newPackage_rewrites _ files s op key

/-! ### non-vacuity: a concrete package with a duplicate (two names for one argument type) -/

def exIdent : List Nat → List Nat → Bool := fun a b => a == b
def exFiles : List (FileIn Nat) :=
  [⟨"a.go", [⟨"deriveEqual", [1, 1]⟩]⟩, ⟨"b.go", [⟨"deriveEqualAgain", [1, 1]⟩, ⟨"notACall", []⟩]⟩]
def exAdd (autoname dedup : Bool) : AddFn (TM Nat) Nat :=
  addTM exIdent exIdent autoname dedup (fun _ _ => "deriveEqual_") (fun n => n != "notACall") (fun _ => true)

/-- no flags: the duplicate is an Add error, nothing at all is touched -/
example : effects (exAdd false false) Generated.rewriteOpenFlags "derived.gen.go" ⟨[], []⟩ exFiles .content = [] := by decide

/-- -dedup: b.go (and only b.go) is rewritten, then derived.gen.go is written -/
example : effects (exAdd false true) Generated.rewriteOpenFlags "derived.gen.go" ⟨[], []⟩ exFiles .content =
    [.rewrite "b.go" ["O_WRONLY", "O_TRUNC"], .create "derived.gen.go"] := by decide

/-- a package without derive calls whose stale derived.gen.go is removed -/
example : effects (exAdd false false) Generated.rewriteOpenFlags "derived.gen.go" ⟨[], []⟩
    [⟨"a.go", [⟨"notACall", []⟩]⟩] (.empty true) = [.remove "derived.gen.go"] := by decide

end Goderive.C10
