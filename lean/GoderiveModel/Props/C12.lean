/-
C12 — prefix customisation only renames.

Model: `G/Prefix.lean` (`pluginLess` = the comparison of `sortPlugins`, `SortContract` = what
`sort.Slice` guarantees, `dispatch` = the first-match loop of `pkg.Add`, `rho` = `-prefix`,
`effectivePrefix` = `-pluginprefix`, `defaultPlugins` = the table of main.go, compared with the source
by the check on every run) and `G/TypesMap.lean` (the name table).

The statements about whole generated FILES (textual equality of derived.gen.go) need a model of every
plugin's emitter and are carried by the tie T2 of the check; what is proved here is the part of the
pipeline in which prefixes act: plugin order, dispatch, and every operation of the name table.
-/
import GoderiveModel.G.TypesMap
import GoderiveModel.Lemmas.Prefix
import GoderiveModel.Lemmas.TypesMap

namespace Goderive.C12
open Goderive.G

set_option linter.unusedSectionVars false

/-! ## `sortPlugins` is canonical -/

/-- contract of `sort.Slice(ps, less)` on plugin records `(name, prefix)` -/
def SortContractP (inp out : List (Name × Name)) : Prop :=
  out.Perm inp ∧ out.Pairwise (fun a b => pluginLess b.2 a.2 = false)

/-- `sort_canonical`: for pairwise distinct prefixes, ANY two results that meet the contract of
`sort.Slice` on two registration orders of the same plugins are equal: the plugin order used for
dispatch does not depend on the registration order nor on the sorting algorithm. -/
theorem sort_canonical {inp₁ inp₂ out₁ out₂ : List (Name × Name)} (hperm : inp₁.Perm inp₂)
    (hnd : (inp₁.map (·.2)).Nodup) (h₁ : SortContractP inp₁ out₁) (h₂ : SortContractP inp₂ out₂) :
    out₁ = out₂ := by
  have hp : out₁.Perm out₂ := h₁.1.trans (hperm.trans h₂.1.symm)
  have strict : ∀ {out inp : List (Name × Name)}, out.Perm inp → (inp.map (·.2)).Nodup →
      out.Pairwise (fun a b => pluginLess b.2 a.2 = false) →
      out.Pairwise (fun a b => pluginLess a.2 b.2 = true) := by
    intro out inp hpi hn hs
    have hn' : (out.map (·.2)).Nodup := (hpi.map (·.2)).nodup_iff.mpr hn
    have hne : out.Pairwise (fun a b => a.2 ≠ b.2) := by
      simpa [List.Nodup, List.pairwise_map] using hn'
    exact (hs.and hne).imp (fun ⟨h1, h2⟩ => (pluginLess_total h2).resolve_right (by rw [h1]; exact Bool.noConfusion))
  have s₁ := strict h₁.1 hnd h₁.2
  have s₂ := strict h₂.1 (hperm.map (·.2) |>.nodup_iff.mp hnd) h₂.2
  exact eq_of_perm_of_pairwise (r := fun a b => pluginLess a.2 b.2 = true)
    (fun a b hab hba => by rw [pluginLess_asymm hab] at hba; exact Bool.noConfusion hba) hp s₁ s₂

theorem insertPlugin_perm (x : Name × Name) : ∀ (l : List (Name × Name)), (insertPlugin x l).Perm (x :: l)
  | [] => List.Perm.refl _
  | y :: ys => by
    unfold insertPlugin
    split
    · exact ((insertPlugin_perm x ys).cons y).trans (List.Perm.swap x y ys)
    · exact List.Perm.refl _

theorem insertPlugin_sorted (x : Name × Name) : ∀ (l : List (Name × Name)),
    l.Pairwise (fun a b => pluginLess b.2 a.2 = false) →
    (insertPlugin x l).Pairwise (fun a b => pluginLess b.2 a.2 = false)
  | [], _ => by simp [insertPlugin]
  | y :: ys, h => by
    rw [List.pairwise_cons] at h
    unfold insertPlugin
    split
    · rename_i hyx
      rw [List.pairwise_cons]
      refine ⟨?_, insertPlugin_sorted x ys h.2⟩
      intro b hb
      have hb' := (insertPlugin_perm x ys).mem_iff.mp hb
      simp only [List.mem_cons] at hb'
      rcases hb' with rfl | hb'
      · exact pluginLess_asymm hyx
      · exact h.1 b hb'
    · rename_i hyx
      have hyx' : pluginLess y.2 x.2 = false := by simpa using hyx
      rw [List.pairwise_cons]
      refine ⟨?_, List.pairwise_cons.mpr h⟩
      intro b hb
      simp only [List.mem_cons] at hb
      rcases hb with rfl | hb
      · exact hyx'
      · exact pluginLess_neg_trans (h.1 b hb) hyx'

/-- the model's `sortPlugins` meets the contract, so it IS what `sort.Slice` returns whenever the
prefixes are pairwise distinct -/
theorem sortPlugins_meets_contract : ∀ (l : List (Name × Name)), SortContractP l (sortPlugins l)
  | [] => ⟨List.Perm.refl _, by simp [sortPlugins]⟩
  | x :: xs => by
    obtain ⟨hp, hs⟩ := sortPlugins_meets_contract xs
    exact ⟨(insertPlugin_perm x _).trans (hp.cons x), insertPlugin_sorted x _ hs⟩

theorem sortPlugins_registration_independent {inp₁ inp₂ : List (Name × Name)} (hperm : inp₁.Perm inp₂)
    (hnd : (inp₁.map (·.2)).Nodup) : sortPlugins inp₁ = sortPlugins inp₂ :=
  sort_canonical hperm hnd (sortPlugins_meets_contract _) (sortPlugins_meets_contract _)

-- non-vacuity: nested prefixes, two registration orders
example : sortPlugins [(asc "equal", asc "eq"), (asc "hash", asc "eqH"), (asc "compare", asc "eqHa")]
    = sortPlugins [(asc "compare", asc "eqHa"), (asc "equal", asc "eq"), (asc "hash", asc "eqH")] :=
  sortPlugins_registration_independent (by decide) (by decide)
example : (sortPlugins [(asc "equal", asc "eq"), (asc "hash", asc "eqH"), (asc "compare", asc "eqHa")]).map (·.1)
    = [asc "compare", asc "hash", asc "equal"] := by decide

/-- distinctness is needed: with two plugins on one prefix both orders meet the contract -/
theorem sort_not_canonical_for_equal_prefixes :
    SortContractP [(asc "a", asc "p"), (asc "b", asc "p")] [(asc "a", asc "p"), (asc "b", asc "p")] ∧
    SortContractP [(asc "a", asc "p"), (asc "b", asc "p")] [(asc "b", asc "p"), (asc "a", asc "p")] := by
  refine ⟨⟨List.Perm.refl _, by decide⟩, ⟨List.Perm.swap _ _ _, by decide⟩⟩

/-! ## first match in that order = longest matching prefix -/

/-- `dispatch_longest`: in a list ordered as `sortPlugins` orders it, the first prefix that matches a
call name is a longest matching prefix, and the only matching prefix of that length -/
theorem dispatch_longest : ∀ {ps : List Name} {name p : Name},
    ps.Pairwise (fun a b => pluginLess b a = false) → dispatch ps name = some p →
    p ∈ ps ∧ hasPrefix name p = true ∧
      ∀ q ∈ ps, hasPrefix name q = true → q.length ≤ p.length ∧ (q.length = p.length → q = p)
  | [], _, _, _, h => by simp [dispatch] at h
  | a :: ps, name, p, hs, h => by
    rw [List.pairwise_cons] at hs
    unfold dispatch at h
    split at h
    · rename_i ha
      simp only [Option.some.injEq] at h
      subst h
      refine ⟨by simp, ha, ?_⟩
      intro q hq hqn
      have hsame : q.length = a.length → q = a := by
        intro hl
        have h1 : q <+: name := List.isPrefixOf_iff_prefix.mp hqn
        have h2 : a <+: name := List.isPrefixOf_iff_prefix.mp ha
        exact List.prefix_of_prefix_length_le h1 h2 (by omega) |>.eq_of_length hl
      simp only [List.mem_cons] at hq
      rcases hq with rfl | hq
      · exact ⟨Nat.le_refl _, fun _ => rfl⟩
      · have := (pluginLess_false_iff.mp (hs.1 q hq))
        exact ⟨by omega, hsame⟩
    · rename_i ha
      obtain ⟨hm, hp, hall⟩ := dispatch_longest hs.2 h
      refine ⟨List.mem_cons_of_mem _ hm, hp, ?_⟩
      intro q hq hqn
      simp only [List.mem_cons] at hq
      rcases hq with rfl | hq
      · exact absurd hqn ha
      · exact hall q hq hqn

/-- dispatch is independent of the registration order (distinct prefixes) -/
theorem dispatch_registration_independent {inp₁ inp₂ : List (Name × Name)} (hperm : inp₁.Perm inp₂)
    (hnd : (inp₁.map (·.2)).Nodup) (name : Name) :
    dispatch ((sortPlugins inp₁).map (·.2)) name = dispatch ((sortPlugins inp₂).map (·.2)) name := by
  rw [sortPlugins_registration_independent hperm hnd]

example : dispatch (sortPrefixes [asc "eq", asc "eqH", asc "eqHa"]) (asc "eqHash") = some (asc "eqHa") := by decide
example : dispatch (sortPrefixes [asc "eqHa", asc "eq", asc "eqH"]) (asc "eqH_x") = some (asc "eqH") := by decide

/-! ## `-prefix`: plugin order and dispatch are preserved -/

/-- every default prefix starts with `derive`, so `-prefix=p` replaces exactly that leading part -/
theorem defaults_start_with_derive : defaultPrefixes.all (fun P => derive.isPrefixOf P) = true := by decide

theorem rho_on_default (p : Name) {P : Name} (hP : P ∈ defaultPrefixes) : rho p P = p ++ P.drop 6 := by
  have h := List.all_eq_true.mp defaults_start_with_derive P hP
  obtain ⟨x, rfl⟩ := List.isPrefixOf_iff_prefix.mp h
  rw [rho_derive]
  simp [derive, asc]

/-- the comparison of `sortPlugins` does not see a common leading part: all prefixes `q ++ x`
are ordered like the `x` -/
theorem order_preserved (q x y : Name) : pluginLess (q ++ x) (q ++ y) = pluginLess x y :=
  pluginLess_append_left q x y

/-- plugin order is preserved by `-prefix=p`: sorting the renamed prefixes = renaming the sorted ones -/
theorem sort_equivariant_global (p : Name) (xs : List Name) :
    sortPrefixes (xs.map (fun x => rho p (derive ++ x))) = (sortPrefixes (xs.map (derive ++ ·))).map (rho p) := by
  have h1 : xs.map (fun x => rho p (derive ++ x)) = xs.map (p ++ ·) := by
    apply List.map_congr_left; intro x _; exact rho_derive p x
  have h2 : ∀ q : Name, sortPrefixes (xs.map (q ++ ·)) = (sortPrefixes xs).map (q ++ ·) := fun q =>
    sortBy_map pluginLess (q ++ ·) (fun a b => pluginLess_append_left q a b) xs
  rw [h1, h2 p, h2 derive, List.map_map]
  apply List.map_congr_left; intro x _
  simp [Function.comp, rho_derive]

/-- dispatch commutes with `-prefix=p` for call names that start with `derive` -/
theorem dispatch_equivariant_global (p : Name) (xs : List Name) (n : Name) :
    dispatch (xs.map (p ++ ·)) (p ++ n) = (dispatch (xs.map (derive ++ ·)) (derive ++ n)).map (rho p) := by
  rw [dispatch_map_append, dispatch_map_append, Option.map_map]
  cases dispatch xs n with
  | none => rfl
  | some q => simp [rho_derive]

example : sortPrefixes (defaultPrefixes.map (rho (asc "gen"))) = (sortPrefixes defaultPrefixes).map (rho (asc "gen")) := by
  decide

/-! ## the name table commutes with the renaming -/

section
variable {τ : Type} [DecidableEq τ] (R : TyRel τ)

/-- `prefix_equivariant` (one table; covers `-prefix` and `-pluginprefix`): if the plugin's prefix `P`
becomes `P'`, every name bound in the table and the name given start with `P`, and the reserved sets
agree on names with these prefixes (FRESHNESS: `P ++ s` is reserved in the original package iff `P' ++ s`
is reserved in the renamed one — true when the package uses no other identifier starting with the new
prefix), then `newName`, `GetFuncName` and `SetFuncName` on the renamed table return the renamed answers
and the renamed table. -/
theorem prefix_equivariant {P P' : Name} {c c' : Cfg} {t : Table τ} (s : Name) (typs : List τ)
    (hc : c.pfx = P) (hc' : c'.pfx = P') (hflags : c'.autoname = c.autoname ∧ c'.dedup = c.dedup)
    (hnames : ∀ n ∈ t.names, ∃ s, n = P ++ s)
    (hfresh : ∀ s, P ++ s ∈ c.reserved ↔ P' ++ s ∈ c'.reserved)
    (hwords : ∀ s, P ++ s ∈ reservedWords ↔ P' ++ s ∈ reservedWords)
    (hP : P ≠ []) (hP' : P' ≠ [])
    (hauto : ∀ e ∈ t.autonamed, (∃ s, e.1 = P ++ s) ∧ (∃ s, e.2 = P ++ s)) :
    let g := rename P P'
    newName R c' (t.mapNames g) typs = g (newName R c t typs) ∧
    getFuncName R c' (t.mapNames g) typs
      = (g (getFuncName R c t typs).1, (getFuncName R c t typs).2.mapNames g) ∧
    setFuncName R c' (t.mapNames g) (P' ++ s) typs =
      match setFuncName R c t (P ++ s) typs with
      | .ok (n, t') => .ok (g n, t'.mapNames g)
      | .error e => .error (e.map g) := by
  have h := renaming_of_prefix (fn := P ++ s) (hintOf R typs) hc hc' hflags hnames ⟨s, rfl⟩ hfresh hwords hP hP' hauto
  refine ⟨newName_renamed R typs h, getFuncName_renamed R typs h, ?_⟩
  have := setFuncName_renamed R typs h
  rwa [rename_prefix] at this

/-- `prefix_equivariant_global`: the instance for `-prefix=p` on a plugin whose default prefix is
`derive ++ x`: the renaming is `rho p` on every name in play -/
theorem prefix_equivariant_global (p x s : Name) {c c' : Cfg} {t : Table τ} (typs : List τ)
    (hc : c.pfx = derive ++ x) (hc' : c'.pfx = rho p (derive ++ x))
    (hflags : c'.autoname = c.autoname ∧ c'.dedup = c.dedup)
    (hnames : ∀ n ∈ t.names, ∃ s, n = (derive ++ x) ++ s)
    (hfresh : ∀ s, (derive ++ x) ++ s ∈ c.reserved ↔ (p ++ x) ++ s ∈ c'.reserved)
    (hwords : ∀ s, (derive ++ x) ++ s ∈ reservedWords ↔ (p ++ x) ++ s ∈ reservedWords)
    (hp : p ++ x ≠ [])
    (hauto : ∀ e ∈ t.autonamed, (∃ s, e.1 = (derive ++ x) ++ s) ∧ (∃ s, e.2 = (derive ++ x) ++ s)) :
    let g := rename (derive ++ x) (p ++ x)
    (∀ s, g ((derive ++ x) ++ s) = rho p ((derive ++ x) ++ s)) ∧
    newName R c' (t.mapNames g) typs = g (newName R c t typs) ∧
    setFuncName R c' (t.mapNames g) (rho p ((derive ++ x) ++ s)) typs =
      match setFuncName R c t ((derive ++ x) ++ s) typs with
      | .ok (n, t') => .ok (g n, t'.mapNames g)
      | .error e => .error (e.map g) := by
  have hc'' : c'.pfx = p ++ x := by rw [hc', rho_derive]
  obtain ⟨h1, _, h3⟩ := prefix_equivariant R s typs hc hc'' hflags hnames hfresh hwords (by simp [derive, asc]) hp hauto
  refine ⟨?_, h1, ?_⟩
  · intro s'
    rw [rename_prefix, List.append_assoc derive x s', rho_derive, List.append_assoc]
  · have : rho p ((derive ++ x) ++ s) = (p ++ x) ++ s := by
      rw [List.append_assoc, rho_derive, List.append_assoc]
    rw [this]; exact h3

end

section
variable {τ : Type} [DecidableEq τ] (R : TyRel τ)

/-- `registerAll_equivariant` (per-plugin overrides and global prefix alike): let the plugin prefixes
change from `ps` to `ps'` (same plugins, position by position; `PrefixChange`: same flags and argument
checks, non-empty prefixes, FRESHNESS of the reserved names) and let the package be renamed consistently
(`renCall`: every call gets the new prefix of the plugin that handles it). If every renamed call is still
handled by the same plugin (DISPATCH EQUIVALENCE — a theorem for `-prefix`, see below; a hypothesis for
`-pluginprefix`, where an override can make one prefix capture another plugin's calls), then the whole
registration loop of newPackage gives the renamed result: same success / error class / plugin, the
renamed final name at every call site, the same rewritten files, and the renamed tables — so every later
`GetFuncName` (helper minting, `prefix_equivariant`) also commutes. -/
theorem registerAll_equivariant {f f' : Flags} {ps ps' : List (Plugin τ)} (hch : PrefixChange f f' ps ps')
    (files : List (List (Call τ)))
    (hd : ∀ c ∈ files.flatten, handlerOf ps' (renCall ps ps' c) = handlerOf ps c) :
    registerAll R f' ps' (files.map (·.map (renCall ps ps'))) =
      mapFilesRes ps ps' files (registerAll R f ps files) := by
  unfold registerAll
  have := regFiles_renamed R hch files Tables.empty (prefixed_empty ps) hd
  rwa [mapT_empty] at this

/-- dispatch equivalence holds for `-prefix=p`: if the prefixes are `derive ++ x` before and `p ++ x`
after, a call handled by plugin `i` is, after renaming, still handled by plugin `i` -/
theorem dispatch_equiv_global (p : Name) (xs : List Name) {ps ps' : List (Plugin τ)}
    (hpfx : pfxs ps = xs.map (derive ++ ·)) (hpfx' : pfxs ps' = xs.map (p ++ ·))
    {c : Call τ} {i : Nat} (hh : handlerOf ps c = some i) :
    handlerOf ps' (renCall ps ps' c) = some i := by
  obtain ⟨q, hq, hqq⟩ := handlerOf_plugin hh
  have hxi : (xs.map (derive ++ ·))[i]? = some q.pfx := by
    rw [← hpfx]; simp [pfxs, hq]
  simp only [List.getElem?_map, Option.map_eq_some_iff] at hxi
  obtain ⟨x, hx, hqx⟩ := hxi
  have hq' : ∃ q', ps'[i]? = some q' ∧ q'.pfx = p ++ x := by
    have : (pfxs ps')[i]? = some (p ++ x) := by rw [hpfx']; simp [hx]
    simp only [pfxs, List.getElem?_map, Option.map_eq_some_iff] at this
    exact this
  obtain ⟨q', hq'1, hq'2⟩ := hq'
  obtain ⟨s, hs⟩ := hasPrefix_split hqq
  have hname : (renCall ps ps' c).name = p ++ (x ++ s) := by
    simp only [renCall, hh, gOf, hq, hq'1]
    rw [hs, rename_prefix, hq'2, List.append_assoc]
  have hcn : c.name = derive ++ (x ++ s) := by rw [hs, ← hqx, List.append_assoc]
  unfold handlerOf handler at hh ⊢
  rw [hname, hpfx', handlerFrom_map_append]
  rw [hcn, hpfx, handlerFrom_map_append] at hh
  exact hh

/-- `prefix_equivariant_global` at the level of the whole registration: for `-prefix=p` (all prefixes
`derive ++ x` become `p ++ x`) on a package all of whose calls are derive calls, `registerAll` on the
renamed package is the renamed `registerAll` — the only hypothesis left is freshness (in `PrefixChange`). -/
theorem registerAll_equivariant_global (p : Name) (xs : List Name) {f f' : Flags} {ps ps' : List (Plugin τ)}
    (hch : PrefixChange f f' ps ps') (hpfx : pfxs ps = xs.map (derive ++ ·)) (hpfx' : pfxs ps' = xs.map (p ++ ·))
    (files : List (List (Call τ))) (hall : ∀ c ∈ files.flatten, (handlerOf ps c).isSome = true) :
    registerAll R f' ps' (files.map (·.map (renCall ps ps'))) =
      mapFilesRes ps ps' files (registerAll R f ps files) := by
  apply registerAll_equivariant R hch files
  intro c hc
  obtain ⟨i, hi⟩ := Option.isSome_iff_exists.mp (hall c hc)
  rw [hi]
  exact dispatch_equiv_global p xs hpfx hpfx' hi

end

-- non-vacuity: a conflict resolved by -autoname under the default prefix and under -prefix=gen
example :
    (setFuncName GTy.rel { pfx := asc "genEqual", autoname := true }
      (Table.mapNames (rename (asc "deriveEqual") (asc "genEqual"))
        ({ entries := [(asc "deriveEqual", [GTy.basic (asc "int")])] } : Table GTy))
      (asc "genEqual") [GTy.basic (asc "string")]).toOption.map (·.1) = some (asc "genEqual_") ∧
    (setFuncName GTy.rel { pfx := asc "deriveEqual", autoname := true }
      ({ entries := [(asc "deriveEqual", [GTy.basic (asc "int")])] } : Table GTy)
      (asc "deriveEqual") [GTy.basic (asc "string")]).toOption.map (·.1) = some (asc "deriveEqual_") := by
  decide

-- non-vacuity of the whole-registration statement: two plugins, -prefix=gen, a conflict under -autoname
def gPs : List (Plugin GTy) :=
  [{ pfx := asc "deriveEqual", accept := fun _ => true }, { pfx := asc "deriveHash", accept := fun _ => true }]
def gPs' : List (Plugin GTy) :=
  [{ pfx := asc "genEqual", accept := fun _ => true }, { pfx := asc "genHash", accept := fun _ => true }]
def gFiles : List (List (Call GTy)) :=
  [[⟨asc "deriveEqual", [.basic (asc "int")]⟩, ⟨asc "deriveEqual", [.basic (asc "string")]⟩, ⟨asc "deriveHashX", [.basic (asc "int")]⟩]]

example : (registerAll GTy.rel { autoname := true } gPs' (gFiles.map (·.map (renCall gPs gPs')))).names
    = [[some (asc "genEqual"), some (asc "genEqual_"), some (asc "genHashX")]] ∧
    (registerAll GTy.rel { autoname := true } gPs gFiles).names
    = [[some (asc "deriveEqual"), some (asc "deriveEqual_"), some (asc "deriveHashX")]] := by decide

/-- dispatch equivalence is needed for per-plugin overrides: with `equal=eq, hash=eqH` the renamed call
`eqHX` of the equal plugin (originally `deriveEqualHX`) is captured by the hash plugin -/
theorem dispatch_equivalence_needed :
    dispatch (sortPrefixes [asc "deriveEqual", asc "deriveHash"]) (asc "deriveEqualHX") = some (asc "deriveEqual") ∧
    dispatch (sortPrefixes [asc "eq", asc "eqH"]) (rename (asc "deriveEqual") (asc "eq") (asc "deriveEqualHX")) = some (asc "eqH") := by
  decide

/-- freshness is needed: a user function `genEqual_` called elsewhere in the renamed package (and no
`deriveEqual_` in the original) makes the minted names differ beyond the renaming -/
theorem freshness_needed :
    newName GTy.rel { pfx := asc "genEqual", reserved := [asc "genEqual_"] }
      ({ entries := [(asc "genEqual", [GTy.basic (asc "int")])] } : Table GTy) [GTy.basic (asc "string")]
    ≠ rename (asc "deriveEqual") (asc "genEqual")
      (newName GTy.rel { pfx := asc "deriveEqual" }
        ({ entries := [(asc "deriveEqual", [GTy.basic (asc "int")])] } : Table GTy) [GTy.basic (asc "string")]) := by
  decide

/-! ## names of different plugins: disjoint for prefix-free prefix sets, not otherwise (F13) -/

section
variable {τ : Type} [DecidableEq τ] (R : TyRel τ)

/-- every name a table can hold starts with the plugin's prefix: user names reach `SetFuncName` only
through first-match dispatch, minted names are `prefix ++ …` -/
theorem minted_has_prefix (c : Cfg) (t : Table τ) (typs : List τ) : ∃ s, newName R c t typs = c.pfx ++ s :=
  minted_has_prefix' R c t typs

theorem getFuncName_keeps_prefix (c : Cfg) (t : Table τ) (typs : List τ)
    (h : ∀ n ∈ t.names, ∃ s, n = c.pfx ++ s) : ∀ n ∈ (getFuncName R c t typs).2.names, ∃ s, n = c.pfx ++ s :=
  getFuncName_keeps_prefix' R c t typs h

theorem setFuncName_keeps_prefix (c : Cfg) (t : Table τ) (fn : Name) (typs : List τ) {n : Name} {t' : Table τ}
    (h : ∀ n ∈ t.names, ∃ s, n = c.pfx ++ s) (hfn : ∃ s, fn = c.pfx ++ s)
    (hs : setFuncName R c t fn typs = .ok (n, t')) : ∀ m ∈ t'.names, ∃ s, m = c.pfx ++ s :=
  setFuncName_keeps_prefix' R c t fn typs h hfn hs

/-- `names_disjoint_across_plugins`: when no plugin's prefix is a prefix of another's, a name that
starts with the prefix of plugin `i` cannot start with that of plugin `j ≠ i`; hence (with the three
lemmas above) no plugin can mint or register a name that another plugin's table holds: the generated
functions of different plugins have different names. HYPOTHESIS `prefixFree` is forced by the proof and
is violated by overrides such as `hash=h,equal=h_T` (finding F13 below). -/
theorem names_disjoint_across_plugins {prefixes : List Name} (hpf : prefixFree prefixes = true)
    {i j : Nat} {Pi Pj n : Name} (hi : prefixes[i]? = some Pi) (hj : prefixes[j]? = some Pj)
    (hni : ∃ s, n = Pi ++ s) (hnj : ∃ s, n = Pj ++ s) : i = j := by
  obtain ⟨si, rfl⟩ := hni
  obtain ⟨sj, hsj⟩ := hnj
  have h1 : Pi <+: Pi ++ si := List.prefix_append _ _
  have h2 : Pj <+: Pi ++ si := by rw [hsj]; exact List.prefix_append _ _
  rcases List.prefix_or_prefix_of_prefix h1 h2 with h | h
  · exact prefixFree_spec hpf hi hj (List.isPrefixOf_iff_prefix.mpr h)
  · exact (prefixFree_spec hpf hj hi (List.isPrefixOf_iff_prefix.mpr h)).symm

end

/-- the 33 default prefixes (table compared with the source on every run) are prefix-free … -/
theorem default_prefixes_prefix_free : prefixFree defaultPrefixes = true := by decide

/-- … and stay so under every global `-prefix=p` -/
theorem default_prefixes_prefix_free_global (p : Name) : prefixFree (defaultPrefixes.map (rho p)) = true := by
  have hmap : ∀ (l : List Name), prefixFree (l.map (p ++ ·)) = prefixFree l := by
    intro l
    induction l with
    | nil => rfl
    | cons a as ih =>
      simp only [List.map_cons, prefixFree, ih, List.all_map]
      congr 1
      apply List.all_congr rfl
      simp [Function.comp, isPrefixOf_append_left]
  have hd : defaultPrefixes.map (rho p) = (defaultPrefixes.map (·.drop 6)).map (p ++ ·) := by
    rw [List.map_map]
    apply List.map_congr_left
    intro P hP
    simp [Function.comp, rho_on_default p hP]
  rw [hd, hmap]
  decide

/-- the 33 default prefixes are pairwise distinct, so `sort_canonical` applies to main.go's table -/
theorem default_prefixes_distinct : defaultPrefixes.Nodup := by decide

/-! ### F13: per-plugin tables + nested overrides -/

def f13T1 : GTy := .named 0 (asc "T1") (.struct (.fcons (.basic (asc "int")) .fnil))
def f13T2 : GTy := .named 0 (asc "T2") (.struct (.fcons (.basic (asc "string")) .fnil))
def f13S : GTy := .named 0 (asc "S") (.struct (.fcons f13T1 (.fcons f13T2 .fnil)))

/-- plugins in `sortPlugins` order for `-pluginprefix=hash=h,equal=h_T` -/
def f13Plugins : List (Plugin GTy) :=
  [{ pfx := asc "h_T", accept := fun _ => true }, { pfx := asc "h", accept := fun _ => true }]

/-- the user's calls: `h(s *S)` (hash), `h_T(a, b *T1)` (equal) -/
def f13Files : List (List (Call GTy)) :=
  [[⟨asc "h", [.ptr f13S]⟩, ⟨asc "h_T", [.ptr f13T1, .ptr f13T1]⟩]]

def f13HashTable : Table GTy :=
  match registerAll GTy.rel {} f13Plugins f13Files with
  | .ok (_, T) => T 1
  | _ => {}

def f13EqualTable : Table GTy :=
  match registerAll GTy.rel {} f13Plugins f13Files with
  | .ok (_, T) => T 0
  | _ => {}

/-- F13, witness that `prefixFree` is needed: the registration succeeds and dispatch is by longest
prefix, yet the second helper the hash plugin mints (for the field type `T2`, after `h_` for `T1`) is
`h_T` — the name bound in the equal plugin's table. The real binary emits both functions
(`h_T redeclared`); replayed by the check. -/
theorem f13_cross_plugin_capture :
    prefixFree (f13Plugins.map (·.pfx)) = false ∧
    (registerAll GTy.rel {} f13Plugins f13Files).isOk = true ∧
    f13EqualTable.names = [asc "h_T"] ∧
    (let c : Cfg := { pfx := asc "h" }
     let r1 := getFuncName GTy.rel c f13HashTable [f13T1]
     let r2 := getFuncName GTy.rel c r1.2 [f13T2]
     r1.1 = asc "h_" ∧ r2.1 = asc "h_T" ∧ r2.1 ∈ f13EqualTable.names) := by
  decide

end Goderive.C12
