/-
Property C18: Mem is observationally the original function, evaluated once per argument.

"For a deterministic function f of any supported signature, the function returned by derived Mem
returns on every call sequence exactly what f returns, and invokes f at most once for each class of
argument tuples that are Equal (structurally, for arguments that are not ==-comparable), including
the zero-argument and the no-result forms."

Model: `Mem.step` / `Mem.answers` / `Mem.log` (S/Mem.lean): the four emitted shapes (flag, single
comparable key, comparable input struct, hash buckets with an Equal scan) times the three ways the
results are stored, as one state machine over the captured table, parametric in `f` and — for the
bucket shape — in the derived `hash` and `eq` of the key type. Specification: `Spec.Mem.answers`
("call f") and `Spec.Mem.AtMostOncePerClass` (Spec/Mem.lean). The theorems hold for call sequences of
any length. Only theorems and their non-vacuity examples live here; proofs are in Lemmas/Mem.lean.

`Mem.hit c a0 a` is the comparison the emitted code makes between the stored key of an earlier call
`a0` and the key of the call `a`: Go's `==` on the key for the two map shapes, derived Equal for the
bucket shape, `true` for the flag shape (all calls of a function without parameters are one class).
-/
import GoderiveModel.Lemmas.Mem

namespace Goderive.C18
open Goderive Val Mem

/-! ### Concrete data used by the non-vacuity examples -/

def z : Val := .flt 64 0                             -- +0
def nz : Val := .flt 64 (2 ^ 63)                     -- -0
def h15 : Val := .flt 64 4609434218613702656         -- 1.5
def str (s : List Nat) : Val := .str s

/-- `func(x float64) bool { return x == 0 }`: respects `==` -/
def fIsZero : Fn
  | [x] => [.bool (goEq x z)]
  | _ => [.bool false]

/-- `func(x float64) uint64 { return math.Float64bits(x) }`: tells `+0` from `-0` -/
def fBits : Fn
  | [.flt _ b] => [.int b]
  | _ => [.int 0]

/-- one comparable parameter, one result: `map[float64]bool` -/
def cSingle : Cfg := { shape := .single, nres := 1 }
def callsF : List Args := [[z], [nz], [h15], [z], [h15], [nz]]

/-- `func(a int, s string) (int, string)` and the same without results: `map[input]output` / `map[input]struct{}` -/
def cInput2 : Cfg := { shape := .input, nres := 2 }
def cInput0 : Cfg := { shape := .input, nres := 0 }
def fSwap : Fn
  | [a, s] => [a, s]
  | _ => [.int 0, .str []]
def fNone : Fn := fun _ => []
def callsI : List Args := [[.int 1, str [97]], [.int 2, str [97]], [.int 1, str [97]], [.int 1, str [98]]]

/-- no parameter: the `memoized` flag, with three results and with none -/
def cFlag3 : Cfg := { shape := .flag, nres := 3, zeros := [.int 0, .int 0, .nilv] }
def cFlag0 : Cfg := { shape := .flag, nres := 0 }
def fConst : Fn := fun _ => [.int 7, .int 8, .ptr 1 (.int 9)]

/-- `[]int` values at address `a` -/
def sl (a : Nat) (xs : List Int) : Val := .slice a 0 (Val.ofList (xs.map .int))
def sumSpine : Val → Int
  | .scons (.int n) t => n + sumSpine t
  | _ => 0
/-- structural equality of `[]int`, ignoring the address -/
def eqSl : Val → Val → Bool
  | .slice _ _ xs, .slice _ _ ys => xs == ys
  | .nilv, .nilv => true
  | _, _ => false
/-- a deliberately weak hash (the length): all slices of one length collide -/
def hashLen : Val → UInt64
  | .slice _ _ xs => UInt64.ofNat xs.slen
  | _ => 0
/-- `func(xs []int) (int, bool)`: sum and nil-ness, a function of the structural value -/
def fSum : Fn
  | [.slice _ _ xs] => [.int (sumSpine xs), .bool false]
  | _ => [.int 0, .bool true]
def cBucket : Cfg := { shape := .bucket, nres := 2, hash := hashLen, eq := eqSl }
def cBucket0 : Cfg := { shape := .bucket, nres := 0, hash := hashLen, eq := eqSl }
/-- `{0,31}` and `{1,0}` collide; the third call is Equal to the first but not identical -/
def callsB : List Args := [[sl 1 [0, 31]], [sl 2 [1, 0]], [sl 3 [0, 31]], [.nilv], [sl 2 [1, 0]], [.nilv]]

/-- `[]float64` with derived Equal (`==` on the elements) and a hash of the *raw* bit pattern of the
first element: the hash of goderive before the signed-zero repair (finding F10) -/
def eqFl : Val → Val → Bool
  | .slice _ _ xs, .slice _ _ ys => goEq xs ys
  | _, _ => false
def hashRaw : Val → UInt64
  | .slice _ _ (.scons (.flt _ b) _) => UInt64.ofNat b
  | _ => 0
def cRawHash : Cfg := { shape := .bucket, nres := 0, hash := hashRaw, eq := eqFl }
def callsZ : List Args := [[.slice 1 0 (.scons z .snil)], [.slice 2 0 (.scons nz .snil)]]

/-! ### 1. Refinement: every answer is `f`'s answer -/

/-- **C18, first clause.** For every shape and result arity, and every call sequence (of any
length): the `i`-th answer of `m := deriveMem(f)` is `f argsᵢ`.

Hypotheses, both necessary: `hlen` — `f` returns as many results as the signature says (typing);
`hresp` — `f` gives the same results on argument tuples that the table cannot tell apart (`hit`):
key-`==` arguments for the map shapes, derived-Equal arguments for the bucket shape. A Go function
can violate `hresp` (it can look at the sign of a zero, at a pointer's identity or at spare
capacity); then no memoiser can satisfy both clauses of C18, because the second clause forbids the
second call of `f` that the first clause would need: see `mem_refines_needs_respect`. -/
theorem mem_refines_f (c : Cfg) (f : Fn) (calls : List Args)
    (hlen : ∀ a ∈ calls, (f a).length = c.nres)
    (hresp : ∀ a0 ∈ calls, ∀ a ∈ calls, hit c a0 a = true → f a0 = f a) :
    answers c f calls = Spec.Mem.answers f calls :=
  answersFrom_of_inv c f (· ∈ calls) (fun s => Kind c.shape s ∧ Inv c f calls s)
    (fun s a hs ha => step_refines c f calls hlen hresp s a hs ha)
    calls (init c) ⟨kind_init c, Inv_init c f calls⟩ (fun _ h => h)

-- non-vacuity: a comparable float key with +0 / -0 / 1.5 repeated; hypotheses hold, answers computed
example : answers cSingle fIsZero callsF = Spec.Mem.answers fIsZero callsF :=
  mem_refines_f cSingle fIsZero callsF (by decide) (by decide)
example : answers cSingle fIsZero callsF =
    [[.bool true], [.bool true], [.bool false], [.bool true], [.bool false], [.bool true]] := by decide
-- input struct key, two results stored in an `output` struct / no result stored as `struct{}`
example : answers cInput2 fSwap callsI = Spec.Mem.answers fSwap callsI :=
  mem_refines_f cInput2 fSwap callsI (by decide) (by decide)
example : answers cInput0 fNone callsI = [[], [], [], []] :=
  mem_refines_f cInput0 fNone callsI (by decide) (by decide)
-- no parameter, three results (the stored pointer is returned again) / no result
example : answers cFlag3 fConst [[], [], []] = Spec.Mem.answers fConst [[], [], []] :=
  mem_refines_f cFlag3 fConst [[], [], []] (by decide) (by decide)
example : answers cFlag0 fNone [[], []] = [[], []] :=
  mem_refines_f cFlag0 fNone [[], []] (by decide) (by decide)
-- hash buckets with colliding and Equal-but-not-identical slices
example : answers cBucket fSum callsB = Spec.Mem.answers fSum callsB :=
  mem_refines_f cBucket fSum callsB (by decide) (by decide)
example : answers cBucket fSum callsB =
    [[.int 31, .bool false], [.int 1, .bool false], [.int 31, .bool false], [.int 0, .bool true],
     [.int 1, .bool false], [.int 0, .bool true]] := by decide

/-- The hypothesis `hresp` of `mem_refines_f` cannot be dropped, and this is a fact about the real
code (replayed on it by the `memraw` ops of the correspondence): with `f = math.Float64bits`,
`m(+0)` then `m(-0)` answers `0` twice although `f(-0) = 1<<63`, because `+0 == -0` as map keys. -/
theorem mem_refines_needs_respect :
    ∃ (c : Cfg) (f : Fn) (calls : List Args), (∀ a ∈ calls, (f a).length = c.nres) ∧
      answers c f calls ≠ Spec.Mem.answers f calls :=
  ⟨cSingle, fBits, [[z], [nz]], by decide, by decide⟩

example : answers cSingle fBits [[z], [nz]] = [[.int 0], [.int 0]] := by decide
example : Spec.Mem.answers fBits [[z], [nz]] = [[.int 0], [.int (2 ^ 63)]] := by decide

/-! ### 2. `f` is invoked at most once per class -/

/-- **C18, second clause.** For every shape and every call sequence (of any length), no two
invocations of `f` have argument tuples that the table identifies (`hit`): one call per class of
key-`==` / derived-Equal argument tuples, a single call for a function without parameters.

For the bucket shape this uses — and needs, see `mem_at_most_once_needs_hash` — that derived Hash
respects derived Equal on the arguments (`hhash`, which is property C04); colliding hashes of
unequal arguments are handled by the scan and need no hypothesis. -/
theorem mem_at_most_once (c : Cfg) (f : Fn) (calls : List Args)
    (hhash : c.shape = .bucket → ∀ a0 ∈ calls, ∀ a ∈ calls,
      c.eq (keyOf a0) (keyOf a) = true → c.hash (keyOf a0) = c.hash (keyOf a)) :
    Spec.Mem.AtMostOncePerClass (hit c) (log c f calls) := by
  have := logFrom_pairwise c f (fun a0 a => hit c a0 a = false) (· ∈ calls)
    (fun s L => Kind c.shape s ∧ J c calls s L)
    (fun s L a hs ha hc => step_called_not_hit c f calls hhash s L a hs ha hc)
    (fun s L a hs ha => step_log_inv c f calls s L a hs ha)
    calls (init c) [] ⟨kind_init c, J_init c calls⟩ (fun _ h => h) List.Pairwise.nil
  simpa [Spec.Mem.AtMostOncePerClass, log] using this

-- non-vacuity: the logs of the sequences above
example : Spec.Mem.AtMostOncePerClass (hit cSingle) (log cSingle fIsZero callsF) :=
  mem_at_most_once cSingle fIsZero callsF (by decide)
example : log cSingle fIsZero callsF = [[z], [h15]] := by decide
example : log cInput0 fNone callsI = [[.int 1, str [97]], [.int 2, str [97]], [.int 1, str [98]]] := by decide
example : log cFlag0 fNone [[], [], []] = [[]] := by decide
example : Spec.Mem.AtMostOncePerClass (hit cBucket) (log cBucket fSum callsB) :=
  mem_at_most_once cBucket fSum callsB (by decide)
-- the two colliding slices are both evaluated, the Equal copy and the repeats are not
example : log cBucket fSum callsB = [[sl 1 [0, 31]], [sl 2 [1, 0]], [.nilv]] := by decide
example : log cBucket0 fNone callsB = [[sl 1 [0, 31]], [sl 2 [1, 0]], [.nilv]] := by decide

/-- The hypothesis `hhash` cannot be dropped: with a hash of the raw float bits (goderive before the
repair of finding F10) the Equal slices `{+0}` and `{-0}` land in different buckets and `f` runs
twice for one class. -/
theorem mem_at_most_once_needs_hash :
    ∃ (c : Cfg) (f : Fn) (calls : List Args), c.shape = .bucket ∧
      ¬ Spec.Mem.AtMostOncePerClass (hit c) (log c f calls) := by
  refine ⟨cRawHash, fNone, callsZ, rfl, ?_⟩
  have hl : log cRawHash fNone callsZ = callsZ := by decide
  rw [hl]
  intro h
  have h2 : hit cRawHash [.slice 1 0 (.scons z .snil)] [.slice 2 0 (.scons nz .snil)] = false := by
    simpa [Spec.Mem.AtMostOncePerClass, callsZ] using h
  revert h2
  decide

/-- Counting form of the second clause: when the table's comparison is an equivalence on the
arguments that occur (`heuc`: two tuples related to a third are related to each other — true of `==`
and of derived Equal on NaN-free values), every class `r` receives at most one call of `f`. -/
theorem mem_at_most_once_count (c : Cfg) (f : Fn) (calls : List Args)
    (hhash : c.shape = .bucket → ∀ a0 ∈ calls, ∀ a ∈ calls,
      c.eq (keyOf a0) (keyOf a) = true → c.hash (keyOf a0) = c.hash (keyOf a))
    (r : Args)
    (heuc : ∀ a0 ∈ calls, ∀ a ∈ calls, hit c r a0 = true → hit c r a = true → hit c a0 a = true) :
    ((log c f calls).filter (fun a => hit c r a)).length ≤ 1 := by
  have hp := mem_at_most_once c f calls hhash
  have hsub : ∀ a ∈ log c f calls, a ∈ calls := fun a ha => (logFrom_sublist c f calls (init c)).subset ha
  have hp' := List.Pairwise.sublist (List.filter_sublist (p := fun a => hit c r a)) hp
  match hfl : (log c f calls).filter (fun a => hit c r a), hp' with
  | [], _ => simp
  | [_], _ => simp
  | a0 :: a :: rest, hp' =>
    exfalso
    have hm0 : a0 ∈ (log c f calls).filter (fun a => hit c r a) := by rw [hfl]; simp
    have hm1 : a ∈ (log c f calls).filter (fun a => hit c r a) := by rw [hfl]; simp
    obtain ⟨hl0, hr0⟩ := List.mem_filter.mp hm0
    obtain ⟨hl1, hr1⟩ := List.mem_filter.mp hm1
    have ht := heuc a0 (hsub a0 hl0) a (hsub a hl1) hr0 hr1
    have hf : hit c a0 a = false := (List.pairwise_cons.mp hp').1 a List.mem_cons_self
    rw [ht] at hf
    cases hf

example : ((log cSingle fIsZero callsF).filter (fun a => hit cSingle [nz] a)).length ≤ 1 :=
  mem_at_most_once_count cSingle fIsZero callsF (by decide) [nz] (by decide)
example : (log cSingle fIsZero callsF).filter (fun a => hit cSingle [nz] a) = [[z]] := by decide

/-- `f` is only ever invoked on argument tuples of actual calls, in the order of those calls (the
log is a subsequence of the call sequence). -/
theorem mem_calls_only_given_args (c : Cfg) (f : Fn) (calls : List Args) :
    (log c f calls).Sublist calls :=
  logFrom_sublist c f calls (init c)

example : (log cBucket fSum callsB).Sublist callsB := mem_calls_only_given_args cBucket fSum callsB

/-! ### 3. Both clauses against structural equality of the argument tuples -/

/-- **C18 as stated**, for the configuration `c` of any signature: let `same` be the intended
sameness of argument tuples (structural equality, `Spec.structEq` of the tuples) and suppose the
comparison made by the emitted code agrees with it on the arguments that occur (`hsame`: for the map
shapes this is "`==` on comparable types is structural equality", for the bucket shape it is C02,
"derived Equal is structural equality"), `f` is a function of the structural value (`hresp`) and
derived Hash respects `same` (`hhash`, C04, only for the bucket shape). Then for call sequences of
any length every answer is `f`'s answer and `f` is invoked at most once per `same`-class. -/
theorem mem_observationally_f (c : Cfg) (f : Fn) (calls : List Args) (same : Args → Args → Bool)
    (hsame : ∀ a0 ∈ calls, ∀ a ∈ calls, hit c a0 a = same a0 a)
    (hlen : ∀ a ∈ calls, (f a).length = c.nres)
    (hresp : ∀ a0 ∈ calls, ∀ a ∈ calls, same a0 a = true → f a0 = f a)
    (hhash : c.shape = .bucket → ∀ a0 ∈ calls, ∀ a ∈ calls,
      same a0 a = true → c.hash (keyOf a0) = c.hash (keyOf a)) :
    answers c f calls = Spec.Mem.answers f calls ∧
      Spec.Mem.AtMostOncePerClass same (log c f calls) := by
  refine ⟨mem_refines_f c f calls hlen
    (fun a0 h0 a h1 hh => hresp a0 h0 a h1 (by rw [← hsame a0 h0 a h1]; exact hh)), ?_⟩
  have hp := mem_at_most_once c f calls (fun hsh a0 h0 a h1 he =>
    hhash hsh a0 h0 a h1 (by rw [← hsame a0 h0 a h1]; simpa [hit, hsh] using he))
  have hsub : ∀ a ∈ log c f calls, a ∈ calls :=
    fun a ha => (logFrom_sublist c f calls (init c)).subset ha
  exact List.Pairwise.imp_of_mem
    (fun {a0 a} h0 h1 hh => by rw [← hsame a0 (hsub a0 h0) a (hsub a h1)]; exact hh) hp

/-- the configuration the generator chooses for `func(float64) bool`, and structural equality of
one-float tuples -/
def cFloat : Cfg := cfgOf { decls := [] } [.basic (.float 64)] 1
def sameF : Args → Args → Bool
  | [.flt w a], [.flt _ b] => fltEq w a b
  | _, _ => false

example : cFloat.shape = .single := by decide
example : answers cFloat fIsZero callsF = Spec.Mem.answers fIsZero callsF ∧
    Spec.Mem.AtMostOncePerClass sameF (log cFloat fIsZero callsF) :=
  mem_observationally_f cFloat fIsZero callsF sameF (by decide) (by decide) (by decide)
    (by intro h; exact absurd h (by decide))
example : log cFloat fIsZero callsF = [[z], [h15]] := by decide

/-! ### 4. Which shape is emitted -/

/-- The dispatch of `genFunc`: hash buckets are used exactly when there is a parameter and the
parameter list is not comparable as a whole; a function without parameters gets the flag. -/
theorem shapeOf_bucket_iff (env : Env) (ps : List Ty) :
    shapeOf env ps = .bucket ↔ ps ≠ [] ∧ canEqual env (paramStruct ps) = false := by
  match ps with
  | [] => simp [shapeOf]
  | [T] =>
    by_cases h : canEqual env T = true
    · simp [shapeOf, paramStruct, canEqual, h]
    · simp [shapeOf, paramStruct, canEqual, h]
  | T :: U :: rest =>
    by_cases h : canEqual env (paramStruct (T :: U :: rest)) = true
    · simp [shapeOf, h]
    · simp [shapeOf, h]

example : shapeOf { decls := [] } [.basic (.float 64), .slice (.basic (.int 64 true))] = .bucket := by decide
example : shapeOf { decls := [] } [.basic (.float 64), .basic .string] = .input := by decide
example : shapeOf { decls := [] } [.basic .string] = .single := by decide
example : shapeOf { decls := [] } [] = .flag := by decide

end Goderive.C18
