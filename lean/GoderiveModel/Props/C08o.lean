/-
  C08 (continued) — the ORDER in which the packages of one invocation are generated.

  `(*program).Generate` sorts the named packages by path and reorders them with `importedFirst`
  (derive/generate.go); the model is `G/Order.generationOrder` on an abstract program (list of packages with
  path, directory, imports, named-or-not), tied to the real code through the hook
  `derive.VerifGenerationOrder` by `vlib/order.py` (every difference is a broken correspondence).

  The clause of C08 at stake: the bytes generated for a package "do not depend on which other packages are
  named in the same invocation, on the order of arguments, or on whether the package is addressed by relative
  path, pattern or import path". What is generated for a package can depend on what was already generated for
  the packages it imports (the type of a derive call's argument can be a function generated for an imported
  package). So the order must (c) not depend on the order of the arguments, and (b) put every named package
  after the named packages of the directories it imports, however those were spelled: a package named by a
  relative path is another package object than the one its importers import, and the two are matched by
  directory.

  * `generationOrder_fuel_enough` — the model's recursion budget `length + 1` is enough: any larger budget
    gives the same result (the fuel-exhausted branch of `visit` is never taken).
  * (a) `order_perm` — the result lists every named package exactly once (any graph, cycles included).
  * (b) `order_reaches_first` / `order_imports_first` — on an acyclic graph a named package comes after every
    named package it reaches / after the named packages of the directories it (transitively) imports. FULL
    strength. Acyclicity is a rank function that decreases along every `Step` of the walk (`Step G x y`: `y`
    is an import of `x`, or a named package other than `x` in the directory of an import of `x`);
    `rankOK` is the decidable certificate. Why the hypothesis is about `Step` and not about imports alone:
    the two package objects of one directory are built from the same files, so they import the same
    directories and a `Step` cycle is an import cycle between directories, which the Go compiler and the
    loader reject ("import cycle not allowed"). On an abstract graph that is not of this kind (a named twin
    `q` of `q'` importing `p` while `p` imports `q'`) both `p` before `q` and `q` before `p` would be demanded:
    no order satisfies the statement, so the hypothesis cannot be weakened to acyclicity of the imports.
    `q.path ≠ p.path` is needed for the same reason: an external test package `x_test` imports `x` of its own
    directory and cannot come before itself.
  * (c) `order_arg_invariant` — permuting the list of packages (the order of the arguments, the loader's map
    order) does not change the result. This is the C08 clause.
  * (d) `order_deterministic_roots` — named packages that do not reach one another come out in path order
    (corollary `order_no_imports`: nothing imported → path order).

  Trusted: `sort.Slice` with a total order sorts (any algorithm: `sortPaths_congr`); Go strings compare like
  Lean's `String` order on the ASCII paths of the tie; `filepath.Abs`/`Dir` on clean absolute directories is
  the identity (the model compares directories as given).
-/
import GoderiveModel.G.Order
import GoderiveModel.Lemmas.Order

namespace Goderive.C08o
open Goderive.G.Order

/-- the sorted list of the named packages: the starting order of `importedFirst` -/
def namedSorted (G : List Pkg) : List String := sortPaths ((G.filter (·.named)).map (·.path))

/-! ### the recursion budget -/

/-- `length + 1` is enough fuel: every larger budget computes the same order. (Each non-trivial call of
`visit` marks a package of the program that was unmarked, and the nested calls run with one unit less.) -/
theorem generationOrder_fuel_enough (G : List Pkg) (fuel : Nat) (h : G.length + 1 ≤ fuel) :
    runWith G fuel = generationOrder G := by
  unfold generationOrder
  rw [runWith_eq, runWith_eq]
  unfold finalState
  have h0 := unv_nil_lt G
  rw [foldl_fuel (fun p hp => children_unknown hp) fuel (G.length + 1) _ ⟨[], []⟩ (by simp only; omega) (by simpa using h0)]

example : runWith [⟨"m/a", "/w/a", ["m/b"], true⟩, ⟨"m/b", "/w/b", [], true⟩] 3 = ["m/b", "m/a"] ∧
    runWith [⟨"m/a", "/w/a", ["m/b"], true⟩, ⟨"m/b", "/w/b", [], true⟩] 50 = ["m/b", "m/a"] ∧
    -- with too little fuel the walk is cut short: the bound is not vacuous
    runWith [⟨"m/a", "/w/a", ["m/b"], true⟩, ⟨"m/b", "/w/b", [], true⟩] 1 = ["m/a", "m/b"] := by decide

/-! ### (a) every named package exactly once -/

/-- The result is a permutation of the named packages: each is generated, once. -/
theorem order_perm {G : List Pkg} (hwf : WF G) :
    (generationOrder G).Perm ((G.filter (·.named)).map (·.path)) := by
  obtain ⟨hext, hall⟩ := final_ext G
  obtain ⟨E, e, n, m, c⟩ := hext.ex
  simp only [List.nil_append] at e
  have hO : generationOrder G = E := by unfold generationOrder; rw [runWith_eq, e]
  rw [hO]
  refine List.Perm.trans ?_ (sortPaths_perm _)
  refine (List.perm_ext_iff_of_nodup n (named_nodup hwf)).2 ?_
  intro x
  constructor
  · intro hx
    have := (m x hx).1
    unfold isNamed at this
    exact List.contains_iff_mem.1 this
  · intro hx
    exact c x (hall x hx) (by simp) (by unfold isNamed; exact List.contains_iff_mem.2 hx)

/-- a cyclic graph (cannot be loaded by Go, the hook accepts it): still every named package once -/
example : generationOrder [⟨"m/a", "/w/a", ["m/b"], true⟩, ⟨"m/b", "/w/b", ["m/a"], true⟩, ⟨"m/c", "/w/c", ["m/c"], false⟩]
    = ["m/b", "m/a"] := by decide

/-! ### (b) imported packages first -/

/-- the example of the statements below: `m/c` imports `m/a` imports `m/b`; the directory of `m/b` is named by the
relative path `../b` (its own package object), `m/b` itself is only imported -/
def ex4 : List Pkg :=
  [⟨"m/c", "/w/c", ["m/a"], true⟩, ⟨"m/a", "/w/a", ["m/b"], true⟩, ⟨"m/b", "/w/b", [], false⟩, ⟨"../b", "/w/b", [], true⟩]

def ex4rank (s : String) : Nat := if s = "m/c" then 2 else if s = "m/a" then 1 else 0

/-- On an acyclic graph (a rank decreases along every step of the walk), a named package `p` comes after
every named package `q` it reaches by steps "imports" / "named package in the directory of an import". -/
theorem order_reaches_first {G : List Pkg} (hwf : WF G) (rank : String → Nat)
    (hr : ∀ x y, Step G x y → rank y < rank x) {p q : String}
    (hp : p ∈ namedSorted G) (hq : q ∈ namedSorted G) (h : Reaches G p q) :
    Before q p (generationOrder G) := by
  have hU : ∀ p, p ∉ G.map (·.path) → children (ctxOf G) p = [] := fun p hp => children_unknown hp
  have hfin := top_rank (nm := isNamed (ctxOf G)) hU rank (fun x y hy => hr x y ((mem_children hwf).1 hy))
    (G.length + 1) (ctxOf G).named ⟨[], []⟩ (by simpa using unv_nil_lt G) (by intro x hx; cases hx)
    (by intro x hx; cases hx)
  have hpv := (final_ext G).2 p hp
  obtain ⟨A, B, e, hA⟩ := (hfin p hpv).2 (by unfold isNamed; exact List.contains_iff_mem.2 hp)
  refine ⟨A, B, ?_, hA q ((desc_iff_reaches hwf).2 h) (by unfold isNamed; exact List.contains_iff_mem.2 hq)⟩
  unfold generationOrder
  rw [runWith_eq]
  exact e

/-- `m/c` reaches `../b`: it imports `m/a`, and `../b` is the named package of the directory of `m/b`, which `m/a` imports -/
example : Before "../b" "m/c" (generationOrder ex4) :=
  order_reaches_first (G := ex4) (by decide) ex4rank (rankOK_sound (by decide)) (by decide) (by decide)
    (.step ⟨⟨"m/c", "/w/c", ["m/a"], true⟩, by decide, rfl, "m/a", by decide, Or.inl rfl⟩
      (.base ⟨⟨"m/a", "/w/a", ["m/b"], true⟩, by decide, rfl, "m/b", by decide,
        Or.inr ⟨⟨"m/b", "/w/b", [], false⟩, by decide, rfl, ⟨"../b", "/w/b", [], true⟩, by decide, rfl, rfl, by decide, rfl⟩⟩))

/-- The statement of C08 for the order: if the named package `p` imports, directly or transitively, the
package `q'`, and `q` is a named package of the directory of `q'` (`q'` itself, or its twin under a relative
path), then `q` is generated before `p`. Acyclicity: see the header (Go rejects import cycles). -/
theorem order_imports_first {G : List Pkg} (hwf : WF G) (rank : String → Nat)
    (hr : ∀ x y, Step G x y → rank y < rank x) {p q q' : Pkg}
    (hp : p ∈ G) (hpn : p.named = true) (hq : q ∈ G) (hqn : q.named = true) (hq' : q' ∈ G)
    (hdir : q.dir = q'.dir) (hne : q.path ≠ p.path) (himp : ImportsT G p.path q'.path) :
    Before q.path p.path (generationOrder G) :=
  order_reaches_first hwf rank hr (mem_named.2 ⟨p, hp, hpn, rfl⟩) (mem_named.2 ⟨q, hq, hqn, rfl⟩)
    (importsT_reaches himp q' hq' rfl q hq hqn hdir hne)

/-- the decidable certificate implies the hypothesis -/
theorem rankOK_acyclic {G : List Pkg} {rank : String → Nat} (h : rankOK G rank = true) :
    ∀ x y, Step G x y → rank y < rank x := rankOK_sound h

/-- a rank that is not one is refused: the certificate is not vacuous -/
example : rankOK ex4 ex4rank = true ∧ rankOK ex4 (fun _ => 0) = false ∧
    -- the graph with the twin importing back has no rank at all; e.g. this one is refused
    rankOK [⟨"m/p", "/w/p", ["m/q"], true⟩, ⟨"m/q", "/w/q", [], false⟩, ⟨"../q", "/w/q", ["m/p"], true⟩]
      (fun s => if s = "../q" then 2 else if s = "m/p" then 1 else 0) = false := by decide

example : generationOrder ex4 = ["../b", "m/a", "m/c"] := by decide

/-- `m/c` imports `m/b` through `m/a`; `../b` is the named package of the directory of `m/b`: it comes first.
The hypotheses are satisfiable (the conclusion is checked against the computed order above). -/
example : Before "../b" "m/c" (generationOrder ex4) :=
  order_imports_first (G := ex4) (by decide) ex4rank (rankOK_acyclic (by decide))
    (p := ⟨"m/c", "/w/c", ["m/a"], true⟩) (q := ⟨"../b", "/w/b", [], true⟩) (q' := ⟨"m/b", "/w/b", [], false⟩)
    (by decide) rfl (by decide) rfl (by decide) rfl (by decide)
    (.step (px := ⟨"m/c", "/w/c", ["m/a"], true⟩) (by decide) (by decide)
      (.base (px := ⟨"m/a", "/w/a", ["m/b"], true⟩) (by decide) (by decide)))

/-- without the reordering (path order alone) `../b` < `m/a` < `m/c` would already do here; in the other
direction it matters: `../z` is named, imports `m/a`, and sorts first -/
example : generationOrder [⟨"../z", "/w/z", ["m/a"], true⟩, ⟨"m/a", "/w/a", [], false⟩, ⟨"./a", "/w/a", [], true⟩]
    = ["./a", "../z"] ∧ namedSorted [⟨"../z", "/w/z", ["m/a"], true⟩, ⟨"m/a", "/w/a", [], false⟩, ⟨"./a", "/w/a", [], true⟩]
    = ["../z", "./a"] := by decide

/-- why acyclicity of the imports alone is not enough on abstract graphs: `p` imports `q'`, the named twin `q`
of `q'` imports `p`; imports are acyclic, the statement would demand `q` before `p` and `p` before `q` -/
example : generationOrder [⟨"m/p", "/w/p", ["m/q"], true⟩, ⟨"m/q", "/w/q", [], false⟩, ⟨"../q", "/w/q", ["m/p"], true⟩]
    = ["m/p", "../q"] := by decide

/-! ### (c) independence of the order of the arguments -/

/-- The result does not depend on the order in which the packages were listed (the order of the arguments
on the command line, the iteration order of the loader's maps). -/
theorem order_arg_invariant {xs ys : List Pkg} (hwf : WF xs) (h : xs.Perm ys) :
    generationOrder xs = generationOrder ys := by
  unfold generationOrder runWith
  rw [ctxOf_perm hwf h, h.length_eq]

example : generationOrder ex4 = generationOrder ex4.reverse :=
  order_arg_invariant (by decide) (List.reverse_perm _).symm

example : generationOrder ex4.reverse = ["../b", "m/a", "m/c"] := by decide

/-! ### (d) unrelated packages in path order -/

/-- If no named package reaches a named package, the packages are generated in path order. -/
theorem order_deterministic_roots {G : List Pkg} (hwf : WF G)
    (hun : ∀ p q, p ∈ namedSorted G → Reaches G p q → q ∉ namedSorted G) :
    generationOrder G = namedSorted G := by
  have hU : ∀ p, p ∉ G.map (·.path) → children (ctxOf G) p = [] := fun p hp => children_unknown hp
  have := top_unrelated (nm := isNamed (ctxOf G)) hU (by
      intro p q hp hd
      have := hun p q (List.contains_iff_mem.1 hp) ((desc_iff_reaches hwf).1 hd)
      unfold isNamed
      cases hc : (ctxOf G).named.contains q with
      | false => rfl
      | true => exact absurd (List.contains_iff_mem.1 hc) this)
    (G.length + 1) (ctxOf G).named ⟨[], []⟩ (by simpa using unv_nil_lt G) (by intro x hx; cases hx)
    (named_nodup hwf) (fun p hp => by unfold isNamed; exact List.contains_iff_mem.2 hp)
    (by intro p _ h; cases h) (by intro x hx; cases hx)
  unfold generationOrder
  rw [runWith_eq]
  unfold finalState
  rw [this]
  rfl

/-- in particular: named packages that import nothing come out in path order -/
theorem order_no_imports {G : List Pkg} (hwf : WF G) (h : ∀ p ∈ G, p.named = true → p.imports = []) :
    generationOrder G = namedSorted G := by
  refine order_deterministic_roots hwf ?_
  intro p q hp hr
  obtain ⟨t, ht, htn, rfl⟩ := mem_named.1 hp
  have hstep : ∀ y, ¬ Step G t.path y := by
    rintro y ⟨px, hpx, hpath, i, hi, _⟩
    have : px = t := by
      have h1 := look_of_mem hwf hpx
      have h2 := look_of_mem hwf ht
      rw [hpath, h2] at h1
      exact (Option.some.inj h1).symm
    subst this
    rw [h px hpx htn] at hi
    cases hi
  cases hr with
  | base hs => exact absurd hs (hstep _)
  | step hs _ => exact absurd hs (hstep _)

/-- `m/b` imports the unnamed `m/u`, which imports the unnamed `m/v`: no named package reaches a named one -/
example : generationOrder [⟨"m/b", "/w/b", ["m/u"], true⟩, ⟨"../a", "/w/a", [], true⟩, ⟨"m/u", "/w/u", ["m/v"], false⟩,
    ⟨"m/v", "/w/v", [], false⟩] = ["../a", "m/b"] := by decide

example : generationOrder [⟨"m/b", "/w/b", [], true⟩, ⟨"../a", "/w/a", [], true⟩, ⟨"m/u", "/w/u", ["m/b"], false⟩] =
    namedSorted [⟨"m/b", "/w/b", [], true⟩, ⟨"../a", "/w/a", [], true⟩, ⟨"m/u", "/w/u", ["m/b"], false⟩] :=
  order_no_imports (by decide) (by decide)

end Goderive.C08o
