/-
Property C15: Curry, Uncurry, Flip, Apply, Tuple only re-plumb arguments.

"For every non-variadic function signature, calling the function returned by derived Curry, Uncurry,
Flip or Apply invokes the original function exactly once with every argument in its proper position
(first two swapped for Flip, last one pre-bound for Apply) and returns its results unchanged; Uncurry
of Curry of f behaves as f, and Tuple returns a function yielding exactly its arguments."

Model: S/Plumb.lean — the emitted wrapper as a term with NAMED binding and shadowing (`f` bound first,
then each parameter list, body `f(names…)`), `eval` against a logging function, `wf` = does the text
type-check. Specification: Spec/Funcs.lean (positional, knows nothing about names). Proofs:
Lemmas/Funcs.lean.

Shape of the statements. `ps` ranges over ALL parameter lists (names, blank `_`, unnamed `[]`, any
length, any types), `f` over all functions, the arguments over all values of any type `α`.
`ValidSig ps` is not a restriction: it is Go's own rule that the parameter names one can refer to are
pairwise distinct. The FULL statement would be

    ∀ ps f a rest, ValidSig ps → ps.length = rest.length + 1 →
      runCurry Cfg.current ps f a rest = Spec.currySpec f a rest        (and likewise flip/apply/uncurry)

It is FALSE for the generator as it is (`*_full_fails` below, each by `decide` on a concrete
signature, replayed on the real tool by the check): the wrapper text only means what is intended when
every parameter has a name (`Side.named`), no parameter is called like the generator's own binder `f`
(`Side.nocapture`), for uncurry no outer name equals an inner name after the generator's own
`param_<i>` / `innerParam_<i>` renaming, and — for the text to compile at all — the function has at
least one result. The `_partial` theorems carry exactly that side condition, parameterised by the
model variant `cfg` (one boolean per defect class, selected by probing the real tool): each clause
disappears when the corresponding defect is repaired: the `*_fixed` theorems are the full-strength
statements for every variant `cfg` whose relevant flags are set (they name exactly the flags they
need; `probed` below is the variant the check selects on the tree at 94a60e5: everything repaired, so
every `*_fixed` theorem applies and NO wrapper of the family needs a side condition any more; the
`_partial` theorems and the `*_full_fails` witnesses document the historical variants).

"Exactly once": a wrapper is a nest of function literals; building it (and every partial
application) evaluates nothing, and each INVOCATION of the innermost function calls `f` once —
`run*` is the meaning of one invocation; the check invokes every returned function twice and observes
the call log before the first invocation.
-/
import GoderiveModel.Lemmas.Funcs

namespace Goderive.C15
open Goderive Goderive.Plumb

/-! ### concrete signatures used by the non-vacuity examples and the witnesses -/

/-- `func(a T0, _ T1, c T2)` -/
def sigABC : List Param := [⟨['a'], 0⟩, ⟨['_'], 1⟩, ⟨['c'], 2⟩]
/-- `func(param_1 T0, _ T1)`: a user name that already looks like a generated one -/
def sigPre : List Param := [⟨paramPrefix ++ ['1'], 0⟩, ⟨['_'], 1⟩]
/-- `func(T0, T1)` -/
def sigUnnamed : List Param := [⟨[], 0⟩, ⟨[], 1⟩]
/-- `func(f T0, b T1)` -/
def sigF : List Param := [⟨['f'], 0⟩, ⟨['b'], 1⟩]
/-- `func(a T0, f T1)` -/
def sigLastF : List Param := [⟨['a'], 0⟩, ⟨['f'], 1⟩]
/-- `func(a T0, b T1)` -/
def sigAB : List Param := [⟨['a'], 0⟩, ⟨['b'], 1⟩]

def rev (l : List Nat) : List Nat := l.reverse

/-- the model variant probed on the current tree (94a60e5): every repair landed -/
def probed : Cfg := Cfg.fixed

/-- the variant before the last repair (18449d4): two parameter lists of uncurry that share a
user-written name still clashed (F6b) -/
def beforeCross : Cfg := { Cfg.fixed with crossFixed := false }

private theorem okNames (cfg : Cfg) {ps : List Param} (hv : ValidSig ps) (hs : Side cfg [fName] ps) :
    NamesOk [fName] (effParams cfg [fName] paramPrefix ps) :=
  effParams_namesOk cfg (by simp [paramPrefix]) (by simp [fName, paramPrefix]) avoidOk_f ps hv hs

/-! ### `derive.RenameBlankIdentifier` -/

/-- whenever the `param_<i>` scheme renames (some parameter is unusable: `_`, and — per repaired
variant — unnamed, `f`, `err`, `param_…`, `innerParam_…`, a predeclared identifier), the resulting names
are pairwise distinct and every one can be referred to, including when the user's own names already
look like `param_<j>`; the unusable names are gone -/
theorem rename_distinct (cfg : Cfg) (ps : List Param) (hv : ValidSig ps)
    (hnamed : cfg.unnamedFixed = true ∨ ∀ n ∈ names ps, n ≠ []) :
    (names (renameBlank cfg ps)).Nodup ∧ (∀ n ∈ names (renameBlank cfg ps), usable n = true) ∧
    (hasBlank cfg ps = true → ∀ n ∈ names (renameBlank cfg ps), unusable cfg n = false ∨ ∃ j, n = genName paramPrefix j) := by
  have h := namesOk_renameBlankWith cfg (pre := paramPrefix) (avoid := []) (by simp [paramPrefix]) ps hv
    (fun n hn e => by
      rcases mem_names_renameBlankWith hn with ⟨j, ej⟩ | ⟨hm, hu⟩
      · have := genName_length paramPrefix j; rw [← ej, e] at this; simp at this
      · rcases hnamed with hf | hnamed
        · subst e; simp [unusable, hf] at hu
        · exact hnamed n hm e)
    (fun _ _ h => by cases h)
  refine ⟨h.2.1, h.1, fun _ n hn => ?_⟩
  rcases mem_names_renameBlankWith hn with ⟨j, ej⟩ | ⟨_, hu⟩
  · exact Or.inr ⟨j, ej⟩
  · exact Or.inl hu

example : hasBlank {} sigPre = true ∧ names (renameBlank {} sigPre) = [paramPrefix ++ ['0'], paramPrefix ++ ['1']] := by decide
example : ValidSig sigPre ∧ ∀ n ∈ names sigPre, n ≠ [] := by decide
/-- on the probed variant `func(string T0, param_7 T1, nil T2)` becomes `func(param_0, param_1, param_2)` -/
example : names (renameBlank probed [⟨['s','t','r','i','n','g'], 0⟩, ⟨paramPrefix ++ ['7'], 1⟩, ⟨['n','i','l'], 2⟩])
    = [paramPrefix ++ ['0'], paramPrefix ++ ['1'], paramPrefix ++ ['2']] := by decide

/-! ### Curry -/

/-- Curry, under the side condition of the model variant `cfg` -/
theorem curry_spec_partial {α} (cfg : Cfg) (ps : List Param) (f : List α → List α) (a : α) (rest : List α)
    (hlen : ps.length = rest.length + 1) (hv : ValidSig ps) (hs : Side cfg [fName] ps) :
    runCurry cfg ps f a rest = Spec.currySpec f a rest :=
  runCurry_eq cfg ps f a rest hlen (okNames cfg hv hs)

example : runCurry Cfg.current sigABC rev 1 [2, 3] = some ([[1, 2, 3]], [3, 2, 1]) :=
  curry_spec_partial Cfg.current sigABC rev 1 [2, 3] rfl (by decide) (side_current (by decide) (by decide))

/-- with the defects repaired the statement holds at full strength -/
theorem curry_spec_fixed {α} (cfg : Cfg) (hu : cfg.unnamedFixed = true) (hs : cfg.shadowFixed = true)
    (ps : List Param) (f : List α → List α) (a : α) (rest : List α)
    (hlen : ps.length = rest.length + 1) (hv : ValidSig ps) :
    runCurry cfg ps f a rest = Spec.currySpec f a rest :=
  curry_spec_partial cfg ps f a rest hlen hv (side_of_flags hu hs _ _)

example : runCurry Cfg.fixed sigUnnamed rev 1 [2] = some ([[1, 2]], [2, 1]) :=
  curry_spec_fixed Cfg.fixed rfl rfl sigUnnamed rev 1 [2] rfl (by decide)
example : runCurry probed sigF rev 1 [2] = some ([[1, 2]], [2, 1]) :=
  curry_spec_fixed probed rfl rfl sigF rev 1 [2] rfl (by decide)

/-- the emitted curry wrapper type-checks under the same condition, provided there is a result to
`return` (or that defect is repaired) -/
theorem curry_compiles_partial (cfg : Cfg) (ps : List Param) (nres : Nat) (hlen : 1 ≤ ps.length)
    (hv : ValidSig ps) (hs : Side cfg [fName] ps) (hret : 0 < nres ∨ cfg.voidFixed = true) :
    wrapperWellFormed (curryTm cfg ps nres) = true :=
  curry_wf cfg ps nres hlen (okNames cfg hv hs) hret

example : wrapperWellFormed (curryTm Cfg.current sigABC 2) = true :=
  curry_compiles_partial Cfg.current sigABC 2 (by decide) (by decide) (side_current (by decide) (by decide)) (Or.inl (by decide))

/-- the full statement is false today: unnamed parameters (`f(, )`) and a parameter called `f` -/
theorem curry_full_fails :
    ¬ ∀ (ps : List Param) (f : List Nat → List Nat) (a : Nat) (rest : List Nat),
        ValidSig ps → ps.length = rest.length + 1 →
        runCurry Cfg.current ps f a rest = Spec.currySpec f a rest := by
  intro h
  exact absurd (h sigUnnamed rev 1 [2] (by decide) rfl) (by decide)

example : runCurry Cfg.current sigUnnamed rev 1 [2] = none := by decide
example : runCurry Cfg.current sigF rev 1 [2] = none := by decide

/-- … and the model predicts that those wrappers, and every wrapper around a function without
results (`return f(…)`), do not compile -/
theorem curry_witnesses :
    wrapperWellFormed (curryTm Cfg.current sigUnnamed 1) = false ∧
    wrapperWellFormed (curryTm Cfg.current sigF 1) = false ∧
    wrapperWellFormed (curryTm Cfg.current sigAB 0) = false ∧
    wrapperWellFormed (curryTm Cfg.current sigAB 1) = true := by decide

/-! ### Flip -/

theorem flip_spec_partial {α} (cfg : Cfg) (ps : List Param) (f : List α → List α) (a b : α) (rest : List α)
    (hlen : ps.length = rest.length + 2) (hv : ValidSig ps) (hs : Side cfg [fName] ps) :
    runFlip cfg ps f (b :: a :: rest) = Spec.flipSpec f (b :: a :: rest) :=
  runFlip_eq cfg ps f a b rest hlen (okNames cfg hv hs)

example : runFlip Cfg.current sigABC rev [2, 1, 3] = some ([[1, 2, 3]], [3, 2, 1]) :=
  flip_spec_partial Cfg.current sigABC rev 1 2 [3] rfl (by decide) (side_current (by decide) (by decide))

theorem flip_spec_fixed {α} (cfg : Cfg) (hu : cfg.unnamedFixed = true) (hs : cfg.shadowFixed = true)
    (ps : List Param) (f : List α → List α) (a b : α) (rest : List α)
    (hlen : ps.length = rest.length + 2) (hv : ValidSig ps) :
    runFlip cfg ps f (b :: a :: rest) = Spec.flipSpec f (b :: a :: rest) :=
  flip_spec_partial cfg ps f a b rest hlen hv (side_of_flags hu hs _ _)

example : runFlip probed sigF rev [2, 1] = some ([[1, 2]], [2, 1]) :=
  flip_spec_fixed probed rfl rfl sigF rev 1 2 [] rfl (by decide)

theorem flip_compiles_partial (cfg : Cfg) (ps : List Param) (nres : Nat) (hlen : 2 ≤ ps.length)
    (hv : ValidSig ps) (hs : Side cfg [fName] ps) (hret : 0 < nres ∨ cfg.voidFixed = true) :
    wrapperWellFormed (flipTm cfg ps nres) = true :=
  flip_wf cfg ps nres hlen (okNames cfg hv hs) hret

example : wrapperWellFormed (flipTm Cfg.current sigABC 1) = true :=
  flip_compiles_partial Cfg.current sigABC 1 (by decide) (by decide) (side_current (by decide) (by decide)) (Or.inl (by decide))

theorem flip_full_fails :
    ¬ ∀ (ps : List Param) (f : List Nat → List Nat) (a b : Nat) (rest : List Nat),
        ValidSig ps → ps.length = rest.length + 2 →
        runFlip Cfg.current ps f (b :: a :: rest) = Spec.flipSpec f (b :: a :: rest) := by
  intro h
  exact absurd (h sigF rev 1 2 [] (by decide) rfl) (by decide)

example : wrapperWellFormed (flipTm Cfg.current sigF 1) = false := by decide

/-! ### Apply -/

theorem apply_spec_partial {α} (cfg : Cfg) (ps : List Param) (f : List α → List α) (last : α) (others : List α)
    (hlen : ps.length = others.length + 1) (hv : ValidSig ps) (hs : Side cfg [fName] ps) :
    runApply cfg ps f last others = Spec.applySpec f last others :=
  runApply_eq cfg ps f last others hlen (okNames cfg hv hs)

example : runApply Cfg.current sigABC rev 3 [1, 2] = some ([[1, 2, 3]], [3, 2, 1]) :=
  apply_spec_partial Cfg.current sigABC rev 3 [1, 2] rfl (by decide) (side_current (by decide) (by decide))

theorem apply_spec_fixed {α} (cfg : Cfg) (hu : cfg.unnamedFixed = true) (hs : cfg.shadowFixed = true)
    (ps : List Param) (f : List α → List α) (last : α) (others : List α)
    (hlen : ps.length = others.length + 1) (hv : ValidSig ps) :
    runApply cfg ps f last others = Spec.applySpec f last others :=
  apply_spec_partial cfg ps f last others hlen hv (side_of_flags hu hs _ _)

example : runApply probed sigLastF rev 2 [1] = some ([[1, 2]], [2, 1]) :=
  apply_spec_fixed probed rfl rfl sigLastF rev 2 [1] rfl (by decide)

theorem apply_compiles_partial (cfg : Cfg) (ps : List Param) (nres : Nat) (hlen : 1 ≤ ps.length)
    (hv : ValidSig ps) (hs : Side cfg [fName] ps) (hret : 0 < nres ∨ cfg.voidFixed = true) :
    wrapperWellFormed (applyTm cfg ps nres) = true :=
  apply_wf cfg ps nres hlen (okNames cfg hv hs) hret

example : wrapperWellFormed (applyTm Cfg.current sigABC 3) = true :=
  apply_compiles_partial Cfg.current sigABC 3 (by decide) (by decide) (side_current (by decide) (by decide)) (Or.inl (by decide))

/-- for Apply a last parameter called `f` is declared in the same parameter list as the wrapped
function: a duplicate declaration -/
theorem apply_full_fails :
    ¬ ∀ (ps : List Param) (f : List Nat → List Nat) (last : Nat) (others : List Nat),
        ValidSig ps → ps.length = others.length + 1 →
        runApply Cfg.current ps f last others = Spec.applySpec f last others := by
  intro h
  exact absurd (h sigUnnamed rev 2 [1] (by decide) rfl) (by decide)

example : wrapperWellFormed (applyTm Cfg.current sigLastF 1) = false := by decide
example : wrapperWellFormed (applyTm Cfg.current sigUnnamed 1) = false := by decide

/-! ### Uncurry -/

/-- HISTORICAL variants (before 94a60e5, `crossFixed = false`): both parameter lists satisfy the common
condition, and the two lists — as renamed by the generator itself — do not share a name -/
theorem uncurry_spec_partial {α} (cfg : Cfg) (hc : cfg.crossFixed = false)
    (outer inner : List Param) (f : List α → List α) (a : α) (rest : List α)
    (hlen1 : outer.length = 1) (hlen2 : inner.length = rest.length)
    (hvo : ValidSig outer) (hvi : ValidSig inner)
    (hso : Side cfg [fName] outer) (hsi : Side cfg [fName] inner)
    (hx : ∀ n ∈ names (effParams cfg [fName] paramPrefix outer), n ∉ names (effParams cfg [fName] innerPrefix inner)) :
    runUncurry cfg outer inner f (a :: rest) = Spec.uncurrySpec f (a :: rest) :=
  runUncurry_eq cfg outer inner f a rest hlen1 hlen2 (uncurryParams_namesOk cfg outer inner hc hvo hvi hso hsi hx)

example : runUncurry Cfg.current [⟨['a'], 0⟩] [⟨['_'], 1⟩, ⟨['c'], 2⟩] rev [1, 2, 3]
    = some ([[1], [1, 2, 3]], [3, 2, 1]) :=
  uncurry_spec_partial Cfg.current rfl [⟨['a'], 0⟩] [⟨['_'], 1⟩, ⟨['c'], 2⟩] rev 1 [2, 3] rfl rfl (by decide) (by decide)
    (side_current (by decide) (by decide)) (side_current (by decide) (by decide)) (by decide)

/-- THE CURRENT CODE (94a60e5; unnamed, `f`/`err`, the generator's own prefixes unusable, and an inner
parameter that bears the outer parameter's name renamed to `innerParam_<its index>` before the blank
renaming): NO side condition. For every outer parameter and every inner parameter list that Go accepts,
`deriveUncurry(fc)(a, rest…)` enters `fc` once with `a` and the function it returns once with `rest`,
every argument in its position. -/
theorem uncurry_spec_fixed {α} (cfg : Cfg) (hu : cfg.unnamedFixed = true) (hs : cfg.shadowFixed = true)
    (hpf : cfg.prefixFixed = true) (hc : cfg.crossFixed = true)
    (outer inner : List Param) (f : List α → List α) (a : α) (rest : List α)
    (hlen1 : outer.length = 1) (hlen2 : inner.length = rest.length)
    (hvo : ValidSig outer) (hvi : ValidSig inner) :
    runUncurry cfg outer inner f (a :: rest) = Spec.uncurrySpec f (a :: rest) :=
  runUncurry_eq cfg outer inner f a rest hlen1 hlen2 (uncurryParams_namesOk_fixed cfg hu hs hpf hc outer inner hlen1 hvo hvi)

example : runUncurry probed [⟨['a'], 0⟩] [⟨['a'], 1⟩] rev [1, 2] = some ([[1], [1, 2]], [2, 1]) :=
  uncurry_spec_fixed probed rfl rfl rfl rfl [⟨['a'], 0⟩] [⟨['a'], 1⟩] rev 1 [2] rfl rfl (by decide) (by decide)

/-- `func(a A) func(_ B, a C) R`: `renameParam` makes the second inner parameter `innerParam_1` (its index
in the inner list), then the blank becomes `innerParam_0`: merged list `a, innerParam_0, innerParam_1` -/
example : uncurryParams probed [⟨['a'], 0⟩] [⟨['_'], 1⟩, ⟨['a'], 2⟩]
    = ([⟨['a'], 0⟩], [⟨innerPrefix ++ ['0'], 1⟩, ⟨innerPrefix ++ ['1'], 2⟩]) := by decide
/-- … also when the user wrote `innerParam_1` himself: `func(a A) func(innerParam_1 B, a C) R` -/
example : names (uncurryParams probed [⟨['a'], 0⟩] [⟨innerPrefix ++ ['1'], 1⟩, ⟨['a'], 2⟩]).2
    = [innerPrefix ++ ['0'], innerPrefix ++ ['1']] := by decide
example : runUncurry probed [⟨['a'], 0⟩] [⟨['_'], 1⟩, ⟨['a'], 2⟩] rev [1, 2, 3] = some ([[1], [1, 2, 3]], [3, 2, 1]) :=
  uncurry_spec_fixed probed rfl rfl rfl rfl _ _ rev 1 [2, 3] rfl rfl (by decide) (by decide)

theorem uncurry_compiles_partial (cfg : Cfg) (hc : cfg.crossFixed = false) (outer inner : List Param) (nres : Nat)
    (hvo : ValidSig outer) (hvi : ValidSig inner)
    (hso : Side cfg [fName] outer) (hsi : Side cfg [fName] inner)
    (hx : ∀ n ∈ names (effParams cfg [fName] paramPrefix outer), n ∉ names (effParams cfg [fName] innerPrefix inner))
    (hret : 0 < nres ∨ cfg.voidFixed = true) :
    wrapperWellFormed (uncurryTm cfg outer inner nres) = true :=
  uncurry_wf cfg outer inner nres (uncurryParams_namesOk cfg outer inner hc hvo hvi hso hsi hx) hret

example : wrapperWellFormed (uncurryTm Cfg.current [⟨['a'], 0⟩] [⟨['_'], 1⟩, ⟨['c'], 2⟩] 1) = true :=
  uncurry_compiles_partial Cfg.current rfl [⟨['a'], 0⟩] [⟨['_'], 1⟩, ⟨['c'], 2⟩] 1 (by decide) (by decide)
    (side_current (by decide) (by decide)) (side_current (by decide) (by decide)) (by decide) (Or.inl (by decide))

/-- the current code: the uncurry wrapper compiles for every pair of parameter lists and every number
of results -/
theorem uncurry_compiles_fixed (cfg : Cfg) (hu : cfg.unnamedFixed = true) (hs : cfg.shadowFixed = true)
    (hpf : cfg.prefixFixed = true) (hc : cfg.crossFixed = true) (hvoid : cfg.voidFixed = true)
    (outer inner : List Param) (nres : Nat) (hlen1 : outer.length = 1) (hvo : ValidSig outer) (hvi : ValidSig inner) :
    wrapperWellFormed (uncurryTm cfg outer inner nres) = true :=
  uncurry_wf cfg outer inner nres (uncurryParams_namesOk_fixed cfg hu hs hpf hc outer inner hlen1 hvo hvi) (Or.inr hvoid)

example : wrapperWellFormed (uncurryTm probed [⟨['a'], 0⟩] [⟨['a'], 1⟩, ⟨['_'], 2⟩] 0) = true :=
  uncurry_compiles_fixed probed rfl rfl rfl rfl rfl _ _ 0 rfl (by decide) (by decide)

/-- at the pinned commit: `func(a A) func(a B) R` gave `func(a A, a B) R`; and the generator's own renaming
clashed with a user name: `func(innerParam_0 A) func(_ B) R` -/
theorem uncurry_full_fails :
    ¬ ∀ (outer inner : List Param) (f : List Nat → List Nat) (a : Nat) (rest : List Nat),
        ValidSig outer → ValidSig inner → outer.length = 1 → inner.length = rest.length →
        (∀ n ∈ names outer ++ names inner, n ≠ [] ∧ n ≠ fName) →
        runUncurry Cfg.current outer inner f (a :: rest) = Spec.uncurrySpec f (a :: rest) := by
  intro h
  exact absurd (h [⟨['a'], 0⟩] [⟨['a'], 1⟩] rev 1 [2] (by decide) (by decide) rfl rfl (by decide)) (by decide)

example : wrapperWellFormed (uncurryTm Cfg.current [⟨innerPrefix ++ ['0'], 0⟩] [⟨['_'], 1⟩] 1) = false := by decide
example : wrapperWellFormed (uncurryTm Cfg.current [⟨['a'], 0⟩] [⟨['a'], 1⟩] 1) = false := by decide

/-! ### Uncurry of Curry -/

/-- `deriveUncurry(deriveCurry(f))` behaves as `f`. Uncurry sees the (already renamed) signature of the
curry wrapper and renames it once more with its own prefixes: `hs2` is the naming condition of that
second round (on the pinned commit it followed from the first; since `param_…` is itself unusable it is
a statement of its own) -/
theorem uncurry_curry_partial {α} (cfg : Cfg) (ps : List Param) (f : List α → List α) (a : α) (rest : List α)
    (hlen : ps.length = rest.length + 1) (hv : ValidSig ps) (hs : Side cfg [fName] ps)
    (hs2 : NamesOk [fName]
      ((uncurryParams cfg (currySig (effParams cfg [fName] paramPrefix ps)).1 (currySig (effParams cfg [fName] paramPrefix ps)).2).1 ++
       (uncurryParams cfg (currySig (effParams cfg [fName] paramPrefix ps)).1 (currySig (effParams cfg [fName] paramPrefix ps)).2).2)) :
    runUncurryCurry cfg ps f (a :: rest) = Spec.callOnce f (a :: rest) :=
  runUncurryCurry_eq cfg ps f a rest hlen (okNames cfg hv hs) hs2

example : runUncurryCurry Cfg.current sigABC rev [1, 2, 3] = some ([[1, 2, 3]], [3, 2, 1]) :=
  uncurry_curry_partial Cfg.current sigABC rev 1 [2, 3] rfl (by decide) (side_current (by decide) (by decide))
    (by unfold NamesOk; decide)

/-- full strength on every variant where unnamed, `f`/`err` and the generator's own prefixes are unusable -/
theorem uncurry_curry_fixed {α} (cfg : Cfg) (hu : cfg.unnamedFixed = true) (hs : cfg.shadowFixed = true)
    (hpf : cfg.prefixFixed = true)
    (ps : List Param) (f : List α → List α) (a : α) (rest : List α)
    (hlen : ps.length = rest.length + 1) (hv : ValidSig ps) :
    runUncurryCurry cfg ps f (a :: rest) = Spec.callOnce f (a :: rest) := by
  have hok := okNames cfg hv (side_of_flags hu hs [fName] ps)
  refine uncurry_curry_partial cfg ps f a rest hlen hv (side_of_flags hu hs _ _) ?_
  have he : (currySig (effParams cfg [fName] paramPrefix ps)).1 ++ (currySig (effParams cfg [fName] paramPrefix ps)).2
      = effParams cfg [fName] paramPrefix ps := List.take_append_drop 1 _
  rw [← he] at hok
  cases hcv : cfg.crossFixed with
  | false =>
    refine uncurryParams_namesOk_prefix cfg hu hs hpf hcv _ _ (validSig_of_namesOk hok.left) (validSig_of_namesOk hok.right) ?_
    intro n h1 h2
    have := hok.2.1
    rw [names_append] at this
    exact absurd rfl ((List.nodup_append.1 this).2.2 n h1 n h2)
  | true =>
    refine uncurryParams_namesOk_fixed cfg hu hs hpf hcv _ _ ?_ (validSig_of_namesOk hok.left) (validSig_of_namesOk hok.right)
    have hl := length_effParams cfg [fName] paramPrefix ps
    simp only [currySig, List.length_take]
    omega

example : runUncurryCurry probed sigUnnamed rev [1, 2] = some ([[1, 2]], [2, 1]) :=
  uncurry_curry_fixed probed rfl rfl rfl sigUnnamed rev 1 [2] rfl (by decide)

/-- Uncurry on the variant between c612461 and 94a60e5: the side condition that was left is the user's
own clash — a name written in BOTH parameter lists that is not renamed anyway (finding F6b, since
repaired); the clashes through the generator's own `param_<i>` / `innerParam_<i>` names were gone -/
theorem uncurry_spec_prefix {α} (cfg : Cfg) (hu : cfg.unnamedFixed = true) (hs : cfg.shadowFixed = true)
    (hpf : cfg.prefixFixed = true) (hc : cfg.crossFixed = false)
    (outer inner : List Param) (f : List α → List α) (a : α) (rest : List α)
    (hlen1 : outer.length = 1) (hlen2 : inner.length = rest.length)
    (hvo : ValidSig outer) (hvi : ValidSig inner)
    (hd : ∀ n ∈ names outer, n ∈ names inner → unusable cfg n = true) :
    runUncurry cfg outer inner f (a :: rest) = Spec.uncurrySpec f (a :: rest) :=
  runUncurry_eq cfg outer inner f a rest hlen1 hlen2 (uncurryParams_namesOk_prefix cfg hu hs hpf hc outer inner hvo hvi hd)

/-- `func(innerParam_0 A) func(_ B, param_0 C) R` and `func(_ A) func(_ B) R` are fine now -/
example : runUncurry beforeCross [⟨innerPrefix ++ ['0'], 0⟩] [⟨['_'], 1⟩, ⟨paramPrefix ++ ['0'], 2⟩] rev [1, 2, 3]
    = some ([[1], [1, 2, 3]], [3, 2, 1]) :=
  uncurry_spec_prefix beforeCross rfl rfl rfl rfl _ _ rev 1 [2, 3] rfl rfl (by decide) (by decide) (by decide)
example : wrapperWellFormed (uncurryTm beforeCross [⟨innerPrefix ++ ['0'], 0⟩] [⟨['_'], 1⟩] 1) = true := by decide
/-- … `func(a A) func(a B) R` was not, and is now -/
example : wrapperWellFormed (uncurryTm beforeCross [⟨['a'], 0⟩] [⟨['a'], 1⟩] 1) = false ∧
    wrapperWellFormed (uncurryTm probed [⟨['a'], 0⟩] [⟨['a'], 1⟩] 1) = true := by decide

/-- named results: when one of them bears a name the wrappers use (`f`, `param_…`, `innerParam_…`) all
result names are dropped (`resultsFixed`), and nothing is left that could hide or duplicate a name -/
theorem results_stripped (cfg : Cfg) (hr : cfg.resultsFixed = true) (outerPs inner rs : List Name)
    (hc : rs.any capturing = true) (hin : nodupB (inner.filter fun n => n != [] && n != blank) = true) :
    resultsOk outerPs inner (effResults cfg rs) = true :=
  resultsOk_stripped cfg hr outerPs inner rs hc hin

example : resultsOk [['a']] [['b']] (effResults probed [['f']]) = true := results_stripped probed rfl _ _ _ (by decide) (by decide)
/-- before that repair a result called `f` hid the wrapped function, `param_0` collided with a renamed parameter -/
example : resultsOk [['a']] [['b']] (effResults {} [['f']]) = false ∧
    resultsOk [] [paramPrefix ++ ['0'], ['b']] (effResults {} [paramPrefix ++ ['0']]) = false ∧
    resultsOk [['a']] [['b']] (effResults {} [['e', 'r', 'r']]) = true := by decide

/-- on a variant with the naming and the result-less defects repaired every curry / flip / apply
wrapper compiles, for every signature -/
theorem plumb_compiles_fixed (cfg : Cfg) (hu : cfg.unnamedFixed = true) (hs : cfg.shadowFixed = true)
    (hvoid : cfg.voidFixed = true) (ps : List Param) (nres : Nat) (hlen : 2 ≤ ps.length) (hv : ValidSig ps) :
    wrapperWellFormed (curryTm cfg ps nres) = true ∧ wrapperWellFormed (flipTm cfg ps nres) = true ∧
    wrapperWellFormed (applyTm cfg ps nres) = true :=
  ⟨curry_compiles_partial cfg ps nres (by omega) hv (side_of_flags hu hs _ _) (Or.inr hvoid),
   flip_compiles_partial cfg ps nres hlen hv (side_of_flags hu hs _ _) (Or.inr hvoid),
   apply_compiles_partial cfg ps nres (by omega) hv (side_of_flags hu hs _ _) (Or.inr hvoid)⟩

example : wrapperWellFormed (curryTm probed sigUnnamed 0) = true :=
  (plumb_compiles_fixed probed rfl rfl rfl sigUnnamed 0 (by decide) (by decide)).1

/-! ### Tuple (full strength: the generator chooses all names itself) -/

theorem tuple_spec {α} (ts : List Nat) (args : List α) (hlen : ts.length = args.length) :
    runTuple ts args = Spec.tupleSpec args ∧ wrapperWellFormed (tupleTm ts) = true :=
  ⟨runTuple_eq ts args hlen, tuple_wf ts⟩

example : runTuple [0, 1, 2] [7, 8, 9] = some ([], [7, 8, 9]) := (tuple_spec [0, 1, 2] [7, 8, 9] rfl).1

end Goderive.C15
