/-
C01 (work-list part) — every derive call, including calls nested in other derive calls and every helper
needed transitively, resolves to exactly one generated function; the generate-until-done loop of
`pkg.Generate` terminates.

Model: `G/Worklist.lean` (`run req P fuel`, snapshot semantics and plugin order of the Go loop;
`req` = the ordered helper requests of `Generate`, a parameter). Lemmas: `Lemmas/Worklist.lean`.
All statements are full strength. Not in this file (other parts of C01): names (`G/TypesMap`,
`G/NewName`; finding F13 is about names, not keys), assignability-based lookup (`Unambiguous`, F1),
imports, type-correctness of the emitted bodies (go/types oracle).

Concrete instance used by the examples (`Lemmas/Worklist.lean`, `Ex`): plugins compare=0, equal=1,
keys=2, sort=3; `equal(*T)` of a recursive struct requests itself; `compare(map[K]int)` requests
`sort([]K)`, `keys(map[K]int)` and `compare(K)`; `sort([]K)` requests `compare(K)`; `compare(K)`
requests `compare(map[K]int)` back.
-/
import GoderiveModel.Lemmas.Worklist

namespace Goderive.C01
open Goderive.G.Worklist

variable {req : Key → List Key} {init : List Key}

/-! ## 1. Soundness of a finished run -/

/-- If the loop returns, then (a) the registered keys are exactly the derive calls of the package and
the helpers they need transitively, (b) every registered key has been generated, (c) exactly once:
no key is registered twice, none is emitted twice, and the emission list is a permutation of the
tables. No assumption on `req`, `P`, `init` (a key of a plugin `≥ P` is never generated, so `run`
does not return `some` then; see `run_terminates` for the side conditions of termination). -/
theorem run_sound {P fuel : Nat} {s : State}
    (h : run req P fuel (initState init) = some s) :
    (∀ k, k ∈ s.keys ↔ Reach req init k) ∧
    (∀ k ∈ s.keys, k ∈ s.emitted) ∧
    s.emitted.Nodup ∧ s.keys.Nodup ∧ s.emitted.Perm s.keys := by
  obtain ⟨hr, hd⟩ := reachable_run .init h
  have hi := inv_of_reachable hr
  have hdone := isDone_iff.1 hd
  refine ⟨fun k => ⟨hi.keys_reach k, fun hk => ?_⟩, hdone, hi.emitted_nodup, hi.keys_nodup, ?_⟩
  · exact reach_of_closed hi.init_sub (fun k hk r hr => hi.req_closed k (hdone k hk) r hr) hk
  · exact (List.perm_ext_iff_of_nodup hi.emitted_nodup hi.keys_nodup).2
      fun k => ⟨hi.emitted_sub k, hdone k⟩

example : run Ex.req 4 3 (initState Ex.init) = some Ex.final := Ex.run_eq
example : Ex.final.emitted.Perm Ex.final.keys ∧ Reach Ex.req Ex.init (0, 5) :=
  ⟨(run_sound Ex.run_eq).2.2.2.2, ((run_sound Ex.run_eq).1 (0, 5)).1 (by decide)⟩

/-- "Resolves to exactly one generated function": every derive call of the package, every call nested
in the function generated for it, and every helper needed transitively occurs exactly once in the
list of emitted functions; a key that is not needed does not occur. -/
theorem resolves_exactly_once {P fuel : Nat} {s : State}
    (h : run req P fuel (initState init) = some s) (k : Key) :
    (Reach req init k → s.emitted.count k = 1) ∧ (¬ Reach req init k → s.emitted.count k = 0) := by
  obtain ⟨hcl, hgen, hnd, _, _⟩ := run_sound h
  obtain ⟨hr, _⟩ := reachable_run .init h
  have hi := inv_of_reachable hr
  rw [hnd.count]
  constructor
  · intro hk; rw [if_pos (hgen k ((hcl k).2 hk))]
  · intro hk; rw [if_neg fun hm => hk ((hcl k).1 (hi.emitted_sub k hm))]

/-- the call `(1,0)` made at two call sites, the self-request of `equal(*T)` and the helper
`compare(K)` requested by two different plugins each resolve to one function; `hash` was never asked for -/
example : Ex.final.emitted.count (1, 0) = 1 ∧ Ex.final.emitted.count (0, 5) = 1 ∧
    Ex.final.emitted.count (4, 0) = 0 := by decide
example : Reach Ex.req Ex.init (0, 5) :=
  .step (.step (.init (k := (0, 1)) (by decide)) (r := (3, 2)) (by decide)) (by decide)

/-- the helper calls printed in an emitted function are calls to emitted functions -/
theorem requests_resolved {P fuel : Nat} {s : State}
    (h : run req P fuel (initState init) = some s) :
    ∀ k ∈ s.emitted, ∀ r ∈ req k, r ∈ s.emitted := by
  obtain ⟨hr, hd⟩ := reachable_run .init h
  have hi := inv_of_reachable hr
  exact fun k hk r hr => isDone_iff.1 hd r (hi.req_closed k hk r hr)

example : ∀ k ∈ Ex.final.emitted, ∀ r ∈ Ex.req k, r ∈ Ex.final.emitted :=
  requests_resolved Ex.run_eq

/-! ## 2. Invariants of every intermediate state -/

/-- base case: the tables after `newPackage` registered the calls -/
theorem inv_init (req : Key → List Key) (init : List Key) : Inv req init (initState init) :=
  inv_initState req init

example : (initState Ex.init).keys = [(1, 0), (0, 1)] ∧ (initState Ex.init).emitted = [] := by decide

/-- step: one `Generate` call on a registered, not yet generated key preserves the invariant -/
theorem inv_step {s : State} {k : Key} (h : Inv req init s) (hk : k ∈ s.keys) (hne : k ∉ s.emitted) :
    Inv req init (generate req s k) :=
  inv_generate h hk hne

example : generate Ex.req (initState Ex.init) (0, 1) =
    { keys := [(1, 0), (0, 1), (3, 2), (2, 1), (0, 5)], emitted := [(0, 1)] } := by decide

/-- In every state that arises from the initial tables by `Generate` calls on pending keys:
`emitted ⊆ keys`, neither list has a duplicate, every registered key is reachable from the calls,
and the requests of every emitted function are registered. -/
theorem inv_every_state {s : State} (h : Reachable req init s) :
    (∀ k ∈ s.emitted, k ∈ s.keys) ∧ s.keys.Nodup ∧ s.emitted.Nodup ∧
    (∀ k ∈ s.keys, Reach req init k) ∧ (∀ k ∈ s.emitted, ∀ r ∈ req k, r ∈ s.keys) :=
  have hi := inv_of_reachable h
  ⟨hi.emitted_sub, hi.keys_nodup, hi.emitted_nodup, hi.keys_reach, hi.req_closed⟩

example : Reachable Ex.req Ex.init (generate Ex.req (initState Ex.init) (0, 1)) :=
  .gen .init (by decide) (by decide)

/-- The loop only passes through such states: if a round starts in one (the first round starts in
`initState init`), then so is the state after the turns of the plugins `0 .. p-1` followed by any
prefix `ks` of plugin `p`'s snapshot — that is, the state between any two `Generate` calls of the
round — and so is the state after the whole round, in which the next round starts. -/
theorem loop_states_reachable {s : State} (P : Nat) (h : Reachable req init s) :
    (∀ p ks, ks <+: pending (turns req (List.range p) s) p →
      Reachable req init (genAll req (turns req (List.range p) s) ks)) ∧
    Reachable req init (round req P s) :=
  ⟨fun _ _ hp => reachable_genAll_prefix (reachable_turns _ h) hp, reachable_round P h⟩

/-- in the middle of the second round of the instance: plugin 0 has a non-empty snapshot -/
example : pending (turns Ex.req (List.range 0) (round Ex.req 4 (initState Ex.init))) 0 = [(0, 5)] := by
  decide
example : Reachable Ex.req Ex.init (round Ex.req 4 (initState Ex.init)) :=
  (loop_states_reachable 4 .init).2

/-- `round` is the composition of the plugin turns and a turn is `genAll` over the snapshot: the
states named in `loop_states_reachable` are all the states between two `Generate` calls. -/
theorem round_decomposition (req : Key → List Key) (P : Nat) (s : State) :
    round req (P + 1) s = pluginTurn req (round req P s) P ∧
    (∀ t p, pluginTurn req t p = genAll req t (pending t p)) ∧
    (∀ t ks k, genAll req t (ks ++ [k]) = generate req (genAll req t ks) k) := by
  refine ⟨?_, fun _ _ => rfl, fun t ks k => ?_⟩
  · simp [round, List.range_succ, turns]
  · simp [genAll]

example : round Ex.req 4 (initState Ex.init) =
    pluginTurn Ex.req (round Ex.req 3 (initState Ex.init)) 3 :=
  (round_decomposition Ex.req 3 _).1

/-! ## 3. Termination -/

/-- The "no hang" argument for `for !pkg.Done()`: when only finitely many keys are needed (`U` lists
them), all of them keys of plugins that have a turn in the round (index `< P`; in Go `pkg.generators`
has exactly the plugins of `pkg.plugins`), the loop finishes within `|U|` rounds plus the final `Done` test.
(Each round that starts in a state that is not done emits at least one function; emitted keys are
distinct and reachable, so there are at most `|U|` of them.) -/
theorem run_terminates {P : Nat} {U : List Key}
    (hinit : ∀ k ∈ init, k.1 < P) (hreq : ∀ k, ∀ r ∈ req k, r.1 < P)
    (hU : ∀ k, Reach req init k → k ∈ U) :
    run req P (U.length + 1) (initState init) ≠ none :=
  run_ne_none_of_fuel (fun _ hk => reach_bound hinit hreq hk) hU U.length _ .init (by simp)

example : run Ex.req 4 (Ex.final.keys.length + 1) (initState Ex.init) ≠ none :=
  run_terminates (by decide) Ex.req_bound
    (fun _ h => Ex.reach_final h)
/-- the side conditions are needed: a key of a plugin that has no turn, and an infinite chain of helpers -/
example : run (fun _ => []) 1 8 (initState [(1, 0)]) = none := by decide
example : run (fun k => [(0, k.2 + 1)]) 1 8 (initState [(0, 0)]) = none := by decide

/-- One round generates at least one function unless everything is generated (the progress measure). -/
theorem round_emits {P : Nat} {s : State} (hb : ∀ k ∈ s.keys, k.1 < P) (hd : isDone s = false) :
    s.emitted.length < (round req P s).emitted.length :=
  round_progress hb hd

example : (initState Ex.init).emitted.length < (round Ex.req 4 (initState Ex.init)).emitted.length := by
  decide

/-- Total correctness: under the hypotheses of `run_terminates` the loop returns a state with the
properties of `run_sound`. -/
theorem run_complete {P : Nat} {U : List Key}
    (hinit : ∀ k ∈ init, k.1 < P) (hreq : ∀ k, ∀ r ∈ req k, r.1 < P)
    (hU : ∀ k, Reach req init k → k ∈ U) :
    ∃ s, run req P (U.length + 1) (initState init) = some s ∧
      (∀ k, k ∈ s.keys ↔ Reach req init k) ∧ (∀ k ∈ s.keys, k ∈ s.emitted) ∧
      s.emitted.Nodup ∧ s.keys.Nodup ∧ s.emitted.Perm s.keys ∧ s.emitted.length ≤ U.length := by
  cases h : run req P (U.length + 1) (initState init) with
  | none => exact absurd h (run_terminates hinit hreq hU)
  | some s =>
    obtain ⟨h1, h2, h3, h4, h5⟩ := run_sound h
    refine ⟨s, rfl, h1, h2, h3, h4, h5, ?_⟩
    exact h3.length_le_of_subset fun k hk => hU k ((h1 k).1 (h5.subset hk))

example : ∃ s, run Ex.req 4 6 (initState Ex.init) = some s ∧ s.emitted.length = 5 :=
  ⟨Ex.final, run_mono (by decide) Ex.run_eq, rfl⟩

/-! ## 4. Determinism of the emission order -/

/-- The model has no input besides `(req, P, init)`: whatever the fuel, two runs that return, return
the same tables and the same emission list. (Go side: that `pkg.Generate` reads nothing else is the
fact checked by T4 / C08.) -/
theorem emission_order_deterministic {P f₁ f₂ : Nat} {s₀ s₁ s₂ : State}
    (h₁ : run req P f₁ s₀ = some s₁) (h₂ : run req P f₂ s₀ = some s₂) : s₁ = s₂ := by
  have a := run_mono (Nat.le_max_left f₁ f₂) h₁
  have b := run_mono (Nat.le_max_right f₁ f₂) h₂
  rw [a] at b
  exact Option.some.inj b

example : run Ex.req 4 3 (initState Ex.init) = run Ex.req 4 50 (initState Ex.init) := by
  rw [Ex.run_eq, run_mono (by decide) Ex.run_eq]

/-- The emission list (and every table) only grows by appending: each `Generate`, each plugin turn,
each round and the whole run leave what was emitted and registered before as a prefix. -/
theorem emitted_prefix_stable (req : Key → List Key) (P : Nat) (s : State) :
    (∀ k, s.emitted <+: (generate req s k).emitted ∧ s.keys <+: (generate req s k).keys) ∧
    (∀ p, (pluginTurn req s p).emitted = s.emitted ++ pending s p ∧
      s.keys <+: (pluginTurn req s p).keys) ∧
    (s.emitted <+: (round req P s).emitted ∧ s.keys <+: (round req P s).keys) ∧
    (∀ fuel s', run req P fuel s = some s' → s.emitted <+: s'.emitted ∧ s.keys <+: s'.keys) :=
  ⟨fun k => ⟨by simp, generate_keys_prefix req s k⟩,
   fun p => ⟨pluginTurn_emitted req s p, pluginTurn_keys_prefix req s p⟩,
   ⟨turns_emitted_prefix req _ s, turns_keys_prefix req _ s⟩,
   fun _ _ h => run_emitted_prefix h⟩

example : (round Ex.req 4 (initState Ex.init)).emitted = [(0, 1), (1, 0), (2, 1), (3, 2)] ∧
    Ex.final.emitted = [(0, 1), (1, 0), (2, 1), (3, 2)] ++ [(0, 5)] := by
  rw [Ex.round1_eq]; exact ⟨rfl, rfl⟩

/-- Snapshot semantics, as in the Go loop: a key of plugin `p` registered during `p`'s own turn is not
generated in that turn, and every key that was in `p`'s table when its turn began is. -/
theorem snapshot_semantics (req : Key → List Key) (s : State) (p : Nat) (k : Key) :
    k ∈ (pluginTurn req s p).emitted ↔ k ∈ s.emitted ∨ (k ∈ s.keys ∧ k.1 = p) := by
  rw [pluginTurn_emitted, List.mem_append, mem_pending]
  constructor
  · rintro (hk | ⟨hk, hp, _⟩)
    · exact Or.inl hk
    · exact Or.inr ⟨hk, hp⟩
  · rintro (hk | ⟨hk, hp⟩)
    · exact Or.inl hk
    · by_cases he : k ∈ s.emitted
      · exact Or.inl he
      · exact Or.inr ⟨hk, hp, he⟩

/-- `compare(K) = (0,5)` is registered by compare's turn in round 1 but generated only in round 2 -/
example : (0, 5) ∈ (pluginTurn Ex.req (initState Ex.init) 0).keys ∧
    (0, 5) ∉ (round Ex.req 4 (initState Ex.init)).emitted ∧ (0, 5) ∈ Ex.final.emitted := by decide

end Goderive.C01
