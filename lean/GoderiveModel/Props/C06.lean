/-
Property C06: derived GoString round-trips through the Go compiler.

"For every supported type with exported fields and every value with finite floats, the text returned
by derived GoString is a Go expression that compiles in a package importing the type's package and
evaluates to a value structurally equal to the original, including nil versus empty containers and
the targets of pointers."

Model (S/GoString.lean): `goString env L T v : G τ` — the text the emitted function returns, as a term
of a deep embedding `G τ` of the little language plugin/gostring prints, mirroring
`genStatement`/`genField` branch by branch; `evalG env L e n` — what the Go compiler and runtime make
of such a text (`Res.panic` = rejected by the compiler or a run-time panic), threading the next fresh
address `n`. Specification: `Spec.structEq` (Spec/StructEq.lean): same nil-ness at every pointer,
slice and map, same lengths and key sets, equal leaves — written with no reference to the generator.

The lexical layer — `fmt`'s `%#v` on a value of a basic type and the Go compiler reading that
constant back — is the parameter `L : Lex τ` with the stated contract `L.Round`
(`parse b (print b v)` is a value of type `b` that is `==` to `v`, for finite `v`). The theorems hold
for every `L` meeting the contract; the tie exercises the real `%#v` + `go build` on every leaf of
the corpus and nothing proves the contract about them. Type names in the text are likewise
exercised by the tie only. Values are finite trees, hence acyclic.

Only theorems and their non-vacuity examples live here; proofs are in Lemmas/GoString.lean. The
examples reuse the concrete world of Lemmas/Equal.lean (`C02.env`: `Node`, `Pt`; `C02.y1`: a `Node`
with a pointer to another `Node`, a string slice, a map to structs holding `-0.0`, a byte slice).
-/
import GoderiveModel.Lemmas.GoString

set_option linter.unusedSimpArgs false
set_option linter.unusedVariables false

namespace Goderive.C06
open Goderive Val GoString

/-! ### 1. The text compiles and evaluates to a structurally equal value -/

/-- **C06, main clause (full strength: every type, every value).** On an environment whose declared
struct types have exported fields only, for every well-typed value with finite floats, the text the
emitted function returns evaluates without being rejected and without panicking, and the value it
denotes is structurally equal to the original — nil versus empty containers and pointer targets
included (`Spec.structEq`).

`hs : SupportedGS env T` is the condition under which the generator emits the function at all; the
proof does not use it: on a well-typed value the model never reaches a generator error. -/
theorem gostring_roundtrip {τ : Type} (L : Lex τ) (hL : L.Round) (env : Env) (T : Ty) (v : Val) (n : Nat)
    (hf : env.flagsOk = true) (hexp : ExportedOnly env = true) (hs : SupportedGS env T = true)
    (ht : hasType env T v = true) (hfin : finiteFloats v = true) :
    ∃ v' n', evalG env L (goString env L T v) n = .ok (v', n') ∧ Spec.structEq env T v v' = true := by
  obtain ⟨v', n', hv, _, hrel⟩ := call_ok ((allP hf hL hexp v).top T n ht hfin) n (Nat.le_refl _)
  exact ⟨v', n', hv, hrel.2.1⟩

example : ∃ v' n', evalG C02.env valLex (goString C02.env valLex C02.tNode C02.y1) 1000 = .ok (v', n') ∧
    Spec.structEq C02.env C02.tNode C02.y1 v' = true :=
  gostring_roundtrip valLex valLex_round C02.env C02.tNode C02.y1 1000 C02.env_flagsOk (by decide)
    (by decide) C02.y1_typed (by decide)

/-- concretely: `struct{A, B []int64; P *int64}{A: nil, B: []int64{}, P: &7}` — the nil field is not
assigned and stays nil, the empty slice comes back empty and non-nil, the pointer target is rebuilt -/
example :
    let T : Ty := .struct (.fcons (.slice (.basic (.int 64 true))) (.fcons (.slice (.basic (.int 64 true)))
      (.fcons (.ptr (.basic (.int 64 true))) .fnil)))
    evalG { decls := [] } valLex
        (goString { decls := [] } valLex T (.struct (.scons .nilv (.scons (.slice 5 2 .snil) (.scons (.ptr 6 (.int 7)) .snil))))) 100
      = .ok (.struct (.scons .nilv (.scons (.slice 101 0 .snil) (.scons (.ptr 102 (.int 7)) .snil))), 103) := by
  simp [evalG, goString, top.eq_def, field.eq_def, fieldsG.eq_def, Env.under, isBasicTy, leaves, assign,
    privMaskOf, exportedAt, evalE, evalBody, evalStmt, evalSeq, zero1, zero0, zeroFields, setNth, valLex, normLeaf]

/-- The result is moreover a well-typed value of `T`. -/
theorem gostring_typed {τ : Type} (L : Lex τ) (hL : L.Round) (env : Env) (T : Ty) (v : Val) (n : Nat)
    (hf : env.flagsOk = true) (hexp : ExportedOnly env = true) (hs : SupportedGS env T = true)
    (ht : hasType env T v = true) (hfin : finiteFloats v = true) :
    ∀ v' n', evalG env L (goString env L T v) n = .ok (v', n') → hasType env T v' = true := by
  intro v' n' hev
  obtain ⟨v'', n'', hv, _, hrel⟩ := call_ok ((allP hf hL hexp v).top T n ht hfin) n (Nat.le_refl _)
  have h : evalE env L (goString env L T v) n = .ok (v', n') := hev
  rw [goString, hv] at h
  cases h
  exact hrel.1

example : ∀ v' n', evalG C02.env valLex (goString C02.env valLex C02.tNode C02.y1) 1000 = .ok (v', n') →
    hasType C02.env C02.tNode v' = true :=
  gostring_typed valLex valLex_round C02.env C02.tNode C02.y1 1000 C02.env_flagsOk (by decide)
    (by decide) C02.y1_typed (by decide)

/-! ### 2. An evaluated result is a freshly allocated tree -/

/-- **Nothing of the original is shared.** Every address (pointer target, backing array, map) of the
evaluated value was allocated during the evaluation: it is `≥ n`, the next fresh address at the start. -/
theorem gostring_fresh {τ : Type} (L : Lex τ) (hL : L.Round) (env : Env) (T : Ty) (v : Val) (n : Nat)
    (hf : env.flagsOk = true) (hexp : ExportedOnly env = true) (hs : SupportedGS env T = true)
    (ht : hasType env T v = true) (hfin : finiteFloats v = true) :
    ∀ v' n', evalG env L (goString env L T v) n = .ok (v', n') → n ≤ n' ∧ ∀ a ∈ addrs v', n ≤ a := by
  intro v' n' hev
  obtain ⟨v'', n'', hv, hn, hrel⟩ := call_ok ((allP hf hL hexp v).top T n ht hfin) n (Nat.le_refl _)
  have h : evalE env L (goString env L T v) n = .ok (v', n') := hev
  rw [goString, hv] at h
  cases h
  exact ⟨hn, hrel.2.2⟩

/-- Hence, evaluated above all addresses of the original, the result shares no pointer target,
backing array or map with it. -/
theorem gostring_disjoint {τ : Type} (L : Lex τ) (hL : L.Round) (env : Env) (T : Ty) (v : Val) (n : Nat)
    (hf : env.flagsOk = true) (hexp : ExportedOnly env = true) (hs : SupportedGS env T = true)
    (ht : hasType env T v = true) (hfin : finiteFloats v = true) (hn : ∀ a ∈ addrs v, a < n) :
    ∀ v' n', evalG env L (goString env L T v) n = .ok (v', n') → ∀ a ∈ addrs v', a ∉ addrs v := by
  intro v' n' hev a ha hav
  have h1 := (gostring_fresh L hL env T v n hf hexp hs ht hfin v' n' hev).2 a ha
  have h2 := hn a hav
  omega

example : ∀ v' n', evalG C02.env valLex (goString C02.env valLex C02.tNode C02.y1) 1000 = .ok (v', n') →
    ∀ a ∈ addrs v', a ∉ addrs C02.y1 :=
  gostring_disjoint valLex valLex_round C02.env C02.tNode C02.y1 1000 C02.env_flagsOk (by decide)
    (by decide) C02.y1_typed (by decide) (by decide)

/-! ### 3. The lexical contract, and why the hypotheses are there -/

/-- The contract of the lexical layer is satisfiable: the value-level layer the driver runs (leaf
text = the value, reading back maps `-0.0` to `+0.0`, as the tie observes of `%#v` + `go build`)
meets it. -/
theorem lex_contract_satisfiable : valLex.Round := valLex_round

example : valLex.parse (.float 64) (valLex.print (.float 64) (.flt 64 (2 ^ 63))) = some (.flt 64 0) := by decide

/-- "finite floats" is necessary: a NaN never comes back `==` to itself. -/
example : hasType { decls := [] } (.basic (.float 64)) (.flt 64 0x7ff8000000000000) = true ∧
    evalG { decls := [] } valLex (goString { decls := [] } valLex (.basic (.float 64)) (.flt 64 0x7ff8000000000000)) 0
      = .ok (.flt 64 0x7ff8000000000000, 0) ∧
    Spec.structEq { decls := [] } (.basic (.float 64)) (.flt 64 0x7ff8000000000000) (.flt 64 0x7ff8000000000000) = false := by
  refine ⟨by goderive_eval, ?_, by rw [structEq_eval_basic]; decide⟩
  simp [evalG, goString, top.eq_def, Env.under, evalE, evalBody, valLex, normLeaf, normZero]

/-- "exported fields" is necessary: for `type S struct{ a int64 }` declared in the package of the
derive call the text is `this.a = 5`, which an importing package may not write. -/
example :
    let env : Env := { decls := [{ under := .struct (.fcons (.basic (.int 64 true)) .fnil), canEq := true, privMask := [true] }] }
    ExportedOnly env = false ∧
    evalG env valLex (goString env valLex (.named 0) (.struct (.scons (.int 5) .snil))) 0 = .panic := by
  refine ⟨by decide, ?_⟩
  simp [evalG, goString, top.eq_def, field.eq_def, fieldsG.eq_def, Env.under, Env.decl?, assign,
    privMaskOf, exportedAt, evalE, evalBody, evalStmt]

end Goderive.C06
