/-
Property C06: derived GoString round-trips through the Go compiler.  (work in progress: the main
theorems follow)
-/
import GoderiveModel.Lemmas.GoString

namespace Goderive.C06
open Goderive Val GoString

/-- The contract of the lexical layer is satisfiable: the value-level layer used by the driver
(leaf text = the value, reading back maps `-0.0` to `+0.0`) meets it. -/
theorem lex_contract_satisfiable : valLex.Round := valLex_round

example : valLex.parse (.float 64) (valLex.print (.float 64) (.flt 64 (2 ^ 63))) = some (.flt 64 0) := by decide

end Goderive.C06
