/-
C07 — regeneration depends only on the current sources, not on the old derived file.
Model: G/Reload.lean. Full statement (`regen gen calls old = regen gen calls []` for every `old`) is
FALSE for the current code: `regen_stale_witness`. Proved: it holds whenever no stale signature
flows into another derive call (`AgreeOn`), and then one pass suffices.
-/
import GoderiveModel.G.Reload

namespace Goderive.C07
open Goderive.Reload

theorem argType_congr (d f : Derived) (a : Arg)
    (h : ∀ n, a = .resultOf n → d.lookup n = f.lookup n) : argType d a = argType f a := by
  cases a with
  | known t => rfl
  | resultOf n => simpa [argType] using h n rfl

theorem mapM_congr {α β} (g h : α → Option β) (l : List α) (hg : ∀ a ∈ l, g a = h a) :
    l.mapM g = l.mapM h := by
  induction l with
  | nil => rfl
  | cons a t ih =>
    simp only [List.mapM_cons]
    rw [hg a (by simp), ih (fun b hb => hg b (by simp [hb]))]

/-- the argument types of a call only depend on the signatures of the callees it reads -/
theorem argTypes_congr (d f : Derived) (c : Call)
    (h : ∀ n, Arg.resultOf n ∈ c.args → d.lookup n = f.lookup n) : argTypes d c = argTypes f c := by
  unfold argTypes
  apply mapM_congr
  intro a ha
  apply argType_congr
  intro n hn
  exact h n (hn ▸ ha)

theorem register_congr (gen : GenFn) (d f : Derived) (acc : Derived × List Nat) (c : Call)
    (h : ∀ n, Arg.resultOf n ∈ c.args → d.lookup n = f.lookup n) :
    register gen d acc c = register gen f acc c := by
  unfold register
  rw [argTypes_congr d f c h]

theorem foldlM_congr (gen : GenFn) (d f : Derived) (calls : List Call) (acc : Derived × List Nat)
    (h : ∀ c ∈ calls, ∀ n, Arg.resultOf n ∈ c.args → d.lookup n = f.lookup n) :
    calls.foldlM (register gen d) acc = calls.foldlM (register gen f) acc := by
  induction calls generalizing acc with
  | nil => rfl
  | cons c cs ih =>
    simp only [List.foldlM_cons]
    rw [register_congr gen d f acc c (h c (by simp))]
    cases register gen f acc c with
    | error e => rfl
    | ok a => exact ih a (fun c' hc' => h c' (by simp [hc']))

/-- **pass_congr**: a pass only reads, from the file on disk, the signatures of callees whose result
flows into another derive call. -/
theorem pass_congr (gen : GenFn) (calls : List Call) (d f : Derived) (h : AgreeOn calls d f) :
    pass gen d calls = pass gen f calls :=
  foldlM_congr gen d f calls ([], []) h

/-- **regen_one_pass**: if `F` is what the current sources generate (a fixpoint of the pass with
nothing left undefined) and the old file agrees with `F` on every signature that flows into another
derive call, one run leaves exactly `F`, whatever else the old file contained. -/
theorem regen_one_pass (gen : GenFn) (calls : List Call) (old F : Derived)
    (hfix : pass gen F calls = .ok (F, [])) (hne : F ≠ []) (hagree : AgreeOn calls old F) :
    regen gen calls old = .ok (some F) := by
  unfold regen loop
  rw [pass_congr gen calls old F hagree, hfix]
  simp [sortStrings, hne, bind, Except.bind]

/-- **regen_independent_partial**: under the same hypotheses the run with the old file and the run
from scratch (which also agrees with `F` when no flowing callee exists in `F`, or more generally
whenever the empty file agrees) leave the same file. -/
theorem regen_independent_partial (gen : GenFn) (calls : List Call) (old old' F : Derived)
    (hfix : pass gen F calls = .ok (F, [])) (hne : F ≠ [])
    (h1 : AgreeOn calls old F) (h2 : AgreeOn calls old' F) :
    regen gen calls old = regen gen calls old' := by
  rw [regen_one_pass gen calls old F hfix hne h1, regen_one_pass gen calls old' F hfix hne h2]

/-- a package without flows between derive calls: every old file agrees -/
theorem agreeOn_of_no_flow (calls : List Call) (d f : Derived)
    (h : ∀ c ∈ calls, ∀ n, Arg.resultOf n ∉ c.args) : AgreeOn calls d f :=
  fun c hc n hn => absurd hn (h c hc n)

/-- **regen_no_flow**: when no derive result feeds another derive call (fields retyped, calls added
or removed, functions renamed) the file left behind never depends on the old one — absent, stale or
truncated. -/
theorem regen_no_flow (gen : GenFn) (calls : List Call) (old old' : Derived)
    (h : ∀ c ∈ calls, ∀ n, Arg.resultOf n ∉ c.args) :
    regen gen calls old = regen gen calls old' := by
  unfold regen loop
  rw [pass_congr gen calls old old' (agreeOn_of_no_flow calls old old' h)]

/-- **regen_removes_when_empty**: when no derive call remains the file is removed. -/
theorem regen_removes_when_empty (gen : GenFn) (old : Derived) : regen gen [] old = .ok none := by
  simp [regen, loop, pass, sortStrings, bind, Except.bind, pure, Except.pure]

/-! ### the full statement is false for the current code: a stale signature that flows -/

/-- `zs := deriveFmap(conv, xs); deriveEqual(zs, ys)`: function 0 = deriveFmap, 1 = deriveEqual;
types: 1 = func(int) int, 4 = func(int) string, 2 = []int, 5 = []string. -/
def wCalls : List Call :=
  [⟨0, [.known 1, .known 2]⟩, ⟨1, [.resultOf 0, .known 2]⟩]

def wGen : GenFn := fun name ts =>
  match name, ts with
  | 0, [1, 2] => some 2      -- deriveFmap(func(int) int, []int) []int
  | 0, [4, 2] => some 5      -- deriveFmap(func(int) string, []int) []string
  | 1, [a, b] => if a = b then some 0 else none   -- deriveEqual needs identical argument types
  | _, _ => none

/-- the old file was generated when `conv` returned string -/
def wOld : Derived := [(0, 5), (1, 0)]

theorem regen_stale_witness :
    regen wGen wCalls [] = .ok (some [(0, 2), (1, 0)]) ∧
    regen wGen wCalls wOld = .error "Add Error" := by
  constructor <;> rfl

/-- non-vacuity of `regen_one_pass`: a previous version's file that declared more functions and the
same flowing signature -/
example : regen wGen wCalls [(7, 9), (0, 2)] = .ok (some [(0, 2), (1, 0)]) :=
  regen_one_pass wGen wCalls [(7, 9), (0, 2)] [(0, 2), (1, 0)] rfl (by decide)
    (by intro c hc n hn; simp [wCalls] at hc; rcases hc with rfl | rfl <;> simp at hn <;> subst hn <;> rfl)

example : regen wGen [⟨0, [.known 1, .known 2]⟩] wOld = regen wGen [⟨0, [.known 1, .known 2]⟩] [] :=
  regen_no_flow wGen _ _ _ (by intro c hc n; simp at hc; subst hc; simp)

end Goderive.C07
