/-
C07 — regeneration depends only on the current sources, not on the old derived file.
Model: G/Reload.lean. Full statement (`regen gen calls old = regen gen calls []` for every `old`) is
FALSE for the current code: `regen_stale_witness`. Proved: it holds whenever no stale signature
flows into another derive call (`AgreeOn`), and then one pass suffices.
-/
import GoderiveModel.G.Reload

namespace Goderive.C07
open Goderive.Reload

theorem argType_congr (d f : Derived) (a : Arg)
    (h : ∀ n, a = .resultOf n → d.lookup n = f.lookup n) : argType d a = argType f a := by
  cases a with
  | known t => rfl
  | resultOf n => simpa [argType] using h n rfl

theorem mapM_congr {α β} (g h : α → Option β) (l : List α) (hg : ∀ a ∈ l, g a = h a) :
    l.mapM g = l.mapM h := by
  induction l with
  | nil => rfl
  | cons a t ih =>
    simp only [List.mapM_cons]
    rw [hg a (by simp), ih (fun b hb => hg b (by simp [hb]))]

/-- the argument types of a call only depend on the signatures of the callees it reads -/
theorem argTypes_congr (d f : Derived) (c : Call)
    (h : ∀ n, Arg.resultOf n ∈ c.args → d.lookup n = f.lookup n) : argTypes d c = argTypes f c := by
  unfold argTypes
  apply mapM_congr
  intro a ha
  apply argType_congr
  intro n hn
  exact h n (hn ▸ ha)

theorem register_congr (gen : GenFn) (d f : Derived) (acc : List Fn × List Nat) (c : Call)
    (h : ∀ n, Arg.resultOf n ∈ c.args → d.lookup n = f.lookup n) :
    register gen d acc c = register gen f acc c := by
  unfold register
  rw [argTypes_congr d f c h]

theorem foldlM_congr (gen : GenFn) (d f : Derived) (calls : List Call) (acc : List Fn × List Nat)
    (h : ∀ c ∈ calls, ∀ n, Arg.resultOf n ∈ c.args → d.lookup n = f.lookup n) :
    calls.foldlM (register gen d) acc = calls.foldlM (register gen f) acc := by
  induction calls generalizing acc with
  | nil => rfl
  | cons c cs ih =>
    simp only [List.foldlM_cons]
    rw [register_congr gen d f acc c (h c (by simp))]
    cases register gen f acc c with
    | error e => rfl
    | ok a => exact ih a (fun c' hc' => h c' (by simp [hc']))

/-- **pass_congr**: a pass only reads, from the file on disk, the signatures of callees whose result
flows into another derive call. -/
theorem pass_congr (gen : GenFn) (calls : List Call) (d f : Derived) (h : AgreeOn calls d f) :
    pass gen d calls = pass gen f calls := by
  unfold pass registerAll
  rw [foldlM_congr gen d f calls ([], []) h]

/-- **regenIn_congr**: a package of an invocation depends on its old file and on the other packages'
files as they were loaded only through the signatures of the callees whose result flows into one of
its derive calls. -/
theorem regenIn_congr (gen : GenFn) (calls : List Call) (env0 env0' env old old' : Derived)
    (h : AgreeOn calls (old ++ env0) (old' ++ env0')) :
    regenIn gen calls env0 env old = regenIn gen calls env0' env old' := by
  unfold regenIn loop
  rw [pass_congr gen calls _ _ h]

/-- **regen_congr**: a run depends on the old file only through the signatures of the callees whose
result flows into another derive call — whatever else it declares, lacks, or has lost to a cut. -/
theorem regen_congr (gen : GenFn) (calls : List Call) (old old' : Derived)
    (h : AgreeOn calls old old') : regen gen calls old = regen gen calls old' :=
  regenIn_congr gen calls [] [] [] old old' (by simpa using h)

/-- **regen_one_pass**: if a pass that reads the file `F` registers the functions `reg` with nothing
left undefined (in particular: `F = fileOf reg` is what the current sources generate, a fixpoint of the
pass) and the old file agrees with `F` on every signature that flows into another derive call, one run
leaves exactly `reg`, whatever else the old file contained. -/
theorem regen_one_pass (gen : GenFn) (calls : List Call) (old F : Derived) (reg : List Fn)
    (hfix : pass gen F calls = .ok (reg, [])) (hne : reg ≠ [])
    (hagree : AgreeOn calls old F) :
    regen gen calls old = .ok (some reg) := by
  unfold regen regenIn loop
  rw [List.append_nil, pass_congr gen calls old F hagree, hfix]
  simp [sortStrings, hne, bind, Except.bind]

/-- **regen_independent_partial**: under the same hypotheses the run with the old file and the run
from scratch (which also agrees with `F` when no flowing callee exists in `F`, or more generally
whenever the empty file agrees) leave the same file. -/
theorem regen_independent_partial (gen : GenFn) (calls : List Call) (old old' F : Derived)
    (reg : List Fn) (hfix : pass gen F calls = .ok (reg, [])) (hne : reg ≠ [])
    (h1 : AgreeOn calls old F) (h2 : AgreeOn calls old' F) :
    regen gen calls old = regen gen calls old' := by
  rw [regen_one_pass gen calls old F reg hfix hne h1, regen_one_pass gen calls old' F reg hfix hne h2]

/-- a package without flows between derive calls: every old file agrees -/
theorem agreeOn_of_no_flow (calls : List Call) (d f : Derived)
    (h : ∀ c ∈ calls, ∀ n, Arg.resultOf n ∉ c.args) : AgreeOn calls d f :=
  fun c hc n hn => absurd hn (h c hc n)

/-- **regen_no_flow**: when no derive result feeds another derive call (fields retyped, calls added
or removed, functions renamed) the file left behind never depends on the old one — absent, stale or
truncated. -/
theorem regen_no_flow (gen : GenFn) (calls : List Call) (old old' : Derived)
    (h : ∀ c ∈ calls, ∀ n, Arg.resultOf n ∉ c.args) :
    regen gen calls old = regen gen calls old' :=
  regen_congr gen calls old old' (agreeOn_of_no_flow calls old old' h)

/-- **regen_removes_when_empty**: when no derive call remains the file is removed. -/
theorem regen_removes_when_empty (gen : GenFn) (old : Derived) : regen gen [] old = .ok none := by
  simp [regen, regenIn, loop, pass, registerAll, sortStrings, bind, Except.bind, pure, Except.pure]

/-! ### the computed form of `AgreeOn` that the driver prints (`agree=`) -/

theorem mem_flowing (calls : List Call) (n : Nat) :
    n ∈ flowing calls ↔ ∃ c ∈ calls, Arg.resultOf n ∈ c.args := by
  unfold flowing
  simp only [List.mem_flatMap, List.mem_filterMap]
  constructor
  · rintro ⟨c, hc, a, ha, h⟩
    refine ⟨c, hc, ?_⟩
    cases a with
    | known t => simp at h
    | resultOf m => simp at h; subst h; exact ha
  · rintro ⟨c, hc, h⟩
    exact ⟨c, hc, _, h, rfl⟩

/-- **agreeOnB_iff**: the boolean the driver evaluates is `AgreeOn` -/
theorem agreeOnB_iff (calls : List Call) (d f : Derived) : agreeOnB calls d f = true ↔ AgreeOn calls d f := by
  unfold agreeOnB AgreeOn
  simp only [List.all_eq_true, beq_iff_eq]
  constructor
  · intro h c hc n hn
    exact h n ((mem_flowing calls n).2 ⟨c, hc, hn⟩)
  · intro h n hn
    obtain ⟨c, hc, hcn⟩ := (mem_flowing calls n).1 hn
    exact h c hc n hcn

/-! ### the name table of a pass: the written file is a function of the name -/

/-- the invariant of the registry: no two entries of one plugin share a name -/
def NamesNodup (reg : List Fn) : Prop := (reg.map fun f => (f.plugin, f.name)).Nodup

theorem setFuncName_nodup (reg reg' : List Fn) (c : Call) (ts : List Nat) (r : Option Nat)
    (h : NamesNodup reg) (hs : setFuncName reg c ts r = .ok reg') : NamesNodup reg' := by
  unfold setFuncName at hs
  split at hs
  · split at hs
    · cases hs; exact h
    · cases hs
  · split at hs
    · cases hs
    · rename_i hany
      cases hs
      unfold NamesNodup at *
      rw [List.map_append, List.nodup_append]
      refine ⟨h, by simp, ?_⟩
      intro a ha b hb
      simp only [List.map_cons, List.map_nil, List.mem_singleton] at hb
      subst hb
      intro hab
      subst hab
      apply hany
      rw [List.any_eq_true]
      obtain ⟨f, hf, hfe⟩ := List.mem_map.1 ha
      refine ⟨f, hf, ?_⟩
      simp only [Prod.mk.injEq] at hfe
      simp [hfe.1, hfe.2]

theorem register_nodup (gen : GenFn) (d : Derived) (acc acc' : List Fn × List Nat) (c : Call)
    (h : NamesNodup acc.1) (hs : register gen d acc c = .ok acc') : NamesNodup acc'.1 := by
  unfold register at hs
  split at hs
  · cases hs; exact h
  · split at hs
    · cases hs
    · split at hs
      · cases hs
      · rename_i reg hreg
        cases hs
        exact setFuncName_nodup _ _ _ _ _ h hreg

theorem foldlM_nodup (gen : GenFn) (d : Derived) (calls : List Call) (acc acc' : List Fn × List Nat)
    (h : NamesNodup acc.1) (hs : calls.foldlM (register gen d) acc = .ok acc') : NamesNodup acc'.1 := by
  induction calls generalizing acc with
  | nil => simp [pure, Except.pure] at hs; subst hs; exact h
  | cons c cs ih =>
    simp only [List.foldlM_cons, bind, Except.bind] at hs
    split at hs
    · cases hs
    · rename_i a ha
      exact ih a (register_nodup gen d acc a c h ha) hs

/-- **pass_names_nodup**: a pass never emits two functions of one plugin under one name (same name
and same types: one function; same name and other types: the run fails with an Add Error), so the
signature the next pass reads for a callee is well defined. -/
theorem pass_names_nodup (gen : GenFn) (d : Derived) (calls : List Call) (reg : List Fn) (us : List Nat)
    (h : pass gen d calls = .ok (reg, us)) : NamesNodup reg := by
  unfold pass at h
  split at h
  · cases h
  · rename_i reg' us' hr
    split at h
    · cases h
    · cases h
      exact foldlM_nodup gen d calls ([], []) (reg, us) (by simp [NamesNodup]) hr

/-! ### the full statement is false for the current code: a stale signature that flows -/

/-- `zs := deriveFmap(conv, xs); deriveEqual(zs, ys)`: function 0 = deriveFmap (plugin 0),
1 = deriveEqual (plugin 1); types: 1 = func(int) int, 4 = func(int) string, 2 = []int, 5 = []string. -/
def wCalls : List Call :=
  [⟨0, 0, 0, [.known 1, .known 2]⟩, ⟨1, 1, 1, [.resultOf 0, .known 2]⟩]

def wGen : GenFn := fun plugin ts =>
  match plugin, ts with
  | 0, [1, 2] => .emits 2      -- deriveFmap(func(int) int, []int) []int
  | 0, [4, 2] => .emits 5      -- deriveFmap(func(int) string, []int) []string
  | 1, [a, b] => if a = b then .emits 0 else .addFails   -- deriveEqual needs identical argument types
  | _, _ => .addFails

/-- the old file was generated when `conv` returned string -/
def wOld : Derived := [(0, 5), (1, 0)]

theorem regen_stale_witness :
    regen wGen wCalls [] = .ok (some [⟨0, 0, [1, 2], some 2⟩, ⟨1, 1, [2, 2], some 0⟩]) ∧
    regen wGen wCalls wOld = .error "Add Error" := by
  constructor <;> rfl

/-- a stale signature that the consumer ACCEPTS: `deriveSort(deriveKeys(m))` after the key type of `m`
changed from string (5 = []string) to int (2 = []int); plugin 2 = keys, 3 = sort. The run succeeds and
leaves a deriveSort for the old type: it differs from the from-scratch file (and does not type-check). -/
def sCalls : List Call := [⟨3, 3, 0, [.resultOf 2]⟩, ⟨2, 2, 1, [.known 7]⟩]

def sGen : GenFn := fun plugin ts =>
  match plugin, ts with
  | 2, [7] => .emits 2         -- deriveKeys(map[int]string) []int
  | 2, [_] => .generateFails   -- deriveKeys of a type that is not a map: accepted by Add, refused by Generate
  | 3, [t] => .emits t         -- deriveSort([]T) []T
  | _, _ => .addFails

theorem regen_stale_accepted_witness :
    regen sGen sCalls [] = .ok (some [⟨3, 3, [2], some 2⟩, ⟨2, 2, [7], some 2⟩]) ∧
    regen sGen sCalls [(2, 5), (3, 5)] = .ok (some [⟨3, 3, [5], some 5⟩, ⟨2, 2, [7], some 2⟩]) := by
  constructor <;> rfl

/-! ### several packages in one invocation -/

/-- **invocation_single**: an invocation on one package is `regen` on it -/
theorem invocation_single (gen : GenFn) (p : Nat) (calls : List Call) (old : Derived) :
    invocation gen [(p, old)] [⟨p, calls⟩] = [(p, regen gen calls old)] := by
  unfold invocation runAll
  have h : others p [(p, old)] = [] := by simp [others]
  simp only [h, List.lookup_cons_self, Option.getD_some]
  unfold regen
  cases regenIn gen calls [] [] old with
  | error e => rfl
  | ok f => simp [runAll]

/-- index (package 1): `Words = deriveSort(deriveKeys(table))` (functions 3 = sort, 2 = keys of `sGen`);
app (package 0): `deriveEqual(catalog.Names, want)` with `catalog.Names = index.Words` (function 1 of
`wGen`'s numbering would clash: the app's calls are 5 = deriveEqual (plugin 1), 6 = deriveHash (plugin 4)). -/
def mGen : GenFn := fun plugin ts =>
  match plugin, ts with
  | 2, [7] => .emits 2
  | 3, [t] => .emits t
  | 1, [a, b] => if a = b then .emits 0 else .addFails
  | 4, [_] => .emits 9
  | _, _ => .addFails

def mIndex : PkgRun := ⟨1, sCalls⟩
def mApp : PkgRun := ⟨0, [⟨5, 1, 0, [.resultOf 3, .known 2]⟩, ⟨6, 4, 1, [.known 2]⟩]⟩

/-- **invocation_order_witness**: why the packages are generated imported-first (C08 `order_imports_first`,
seeded change R-C07-B): with every derived.gen.go absent, generating index before app leaves both
complete in one run; generating app first ends the run at app, whose deriveEqual never gets its argument
type (since 5fa8037, F131, that is a failure although deriveHash was generated; before, the run went on
and left app's derived.gen.go without deriveEqual). -/
theorem invocation_order_witness :
    invocation mGen [] [mIndex, mApp] =
      [(1, .ok (some [⟨3, 3, [2], some 2⟩, ⟨2, 2, [7], some 2⟩])),
       (0, .ok (some [⟨5, 1, [2, 2], some 0⟩, ⟨6, 4, [2], some 9⟩]))] ∧
    invocation mGen [] [mApp, mIndex] = [(0, .error "cannot generate")] := by
  constructor <;> rfl

/-- non-vacuity of `regenIn_congr`: app's first pass does not care what else the index file declared -/
example : regenIn mGen mApp.calls [(3, 2), (2, 2)] [(3, 2), (2, 2)] [] = regenIn mGen mApp.calls [(3, 2)] [(3, 2), (2, 2)] [(8, 8)] :=
  regenIn_congr mGen mApp.calls _ _ _ _ _ (by
    intro c hc n hn; simp [mApp] at hc; rcases hc with rfl | rfl <;> simp at hn; subst hn; rfl)

/-- non-vacuity of `regen_one_pass`: a previous version's file that declared more functions and the
same flowing signature -/
example : regen wGen wCalls [(7, 9), (0, 2)] = .ok (some [⟨0, 0, [1, 2], some 2⟩, ⟨1, 1, [2, 2], some 0⟩]) :=
  regen_one_pass wGen wCalls [(7, 9), (0, 2)] [(0, 2), (1, 0)] [⟨0, 0, [1, 2], some 2⟩, ⟨1, 1, [2, 2], some 0⟩] rfl (by decide)
    (by intro c hc n hn; simp [wCalls] at hc; rcases hc with rfl | rfl <;> simp at hn <;> subst hn <;> rfl)

example : regen wGen [⟨0, 0, 0, [.known 1, .known 2]⟩] wOld = regen wGen [⟨0, 0, 0, [.known 1, .known 2]⟩] [] :=
  regen_no_flow wGen _ _ _ (by intro c hc n; simp at hc; subst hc; simp)

/-- a stale signature that the consumer accepts and whose RESULT type is the same: `deriveEqual(zs, zs)`
with `zs := deriveFmap(conv, xs)`. The run succeeds with the same functions and result types as from
scratch, but deriveEqual is generated for the stale argument type. -/
theorem regen_stale_same_results_witness :
    regen wGen [⟨0, 0, 0, [.known 1, .known 2]⟩, ⟨1, 1, 1, [.resultOf 0, .resultOf 0]⟩] [] =
      .ok (some [⟨0, 0, [1, 2], some 2⟩, ⟨1, 1, [2, 2], some 0⟩]) ∧
    regen wGen [⟨0, 0, 0, [.known 1, .known 2]⟩, ⟨1, 1, 1, [.resultOf 0, .resultOf 0]⟩] wOld =
      .ok (some [⟨0, 0, [1, 2], some 2⟩, ⟨1, 1, [5, 5], some 0⟩]) := by
  constructor <;> rfl

/-- non-vacuity of `regen_congr`: the old file lost `deriveEqual` and gained an unrelated function -/
example : regen wGen wCalls [(0, 5), (9, 9)] = regen wGen wCalls wOld :=
  regen_congr wGen wCalls _ _ (by
    intro c hc n hn; simp [wCalls] at hc; rcases hc with rfl | rfl <;> simp at hn <;> subst hn <;> rfl)

/-- non-vacuity of `pass_names_nodup` and of the name table: a second call of `deriveFmap` under
another name for the same types is an Add Error; under the same name it is the same function -/
example : pass wGen [] (wCalls ++ [⟨7, 0, 2, [.known 1, .known 2]⟩]) = .error "Add Error" := rfl
example : pass wGen [] (wCalls ++ [⟨0, 0, 2, [.known 1, .known 2]⟩]) =
    .ok ([⟨0, 0, [1, 2], some 2⟩], [1]) := rfl
example : agreeOnB wCalls wOld [] = false := rfl

/-- a Generator Error comes after every Add Error: `deriveKeys(xs)` on a slice (accepted by Add) next
to a `deriveFmap` that Add refuses is an Add Error, alone it is a Generator Error -/
example : regen sGen [⟨2, 2, 0, [.known 5]⟩] [] = .error "Generator Error" := rfl
example : regen sGen [⟨2, 2, 0, [.known 5]⟩, ⟨0, 0, 1, [.known 5]⟩] [] = .error "Add Error" := rfl

end Goderive.C07
