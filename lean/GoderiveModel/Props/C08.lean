/-
  C08 — Generation is deterministic and independent of invocation context.

  Every source of nondeterminism inside goderive is Go map iteration. The regenerated fact
  `Generated.mapRangeSites` lists every `range` over a map-typed operand in main.go, derive/, plugin/;
  `expected_map_range_sites` pins it to the sites modelled in G/Determinism, so a NEW map range in the source
  breaks this file (= an unmodelled source of nondeterminism). Each modelled site is proved invariant under
  any permutation of the visiting order. Independence of the invocation context is the absence of any other
  input: no package-level variable is written after initialisation (`no_mutable_package_state`), every
  per-package structure (printer, qualifier, name tables, generators) is created in newPackage.

  Trusted parameters (partial): the loader's package identity for different spellings of a package argument
  and its processing order of packages (x/tools `Program.InitialPackages` ranges a map of its own: outside
  the scanned sources; per-package outputs do not depend on it because no state is shared, but WHICH packages
  are written before a failing one does — observed and reported by the black-box part of the check);
  `sort.Strings` as a total order; Go's map semantics (lookups are order-independent).
-/
import GoderiveModel.G.Determinism
import GoderiveModel.Generated.Facts

namespace Goderive.C08
open Goderive.G.Imports Goderive.G.Determinism

/-! ### the facts -/

theorem facts_complete : Generated.typeCheckErrors = [] := by decide

/-- All `range`-over-map statements of the current source. The three are modelled below;
`(*typesMap).nameOf` is no longer among them (it was the fourth before fix dbfd0e2). -/
theorem expected_map_range_sites : Generated.mapRangeSites =
    ["derive/generate.go:(*pkg).Done:pkg.generators",
     "derive/generate.go:union:that",
     "derive/printer.go:(*printer).WriteTo:p.imports"] := by decide

/-- No package-level variable of main / derive / plugin/* is assigned, incremented, stored through or has
its address taken outside its declaration: packages processed in one invocation share no mutable state. -/
theorem no_mutable_package_state : Generated.mutablePackageVars = [] := by decide

/-- The package-level variables that exist at all: main's four flag pointers, one string constant-like var and one
regular expression compiled at initialisation (never assigned afterwards: `no_mutable_package_state`; a *regexp.Regexp is
safe for concurrent read-only use and carries no per-package state). -/
theorem package_vars_expected : Generated.packageVars =
    ["derive/params.go:blackIdentifier:string",
     "main.go:autoname:*bool",
     "main.go:dedup:*bool",
     "main.go:pluginprefix:*string",
     "main.go:prefix:*string",
     "plugin/deepcopy/deepcopy.go:unsafeRoot:*regexp.Regexp"] := by decide

/-! ### site 1: union of the reserved-name sets -/

theorem union_order_invariant (this : NameSet) {that₁ that₂ : List String} (h : that₁.Perm that₂) :
    union this that₁ = union this that₂ := union_perm h

/-- the whole `reserved` set of newPackage, every file's set visited in an arbitrary order -/
theorem reserved_order_invariant {fs₁ fs₂ : List (List String)} (h : PermEach fs₁ fs₂) :
    reserved fs₁ = reserved fs₂ := reserved_perm h

/-- …and it is the union (specification) -/
theorem union_spec (this : NameSet) (that : List String) (x : String) :
    union this that x = (this x || that.contains x) := union_apply this that x

example : reserved [["f", "g"], ["h"]] = reserved [["g", "f"], ["h"]] :=
  reserved_order_invariant (.cons (List.Perm.swap ..) (.cons (List.Perm.refl _) .nil))
example : reserved [["f", "g"], ["h"]] "g" = true ∧ reserved [["f", "g"], ["h"]] "k" = false := by decide

/-! ### site 2: pkg.Done -/

theorem done_order_invariant {l₁ l₂ : List Bool} (h : l₁.Perm l₂) : doneLoop l₁ = doneLoop l₂ :=
  doneLoop_perm h

/-- With the side effect of `g.Done()` (nameOf re-qualifies named types = invokes NewImport closures) and the
early return: in a table built by the requests made so far, consulting the generators in any order returns the
same answer and leaves the import table unchanged. -/
theorem done_effects_order_invariant {unv full : String → String} {sfx : String → Nat → String} {t₀ t : Table} {history : List Req}
    {as : List String} (hrun : run unv full sfx t₀ history = some (t, as))
    {gs₁ gs₂ : List GenDone} (hp : gs₁.Perm gs₂) (hreq : ∀ g ∈ gs₁, ∀ r ∈ g.reqs, r ∈ history) :
    doneLoopM unv full sfx t gs₁ = doneLoopM unv full sfx t gs₂ ∧
      doneLoopM unv full sfx t gs₁ = some (t, doneLoop (gs₁.map (·.answer))) := by
  have hs := run_settles hrun
  have h1 := doneLoopM_settled (unv := unv) (full := full) (sfx := sfx) (t := t) (gs := gs₁)
    (fun g hg r hr => hs r (hreq g hg r hr))
  have h2 := doneLoopM_settled (unv := unv) (full := full) (sfx := sfx) (t := t) (gs := gs₂)
    (fun g hg r hr => hs r (hreq g (hp.mem_iff.2 hg) r hr))
  refine ⟨?_, h1⟩
  rw [h1, h2, doneLoop_perm (hp.map _)]

example : doneLoop [true, false, true] = doneLoop [false, true, true] := done_order_invariant (List.Perm.swap ..)

example : doneLoopM id id (fun fp _ => fp) [("b", "x/b")] [⟨[⟨"b", "x/b"⟩], true⟩, ⟨[], false⟩] =
    doneLoopM id id (fun fp _ => fp) [("b", "x/b")] [⟨[], false⟩, ⟨[⟨"b", "x/b"⟩], true⟩] := by decide

/-! ### site 3: printer.WriteTo -/

/-- The import table built by any sequence of NewImport calls with consistent package names has one alias
per path (and distinct aliases), so `pathToQual` is a function. -/
theorem import_table_one_alias_per_path {unv full nm : String → String} {sfx : String → Nat → String} {rs : List Req} {t : Table}
    {as : List String} (hc : ∀ r ∈ rs, Consistent unv nm r) (hrun : run unv full sfx [] rs = some (t, as)) :
    OneAliasPerPath t ∧ (keys t).Nodup := by
  have hI := run_inv (inv_nil full nm sfx) hc hrun
  exact ⟨fun a b p ha hb => hI.vals_unique ha hb, hI.keysNodup⟩

/-- The import block does not depend on the order in which `range p.imports` visits the table. -/
theorem writeTo_order_invariant {le : String → String → Bool}
    (trans : ∀ a b c, le a b = true → le b c = true → le a c = true)
    (total : ∀ a b, (le a b || le b a) = true)
    (antisymm : ∀ a b, le a b = true → le b a = true → a = b)
    {unv full nm : String → String} {sfx : String → Nat → String} {rs : List Req} {t visit₁ visit₂ : Table} {as : List String}
    (hc : ∀ r ∈ rs, Consistent unv nm r) (hrun : run unv full sfx [] rs = some (t, as))
    (h₁ : t.Perm visit₁) (h₂ : t.Perm visit₂) :
    writeTo le visit₁ = writeTo le visit₂ := by
  have h1 := (import_table_one_alias_per_path hc hrun).1
  rw [← writeTo_perm trans total antisymm h1 h₁, ← writeTo_perm trans total antisymm h1 h₂]

/-- sort.Strings' order on Go strings (bytewise) as Lean's order on String: a total order -/
def strLe (a b : String) : Bool := decide (a ≤ b)

theorem strLe_trans (a b c : String) : strLe a b = true → strLe b c = true → strLe a c = true := by
  simp only [strLe, decide_eq_true_eq]; exact String.le_trans
theorem strLe_total (a b : String) : (strLe a b || strLe b a) = true := by
  simp only [strLe, Bool.or_eq_true, decide_eq_true_eq]; exact String.le_total a b
theorem strLe_antisymm (a b : String) : strLe a b = true → strLe b a = true → a = b := by
  simp only [strLe, decide_eq_true_eq]; exact String.le_antisymm

/-- Why the invariant is needed: with two aliases for one path `pathToQual` (hence the block) depends on the
visiting order. -/
theorem pathToQual_order_witness :
    qualOf [("a", "p"), ("b", "p")] "p" ≠ qualOf [("b", "p"), ("a", "p")] "p" := by decide

/-- alias collision → full-path alias, and a taken full path → numbered alias (unv = id, full = a fixed
renaming, numbered candidates spelled out); the block is the same for both visiting orders of the table -/
def exFull (p : String) : String := if p = "y/b" then "y_b" else p
def exNm (_ : String) : String := "b"
def exSfx (fp : String) : Nat → String
  | 0 => fp
  | 1 => if fp = "y_b" then "y_b_2" else fp ++ "_2"
  | _ => "?"

example : run id exFull exSfx [] [⟨"b", "x/b"⟩, ⟨"b", "y/b"⟩, ⟨"b", "x/b"⟩] =
    some ([("b", "x/b"), ("y_b", "y/b")], ["b", "y_b", "b"]) := by decide

/-- a package NAMED y_b was imported first: the full-path alias is taken, the numbered one is used (this was a
Go panic before fix 81ad18a) -/
example : run id exFull exSfx [] [⟨"y_b", "q/y_b"⟩, ⟨"b", "x/b"⟩, ⟨"b", "y/b"⟩] =
    some ([("y_b", "q/y_b"), ("b", "x/b"), ("y_b_2", "y/b")], ["y_b", "b", "y_b_2"]) := by decide

example : writeTo strLe [("b", "x/b"), ("y_b", "y/b")] = writeTo strLe [("y_b", "y/b"), ("b", "x/b")] :=
  writeTo_order_invariant strLe_trans strLe_total strLe_antisymm (unv := id) (full := exFull) (nm := exNm) (sfx := exSfx)
    (rs := [⟨"b", "x/b"⟩, ⟨"b", "y/b"⟩, ⟨"b", "x/b"⟩]) (as := ["b", "y_b", "b"])
    (by intro r hr; simp at hr; rcases hr with rfl | rfl | rfl <;> rfl) (by decide)
    (List.Perm.refl _) (List.Perm.swap ..)

/-! ### the former site 4: nameOf -/

/-- nameOf prefers an exact (types.Identical) match over any assignable one, wherever they were registered. -/
theorem nameOf_exact_first {Ty : Type} (ident assign : List Ty → List Ty → Bool) (tm : TM Ty) (typs : List Ty)
    (n : String) (h : firstMatch (ident typs) tm.typss tm.names = some n) :
    nameOf ident assign tm typs = some n :=
  Goderive.G.Determinism.nameOf_exact_first ident assign tm typs n h

/-- The lookup as it was (first assignable entry in map order) depends on the visiting order: `A`, `B` both
`[]int` (assignable from the unnamed `[]int`, not from each other). This is what `expected_map_range_sites`
guards against coming back. Types: 0 = []int, 1 = A, 2 = B. -/
theorem nameOf_map_order_witness :
    let assign : List Nat → List Nat → Bool := fun a b => a == b || a == [0] || b == [0]
    nameOfMapOrder assign [("deriveEqualA", [1]), ("deriveEqualB", [2])] [0] ≠
      nameOfMapOrder assign [("deriveEqualB", [2]), ("deriveEqualA", [1])] [0] := by decide

/-- the current lookup on the same table: a function of the registration order only, exact match first -/
example :
    let ident : List Nat → List Nat → Bool := fun a b => a == b
    let assign : List Nat → List Nat → Bool := fun a b => a == b || a == [0] || b == [0]
    nameOf ident assign ⟨[[1], [2], [0]], ["deriveEqualA", "deriveEqualB", "deriveEqual_"]⟩ [0] = some "deriveEqual_" ∧
    nameOf ident assign ⟨[[1], [2]], ["deriveEqualA", "deriveEqualB"]⟩ [0] = some "deriveEqualA" := by decide

end Goderive.C08
