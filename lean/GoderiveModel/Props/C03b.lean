/-
C03, the clause "derived Compare returns 0 exactly when derived Equal holds", stated literally with
the MODEL of the emitted Equal (`Equal.top`, C02) instead of its specification: a corollary of
`C03.compare_zero_iff_structEq` and `C02.equal_correct`.
-/
import GoderiveModel.Props.C02
import GoderiveModel.Props.C03

namespace Goderive.C03
open Goderive Val

/-- **C03, "returns 0 exactly when derived Equal holds".** For NaN-free values of a type that both
plugin/compare (`SupportedCmp`) and plugin/equal (`Supported`) generate code for, the emitted
`deriveCompare` returns 0 exactly when the emitted `deriveEqual` returns true. -/
theorem compare_zero_iff_equal {env : Env} {T : Ty} {x y : Val} (hf : env.flagsOk = true)
    (hx : hasType env T x = true) (hy : hasType env T y = true)
    (nx : nanFree x = true) (ny : nanFree y = true)
    (hs : Supported env T = true) (hc : SupportedCmp env T = true) :
    Compare.top env T x y = .ok 0 ↔ Equal.top env T x y = .ok true := by
  rw [compare_zero_iff_structEq hf hx hy nx ny hc, C02.equal_correct env T x y hf hx hy hs]
  constructor
  · intro h; rw [h]
  · intro h; exact Res.ok.inj h

/-- `x1`, `y1` (other addresses, other map order, `+0` vs `-0`): Compare says 0, Equal says true -/
example : Compare.top env tNode x1 y1 = .ok 0 ∧ Equal.top env tNode x1 y1 = .ok true := by
  have h : Compare.top env tNode x1 y1 = .ok 0 := by
    rw [compare_correct env_flagsOk x1_typed y1_typed env_supported, x1_y1]
  exact ⟨h, (compare_zero_iff_equal env_flagsOk x1_typed y1_typed x1_nanFree y1_nanFree
    (by decide) env_supported).1 h⟩
/-- `x1`, `z1` (one float leaf differs): Compare says -1, hence Equal does not say true -/
example : Compare.top env tNode x1 z1 = .ok (-1) ∧ Equal.top env tNode x1 z1 ≠ .ok true := by
  have h : Compare.top env tNode x1 z1 = .ok (-1) := by
    rw [compare_correct env_flagsOk x1_typed z1_typed env_supported, x1_z1]
  refine ⟨h, fun he => ?_⟩
  have := (compare_zero_iff_equal env_flagsOk x1_typed z1_typed x1_nanFree z1_nanFree
    (by decide) env_supported).2 he
  rw [h] at this
  exact absurd (Res.ok.inj this) (by decide)

end Goderive.C03
