/-
Property C04, user-declared Hash methods.

`HashM` (S/Methods.lean) is the model of plugin/hash INCLUDING the dispatch to user-declared Hash
methods; it is what the compiled driver runs.

Part 1, conservativity: on an environment without methods `HashM` IS the plain model `Hash` (for all
arguments, typed or not; `HashM` never consults `canEqualM`, so no flag hypothesis is needed), so
every theorem of Props/C04.lean is a theorem about what the driver runs.
Part 2, WITH methods (`…_partial`): values that the method-aware Equal considers equal hash to the same
number, provided the user's methods are consistent with each other: exactly the declarations with an
Equal method have a Hash method (`Env.methodsPaired`; both look at the first field in the corpus).

Only theorems and non-vacuity examples live here; proofs, `Env.methodsPaired` and the concrete world
`MW` are in Lemmas/Methods.lean.
-/
import GoderiveModel.Lemmas.Methods
import GoderiveModel.Props.C04
import GoderiveModel.Props.C02c

set_option linter.unusedSimpArgs false

namespace Goderive.C04
open Goderive Val

/-! ### 1. Conservativity -/

/-- `C04.env` with the `canEqM` flags filled in (as the driver's `fixFlags` does) -/
def envN : Env := { decls := [
  { under := .struct (.fcons (.basic (.int 64 true)) (.fcons (.ptr (.named 0))
      (.fcons (.slice (.basic .string)) (.fcons (.map (.basic .string) (.named 1))
      (.fcons (.basic (.float 64)) .fnil))))), canEq := false, canEqM := false },
  { under := .struct (.fcons (.basic (.float 64)) (.fcons (.basic (.float 64)) .fnil)),
    canEq := true, canEqM := true },
  { under := .struct (.fcons (.basic (.int 64 true)) (.fcons (.basic (.int 64 true)) .fnil)),
    canEq := true, canEqM := true, external := true, priv := true, privMask := [false, true] } ] }

/-- **Conservativity of the model.** Without methods, the method-aware model of the function
generated for `T`, and of the expression emitted for a component of type `T`, are the plain models. -/
theorem hashM_eq_hash (env : Env) (T : Ty) (x : Val) (hn : env.noMethods = true) :
    HashM.top env T x = Hash.top env T x ∧ HashM.field env T x = Hash.field env T x :=
  ⟨(hashMConserv hn x).top T, (hashMConserv hn x).field T⟩

example : HashM.top env tNode x1 = .ok 13407230646409729311 := by
  rw [(hashM_eq_hash env tNode x1 (by decide)).1, x1_hash]

/-- … and so are the three loops (struct fields with their skip mask, elements, sorted map entries). -/
theorem hashM_loops_eq_hash (env : Env) (K T : Ty) (skip : List Bool) (xs : Val) (h : UInt64)
    (hn : env.noMethods = true) :
    HashM.fields env skip T xs h = Hash.fields env skip T xs h ∧
    HashM.elems env T xs h = Hash.elems env T xs h ∧
    HashM.entries env K T xs h = Hash.entries env K T xs h :=
  ⟨(hashMConserv hn xs).fields skip T h, (hashMConserv hn xs).elems T h,
    (hashMConserv hn xs).entries K T h⟩

example : HashM.entries env tPt (.basic (.int 64 true)) m1 17 =
    Hash.entries env tPt (.basic (.int 64 true)) m1 17 :=
  (hashM_loops_eq_hash env tPt _ [] m1 17 (by decide)).2.2

/-- **C04 main clause for what the driver runs**, on method-free environments
(`hash_respects_structEq` transferred). -/
theorem hashM_respects_structEq_noMethods (env : Env) (T : Ty) (x y : Val)
    (hn : env.noMethods = true) (hf : env.flagsOk = true)
    (hx : hasType env T x = true) (hy : hasType env T y = true)
    (he : Spec.structEq env T x y = true) :
    HashM.top env T x = HashM.top env T y := by
  rw [(hashM_eq_hash env T x hn).1, (hashM_eq_hash env T y hn).1]
  exact hash_respects_structEq env T x y hf hx hy he

example : HashM.top env tNode x1 = HashM.top env tNode y1 :=
  hashM_respects_structEq_noMethods env tNode x1 y1 (by decide) env_flagsOk x1_typed y1_typed
    x1_y1_structEq

/-- … literally with the method-aware model of the emitted Equal (`hash_respects_equal` transferred
along both conservativity theorems). -/
theorem hashM_respects_equalM_noMethods (env : Env) (T : Ty) (x y : Val)
    (hn : env.noMethods = true) (ha : env.flagsAgree = true) (hf : env.flagsOk = true)
    (hx : hasType env T x = true) (hy : hasType env T y = true)
    (hs : Supported env T = true) (he : EqualM.top env T x y = .ok true) :
    HashM.top env T x = HashM.top env T y := by
  rw [(C02.equalM_eq_equal env T x y hn ha).1] at he
  rw [(hashM_eq_hash env T x hn).1, (hashM_eq_hash env T y hn).1]
  exact hash_respects_equal env T x y hf hx hy hs he

example : EqualM.top envN tNode x1 y1 = .ok true ∧ HashM.top envN tNode x1 = HashM.top envN tNode y1 := by
  have tx : hasType envN tNode x1 = true := by
    goderive_eval [envN, tNode, x1, node, leaf, pt, hi, ka, kb, f0, f1, f2, fm0]
  have ty : hasType envN tNode y1 = true := by
    goderive_eval [envN, tNode, y1, node, leaf, pt, hi, ka, kb, f0, f1, f2, fm0]
  have h : EqualM.top envN tNode x1 y1 = .ok true := by
    rw [C02.equalM_correct_noMethods envN tNode x1 y1 (by decide) (by decide) (by decide) tx ty
      (by decide)]
    goderive_eval [envN, tNode, x1, y1, node, leaf, pt, hi, ka, kb, f0, f1, f2, fm0]
  exact ⟨h, hashM_respects_equalM_noMethods envN tNode x1 y1 (by decide) (by decide) (by decide) tx ty
    (by decide) h⟩

/-- never panics on a typed value, the component form is the top form (transferred) -/
theorem hashM_total_noMethods (env : Env) (T : Ty) (x : Val) (hn : env.noMethods = true)
    (hx : hasType env T x = true) :
    (∃ h, HashM.top env T x = .ok h) ∧ HashM.field env T x = HashM.top env T x := by
  rw [(hashM_eq_hash env T x hn).1, (hashM_eq_hash env T x hn).2]
  exact ⟨hash_total env T x hx, hash_field_eq_top env T x⟩

example : ∃ h, HashM.top env tNode x1 = .ok h :=
  (hashM_total_noMethods env tNode x1 (by decide) x1_typed).1

/-! ### 2. With methods: Hash respects the method-aware Equal -/

/-- **C04 with user methods (partial).** On an environment whose declarations may declare Equal and
Hash methods, two typed values with `structEqTopM env T x y` (= what the function generated by
plugin/equal for `T` answers, `C02.equalM_top_correct`) have the same `HashM.top`.

What the user's methods must satisfy (this is the `_partial`: the statement is about the corpus'
first-field methods `userEqVal` / `userHashVal`, not about arbitrary user code): EXACTLY the
declarations with an Equal method have a Hash method (`Env.methodsPaired`: with Equal but no Hash the
derived hash would read fields Equal ignores), and `SupportedM` (every method-bearing declaration is a
struct with a first field — Equal reads it with `==`, Hash as `uint64(int32(A))`, so `==`-equal first
fields hash alike whatever their type). Map key types need no condition: keys are matched with `==`,
and `==`-equal keys hash alike even when the key type has methods. NaN-freeness is NOT needed, nor
`flagsOkM`. The parameter kind of the methods (pointer / value) is irrelevant. -/
theorem hashM_respects_structEqM_partial (env : Env) (T : Ty) (x y : Val)
    (hf : env.flagsOk = true) (hp : env.methodsPaired = true)
    (hx : hasType env T x = true) (hy : hasType env T y = true)
    (hs : SupportedM env T = true) (he : Spec.structEqTopM env T x y = true) :
    HashM.top env T x = HashM.top env T y := by
  simp only [SupportedM, Bool.and_eq_true] at hs
  exact (hashMOK hf hs.2 hp x).top T y hs.1 hx hy he

/-- `hx`, `hy` differ in the second field of every `UE` / `UV` they contain: method-equal, same hash -/
example : HashM.top MW.env MW.tHolder MW.hx = HashM.top MW.env MW.tHolder MW.hy :=
  hashM_respects_structEqM_partial MW.env MW.tHolder MW.hx MW.hy MW.env_flagsOk
    (by decide) MW.hx_typed MW.hy_typed MW.env_supported
    (by rw [structEqTopM_not_ptr (by intro R h; cases h)]; exact MW.hx_hy_structEqM)

/-- a map whose KEY type has methods (`map[UV]int64`), filled in two orders: equal (keys matched with
`==`), same hash -/
example :
    HashM.top MW.env (.map MW.tUV MW.i64)
      (.map 1 (.scons (.pair (MW.uv 1 [97]) (.int 0)) (.scons (.pair (MW.uv 2 [98]) (.int 1)) .snil))) =
    HashM.top MW.env (.map MW.tUV MW.i64)
      (.map 2 (.scons (.pair (MW.uv 2 [98]) (.int 1)) (.scons (.pair (MW.uv 1 [97]) (.int 0)) .snil))) :=
  hashM_respects_structEqM_partial MW.env _ _ _ MW.env_flagsOk (by decide)
    (by goderive_eval [MW.env, MW.tUV, MW.uv, MW.i64])
    (by goderive_eval [MW.env, MW.tUV, MW.uv, MW.i64]) (by decide)
    (by rw [structEqTopM_not_ptr (by intro R h; cases h)]
        goderive_evalM [MW.env, MW.tUV, MW.uv, MW.i64])

/-- the component form: `structEqM`-equal components contribute the same `HashM.field` -/
theorem hashM_field_respects_structEqM_partial (env : Env) (T : Ty) (x y : Val)
    (hf : env.flagsOk = true) (hp : env.methodsPaired = true)
    (hx : hasType env T x = true) (hy : hasType env T y = true)
    (hs : SupportedCompM env T = true) (he : Spec.structEqM env T x y = true) :
    HashM.field env T x = HashM.field env T y := by
  simp only [SupportedCompM, Bool.and_eq_true] at hs
  exact (hashMOK hf hs.2 hp x).comp T y hs.1 hx hy he

/-- `&UE{1,{1}}` and `&UE{1,{9}}` as components: the methods say equal, and the hash is the method's -/
example : HashM.field MW.env (.ptr MW.tUE) (.ptr 1 (MW.ue 1 (MW.ints 2 1))) =
    HashM.field MW.env (.ptr MW.tUE) (.ptr 3 (MW.ue 1 (MW.ints 4 9))) :=
  hashM_field_respects_structEqM_partial MW.env _ _ _ MW.env_flagsOk (by decide)
    (by goderive_eval [MW.env, MW.tUE, MW.ue, MW.ints, MW.i64])
    (by goderive_eval [MW.env, MW.tUE, MW.ue, MW.ints, MW.i64]) (by decide)
    (by goderive_evalM [MW.env, MW.tUE, MW.ue, MW.ints, MW.i64])

/-- **"any two values that derived Equal considers equal hash to the same number", with methods**,
literally with the two models the driver runs. -/
theorem hashM_respects_equalM_partial (env : Env) (T : Ty) (x y : Val)
    (hf : env.flagsOk = true) (hfM : env.flagsOkM = true) (hp : env.methodsPaired = true)
    (hx : hasType env T x = true) (hy : hasType env T y = true)
    (hs : SupportedM env T = true) (he : EqualM.top env T x y = .ok true) :
    HashM.top env T x = HashM.top env T y := by
  rw [C02.equalM_top_correct env T x y hf hfM hx hy hs] at he
  exact hashM_respects_structEqM_partial env T x y hf hp hx hy hs (Res.ok.inj he)

example : EqualM.top MW.env MW.tHolder MW.hx MW.hy = .ok true ∧
    HashM.top MW.env MW.tHolder MW.hx = HashM.top MW.env MW.tHolder MW.hy := by
  have h : EqualM.top MW.env MW.tHolder MW.hx MW.hy = .ok true := by
    rw [C02.equalM_top_correct MW.env MW.tHolder MW.hx MW.hy MW.env_flagsOk MW.env_flagsOkM
      MW.hx_typed MW.hy_typed MW.env_supported,
      structEqTopM_not_ptr (by intro R h; cases h), MW.hx_hy_structEqM]
  exact ⟨h, hashM_respects_equalM_partial MW.env MW.tHolder MW.hx MW.hy MW.env_flagsOk
    MW.env_flagsOkM (by decide) MW.hx_typed MW.hy_typed MW.env_supported h⟩

/-- `methodsPaired` is needed: `type W struct{ A int64; B int64 }` with an Equal method (on `A`) but NO
Hash method: `W{1,2}` and `W{1,3}` are equal for the method, the derived hash reads `B`. -/
example :
    let env : Env := { decls := [
      { under := .struct (.fcons MW.i64 (.fcons MW.i64 .fnil)), canEq := true, canEqM := false,
        eqM := some .val } ] }
    let x : Val := .struct (.scons (.int 1) (.scons (.int 2) .snil))
    let y : Val := .struct (.scons (.int 1) (.scons (.int 3) .snil))
    env.flagsOk = true ∧ env.flagsOkM = true ∧ env.methodsPaired = false ∧
      SupportedM env (.named 0) = true ∧ hasType env (.named 0) x = true ∧
      hasType env (.named 0) y = true ∧ EqualM.top env (.named 0) x y = .ok true ∧
      HashM.top env (.named 0) x ≠ HashM.top env (.named 0) y := by
  refine ⟨by decide, by decide, by decide, by decide, ?_, ?_, ?_, ?_⟩
  · goderive_eval [MW.i64]
  · goderive_eval [MW.i64]
  · equalM_eval [MW.i64]
  · simp +decide [HashM.top.eq_def, HashM.fields, HashM.field.eq_def, Env.under, Env.decl?,
      Env.hashM?, Env.skipMask, MW.i64, Hash.leaf, mix, toU64]

end Goderive.C04
