/-
Property C03, user-declared Compare methods: conservativity.

`CompareM` (S/Methods.lean) is the model of plugin/compare INCLUDING the dispatch to user-declared
Compare methods; it is what the compiled driver runs. On an environment without methods it IS the plain
model `Compare` (for all arguments, typed or not), so every theorem of Props/C03.lean and Props/C03b.lean
is a theorem about what the driver runs. `CompareM` never consults `canEqualM`, so no flag hypothesis
is needed for the model itself (only for the clause that mentions `EqualM`).

Only theorems and non-vacuity examples live here; proofs are in Lemmas/Methods.lean.
-/
import GoderiveModel.Lemmas.Methods
import GoderiveModel.Props.C03
import GoderiveModel.Props.C03b
import GoderiveModel.Props.C02c

set_option linter.unusedSimpArgs false

namespace Goderive.C03
open Goderive Val

/-- `C03.env` with the `canEqM` flags filled in (as the driver's `fixFlags` does) -/
def envN : Env := { decls := [
  { under := .struct (.fcons (.basic (.int 64 true)) (.fcons (.ptr (.named 0))
      (.fcons (.slice (.basic .string)) (.fcons (.map (.basic .string) (.named 1))
      (.fcons (.basic (.complex 128)) (.fcons (.basic .bool)
      (.fcons (.array 2 (.basic (.int 8 false))) .fnil))))))), canEq := false, canEqM := false },
  { under := .struct (.fcons (.basic (.float 64)) (.fcons (.basic (.float 64)) .fnil)),
    canEq := true, canEqM := true } ] }

/-- **Conservativity of the model.** Without methods, the method-aware model of the function
generated for `T`, and of the expression emitted for a component of type `T`, are the plain models. -/
theorem compareM_eq_compare (env : Env) (T : Ty) (x y : Val) (hn : env.noMethods = true) :
    CompareM.top env T x y = Compare.top env T x y ∧
    CompareM.field env T x y = Compare.field env T x y :=
  ⟨(cmpMConserv hn x).top T y, (cmpMConserv hn x).field T y⟩

example : CompareM.top env tNode x1 z1 = Compare.top env tNode x1 z1 :=
  (compareM_eq_compare env tNode x1 z1 (by decide)).1

/-- … and so are the three loops (struct fields, elements, sorted map entries). -/
theorem compareM_loops_eq_compare (env : Env) (T : Ty) (xs ys : Val) (hn : env.noMethods = true) :
    CompareM.fields env T xs ys = Compare.fields env T xs ys ∧
    CompareM.elems env T xs ys = Compare.elems env T xs ys ∧
    CompareM.entries env T xs ys = Compare.entries env T xs ys :=
  ⟨(cmpMConserv hn xs).fields T ys, (cmpMConserv hn xs).elems T ys, (cmpMConserv hn xs).entries T ys⟩

example : CompareM.elems env (.basic .string) (.scons hi .snil) (.scons ka .snil) =
    Compare.elems env (.basic .string) (.scons hi .snil) (.scons ka .snil) :=
  (compareM_loops_eq_compare env _ _ _ (by decide)).2.1

/-- **C03 main clause for what the driver runs**, on method-free environments: `compare_correct`
transferred along `compareM_eq_compare`. Every other theorem of Props/C03.lean (`compare_range`,
`compare_antisymm`, `compare_trans`, `compare_zero_iff_structEq`, …) transfers the same way. -/
theorem compareM_correct_noMethods {env : Env} {T : Ty} {x y : Val} (hn : env.noMethods = true)
    (hf : env.flagsOk = true) (hx : hasType env T x = true) (hy : hasType env T y = true)
    (hs : SupportedCmp env T = true) :
    CompareM.top env T x y = .ok (Spec.cmpVal x y) := by
  rw [(compareM_eq_compare env T x y hn).1, compare_correct hf hx hy hs]

example : CompareM.top env tNode x1 z1 = .ok (-1) := by
  rw [compareM_correct_noMethods (by decide) env_flagsOk x1_typed z1_typed env_supported, x1_z1]
example : CompareM.top env tNode x1 y1 = .ok 0 := by
  rw [compareM_correct_noMethods (by decide) env_flagsOk x1_typed y1_typed env_supported, x1_y1]

/-- the results are -1, 0 or +1 (transferred) -/
theorem compareM_range_noMethods {env : Env} {T : Ty} {x y : Val} (hn : env.noMethods = true)
    (hf : env.flagsOk = true) (hx : hasType env T x = true) (hy : hasType env T y = true)
    (hs : SupportedCmp env T = true) :
    CompareM.top env T x y = .ok (-1) ∨ CompareM.top env T x y = .ok 0 ∨
      CompareM.top env T x y = .ok 1 := by
  rw [(compareM_eq_compare env T x y hn).1]
  exact compare_range hf hx hy hs

example : CompareM.top env tNode w1 x1 = .ok (-1) ∨ CompareM.top env tNode w1 x1 = .ok 0 ∨
    CompareM.top env tNode w1 x1 = .ok 1 :=
  compareM_range_noMethods (by decide) env_flagsOk w1_typed x1_typed env_supported

/-- antisymmetry (transferred) -/
theorem compareM_antisymm_noMethods {env : Env} {T : Ty} {x y : Val} {c : Int}
    (hn : env.noMethods = true) (hf : env.flagsOk = true)
    (hx : hasType env T x = true) (hy : hasType env T y = true)
    (nx : nanFree x = true) (ny : nanFree y = true) (hs : SupportedCmp env T = true)
    (h : CompareM.top env T x y = .ok c) : CompareM.top env T y x = .ok (-c) := by
  rw [(compareM_eq_compare env T x y hn).1] at h
  rw [(compareM_eq_compare env T y x hn).1]
  exact compare_antisymm hf hx hy nx ny hs h

example : CompareM.top env tNode z1 x1 = .ok (- -1) :=
  compareM_antisymm_noMethods (c := -1) (by decide) env_flagsOk x1_typed z1_typed x1_nanFree
    z1_nanFree env_supported
    (by rw [compareM_correct_noMethods (by decide) env_flagsOk x1_typed z1_typed env_supported, x1_z1])

/-- **"returns 0 exactly when derived Equal holds"**, for the two models the driver runs
(`C03b.compare_zero_iff_equal` transferred along both conservativity theorems). -/
theorem compareM_zero_iff_equalM_noMethods {env : Env} {T : Ty} {x y : Val}
    (hn : env.noMethods = true) (ha : env.flagsAgree = true) (hf : env.flagsOk = true)
    (hx : hasType env T x = true) (hy : hasType env T y = true)
    (nx : nanFree x = true) (ny : nanFree y = true)
    (hs : Supported env T = true) (hc : SupportedCmp env T = true) :
    CompareM.top env T x y = .ok 0 ↔ EqualM.top env T x y = .ok true := by
  rw [(compareM_eq_compare env T x y hn).1, (C02.equalM_eq_equal env T x y hn ha).1]
  exact compare_zero_iff_equal hf hx hy nx ny hs hc

example : CompareM.top envN tNode x1 y1 = .ok 0 ∧ EqualM.top envN tNode x1 y1 = .ok true := by
  have tx : hasType envN tNode x1 = true := by
    ty_eval [tNode, x1, leaf, node, pt, hi, ka, kb, f0, fm0, f1, f2, envN]
  have ty : hasType envN tNode y1 = true := by
    ty_eval [tNode, y1, leaf, node, pt, hi, ka, kb, f0, fm0, f1, f2, envN]
  have h : CompareM.top envN tNode x1 y1 = .ok 0 := by
    rw [compareM_correct_noMethods (by decide) (by decide) tx ty (by decide), x1_y1]
  exact ⟨h, (compareM_zero_iff_equalM_noMethods (by decide) (by decide) (by decide) tx ty x1_nanFree
    y1_nanFree (by decide) (by decide)).1 h⟩

/-- The method clause of the model, literally: a component whose type declares a Compare method is
compared by a call of that method (`userCmpVal` is the semantics of the corpus' methods: the order of
the first field), and a pointer to such a type by the nil-safe method on the pointers when the
method has a pointer parameter. (Definitional; recorded here because it is the part of `CompareM` that
`compareM_eq_compare` says is absent without methods.) -/
theorem compareM_field_at_method (env : Env) (T R : Ty) (u : UserFn) (x y : Val) :
    (env.cmpM? T = some u → CompareM.field env T x y = userCmpVal x y) ∧
    (env.cmpM? T = none → env.under T = .ptr R → env.cmpM? R = some .ptr →
      CompareM.field env T x y = userCmpPtr x y) := by
  constructor
  · intro h; rw [CompareM.field.eq_def]; simp only [h]
  · intro h hU hR; rw [CompareM.field.eq_def]; simp only [h, hU, hR]

/-- `UE{1,{1}}` vs `UE{2,nil}` as components: the method orders by `A` -/
example : CompareM.field MW.env MW.tUE (MW.ue 1 (MW.ints 2 1)) (MW.ue 2 .nilv) = .ok (-1) := by
  rw [(compareM_field_at_method MW.env MW.tUE MW.tUE .ptr _ _).1 (by decide)]; decide
example : CompareM.field MW.env (.ptr MW.tUE) .nilv (.ptr 1 (MW.ue 2 .nilv)) = .ok (-1) := by
  rw [(compareM_field_at_method MW.env (.ptr MW.tUE) MW.tUE .ptr _ _).2 rfl rfl (by decide)]; decide

/-! ### Known finding F40, as the model has it

A type whose Equal and Compare methods both take their argument BY VALUE (`func (x T) Compare(y T) int`):
`plugin/compare`'s `field` "falls through to dereferencing of pointers" for such a method and ends in the
helper for `*T`, which compares the fields, while `plugin/equal` calls the Equal method (with inline nil
checks). The clause "Compare returns 0 exactly when derived Equal holds" is therefore FALSE of the model —
and of the code: the tie replays the same witness on the emitted functions (op class `cmpeqv`). -/
namespace F40
set_option linter.unusedSimpArgs false

/-- `type T struct{ A int64; B string }` with `func (x T) Equal(y T) bool` and `func (x T) Compare(y T) int`,
both looking at `A` only -/
def env : Env := { decls := [
  { under := .struct (.fcons (.basic (.int 64 true)) (.fcons (.basic .string) .fnil)), canEq := true,
    canEqM := false, eqM := some .val, cmpM := some .val } ] }
/-- `T{0, "ff"}` and `T{0, ""}`: equal for the methods, different structurally -/
def a : Val := .struct (.scons (.int 0) (.scons (.str [102, 102]) .snil))
def b : Val := .struct (.scons (.int 0) (.scons (.str []) .snil))

/-- at top level, on the struct values -/
theorem f40_witness_top :
    EqualM.top env (.named 0) a b = .ok true ∧ CompareM.top env (.named 0) a b = .ok 1 := by
  constructor
  · equalM_eval [env, a, b]
  · simp +decide [CompareM.top.eq_def, CompareM.field.eq_def, CompareM.fields, Env.cmpM?, Env.under,
      Env.decl?, Ty.isNamed, cmpLeaf, env, a, b]

/-- as a component behind a pointer (`F *T`) -/
theorem f40_witness_ptr_field :
    EqualM.field env (.ptr (.named 0)) (.ptr 1 a) (.ptr 2 b) = .ok true ∧
    CompareM.field env (.ptr (.named 0)) (.ptr 1 a) (.ptr 2 b) = .ok 1 := by
  constructor
  · equalM_eval [env, a, b]
  · simp +decide [CompareM.top.eq_def, CompareM.field.eq_def, CompareM.fields, Env.cmpM?, Env.under,
      Env.decl?, Ty.isNamed, cmpLeaf, env, a, b]

end F40

end Goderive.C03
