/-
C11 — name conflicts and duplicates are detected exactly and resolved soundly.

Model: `G/TypesMap.lean` (the name table of one plugin as a state machine; `registerAll` = the loop of
`newPackage` over all plugins), `G/NewName.lean` (fresh-name search), `G/Prefix.lean` (dispatch).
`types.Identical` is equality on the abstract type `τ`; `R.asg` is `types.AssignableTo`, about which
nothing is assumed in the invariant part. The clauses of the property that speak about packages whose
argument types are "pairwise non-assignable" carry the hypothesis `EqIsIdentityOn`.
-/
import GoderiveModel.G.TypesMap
import GoderiveModel.Lemmas.TypesMap

namespace Goderive.C11
open Goderive.G

set_option linter.unusedSectionVars false

section
variable {τ : Type} [DecidableEq τ] (R : TyRel τ)

/-! ## The table invariant -/

theorem inv_init : Inv R ({} : Table τ) :=
  ⟨by simp [Table.names], by simp, by simp, by simp⟩

example : Inv GTy.rel ({} : Table GTy) := inv_init _

/-- inserting an unbound name for a type list that `nameOf` does not find keeps the invariant -/
theorem inv_insert_fresh {t : Table τ} (h : Inv R t) {n : Name} {typs : List τ}
    (hn : n ∉ t.names) (hno : nameOf R t typs = none) : Inv R (t.insert n typs) :=
  inv_insert R h hn hno

/-! ## Fresh names: `newName` terminates with a name that is neither bound nor reserved -/

/-- `newName_fresh` + termination. The model's loop runs with fuel `|entries| + |reserved| + |reservedWords|`; the
statement says that the result is the FIRST element of the Go candidate sequence
`prefix, prefix_, prefix_N, …` (`seqAt`) that is neither registered nor reserved. The unbounded Go
loop computes exactly that element; it terminates because (`cand_injective`) the candidates are
pairwise distinct while only finitely many names are taken (`exists_free_candidate`). -/
theorem newName_fresh (c : Cfg) (t : Table τ) (typs : List τ) :
    newName R c t typs ∉ t.names ∧ newName R c t typs ∉ c.reserved ∧
    ∃ k, newName R c t typs = seqAt c.pfx (hintOf R typs) k ∧
      ∀ j, j < k → seqAt c.pfx (hintOf R typs) j ∈ t.names ++ c.reserved ++ reservedWords := by
  obtain ⟨k, hk, hfree, hall⟩ := newName_spec R c t typs
  rw [← hk] at hfree
  exact ⟨(taken_false hfree).1, (taken_false hfree).2.1, k, hk, fun j hj => taken_true (hall j hj)⟩

/-- since 60219e3: a minted name is never a Go keyword nor a predeclared identifier (`reservedWords`,
compared with go/token and go/types of the toolchain by the check) -/
theorem newName_not_reserved_word (c : Cfg) (t : Table τ) (typs : List τ) :
    newName R c t typs ∉ reservedWords := by
  obtain ⟨k, hk, hfree, _⟩ := newName_spec R c t typs
  rw [← hk] at hfree
  exact (taken_false hfree).2.2

-- non-vacuity: with -pluginprefix=equal=func the first helper is `func_`, with equal=len it is `len_`
example : newName GTy.rel { pfx := asc "func" } ({} : Table GTy) [GTy.named 0 (asc "In") (.struct .fnil)] = asc "func_" := by decide
example : newName GTy.rel { pfx := asc "len" } ({} : Table GTy) [GTy.basic (asc "int")] = asc "len_" := by decide

/-- the candidates are pairwise distinct, so the search cannot cycle -/
theorem candidates_distinct (pfx : Name) (name : List Letter) {i j : Nat}
    (h : seqAt pfx name i = seqAt pfx name j) : i = j := seqAt_injective h

-- non-vacuity: prefix and prefix_ taken/reserved, type `Ab`: third candidate `deriveEqual_A`
example : newName GTy.rel { pfx := asc "deriveEqual", reserved := [asc "deriveEqual_"] }
    { entries := [(asc "deriveEqual", [GTy.basic (asc "int")])] }
    [GTy.named 0 (asc "Ab") (.struct .fnil)] = asc "deriveEqual_A" := by decide

/-! ## Preservation of the invariant by every operation -/

theorem inv_getFuncName (c : Cfg) {t : Table τ} (h : Inv R t) (typs : List τ) :
    Inv R (getFuncName R c t typs).2 := inv_getFuncName' R c h typs

theorem inv_setFuncName (c : Cfg) {t : Table τ} (h : Inv R t) (fn : Name) (typs : List τ)
    {n : Name} {t' : Table τ} (hs : setFuncName R c t fn typs = .ok (n, t')) : Inv R t' :=
  inv_of_set R h hs

theorem inv_generating {t t' : Table τ} (h : Inv R t) (typs : List τ)
    (hg : generating R t typs = some t') : Inv R t' := by
  unfold generating at hg
  split at hg
  · cases hg
  · rename_i n hn
    cases hg
    obtain ⟨ts, hmem, _⟩ := nameOf_some R hn
    refine ⟨h.namesNodup, h.noIdent, h.noEq, ?_⟩
    intro m hm
    simp only at hm
    split at hm
    · exact h.generatedBound m hm
    · simp only [List.mem_cons] at hm
      rcases hm with rfl | hm
      · exact List.mem_map.mpr ⟨(m, ts), hmem, rfl⟩
      · exact h.generatedBound m hm

theorem inv_step (c : Cfg) {t t' : Table τ} (h : Inv R t) (op : Op τ) (hs : step R c t op = some t') :
    Inv R t' := by
  cases op with
  | set fn typs =>
    simp only [step] at hs
    split at hs
    · rename_i n t1 heq
      cases hs
      exact inv_setFuncName R c h fn typs heq
    · cases hs; exact h
  | get typs =>
    simp only [step] at hs
    cases hs
    exact inv_getFuncName R c h typs
  | generating typs =>
    exact inv_generating R h typs hs
  | toGenerate => simp only [step] at hs; cases hs; exact h
  | done => simp only [step] at hs; cases hs; exact h
  | nameOf typs => simp only [step] at hs; cases hs; exact h
  | newName typs => simp only [step] at hs; cases hs; exact h

/-- the invariant holds in every state reachable by any sequence of operations (any flags, any
reserved set, any assignability relation) -/
theorem inv_runOps (c : Cfg) : ∀ {t t' : Table τ} (ops : List (Op τ)), Inv R t →
    runOps R c t ops = some t' → Inv R t'
  | t, t', [], h, hr => by simp only [runOps] at hr; cases hr; exact h
  | t, t', op :: ops, h, hr => by
    simp only [runOps] at hr
    split at hr
    · rename_i t1 hst
      exact inv_runOps c ops (inv_step R c h op hst) hr
    · cases hr

theorem inv_reachable (c : Cfg) (ops : List (Op τ)) {t' : Table τ}
    (hr : runOps R c {} ops = some t') : Inv R t' :=
  inv_runOps R c ops (inv_init R) hr

/-! ## `SetFuncName`: case analysis, unreachable rename, soundness of the returned name -/

/-- the outcomes of `SetFuncName`, in the order of the Go code (since 78f76aa with the -autoname record:
a call whose type list is bound to the renaming of this very call name is that call again; since 4422487 a
name bound to other types that `nameOf` did not find is always a conflict) -/
theorem setFuncName_cases (c : Cfg) (t : Table τ) (fn : Name) (typs : List τ) :
    (∃ f, nameOf R t typs = some f ∧
      ((f = fn ∧ setFuncName R c t fn typs = .ok (fn, t)) ∨
       (f ≠ fn ∧ c.dedup = true ∧ setFuncName R c t fn typs = .ok (f, t)) ∨
       (f ≠ fn ∧ c.dedup = false ∧ c.autoname = true ∧ t.autonamedFrom f = fn ∧ setFuncName R c t fn typs = .ok (f, t)) ∨
       (f ≠ fn ∧ c.dedup = false ∧ ¬ (c.autoname = true ∧ t.autonamedFrom f = fn) ∧
          setFuncName R c t fn typs = .error (.duplicate f fn)))) ∨
    (nameOf R t typs = none ∧ ∃ ts, t.lookup fn = some ts ∧
      ((c.autoname = true ∧
          setFuncName R c t fn typs = .ok (recordAutoname (getFuncName R c t typs) fn)) ∨
       (c.autoname = false ∧ setFuncName R c t fn typs = .error (.conflict fn)))) ∨
    (nameOf R t typs = none ∧ t.lookup fn = none ∧ setFuncName R c t fn typs = .ok (fn, t.insert fn typs)) :=
  setFuncName_cases' R c t fn typs

/-- `rename_unreachable`: without -autoname and -dedup a successful `SetFuncName` returns the name it
was given, so `panic("unreachable: function names cannot be changed …")` in newPackage cannot fire -/
theorem rename_unreachable (c : Cfg) (t : Table τ) (fn : Name) (typs : List τ) {n : Name} {t' : Table τ}
    (ha : c.autoname = false) (hd : c.dedup = false) (hs : setFuncName R c t fn typs = .ok (n, t')) :
    n = fn := rename_unreachable' R c t fn typs ha hd hs

example : setFuncName GTy.rel { pfx := asc "deriveEqual" } {} (asc "deriveEqualX") [GTy.basic (asc "int")]
    = .ok (asc "deriveEqualX", { entries := [(asc "deriveEqualX", [GTy.basic (asc "int")])] }) := by decide

/-- in `GetFuncName`, the Go code's `tm.SetFuncName(newName, typs...)` is exactly the insertion the
model performs -/
theorem setFuncName_newName (c : Cfg) (t : Table τ) (typs : List τ) (hno : nameOf R t typs = none) :
    setFuncName R c t (newName R c t typs) typs
      = .ok (newName R c t typs, t.insert (newName R c t typs) typs) := by
  have hfresh := (newName_fresh R c t typs).1
  have hl : t.lookup (newName R c t typs) = none := lookup_none_iff.mpr hfresh
  unfold setFuncName
  simp only [hno, hl]

theorem getFuncName_entries (c : Cfg) (t : Table τ) (typs : List τ) :
    (∀ e ∈ t.entries, e ∈ (getFuncName R c t typs).2.entries) ∧
    ∃ ts, ((getFuncName R c t typs).1, ts) ∈ (getFuncName R c t typs).2.entries ∧
      (typs = ts ∨ eqL R typs ts = true) := by
  unfold getFuncName
  cases hn : nameOf R t typs with
  | some f =>
    obtain ⟨ts, hm, h⟩ := nameOf_some R hn
    exact ⟨fun e he => he, ts, hm, h⟩
  | none =>
    refine ⟨fun e he => by simp [Table.insert, he], typs, by simp [Table.insert], Or.inl rfl⟩

/-- what a successful `SetFuncName` guarantees, for any flags and any assignability relation:
the returned name is bound (in the new table) to a type list that is identical to, or
`eq`-related with, the argument types; no binding is removed or changed; and the returned name is the
given one, or an already registered one, or a NEW name that is neither registered nor reserved. -/
theorem setFuncName_sound (c : Cfg) (t : Table τ) (fn : Name) (typs : List τ) {n : Name} {t' : Table τ}
    (hs : setFuncName R c t fn typs = .ok (n, t')) :
    (∃ ts, (n, ts) ∈ t'.entries ∧ (typs = ts ∨ eqL R typs ts = true ∨ eqL R ts typs = true)) ∧
    (∀ e ∈ t.entries, e ∈ t'.entries) ∧
    (∀ e ∈ t'.entries, e ∈ t.entries ∨ e.2 = typs) ∧
    (n = fn ∨ n ∈ t.names ∨ (n ∉ t.names ∧ n ∉ c.reserved)) :=
  setFuncName_sound' R c t fn typs hs

/-! ## `registerAll` (the loop of newPackage over all files, calls and plugins)

`Conflict` / `Duplicate` (`Lemmas/TypesMap.lean`) are defined on the list of calls in registration
order, without reference to any table:
* `conflictPair a b`  — `a` is handled by some plugin, `a.name = b.name`, `a.args ≠ b.args`;
* `duplicatePair a b` — `a`, `b` are handled by the same plugin, `a.name ≠ b.name`, `a.args = b.args`;
* `Conflict ps calls` / `Duplicate ps calls` — some `a` before `b` in `calls` form such a pair.
`Accepted` : every handled call passes its plugin's own argument check (arity …), `EqIsIdentityOn` :
the property's domain (argument type lists pairwise not `eq`-related unless identical). -/

/-- `fail_iff_clash`: without -autoname and -dedup the registration fails exactly when the package has a
conflict or a duplicate — and it never panics. -/
theorem fail_iff_clash (f : Flags) (ps : List (Plugin τ)) (files : List (List (Call τ)))
    (ha : f.autoname = false) (hd : f.dedup = false) (hacc : Accepted ps files.flatten)
    (hEq : EqIsIdentityOn R (files.flatten.map (·.args))) :
    (∃ e, registerAll R f ps files = .error e) ↔ (Conflict ps files.flatten ∨ Duplicate ps files.flatten) := by
  constructor
  · rintro ⟨e, he⟩
    apply Classical.byContradiction
    intro hno
    have hpw : ([] ++ files.flatten).Pairwise (NoClashPair ps) :=
      (noClash_iff ps _).mpr ⟨fun h => hno (Or.inl h), fun h => hno (Or.inr h)⟩
    obtain ⟨out, T', hok, _⟩ := regFiles_ok_of_noClash R f files Tables.empty [] (reg_empty R ps) hacc
      (by simpa using hEq) hpw
    unfold registerAll at he
    rw [hok] at he
    cases he
  · intro h
    have hn : ¬ ([] ++ files.flatten).Pairwise (NoClashPair ps) := by
      intro hpw
      have := (noClash_iff ps _).mp hpw
      rcases h with h | h
      · exact this.1 h
      · exact this.2 h
    exact regFiles_err_of_clash R f files Tables.empty [] (reg_empty R ps) hacc (by simpa using hEq)
      (by simp) hn (Or.inr hd) (Or.inr ha) (Or.inl ha)

/-- `autoname_only`: -autoname does not help against duplicates: a package without conflicts that has a
duplicate is rejected whenever -dedup is off (whatever -autoname says). `hne`: call names are identifiers,
hence non-empty (Go's `autonamed[f] == funcName` is true for a missing key and an empty name). -/
theorem autoname_only (f : Flags) (ps : List (Plugin τ)) (files : List (List (Call τ)))
    (hd : f.dedup = false) (hacc : Accepted ps files.flatten)
    (hEq : EqIsIdentityOn R (files.flatten.map (·.args)))
    (hne : ∀ c ∈ files.flatten, c.name ≠ [])
    (hnc : ¬ Conflict ps files.flatten) (hdup : Duplicate ps files.flatten) :
    ∃ e, registerAll R f ps files = .error e := by
  have hn : ¬ ([] ++ files.flatten).Pairwise (NoClashPair ps) := fun hpw => ((noClash_iff ps _).mp hpw).2 hdup
  exact regFiles_err_of_clash R f files Tables.empty [] (reg_empty R ps) hacc (by simpa using hEq)
    (by simp) hn (Or.inr hd) (Or.inl (fun a b hs hp => hnc ⟨a, b, by simpa using hs, hp⟩)) (Or.inr hne)

/-- `autoname_fails_only_on_duplicates` (the repair 78f76aa, F59): under -autoname a registration never
fails because of a conflict NOR because a renamed call occurs again — whenever it fails (with or without
-dedup) the package has a duplicate: two different names for one plugin and one argument type list. No side
condition on repeated (name, types) calls. Together with `autoname_only`: on packages without a
conflict, -autoname alone fails IFF there is a duplicate. -/
theorem autoname_fails_only_on_duplicates (f : Flags) (ps : List (Plugin τ)) (files : List (List (Call τ)))
    (ha : f.autoname = true) (hacc : Accepted ps files.flatten)
    (hEq : EqIsIdentityOn R (files.flatten.map (·.args)))
    {e : RegErr} (h : registerAll R f ps files = .error e) : Duplicate ps files.flatten := by
  have := regFiles_autoname_error R f ha files Tables.empty [] e (regW_empty R f ps) hacc (by simpa using hEq) h
  simpa using this

/-- conflict-only packages are accepted by -autoname alone -/
theorem autoname_accepts_conflicts (f : Flags) (ps : List (Plugin τ)) (files : List (List (Call τ)))
    (ha : f.autoname = true) (hacc : Accepted ps files.flatten)
    (hEq : EqIsIdentityOn R (files.flatten.map (·.args))) (hnd : ¬ Duplicate ps files.flatten) :
    ∃ r, registerAll R f ps files = .ok r := by
  cases h : registerAll R f ps files with
  | ok r => exact ⟨r, rfl⟩
  | error e => exact absurd (autoname_fails_only_on_duplicates R f ps files ha hacc hEq h) hnd
  | panic => exact absurd h (regFiles_ne_panic R f ps files Tables.empty)

/-- `dedup_only`: -dedup does not help against conflicts -/
theorem dedup_only (f : Flags) (ps : List (Plugin τ)) (files : List (List (Call τ)))
    (ha : f.autoname = false) (hacc : Accepted ps files.flatten)
    (hEq : EqIsIdentityOn R (files.flatten.map (·.args)))
    (hnd : ¬ Duplicate ps files.flatten) (hc : Conflict ps files.flatten) :
    ∃ e, registerAll R f ps files = .error e := by
  have hn : ¬ ([] ++ files.flatten).Pairwise (NoClashPair ps) := fun hpw => ((noClash_iff ps _).mp hpw).1 hc
  exact regFiles_err_of_clash R f files Tables.empty [] (reg_empty R ps) hacc (by simpa using hEq)
    (by simp) hn (Or.inl (fun a b hs hp => hnd ⟨a, b, by simpa using hs, hp⟩)) (Or.inr ha) (Or.inl ha)

/-- `both_accept`: with both flags every package (whose calls pass the plugins' own argument checks)
is accepted — for any assignability relation -/
theorem both_accept (f : Flags) (ps : List (Plugin τ)) (files : List (List (Call τ)))
    (ha : f.autoname = true) (hd : f.dedup = true) (hacc : Accepted ps files.flatten) :
    ∃ r, registerAll R f ps files = .ok r :=
  regFiles_ok_of_both R f ps ha hd files Tables.empty hacc

/-- the `panic("unreachable: function names cannot be changed …")` of newPackage cannot fire, whatever
the flags, the package and the assignability relation -/
theorem registerAll_never_panics (f : Flags) (ps : List (Plugin τ)) (files : List (List (Call τ))) :
    registerAll R f ps files ≠ .panic :=
  regFiles_ne_panic R f ps files Tables.empty

/-- packages without clash are accepted under every flag combination and no call is renamed -/
theorem no_clash_accept (f : Flags) (ps : List (Plugin τ)) (files : List (List (Call τ)))
    (hacc : Accepted ps files.flatten) (hEq : EqIsIdentityOn R (files.flatten.map (·.args)))
    (hnc : ¬ Conflict ps files.flatten) (hnd : ¬ Duplicate ps files.flatten) :
    ∃ out T', registerAll R f ps files = .ok (out, T') ∧ ∀ x ∈ out, x.2 = false := by
  have hpw : ([] ++ files.flatten).Pairwise (NoClashPair ps) := (noClash_iff ps _).mpr ⟨hnc, hnd⟩
  obtain ⟨out, T', hok, _, hch⟩ := regFiles_ok_of_noClash R f files Tables.empty [] (reg_empty R ps) hacc
    (by simpa using hEq) hpw
  exact ⟨out, T', hok, hch⟩

/-- `resolve_sound`: whenever the registration succeeds, under ANY flags:
(1) the final name at every call site is bound, in the table of the plugin handling the call, to exactly
    the call's argument types;
(2) every table satisfies `Inv` — in particular names are unique and each plugin has one name per
    argument type list (`noIdent`), which is what -dedup promises;
(3) every registered name is a name some call of the package uses, or is not reserved: names the user
    calls elsewhere are never taken;
(4) every binding's type list is the argument list of some call handled by that plugin, written with the
    bound name or renamed to it by -autoname (recorded in `autonamed`). -/
theorem resolve_sound (f : Flags) (ps : List (Plugin τ)) (files : List (List (Call τ)))
    (hEq : EqIsIdentityOn R (files.flatten.map (·.args)))
    {out : List (List (Option Name) × Bool)} {T' : Tables τ} (h : registerAll R f ps files = .ok (out, T')) :
    (∀ (j : Nat) (file : List (Call τ)) (x : List (Option Name) × Bool), files[j]? = some file → out[j]? = some x →
      ∀ (k : Nat) (c : Call τ) (n : Name), file[k]? = some c → x.1[k]? = some (some n) →
        ∃ i, handlerOf ps c = some i ∧ (n, c.args) ∈ (T' i).entries) ∧
    (∀ i, Inv R (T' i)) ∧
    (∀ i, ∀ n ∈ (T' i).names, (∃ c ∈ files.flatten, c.name = n) ∨ n ∉ f.reserved) ∧
    (∀ i, ∀ e ∈ (T' i).entries, ∃ c ∈ files.flatten, handlerOf ps c = some i ∧ c.args = e.2 ∧
      (c.name = e.1 ∨ (T' i).autonamed.lookup e.1 = some c.name)) := by
  obtain ⟨hW, _, hb⟩ := regFiles_sound R f files Tables.empty [] out T' (regW_empty R f ps) h
  simp only [List.nil_append] at hW
  refine ⟨?_, hW.inv, hW.namesOk, hW.srcs⟩
  intro j file x hj hx k c n hk hn
  obtain ⟨i, ts, hh, hm, hrel⟩ := hb j file x hj hx k c n hk hn
  refine ⟨i, hh, ?_⟩
  obtain ⟨c', hc', _, hargs, _⟩ := hW.srcs i _ hm
  have hcmem : c ∈ files.flatten :=
    List.mem_flatten.mpr ⟨file, List.mem_of_getElem? hj, List.mem_of_getElem? hk⟩
  have m1 : c.args ∈ files.flatten.map (·.args) := List.mem_map.mpr ⟨c, hcmem, rfl⟩
  have m2 : ts ∈ files.flatten.map (·.args) := List.mem_map.mpr ⟨c', hc', hargs⟩
  have : c.args = ts := by
    rcases hrel with h1 | h1 | h1
    · exact h1
    · exact hEq _ m1 _ m2 h1
    · exact (hEq _ m2 _ m1 h1).symm
  rw [this]; exact hm

/-- `resolve_sound` without the domain restriction: the final name is bound to a type list that is
identical to, assignable from, or assignable to the argument types (this is all the code guarantees when
assignability is not identity, e.g. `type A []int; type B []int; []int`) -/
theorem resolve_sound_general (f : Flags) (ps : List (Plugin τ)) (files : List (List (Call τ)))
    {out : List (List (Option Name) × Bool)} {T' : Tables τ} (h : registerAll R f ps files = .ok (out, T')) :
    ∀ (j : Nat) (file : List (Call τ)) (x : List (Option Name) × Bool), files[j]? = some file → out[j]? = some x →
      ∀ (k : Nat) (c : Call τ) (n : Name), file[k]? = some c → x.1[k]? = some (some n) → BoundTo R ps T' c n :=
  (regFiles_sound R f files Tables.empty [] out T' (regW_empty R f ps) h).2.2

end

/-! ## Non-vacuity: concrete packages (two plugins, three pairwise non-assignable types) -/

section Examples

def tInt : GTy := .basic (asc "int")
def tStr : GTy := .basic (asc "string")
def tAb : GTy := .named 0 (asc "Ab") (.struct (.fcons (.basic (asc "int")) .fnil))

def exPs : List (Plugin GTy) :=
  [{ pfx := asc "deriveEqual", accept := fun _ => true }, { pfx := asc "deriveHash", accept := fun _ => true }]

theorem exAcc (calls : List (Call GTy)) : Accepted exPs calls :=
  accepted_of_all (by intro p hp a; simp [exPs] at hp; rcases hp with rfl | rfl <;> rfl) calls

/-- one name, two type lists -/
def exConflict : List (List (Call GTy)) :=
  [[⟨asc "deriveEqual", [tInt, tInt]⟩], [⟨asc "deriveEqual", [tAb, tAb]⟩, ⟨asc "deriveHash", [tStr]⟩]]

/-- two names, one type list -/
def exDuplicate : List (List (Call GTy)) :=
  [[⟨asc "deriveEqual", [tInt, tInt]⟩, ⟨asc "deriveEqualX", [tInt, tInt]⟩]]

theorem exConflict_conflict : Conflict exPs exConflict.flatten :=
  ⟨⟨asc "deriveEqual", [tInt, tInt]⟩, ⟨asc "deriveEqual", [tAb, tAb]⟩, by decide, by decide⟩

theorem exDuplicate_duplicate : Duplicate exPs exDuplicate.flatten :=
  ⟨⟨asc "deriveEqual", [tInt, tInt]⟩, ⟨asc "deriveEqualX", [tInt, tInt]⟩, by decide, by decide⟩

theorem exConflict_noDuplicate : ¬ Duplicate exPs exConflict.flatten := by
  have : exConflict.flatten.Pairwise (fun a b => ¬ duplicatePair exPs a b) := by decide
  rintro ⟨a, b, hs, hp⟩
  exact (List.pairwise_iff_forall_sublist.mp this hs) hp

theorem exDuplicate_noConflict : ¬ Conflict exPs exDuplicate.flatten := by
  have : exDuplicate.flatten.Pairwise (fun a b => ¬ conflictPair exPs a b) := by decide
  rintro ⟨a, b, hs, hp⟩
  exact (List.pairwise_iff_forall_sublist.mp this hs) hp

-- fail_iff_clash, both directions instantiated
example : ∃ e, registerAll GTy.rel {} exPs exConflict = .error e :=
  (fail_iff_clash GTy.rel {} exPs exConflict rfl rfl (exAcc _) (by decide)).mpr (Or.inl exConflict_conflict)
example : (registerAll GTy.rel {} exPs exConflict).isError = true := by decide
example : (registerAll GTy.rel {} exPs [[⟨asc "deriveEqual", [tInt, tInt]⟩, ⟨asc "deriveHash", [tInt]⟩]]).isOk = true := by decide

-- autoname_only / dedup_only / both_accept
example : ∃ e, registerAll GTy.rel { autoname := true } exPs exDuplicate = .error e :=
  autoname_only GTy.rel { autoname := true } exPs exDuplicate rfl (exAcc _) (by decide) (by decide) exDuplicate_noConflict exDuplicate_duplicate
example : ∃ e, registerAll GTy.rel { dedup := true } exPs exConflict = .error e :=
  dedup_only GTy.rel { dedup := true } exPs exConflict rfl (exAcc _) (by decide) exConflict_noDuplicate exConflict_conflict
example : ∃ r, registerAll GTy.rel { autoname := true, dedup := true } exPs (exConflict ++ exDuplicate) = .ok r :=
  both_accept GTy.rel _ exPs _ rfl rfl (exAcc _)

-- resolution: -autoname renames the second call to the first free candidate `deriveEqual_A`
-- (`deriveEqual_` is reserved), -dedup renames the duplicate to the first name
example : (registerAll GTy.rel { autoname := true, reserved := [asc "deriveEqual_"] } exPs exConflict).names
    = [[some (asc "deriveEqual")], [some (asc "deriveEqual_A"), some (asc "deriveHash")]] := by decide
example : (registerAll GTy.rel { dedup := true } exPs exDuplicate).names
    = [[some (asc "deriveEqual"), some (asc "deriveEqual")]] := by decide

/-- F59 repaired: -autoname alone accepts a package whose only clash is a conflict even when the
conflicting call occurs twice: the second occurrence is recognised as the renamed call (before 78f76aa
it was reported as a duplicate). -/
theorem autoname_alone_accepts_repeated_conflict :
    (registerAll GTy.rel { autoname := true } exPs
      [[⟨asc "deriveEqual", [tInt, tInt]⟩, ⟨asc "deriveEqual", [tStr, tStr]⟩, ⟨asc "deriveEqual", [tStr, tStr]⟩]]).names
    = [[some (asc "deriveEqual"), some (asc "deriveEqual_"), some (asc "deriveEqual_")]] := by
  decide

example : ∃ r, registerAll GTy.rel { autoname := true } exPs exConflict = .ok r :=
  autoname_accepts_conflicts GTy.rel { autoname := true } exPs exConflict rfl (exAcc _) (by decide) exConflict_noDuplicate

/-- a genuine duplicate still fails under -autoname alone, also when one of the two names is renamed:
`n(A), m(B), n(B)` -/
theorem autoname_alone_rejects_duplicate_after_conflict :
    (registerAll GTy.rel { autoname := true } exPs
      [[⟨asc "deriveEqual", [tInt, tInt]⟩, ⟨asc "deriveEqualX", [tStr, tStr]⟩, ⟨asc "deriveEqual", [tStr, tStr]⟩]]).isError = true := by
  decide

/-- Observation: the converse of `autoname_fails_only_on_duplicates` needs "no conflict": a duplicate whose
second name is exactly the name -autoname minted for the first is absorbed (`n(A), n(B), n_(B)`). -/
theorem autoname_absorbs_duplicate_with_minted_name :
    (registerAll GTy.rel { autoname := true } exPs
      [[⟨asc "deriveEqual", [tInt, tInt]⟩, ⟨asc "deriveEqual", [tStr, tStr]⟩, ⟨asc "deriveEqual_", [tStr, tStr]⟩]]).isOk = true := by
  decide

end Examples

/-! ## F130 (2c333b7): a declared type with methods shares a function only with itself -/

/-- On the concrete type relation, a type with declared methods is served by the function of another type
exactly when the two are identical: the assignability of a named type and its unnamed twin no longer counts. -/
theorem serves_hasMethods_iff_identical (a b : GTy) (h : a.hasMethods = true ∨ b.hasMethods = true) :
    GTy.rel.asg a b = (a == b) := by
  show GTy.assignable a b = (a == b)
  unfold GTy.assignable
  rcases h with h | h <;> simp [h]

/-- the witness of F130: `Key` (with an Equal method) and `struct{ID int; Note []string}` are two argument types,
while the method-free `Ints` and `[]int` still share a function -/
example :
    let u : GTy := .struct (.fcons (.basic (asc "int")) (.fcons (.slice (.basic (asc "string"))) .fnil))
    GTy.rel.asg (.namedM 0 (asc "Key") u) u = false ∧ GTy.rel.asg u (.namedM 0 (asc "Key") u) = false ∧
    GTy.rel.asg (.named 0 (asc "Ints") (.slice (.basic (asc "int")))) (.slice (.basic (asc "int"))) = true := by decide

end Goderive.C11
