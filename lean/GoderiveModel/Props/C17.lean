/-
Property C17: Fmap and Join over slices and strings.

"Derived Fmap over a slice returns a slice of the same length whose i-th element is f of the i-th
input, calling f once per element in order; over a string it does the same for the string's runes,
for any string including multi-byte and invalid UTF-8. Derived Join of a slice of slices is their
concatenation in order (nil for nil) and Join of strings is their concatenation; inputs are not
modified."

Model: S/Lists.lean (`out := make([]B, len(list))`, the index loop writing `out[i]`; the string form
over `[]rune(ss)`; join's nil check, length pre-computation and appends; `strings.Join`). The mapped
function is a stateful oracle `Fn σ Val`; `logged f` is a pure function with a call log.
"Inputs are not modified": every write of these models targets the fresh `out` / `res` array — the
input is only read — so there is nothing to state in the model; the correspondence run prints the
input as observed after each call (part of the specified answer of the `fmap`, `join`, `joins` ops).
The rune decoder `decodeRunes` (U/Utf8.lean) is validated against Go's `[]rune(s)` on every `fmaps` op.
Only theorems and their non-vacuity examples live here; proofs are in Lemmas/Lists.lean.
-/
import GoderiveModel.Lemmas.Lists

set_option linter.unusedSimpArgs false

namespace Goderive.C17
open Goderive Goderive.Lists

def i (n : Int) : Val := .int n
def double : Val → Val
  | .int n => .int (2 * n)
  | v => v

/-! ### 1. Fmap over a slice -/

/-- **C17, Fmap over a slice, any function.** `f` is called on the elements in order, once each
(`Spec.mapM` threads the oracle exactly so); the result is the list of its answers in a fresh,
never-nil slice; no placeholder cell of the `make` survives. -/
theorem fmap_slice_spec {σ : Type} (f : Fn σ Val) (list : Sl) (s : σ) :
    fmap f list s = .ok (some (Spec.mapM f list.elems s).1, (Spec.mapM f list.elems s).2) :=
  fmap_spec f list s

/-- **C17, Fmap over a slice, pure function with a call log**: `List.map`, log = the input. -/
theorem fmap_slice_logged (f : Val → Val) (list : Sl) (log : List Val) :
    fmap (logged f) list log = .ok (some (list.elems.map f), log ++ list.elems) := by
  rw [fmap_slice_spec, mapM_logged]

example : fmap (logged double) (some [i 1, i 2, i 3]) [] = .ok (some [i 2, i 4, i 6], [i 1, i 2, i 3]) := by
  rw [fmap_slice_logged]; decide
example : fmap (logged double) none [] = .ok (some [], []) := by
  rw [fmap_slice_logged]; decide

/-- same length, and the i-th element is `f` of the i-th input -/
theorem fmap_slice_index (f : Val → Val) (xs log : List Val) :
    ∃ out, fmap (logged f) (some xs) log = .ok (some out, log ++ xs) ∧ out.length = xs.length ∧
      ∀ k (h : k < xs.length), out[k]? = some (f xs[k]) := by
  refine ⟨xs.map f, by rw [fmap_slice_logged]; rfl, by simp, ?_⟩
  intro k h
  simp [h]

example : ∃ out, fmap (logged double) (some [i 1, i 2]) [] = .ok (some out, [i 1, i 2]) ∧ out.length = 2 := by
  obtain ⟨out, h1, h2, _⟩ := fmap_slice_index double [i 1, i 2] []
  exact ⟨out, h1, h2⟩

/-- the scripted oracle of the correspondence runs: the k-th call returns `results[k]` -/
theorem fmap_scripted (results xs : List Val) (hlen : xs.length ≤ results.length) :
    ∃ st, fmap (Script.call zeroCell) (some xs) { script := results } = .ok (some (results.take xs.length), st) ∧
      st.log = xs := by
  rw [fmap_slice_spec]
  suffices ∀ (xs results log : List Val), xs.length ≤ results.length →
      (Spec.mapM (Script.call zeroCell) xs { script := results, log := log }).1 = results.take xs.length ∧
      (Spec.mapM (Script.call zeroCell) xs { script := results, log := log }).2.log = log ++ xs by
    have h := this xs results [] hlen
    exact ⟨(Spec.mapM (Script.call zeroCell) xs { script := results }).2, by simp [Sl.elems, h.1], by simpa [Sl.elems] using h.2⟩
  intro xs
  induction xs with
  | nil => intro results log _; simp [Spec.mapM]
  | cons x r ih =>
    intro results log hl
    cases results with
    | nil => simp at hl
    | cons y ys =>
      have := ih ys (log ++ [x]) (by simpa using hl)
      simp [Spec.mapM, Script.call, this.1, this.2]

example : ∃ st, fmap (Script.call zeroCell) (some [i 1, i 2]) { script := [i 7, i 8, i 9] } =
    .ok (some [i 7, i 8], st) ∧ st.log = [i 1, i 2] :=
  fmap_scripted [i 7, i 8, i 9] [i 1, i 2] (by decide)

/-! ### 2. Fmap over a string -/

/-- **C17, Fmap over a string**, for *every* byte string (ASCII, multi-byte, invalid UTF-8): the
result is `f` of each rune that Go's decoder yields (U+FFFD for each invalid byte), in order, `f`
called once per rune. -/
theorem fmap_string_spec (f : Val → Val) (bytes : List Nat) (log : List Val) :
    fmapString (logged f) bytes log =
      .ok (some ((Spec.runes bytes).map f), log ++ Spec.runes bytes) := by
  unfold fmapString
  rw [fmap_slice_logged]
  rfl

/-- "héllo" (`68 c3 a9 6c 6c 6f`): five runes, the second one two bytes wide -/
example : fmapString (logged double) [0x68, 0xc3, 0xa9, 0x6c, 0x6c, 0x6f] [] =
    .ok (some [i 208, i 466, i 216, i 216, i 222], [i 104, i 233, i 108, i 108, i 111]) := by
  rw [fmap_string_spec]; decide
/-- an invalid encoding: `61 ff 62` decodes to 'a', U+FFFD, 'b' -/
example : fmapString (logged id) [0x61, 0xff, 0x62] [] =
    .ok (some [i 97, i 65533, i 98], [i 97, i 65533, i 98]) := by
  rw [fmap_string_spec]; decide

/-- any oracle, any string -/
theorem fmap_string_any {σ : Type} (f : Fn σ Val) (bytes : List Nat) (s : σ) :
    fmapString f bytes s =
      .ok (some (Spec.mapM f (Spec.runes bytes) s).1, (Spec.mapM f (Spec.runes bytes) s).2) := by
  unfold fmapString
  rw [fmap_slice_spec]
  rfl

example : ∃ st, fmapString (Script.call zeroCell) [0xe2, 0x82] { script := [i 5, i 6] } = .ok (some [i 5, i 6], st) := by
  rw [fmap_string_any]
  have h : (Spec.mapM (Script.call zeroCell) (Spec.runes [0xe2, 0x82]) { script := [i 5, i 6] }).1 = [i 5, i 6] := by
    decide
  exact ⟨(Spec.mapM (Script.call zeroCell) (Spec.runes [0xe2, 0x82]) { script := [i 5, i 6] }).2, by rw [h]⟩

/-! ### 3. Join -/

/-- **C17, Join of a slice of slices**: nil for nil, otherwise the concatenation in order (never nil),
with the capacity computed by the first loop equal to its length. -/
theorem join_slice_spec (ls : List Sl) :
    join none = none ∧ join (some ls) = some ((ls.map Sl.elems).flatten) ∧
      joinLen ls = ((ls.map Sl.elems).flatten).length := by
  refine ⟨rfl, ?_, joinLen_spec ls⟩
  simp [join, joinLoop_spec]

example : join (some [some [i 1], none, some [], some [i 2, i 3]]) = some [i 1, i 2, i 3] := by
  rw [(join_slice_spec _).2.1]; decide
example : join (some []) = some [] := by decide
example : join none = none := (join_slice_spec []).1

/-- **C17, Join of strings**: `strings.Join(list, "")` is the concatenation of the byte strings. -/
theorem join_string_spec (ss : List (List Nat)) : joinStrings ss = ss.flatten :=
  joinStrings_spec ss

example : joinStrings [[0x61], [], [0xff, 0x62]] = [0x61, 0xff, 0x62] := by decide

end Goderive.C17
