/-
  C09 — Every run ends cleanly: success, or a diagnostic, never a crash or a bad file.

  What is proved here, over the regenerated facts (Generated/Facts.lean) and the small generator models of
  G/Determinism and G/Imports:
    * no error is swallowed: no `err != nil` branch returns a nil error or falls through, no error result of
      a repo-defined function is dropped (the shapes of the repaired findings F2/F2b), except the single
      documented SetFuncName call in GetFuncName, which is proved unable to fail;
    * every constant index `typs[k]` in a plugin is dominated by length checks that make it safe, for every
      argument count the user can write (the shape of the repaired finding F3);
    * the list of explicit `panic(` calls, and for each of them either a proof that it is unreachable or the
      exact condition under which it is reached.
  Totality: every model function is a total Lean function (structural recursion), so "the model terminates"
  holds by construction; it is the black-box stream that looks for hangs of the real code.

  NOT proved (partial): that each plugin's genStatement rejects every unsupported type (the dispatch tables of
  33 plugins are not modelled here: the malformed stream of the check is the tie, and it does find accepted
  unsupported types); panics inside go/types, x/tools, go/format; balance of In()/Out() in the emitters.
-/
import GoderiveModel.G.Determinism
import GoderiveModel.Generated.Facts
import GoderiveModel.Lemmas.RunsGuard

namespace Goderive.C09
open Goderive.G.Imports Goderive.G.Determinism Goderive.Generated

theorem facts_complete : Generated.typeCheckErrors = [] := by decide

/-! ### errors -/

/-- In main.go, derive/, plugin/: no `if err != nil { … return nil }` / fall-through in a function whose last
result is `error`, and no dropped error result of a function defined in the repo (other than SetFuncName). -/
theorem no_swallowed_errors : Generated.swallowedErrors = [] := by decide

/-- The one tolerated shape: `(*pkg).Delete` returns nil when os.Stat says the file does not exist. -/
theorem tolerated_errors_expected :
    Generated.toleratedErrors = ["derive/generate.go:(*pkg).Delete:os.IsNotExist(err)"] := by decide

/-- The one place where SetFuncName's error is dropped… -/
theorem dropped_setfuncname_expected :
    Generated.droppedSetFuncName = ["derive/typesmap.go:(*typesMap).GetFuncName:tm.SetFuncName"] := by decide

/-- …and there it cannot fail: GetFuncName calls it only after nameOf found nothing, with the name returned by
newName, whose loop exits only on a name that is not a key of funcToTyps. -/
theorem getFuncName_set_cannot_fail {Ty : Type} (ident assign : List Ty → List Ty → Bool)
    (autoname dedup : Bool) (fresh : TM Ty → List Ty → String) (tm : TM Ty) (typs : List Ty)
    (hmiss : nameOf ident assign tm typs = none)
    (hfresh : typsOf tm.typss tm.names (fresh tm typs) = none) :
    setFuncName ident assign autoname dedup fresh tm (fresh tm typs) typs =
      .ok (fresh tm typs) ⟨tm.typss ++ [typs], tm.names ++ [fresh tm typs]⟩ :=
  setFuncName_fresh_ok ident assign autoname dedup fresh tm _ typs hmiss hfresh

example :
    setFuncName (fun a b => a == b) (fun a b => a == b) false false (fun _ _ => "deriveEqual_")
      (⟨[[1]], ["deriveEqual"]⟩ : TM Nat) "deriveEqual_" [2] =
      .ok "deriveEqual_" ⟨[[1], [2]], ["deriveEqual", "deriveEqual_"]⟩ := by decide

/-! ### typs[k] -/

/-- Every `typs[k]` with constant k in a plugin function (Add, Generate and their helpers) is safe for EVERY
argument count: the conditions known to hold there — the function's own `len(typs)` checks, for helpers the
checks at their call sites, for Generate the arities Add registered — imply k < len(typs). (`mem.Add`'s
`typs[1]` after `len(typs) != 1` is the shape that fails this theorem.) -/
theorem add_index_guarded : ∀ u ∈ Generated.typsIndexUses, ∀ L, u.guard.eval L = true → u.index < L := by
  have h : Generated.typsIndexUses.all (fun u => u.safeUpTo 8) = true := by decide
  intro u hu
  exact IndexUse.safe_of_safeUpTo (List.all_eq_true.1 h u hu)

/-- non-vacuity: the guards are satisfiable (each use is reachable for some argument count), and the shape of
the repaired defect is rejected -/
theorem index_guards_satisfiable :
    Generated.typsIndexUses.all (fun u => (List.range 9).any (fun L => u.guard.eval L)) = true := by decide

example : (⟨"plugin/mem/mem.go:(*gen).Add", 1, .not (.ne 1)⟩ : IndexUse).safeUpTo 8 = false := by decide
example : (⟨"plugin/mem/mem.go:(*gen).Add", 0, .not (.ne 1)⟩ : IndexUse).safeUpTo 8 = true := by decide

/-! ### the explicit panics -/

theorem panic_sites_expected : Generated.panicSites =
    ["derive/find.go:newCall:unreachable, finder has already eliminat",
     "derive/generate.go:newPackage:unreachable: function names cannot be ch",
     "derive/printer.go:(*printer).Out:bug in code generator: unindenting more ",
     "derive/typesmap.go:(*typesMap).Generating:generating unknown %s for types: %v"] := by decide

/-! 1. find.go:newCall — `fn, ok := expr.Fun.(*ast.Ident); if !ok { panic }`. The finder appends a call to
`undefined` / `derived` only after the same type assertion succeeded. -/

inductive FunExpr
  | ident (name : String)
  | other
  deriving DecidableEq

/-- finder.Visit keeps a call only if `call.Fun.(*ast.Ident)` succeeds -/
def finderKeeps : FunExpr → Bool
  | .ident _ => true
  | .other => false

/-- newCall: `none` = panic -/
def newCall : FunExpr → Option String
  | .ident n => some n
  | .other => none

theorem newCall_panic_unreachable (calls : List FunExpr) : ∀ f ∈ calls.filter finderKeeps, (newCall f).isSome := by
  intro f hf
  have := (List.mem_filter.1 hf).2
  cases f with
  | ident n => rfl
  | other => simp [finderKeeps] at this

example : ([FunExpr.ident "deriveEqual", .other].filter finderKeeps).map newCall = [some "deriveEqual"] := by decide

/-! 2. generate.go:newPackage — `if name != call.Name { if !autoname && !dedup { panic("unreachable…") } … }` -/

/-- Without -autoname and -dedup SetFuncName returns the name it was given, or an error. (The full name-table
development, with all plugins' Add functions, is Props/C11's; this is the statement for the SetFuncName model
of G/Determinism, which every plugin's Add ends in.) -/
theorem rename_unreachable {Ty : Type} (ident assign : List Ty → List Ty → Bool)
    (fresh : TM Ty → List Ty → String) (tm tm' : TM Ty) (name n' : String) (typs : List Ty)
    (h : setFuncName ident assign false false fresh tm name typs = .ok n' tm') : n' = name :=
  setFuncName_noflags ident assign fresh tm tm' name n' typs h

/-- with a flag the name can change (so the theorem is not vacuous) -/
example :
    setFuncName (fun a b => a == b) (fun a b => a == b) false true (fun _ _ => "x")
      (⟨[[1]], ["deriveEqual"]⟩ : TM Nat) "deriveEqualAgain" [1] = .ok "deriveEqual" ⟨[[1]], ["deriveEqual"]⟩ := by decide

/-! 3. printer.go:NewImport — the former `panic("non unique fullpath")` (reached by a package NAMED like
another import's full path: found by the black-box part of this check, family aliasclash) is gone since fix
81ad18a: a taken full-path alias is followed by numbered ones. What remains to show is that the new search
loop terminates and the closure always returns. -/

/-- NewImport returns for every table and request: among len(table)+1 pairwise different candidate aliases
one is unbound (pigeonhole), so the loop `for i := 2; ; i++` ends. `SfxInj`: the numbered aliases of one full
path are pairwise different (strconv.Itoa is injective). -/
theorem import_alias_always_returns {unv full : String → String} {sfx : String → Nat → String}
    (hinj : SfxInj sfx) (t : Table) (r : Req) : newImport unv full sfx t r ≠ none :=
  newImport_total hinj t r

theorem import_sequence_always_returns {unv full : String → String} {sfx : String → Nat → String}
    (hinj : SfxInj sfx) (rs : List Req) : run unv full sfx [] rs ≠ none :=
  run_total hinj rs []

/-- and the result keeps "distinct aliases, one alias per path" WITHOUT any side condition on the names -/
theorem import_table_invariant_unconditional {unv full nm : String → String} {sfx : String → Nat → String}
    {rs : List Req} {t : Table} {as : List String} (hc : ∀ r ∈ rs, Consistent unv nm r)
    (hrun : run unv full sfx [] rs = some (t, as)) :
    (keys t).Nodup ∧ ∀ a b p, (a, p) ∈ t → (b, p) ∈ t → a = b := by
  have hI := run_inv (inv_nil full nm sfx) hc hrun
  exact ⟨hI.keysNodup, fun a b p ha hb => hI.vals_unique ha hb⟩

/-- the input that used to panic: a user package NAMED `strings` (path x/v2) next to the real "strings" -/
def exSfx (fp : String) : Nat → String
  | 0 => fp
  | 1 => if fp = "strings" then "strings_2" else "?"
  | _ => "?"

example : run id id exSfx [] [⟨"strings", "x/v2"⟩, ⟨"strings", "strings"⟩, ⟨"strings", "strings"⟩] =
    some ([("strings", "x/v2"), ("strings_2", "strings")], ["strings", "strings_2", "strings_2"]) := by decide

/-! 4. printer.go:Out — `if len(p.indent) > 0 { … } else { panic }`: unreachable iff every emitter calls Out
no more often than In on every prefix of its execution. Not proved for the 33 emitters (tie: every corpus of
every check runs them; a violation shows as `panic:` in the C09 stream). The counter itself: -/

inductive IndentOp
  | in_
  | out
  deriving DecidableEq

/-- `none` = panic -/
def indentRun : Nat → List IndentOp → Option Nat
  | n, [] => some n
  | n, .in_ :: ops => indentRun (n + 1) ops
  | 0, .out :: _ => none
  | n + 1, .out :: ops => indentRun n ops

/-- every prefix has at least as many In as Out -/
def prefixBalanced : Nat → List IndentOp → Bool
  | _, [] => true
  | n, .in_ :: ops => prefixBalanced (n + 1) ops
  | 0, .out :: _ => false
  | n + 1, .out :: ops => prefixBalanced n ops

theorem out_panic_iff_unbalanced : ∀ (n : Nat) (ops : List IndentOp), indentRun n ops = none ↔ prefixBalanced n ops = false
  | _, [] => by simp [indentRun, prefixBalanced]
  | n, .in_ :: ops => by simp only [indentRun, prefixBalanced]; exact out_panic_iff_unbalanced (n + 1) ops
  | 0, .out :: _ => by simp [indentRun, prefixBalanced]
  | n + 1, .out :: ops => by simp only [indentRun, prefixBalanced]; exact out_panic_iff_unbalanced n ops

example : indentRun 0 [.in_, .in_, .out, .out] = some 0 ∧ indentRun 0 [.in_, .out, .out] = none := by decide

/-! 5. typesmap.go:Generating — `name, ok := tm.nameOf(typs); if !ok { panic }` -/

/-- `Generating(typs)` for a type list that is in the table (what ToGenerate hands to Generate) finds a name:
types.Identical is reflexive, so the first pass of nameOf succeeds. -/
theorem generating_registered_no_panic {Ty : Type} (ident assign : List Ty → List Ty → Bool) (tm : TM Ty)
    (hl : tm.typss.length = tm.names.length) (hrefl : ∀ ts, ident ts ts = true) {ts : List Ty}
    (hm : ts ∈ tm.typss) : (nameOf ident assign tm ts).isSome :=
  nameOf_registered ident assign tm hl hrefl hm

/-- The name found for a type list that is only ASSIGNABLE to registered ones is the first such entry's: a
plugin that called `Generating` on the UNDERLYING type (keys did) got, for two named types over one underlying
type, the first one's name twice — the second was never marked generated and pkg.Generate looped forever,
re-emitting the first function until memory ran out. Found by the black-box part of this check (family
twins) and repaired in /repo by a35d9db (keys marks the registered type) and 88b6e50 (the work list marks the
entry it hands out); the family stays in the stream. Types: 0 = map[string]int, 1 = M1, 2 = M2. -/
theorem generating_underlying_marks_first_twin_only :
    let ident : List Nat → List Nat → Bool := fun a b => a == b
    let assign : List Nat → List Nat → Bool := fun a b => a == b || a == [0] || b == [0]
    let tm : TM Nat := ⟨[[1], [2]], ["deriveKeys", "deriveKeys_"]⟩
    nameOf ident assign tm [0] = some "deriveKeys" ∧ nameOf ident assign tm [0] ≠ some "deriveKeys_" := by decide

end Goderive.C09
