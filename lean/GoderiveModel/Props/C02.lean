/-
Property C02: derived Equal is structural equality.

"For every supported type and all acyclic, NaN-free values x and y of it, derived Equal returns true
exactly when x and y are structurally identical: the same nil-ness at every pointer, slice and map,
the same lengths and key sets, equal leaves, irrespective of pointer identity, spare capacity or map
insertion order. It is therefore reflexive, symmetric and transitive, never panics on nil, treats a
component the same whether it is compared at top level or as a field."

Model: `Equal.top` / `Equal.field` (S/Equal.lean). Specification: `Spec.structEq`
(Spec/StructEq.lean). Supportedness: `Supported` / `SupportedComp` (S/EqualSupported.lean).
Values are finite trees, hence acyclic. Only theorems and their non-vacuity examples live here; the
proofs, and the concrete world the examples use (`C02.env`, `tNode`, `x1`, `y1`, `z1`, `tMap`, `m1`,
`m2`), are in Lemmas/Equal.lean.
-/
import GoderiveModel.Lemmas.Equal

set_option linter.unusedSimpArgs false

namespace Goderive.C02
open Goderive Val

/-! ### 1. The emitted code computes structural equality and never panics -/

/-- **C02, main clause.** On a supported type the function generated for `T` returns — without
panicking, whatever is nil — exactly the structural-equality verdict of the specification. -/
theorem equal_correct (env : Env) (T : Ty) (x y : Val)
    (hf : env.flagsOk = true) (hx : hasType env T x = true) (hy : hasType env T y = true)
    (hs : Supported env T = true) :
    Equal.top env T x y = .ok (Spec.structEq env T x y) := by
  simp only [Supported, Bool.and_eq_true] at hs
  exact (equalOK hf hs.2 x).top T y hs.1 hx hy

example : Equal.top env tNode x1 y1 = .ok true := by
  rw [equal_correct env tNode x1 y1 env_flagsOk x1_typed y1_typed env_supported, x1_y1_structEq]
example : Equal.top env tNode x1 z1 = .ok false := by
  rw [equal_correct env tNode x1 z1 env_flagsOk x1_typed z1_typed env_supported, x1_z1_structEq]

/-- The expression emitted for a *component* of type `T` computes the same verdict. `SupportedComp`
is `Supported` minus one case: `T` itself an unnamed non-comparable struct (see
`supportedComp_eq`), for which `field` emits nothing while `top` is fine (see the example below). -/
theorem equal_field_correct (env : Env) (T : Ty) (x y : Val)
    (hf : env.flagsOk = true) (hx : hasType env T x = true) (hy : hasType env T y = true)
    (hs : SupportedComp env T = true) :
    Equal.field env T x y = .ok (Spec.structEq env T x y) := by
  simp only [SupportedComp, Bool.and_eq_true] at hs
  exact (equalOK hf hs.2 x).field T y hs.1 hx hy

example : Equal.field env tNode x1 y1 = .ok true := by
  rw [equal_field_correct env tNode x1 y1 env_flagsOk x1_typed y1_typed env_supportedComp,
    x1_y1_structEq]

/-- `SupportedComp` is `Supported` plus "`T` is not itself an unnamed non-comparable struct". -/
theorem supportedComp_eq (env : Env) (T : Ty) :
    SupportedComp env T =
      (Supported env T && (match T with | .struct _ => canEqual env T | _ => true)) := by
  unfold SupportedComp Supported
  cases T with
  | struct fs =>
    simp only [Equal.okComp, Equal.okTop]
    cases hc : canEqual env (.struct fs) with
    | false => simp
    | true => simp [Equal.okComp_of_canEqual fs (by simpa [canEqual] using hc)]
  | _ => simp [Equal.okTop]

/-- **C02, "treats a component the same whether it is compared at top level or as a field".** -/
theorem equal_field_eq_top (env : Env) (T : Ty) (x y : Val)
    (hf : env.flagsOk = true) (hx : hasType env T x = true) (hy : hasType env T y = true)
    (hs : SupportedComp env T = true) :
    Equal.field env T x y = Equal.top env T x y := by
  have hs' : Supported env T = true := by
    rw [supportedComp_eq, Bool.and_eq_true] at hs; exact hs.1
  rw [equal_field_correct env T x y hf hx hy hs, equal_correct env T x y hf hx hy hs']

example : Equal.field env tNode x1 y1 = Equal.top env tNode x1 y1 :=
  equal_field_eq_top env tNode x1 y1 env_flagsOk x1_typed y1_typed env_supportedComp

/-- Why `equal_field_eq_top` asks for `SupportedComp` rather than `Supported`: for the unnamed,
non-comparable `struct{ []int64 }` the top-level function is generated (and correct), but in
component position the generator refuses to emit anything. -/
example :
    let T : Ty := .struct (.fcons (.slice (.basic (.int 64 true))) .fnil)
    let v : Val := .struct (.scons .nilv .snil)
    Supported env T = true ∧ SupportedComp env T = false ∧ hasType env T v = true ∧
      Equal.top env T v v = .ok true ∧ Equal.field env T v v = .panic := by
  refine ⟨by decide, by decide, by goderive_eval [env], ?_, ?_⟩
  · rw [equal_correct env _ _ _ env_flagsOk (by goderive_eval [env]) (by goderive_eval [env])
      (by decide)]
    goderive_eval [env]
  · rw [Equal.field.eq_def]; simp [canEqual, Env.under, Ty.isNamed]

/-! ### 2. Reflexive, symmetric, transitive -/

/-- Structural equality is reflexive on well-typed NaN-free values. (`env.flagsOk` is not needed.) -/
theorem structEq_refl (env : Env) (T : Ty) (x : Val)
    (hx : hasType env T x = true) (hn : nanFree x = true) :
    Spec.structEq env T x x = true := (reflOK x).val T hx hn

example : Spec.structEq env tNode x1 x1 = true := structEq_refl env tNode x1 x1_typed x1_nanFree

/-- NaN-freeness is necessary: `NaN ≠ NaN`. -/
example : hasType env (.basic (.float 64)) (.flt 64 0x7ff8000000000000) = true ∧
    Spec.structEq env (.basic (.float 64)) (.flt 64 0x7ff8000000000000)
      (.flt 64 0x7ff8000000000000) = false := by
  constructor
  · goderive_eval
  · rw [structEq_eval_basic]; decide

/-- Structural equality is symmetric on well-typed values (NaN-freeness is not needed). For maps this
is the pigeonhole argument: distinct keys, equal lengths. -/
theorem structEq_symm (env : Env) (T : Ty) (x y : Val)
    (hf : env.flagsOk = true) (hx : hasType env T x = true) (hy : hasType env T y = true) :
    Spec.structEq env T x y = Spec.structEq env T y x := (symmOK hf x).val T y hx hy

example : Spec.structEq env tNode y1 x1 = true := by
  rw [structEq_symm env tNode y1 x1 env_flagsOk y1_typed x1_typed, x1_y1_structEq]

/-- Structural equality is transitive on well-typed values (neither `env.flagsOk` nor NaN-freeness
is needed). -/
theorem structEq_trans (env : Env) (T : Ty) (x y z : Val)
    (hx : hasType env T x = true) (hy : hasType env T y = true) (hz : hasType env T z = true)
    (h1 : Spec.structEq env T x y = true) (h2 : Spec.structEq env T y z = true) :
    Spec.structEq env T x z = true := (transOK x).val T y z hx hy hz h1 h2

example : Spec.structEq env tNode y1 y1 = true :=
  structEq_trans env tNode y1 x1 y1 y1_typed x1_typed y1_typed
    (by rw [structEq_symm env tNode y1 x1 env_flagsOk y1_typed x1_typed, x1_y1_structEq])
    x1_y1_structEq

/-- **C02, "reflexive"** for the emitted code. -/
theorem equal_refl (env : Env) (T : Ty) (x : Val)
    (hf : env.flagsOk = true) (hx : hasType env T x = true) (hn : nanFree x = true)
    (hs : Supported env T = true) :
    Equal.top env T x x = .ok true := by
  rw [equal_correct env T x x hf hx hx hs, structEq_refl env T x hx hn]

example : Equal.top env tNode x1 x1 = .ok true :=
  equal_refl env tNode x1 env_flagsOk x1_typed x1_nanFree env_supported

/-- **C02, "symmetric"** for the emitted code. -/
theorem equal_symm (env : Env) (T : Ty) (x y : Val)
    (hf : env.flagsOk = true) (hx : hasType env T x = true) (hy : hasType env T y = true)
    (hs : Supported env T = true) :
    Equal.top env T x y = Equal.top env T y x := by
  rw [equal_correct env T x y hf hx hy hs, equal_correct env T y x hf hy hx hs,
    structEq_symm env T x y hf hx hy]

example : Equal.top env tNode x1 y1 = Equal.top env tNode y1 x1 :=
  equal_symm env tNode x1 y1 env_flagsOk x1_typed y1_typed env_supported

/-- **C02, "transitive"** for the emitted code. -/
theorem equal_trans (env : Env) (T : Ty) (x y z : Val)
    (hf : env.flagsOk = true) (hx : hasType env T x = true) (hy : hasType env T y = true)
    (hz : hasType env T z = true) (hs : Supported env T = true)
    (h1 : Equal.top env T x y = .ok true) (h2 : Equal.top env T y z = .ok true) :
    Equal.top env T x z = .ok true := by
  rw [equal_correct env T x y hf hx hy hs] at h1
  rw [equal_correct env T y z hf hy hz hs] at h2
  rw [equal_correct env T x z hf hx hz hs]
  injection h1 with h1
  injection h2 with h2
  rw [structEq_trans env T x y z hx hy hz h1 h2]

example : Equal.top env tNode y1 y1 = .ok true :=
  equal_trans env tNode y1 x1 y1 env_flagsOk y1_typed x1_typed y1_typed env_supported
    (by rw [equal_symm env tNode y1 x1 env_flagsOk y1_typed x1_typed env_supported,
      equal_correct env tNode x1 y1 env_flagsOk x1_typed y1_typed env_supported, x1_y1_structEq])
    (by rw [equal_correct env tNode x1 y1 env_flagsOk x1_typed y1_typed env_supported,
      x1_y1_structEq])

/-! ### 3. Irrespective of pointer identity, spare capacity and map insertion order -/

/-- Structural equality does not look at addresses or spare capacity (no typing needed). -/
theorem structEq_eraseIds (env : Env) (T : Ty) (x y : Val) :
    Spec.structEq env T (eraseIds x) (eraseIds y) = Spec.structEq env T x y :=
  structEq_eraseIds' env T x y

example : eraseIds x1 ≠ x1 ∧ Spec.structEq env tNode (eraseIds x1) (eraseIds y1) = true := by
  refine ⟨by decide, ?_⟩
  rw [structEq_eraseIds, x1_y1_structEq]

/-- **C02, "irrespective of pointer identity, spare capacity"** for the emitted code. -/
theorem equal_eraseIds (env : Env) (T : Ty) (x y : Val)
    (hf : env.flagsOk = true) (hx : hasType env T x = true) (hy : hasType env T y = true)
    (hs : Supported env T = true) :
    Equal.top env T (eraseIds x) (eraseIds y) = Equal.top env T x y := by
  rw [equal_correct env T x y hf hx hy hs,
    equal_correct env T _ _ hf (by rwa [hasType_eraseIds]) (by rwa [hasType_eraseIds]) hs,
    structEq_eraseIds]

example : Equal.top env tNode (eraseIds x1) (eraseIds y1) = Equal.top env tNode x1 y1 :=
  equal_eraseIds env tNode x1 y1 env_flagsOk x1_typed y1_typed env_supported

/-- Structural equality does not look at map insertion order, left argument. (Key distinctness is
part of `hasType`; the specification does not even need it.) -/
theorem structEq_map_perm_left (env : Env) (T : Ty) (a a' : Nat) (es es' y : Val)
    (h1 : hasType env T (.map a es) = true) (h2 : hasType env T (.map a' es') = true)
    (hp : es.toList.Perm es'.toList) :
    Spec.structEq env T (.map a es) y = Spec.structEq env T (.map a' es') y :=
  structEq_map_perm_left' y h1 h2 hp

/-- Structural equality does not look at map insertion order, right argument. -/
theorem structEq_map_perm_right (env : Env) (T : Ty) (a a' : Nat) (es es' y : Val)
    (h1 : hasType env T (.map a es) = true) (h2 : hasType env T (.map a' es') = true)
    (hp : es.toList.Perm es'.toList) :
    Spec.structEq env T y (.map a es) = Spec.structEq env T y (.map a' es') :=
  structEq_map_perm_right' y h1 h2 hp

/-- **C02, "irrespective of map insertion order"** for the emitted code (both arguments). -/
theorem equal_map_perm (env : Env) (T : Ty) (a a' b b' : Nat) (es es' fs fs' : Val)
    (hf : env.flagsOk = true) (hs : Supported env T = true)
    (h1 : hasType env T (.map a es) = true) (h2 : hasType env T (.map a' es') = true)
    (h3 : hasType env T (.map b fs) = true) (h4 : hasType env T (.map b' fs') = true)
    (hp : es.toList.Perm es'.toList) (hq : fs.toList.Perm fs'.toList) :
    Equal.top env T (.map a es) (.map b fs) = Equal.top env T (.map a' es') (.map b' fs') := by
  rw [equal_correct env T _ _ hf h1 h3 hs, equal_correct env T _ _ hf h2 h4 hs,
    structEq_map_perm_left env T a a' es es' _ h1 h2 hp,
    structEq_map_perm_right env T b b' fs fs' _ h3 h4 hq]

example (y : Val) : Spec.structEq env tMap (.map 1 m1) y = Spec.structEq env tMap (.map 2 m2) y :=
  structEq_map_perm_left env tMap 1 2 m1 m2 y (m1_typed 1) (m2_typed 2) m1_perm_m2
example (y : Val) : Spec.structEq env tMap y (.map 1 m1) = Spec.structEq env tMap y (.map 2 m2) :=
  structEq_map_perm_right env tMap 1 2 m1 m2 y (m1_typed 1) (m2_typed 2) m1_perm_m2
example : Equal.top env tMap (.map 1 m1) (.map 3 m1) = Equal.top env tMap (.map 2 m2) (.map 4 m2) :=
  equal_map_perm env tMap 1 2 3 4 m1 m2 m1 m2 env_flagsOk (by decide)
    (m1_typed 1) (m2_typed 2) (m1_typed 3) (m2_typed 4) m1_perm_m2 m1_perm_m2
example : Equal.top env tMap (.map 1 m1) (.map 2 m2) = .ok true := by
  rw [equal_correct env tMap _ _ env_flagsOk (m1_typed 1) (m2_typed 2) (by decide)]
  goderive_eval [env, tMap, m1, m2, pt]

end Goderive.C02
