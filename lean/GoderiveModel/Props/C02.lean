/-
Property C02: derived Equal is structural equality.

"For every supported type and all acyclic, NaN-free values x and y of it, derived Equal returns true
exactly when x and y are structurally identical: the same nil-ness at every pointer, slice and map,
the same lengths and key sets, equal leaves, irrespective of pointer identity, spare capacity or map
insertion order. It is therefore reflexive, symmetric and transitive, never panics on nil, treats a
component the same whether it is compared at top level or as a field."

Model: `Equal.top` / `Equal.field` (S/Equal.lean). Specification: `Spec.structEq`
(Spec/StructEq.lean). Supportedness: `Supported` / `SupportedComp` (S/EqualSupported.lean).
Values are finite trees, hence acyclic. Only theorems and their non-vacuity examples live here; the
proofs are in Lemmas/Equal.lean.
-/
import GoderiveModel.Lemmas.Equal

set_option linter.unusedSimpArgs false

namespace Goderive.C02
open Goderive Val

/-! ### A concrete world used by the non-vacuity examples

```go
type Node struct { N int64; Next *Node; Tags []string; Pts map[string]Pt; Raw []byte }   // named 0
type Pt   struct { X, Y float64 }                                                       // named 1
```
-/

def env : Env := { decls := [
  { under := .struct (.fcons (.basic (.int 64 true)) (.fcons (.ptr (.named 0))
      (.fcons (.slice (.basic .string)) (.fcons (.map (.basic .string) (.named 1))
      (.fcons (.slice (.basic (.int 8 false))) .fnil))))), canEq := false },
  { under := .struct (.fcons (.basic (.float 64)) (.fcons (.basic (.float 64)) .fnil)),
    canEq := true } ] }

def tNode : Ty := .named 0

def pt (a b : Nat) : Val := .struct (.scons (.flt 64 a) (.scons (.flt 64 b) .snil))

/-- `Node{N: 2}`: every pointer, slice and map nil -/
def leaf : Val :=
  .struct (.scons (.int 2) (.scons .nilv (.scons .nilv (.scons .nilv (.scons .nilv .snil)))))

/-- `Node{N: n, Next: &leaf, Tags: {"hi"}, Pts: {"a": {+0|-0, 1}, "b": {5, 6}}, Raw: {1, 2}}` with the
given heap addresses, spare capacity and map insertion order; `z` is the bit pattern of `Pts["a"].X` -/
def node (n : Int) (a1 a2 a3 a4 spare : Nat) (z : Nat) (order : Bool) : Val :=
  .struct (.scons (.int n) (.scons (.ptr a1 leaf)
    (.scons (.slice a2 spare (.scons (.str [104, 105]) .snil))
    (.scons (.map a3 (if order then
        .scons (.pair (.str [97]) (pt z 1)) (.scons (.pair (.str [98]) (pt 5 6)) .snil)
      else .scons (.pair (.str [98]) (pt 5 6)) (.scons (.pair (.str [97]) (pt z 1)) .snil)))
    (.scons (.slice a4 0 (.scons (.int 1) (.scons (.int 2) .snil))) .snil)))))

/-- two structurally identical values: different addresses, spare capacity, map order, `+0` vs `-0` -/
def x1 : Val := node 1 10 11 12 13 3 0 true
def y1 : Val := node 1 20 21 22 23 0 (2 ^ 63) false
/-- a structurally different one (`N`) -/
def z1 : Val := node 7 10 11 12 13 3 0 true

theorem env_flagsOk : env.flagsOk = true := by decide
theorem env_supported : Supported env tNode = true := by decide
theorem env_supportedComp : SupportedComp env tNode = true := by decide
theorem x1_typed : hasType env tNode x1 = true := by goderive_eval [env, tNode, x1, node, leaf, pt]
theorem y1_typed : hasType env tNode y1 = true := by goderive_eval [env, tNode, y1, node, leaf, pt]
theorem z1_typed : hasType env tNode z1 = true := by goderive_eval [env, tNode, z1, node, leaf, pt]
theorem x1_nanFree : nanFree x1 = true := by decide
theorem y1_nanFree : nanFree y1 = true := by decide
theorem z1_nanFree : nanFree z1 = true := by decide
theorem x1_y1_structEq : Spec.structEq env tNode x1 y1 = true := by
  goderive_eval [env, tNode, x1, y1, node, leaf, pt]
theorem x1_z1_structEq : Spec.structEq env tNode x1 z1 = false := by
  goderive_eval [env, tNode, x1, z1, node, leaf, pt]

/-! ### 1. The emitted code computes structural equality and never panics -/

/-- **C02, main clause.** On a supported type the function generated for `T` returns — without
panicking, whatever is nil — exactly the structural-equality verdict of the specification. -/
theorem equal_correct (env : Env) (T : Ty) (x y : Val)
    (hf : env.flagsOk = true) (hx : hasType env T x = true) (hy : hasType env T y = true)
    (hs : Supported env T = true) :
    Equal.top env T x y = .ok (Spec.structEq env T x y) := by
  simp only [Supported, Bool.and_eq_true] at hs
  exact (equalOK hf hs.2 x).top T y hs.1 hx hy

example : Equal.top env tNode x1 y1 = .ok true := by
  rw [equal_correct env tNode x1 y1 env_flagsOk x1_typed y1_typed env_supported, x1_y1_structEq]
example : Equal.top env tNode x1 z1 = .ok false := by
  rw [equal_correct env tNode x1 z1 env_flagsOk x1_typed z1_typed env_supported, x1_z1_structEq]

/-- The expression emitted for a *component* of type `T` computes the same verdict. `SupportedComp`
is `Supported` minus one case: `T` itself an unnamed non-comparable struct (see
`supportedComp_eq`), for which `field` emits nothing while `top` is fine (see the example below). -/
theorem equal_field_correct (env : Env) (T : Ty) (x y : Val)
    (hf : env.flagsOk = true) (hx : hasType env T x = true) (hy : hasType env T y = true)
    (hs : SupportedComp env T = true) :
    Equal.field env T x y = .ok (Spec.structEq env T x y) := by
  simp only [SupportedComp, Bool.and_eq_true] at hs
  exact (equalOK hf hs.2 x).field T y hs.1 hx hy

example : Equal.field env tNode x1 y1 = .ok true := by
  rw [equal_field_correct env tNode x1 y1 env_flagsOk x1_typed y1_typed env_supportedComp,
    x1_y1_structEq]

/-- `SupportedComp` is `Supported` plus "`T` is not itself an unnamed non-comparable struct". -/
theorem supportedComp_eq (env : Env) (T : Ty) :
    SupportedComp env T =
      (Supported env T && (match T with | .struct _ => canEqual env T | _ => true)) := by
  unfold SupportedComp Supported
  cases T with
  | struct fs =>
    simp only [Equal.okComp, Equal.okTop]
    cases hc : canEqual env (.struct fs) with
    | false => simp
    | true => simp [Equal.okComp_of_canEqual fs (by simpa [canEqual] using hc)]
  | _ => simp [Equal.okTop]

/-- **C02, "treats a component the same whether it is compared at top level or as a field".** -/
theorem equal_field_eq_top (env : Env) (T : Ty) (x y : Val)
    (hf : env.flagsOk = true) (hx : hasType env T x = true) (hy : hasType env T y = true)
    (hs : SupportedComp env T = true) :
    Equal.field env T x y = Equal.top env T x y := by
  have hs' : Supported env T = true := by
    rw [supportedComp_eq, Bool.and_eq_true] at hs; exact hs.1
  rw [equal_field_correct env T x y hf hx hy hs, equal_correct env T x y hf hx hy hs']

example : Equal.field env tNode x1 y1 = Equal.top env tNode x1 y1 :=
  equal_field_eq_top env tNode x1 y1 env_flagsOk x1_typed y1_typed env_supportedComp

end Goderive.C02
