import GoderiveModel.K.Skeleton
import GoderiveModel.K.FmapChan

namespace Goderive.C19
open Goderive.K

theorem skeleton_facts : Generated.skeletons = expectedSkeletons := skeleton_matches

end Goderive.C19
