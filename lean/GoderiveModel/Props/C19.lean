/-
C19 — "Channel combinators deliver every item exactly once under all schedules".

Models (layer K, one labelled transition system per emitted goroutine skeleton, environment included):
K/FmapChan, K/Dup, K/JoinWG (chan-of-chan and slice-of-chan forms), K/JoinSelect (select form),
K/Pipeline (= stage-1 FmapChan goroutine ∥ JoinWG).  Every theorem quantifies over ALL reachable
states, i.e. over every interleaving of producers, consumers and internal goroutines, and is UNBOUNDED
in the number of inputs, the item lists, the buffer capacities and the order in which producers close.

Per system:
  *_delivery             input i = received|ᵢ ++ held by a goroutine ++ buffered ++ not yet sent
                         (nothing lost, nothing duplicated, per-input order kept at every moment)
  *_exactly_once         in a final state (every consumer has observed the close) what was received
                         from input i is exactly `items i`, in order (whole order for fmap and dup)
  *_no_send_on_closed    the panic state (send on closed channel, double close, negative WaitGroup) is
                         unreachable, and no goroutine is ever parked at a send on a closed output
  *_close_after_drained  an output is closed only when every input is closed and drained and nothing is
                         held; closed at most once (second close = panic state, unreachable); closed in
                         every final state
  *_progress             given consumers that keep receiving: in every reachable non-final state some
                         transition is enabled (no deadlock)
  *_terminates_clean     in a final state every internal goroutine is at its end (nothing left running,
                         WaitGroup counter 0)
  *_terminates           every schedule is finite: a measure strictly decreases at every step, so a run has
                         at most `measure init` steps; with *_progress every maximal run ends in a final
                         state (no deadlock, no livelock, nothing left running)

Ties: T4 `skeleton_facts`; T5 trace validation + race stress (vlib/props/c19.py).  Partial: data-race
freedom at memory level and the faithfulness of the channel semantics of K/Lts to the Go runtime are
observed (race detector runs), not proved.
-/
import GoderiveModel.K.Skeleton
import GoderiveModel.Lemmas.ConcFmap
import GoderiveModel.Lemmas.ConcDup
import GoderiveModel.Lemmas.ConcJoinWG
import GoderiveModel.Lemmas.ConcJoinSelect
import GoderiveModel.Lemmas.ConcPipeline

namespace Goderive.C19
open Goderive.K

/-- T4: the functions goderive emits now have the skeletons the transition systems were written for. -/
theorem skeleton_facts : Generated.skeletons = expectedSkeletons := skeleton_matches

/-! ## Fmap over a channel -/

theorem fmap_delivery (c : FmapChan.Cfg) (s : FmapChan.State) (hr : (FmapChan.lts c).Reachable s) :
    c.items.map c.f = s.got ++ s.out.buf ++ FmapChan.held s.pc ++ s.inp.buf.map c.f ++ s.pend.map c.f :=
  (FmapChan.inv_reachable c s hr).deliv

theorem fmap_exactly_once (c : FmapChan.Cfg) (s : FmapChan.State) (hr : (FmapChan.lts c).Reachable s) :
    (∃ rest, c.items.map c.f = s.got ++ rest) ∧ (FmapChan.final s → s.got = c.items.map c.f) := by
  have hi := FmapChan.inv_reachable c s hr
  refine ⟨⟨_, by rw [hi.deliv]; simp only [List.append_assoc]; rfl⟩, ?_⟩
  intro hf
  obtain ⟨hoc, hob⟩ := hi.seenC hf
  have hpc := hi.outClosed.mp hoc
  obtain ⟨hic, hib⟩ := hi.late (Or.inr hpc)
  have hd := hi.deliv
  rw [hob, hpc, hib, hi.closedPend hic] at hd
  simpa [FmapChan.held] using hd.symm

theorem fmap_no_send_on_closed (c : FmapChan.Cfg) (s : FmapChan.State) (hr : (FmapChan.lts c).Reachable s) :
    s.panicked = false ∧ (∀ b, s.pc = .send b → s.out.closed = false) := by
  have hi := FmapChan.inv_reachable c s hr
  refine ⟨hi.np, ?_⟩
  intro b hb
  cases h : s.out.closed
  · rfl
  · have := hi.outClosed.mp h; rw [hb] at this; cases this

theorem fmap_close_after_drained (c : FmapChan.Cfg) (s : FmapChan.State) (hr : (FmapChan.lts c).Reachable s) :
    (s.out.closed = true → s.pc = .done ∧ s.inp.closed = true ∧ s.inp.buf = [] ∧ s.pend = []) ∧
    (FmapChan.final s → s.out.closed = true) := by
  have hi := FmapChan.inv_reachable c s hr
  refine ⟨?_, fun hf => (hi.seenC hf).1⟩
  intro h
  have hpc := hi.outClosed.mp h
  obtain ⟨hic, hib⟩ := hi.late (Or.inr hpc)
  exact ⟨hpc, hic, hib, hi.closedPend hic⟩

theorem fmap_progress (c : FmapChan.Cfg) (s : FmapChan.State) (hr : (FmapChan.lts c).Reachable s)
    (hnf : ¬ FmapChan.final s) : (FmapChan.lts c).Enabled s :=
  FmapChan.progress c s (FmapChan.inv_reachable c s hr) (by simpa [FmapChan.final] using hnf)

theorem fmap_terminates_clean (c : FmapChan.Cfg) (s : FmapChan.State) (hr : (FmapChan.lts c).Reachable s)
    (hf : FmapChan.final s) : s.pc = .done := by
  have hi := FmapChan.inv_reachable c s hr
  exact hi.outClosed.mp (hi.seenC hf).1

/-- one item at a time: the forwarder takes the next item off the input only when it holds nothing — the result of
item n has been handed over (buffered in `out` or taken by the consumer) before item n+1 is taken; so a producer that
waits for the consumer to have the result of an item before sending the next one is never kept waiting for ever -/
theorem fmap_result_offered_before_next_taken (c : FmapChan.Cfg) (s s' : FmapChan.State)
    (h : (FmapChan.lts c).step s .fRecv = some s') : FmapChan.held s.pc = [] ∧ s.pc = .recv := by
  simp only [FmapChan.lts, FmapChan.step] at h
  (repeat' split at h) <;> (try cases h) <;> simp_all [FmapChan.held]

/-- termination under every schedule: each step strictly decreases `FmapChan.measure`, so a run from
the initial state has at most `measure init` steps; with `fmap_progress` every maximal run ends in a
final state -/
theorem fmap_terminates (c : FmapChan.Cfg) (tr : List FmapChan.Label) (s : FmapChan.State)
    (h : (FmapChan.lts c).run (FmapChan.init c) tr = some s) :
    tr.length + FmapChan.measure s ≤ FmapChan.measure (FmapChan.init c) :=
  Lts.run_length_le (FmapChan.lts c) (fun _ => True) FmapChan.measure (fun _ _ _ _ _ => trivial)
    (fun s l s' _ hs => FmapChan.measure_decreases c s s' l hs) tr _ s trivial h

/-- a complete run: two items through unbuffered channels, f = (· + 1) -/
example : ∃ s, (FmapChan.lts { items := [5, 7], cap := 0, f := (· + 1) }).run
      (FmapChan.init { items := [5, 7], cap := 0, f := (· + 1) })
      [.pSend, .cRecv, .pSend, .pClose, .cRecv, .fRecv, .fClose, .cRecv] = some s ∧
    s.got = [6, 8] ∧ s.seen = true := by
  refine ⟨_, rfl, ?_, ?_⟩ <;> decide

/-- … and a buffered one, mid-flight: one item received, one buffered in `out`, one held -/
example : ∃ s, (FmapChan.lts { items := [1, 2, 3], cap := 1, f := (· * 2) }).run
      (FmapChan.init { items := [1, 2, 3], cap := 1, f := (· * 2) })
      [.pSend, .fRecv, .fSend, .cRecv, .pSend, .fRecv, .fSend, .pSend, .fRecv] = some s ∧
    s.got = [2] ∧ s.out.buf = [4] ∧ s.pc = .send 6 := by
  refine ⟨_, rfl, ?_, ?_, ?_⟩ <;> decide

/-! ## Dup -/

theorem dup_delivery (c : Dup.Cfg) (s : Dup.State) (hr : (Dup.lts c).Reachable s) :
    c.items = s.got1 ++ s.o1.buf ++ Dup.held1 s.pc ++ s.inp.buf ++ s.pend ∧
    c.items = s.got2 ++ s.o2.buf ++ Dup.held2 s.pc ++ s.inp.buf ++ s.pend :=
  ⟨(Dup.inv_reachable c s hr).d1, (Dup.inv_reachable c s hr).d2⟩

theorem dup_exactly_once (c : Dup.Cfg) (s : Dup.State) (hr : (Dup.lts c).Reachable s) :
    (∃ r1 r2, c.items = s.got1 ++ r1 ∧ c.items = s.got2 ++ r2) ∧
    (Dup.final s → s.got1 = c.items ∧ s.got2 = c.items) := by
  have hi := Dup.inv_reachable c s hr
  refine ⟨⟨_, _, by rw [hi.d1]; simp only [List.append_assoc]; rfl, by rw [hi.d2]; simp only [List.append_assoc]; rfl⟩, ?_⟩
  intro hf
  obtain ⟨hc1, hb1⟩ := hi.sc1 hf.1
  obtain ⟨hc2, hb2⟩ := hi.sc2 hf.2
  have hpc := hi.oc2.mp hc2
  obtain ⟨hic, hib⟩ := hi.late (Or.inr (Or.inr hpc))
  have h1 := hi.d1
  have h2 := hi.d2
  rw [hb1, hpc, hib, hi.closedPend hic] at h1
  rw [hb2, hpc, hib, hi.closedPend hic] at h2
  exact ⟨by simpa [Dup.held1] using h1.symm, by simpa [Dup.held2] using h2.symm⟩

theorem dup_no_send_on_closed (c : Dup.Cfg) (s : Dup.State) (hr : (Dup.lts c).Reachable s) :
    s.panicked = false ∧ (∀ v, s.pc = .send1 v → s.o1.closed = false) ∧
    (∀ v, s.pc = .send2 v → s.o2.closed = false) := by
  have hi := Dup.inv_reachable c s hr
  refine ⟨hi.np, ?_, ?_⟩
  · intro v hv
    cases h : s.o1.closed
    · rfl
    · rcases hi.oc1.mp h with h' | h' <;> rw [hv] at h' <;> cases h'
  · intro v hv
    cases h : s.o2.closed
    · rfl
    · have := hi.oc2.mp h; rw [hv] at this; cases this

theorem dup_close_after_drained (c : Dup.Cfg) (s : Dup.State) (hr : (Dup.lts c).Reachable s) :
    ((s.o1.closed = true ∨ s.o2.closed = true) → s.inp.closed = true ∧ s.inp.buf = [] ∧ s.pend = [] ∧
        Dup.held2 s.pc = []) ∧
    (Dup.final s → s.o1.closed = true ∧ s.o2.closed = true) := by
  have hi := Dup.inv_reachable c s hr
  refine ⟨?_, fun hf => ⟨(hi.sc1 hf.1).1, (hi.sc2 hf.2).1⟩⟩
  intro h
  have hpc : s.pc = .close2 ∨ s.pc = .done := by
    rcases h with h | h
    · exact hi.oc1.mp h
    · exact Or.inr (hi.oc2.mp h)
  obtain ⟨hic, hib⟩ := hi.late (Or.inr hpc)
  refine ⟨hic, hib, hi.closedPend hic, ?_⟩
  rcases hpc with h' | h' <;> rw [h'] <;> rfl

theorem dup_progress (c : Dup.Cfg) (s : Dup.State) (hr : (Dup.lts c).Reachable s)
    (hnf : ¬ Dup.final s) : (Dup.lts c).Enabled s :=
  Dup.progress c s (Dup.inv_reachable c s hr) hnf

theorem dup_terminates_clean (c : Dup.Cfg) (s : Dup.State) (hr : (Dup.lts c).Reachable s)
    (hf : Dup.final s) : s.pc = .done := by
  have hi := Dup.inv_reachable c s hr
  exact hi.oc2.mp (hi.sc2 hf.2).1

theorem dup_terminates (c : Dup.Cfg) (tr : List Dup.Label) (s : Dup.State)
    (h : (Dup.lts c).run (Dup.init c) tr = some s) :
    tr.length + Dup.measure s ≤ Dup.measure (Dup.init c) :=
  Lts.run_length_le (Dup.lts c) (fun _ => True) Dup.measure (fun _ _ _ _ _ => trivial)
    (fun s l s' _ hs => Dup.measure_decreases c s s' l hs) tr _ s trivial h

example : ∃ s, (Dup.lts { items := [4, 9], cap := 1 }).run (Dup.init { items := [4, 9], cap := 1 })
      [.pSend, .dRecv, .dSend1, .pSend, .dSend2, .c2Recv, .dRecv, .c1Recv, .dSend1, .dSend2, .pClose,
       .dRecv, .dClose1, .c1Recv, .c1Recv, .dClose2, .c2Recv, .c2Recv] = some s ∧
    s.got1 = [4, 9] ∧ s.got2 = [4, 9] ∧ (s.seen1 = true ∧ s.seen2 = true) := by
  refine ⟨_, rfl, ?_, ?_, ?_⟩ <;> decide

/-! ## Join with a WaitGroup: `deriveJoin(<-chan <-chan T)` and `deriveJoin([]<-chan T)` -/

theorem joinwg_delivery (c : JoinWG.Cfg) (s : JoinWG.State) (hr : (JoinWG.lts c).Reachable s) :
    ∀ i, i < c.n →
      c.items i = gotOf s.got i ++ JoinWG.held (s.st i) ++ (s.ch i).buf ++ s.pend i :=
  (JoinWG.inv_reachable c s hr).1.deliv

theorem joinwg_exactly_once (c : JoinWG.Cfg) (s : JoinWG.State) (hr : (JoinWG.lts c).Reachable s) :
    (∀ i, i < c.n → ∃ rest, c.items i = gotOf s.got i ++ rest) ∧
    (∀ p, p ∈ s.got → p.1 < c.n) ∧
    (JoinWG.final s → ∀ i, i < c.n → c.seen i = false → gotOf s.got i = c.items i) := by
  have hi := (JoinWG.inv_reachable c s hr).1
  refine ⟨?_, JoinWG.tags_reachable c s hr, ?_⟩
  · intro i hin
    exact ⟨_, by rw [hi.deliv i hin]; simp only [List.append_assoc]; rfl⟩
  · intro hf i hin hns
    have hpc := hi.outCl.mp (hi.seenC hf)
    have hfin : s.st i = .finished := by
      rcases hi.allFin (Or.inr hpc) i hin with h | h
      · exact h
      · have := JoinWG.skipSeen_reachable c s hr i h; rw [hns] at this; cases this
    obtain ⟨hcl, hb⟩ := hi.drained i (Or.inr hfin)
    have hd := hi.deliv i hin
    rw [hfin, hb, hi.closedPend i hcl] at hd
    simpa [JoinWG.held] using hd.symm

/-- the `listening` bookkeeping: a position is skipped only if its channel already occurred at an earlier
position; with distinct inputs the skip never fires (the model then is the one without the bookkeeping) -/
theorem joinwg_listening (c : JoinWG.Cfg) (s : JoinWG.State) (hr : (JoinWG.lts c).Reachable s) :
    (∀ i, s.st i = .skipped → c.seen i = true) ∧
    ((∀ i, c.seen i = false) → ∀ i, s.st i ≠ .skipped) :=
  ⟨JoinWG.skipSeen_reachable c s hr, fun hd => JoinWG.distinct_never_skips c hd s hr⟩

/-- the WaitGroup counter always equals the number of live forwarders (+1 between `Add` and `go`):
this is what makes `Wait` a sound barrier, and it rests on `wait.Add(1)` preceding the `go` -/
theorem joinwg_waitgroup (c : JoinWG.Cfg) (s : JoinWG.State) (hr : (JoinWG.lts c).Reachable s) :
    s.wg = count (fun i => JoinWG.live (s.st i)) c.n + (if s.pc = .go then 1 else 0) :=
  (JoinWG.inv_reachable c s hr).1.wgc

theorem joinwg_no_send_on_closed (c : JoinWG.Cfg) (s : JoinWG.State) (hr : (JoinWG.lts c).Reachable s) :
    s.panicked = false ∧
    (s.outClosed = true → ∀ i, i < c.n → s.st i = .finished ∨ s.st i = .skipped) ∧
    (∀ i, (JoinWG.lts c).step s (.fSend i) = none) := by
  have hi := JoinWG.inv_reachable c s hr
  refine ⟨hi.1.np, fun h => hi.1.allFin (Or.inr (hi.1.outCl.mp h)), ?_⟩
  intro i
  cases h : (JoinWG.lts c).step s (.fSend i) with
  | none => rfl
  | some s' =>
    have hi' := JoinWG.inv_fSend c s s' i hi h
    -- the only `some` branch of fSend is the panic
    simp only [JoinWG.lts, JoinWG.step, hi.1.np, Bool.false_eq_true, if_false] at h
    (repeat' split at h) <;> (try cases h)
    exact absurd hi'.1.np (by simp)

theorem joinwg_close_after_drained (c : JoinWG.Cfg) (s : JoinWG.State) (hr : (JoinWG.lts c).Reachable s) :
    (s.outClosed = true → s.pc = .fin ∧ s.k = c.n ∧ s.orem = 0 ∧ s.obuf = 0 ∧
        ∀ i, i < c.n → c.seen i = false →
          (s.ch i).closed = true ∧ (s.ch i).buf = [] ∧ s.pend i = [] ∧ s.st i = .finished) ∧
    (JoinWG.final s → s.outClosed = true) := by
  have hi := (JoinWG.inv_reachable c s hr).1
  refine ⟨?_, fun hf => hi.seenC hf⟩
  intro h
  have hpc := hi.outCl.mp h
  have hk := hi.waitK (Or.inr (Or.inr hpc))
  have ho := hi.outer
  simp only [hpc] at ho
  simp at ho
  refine ⟨hpc, hk, by omega, by omega, ?_⟩
  intro i hin hns
  have hfin : s.st i = .finished := by
    rcases hi.allFin (Or.inr hpc) i hin with h | h
    · exact h
    · have := JoinWG.skipSeen_reachable c s hr i h; rw [hns] at this; cases this
  obtain ⟨hcl, hb⟩ := hi.drained i (Or.inr hfin)
  exact ⟨hcl, hb, hi.closedPend i hcl, hfin⟩

theorem joinwg_progress (c : JoinWG.Cfg) (s : JoinWG.State) (hr : (JoinWG.lts c).Reachable s)
    (hnf : ¬ JoinWG.final s) : (JoinWG.lts c).Enabled s :=
  JoinWG.progress c s (JoinWG.inv_reachable c s hr) (by simpa [JoinWG.final] using hnf)

theorem joinwg_terminates_clean (c : JoinWG.Cfg) (s : JoinWG.State) (hr : (JoinWG.lts c).Reachable s)
    (hf : JoinWG.final s) :
    s.pc = .fin ∧ s.wg = 0 ∧ (∀ i, i < c.n → s.st i = .finished ∨ s.st i = .skipped) ∧
    (∀ i, c.n ≤ i → s.st i = .absent) := by
  have hi := (JoinWG.inv_reachable c s hr).1
  have hpc := hi.outCl.mp (hi.seenC hf)
  have hall := hi.allFin (Or.inr hpc)
  have hk := hi.waitK (Or.inr (Or.inr hpc))
  refine ⟨hpc, ?_, hall, fun i h => (hi.abs i).mpr (by omega)⟩
  have hw := hi.wgc
  rw [count_all_false _ c.n (fun i hin => by rcases hall i hin with h | h <;> rw [h] <;> rfl), hpc] at hw
  simpa using hw

/-- termination under every schedule (both forms): each step strictly decreases `JoinWG.measure` -/
theorem joinwg_terminates (c : JoinWG.Cfg) (tr : List JoinWG.Label) (s : JoinWG.State)
    (h : (JoinWG.lts c).run (JoinWG.init c) tr = some s) :
    tr.length + JoinWG.measure c s ≤ JoinWG.measure c (JoinWG.init c) :=
  Lts.run_length_le (JoinWG.lts c) (JoinWG.Inv c) (JoinWG.measure c)
    (fun s l s' hi hs => JoinWG.inv_step c s s' l hi hs)
    (fun s l s' hi hs => JoinWG.measure_decreases c s s' l hi hs) tr _ s (JoinWG.inv_init c) h

/-- chan-of-chan form, two inner channels (one unbuffered, one buffered), a complete run in which the
second channel's item overtakes the first's -/
example : ∃ s, (JoinWG.lts { n := 2, items := fun i => if i = 0 then [10] else [20], cap := fun i => i,
                             chanForm := true, ocap := 0, seen := fun _ => false }).run
      (JoinWG.init { n := 2, items := fun i => if i = 0 then [10] else [20], cap := fun i => i,
                     chanForm := true, ocap := 0, seen := fun _ => false })
      [.pSend 1, .pClose 1, .oSend, .spAdd, .spGo, .oSend, .spAdd, .spGo, .oClose, .spNext,
       .fRecv 1, .cTake 1, .pSend 0, .cTake 0, .fRecv 1, .fDone 1, .pClose 0, .fRecv 0, .fDone 0,
       .spWait, .spClose, .cSeeClose] = some s ∧
    s.got = [(1, 20), (0, 10)] ∧ s.seen = true ∧ s.wg = 0 := by
  refine ⟨_, rfl, ?_, ?_, ?_⟩ <;> decide

/-- slice form, mid-flight: both forwarders spawned, the WaitGroup counter is 2, the spawner waits -/
example : ∃ s, (JoinWG.lts { n := 2, items := fun _ => [1], cap := fun _ => 0, chanForm := false, ocap := 0, seen := fun _ => false }).run
      (JoinWG.init { n := 2, items := fun _ => [1], cap := fun _ => 0, chanForm := false, ocap := 0, seen := fun _ => false })
      [.spAdd, .spGo, .spAdd, .spGo, .pSend 1] = some s ∧
    s.wg = 2 ∧ s.pc = .wait ∧ s.st 1 = .send 1 := by
  refine ⟨_, rfl, ?_, ?_, ?_⟩ <;> decide

/-- slice `[a, b, a]`: position 2 repeats channel a and is skipped (no Add, no forwarder); the items of a are
delivered in order by the single forwarder of position 0; the WaitGroup counts the two forwarders started -/
example : ∃ s, (JoinWG.lts { n := 3, items := fun i => if i = 0 then [1, 2] else if i = 1 then [7] else [],
                             cap := fun _ => 0, chanForm := false, ocap := 0, seen := fun i => i == 2 }).run
      (JoinWG.init { n := 3, items := fun i => if i = 0 then [1, 2] else if i = 1 then [7] else [],
                     cap := fun _ => 0, chanForm := false, ocap := 0, seen := fun i => i == 2 })
      [.spAdd, .spGo, .spAdd, .spGo, .pSend 0, .cTake 0, .pSend 1, .pSend 0, .cTake 0, .cTake 1, .pClose 0, .pClose 1,
       .fRecv 0, .fRecv 1, .fDone 1, .fDone 0, .spWait, .spClose, .cSeeClose] = some s ∧
    s.got = [(0, 1), (0, 2), (1, 7)] ∧ s.st 2 = .skipped ∧ s.seen = true ∧ s.wg = 0 := by
  refine ⟨_, rfl, ?_, ?_, ?_, ?_⟩ <;> decide

/-- chan-of-chan form, the outer channel carries channel a twice: the second occurrence is received and skipped -/
example : ∃ s, (JoinWG.lts { n := 2, items := fun i => if i = 0 then [5] else [], cap := fun _ => 1,
                             chanForm := true, ocap := 1, seen := fun i => i == 1 }).run
      (JoinWG.init { n := 2, items := fun i => if i = 0 then [5] else [], cap := fun _ => 1,
                     chanForm := true, ocap := 1, seen := fun i => i == 1 })
      [.oSend, .spNext, .oSend, .spAdd, .spGo, .spNext, .oClose, .spNext] = some s ∧
    s.pc = .wait ∧ s.st 1 = .skipped ∧ s.k = 2 ∧ s.wg = 1 := by
  refine ⟨_, rfl, ?_, ?_, ?_, ?_⟩ <;> decide

/-! ## Join with select: `deriveJoin(c0, c1, …)` -/

/-- `JoinSelect.eitems c i` = `c.items i`, except for a channel argument that is nil at run time (no items) -/
theorem joinsel_delivery (c : JoinSelect.Cfg) (s : JoinSelect.State) (hr : (JoinSelect.lts c).Reachable s) :
    ∀ i, i < c.n →
      JoinSelect.eitems c i = gotOf s.got i ++ JoinSelect.held s.pc i ++ (s.ch i).buf ++ s.pend i :=
  (JoinSelect.inv_reachable c s hr).deliv

theorem joinsel_exactly_once (c : JoinSelect.Cfg) (s : JoinSelect.State) (hr : (JoinSelect.lts c).Reachable s) :
    (∀ i, i < c.n → ∃ rest, JoinSelect.eitems c i = gotOf s.got i ++ rest) ∧
    (∀ p, p ∈ s.got → p.1 < c.n) ∧
    (JoinSelect.final s → ∀ i, i < c.n → gotOf s.got i = JoinSelect.eitems c i) := by
  have hi := JoinSelect.inv_reachable c s hr
  refine ⟨?_, JoinSelect.tags_reachable c s hr, ?_⟩
  · intro i hin
    exact ⟨_, by rw [hi.deliv i hin]; simp only [List.append_assoc]; rfl⟩
  · intro hf i hin
    have hpc := hi.outCl.mp (hi.seenC hf)
    have hdead := hi.lateDead (Or.inr hpc) i hin
    obtain ⟨hcl, hb⟩ := hi.dead i hin hdead
    have hd := hi.deliv i hin
    rw [hpc, hb, hi.closedPend i hcl] at hd
    simpa [JoinSelect.held] using hd.symm

theorem joinsel_no_send_on_closed (c : JoinSelect.Cfg) (s : JoinSelect.State)
    (hr : (JoinSelect.lts c).Reachable s) :
    s.panicked = false ∧ (∀ i v, s.pc = .send i v → s.outClosed = false) := by
  have hi := JoinSelect.inv_reachable c s hr
  refine ⟨hi.np, ?_⟩
  intro i v hp
  cases h : s.outClosed
  · rfl
  · have := hi.outCl.mp h; rw [hp] at this; cases this

theorem joinsel_close_after_drained (c : JoinSelect.Cfg) (s : JoinSelect.State)
    (hr : (JoinSelect.lts c).Reachable s) :
    (s.outClosed = true → s.pc = .done ∧
        ∀ i, i < c.n → s.liveIn i = false ∧ (s.ch i).closed = true ∧ (s.ch i).buf = [] ∧ s.pend i = []) ∧
    (JoinSelect.final s → s.outClosed = true) := by
  have hi := JoinSelect.inv_reachable c s hr
  refine ⟨?_, fun hf => hi.seenC hf⟩
  intro h
  have hpc := hi.outCl.mp h
  refine ⟨hpc, ?_⟩
  intro i hin
  have hdead := hi.lateDead (Or.inr hpc) i hin
  obtain ⟨hcl, hb⟩ := hi.dead i hin hdead
  exact ⟨hdead, hcl, hb, hi.closedPend i hcl⟩

theorem joinsel_progress (c : JoinSelect.Cfg) (s : JoinSelect.State) (hr : (JoinSelect.lts c).Reachable s)
    (hnf : ¬ JoinSelect.final s) : (JoinSelect.lts c).Enabled s :=
  JoinSelect.progress c s (JoinSelect.inv_reachable c s hr) (by simpa [JoinSelect.final] using hnf)

/-- `select` = any ready case: at the loop head EVERY live input that has an item buffered, or is closed, can be
served — the goroutine never commits to one input while another is ready (and an unbuffered producer is served by the
joint step `pSend i`) -/
theorem joinsel_serves_any_ready_input (c : JoinSelect.Cfg) (s : JoinSelect.State)
    (hr : (JoinSelect.lts c).Reachable s) (i : Nat) (hin : i < c.n) (hpc : s.pc = .sel) (hl : s.liveIn i = true)
    (hready : (s.ch i).buf ≠ [] ∨ (s.ch i).closed = true) :
    ((JoinSelect.lts c).step s (.sRecv i)).isSome = true := by
  have hnp := (JoinSelect.inv_reachable c s hr).np
  have hnle : ¬ c.n ≤ i := by omega
  cases hb : (s.ch i).buf with
  | cons v rest => simp [JoinSelect.lts, JoinSelect.step, hnp, hnle, hpc, hl, hb]
  | nil =>
    rcases hready with h | h
    · exact absurd hb h
    · simp [JoinSelect.lts, JoinSelect.step, hnp, hnle, hpc, hl, hb, h]

theorem joinsel_terminates_clean (c : JoinSelect.Cfg) (s : JoinSelect.State)
    (hr : (JoinSelect.lts c).Reachable s) (hf : JoinSelect.final s) : s.pc = .done := by
  have hi := JoinSelect.inv_reachable c s hr
  exact hi.outCl.mp (hi.seenC hf)

/-- termination under every schedule: each step strictly decreases `JoinSelect.measure` (the nil-ing of
a closed input is what pays for going round the select loop again) -/
theorem joinsel_terminates (c : JoinSelect.Cfg) (tr : List JoinSelect.Label) (s : JoinSelect.State)
    (h : (JoinSelect.lts c).run (JoinSelect.init c) tr = some s) :
    tr.length + JoinSelect.measure c s ≤ JoinSelect.measure c (JoinSelect.init c) :=
  Lts.run_length_le (JoinSelect.lts c) (JoinSelect.NilLive c) (JoinSelect.measure c)
    (fun s l s' hi hs => JoinSelect.nilLive_step c s s' l hi hs)
    (fun s l s' hi hs => JoinSelect.measure_decreases c s s' l hi hs) tr _ s
    (by
      intro i hpc
      simp only [JoinSelect.init] at hpc
      rcases JoinSelect.loopHead_cases c (fun i => !c.nilIn i) with h' | h' <;> rw [h'.1] at hpc <;> cases hpc) h

example : ∃ s, (JoinSelect.lts { n := 2, items := fun i => if i = 0 then [1, 2] else [7], cap := fun _ => 1 }).run
      (JoinSelect.init { n := 2, items := fun i => if i = 0 then [1, 2] else [7], cap := fun _ => 1 })
      [.pSend 0, .pSend 1, .sRecv 1, .cTake, .pClose 1, .sRecv 0, .cTake, .sRecv 1, .sNil, .pSend 0,
       .pClose 0, .sRecv 0, .cTake, .sRecv 0, .sNil, .sClose, .cSeeClose] = some s ∧
    s.got = [(1, 7), (0, 1), (0, 2)] ∧ s.seen = true ∧ s.liveIn 0 = false := by
  refine ⟨_, rfl, ?_, ?_, ?_⟩ <;> decide

/-- a nil channel argument: `deriveJoin(c0, nil)` — the goroutine never selects on it and closes the output once c0 is
closed and drained -/
example : ∃ s, (JoinSelect.lts { n := 2, items := fun i => if i = 0 then [4] else [], cap := fun _ => 0,
                                 nilIn := fun i => i == 1 }).run
      (JoinSelect.init { n := 2, items := fun i => if i = 0 then [4] else [], cap := fun _ => 0, nilIn := fun i => i == 1 })
      [.pSend 0, .cTake, .pClose 0, .sRecv 0, .sNil, .sClose, .cSeeClose] = some s ∧
    s.got = [(0, 4)] ∧ s.seen = true ∧ s.pc = .done := by
  refine ⟨_, rfl, ?_, ?_, ?_⟩ <;> decide

/-! ## Pipeline = (Fmap with a channel-valued function) feeding (Join of a channel of channels) -/

theorem pipeline_delivery (c : Pipeline.Cfg) (s : Pipeline.State) (hr : (Pipeline.lts c).Reachable s) :
    ∀ i, i < c.n →
      c.items i = gotOf s.j.got i ++ JoinWG.held (s.j.st i) ++ (s.j.ch i).buf ++ s.j.pend i :=
  joinwg_delivery (Pipeline.jcfg c) s.j (Pipeline.proj_reachable c s hr)

theorem pipeline_exactly_once (c : Pipeline.Cfg) (s : Pipeline.State) (hr : (Pipeline.lts c).Reachable s) :
    (∀ i, i < c.n → ∃ rest, c.items i = gotOf s.j.got i ++ rest) ∧
    (∀ p, p ∈ s.j.got → p.1 < c.n) ∧
    (Pipeline.final s → ∀ i, i < c.n → gotOf s.j.got i = c.items i) := by
  have h := joinwg_exactly_once (Pipeline.jcfg c) s.j (Pipeline.proj_reachable c s hr)
  exact ⟨h.1, h.2.1, fun hf i hin => h.2.2 hf i hin rfl⟩

theorem pipeline_no_send_on_closed (c : Pipeline.Cfg) (s : Pipeline.State) (hr : (Pipeline.lts c).Reachable s) :
    s.j.panicked = false ∧
    (s.j.outClosed = true → ∀ i, i < c.n → s.j.st i = .finished) ∧
    (s.j.oclosed = true ↔ s.mpc = .done) := by
  have h := joinwg_no_send_on_closed (Pipeline.jcfg c) s.j (Pipeline.proj_reachable c s hr)
  have hns := JoinWG.distinct_never_skips (Pipeline.jcfg c) (fun _ => rfl) s.j (Pipeline.proj_reachable c s hr)
  refine ⟨h.1, fun hc i hin => ?_, (Pipeline.pinv_reachable c s hr).1.l5⟩
  rcases h.2.1 hc i hin with h' | h'
  · exact h'
  · exact absurd h' (hns i)

theorem pipeline_close_after_drained (c : Pipeline.Cfg) (s : Pipeline.State) (hr : (Pipeline.lts c).Reachable s) :
    (s.j.outClosed = true → s.mpc = .done ∧ s.bclosed = true ∧ s.bbuf = 0 ∧ s.brem = 0 ∧ s.created = c.n ∧
        ∀ i, i < c.n → (s.j.ch i).closed = true ∧ (s.j.ch i).buf = [] ∧ s.j.pend i = [] ∧ s.j.st i = .finished) ∧
    (Pipeline.final s → s.j.outClosed = true) := by
  have hj := joinwg_close_after_drained (Pipeline.jcfg c) s.j (Pipeline.proj_reachable c s hr)
  obtain ⟨hl, hw, _⟩ := Pipeline.pinv_reachable c s hr
  refine ⟨?_, hj.2⟩
  intro h
  obtain ⟨hpc, hk, hrem, hbuf, hall⟩ := hj.1 h
  -- the spawner is past its loop, so it saw the middle channel closed: the stage-1 forwarder is done
  have hmid : s.j.oclosed = true :=
    JoinWG.waitClosed_reachable (Pipeline.jcfg c) s.j (Pipeline.proj_reachable c s hr) (Or.inr (Or.inr hpc))
  have hm := hl.l5.mp hmid
  obtain ⟨hbc, hbb⟩ := hl.l4 (Or.inr hm)
  have hbr := hl.l3 hbc
  have h1 := hl.l1
  exact ⟨hm, hbc, hbb, hbr, by omega, fun i hin => hall i hin rfl⟩

theorem pipeline_progress (c : Pipeline.Cfg) (s : Pipeline.State) (hr : (Pipeline.lts c).Reachable s)
    (hnf : ¬ Pipeline.final s) : (Pipeline.lts c).Enabled s :=
  Pipeline.progress c s (Pipeline.pinv_reachable c s hr) (by simpa [Pipeline.final] using hnf)

theorem pipeline_terminates_clean (c : Pipeline.Cfg) (s : Pipeline.State) (hr : (Pipeline.lts c).Reachable s)
    (hf : Pipeline.final s) :
    s.mpc = .done ∧ s.j.pc = .fin ∧ s.j.wg = 0 ∧ (∀ i, i < c.n → s.j.st i = .finished) := by
  have hj := joinwg_terminates_clean (Pipeline.jcfg c) s.j (Pipeline.proj_reachable c s hr) hf
  have hc := pipeline_close_after_drained c s hr
  have hns := JoinWG.distinct_never_skips (Pipeline.jcfg c) (fun _ => rfl) s.j (Pipeline.proj_reachable c s hr)
  refine ⟨(hc.1 (hc.2 hf)).1, hj.1, hj.2.1, fun i hin => ?_⟩
  rcases hj.2.2.1 i hin with h' | h'
  · exact h'
  · exact absurd h' (hns i)

/-- termination under every schedule: each step strictly decreases `Pipeline.measure` -/
theorem pipeline_terminates (c : Pipeline.Cfg) (tr : List Pipeline.Label) (s : Pipeline.State)
    (h : (Pipeline.lts c).run (Pipeline.init c) tr = some s) :
    tr.length + Pipeline.measure c s ≤ Pipeline.measure c (Pipeline.init c) :=
  Lts.run_length_le (Pipeline.lts c) (Pipeline.PInv c) (Pipeline.measure c)
    (fun s l s' hi hs => Pipeline.pinv_step c s s' l hi hs)
    (fun s l s' hi hs => Pipeline.measure_decreases c s s' l hi hs) tr _ s (Pipeline.pinv_init c) h

example : ∃ s, (Pipeline.lts { n := 2, bcap := 1, items := fun i => [10 * i + 1], cap := fun _ => 0 }).run
      (Pipeline.init { n := 2, bcap := 1, items := fun i => [10 * i + 1], cap := fun _ => 0 })
      [.bSend, .mRecv, .bSend, .mSend, .j .spNext, .j .spAdd, .j .spGo, .mRecv, .bClose, .mSend, .mRecv, .mClose,
       .j .spNext, .j .spAdd, .j .spGo, .j .spNext, .j (.pSend 1), .j (.cTake 1), .j (.pSend 0), .j (.cTake 0),
       .j (.pClose 0), .j (.pClose 1), .j (.fRecv 0), .j (.fRecv 1), .j (.fDone 1), .j (.fDone 0),
       .j .spWait, .j .spClose, .j .cSeeClose] = some s ∧
    s.j.got = [(1, 11), (0, 1)] ∧ s.j.seen = true ∧ s.mpc = .done := by
  refine ⟨_, rfl, ?_, ?_, ?_⟩ <;> decide

end Goderive.C19
