/-
Property C02, user-declared Equal methods.

"… where a named component declares its own Equal method the answer at that component is that
method's."

Models: `EqualM.top` / `EqualM.field` (S/Methods.lean: plugin/equal INCLUDING the dispatch to user
methods; this is what the compiled driver runs). Specifications: `Spec.structEqM` (component
semantics) and `Spec.structEqTopM` (the answer of the function generated for a type; differs from
`structEqM` only below a top-level pointer chain that ends in a named struct: that function compares
the struct's fields even when the struct declares a method, it is what the method delegates to).

Part 1, conservativity: on an environment without methods the M models and M specifications ARE the
plain ones, so every theorem of Props/C02.lean is a theorem about what the driver runs.
Part 2, the method clause: `EqualM.top = structEqTopM`, `EqualM.field = structEqM` on environments whose
declarations may have Equal methods (`SupportedM` / `SupportedCompM`, Lemmas/Methods.lean), with the one
place where the emitted code does NOT follow the component semantics shown as a counterexample. Map keys
are matched with `==` by the emitted code and by the specification alike (`Spec.valueAtM`).

Only theorems and non-vacuity examples live here. Proofs, `Env.flagsAgree`, `Env.flagsOkM`,
`Env.directWF`, `SupportedM`, `SupportedCompM` and the concrete world `MW` (`UE` with a pointer-receiver
Equal, `UV` with a value-receiver Equal, `Holder` containing them, `PT = *UE`) are in Lemmas/Methods.lean.
-/
import GoderiveModel.Lemmas.Methods
import GoderiveModel.Props.C02

set_option linter.unusedSimpArgs false

namespace Goderive.C02
open Goderive Val

/-! ### 1. Conservativity: without methods the M models are the plain models -/

/-- a method-free copy of `C02.env` whose `canEqM` flags are filled in (as the driver's `fixFlags` does) -/
def envN : Env := { decls := [
  { under := .struct (.fcons (.basic (.int 64 true)) (.fcons (.ptr (.named 0))
      (.fcons (.slice (.basic .string)) (.fcons (.map (.basic .string) (.named 1))
      (.fcons (.slice (.basic (.int 8 false))) .fnil))))), canEq := false, canEqM := false },
  { under := .struct (.fcons (.basic (.float 64)) (.fcons (.basic (.float 64)) .fnil)),
    canEq := true, canEqM := true } ] }

/-- `canEqual` as plugin/equal computes it is `derive.IsComparable` when the two cached flags of every
declaration agree (which is what the driver computes on a method-free environment). -/
theorem canEqualM_eq_canEqual (env : Env) (T : Ty) (ha : env.flagsAgree = true) :
    canEqualM env T = canEqual env T :=
  canEqualM_eq_canEqual_of_flagsAgree ha T

example : canEqualM envN (.array 3 (.named 1)) = true ∧ canEqual envN (.array 3 (.named 1)) = true ∧
    canEqualM envN (.named 0) = false := by decide

/-- The flags need not be ASSUMED to agree: on a method-free environment they agree as soon as each
satisfies its own equation (`flagsOk`, `flagsOkM`) and no declaration contains itself through arrays
and struct fields only (`rank` decreases along such references; Go rejects the other declarations as
"invalid recursive type"). -/
theorem flagsAgree_of_directWF (env : Env) (rank : Nat → Nat) (hn : env.noMethods = true)
    (hf : env.flagsOk = true) (hfM : env.flagsOkM = true) (hw : env.directWF rank) :
    env.flagsAgree = true :=
  Env.flagsAgree_of_directWF rank hn hf hfM hw

/-- `envN`: `Node` (rank 1) contains `Pt` (rank 0) directly only inside a map, `Pt` contains no name -/
example : envN.flagsAgree = true := by
  refine flagsAgree_of_directWF envN (fun i => 1 - i) (by decide) (by decide) (by decide) ?_
  intro i d hd j hj
  match i, hd with
  | 0, hd => cases hd; simp [directRefs] at hj
  | 1, hd => cases hd; simp [directRefs] at hj
  | n + 2, hd => simp [Env.decl?, envN] at hd

/-- The well-foundedness hypothesis is needed: for `type T struct{ x T }` both flag values solve the
flag equation, so the two caches may disagree although each is consistent. -/
example :
    let env : Env := { decls := [
      { under := .struct (.fcons (.named 0) .fnil), canEq := true, canEqM := false } ] }
    env.noMethods = true ∧ env.flagsOk = true ∧ env.flagsOkM = true ∧ env.flagsAgree = false := by
  decide

/-- **Conservativity of the model.** Without methods, the method-aware model of the function
generated for `T`, and of the expression emitted for a component of type `T`, are the plain models
(for ALL arguments, typed or not). -/
theorem equalM_eq_equal (env : Env) (T : Ty) (x y : Val)
    (hn : env.noMethods = true) (ha : env.flagsAgree = true) :
    EqualM.top env T x y = Equal.top env T x y ∧ EqualM.field env T x y = Equal.field env T x y :=
  ⟨(eqMConserv hn ha x).top T y, (eqMConserv hn ha x).field T y⟩

example : EqualM.top envN tNode x1 y1 = Equal.top envN tNode x1 y1 :=
  (equalM_eq_equal envN tNode x1 y1 (by decide) (by decide)).1

/-- … and so are the three loops (struct fields, elements, map entries). -/
theorem equalM_loops_eq_equal (env : Env) (T : Ty) (xs ys : Val)
    (hn : env.noMethods = true) (ha : env.flagsAgree = true) :
    EqualM.fields env T xs ys = Equal.fields env T xs ys ∧
    EqualM.elems env T xs ys = Equal.elems env T xs ys ∧
    EqualM.entries env T xs ys = Equal.entries env T xs ys :=
  ⟨(eqMConserv hn ha xs).fields T ys, (eqMConserv hn ha xs).elems T ys,
    (eqMConserv hn ha xs).entries T ys⟩

example : EqualM.entries envN (.named 1) m1 m2 = Equal.entries envN (.named 1) m1 m2 :=
  (equalM_loops_eq_equal envN (.named 1) m1 m2 (by decide) (by decide)).2.2

/-- **Conservativity of the specification**, component form (no typing needed). -/
theorem structEqM_eq_structEq (env : Env) (T : Ty) (x y : Val) (hn : env.noMethods = true) :
    Spec.structEqM env T x y = Spec.structEq env T x y :=
  structEqM_eq_structEq' hn T x y

example : Spec.structEqM envN tNode x1 y1 = Spec.structEq envN tNode x1 y1 :=
  structEqM_eq_structEq envN tNode x1 y1 (by decide)

/-- **Conservativity of the specification**, top-level form: without methods, comparing the fields
below a pointer to a named struct is what structural equality does anyway (no typing needed). -/
theorem structEqTopM_eq_structEq (env : Env) (T : Ty) (x y : Val) (hn : env.noMethods = true) :
    Spec.structEqTopM env T x y = Spec.structEq env T x y := by
  rw [structEqTopM_eq_structEqM_of_noMethods hn x T y, structEqM_eq_structEq env T x y hn]

example : Spec.structEqTopM envN (.ptr tNode) (.ptr 1 x1) (.ptr 2 y1) =
    Spec.structEq envN (.ptr tNode) (.ptr 1 x1) (.ptr 2 y1) :=
  structEqTopM_eq_structEq envN _ _ _ (by decide)

/-- **C02 main clause for what the driver runs**, on method-free environments: `equal_correct`
transferred along `equalM_eq_equal`. Every other theorem of Props/C02.lean transfers the same way. -/
theorem equalM_correct_noMethods (env : Env) (T : Ty) (x y : Val)
    (hn : env.noMethods = true) (ha : env.flagsAgree = true)
    (hf : env.flagsOk = true) (hx : hasType env T x = true) (hy : hasType env T y = true)
    (hs : Supported env T = true) :
    EqualM.top env T x y = .ok (Spec.structEq env T x y) := by
  rw [(equalM_eq_equal env T x y hn ha).1, equal_correct env T x y hf hx hy hs]

example : EqualM.top envN tNode x1 y1 = .ok true := by
  rw [equalM_correct_noMethods envN tNode x1 y1 (by decide) (by decide) (by decide)
    (by goderive_eval [envN, tNode, x1, node, leaf, pt])
    (by goderive_eval [envN, tNode, y1, node, leaf, pt]) (by decide)]
  goderive_eval [envN, tNode, x1, y1, node, leaf, pt]

/-- the component form, transferred likewise -/
theorem equalM_field_correct_noMethods (env : Env) (T : Ty) (x y : Val)
    (hn : env.noMethods = true) (ha : env.flagsAgree = true)
    (hf : env.flagsOk = true) (hx : hasType env T x = true) (hy : hasType env T y = true)
    (hs : SupportedComp env T = true) :
    EqualM.field env T x y = .ok (Spec.structEq env T x y) := by
  rw [(equalM_eq_equal env T x y hn ha).2, equal_field_correct env T x y hf hx hy hs]

example : EqualM.field envN tNode x1 z1 = .ok false := by
  rw [equalM_field_correct_noMethods envN tNode x1 z1 (by decide) (by decide) (by decide)
    (by goderive_eval [envN, tNode, x1, node, leaf, pt])
    (by goderive_eval [envN, tNode, z1, node, leaf, pt]) (by decide)]
  goderive_eval [envN, tNode, x1, z1, node, leaf, pt]

/-! ### 2. The method clause: environments WITH Equal methods -/

/-- **C02, method clause, the function generated for `T`.** On an environment whose declarations may
declare Equal methods, the function generated for a supported type returns — without panicking —
the verdict `structEqTopM`: structural, except that at every named component that declares an Equal
method the verdict is that method's. Hypotheses: both flag caches are consistent, the values are
typed, `SupportedM` (= `Supported` with `canEqualM` for `canEqual`; every method-bearing declaration
is a struct with a first field, which is what the corpus' methods read; no pointer to a named
pointer type in component position — see the counterexample below; map key types need no condition). -/
theorem equalM_top_correct (env : Env) (T : Ty) (x y : Val)
    (hf : env.flagsOk = true) (hfM : env.flagsOkM = true)
    (hx : hasType env T x = true) (hy : hasType env T y = true)
    (hs : SupportedM env T = true) :
    EqualM.top env T x y = .ok (Spec.structEqTopM env T x y) := by
  simp only [SupportedM, Bool.and_eq_true] at hs
  exact (equalMOK hf hfM hs.2 x).top T y hs.1 hx hy

/-- `hx` and `hy` differ in the second field of every `UE` / `UV` they contain (behind a pointer, by
value, in a slice, in a map value): the methods look at the first field only, so the emitted code
answers `true`, where plain structural equality says `false` … -/
example : EqualM.top MW.env MW.tHolder MW.hx MW.hy = .ok true ∧
    Spec.structEq MW.env MW.tHolder MW.hx MW.hy = false := by
  refine ⟨?_, MW.hx_hy_structEq⟩
  rw [equalM_top_correct MW.env MW.tHolder MW.hx MW.hy MW.env_flagsOk MW.env_flagsOkM MW.hx_typed
    MW.hy_typed MW.env_supported]
  goderive_evalM [MW.env, MW.tHolder, MW.hx, MW.hy, MW.holder, MW.ue, MW.uv, MW.ints, MW.i64]
/-- … and `false` when the field the method looks at differs. -/
example : EqualM.top MW.env MW.tHolder MW.hx MW.hz = .ok false := by
  rw [equalM_top_correct MW.env MW.tHolder MW.hx MW.hz MW.env_flagsOk MW.env_flagsOkM MW.hx_typed
    MW.hz_typed MW.env_supported]
  goderive_evalM [MW.env, MW.tHolder, MW.hx, MW.hz, MW.holder, MW.ue, MW.uv, MW.ints, MW.i64]
/-- The function generated for `*UE` itself compares the FIELDS of `UE` (it is what `UE`'s method
delegates to): `&UE{1,{1}}` vs `&UE{1,{9}}` is `false` at top level … -/
example : EqualM.top MW.env (.ptr MW.tUE) (.ptr 1 (MW.ue 1 (MW.ints 2 1)))
    (.ptr 3 (MW.ue 1 (MW.ints 4 9))) = .ok false := by
  rw [equalM_top_correct MW.env _ _ _ MW.env_flagsOk MW.env_flagsOkM
    (by goderive_eval [MW.env, MW.tUE, MW.ue, MW.ints, MW.i64])
    (by goderive_eval [MW.env, MW.tUE, MW.ue, MW.ints, MW.i64]) (by decide)]
  goderive_evalM [MW.env, MW.tUE, MW.ue, MW.ints, MW.i64]

/-- **C02, method clause, the expression emitted for a component of type `T`**: the component
semantics `structEqM`. -/
theorem equalM_field_correct (env : Env) (T : Ty) (x y : Val)
    (hf : env.flagsOk = true) (hfM : env.flagsOkM = true)
    (hx : hasType env T x = true) (hy : hasType env T y = true)
    (hs : SupportedCompM env T = true) :
    EqualM.field env T x y = .ok (Spec.structEqM env T x y) := by
  simp only [SupportedCompM, Bool.and_eq_true] at hs
  exact (equalMOK hf hfM hs.2 x).field T y hs.1 hx hy

/-- … while as a COMPONENT the same two `*UE` are equal: the method is called. -/
example : EqualM.field MW.env (.ptr MW.tUE) (.ptr 1 (MW.ue 1 (MW.ints 2 1)))
    (.ptr 3 (MW.ue 1 (MW.ints 4 9))) = .ok true := by
  rw [equalM_field_correct MW.env _ _ _ MW.env_flagsOk MW.env_flagsOkM
    (by goderive_eval [MW.env, MW.tUE, MW.ue, MW.ints, MW.i64])
    (by goderive_eval [MW.env, MW.tUE, MW.ue, MW.ints, MW.i64]) (by decide)]
  goderive_evalM [MW.env, MW.tUE, MW.ue, MW.ints, MW.i64]
example : EqualM.field MW.env MW.tHolder MW.hx MW.hy = .ok true := by
  rw [equalM_field_correct MW.env MW.tHolder MW.hx MW.hy MW.env_flagsOk MW.env_flagsOkM MW.hx_typed
    MW.hy_typed MW.env_supportedComp, MW.hx_hy_structEqM]

/-- **"the answer at that component is that method's"**, literally: at a named type that declares
an Equal method both the emitted expression and the generated function are a call of the method
(`userEqVal` is the semantics of the corpus' methods: `this.A == that.A`), it does not panic on typed
values, and it is the specification's verdict. -/
theorem equalM_at_method (env : Env) (T : Ty) (u : UserFn) (x y : Val)
    (hM : env.eqM? T = some u) (he : EqualM.envOk env = true)
    (hx : hasType env T x = true) (hy : hasType env T y = true) :
    EqualM.field env T x y = userEqVal x y ∧ EqualM.top env T x y = userEqVal x y ∧
    userEqVal x y = .ok (Spec.structEqM env T x y) := by
  refine ⟨EqualM.field_method hM x y, ?_, EqualM.userEqVal_spec he hM hx hy⟩
  obtain ⟨F, rest, hU⟩ := EqualM.eqM?_some_inv he hM
  have hn : T.isNamed = true := by
    cases T <;> first | rfl | cases hM
  exact EqualM.top_struct_method hU hn hM x y

example : EqualM.top MW.env MW.tUE (MW.ue 1 (MW.ints 2 1)) (MW.ue 1 .nilv) = .ok true := by
  have h := equalM_at_method MW.env MW.tUE .ptr (MW.ue 1 (MW.ints 2 1)) (MW.ue 1 .nilv) (by decide)
    (by decide) (by goderive_eval [MW.env, MW.tUE, MW.ue, MW.ints, MW.i64])
    (by goderive_eval [MW.env, MW.tUE, MW.ue, MW.ints, MW.i64])
  rw [h.2.1]; decide

/-- A `canEqualM` type contains no component with an Equal method (a declaration with a method is
never `canEqualM`), so there Go's `==` — which the emitted code uses — is the component semantics. This
is the key lemma of the method clause. -/
theorem goEq_eq_structEqM (env : Env) (T : Ty) (x y : Val)
    (hf : env.flagsOk = true) (hfM : env.flagsOkM = true)
    (hc : canEqualM env T = true) (hx : hasType env T x = true) :
    goEq x y = Spec.structEqM env T x y :=
  Goderive.goEq_eq_structEqM hf hfM y hc hx

/-- `UV` is comparable with `==` in Go but NOT `canEqualM` (it has a method); `[2]int64` is -/
example : canEqual MW.env MW.tUV = true ∧ canEqualM MW.env MW.tUV = false ∧
    goEq (.arr (.scons (.int 1) (.scons (.int 2) .snil))) (.arr (.scons (.int 1) (.scons (.int 2) .snil))) =
      Spec.structEqM MW.env (.array 2 MW.i64) (.arr (.scons (.int 1) (.scons (.int 2) .snil)))
        (.arr (.scons (.int 1) (.scons (.int 2) .snil))) :=
  ⟨by decide, by decide, goEq_eq_structEqM MW.env _ _ _ MW.env_flagsOk MW.env_flagsOkM (by decide)
    (by goderive_eval [MW.env, MW.i64])⟩

/-- The function generated for `T` and the expression emitted for a component of type `T` agree
unless `T` is a pointer type ("treats a component the same whether it is compared at top level or as
a field", with methods). -/
theorem equalM_field_eq_top (env : Env) (T : Ty) (x y : Val)
    (hf : env.flagsOk = true) (hfM : env.flagsOkM = true)
    (hx : hasType env T x = true) (hy : hasType env T y = true)
    (hs : SupportedCompM env T = true) (hp : ∀ R, env.under T ≠ .ptr R) :
    EqualM.field env T x y = EqualM.top env T x y := by
  have hs' : SupportedM env T = true := by
    simp only [SupportedCompM, SupportedM, Bool.and_eq_true] at hs ⊢
    exact ⟨EqualM.okTop_of_okComp hs.1, hs.2⟩
  rw [equalM_field_correct env T x y hf hfM hx hy hs, equalM_top_correct env T x y hf hfM hx hy hs',
    structEqTopM_not_ptr hp]

example : EqualM.field MW.env MW.tHolder MW.hx MW.hy = EqualM.top MW.env MW.tHolder MW.hx MW.hy :=
  equalM_field_eq_top MW.env MW.tHolder MW.hx MW.hy MW.env_flagsOk MW.env_flagsOkM MW.hx_typed
    MW.hy_typed MW.env_supportedComp (by intro R h; cases h)

/-! ### 3. Map keys, and where the emitted code does not follow the component semantics -/

/-- **Map keys are looked up with `==`, never with the key type's Equal method** — by the emitted code
(`that[k]`) and by the specification (`Spec.valueAtM` matches keys with the method-free `structEq`: the
key set of a Go map is determined by `==`). `map[UV]int64{{1,"a"}: 0}` vs `map[UV]int64{{1,"b"}: 0}`:
`UV.Equal` would call the two keys equal (it looks at `A` only), yet the maps are different; a map type
with a method-bearing key type is supported and covered by `equalM_field_correct`. -/
example :
    let T : Ty := .map MW.tUV MW.i64
    let x : Val := .map 1 (.scons (.pair (MW.uv 1 [97]) (.int 0)) .snil)
    let y : Val := .map 2 (.scons (.pair (MW.uv 1 [98]) (.int 0)) .snil)
    hasType MW.env T x = true ∧ hasType MW.env T y = true ∧ SupportedCompM MW.env T = true ∧
      EqualM.field MW.env T x y = .ok false ∧ Spec.structEqM MW.env T x y = false ∧
      EqualM.field MW.env T x x = .ok true := by
  have tx : hasType MW.env (.map MW.tUV MW.i64)
      (.map 1 (.scons (.pair (MW.uv 1 [97]) (.int 0)) .snil)) = true := by
    goderive_eval [MW.env, MW.tUV, MW.uv, MW.i64]
  have ty : hasType MW.env (.map MW.tUV MW.i64)
      (.map 2 (.scons (.pair (MW.uv 1 [98]) (.int 0)) .snil)) = true := by
    goderive_eval [MW.env, MW.tUV, MW.uv, MW.i64]
  have hxy : Spec.structEqM MW.env (.map MW.tUV MW.i64)
      (.map 1 (.scons (.pair (MW.uv 1 [97]) (.int 0)) .snil))
      (.map 2 (.scons (.pair (MW.uv 1 [98]) (.int 0)) .snil)) = false := by
    goderive_evalM [MW.env, MW.tUV, MW.uv, MW.i64]
  refine ⟨tx, ty, by decide, ?_, hxy, ?_⟩
  · rw [equalM_field_correct MW.env _ _ _ MW.env_flagsOk MW.env_flagsOkM tx ty (by decide), hxy]
  · rw [equalM_field_correct MW.env _ _ _ MW.env_flagsOk MW.env_flagsOkM tx tx (by decide)]
    goderive_evalM [MW.env, MW.tUV, MW.uv, MW.i64]

/-! The exclusion of `SupportedCompM` that remains is necessary: a typed input on which `EqualM.field`
(the emitted code) and `structEqM` ("the answer at a component with a method is the method's")
disagree. -/

/-- **A pointer to a NAMED POINTER type** (`*PT`, `type PT *UE`) in component position: the emitted
code calls the function generated for `*PT`, which walks down to `UE` and compares its fields, although
`UE` declares an Equal method. At top level this is `structEqTopM` (and `equalM_top_correct` covers it);
as a component it is not the component semantics. -/
example :
    let T : Ty := .ptr MW.tPT
    let x : Val := .ptr 1 (.ptr 2 (MW.ue 1 (MW.ints 3 1)))
    let y : Val := .ptr 4 (.ptr 5 (MW.ue 1 (MW.ints 6 9)))
    hasType MW.env T x = true ∧ hasType MW.env T y = true ∧
      SupportedCompM MW.env T = false ∧ SupportedM MW.env T = true ∧
      EqualM.field MW.env T x y = .ok false ∧ Spec.structEqM MW.env T x y = true ∧
      EqualM.top MW.env T x y = .ok false ∧ Spec.structEqTopM MW.env T x y = false := by
  refine ⟨?_, ?_, by decide, by decide, ?_, ?_, ?_, ?_⟩
  · goderive_eval [MW.env, MW.tPT, MW.ue, MW.ints, MW.i64]
  · goderive_eval [MW.env, MW.tPT, MW.ue, MW.ints, MW.i64]
  · equalM_eval [MW.env, MW.tPT, MW.ue, MW.ints, MW.i64]
  · goderive_evalM [MW.env, MW.tPT, MW.ue, MW.ints, MW.i64]
  · equalM_eval [MW.env, MW.tPT, MW.ue, MW.ints, MW.i64]
  · goderive_evalM [MW.env, MW.tPT, MW.ue, MW.ints, MW.i64]

end Goderive.C02
