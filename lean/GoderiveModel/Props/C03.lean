/-
C03. For every supported type and NaN-free values, derived Compare returns only -1, 0 or +1, is
antisymmetric and transitive, and returns 0 exactly when derived Equal holds. Two values that Equal
distinguishes and that differ in a single leaf, or in the nil-ness of a single pointer, slice or map,
are ordered by that difference in the natural way (false<true, numeric <, byte-wise strings, real
before imaginary part, nil first).

Shape of the formalisation:
* `compare_correct`: the MODEL of the emitted code (`Compare.top`, type-directed, may panic) equals
  the value-directed SPECIFICATION `Spec.cmpVal` on typed values of a supported type;
* the order properties are proved of the specification (`cmpVal_*`) and transported to the model
  (`compare_*`);
* "derived Equal holds" is `Spec.structEq` (the specification that C02 proves `Equal.top` computes).
-/
import GoderiveModel.Lemmas.Compare

namespace Goderive.C03
open Goderive Val Spec Cmp

/-! ## example data (used by the non-vacuity examples below) -/

/-- `type Node struct { N int64; Next *Node; Tags []string; M map[string]Pt; Z complex128; B bool;
A [2]uint8 }` (declaration 0) and `type Pt struct { X, Y float64 }` (declaration 1) -/
def env : Env := { decls := [
  { under := .struct (.fcons (.basic (.int 64 true)) (.fcons (.ptr (.named 0))
      (.fcons (.slice (.basic .string)) (.fcons (.map (.basic .string) (.named 1))
      (.fcons (.basic (.complex 128)) (.fcons (.basic .bool)
      (.fcons (.array 2 (.basic (.int 8 false))) .fnil))))))), canEq := false },
  { under := .struct (.fcons (.basic (.float 64)) (.fcons (.basic (.float 64)) .fnil)),
    canEq := true } ] }

def tNode : Ty := .named 0
def tPt : Ty := .named 1

-- IEEE-754 binary64 bit patterns
def f0 : Nat := 0                          -- +0.0
def fm0 : Nat := 9223372036854775808       -- -0.0
def f1 : Nat := 4607182418800017408        -- 1.0
def f2 : Nat := 4611686018427387904        -- 2.0
def fm1 : Nat := 13830554455654793216      -- -1.0
def fnan : Nat := 9221120237041090560      -- NaN

def pt (a b : Nat) : Val := .struct (.scons (.flt 64 a) (.scons (.flt 64 b) .snil))

def node (n : Int) (next tags m : Val) (re im : Nat) (b : Bool) (a0 a1 : Int) : Val :=
  .struct (.scons (.int n) (.scons next (.scons tags (.scons m (.scons (.cplx 64 re im)
    (.scons (.bool b) (.scons (.arr (.scons (.int a0) (.scons (.int a1) .snil))) .snil)))))))

def leaf : Val := node 2 .nilv .nilv .nilv f0 f0 false 0 0

def hi : Val := .str [104, 105]
def ka : Val := .str [97]
def kb : Val := .str [98]

/-- N=1, Next=&leaf, Tags=["hi"], M={"a":(1,2), "b":(0,-0)}, Z=1+2i, B=false, A=[1,2] -/
def x1 : Val := node 1 (.ptr 10 leaf) (.slice 11 3 (.scons hi .snil))
  (.map 12 (.scons (.pair ka (pt f1 f2)) (.scons (.pair kb (pt f0 fm0)) .snil))) f1 f2 false 1 2

/-- as `x1` with other addresses and capacity, the other map insertion order, `+0`/`-0` swapped -/
def y1 : Val := node 1 (.ptr 20 leaf) (.slice 21 0 (.scons hi .snil))
  (.map 22 (.scons (.pair kb (pt fm0 f0)) (.scons (.pair ka (pt f1 f2)) .snil))) f1 f2 false 1 2

/-- as `x1` but `M["b"].Y = 1.0` (a single float leaf inside a map value differs) -/
def z1 : Val := node 1 (.ptr 10 leaf) (.slice 11 3 (.scons hi .snil))
  (.map 12 (.scons (.pair ka (pt f1 f2)) (.scons (.pair kb (pt f0 f1)) .snil))) f1 f2 false 1 2

/-- as `x1` but `Next = nil` (the nil-ness of a single pointer differs) -/
def w1 : Val := node 1 .nilv (.slice 11 3 (.scons hi .snil))
  (.map 12 (.scons (.pair ka (pt f1 f2)) (.scons (.pair kb (pt f0 fm0)) .snil))) f1 f2 false 1 2

theorem env_flagsOk : env.flagsOk = true := by decide
theorem env_supported : SupportedCmp env tNode = true := by decide
theorem x1_typed : hasType env tNode x1 = true := by
  ty_eval [tNode, x1, leaf, node, pt, hi, ka, kb, f0, fm0, f1, f2, env]
theorem y1_typed : hasType env tNode y1 = true := by
  ty_eval [tNode, y1, leaf, node, pt, hi, ka, kb, f0, fm0, f1, f2, env]
theorem z1_typed : hasType env tNode z1 = true := by
  ty_eval [tNode, z1, leaf, node, pt, hi, ka, kb, f0, fm0, f1, f2, env]
theorem w1_typed : hasType env tNode w1 = true := by
  ty_eval [tNode, w1, leaf, node, pt, hi, ka, kb, f0, fm0, f1, f2, env]
theorem x1_nanFree : nanFree x1 = true := by decide
theorem y1_nanFree : nanFree y1 = true := by decide
theorem z1_nanFree : nanFree z1 = true := by decide
theorem w1_nanFree : nanFree w1 = true := by decide
theorem x1_y1 : Spec.cmpVal x1 y1 = 0 := by
  cmp_eval [x1, y1, leaf, node, pt, hi, ka, kb, f0, fm0, f1, f2]
theorem x1_z1 : Spec.cmpVal x1 z1 = -1 := by
  cmp_eval [x1, z1, leaf, node, pt, hi, ka, kb, f0, fm0, f1, f2]
theorem y1_z1 : Spec.cmpVal y1 z1 = -1 := by
  cmp_eval [y1, z1, leaf, node, pt, hi, ka, kb, f0, fm0, f1, f2]
theorem w1_x1 : Spec.cmpVal w1 x1 = -1 := by
  cmp_eval [w1, x1, leaf, node, pt, hi, ka, kb, f0, fm0, f1, f2]

/-! ## 1. the emitted code computes the specification and never panics -/

/-- The function emitted for a supported type `T` computes the lexicographic order `Spec.cmpVal` on
typed values; in particular it never panics. (`env.flagsOk` is not needed for this one.) -/
theorem compare_correct {env : Env} {T : Ty} {x y : Val} (_hf : env.flagsOk = true)
    (hx : hasType env T x = true) (hy : hasType env T y = true)
    (hs : SupportedCmp env T = true) :
    Compare.top env T x y = .ok (Spec.cmpVal x y) := by
  simp only [SupportedCmp, Bool.and_eq_true] at hs
  exact top_correct hs.2 x T y hx hy hs.1


/-- the emitted `deriveCompare(x1, z1)` returns -1 (all hypotheses hold for the example data) -/
example : Compare.top env tNode x1 z1 = .ok (-1) := by
  rw [compare_correct env_flagsOk x1_typed z1_typed env_supported, x1_z1]
example : Compare.top env tNode x1 y1 = .ok 0 := by
  rw [compare_correct env_flagsOk x1_typed y1_typed env_supported, x1_y1]

/-- In component position the generator emits a call to the helper of the component type. -/
theorem compare_field_eq_top {env : Env} {T : Ty} (hs : SupportedCmp env T = true) (x y : Val) :
    Compare.field env T x y = Compare.top env T x y := by
  simp only [SupportedCmp, Bool.and_eq_true] at hs
  exact field_eq_top hs.1 x y


example : Compare.field env tNode x1 z1 = .ok (-1) := by
  rw [compare_field_eq_top env_supported,
    compare_correct env_flagsOk x1_typed z1_typed env_supported, x1_z1]
/-- the hypothesis matters: for an unnamed struct nothing is emitted (`panic`) -/
example : SupportedCmp env (.struct (.fcons (.basic .bool) .fnil)) = false ∧
    Compare.top env (.struct (.fcons (.basic .bool) .fnil))
      (.struct (.scons (.bool true) .snil)) (.struct (.scons (.bool true) .snil)) = .panic := by
  refine ⟨by decide, ?_⟩
  rw [Compare.top.eq_def]; simp [Env.under, Ty.isNamed]

/-! ## 2. range -/

/-- The specification only returns -1, 0 or +1 (for arbitrary values). -/
theorem cmpVal_range (x y : Val) :
    Spec.cmpVal x y = -1 ∨ Spec.cmpVal x y = 0 ∨ Spec.cmpVal x y = 1 :=
  tri_cmpVal x y


example : Spec.cmpVal x1 z1 = -1 ∧ Spec.cmpVal x1 y1 = 0 ∧ Spec.cmpVal z1 x1 = 1 := by
  refine ⟨x1_z1, x1_y1, ?_⟩
  cmp_eval [x1, z1, leaf, node, pt, hi, ka, kb, f0, fm0, f1, f2]

/-- Derived Compare returns -1, 0 or +1. -/
theorem compare_range {env : Env} {T : Ty} {x y : Val} (hf : env.flagsOk = true)
    (hx : hasType env T x = true) (hy : hasType env T y = true)
    (hs : SupportedCmp env T = true) :
    Compare.top env T x y = .ok (-1) ∨ Compare.top env T x y = .ok 0 ∨
      Compare.top env T x y = .ok 1 := by
  rw [compare_correct hf hx hy hs]
  rcases cmpVal_range x y with h | h | h <;> simp [h]


example : Compare.top env tNode w1 x1 = .ok (-1) ∨ Compare.top env tNode w1 x1 = .ok 0 ∨
    Compare.top env tNode w1 x1 = .ok 1 :=
  compare_range env_flagsOk w1_typed x1_typed env_supported

/-! ## 3. antisymmetry and transitivity -/

/-- Swapping the arguments negates the result. -/
theorem cmpVal_antisymm {env : Env} {T : Ty} {x y : Val} (hf : env.flagsOk = true)
    (hx : hasType env T x = true) (hy : hasType env T y = true)
    (nx : nanFree x = true) (ny : nanFree y = true) :
    Spec.cmpVal y x = - Spec.cmpVal x y :=
  antiOK hf x T y hx hy nx ny


example : Spec.cmpVal z1 x1 = 1 := by
  rw [cmpVal_antisymm env_flagsOk x1_typed z1_typed x1_nanFree z1_nanFree, x1_z1]; rfl
/-- NaN-freeness matters: a NaN compares +1 in both directions -/
example : Spec.cmpVal (pt fnan f0) (pt f0 f0) = 1 ∧ Spec.cmpVal (pt f0 f0) (pt fnan f0) = 1 := by
  constructor <;> cmp_eval [pt, fnan, f0]

/-- `≤` is transitive. -/
theorem cmpVal_trans {env : Env} {T : Ty} {x y z : Val} (hf : env.flagsOk = true)
    (hx : hasType env T x = true) (hy : hasType env T y = true) (hz : hasType env T z = true)
    (nx : nanFree x = true) (ny : nanFree y = true) (nz : nanFree z = true)
    (h1 : Spec.cmpVal x y ≤ 0) (h2 : Spec.cmpVal y z ≤ 0) : Spec.cmpVal x z ≤ 0 :=
  (transOK hf x T y z hx hy hz nx ny nz).le (tri_cmpVal ..) (tri_cmpVal ..) h1 h2


/-- `w1 < x1 ≤ y1`, hence `w1 ≤ y1` -/
example : Spec.cmpVal w1 y1 ≤ 0 :=
  cmpVal_trans env_flagsOk w1_typed x1_typed y1_typed w1_nanFree x1_nanFree y1_nanFree
    (by rw [w1_x1]; decide) (by rw [x1_y1]; decide)

/-- `<` is transitive, also when mixed with `≤`. -/
theorem cmpVal_trans_lt {env : Env} {T : Ty} {x y z : Val} (hf : env.flagsOk = true)
    (hx : hasType env T x = true) (hy : hasType env T y = true) (hz : hasType env T z = true)
    (nx : nanFree x = true) (ny : nanFree y = true) (nz : nanFree z = true) :
    (Spec.cmpVal x y < 0 → Spec.cmpVal y z ≤ 0 → Spec.cmpVal x z < 0) ∧
    (Spec.cmpVal x y ≤ 0 → Spec.cmpVal y z < 0 → Spec.cmpVal x z < 0) :=
  ⟨(transOK hf x T y z hx hy hz nx ny nz).lt_of_lt_of_le (tri_cmpVal ..) (tri_cmpVal ..),
   (transOK hf x T y z hx hy hz nx ny nz).lt_of_le_of_lt (tri_cmpVal ..) (tri_cmpVal ..)⟩


/-- `x1 ≤ y1 < z1`, hence `x1 < z1` -/
example : Spec.cmpVal x1 z1 < 0 :=
  (cmpVal_trans_lt env_flagsOk x1_typed y1_typed z1_typed x1_nanFree y1_nanFree z1_nanFree).2
    (by rw [x1_y1]; decide) (by rw [y1_z1]; decide)

/-- Values that compare 0 are interchangeable on either side of a comparison. -/
theorem cmpVal_congr {env : Env} {T : Ty} {x y z : Val} (hf : env.flagsOk = true)
    (hx : hasType env T x = true) (hy : hasType env T y = true) (hz : hasType env T z = true)
    (nx : nanFree x = true) (ny : nanFree y = true) (nz : nanFree z = true) :
    (Spec.cmpVal x y = 0 → Spec.cmpVal x z = Spec.cmpVal y z) ∧
    (Spec.cmpVal y z = 0 → Spec.cmpVal x z = Spec.cmpVal x y) :=
  ⟨(transOK hf x T y z hx hy hz nx ny nz).eqL, (transOK hf x T y z hx hy hz nx ny nz).eqR⟩


example : Spec.cmpVal x1 z1 = Spec.cmpVal y1 z1 :=
  (cmpVal_congr env_flagsOk x1_typed y1_typed z1_typed x1_nanFree y1_nanFree z1_nanFree).1 x1_y1

/-- Derived Compare is antisymmetric. -/
theorem compare_antisymm {env : Env} {T : Ty} {x y : Val} {c : Int} (hf : env.flagsOk = true)
    (hx : hasType env T x = true) (hy : hasType env T y = true)
    (nx : nanFree x = true) (ny : nanFree y = true) (hs : SupportedCmp env T = true)
    (h : Compare.top env T x y = .ok c) : Compare.top env T y x = .ok (-c) := by
  rw [compare_correct hf hx hy hs] at h
  rw [compare_correct hf hy hx hs, cmpVal_antisymm hf hx hy nx ny]
  cases h; rfl


example : Compare.top env tNode z1 x1 = .ok 1 :=
  compare_antisymm env_flagsOk x1_typed z1_typed x1_nanFree z1_nanFree env_supported
    (by rw [compare_correct env_flagsOk x1_typed z1_typed env_supported, x1_z1])

/-- Derived Compare is transitive. -/
theorem compare_trans {env : Env} {T : Ty} {x y z : Val} {c d : Int} (hf : env.flagsOk = true)
    (hx : hasType env T x = true) (hy : hasType env T y = true) (hz : hasType env T z = true)
    (nx : nanFree x = true) (ny : nanFree y = true) (nz : nanFree z = true)
    (hs : SupportedCmp env T = true)
    (h1 : Compare.top env T x y = .ok c) (h2 : Compare.top env T y z = .ok d)
    (hc : c ≤ 0) (hd : d ≤ 0) :
    ∃ e, Compare.top env T x z = .ok e ∧ e ≤ 0 ∧ (c < 0 ∨ d < 0 → e < 0) := by
  rw [compare_correct hf hx hy hs] at h1
  rw [compare_correct hf hy hz hs] at h2
  cases h1; cases h2
  refine ⟨_, compare_correct hf hx hz hs, cmpVal_trans hf hx hy hz nx ny nz hc hd, ?_⟩
  have := cmpVal_trans_lt hf hx hy hz nx ny nz
  rintro (h | h)
  · exact this.1 h hd
  · exact this.2 hc h


example : ∃ e, Compare.top env tNode w1 y1 = .ok e ∧ e ≤ 0 ∧ (-1 < (0 : Int) ∨ (0 : Int) < 0 → e < 0) :=
  compare_trans env_flagsOk w1_typed x1_typed y1_typed w1_nanFree x1_nanFree y1_nanFree
    env_supported
    (by rw [compare_correct env_flagsOk w1_typed x1_typed env_supported, w1_x1])
    (by rw [compare_correct env_flagsOk x1_typed y1_typed env_supported, x1_y1])
    (by decide) (by decide)

/-! ## 4. Compare returns 0 exactly when Equal holds -/

/-- The specification returns 0 exactly on structurally equal values. -/
theorem cmpVal_zero_iff_structEq {env : Env} {T : Ty} {x y : Val} (hf : env.flagsOk = true)
    (hx : hasType env T x = true) (hy : hasType env T y = true)
    (nx : nanFree x = true) (ny : nanFree y = true) :
    Spec.cmpVal x y = 0 ↔ Spec.structEq env T x y = true :=
  zeroOK hf x T y hx hy nx ny


/-- `x1` and `y1` (other addresses, other map order, `+0` vs `-0`) are structurally equal -/
example : Spec.structEq env tNode x1 y1 = true :=
  (cmpVal_zero_iff_structEq env_flagsOk x1_typed y1_typed x1_nanFree y1_nanFree).1 x1_y1
/-- and directly, without the theorem -/
example : Spec.structEq env tNode x1 y1 = true := by
  cmp_eval [tNode, env, x1, y1, leaf, node, pt, hi, ka, kb, f0, fm0, f1, f2]
/-- `x1` and `z1` are not -/
example : Spec.structEq env tNode x1 z1 = false := by
  have h := cmpVal_zero_iff_structEq env_flagsOk x1_typed z1_typed x1_nanFree z1_nanFree
  rw [x1_z1] at h
  cases hh : Spec.structEq env tNode x1 z1
  · rfl
  · exact absurd (h.2 hh) (by decide)

/-- Derived Compare returns 0 exactly when the values are structurally equal (= derived Equal,
by C02). -/
theorem compare_zero_iff_structEq {env : Env} {T : Ty} {x y : Val} (hf : env.flagsOk = true)
    (hx : hasType env T x = true) (hy : hasType env T y = true)
    (nx : nanFree x = true) (ny : nanFree y = true) (hs : SupportedCmp env T = true) :
    Compare.top env T x y = .ok 0 ↔ Spec.structEq env T x y = true := by
  rw [compare_correct hf hx hy hs, ← cmpVal_zero_iff_structEq hf hx hy nx ny]
  constructor
  · intro h; exact (Res.ok.inj h)
  · intro h; rw [h]


example : Compare.top env tNode x1 y1 = .ok 0 :=
  (compare_zero_iff_structEq env_flagsOk x1_typed y1_typed x1_nanFree y1_nanFree
    env_supported).2 (by cmp_eval [tNode, env, x1, y1, leaf, node, pt, hi, ka, kb, f0, fm0, f1, f2])

/-- On a comparable (map key) type the derived order is the order `cmpKey` the emitted code sorts
map keys by. -/
theorem cmpVal_eq_cmpKey {env : Env} {K : Ty} {k k' : Val} (hf : env.flagsOk = true)
    (hc : canEqual env K = true) (hk : hasType env K k = true) (hk' : hasType env K k' = true) :
    Spec.cmpVal k k' = cmpKey k k' :=
  Cmp.cmpVal_eq_cmpKey hf hc hk hk'

example : Spec.cmpVal (pt f1 f2) (pt f1 fm1) = cmpKey (pt f1 f2) (pt f1 fm1) :=
  cmpVal_eq_cmpKey env_flagsOk (K := tPt) (by decide)
    (by ty_eval [tPt, pt, f1, f2, env]) (by ty_eval [tPt, pt, f1, fm1, env])

/-! ## 5. a single difference decides, in the natural way -/

/-- `false < true` -/
theorem cmpVal_bool_lt :
    Spec.cmpVal (.bool false) (.bool true) = -1 ∧ Spec.cmpVal (.bool true) (.bool false) = 1 := by
  constructor <;> simp [cmpVal_bool, cmpBool]

example : Spec.cmpVal (.bool false) (.bool true) = -1 := cmpVal_bool_lt.1

/-- integers (of every kind) by numeric `<` -/
theorem cmpVal_int_lt (a b : Int) :
    (Spec.cmpVal (.int a) (.int b) = -1 ↔ a < b) ∧ (Spec.cmpVal (.int a) (.int b) = 0 ↔ a = b) ∧
    (Spec.cmpVal (.int a) (.int b) = 1 ↔ b < a) := by
  rw [cmpVal_int]; exact ⟨cmpInt_eq_neg_one, cmpInt_eq_zero, cmpInt_eq_one⟩

example : Spec.cmpVal (.int (-3)) (.int 5) = -1 := (cmpVal_int_lt (-3) 5).1.2 (by decide)

/-- floats by IEEE `<` (`fltLt`), equal exactly on IEEE `==` (`fltEq`, so `+0 = -0`) -/
theorem cmpVal_flt_lt (w a b : Nat) :
    (fltLt w a b = true → Spec.cmpVal (.flt w a) (.flt w b) = -1) ∧
    (fltEq w a b = true ↔ Spec.cmpVal (.flt w a) (.flt w b) = 0) ∧
    (fltLt w b a = true → Spec.cmpVal (.flt w a) (.flt w b) = 1) := by
  rw [cmpVal_flt]; exact ⟨cmpFlt_of_lt, cmpFlt_eq_zero.symm, cmpFlt_of_gt⟩

/-- `-1.0 < +0.0`, and `-0.0` compares 0 with `+0.0` -/
example : Spec.cmpVal (.flt 64 fm1) (.flt 64 f0) = -1 ∧ Spec.cmpVal (.flt 64 fm0) (.flt 64 f0) = 0 :=
  ⟨(cmpVal_flt_lt 64 fm1 f0).1 (by decide), (cmpVal_flt_lt 64 fm0 f0).2.1.1 (by decide)⟩

/-- strings byte-wise: the first differing byte decides, a proper prefix comes first -/
theorem cmpVal_str_bytes (p : List Nat) (x y : Nat) (r s : List Nat) :
    Spec.cmpVal (.str p) (.str (p ++ y :: s)) = -1 ∧
    (x < y → Spec.cmpVal (.str (p ++ x :: r)) (.str (p ++ y :: s)) = -1) ∧
    (y < x → Spec.cmpVal (.str (p ++ x :: r)) (.str (p ++ y :: s)) = 1) := by
  simp only [cmpVal_str]
  refine ⟨cmpBytes_prefix p y s, fun h => ?_, fun h => ?_⟩
  · rw [cmpBytes_append_diff p x y r s (by omega), if_pos h]
  · rw [cmpBytes_append_diff p x y r s (by omega), if_neg (by omega)]

/-- "ab" < "abc", "abd…" > "abc…" -/
example : Spec.cmpVal (.str [97, 98]) (.str [97, 98, 99]) = -1 ∧
    Spec.cmpVal (.str [97, 98, 100, 1]) (.str [97, 98, 99, 2, 3]) = 1 :=
  ⟨(cmpVal_str_bytes [97, 98] 0 99 [] []).1, (cmpVal_str_bytes [97, 98] 100 99 [1] [2, 3]).2.2 (by decide)⟩

/-- complex numbers: real part first, imaginary part when the real parts are `==` -/
theorem cmpVal_cplx_parts (w a b c d : Nat) :
    (fltEq w a c = false →
      Spec.cmpVal (.cplx w a b) (.cplx w c d) = Spec.cmpVal (.flt w a) (.flt w c)) ∧
    (fltEq w a c = true →
      Spec.cmpVal (.cplx w a b) (.cplx w c d) = Spec.cmpVal (.flt w b) (.flt w d)) := by
  simp only [cmpVal_cplx, cmpVal_flt]
  constructor
  · intro h
    exact lex_of_ne _ (fun h0 => by rw [cmpFlt_eq_zero.1 h0] at h; cases h)
  · intro h; rw [cmpFlt_eq_zero.2 h, lex_zero]

/-- `1+2i < 2-1i` by the real parts, `1-1i < 1+2i` by the imaginary parts -/
example : Spec.cmpVal (.cplx 64 f1 f2) (.cplx 64 f2 fm1) = -1 ∧
    Spec.cmpVal (.cplx 64 f1 fm1) (.cplx 64 f1 f2) = -1 := by
  constructor
  · rw [(cmpVal_cplx_parts 64 f1 f2 f2 fm1).1 (by decide)]
    exact (cmpVal_flt_lt 64 f1 f2).1 (by decide)
  · rw [(cmpVal_cplx_parts 64 f1 fm1 f1 f2).2 (by decide)]
    exact (cmpVal_flt_lt 64 fm1 f2).1 (by decide)

/-- nil first: a nil pointer, slice or map is smaller than every non-nil one -/
theorem cmpVal_nil_first (a sp : Nat) (v : Val) :
    Spec.cmpVal .nilv (.ptr a v) = -1 ∧ Spec.cmpVal (.ptr a v) .nilv = 1 ∧
    Spec.cmpVal .nilv (.slice a sp v) = -1 ∧ Spec.cmpVal (.slice a sp v) .nilv = 1 ∧
    Spec.cmpVal .nilv (.map a v) = -1 ∧ Spec.cmpVal (.map a v) .nilv = 1 := by
  simp [cmpVal_nil_left, cmpVal_nil_right]

/-- a nil slice is smaller than the empty non-nil slice -/
example : Spec.cmpVal .nilv (.slice 7 0 .snil) = -1 := (cmpVal_nil_first 7 0 .snil).2.2.1

/-- shorter first: slices and maps are ordered by length before their contents are looked at -/
theorem cmpVal_shorter_first (a sp b sp' : Nat) (xs ys : Val) (h : xs.slen < ys.slen) :
    Spec.cmpVal (.slice a sp xs) (.slice b sp' ys) = -1 ∧
    Spec.cmpVal (.slice b sp' ys) (.slice a sp xs) = 1 ∧
    Spec.cmpVal (.map a xs) (.map b ys) = -1 ∧ Spec.cmpVal (.map b ys) (.map a xs) = 1 := by
  have h1 : (xs.slen != ys.slen) = true := by simp only [bne_iff_ne, ne_eq]; omega
  have h2 : (ys.slen != xs.slen) = true := by simp only [bne_iff_ne, ne_eq]; omega
  have h3 : ¬ ys.slen < xs.slen := by omega
  simp only [cmpVal_slice, cmpVal_map, h1, h2, h, h3, if_true, if_false, and_self]

/-- `["z"] < ["a", "a"]` -/
example : Spec.cmpVal (.slice 1 0 (.scons (.str [122]) .snil))
    (.slice 2 0 (.scons (.str [97]) (.scons (.str [97]) .snil))) = -1 :=
  (cmpVal_shorter_first 1 0 2 0 _ _ (by decide)).1

/-- pointers (both non-nil) compare like their targets; addresses are ignored -/
theorem cmpVal_ptr_target (a : Nat) (v : Val) (b : Nat) (w : Val) :
    Spec.cmpVal (.ptr a v) (.ptr b w) = Spec.cmpVal v w := cmpVal_ptr a v b w

example : Spec.cmpVal (.ptr 99 (.int 1)) (.ptr 3 (.int 2)) = -1 := by
  rw [cmpVal_ptr_target]; exact (cmpVal_int_lt 1 2).1.2 (by decide)

/-- sequences (struct fields, array / slice elements): equally long prefixes that compare 0 are
skipped and the first position that compares non-zero decides -/
theorem cmpSeq_first_diff (pre pre' a b r s : Val) (hl : pre.slen = pre'.slen)
    (h0 : Spec.cmpSeq pre pre' = 0) (hne : Spec.cmpVal a b ≠ 0) :
    Spec.cmpSeq (pre.sapp (.scons a r)) (pre'.sapp (.scons b s)) = Spec.cmpVal a b :=
  cmpSeq_sapp pre pre' a b r s hl h0 hne

/-- prefixes `[+0.0]` / `[-0.0]` compare 0; then `1 < 2` decides, whatever follows -/
example : Spec.cmpSeq
    (Val.sapp (.scons (.flt 64 f0) .snil) (.scons (.int 1) (.scons (.bool true) .snil)))
    (Val.sapp (.scons (.flt 64 fm0) .snil) (.scons (.int 2) (.scons (.bool false) .snil))) = -1 := by
  rw [cmpSeq_first_diff (.scons (.flt 64 f0) .snil) (.scons (.flt 64 fm0) .snil) _ _ _ _ (by decide)
    (by cmp_eval [f0, fm0]) (by cmp_eval)]
  cmp_eval

/-- replacing one field of a struct (NaN-free fields before it): the structs compare like the two
field values -/
theorem cmpVal_struct_field (pre a b r s : Val) (np : nanFree pre = true)
    (hne : Spec.cmpVal a b ≠ 0) :
    Spec.cmpVal (.struct (pre.sapp (.scons a r))) (.struct (pre.sapp (.scons b s))) =
      Spec.cmpVal a b := by
  rw [cmpVal_struct]; exact cmpSeq_replace pre a b r s np hne

/-- `w1` is `x1` with the field `Next` (second field) set to nil: `w1 < x1` because nil is first -/
example : Spec.cmpVal w1 x1 = -1 := by
  have := cmpVal_struct_field (.scons (.int 1) .snil) .nilv (.ptr 10 leaf)
    (.scons (.slice 11 3 (.scons hi .snil))
      (.scons (.map 12 (.scons (.pair ka (pt f1 f2)) (.scons (.pair kb (pt f0 fm0)) .snil)))
      (.scons (.cplx 64 f1 f2) (.scons (.bool false)
      (.scons (.arr (.scons (.int 1) (.scons (.int 2) .snil))) .snil)))))
    (.scons (.slice 11 3 (.scons hi .snil))
      (.scons (.map 12 (.scons (.pair ka (pt f1 f2)) (.scons (.pair kb (pt f0 fm0)) .snil)))
      (.scons (.cplx 64 f1 f2) (.scons (.bool false)
      (.scons (.arr (.scons (.int 1) (.scons (.int 2) .snil))) .snil)))))
    (by decide) (by rw [(cmpVal_nil_first 10 0 leaf).1]; decide)
  rw [(cmpVal_nil_first 10 0 leaf).1] at this
  exact this

/-- replacing one element of an array -/
theorem cmpVal_arr_elem (pre a b r s : Val) (np : nanFree pre = true)
    (hne : Spec.cmpVal a b ≠ 0) :
    Spec.cmpVal (.arr (pre.sapp (.scons a r))) (.arr (pre.sapp (.scons b s))) =
      Spec.cmpVal a b := by
  rw [cmpVal_arr]; exact cmpSeq_replace pre a b r s np hne

/-- `[7, 1, 9] < [7, 2, 0]` -/
example : Spec.cmpVal (.arr (.scons (.int 7) (.scons (.int 1) (.scons (.int 9) .snil))))
    (.arr (.scons (.int 7) (.scons (.int 2) (.scons (.int 0) .snil)))) = -1 := by
  have := cmpVal_arr_elem (.scons (.int 7) .snil) (.int 1) (.int 2) (.scons (.int 9) .snil)
    (.scons (.int 0) .snil) (by decide) (by cmp_eval)
  rw [(cmpVal_int_lt 1 2).1.2 (by decide)] at this
  exact this

/-- replacing one element of a slice (same length) -/
theorem cmpVal_slice_elem (p sp q sp' : Nat) (pre a b r s : Val) (np : nanFree pre = true)
    (hl : r.slen = s.slen) (hne : Spec.cmpVal a b ≠ 0) :
    Spec.cmpVal (.slice p sp (pre.sapp (.scons a r))) (.slice q sp' (pre.sapp (.scons b s))) =
      Spec.cmpVal a b := by
  rw [cmpVal_slice, len_eq]
  · exact cmpSeq_replace pre a b r s np hne
  · simp only [slen_sapp, Val.slen, hl]

/-- `["hi", "a"] < ["hi", "b"]`, backing arrays and capacities ignored -/
example : Spec.cmpVal (.slice 1 5 (.scons hi (.scons ka .snil)))
    (.slice 2 0 (.scons hi (.scons kb .snil))) = -1 := by
  have := cmpVal_slice_elem 1 5 2 0 (.scons hi .snil) ka kb .snil .snil (by decide) rfl
    (by cmp_eval [ka, kb])
  rw [show Spec.cmpVal ka kb = -1 by cmp_eval [ka, kb]] at this
  exact this

/-- replacing the value stored under one key of a map (NaN-free entries, `k == k`): the maps
compare like the two values — whatever the insertion order, because both sides are sorted by key -/
theorem cmpVal_map_value (a b : Nat) (p q k v w : Val)
    (hs : isEntries (p.sapp (.scons (.pair k v) q)) = true)
    (ns : nanFree (p.sapp (.scons (.pair k v) q)) = true) (hk : goEq k k = true)
    (hne : Spec.cmpVal v w ≠ 0) :
    Spec.cmpVal (.map a (p.sapp (.scons (.pair k v) q))) (.map b (p.sapp (.scons (.pair k w) q))) =
      Spec.cmpVal v w :=
  cmpVal_map_replace a b p q k v w hs ns hk hne

/-- `{"b": (0,-0), "a": (1,2)}` vs `{"b": (0,1), "a": (1,2)}` -/
example : Spec.cmpVal (.map 1 (.scons (.pair kb (pt f0 fm0)) (.scons (.pair ka (pt f1 f2)) .snil)))
    (.map 2 (.scons (.pair kb (pt f0 f1)) (.scons (.pair ka (pt f1 f2)) .snil))) = -1 := by
  have := cmpVal_map_value 1 2 .snil (.scons (.pair ka (pt f1 f2)) .snil) kb (pt f0 fm0) (pt f0 f1)
    (by decide) (by decide) (by decide) (by cmp_eval [pt, f0, fm0, f1])
  rw [show Spec.cmpVal (pt f0 fm0) (pt f0 f1) = -1 by cmp_eval [pt, f0, fm0, f1]] at this
  exact this

/-- maps in general, on the key-sorted entry sequences: equally long prefixes that compare 0 are
skipped; then either the keys are `==` and the values decide, or the keys differ and decide -/
theorem cmpEntries_first_diff (pre pre' k v k' w r s : Val) (hp : isEntries pre = true)
    (hp' : isEntries pre' = true) (hl : pre.slen = pre'.slen)
    (h0 : Spec.cmpEntries pre pre' = 0) :
    (goEq k k' = true → Spec.cmpVal v w ≠ 0 →
      Spec.cmpEntries (pre.sapp (.scons (.pair k v) r)) (pre'.sapp (.scons (.pair k' w) s)) =
        Spec.cmpVal v w) ∧
    (goEq k k' = false → cmpKey k k' ≠ 0 →
      Spec.cmpEntries (pre.sapp (.scons (.pair k v) r)) (pre'.sapp (.scons (.pair k' w) s)) =
        cmpKey k k') :=
  ⟨cmpEntries_sapp pre pre' k v k' w r s hp hp' hl h0,
   cmpEntries_sapp_key pre pre' k v k' w r s hp hp' hl h0⟩

/-- `{"a": 1, "b": 5}` vs `{"a": 1, "c": 0}`: after the equal entry `"a"` the keys `"b" < "c"`
decide -/
example : Spec.cmpEntries
    (Val.sapp (.scons (.pair ka (.int 1)) .snil) (.scons (.pair kb (.int 5)) .snil))
    (Val.sapp (.scons (.pair ka (.int 1)) .snil) (.scons (.pair (.str [99]) (.int 0)) .snil))
      = -1 := by
  rw [(cmpEntries_first_diff _ _ kb (.int 5) (.str [99]) (.int 0) .snil .snil (by decide)
    (by decide) rfl (by cmp_eval [ka])).2 (by decide) (by decide)]
  decide

end Goderive.C03
