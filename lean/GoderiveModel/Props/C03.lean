/-
C03. For every supported type and NaN-free values, derived Compare returns only -1, 0 or +1, is
antisymmetric and transitive, and returns 0 exactly when derived Equal holds. Two values that Equal
distinguishes and that differ in a single leaf, or in the nil-ness of a single pointer, slice or map,
are ordered by that difference in the natural way (false<true, numeric <, byte-wise strings, real
before imaginary part, nil first).

Shape of the formalisation:
* `compare_correct`: the MODEL of the emitted code (`Compare.top`, type-directed, may panic) equals
  the value-directed SPECIFICATION `Spec.cmpVal` on typed values of a supported type;
* the order properties are proved of the specification (`cmpVal_*`) and transported to the model
  (`compare_*`);
* "derived Equal holds" is `Spec.structEq` (the specification that C02 proves `Equal.top` computes).
-/
import GoderiveModel.Lemmas.Compare

namespace Goderive.C03
open Goderive Val Spec Cmp

/-! ## example data (used by the non-vacuity examples below) -/

/-- `type Node struct { N int64; Next *Node; Tags []string; M map[string]Pt; Z complex128; B bool;
A [2]uint8 }` (declaration 0) and `type Pt struct { X, Y float64 }` (declaration 1) -/
def env : Env := { decls := [
  { under := .struct (.fcons (.basic (.int 64 true)) (.fcons (.ptr (.named 0))
      (.fcons (.slice (.basic .string)) (.fcons (.map (.basic .string) (.named 1))
      (.fcons (.basic (.complex 128)) (.fcons (.basic .bool)
      (.fcons (.array 2 (.basic (.int 8 false))) .fnil))))))), canEq := false },
  { under := .struct (.fcons (.basic (.float 64)) (.fcons (.basic (.float 64)) .fnil)),
    canEq := true } ] }

def tNode : Ty := .named 0
def tPt : Ty := .named 1

-- IEEE-754 binary64 bit patterns
def f0 : Nat := 0                          -- +0.0
def fm0 : Nat := 9223372036854775808       -- -0.0
def f1 : Nat := 4607182418800017408        -- 1.0
def f2 : Nat := 4611686018427387904        -- 2.0
def fm1 : Nat := 13830554455654793216      -- -1.0
def fnan : Nat := 9221120237041090560      -- NaN

def pt (a b : Nat) : Val := .struct (.scons (.flt 64 a) (.scons (.flt 64 b) .snil))

def node (n : Int) (next tags m : Val) (re im : Nat) (b : Bool) (a0 a1 : Int) : Val :=
  .struct (.scons (.int n) (.scons next (.scons tags (.scons m (.scons (.cplx 64 re im)
    (.scons (.bool b) (.scons (.arr (.scons (.int a0) (.scons (.int a1) .snil))) .snil)))))))

def leaf : Val := node 2 .nilv .nilv .nilv f0 f0 false 0 0

def hi : Val := .str [104, 105]
def ka : Val := .str [97]
def kb : Val := .str [98]

/-- N=1, Next=&leaf, Tags=["hi"], M={"a":(1,2), "b":(0,-0)}, Z=1+2i, B=false, A=[1,2] -/
def x1 : Val := node 1 (.ptr 10 leaf) (.slice 11 3 (.scons hi .snil))
  (.map 12 (.scons (.pair ka (pt f1 f2)) (.scons (.pair kb (pt f0 fm0)) .snil))) f1 f2 false 1 2

/-- as `x1` with other addresses and capacity, the other map insertion order, `+0`/`-0` swapped -/
def y1 : Val := node 1 (.ptr 20 leaf) (.slice 21 0 (.scons hi .snil))
  (.map 22 (.scons (.pair kb (pt fm0 f0)) (.scons (.pair ka (pt f1 f2)) .snil))) f1 f2 false 1 2

/-- as `x1` but `M["b"].Y = 1.0` (a single float leaf inside a map value differs) -/
def z1 : Val := node 1 (.ptr 10 leaf) (.slice 11 3 (.scons hi .snil))
  (.map 12 (.scons (.pair ka (pt f1 f2)) (.scons (.pair kb (pt f0 f1)) .snil))) f1 f2 false 1 2

/-- as `x1` but `Next = nil` (the nil-ness of a single pointer differs) -/
def w1 : Val := node 1 .nilv (.slice 11 3 (.scons hi .snil))
  (.map 12 (.scons (.pair ka (pt f1 f2)) (.scons (.pair kb (pt f0 fm0)) .snil))) f1 f2 false 1 2

theorem env_flagsOk : env.flagsOk = true := by decide
theorem env_supported : SupportedCmp env tNode = true := by decide
theorem x1_typed : hasType env tNode x1 = true := by
  ty_eval [tNode, x1, leaf, node, pt, hi, ka, kb, f0, fm0, f1, f2, env]
theorem y1_typed : hasType env tNode y1 = true := by
  ty_eval [tNode, y1, leaf, node, pt, hi, ka, kb, f0, fm0, f1, f2, env]
theorem z1_typed : hasType env tNode z1 = true := by
  ty_eval [tNode, z1, leaf, node, pt, hi, ka, kb, f0, fm0, f1, f2, env]
theorem w1_typed : hasType env tNode w1 = true := by
  ty_eval [tNode, w1, leaf, node, pt, hi, ka, kb, f0, fm0, f1, f2, env]
theorem x1_nanFree : nanFree x1 = true := by decide
theorem y1_nanFree : nanFree y1 = true := by decide
theorem z1_nanFree : nanFree z1 = true := by decide
theorem w1_nanFree : nanFree w1 = true := by decide
theorem x1_y1 : Spec.cmpVal x1 y1 = 0 := by
  cmp_eval [x1, y1, leaf, node, pt, hi, ka, kb, f0, fm0, f1, f2]
theorem x1_z1 : Spec.cmpVal x1 z1 = -1 := by
  cmp_eval [x1, z1, leaf, node, pt, hi, ka, kb, f0, fm0, f1, f2]
theorem y1_z1 : Spec.cmpVal y1 z1 = -1 := by
  cmp_eval [y1, z1, leaf, node, pt, hi, ka, kb, f0, fm0, f1, f2]
theorem w1_x1 : Spec.cmpVal w1 x1 = -1 := by
  cmp_eval [w1, x1, leaf, node, pt, hi, ka, kb, f0, fm0, f1, f2]

/-! ## 1. the emitted code computes the specification and never panics -/

/-- The function emitted for a supported type `T` computes the lexicographic order `Spec.cmpVal` on
typed values; in particular it never panics. (`env.flagsOk` is not needed for this one.) -/
theorem compare_correct {env : Env} {T : Ty} {x y : Val} (_hf : env.flagsOk = true)
    (hx : hasType env T x = true) (hy : hasType env T y = true)
    (hs : SupportedCmp env T = true) :
    Compare.top env T x y = .ok (Spec.cmpVal x y) := by
  simp only [SupportedCmp, Bool.and_eq_true] at hs
  exact top_correct hs.2 x T y hx hy hs.1


/-- the emitted `deriveCompare(x1, z1)` returns -1 (all hypotheses hold for the example data) -/
example : Compare.top env tNode x1 z1 = .ok (-1) := by
  rw [compare_correct env_flagsOk x1_typed z1_typed env_supported, x1_z1]
example : Compare.top env tNode x1 y1 = .ok 0 := by
  rw [compare_correct env_flagsOk x1_typed y1_typed env_supported, x1_y1]

/-- In component position the generator emits a call to the helper of the component type. -/
theorem compare_field_eq_top {env : Env} {T : Ty} (hs : SupportedCmp env T = true) (x y : Val) :
    Compare.field env T x y = Compare.top env T x y := by
  simp only [SupportedCmp, Bool.and_eq_true] at hs
  exact field_eq_top hs.1 x y


example : Compare.field env tNode x1 z1 = .ok (-1) := by
  rw [compare_field_eq_top env_supported,
    compare_correct env_flagsOk x1_typed z1_typed env_supported, x1_z1]
/-- the hypothesis matters: for an unnamed struct nothing is emitted (`panic`) -/
example : SupportedCmp env (.struct (.fcons (.basic .bool) .fnil)) = false ∧
    Compare.top env (.struct (.fcons (.basic .bool) .fnil))
      (.struct (.scons (.bool true) .snil)) (.struct (.scons (.bool true) .snil)) = .panic := by
  refine ⟨by decide, ?_⟩
  rw [Compare.top.eq_def]; simp [Env.under, Ty.isNamed]

/-! ## 2. range -/

/-- The specification only returns -1, 0 or +1 (for arbitrary values). -/
theorem cmpVal_range (x y : Val) :
    Spec.cmpVal x y = -1 ∨ Spec.cmpVal x y = 0 ∨ Spec.cmpVal x y = 1 :=
  tri_cmpVal x y


example : Spec.cmpVal x1 z1 = -1 ∧ Spec.cmpVal x1 y1 = 0 ∧ Spec.cmpVal z1 x1 = 1 := by
  refine ⟨x1_z1, x1_y1, ?_⟩
  cmp_eval [x1, z1, leaf, node, pt, hi, ka, kb, f0, fm0, f1, f2]

/-- Derived Compare returns -1, 0 or +1. -/
theorem compare_range {env : Env} {T : Ty} {x y : Val} (hf : env.flagsOk = true)
    (hx : hasType env T x = true) (hy : hasType env T y = true)
    (hs : SupportedCmp env T = true) :
    Compare.top env T x y = .ok (-1) ∨ Compare.top env T x y = .ok 0 ∨
      Compare.top env T x y = .ok 1 := by
  rw [compare_correct hf hx hy hs]
  rcases cmpVal_range x y with h | h | h <;> simp [h]


example : Compare.top env tNode w1 x1 = .ok (-1) ∨ Compare.top env tNode w1 x1 = .ok 0 ∨
    Compare.top env tNode w1 x1 = .ok 1 :=
  compare_range env_flagsOk w1_typed x1_typed env_supported

/-! ## 3. antisymmetry and transitivity -/

/-- Swapping the arguments negates the result. -/
theorem cmpVal_antisymm {env : Env} {T : Ty} {x y : Val} (hf : env.flagsOk = true)
    (hx : hasType env T x = true) (hy : hasType env T y = true)
    (nx : nanFree x = true) (ny : nanFree y = true) :
    Spec.cmpVal y x = - Spec.cmpVal x y :=
  antiOK hf x T y hx hy nx ny


example : Spec.cmpVal z1 x1 = 1 := by
  rw [cmpVal_antisymm env_flagsOk x1_typed z1_typed x1_nanFree z1_nanFree, x1_z1]; rfl
/-- NaN-freeness matters: a NaN compares +1 in both directions -/
example : Spec.cmpVal (pt fnan f0) (pt f0 f0) = 1 ∧ Spec.cmpVal (pt f0 f0) (pt fnan f0) = 1 := by
  constructor <;> cmp_eval [pt, fnan, f0]

/-- `≤` is transitive. -/
theorem cmpVal_trans {env : Env} {T : Ty} {x y z : Val} (hf : env.flagsOk = true)
    (hx : hasType env T x = true) (hy : hasType env T y = true) (hz : hasType env T z = true)
    (nx : nanFree x = true) (ny : nanFree y = true) (nz : nanFree z = true)
    (h1 : Spec.cmpVal x y ≤ 0) (h2 : Spec.cmpVal y z ≤ 0) : Spec.cmpVal x z ≤ 0 :=
  (transOK hf x T y z hx hy hz nx ny nz).le (tri_cmpVal ..) (tri_cmpVal ..) h1 h2


/-- `w1 < x1 ≤ y1`, hence `w1 ≤ y1` -/
example : Spec.cmpVal w1 y1 ≤ 0 :=
  cmpVal_trans env_flagsOk w1_typed x1_typed y1_typed w1_nanFree x1_nanFree y1_nanFree
    (by rw [w1_x1]; decide) (by rw [x1_y1]; decide)

/-- `<` is transitive, also when mixed with `≤`. -/
theorem cmpVal_trans_lt {env : Env} {T : Ty} {x y z : Val} (hf : env.flagsOk = true)
    (hx : hasType env T x = true) (hy : hasType env T y = true) (hz : hasType env T z = true)
    (nx : nanFree x = true) (ny : nanFree y = true) (nz : nanFree z = true) :
    (Spec.cmpVal x y < 0 → Spec.cmpVal y z ≤ 0 → Spec.cmpVal x z < 0) ∧
    (Spec.cmpVal x y ≤ 0 → Spec.cmpVal y z < 0 → Spec.cmpVal x z < 0) :=
  ⟨(transOK hf x T y z hx hy hz nx ny nz).lt_of_lt_of_le (tri_cmpVal ..) (tri_cmpVal ..),
   (transOK hf x T y z hx hy hz nx ny nz).lt_of_le_of_lt (tri_cmpVal ..) (tri_cmpVal ..)⟩


/-- `x1 ≤ y1 < z1`, hence `x1 < z1` -/
example : Spec.cmpVal x1 z1 < 0 :=
  (cmpVal_trans_lt env_flagsOk x1_typed y1_typed z1_typed x1_nanFree y1_nanFree z1_nanFree).2
    (by rw [x1_y1]; decide) (by rw [y1_z1]; decide)

/-- Values that compare 0 are interchangeable on either side of a comparison. -/
theorem cmpVal_congr {env : Env} {T : Ty} {x y z : Val} (hf : env.flagsOk = true)
    (hx : hasType env T x = true) (hy : hasType env T y = true) (hz : hasType env T z = true)
    (nx : nanFree x = true) (ny : nanFree y = true) (nz : nanFree z = true) :
    (Spec.cmpVal x y = 0 → Spec.cmpVal x z = Spec.cmpVal y z) ∧
    (Spec.cmpVal y z = 0 → Spec.cmpVal x z = Spec.cmpVal x y) :=
  ⟨(transOK hf x T y z hx hy hz nx ny nz).eqL, (transOK hf x T y z hx hy hz nx ny nz).eqR⟩


example : Spec.cmpVal x1 z1 = Spec.cmpVal y1 z1 :=
  (cmpVal_congr env_flagsOk x1_typed y1_typed z1_typed x1_nanFree y1_nanFree z1_nanFree).1 x1_y1

/-- Derived Compare is antisymmetric. -/
theorem compare_antisymm {env : Env} {T : Ty} {x y : Val} {c : Int} (hf : env.flagsOk = true)
    (hx : hasType env T x = true) (hy : hasType env T y = true)
    (nx : nanFree x = true) (ny : nanFree y = true) (hs : SupportedCmp env T = true)
    (h : Compare.top env T x y = .ok c) : Compare.top env T y x = .ok (-c) := by
  rw [compare_correct hf hx hy hs] at h
  rw [compare_correct hf hy hx hs, cmpVal_antisymm hf hx hy nx ny]
  cases h; rfl


example : Compare.top env tNode z1 x1 = .ok 1 :=
  compare_antisymm env_flagsOk x1_typed z1_typed x1_nanFree z1_nanFree env_supported
    (by rw [compare_correct env_flagsOk x1_typed z1_typed env_supported, x1_z1])

/-- Derived Compare is transitive. -/
theorem compare_trans {env : Env} {T : Ty} {x y z : Val} {c d : Int} (hf : env.flagsOk = true)
    (hx : hasType env T x = true) (hy : hasType env T y = true) (hz : hasType env T z = true)
    (nx : nanFree x = true) (ny : nanFree y = true) (nz : nanFree z = true)
    (hs : SupportedCmp env T = true)
    (h1 : Compare.top env T x y = .ok c) (h2 : Compare.top env T y z = .ok d)
    (hc : c ≤ 0) (hd : d ≤ 0) :
    ∃ e, Compare.top env T x z = .ok e ∧ e ≤ 0 ∧ (c < 0 ∨ d < 0 → e < 0) := by
  rw [compare_correct hf hx hy hs] at h1
  rw [compare_correct hf hy hz hs] at h2
  cases h1; cases h2
  refine ⟨_, compare_correct hf hx hz hs, cmpVal_trans hf hx hy hz nx ny nz hc hd, ?_⟩
  have := cmpVal_trans_lt hf hx hy hz nx ny nz
  rintro (h | h)
  · exact this.1 h hd
  · exact this.2 hc h


example : ∃ e, Compare.top env tNode w1 y1 = .ok e ∧ e ≤ 0 ∧ (-1 < (0 : Int) ∨ (0 : Int) < 0 → e < 0) :=
  compare_trans env_flagsOk w1_typed x1_typed y1_typed w1_nanFree x1_nanFree y1_nanFree
    env_supported
    (by rw [compare_correct env_flagsOk w1_typed x1_typed env_supported, w1_x1])
    (by rw [compare_correct env_flagsOk x1_typed y1_typed env_supported, x1_y1])
    (by decide) (by decide)

/-! ## 4. Compare returns 0 exactly when Equal holds -/

/-- The specification returns 0 exactly on structurally equal values. -/
theorem cmpVal_zero_iff_structEq {env : Env} {T : Ty} {x y : Val} (hf : env.flagsOk = true)
    (hx : hasType env T x = true) (hy : hasType env T y = true)
    (nx : nanFree x = true) (ny : nanFree y = true) :
    Spec.cmpVal x y = 0 ↔ Spec.structEq env T x y = true :=
  zeroOK hf x T y hx hy nx ny


/-- `x1` and `y1` (other addresses, other map order, `+0` vs `-0`) are structurally equal -/
example : Spec.structEq env tNode x1 y1 = true :=
  (cmpVal_zero_iff_structEq env_flagsOk x1_typed y1_typed x1_nanFree y1_nanFree).1 x1_y1
/-- and directly, without the theorem -/
example : Spec.structEq env tNode x1 y1 = true := by
  cmp_eval [tNode, env, x1, y1, leaf, node, pt, hi, ka, kb, f0, fm0, f1, f2]
/-- `x1` and `z1` are not -/
example : Spec.structEq env tNode x1 z1 = false := by
  have h := cmpVal_zero_iff_structEq env_flagsOk x1_typed z1_typed x1_nanFree z1_nanFree
  rw [x1_z1] at h
  cases hh : Spec.structEq env tNode x1 z1
  · rfl
  · exact absurd (h.2 hh) (by decide)

/-- Derived Compare returns 0 exactly when the values are structurally equal (= derived Equal,
by C02). -/
theorem compare_zero_iff_structEq {env : Env} {T : Ty} {x y : Val} (hf : env.flagsOk = true)
    (hx : hasType env T x = true) (hy : hasType env T y = true)
    (nx : nanFree x = true) (ny : nanFree y = true) (hs : SupportedCmp env T = true) :
    Compare.top env T x y = .ok 0 ↔ Spec.structEq env T x y = true := by
  rw [compare_correct hf hx hy hs, ← cmpVal_zero_iff_structEq hf hx hy nx ny]
  constructor
  · intro h; exact (Res.ok.inj h)
  · intro h; rw [h]


example : Compare.top env tNode x1 y1 = .ok 0 :=
  (compare_zero_iff_structEq env_flagsOk x1_typed y1_typed x1_nanFree y1_nanFree
    env_supported).2 (by cmp_eval [tNode, env, x1, y1, leaf, node, pt, hi, ka, kb, f0, fm0, f1, f2])

/-- On a comparable (map key) type the derived order is the order `cmpKey` the emitted code sorts
map keys by. -/
theorem cmpVal_eq_cmpKey {env : Env} {K : Ty} {k k' : Val} (hf : env.flagsOk = true)
    (hc : canEqual env K = true) (hk : hasType env K k = true) (hk' : hasType env K k' = true) :
    Spec.cmpVal k k' = cmpKey k k' :=
  Cmp.cmpVal_eq_cmpKey hf hc hk hk'

example : Spec.cmpVal (pt f1 f2) (pt f1 fm1) = cmpKey (pt f1 f2) (pt f1 fm1) :=
  cmpVal_eq_cmpKey env_flagsOk (K := tPt) (by decide)
    (by ty_eval [tPt, pt, f1, f2, env]) (by ty_eval [tPt, pt, f1, fm1, env])

end Goderive.C03
